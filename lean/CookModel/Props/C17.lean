import CookModel.Lemmas.TextLaws
import CookModel.Lemmas.LexLaws
import CookModel.Lemmas.SimBlocks
import CookModel.Lemmas.SimEvents
import CookModel.Lemmas.TrailingSpace
import CookModel.Lemmas.SimEventsFull
import CookModel.Lemmas.SimBlankLines
import CookModel.Lemmas.RecipeSimStatic
import CookModel.Lemmas.RecipeSimBlank
import CookModel.Lemmas.TrailInst
import CookModel.Lemmas.AuditC17
import CookModel.Lemmas.LooseComp
import CookModel.Lemmas.LooseStep
import CookModel.Lemmas.LooseFront
import CookModel.Lemmas.TableFacts
import CookModel.Lemmas.AdvQtyComment
import CookModel.Lemmas.TextModeSwitch
import CookModel.Lemmas.InsertWF
import CookModel.Lemmas.LoosePads
import CookModel.Lemmas.LooseValue
import CookModel.Lemmas.UnitKeysBlank
import CookModel.Lemmas.NoFence
import CookModel.Lemmas.InlineScanPrefix
import CookModel.Lemmas.InlineBlank
import CookModel.Lemmas.BlankBraces
/-
  C17  Line endings, comments and blank space do not change the recipe.

  Proved here at the level of text assembly, for every token run and every offset (so whatever
  the byte positions become after an insertion): the characters of an assembled text are the
  visible characters of its tokens; hence inserting a comment token anywhere changes nothing, a
  newline token (LF or CRLF alike) is one space, and appending a comment or whitespace to a run only
  appends (nothing or) whitespace.  The end-to-end clause (recipe equal up to whitespace in step
  text, validity equal) for CRLF conversion, trailing comments/spaces, comments between words and
  extra blank/comment-only lines is decided per run on well-formed recipes and filtered soups
  (oracle on the implementation; both variants also go through the model).
-/
namespace Cook

theorem C17_text_is_visible_chars (off : Nat) (ts : List Tok) :
    (buildText off ts).text = ts.flatMap vis := buildText_text off ts

/-- inserting a comment token between any two tokens of a run leaves the text unchanged
    (offsets may all differ: `off`/`off'` and the tokens' own positions are arbitrary) -/
theorem C17_comment_between_words (off off' : Nat) (xs ys : List Tok) (c : Tok)
    (hc : c.kind = .blockComment ∨ c.kind = .lineComment) :
    (buildText off' (xs ++ [c] ++ ys)).text = (buildText off (xs ++ ys)).text := by
  rw [buildText_text, buildText_text]
  have : vis c = [] := by rcases hc with h | h <;> simp [vis, h]
  simp [this]

/-- a trailing comment adds nothing to the text of a line -/
theorem C17_trailing_comment (off : Nat) (xs : List Tok) (c : Tok)
    (hc : c.kind = .blockComment ∨ c.kind = .lineComment) :
    (buildText off (xs ++ [c])).text = (buildText off xs).text := by
  have := C17_comment_between_words off off xs [] c hc
  simpa using this

/-- trailing whitespace only appends that whitespace -/
theorem C17_trailing_space (off : Nat) (xs : List Tok) (w : Tok) (hw : w.kind = .ws) :
    (buildText off (xs ++ [w])).text = (buildText off xs).text ++ w.text := by
  rw [buildText_text, buildText_text]
  simp [vis, hw]

/-- LF and CRLF newline tokens read the same: one space -/
theorem C17_newline_is_space (off off' : Nat) (xs ys : List Tok) (n n' : Tok)
    (hn : n.kind = .newline) (hn' : n'.kind = .newline) (h1 : n.text ≠ []) (h2 : n'.text ≠ []) :
    (buildText off (xs ++ [n] ++ ys)).text = (buildText off' (xs ++ [n'] ++ ys)).text := by
  rw [buildText_text, buildText_text]
  have e1 : vis n = [' '] := by simp [vis, hn, h1]
  have e2 : vis n' = [' '] := by simp [vis, hn', h2]
  simp [e1, e2]

/-- **Trailing white space at the end of a run is invisible after trimming.**  Appending a
    whitespace token (any Unicode white space: blanks, tabs, U+00A0 …) to a token run changes
    neither `Text::text_trimmed()` nor the outer `trim()` nor `is_text_empty()` of the assembled
    text.  The runs this applies to end at the end of a line: a metadata value (`consume_rest` of a
    `>>` line), a section name before the closing `=`/end of line, a component name or note, the
    last line of a step or text block; so `>> k: v` and `>> k: v   ` give the same value, and a name
    that was blank stays blank (same warnings). -/
theorem C17_trailing_space_trimmed (cs : CharSpec) (off : Nat) (xs : List Tok) (w : Tok) (hw : w.kind = .ws)
    (hu : w.text.all cs.uws = true) :
    (buildText off (xs ++ [w])).trimmed cs = (buildText off xs).trimmed cs ∧
    (buildText off (xs ++ [w])).outerTrimmed cs = (buildText off xs).outerTrimmed cs ∧
    (buildText off (xs ++ [w])).isTextEmpty cs = (buildText off xs).isTextEmpty cs :=
  ⟨(tsp_buildText_snoc_ws cs off xs w hw hu).2.1, (tsp_buildText_snoc_ws cs off xs w hw hu).1,
   (tsp_buildText_snoc_ws cs off xs w hw hu).2.2⟩

/-- the lexer merges added blanks into an existing trailing whitespace token: making the last
    whitespace token of a run longer (or different) changes nothing after trimming either -/
theorem C17_trailing_space_widen (cs : CharSpec) (off : Nat) (xs : List Tok) (w w' : Tok)
    (hw : w.kind = .ws) (hw' : w'.kind = .ws) (hu : w.text.all cs.uws = true) (hu' : w'.text.all cs.uws = true) :
    (buildText off (xs ++ [w'])).trimmed cs = (buildText off (xs ++ [w])).trimmed cs ∧
    (buildText off (xs ++ [w'])).isTextEmpty cs = (buildText off (xs ++ [w])).isTextEmpty cs := by
  obtain ⟨a1, _, a3⟩ := C17_trailing_space_trimmed cs off xs w hw hu
  obtain ⟨b1, _, b3⟩ := C17_trailing_space_trimmed cs off xs w' hw' hu'
  exact ⟨b1.trans a1.symm, b3.trans a3.symm⟩

/-- **Blanks in front of a line break inside a step.**  In a multi-line text run, ASCII blanks at
    the end of a line (a whitespace token of blanks directly before a newline token) do not change
    `text_trimmed()`: the line break reads as one blank and `text_trimmed` collapses runs of
    blanks.  Offsets of all later tokens shift, hence `off`/`off'` and the statement for arbitrary
    token positions.  Needs only that the plain blank is white space for `trim`.  (Tabs are NOT
    collapsed by `text_trimmed`, so the statement is about U+0020 only, as in the code.) -/
theorem C17_trailing_space_before_newline (cs : CharSpec) (hsp : cs.uws ' ' = true) (off off' : Nat)
    (xs ys : List Tok) (w nl : Tok) (hw : w.kind = .ws) (hS : ∀ c ∈ w.text, c = ' ')
    (hn : nl.kind = .newline) (hne : nl.text ≠ []) :
    (buildText off' (xs ++ [w, nl] ++ ys)).trimmed cs = (buildText off (xs ++ [nl] ++ ys)).trimmed cs :=
  tsp_buildText_ws_before_newline cs hsp off off' xs ys w nl hw hS hn hne

/-- the character-level law behind it: `text_trimmed` of `a␣␣b` and of `a␣b` agree, wherever the
    blanks are (also at the ends, where `trim` removes them) -/
theorem C17_text_trimmed_collapses (ws : Char → Bool) (hsp : ws ' ' = true) (A S B : List Char)
    (hS : ∀ c ∈ S, c = ' ') : trimmedOf ws (A ++ S ++ ' ' :: B) = trimmedOf ws (A ++ ' ' :: B) :=
  tsp_trimmedOf_blanks ws hsp A S B hS

/-- The CRLF law of the lexer (`crlf_kinds`).  `crlf s` replaces every `'\n'` of `s` that is not
    already preceded by `'\r'` with `"\r\n"`.  For every character table in which CR and LF are
    neither lexer whitespace nor word characters (`CrlfSpec`, true of the real tables) and every
    input without a backslash (`CrlfSafe`: a backslash escapes the LF, but after conversion the
    CR), the converted input lexes to the same number of tokens, of the same kinds, and with the
    same texts except for newline tokens (`"\n"` becomes `"\r\n"`), line comments (they swallow the CR in front of
    the LF) and block comments (they may contain line endings).  Byte offsets do differ.
    DESIGN.md also excludes inputs with a CR that is not followed by LF; at the level of the lexer
    this is not needed (a lone CR starts a word or is a punctuation token before and after, the
    conversion does not touch it), so the law is proved without that condition. -/
theorem C17_crlf (cs : CharSpec) (hcs : CrlfSpec cs) (s : List Char) (hs : CrlfSafe s) :
    (lex cs (crlf s)).map tokAbs = (lex cs s).map tokAbs := lex_crlf cs hcs s hs

/-- the same for a block lexed at any offset (the parser lexes after the front matter) -/
theorem C17_crlf_at_offset (cs : CharSpec) (hcs : CrlfSpec cs) (s : List Char) (hs : CrlfSafe s)
    (off off' : Nat) :
    (lexFrom cs off' (crlf s)).map tokAbs = (lexFrom cs off s).map tokAbs := lexFrom_crlf cs hcs s hs off off'

/-- How the texts that are not preserved change (`CrlfToks`: the two streams have the same length
    and corresponding tokens are related by `CrlfTok`): a newline token becomes `"\r\n"` (it stays
    `"\n"` only directly after a line comment, which has then taken the CR), a line comment keeps
    its text or gets one CR appended, the text of a block comment is converted like the input,
    all other tokens keep their text. -/
theorem C17_crlf_texts (cs : CharSpec) (hcs : CrlfSpec cs) (s : List Char) (hs : CrlfSafe s) (off off' : Nat) :
    CrlfToks (lexFrom cs off' (crlf s)) (lexFrom cs off s) := lexFrom_crlf_toks cs hcs s hs off off'

/-- Consequence for the text of steps, notes and component names: under the conditions of
    `C17_crlf`, every run of tokens (tokens `i … i+j-1` of the stream) has the same visible
    characters before and after CRLF conversion (a newline token is one space either way, comments
    are invisible), hence `BlockParser::text` assembles the same text from corresponding runs,
    whatever the offsets are. -/
theorem C17_crlf_visible_text (cs : CharSpec) (hcs : CrlfSpec cs) (s : List Char) (hs : CrlfSafe s)
    (i j off off' : Nat) :
    (((lex cs (crlf s)).drop i).take j).flatMap vis = (((lex cs s).drop i).take j).flatMap vis ∧
    (buildText off' (((lex cs (crlf s)).drop i).take j)).text =
      (buildText off (((lex cs s).drop i).take j)).text := by
  have h := lex_crlf_run_vis cs hcs s hs i j
  exact ⟨h, by rw [buildText_text, buildText_text, h]⟩

/-- **CRLF at block level.**  Under the conditions of `C17_crlf` (no backslash in the input) the
    block splitter (`PullParser::next_block`) cuts the token stream of the CRLF-converted input
    into the same number of blocks as the stream of the input, and corresponding blocks have the
    same number of tokens, related one to one by `CrlfTok`: same kind, same text except for
    newline tokens (`"\n"` → `"\r\n"`), line comments (may get the CR appended) and block comments
    (converted inside).  `LRel R l m` : `l` and `m` have the same length and `R l[i] m[i]` for all `i`.
    So blank-line detection, single-line (`>>`, `=`) detection, multi-line continuation and the
    trimming of trailing newlines all decide identically; only byte offsets differ. -/
theorem C17_crlf_blocks (cs : CharSpec) (hcs : CrlfSpec cs) (s : List Char) (hs : CrlfSafe s) (off off' : Nat) :
    LRel (LRel CrlfTok)
      (allBlocks ((lexFrom cs off' (crlf s)).length + 1) (lexFrom cs off' (crlf s)))
      (allBlocks ((lexFrom cs off s).length + 1) (lexFrom cs off s)) := crlf_blocks cs hcs s hs off off'

/-- the same in the vocabulary of `C17_crlf`: the lists of blocks are equal after erasing offsets
    and the texts of newline/comment tokens (`tokAbs`) -/
theorem C17_crlf_blocks_abs (cs : CharSpec) (hcs : CrlfSpec cs) (s : List Char) (hs : CrlfSafe s) (off off' : Nat) :
    (allBlocks ((lexFrom cs off' (crlf s)).length + 1) (lexFrom cs off' (crlf s))).map (·.map tokAbs) =
    (allBlocks ((lexFrom cs off s).length + 1) (lexFrom cs off s)).map (·.map tokAbs) :=
  (C17_crlf_blocks cs hcs s hs off off').map_eq _ _ (fun _ _ h => h.map_eq _ _ (fun _ _ ht => crlfTok_tokAbs ht))

/-- The splitter law behind it, for ANY two token streams related token by token by a relation that
    preserves kinds (e.g. streams that differ in offsets, in the spelling of newlines, in the text
    of comments or in the amount of whitespace inside whitespace tokens): same blocks. -/
theorem C17_splitter_kinds_only (R : Tok → Tok → Prop) (hR : ∀ a b, R a b → a.kind = b.kind)
    (fuel : Nat) (l m : List Tok) (h : LRel R l m) : LRel (LRel R) (allBlocks fuel l) (allBlocks fuel m) :=
  sim_allBlocks hR fuel h

/-- **CRLF at event level (partial: inputs without component markers).**
    `EvSim uws e' e` relates two parser events with the same rendered content: same constructor
    (`Start`/`End` of the same block kind, `Text`, `Metadata`, `Section`, `Error`, `Warning`),
    texts related by `TextSim` (same number of fragments, soft breaks at the same places, equal
    fragment texts — hence equal `Text::text()`, `text_trimmed()`, `is_text_empty()`, see
    `C17_textSim_content`), diagnostics with the same severity, stage, kind and number of labels.
    Source spans and label positions are not compared (they do shift).
    Statement: for every character table with `CrlfSpec` and in which CR and LF are Unicode white
    space (`UwsNL`, what `str::trim` uses), every extension set, both values of the
    old-style-metadata flag, every input body `s` without backslash whose token stream contains
    no `@`, `#`, `~` token, lexed at any offsets: running the block parsers over all blocks of the
    CRLF-converted body produces an event list of the same length as for `s`, related event by
    event by `EvSim`.  This covers metadata lines (valid or not, `[mode]` keys under MODES), section
    lines (valid or with trailing junk), `>` text blocks, multi-line text-only steps, and their
    warnings/errors.  MISSING for the full clause: blocks containing components (`@ # ~`): their
    parsers (`ingredient`, `cookware`, `timer`, quantities, modifiers) are not yet covered by the
    relational layer of `Lemmas/SimParser.lean`; and the front-matter split. -/
theorem C17_crlf_events_partial {α : Type} [Arith α] (cs : CharSpec) (hcs : CrlfSpec cs) (hu : UwsNL cs)
    (ext : Ext) (oldStyle : Bool) (s : List Char) (hs : CrlfSafe s) (off off' : Nat)
    (hnm : NoMarker (lexFrom cs off s))
    (acc' acc : Array (Ev α) × Option String) (he : LRel (EvSim cs.uws) acc'.1.toList acc.1.toList) :
    LRel (EvSim cs.uws)
      ((allBlocks ((lexFrom cs off' (crlf s)).length + 1) (lexFrom cs off' (crlf s))).foldl
        (fun a b => runBlock cs ext oldStyle b a.1 a.2) acc').1.toList
      ((allBlocks ((lexFrom cs off s).length + 1) (lexFrom cs off s)).foldl
        (fun a b => runBlock cs ext oldStyle b a.1 a.2) acc).1.toList :=
  crlf_events cs hcs hu ext oldStyle s hs off off' hnm he

/-- the same for the whole `PullParser` run on inputs in which neither variant has a front matter
    block (the front-matter split under CRLF conversion is not modelled relationally yet) -/
theorem C17_crlf_pull_events_partial {α : Type} [Arith α] (cs : CharSpec) (hcs : CrlfSpec cs) (hu : UwsNL cs)
    (ext : Ext) (s : List Char) (hs : CrlfSafe s) (hnm : NoMarker (lex cs s))
    (h1 : parseFrontmatter cs s = none) (h2 : parseFrontmatter cs (crlf s) = none) :
    LRel (EvSim cs.uws) (pullEvents (α := α) cs ext (crlf s)).1.toList (pullEvents (α := α) cs ext s).1.toList :=
  crlf_pullEvents cs hcs hu ext s hs hnm h1 h2

/-- the token-level side condition of the two theorems above follows from a character-level one:
    an input without the characters `@`, `#`, `~` has no component-marker token -/
theorem C17_no_marker_chars (cs : CharSpec) (off : Nat) (s : List Char) (h : '@' ∉ s ∧ '#' ∉ s ∧ '~' ∉ s) :
    NoMarker (lexFrom cs off s) := lexFrom_noMarker cs off s h

/-- what `TextSim` (inside `EvSim`) guarantees about two texts: everything the analysis reads from a
    `Text` except its span -/
theorem C17_textSim_content (cs : CharSpec) (t' t : Text) (h : TextSim cs.uws t' t) :
    t'.text = t.text ∧ t'.trimmed cs = t.trimmed cs ∧ t'.outerTrimmed cs = t.outerTrimmed cs ∧
    t'.isTextEmpty cs = t.isTextEmpty cs ∧ t'.frags.length = t.frags.length :=
  ⟨h.text, h.trimmed, h.outerTrimmed, h.isTextEmpty, LRel.length_eq h⟩

/-- The parser law behind it, for ANY two blocks related token by token by `TokSim` (same kinds,
    same texts except comments, newline tokens spelled `"\n"` or `"\r\n"` on either side, arbitrary
    offsets): if the block has no component marker, `BlockParser` (`parse_block` + `finish`)
    appends related events to related queues. -/
theorem C17_block_parser_offset_blind_partial {α : Type} [Arith α] (cs : CharSpec) (hu : UwsNL cs)
    (b' b : List Tok) (hb : LRel TokSim b' b) (hnm : NoMarker b) (ext : Ext) (oldStyle : Bool)
    (evs' evs : Array (Ev α)) (he : LRel (EvSim cs.uws) evs'.toList evs.toList) (p' p : Option String) :
    LRel (EvSim cs.uws) (runBlock cs ext oldStyle b' evs' p').1.toList (runBlock cs ext oldStyle b evs p).1.toList :=
  runBlock_rel hu hb hnm ext oldStyle he p' p

/-- **CRLF at event level, every backslash-free body** (completes `C17_crlf_events_partial`: the
    no-marker side condition is gone).  `EvSim uws e' e` relates parser events with the same
    content and now also component events: `Ingredient`/`Cookware`/`Timer` with equal modifier
    flags, equal intermediate-reference data, equal quantity values (numbers are computed from the
    digits of `Int` tokens, text values are the trimmed text), scaling lock present on both sides or
    on neither, and names, aliases, notes and units related by `TextSim` (same fragments up to
    offsets, hence equal `text()`, `text_trimmed()`, `is_text_empty()`).  Diagnostics: same
    severity, stage, kind and number of labels.  Spans are not compared (they shift).
    Statement: for every character table with `CrlfSpec` and `UwsNL`, every extension set, both
    values of the old-style-metadata flag, every body `s` without backslash, lexed at any two
    offsets: the lexer, the block splitter and the block parsers (`parse_block`: metadata entries,
    sections, text blocks, steps with ingredients, cookware, timers, quantities in regular and
    advanced form, ranges, fractions, modifiers, intermediate references, aliases, notes, and all
    their warnings and errors) produce for `crlf s` an event list of the same length as for `s`,
    related event by event.  The panic flag is not compared (C03 proves it is never set).
    Not part of this statement: the analysis pass on top of the events (that its result only
    depends on what `EvSim` preserves is checked by the differential/oracle runs of C17). -/
theorem C17_crlf_events {α : Type} [Arith α] (cs : CharSpec) (hcs : CrlfSpec cs) (hu : UwsNL cs)
    (ext : Ext) (oldStyle : Bool) (s : List Char) (hs : CrlfSafe s) (off off' : Nat)
    (acc' acc : Array (Ev α) × Option String) (he : LRel (EvSim cs.uws) acc'.1.toList acc.1.toList) :
    LRel (EvSim cs.uws)
      ((allBlocks ((lexFrom cs off' (crlf s)).length + 1) (lexFrom cs off' (crlf s))).foldl
        (fun a b => runBlock cs ext oldStyle b a.1 a.2) acc').1.toList
      ((allBlocks ((lexFrom cs off s).length + 1) (lexFrom cs off s)).foldl
        (fun a b => runBlock cs ext oldStyle b a.1 a.2) acc).1.toList :=
  crlf_eventsF cs hcs hu ext oldStyle s hs off off' he

/-- **Front matter under CRLF conversion.**  For every character table in which CR and LF are
    Unicode white space (what `trim_end`/`trim` use) and EVERY input `s` (no side condition):
    `parse_frontmatter (crlf s)` finds front matter iff `parse_frontmatter s` does (same fence
    lines: a line is `---` after `trim_end` before and after conversion; the lines in front of the
    first fence are blank before and after), and then the YAML text of the converted input is the
    converted YAML text and the recipe text after the closing fence is the converted recipe text
    (`FmCrlf`).  Offsets differ. -/
theorem C17_crlf_frontmatter (cs : CharSpec) (hu : UwsNL cs) (s : List Char) :
    OptRel FmCrlf (parseFrontmatter cs (crlf s)) (parseFrontmatter cs s) := crlf_frontmatter cs hu s

/-- the two readings of `OptRel FmCrlf`: front matter is found in both or in neither … -/
theorem C17_crlf_frontmatter_iff (cs : CharSpec) (hu : UwsNL cs) (s : List Char) :
    (parseFrontmatter cs (crlf s)).isSome = (parseFrontmatter cs s).isSome := by
  have h := (crlf_frontmatter cs hu s).isNone
  cases h1 : parseFrontmatter cs (crlf s) <;> cases h2 : parseFrontmatter cs s <;> simp [h1, h2] at h ⊢

/-- … and if found, the texts are the converted texts -/
theorem C17_crlf_frontmatter_texts (cs : CharSpec) (hu : UwsNL cs) (s : List Char) (fm : FrontMatter)
    (h : parseFrontmatter cs s = some fm) :
    ∃ fm', parseFrontmatter cs (crlf s) = some fm' ∧ fm'.yamlText = crlf fm.yamlText ∧
      fm'.cookText = crlf fm.cookText := by
  have hr := crlf_frontmatter cs hu s
  rw [h] at hr
  rcases hr.elim with ⟨_, e⟩ | ⟨fm', fm2, e', e, hf⟩
  · cases e
  · cases e
    exact ⟨fm', e', hf.1, hf.2⟩

/-- **CRLF conversion of a whole input** (completes `C17_crlf_pull_events_partial`: no marker
    condition, front matter allowed).  For every backslash-free input `s` the `PullParser` run
    (front-matter split, lexer, block splitter, block parsers) on `crlf s` yields as many events as
    on `s`, related one by one by `EvSim`; the front-matter event, if any, carries the converted
    YAML text (`FmTextCrlf` inside `EvSim`; the YAML parser itself is outside the model). -/
theorem C17_crlf_pull_events {α : Type} [Arith α] (cs : CharSpec) (hcs : CrlfSpec cs) (hu : UwsNL cs)
    (ext : Ext) (s : List Char) (hs : CrlfSafe s) :
    LRel (EvSim cs.uws) (pullEvents (α := α) cs ext (crlf s)).1.toList (pullEvents (α := α) cs ext s).1.toList :=
  crlf_pullEventsF cs hcs hu ext s hs

/-- The parser law behind it (completes `C17_block_parser_offset_blind_partial`): for ANY two
    blocks related token by token by `TokSim` (same kinds, same texts except comments, newline
    tokens spelled `"\n"` or `"\r\n"` on either side, arbitrary offsets) `BlockParser`
    (`parse_block` + `finish`) appends related events to related queues.  So every transformation
    of the source that changes only offsets, newline spellings and comment texts of a block's
    tokens leaves the parsed content of the block unchanged. -/
theorem C17_block_parser_offset_blind {α : Type} [Arith α] (cs : CharSpec) (hu : UwsNL cs)
    (b' b : List Tok) (hb : LRel TokSim b' b) (ext : Ext) (oldStyle : Bool)
    (evs' evs : Array (Ev α)) (he : LRel (EvSim cs.uws) evs'.toList evs.toList) (p' p : Option String) :
    LRel (EvSim cs.uws) (runBlock cs ext oldStyle b' evs' p').1.toList (runBlock cs ext oldStyle b evs p).1.toList :=
  runBlock_relF hu hb ext oldStyle he p' p

/-- the quantity sub-parser (`parse_quantity`, which runs on the tokens between the braces) on
    related quantity tokens from related outer states: related quantity (equal value, lock on both
    sides or neither, unit with the same content), related outer states afterwards -/
theorem C17_parse_quantity_offset_blind {α : Type} [Arith α] (cs : CharSpec) (hu : UwsNL cs)
    (ts' ts q' q : List Tok) (hq : LRel TokSim q' q) :
    Rel (α := α) cs ts' ts (parseQuantity q') (parseQuantity q) (ParsedQSim cs.uws) := parseQuantity_rel hu hq

/-- what `EvSim` guarantees about two ingredient events: everything the analysis reads except spans -/
theorem C17_evSim_ingredient {α : Type} [Arith α] (cs : CharSpec) (i' i : Loc (PIngredient α))
    (h : EvSim cs.uws (.ingredient i') (.ingredient i)) :
    i'.val.modifiers.val = i.val.modifiers.val ∧ i'.val.name.trimmed cs = i.val.name.trimmed cs ∧
    i'.val.alias.map (·.trimmed cs) = i.val.alias.map (·.trimmed cs) ∧
    i'.val.note.map (·.trimmed cs) = i.val.note.map (·.trimmed cs) ∧
    i'.val.inter.map (·.val) = i.val.inter.map (·.val) ∧
    i'.val.quantity.map (fun q => (q.val.value.value.val, q.val.value.lock.isSome, q.val.unit.map (·.trimmed cs))) =
      i.val.quantity.map (fun q => (q.val.value.value.val, q.val.value.lock.isSome, q.val.unit.map (·.trimmed cs))) := by
  unfold EvSim at h
  obtain ⟨h1, h2, h3, h4, h5, h6⟩ := h
  have hopt : ∀ {a' a : Option Text}, OptRel (TextSim cs.uws) a' a →
      a'.map (·.trimmed cs) = a.map (·.trimmed cs) := by
    intro a' a hr
    rcases hr.elim with ⟨rfl, rfl⟩ | ⟨x', x, rfl, rfl, hx⟩
    · rfl
    · simp [hx.trimmed]
  refine ⟨h1, h3.trimmed, hopt h4, hopt h6, ?_, ?_⟩
  · rcases h2.elim with ⟨e', e⟩ | ⟨x', x, e', e, hx⟩
    · rw [e', e]
    · rw [e', e]; simp only [Option.map_some]; exact congrArg some hx
  · rcases h5.elim with ⟨e', e⟩ | ⟨x', x, e', e, hx⟩
    · rw [e', e]
    · rw [e', e]
      obtain ⟨⟨hv, hl⟩, hunit⟩ := hx
      simp only [Option.map_some, hv, hl, hopt hunit]

/-- **Extra blank / comment-only lines between blocks (token level).**  `IsLine l`: `l` is a run of
    tokens without a newline token, closed by a newline token.  `EmptyLine E`: a complete line of
    whitespace / comment tokens only — what a blank line and a comment-only line (`-- …`, `[- … -]`)
    lex to.  `blocksOf ts` = the blocks `PullParser::next_block` cuts from `ts`
    (`allBlocks (ts.length + 1) ts`).  Statement: let the stream consist of complete lines `L`, an
    empty line `E0`, and any rest `X`; inserting a further empty line `E` directly after `E0`
    yields the same list of blocks as the stream `Y` without it, block by block and token by token
    up to any kind-preserving relation `R` between the stream behind the insertion (whose byte
    offsets shift) and the original stream `Y`.  So blank-line skipping, the end of a multi-line
    block at an empty line, single-line (`>>`, `=`) detection and trailing-newline trimming are all
    blind to repeated empty lines. -/
theorem C17_extra_blank_lines_blocks (R : Tok → Tok → Prop) (hR : ∀ a b, R a b → a.kind = b.kind)
    (L : List (List Tok)) (hL : ∀ l ∈ L, IsLine l) (E0 E X : List Tok)
    (hE0 : EmptyLine E0) (hE : EmptyLine E) (Y : List Tok) (hY : LRel R (L.flatten ++ (E0 ++ X)) Y) :
    LRel (LRel R) (blocksOf (L.flatten ++ (E0 ++ (E ++ X)))) (blocksOf Y) :=
  blocks_extra_empty_line_rel hR L hL E0 E X hE0 hE Y hY

/-- the same with identical tokens: literally the same blocks -/
theorem C17_extra_blank_lines_blocks_eq (L : List (List Tok)) (hL : ∀ l ∈ L, IsLine l) (E0 E X : List Tok)
    (hE0 : EmptyLine E0) (hE : EmptyLine E) :
    blocksOf (L.flatten ++ (E0 ++ (E ++ X))) = blocksOf (L.flatten ++ (E0 ++ X)) :=
  blocks_extra_empty_line L hL E0 E X hE0 hE

/-- an extra empty line at the very start of the recipe body: the same blocks -/
theorem C17_leading_blank_line_blocks (R : Tok → Tok → Prop) (hR : ∀ a b, R a b → a.kind = b.kind)
    (E X : List Tok) (hE : EmptyLine E) (Y : List Tok) (hY : LRel R X Y) :
    LRel (LRel R) (blocksOf (E ++ X)) (blocksOf Y) :=
  blocks_leading_empty_line_rel hR E X hE Y hY

/-- **Extra blank / comment-only line in the source text.**  Source `u e0 x` with `u` lexing to
    complete lines, `e0` a blank or comment-only line (lexes to an empty line); inserting a further
    blank or comment-only line `e` after `e0`: the lexer restarts after every newline token
    (`lexFrom_append_nl`), so the token stream of `u e0 e x` is that of `u e0 x` with the tokens of `e`
    inserted and the tokens of `x` shifted, and `next_block` cuts the same blocks: same number of
    blocks, corresponding blocks token by token with the same kind and text (`SameKT`). -/
theorem C17_extra_blank_line_source (cs : CharSpec) (u e0 e x : List Char) (L : List (List Tok))
    (hu : lex cs u = L.flatten) (hL : ∀ l ∈ L, IsLine l)
    (hE0 : EmptyLine (lexFrom cs (utf8Len u) e0))
    (hE : EmptyLine (lexFrom cs (utf8Len u + utf8Len e0) e)) :
    LRel (LRel SameKT) (blocksOf (lex cs (u ++ (e0 ++ (e ++ x))))) (blocksOf (lex cs (u ++ (e0 ++ x)))) :=
  blocks_extra_blank_line_source cs u e0 e x L hu hL hE0 hE

/-- **… and the same events.**  With `R := TokSim` (same kinds and texts, offsets free): the block
    parsers run over the blocks of the stream with the extra empty line emit events related by
    `EvSim` (same content, spans shifted) to those of the original stream. -/
theorem C17_extra_blank_lines_events {α : Type} [Arith α] (cs : CharSpec) (hu : UwsNL cs) (ext : Ext) (oldStyle : Bool)
    (L : List (List Tok)) (hL : ∀ l ∈ L, IsLine l) (E0 E X : List Tok)
    (hE0 : EmptyLine E0) (hE : EmptyLine E) (Y : List Tok) (hY : LRel TokSim (L.flatten ++ (E0 ++ X)) Y)
    (acc' acc : Array (Ev α) × Option String) (he : LRel (EvSim cs.uws) acc'.1.toList acc.1.toList) :
    LRel (EvSim cs.uws)
      ((blocksOf (L.flatten ++ (E0 ++ (E ++ X)))).foldl (fun a b => runBlock cs ext oldStyle b a.1 a.2) acc').1.toList
      ((blocksOf Y).foldl (fun a b => runBlock cs ext oldStyle b a.1 a.2) acc).1.toList :=
  foldl_runBlock_relF hu ext oldStyle (blocks_extra_empty_line_rel tokSim_kindPres L hL E0 E X hE0 hE Y hY) he

/-! ### The lift through the analysis pass (`RecipeCollector::parse_events`)

  `ColSim uws c' c` (Lemmas/RecipeSim.lean) relates two collector states with the same recipe:
  EQUAL sections / current section / open block (so step items and text items are equal outright,
  no normalisation needed: `EvSim` gives equal `Text::text()`), EQUAL ingredient, cookware, timer and
  inline-quantity tables (names, aliases, quantities, units, notes, modifiers, relations), EQUAL
  `>>` metadata map, servings, modes and step counter; diagnostics of the same severity, stage, kind
  and number of labels in the same order (`DiagSim`; label positions shift); `locations.metadata`
  with the same keys in the same order; the same number of recorded old-style-metadata spans and
  component locations; front matter present on both sides or on neither (same YAML text up to the
  CRLF conversion, `FmSim`).  The panic flag is not compared (C03 proves it is never set).
  `ResSim uws r' r`: both results have an output or neither, outputs `ColSim`-related, reports
  `DiagSim`-related one by one. -/

/-- what `ColSim` guarantees about the recipe content -/
theorem C17_colSim_content {α : Type} [Arith α] (uws : Char → Bool) (c' c : Col α) (h : ColSim uws c' c) :
    c'.sections = c.sections ∧ c'.cur = c.cur ∧ c'.ingredients = c.ingredients ∧ c'.cookware = c.cookware ∧
    c'.timers = c.timers ∧ c'.inlineQ = c.inlineQ ∧ c'.metaMap = c.metaMap ∧ c'.servings = c.servings ∧
    c'.frontMatter.isSome = c.frontMatter.isSome ∧
    c'.diags.toList.map (fun d => (d.sev, d.stage, d.kind, d.labels.length)) =
      c.diags.toList.map (fun d => (d.sev, d.stage, d.kind, d.labels.length)) := by
  refine ⟨h.sections, h.cur, h.ingredients, h.cookware, h.timers, h.inlineQ, h.metaMap, h.servings, ?_, ?_⟩
  · have := h.frontMatter.isNone
    cases h1 : c'.frontMatter <;> cases h2 : c.frontMatter <;> simp [h1, h2] at this ⊢
  · exact h.diags.map_eq _ _ (fun a b hab => by obtain ⟨h1, h2, h3, h4⟩ := hab; simp only [h1, h2, h3, h4])

/-- what `ResSim` guarantees: the same validity (an output on both sides or on neither, and
    reports with the same severities — hence an error in both or in neither), same kinds in the
    same order -/
theorem C17_resSim_validity {α : Type} [Arith α] (uws : Char → Bool) (r' r : AnalysisResult α) (h : ResSim uws r' r) :
    r'.output.isSome = r.output.isSome ∧
    r'.diags.toList.map (fun d => (d.sev, d.stage, d.kind, d.labels.length)) =
      r.diags.toList.map (fun d => (d.sev, d.stage, d.kind, d.labels.length)) := h.valid

/-- **One event.**  For every environment (character table, extensions, unit lookup, standard
    metadata verdicts, case folding) and ANY two source texts: `process_event` on `EvSim`-related
    events takes `ColSim`-related collector states to `ColSim`-related states — every collector
    function (`ingredient`, `cookware`, `timer`, `resolve_reference`, `resolve_intermediate_ref`,
    the unit / note / quantity checks of references, `metadata` with modes and standard keys,
    `time_override_check`, step text with inline quantities, block start / end, sections) reads the
    events only through what `EvSim` preserves, and the source text only for label positions.
    The single exception is excluded by `¬ TextModeSliceAt ev c`: a component event that meets an
    open TEXT buffer (define mode `text`), where `&input[span]` is copied into the text. -/
theorem C17_analysis_event_step {α : Type} [Arith α] (env : Env) (input' input : Str) (ev' ev : Ev α)
    (h : EvSim env.cs.uws ev' ev) (c' c : Col α) (hc : ColSim env.cs.uws c' c) (hns : ¬ TextModeSliceAt ev c) :
    ColSim env.cs.uws (processEvent env input' ev' c').2 (processEvent env input ev c).2 :=
  processEvent_sim env input' input h hc hns

/-- **The analysis respects `EvSim`.**  For every environment and any two source texts,
    `parse_events` maps `EvSim`-related event lists to `ResSim`-related results: the same recipe
    (`ColSim`: sections, steps, items, text items, component tables, metadata map all equal), the
    same validity, diagnostics of the same kinds in the same order.  Hypothesis `TextModeFree env
    input evs {}`: along the analysis of `evs` no component event meets an open text buffer (define
    mode `text` of the MODES extension never copies source text); it is stated on ONE side only.
    `C17_text_mode_free_modes_off` discharges it for parser output when MODES is off. -/
theorem C17_analysis_respects_evsim {α : Type} [Arith α] (env : Env) (input' input : Str) (evs' evs : List (Ev α))
    (h : LRel (EvSim env.cs.uws) evs' evs) (hf : TextModeFree env input evs {}) :
    ResSim env.cs.uws (parseEvents env input' evs') (parseEvents env input evs) :=
  parseEvents_sim env input' input h hf

/-- without the MODES extension the events of the pull parser (well bracketed: components only
    inside step blocks) never reach the text-mode branch, whatever the input is -/
theorem C17_text_mode_free_modes_off {α : Type} [Arith α] (env : Env) (hm : env.ext.has Gen.EXT_MODES = false)
    (s : List Char) : TextModeFree env s (pullEvents (α := α) env.cs env.ext s).1.toList {} :=
  pullEvents_textModeFree env hm s

/-- **CRLF conversion leaves the parsed recipe unchanged (partial: text define mode).**  For every
    environment whose character table satisfies `CrlfSpec` and `UwsNL` (true of the real tables)
    and every backslash-free input `s` whose analysis never copies a component's source into a
    text-mode block (`TextModeFree`): `parse (crlf s)` and `parse s` are `ResSim`-related — the same
    sections, steps and items with EQUAL text items, the same ingredient / cookware / timer /
    inline-quantity tables, the same metadata map, the same validity, diagnostics of the same kinds
    in the same order.  MISSING for the full clause: inputs that switch to `[mode]: text` and then
    contain components.  There the statement with EQUAL texts is false (a component spanning a line
    break is copied with `\r\n` instead of `\n`); equality up to white space would need the spans
    of the two event lists to be related, which `EvSim` deliberately does not do. -/
theorem C17_crlf_recipe_partial {α : Type} [Arith α] (env : Env) (hcs : CrlfSpec env.cs) (hu : UwsNL env.cs)
    (s : List Char) (hs : CrlfSafe s)
    (hf : TextModeFree env s (pullEvents (α := α) env.cs env.ext s).1.toList {}) :
    ResSim env.cs.uws (parseRecipe (α := α) env (crlf s)) (parseRecipe (α := α) env s) :=
  crlf_parseRecipe_sim env hcs hu s hs hf

/-- **CRLF conversion, every backslash-free input, MODES extension off.**  No side condition on
    the input besides `CrlfSafe`: same recipe, same validity, same diagnostics up to positions. -/
theorem C17_crlf_recipe_modes_off {α : Type} [Arith α] (env : Env) (hcs : CrlfSpec env.cs) (hu : UwsNL env.cs)
    (hm : env.ext.has Gen.EXT_MODES = false) (s : List Char) (hs : CrlfSafe s) :
    ResSim env.cs.uws (parseRecipe (α := α) env (crlf s)) (parseRecipe (α := α) env s) :=
  crlf_parseRecipe_sim env hcs hu s hs (pullEvents_textModeFree env hm s)

/-- in particular: equally valid, and literally the same sections and tables when valid -/
theorem C17_crlf_recipe_valid_modes_off {α : Type} [Arith α] (env : Env) (hcs : CrlfSpec env.cs) (hu : UwsNL env.cs)
    (hm : env.ext.has Gen.EXT_MODES = false) (s : List Char) (hs : CrlfSafe s) :
    (parseRecipe (α := α) env (crlf s)).output.isSome = (parseRecipe (α := α) env s).output.isSome ∧
    ∀ c' c, (parseRecipe (α := α) env (crlf s)).output = some c' → (parseRecipe (α := α) env s).output = some c →
      c'.sections = c.sections ∧ c'.ingredients = c.ingredients ∧ c'.cookware = c.cookware ∧
      c'.timers = c.timers ∧ c'.inlineQ = c.inlineQ ∧ c'.metaMap = c.metaMap := by
  have h := C17_crlf_recipe_modes_off (α := α) env hcs hu hm s hs
  refine ⟨h.valid.1, fun c' c e' e => ?_⟩
  have ho := h.output
  rw [e', e] at ho
  have hc : ColSim env.cs.uws c' c := ho
  exact ⟨hc.sections, hc.ingredients, hc.cookware, hc.timers, hc.inlineQ, hc.metaMap⟩

/-- **Extra blank / comment-only lines leave the parsed recipe unchanged (token level).**  In the
    setting of `C17_extra_blank_lines_events` (stream `L E0 E X` against `Y` ≈ `L E0 X`), running the
    analysis on the two event lists gives `ResSim`-related results, for any two source texts, under
    the same text-mode proviso as above (stated on the side without the extra line). -/
theorem C17_extra_blank_lines_recipe_partial {α : Type} [Arith α] (env : Env) (hu : UwsNL env.cs) (oldStyle : Bool)
    (input' input : Str)
    (L : List (List Tok)) (hL : ∀ l ∈ L, IsLine l) (E0 E X : List Tok)
    (hE0 : EmptyLine E0) (hE : EmptyLine E) (Y : List Tok) (hY : LRel TokSim (L.flatten ++ (E0 ++ X)) Y)
    (acc' acc : Array (Ev α) × Option String) (he : LRel (EvSim env.cs.uws) acc'.1.toList acc.1.toList)
    (hf : TextModeFree env input
      ((blocksOf Y).foldl (fun a b => runBlock env.cs env.ext oldStyle b a.1 a.2) acc).1.toList {}) :
    ResSim env.cs.uws
      (parseEvents env input'
        ((blocksOf (L.flatten ++ (E0 ++ (E ++ X)))).foldl (fun a b => runBlock env.cs env.ext oldStyle b a.1 a.2) acc').1.toList)
      (parseEvents env input
        ((blocksOf Y).foldl (fun a b => runBlock env.cs env.ext oldStyle b a.1 a.2) acc).1.toList) :=
  parseEvents_sim env input' input
    (C17_extra_blank_lines_events env.cs hu env.ext oldStyle L hL E0 E X hE0 hE Y hY acc' acc he) hf

/-! non-vacuity: a character table satisfying `CrlfSpec`, an input satisfying `CrlfSafe` on which
    `crlf` does something, and the excluded shape -/

example : CrlfSpec toyCharSpec := ⟨by decide, by decide, by decide, by decide⟩
example : CrlfSafe ['a', '\r', ' ', '-', '-', 'x', '\n', '[', '-', '\n', '-', ']', 'b', '\r', '\n', '\n'] := by decide
example : crlf ['a', '\r', ' ', '-', '-', 'x', '\n', '[', '-', '\n', '-', ']', 'b', '\r', '\n', '\n'] =
    ['a', '\r', ' ', '-', '-', 'x', '\r', '\n', '[', '-', '\r', '\n', '-', ']', 'b', '\r', '\n', '\r', '\n'] := by decide
example : ¬ CrlfSafe ['a', '\\', '\n'] := by decide
/-- the law on a concrete input … -/
example : (lex toyCharSpec (crlf ['a', '\n', '-', '-', 'x', '\n'])).map tokAbs =
    [(.word, ['a']), (.newline, []), (.lineComment, []), (.newline, [])] := by
  simp [lex, lexFrom_cons, lexOne, crlf, crlfAux, tokAbs, crlfVolatile, singleKind, singleTable,
    toyCharSpec, isAsciiDigit, lexFrom]
/-- … and the side condition is needed: an escaped LF -/
example : (lex toyCharSpec (crlf ['a', '\\', '\n'])).map tokAbs ≠ (lex toyCharSpec ['a', '\\', '\n']).map tokAbs := by
  simp [lex, lexFrom_cons, lexOne, crlf, crlfAux, tokAbs, crlfVolatile, singleKind, singleTable,
    toyCharSpec, isAsciiDigit, lexFrom]

/-! non-vacuity for the event-level theorems: the toy table treats CR and LF as white space; an
    input with a metadata line, a section line, a two-line step and a text block, without front
    matter before and after conversion -/
example : UwsNL toyCharSpec := ⟨by decide, by decide⟩
example : CrlfSafe ">> k: v\n\n= s =\n\nline one\nline two\n\n> note\n".toList := by decide
example : '@' ∉ ">> k: v\n\n= s =\n\nline one\nline two\n\n> note\n".toList ∧
    '#' ∉ ">> k: v\n\n= s =\n\nline one\nline two\n\n> note\n".toList ∧
    '~' ∉ ">> k: v\n\n= s =\n\nline one\nline two\n\n> note\n".toList := by decide
example : (parseFrontmatter toyCharSpec ">> k: v\n\n= s =\n\nline one\nline two\n\n> note\n".toList).isNone = true := by
  decide
example : (parseFrontmatter toyCharSpec (crlf ">> k: v\n\n= s =\n\nline one\nline two\n\n> note\n".toList)).isNone = true := by
  decide

/-! non-vacuity for the trailing-space laws: "a  \nb" against "a\nb", and a run ending in blanks -/
example : (buildText 0 [⟨.word, ['a'], 0⟩, ⟨.ws, [' ', ' '], 1⟩, ⟨.newline, ['\n'], 3⟩, ⟨.word, ['b'], 4⟩]).trimmed toyCharSpec
    = ['a', ' ', 'b'] := by decide
example : (buildText 0 [⟨.word, ['a'], 0⟩, ⟨.newline, ['\n'], 1⟩, ⟨.word, ['b'], 2⟩]).trimmed toyCharSpec
    = ['a', ' ', 'b'] := by decide
example : (buildText 0 [⟨.word, ['a'], 0⟩, ⟨.ws, [' ', '\t'], 1⟩]).trimmed toyCharSpec = ['a'] := by decide
example : toyCharSpec.uws ' ' = true := by decide

/-! non-vacuity for the full event-level theorems: a recipe with front matter, an ingredient with
    a quantity spanning a line break, cookware and a timer -/
example : CrlfSafe "---\ntitle: x\n---\nAdd @salt{1\n%g} to #pot and wait ~{5%min}.\n".toList := by decide
example : (parseFrontmatter toyCharSpec "---\ntitle: x\n---\nAdd @salt{1%g}\n".toList).isSome = true := by decide
example : (parseFrontmatter toyCharSpec (crlf "---\ntitle: x\n---\nAdd @salt{1%g}\n".toList)).isSome = true := by decide
example : ((parseFrontmatter toyCharSpec (crlf "---\ntitle: x\n---\nAdd @salt{1%g}\n".toList)).map (·.yamlText)) =
    some "title: x\r\n".toList := by decide

/-! non-vacuity for the blank-line laws: the tokens of `a\n`, of a blank line and of a comment-only line -/
example : IsLine [⟨.word, ['a'], 0⟩, ⟨.newline, ['\n'], 1⟩] :=
  ⟨[⟨.word, ['a'], 0⟩], ⟨.newline, ['\n'], 1⟩, rfl, by decide, rfl⟩
example : EmptyLine [⟨.ws, [' '], 2⟩, ⟨.newline, ['\n'], 3⟩] :=
  ⟨⟨[⟨.ws, [' '], 2⟩], ⟨.newline, ['\n'], 3⟩, rfl, by decide, rfl⟩, by decide⟩
example : EmptyLine [⟨.lineComment, ['-', '-', 'x'], 4⟩, ⟨.newline, ['\n'], 7⟩] :=
  ⟨⟨[⟨.lineComment, ['-', '-', 'x'], 4⟩], ⟨.newline, ['\n'], 7⟩, rfl, by decide, rfl⟩, by decide⟩
/-- "a\n \nb" and "a\n \n--x\nb": one block `a`, one block `b` either way -/
example : (blocksOf ([⟨.word, ['a'], 0⟩, ⟨.newline, ['\n'], 1⟩] ++ ([⟨.ws, [' '], 2⟩, ⟨.newline, ['\n'], 3⟩] ++
    ([⟨.lineComment, ['-', '-', 'x'], 4⟩, ⟨.newline, ['\n'], 7⟩] ++ [⟨.word, ['b'], 8⟩])))).length = 2 := by decide

/-- the source-level hypotheses on "a\n" / "\n" / "--x\n" -/
example : lex toyCharSpec ['a', '\n'] = [[⟨.word, ['a'], 0⟩, ⟨.newline, ['\n'], 1⟩]].flatten := by
  simp [lex, lexFrom_cons, lexOne, singleKind, singleTable, toyCharSpec, isAsciiDigit, lexFrom, utf8Len]
  decide
example : lexFrom toyCharSpec 2 ['\n'] = [⟨.newline, ['\n'], 2⟩] := by
  simp [lexFrom_cons, lexOne, lexFrom]
example : lexFrom toyCharSpec 3 ['-', '-', 'x', '\n'] = [⟨.lineComment, ['-', '-', 'x'], 3⟩, ⟨.newline, ['\n'], 6⟩] := by
  simp [lexFrom_cons, lexOne, lexFrom, utf8Len]
  decide

/-- **Extra blank / comment-only line in the source: same events** (inputs without front matter).
    In the setting of `C17_extra_blank_line_source` (source `u e0 x`, a further blank or comment-only
    line `e` inserted after `e0`), when neither variant has a front-matter block, the whole
    `PullParser` run yields `EvSim`-related event lists (all spans behind the insertion shift). -/
theorem C17_extra_blank_line_source_events {α : Type} [Arith α] (cs : CharSpec) (hu : UwsNL cs) (ext : Ext)
    (u e0 e x : List Char) (L : List (List Tok)) (hlu : lex cs u = L.flatten) (hL : ∀ l ∈ L, IsLine l)
    (hE0 : EmptyLine (lexFrom cs (utf8Len u) e0)) (hE : EmptyLine (lexFrom cs (utf8Len u + utf8Len e0) e))
    (h1 : parseFrontmatter cs (u ++ (e0 ++ (e ++ x))) = none) (h2 : parseFrontmatter cs (u ++ (e0 ++ x)) = none) :
    LRel (EvSim cs.uws) (pullEvents (α := α) cs ext (u ++ (e0 ++ (e ++ x)))).1.toList
      (pullEvents (α := α) cs ext (u ++ (e0 ++ x))).1.toList :=
  blank_line_source_events cs hu ext u e0 e x L hlu hL hE0 hE h1 h2

/-- **… and the same recipe (partial: no front matter, text define mode excluded).**  `parse` of
    the source with the extra line and of the source without it are `ResSim`-related: same
    sections, steps, items, EQUAL text items, same tables and metadata map, same validity,
    diagnostics of the same kinds in the same order.  MISSING: inputs with a front-matter block
    (the front-matter split is not related for insertions, only for CRLF), and text define mode
    with components (there the copied source slice should be the same text; proving it needs the
    spans of the two runs related by the shift, which `EvSim` does not record). -/
theorem C17_extra_blank_line_source_recipe_partial {α : Type} [Arith α] (env : Env) (hu : UwsNL env.cs)
    (u e0 e x : List Char) (L : List (List Tok)) (hlu : lex env.cs u = L.flatten) (hL : ∀ l ∈ L, IsLine l)
    (hE0 : EmptyLine (lexFrom env.cs (utf8Len u) e0)) (hE : EmptyLine (lexFrom env.cs (utf8Len u + utf8Len e0) e))
    (h1 : parseFrontmatter env.cs (u ++ (e0 ++ (e ++ x))) = none) (h2 : parseFrontmatter env.cs (u ++ (e0 ++ x)) = none)
    (hf : TextModeFree env (u ++ (e0 ++ x)) (pullEvents (α := α) env.cs env.ext (u ++ (e0 ++ x))).1.toList {}) :
    ResSim env.cs.uws (parseRecipe (α := α) env (u ++ (e0 ++ (e ++ x)))) (parseRecipe (α := α) env (u ++ (e0 ++ x))) :=
  blank_line_source_recipe env hu u e0 e x L hlu hL hE0 hE h1 h2 hf

/-- the same with the MODES extension off: no proviso about text mode -/
theorem C17_extra_blank_line_source_recipe_modes_off {α : Type} [Arith α] (env : Env) (hu : UwsNL env.cs)
    (hm : env.ext.has Gen.EXT_MODES = false)
    (u e0 e x : List Char) (L : List (List Tok)) (hlu : lex env.cs u = L.flatten) (hL : ∀ l ∈ L, IsLine l)
    (hE0 : EmptyLine (lexFrom env.cs (utf8Len u) e0)) (hE : EmptyLine (lexFrom env.cs (utf8Len u + utf8Len e0) e))
    (h1 : parseFrontmatter env.cs (u ++ (e0 ++ (e ++ x))) = none) (h2 : parseFrontmatter env.cs (u ++ (e0 ++ x)) = none) :
    ResSim env.cs.uws (parseRecipe (α := α) env (u ++ (e0 ++ (e ++ x)))) (parseRecipe (α := α) env (u ++ (e0 ++ x))) :=
  blank_line_source_recipe env hu u e0 e x L hlu hL hE0 hE h1 h2 (pullEvents_textModeFree env hm _)

/-- non-vacuity of `TextModeFree` on a concrete stream (a timer inside a step block), by direct evaluation -/
theorem C17_text_mode_free_of_wb_example :
    TextModeFree (α := Rat) ⟨toyCharSpec, ⟨0⟩, fun _ => none, fun _ _ => .ok, fun c => [c], 0⟩ []
      [.start .step, .timer ⟨⟨none, none⟩, ⟨0, 0⟩⟩, .stop .step] {} := by
  simp only [TextModeFree]
  refine ⟨fun h => (by cases h.1), fun h => ?_, fun h => (by cases h.1), trivial⟩
  obtain ⟨_, buf, hb⟩ := h
  simp [processEvent, A_modify] at hb

/-! non-vacuity for the recipe-level theorems: an environment without the MODES extension whose
    character table satisfies `CrlfSpec` and `UwsNL`; the excluded situation exists (a component event
    meeting an open text buffer) and an ordinary one is not excluded -/
def C17_toyEnv : Env := ⟨toyCharSpec, ⟨0⟩, fun _ => none, fun _ _ => .ok, fun c => [c], 0⟩
example : C17_toyEnv.ext.has Gen.EXT_MODES = false := by decide
example : CrlfSpec C17_toyEnv.cs := ⟨by decide, by decide, by decide, by decide⟩
example : UwsNL C17_toyEnv.cs := ⟨by decide, by decide⟩
example : TextModeSliceAt (α := Rat) (.timer ⟨⟨none, none⟩, ⟨0, 0⟩⟩) { block := some (.text []) } :=
  ⟨rfl, [], rfl⟩
example : ¬ TextModeSliceAt (α := Rat) (.timer ⟨⟨none, none⟩, ⟨0, 0⟩⟩) { block := some (.step []) } := by
  rintro ⟨_, buf, h⟩; cases h
example : TextModeFree (α := Rat) C17_toyEnv [] [.start .step, .timer ⟨⟨none, none⟩, ⟨0, 0⟩⟩, .stop .step] {} :=
  C17_text_mode_free_of_wb_example
/-- `ColSim` / `ResSim` are inhabited by runs that differ: the event lists `[Warning d']`, `[Warning d]`
    with different label positions -/
example : ResSim (α := Rat) C17_toyEnv.cs.uws
    (parseEvents C17_toyEnv [] [.warning ⟨.warning, .parse, "k", [⟨1, 2⟩]⟩])
    (parseEvents C17_toyEnv ['x'] [.warning ⟨.warning, .parse, "k", [⟨5, 9⟩]⟩]) :=
  C17_analysis_respects_evsim C17_toyEnv [] ['x'] _ _
    (.cons (EvSim.mk_warning ⟨rfl, rfl, rfl, rfl⟩) .nil) (by
      simp only [TextModeFree]
      exact ⟨fun h => (by cases h.1), trivial⟩)

/-! ## Trailing comment, trailing blanks, block comment between two words

  Lexer level (any input): the token stream of the transformed source in terms of the original.
  Splitter level (any input): the same blocks, the filler tokens inserted in one of them.
  Recipe level (well-formed recipes, the quantifier of the property): the same recipe up to white
  space in step text, by the C01 round trip applied to both sources. -/

/-- **The lexer restarts wherever the last token is complete.**  `EndOK cs next ts`: the last token
    of `ts` (if any) is spelled as the lexer spells a token of its kind when the next input character
    is `next`.  If that holds of `lex u` and the first character of `v`, then `lex (u v) = lex u ++ lex v`
    (the second part lexed at the shifted offset).  Generalises the restart after a newline token. -/
theorem C17_lexer_restart (cs : CharSpec) (o : Nat) (u v : List Char) (h : EndOK cs v.head? (lexFrom cs o u)) :
    lexFrom cs o (u ++ v) = lexFrom cs o u ++ lexFrom cs (o + utf8Len u) v := trail_lexFrom_append cs o u v h

/-- which line ends are token boundaries in front of a blank: every text `a` whose last token is
    not white space, not a line comment, not an unterminated block comment and not a lone backslash
    (`CleanEnd`).  Needs only that the blank is not a word character. -/
theorem C17_clean_line_end (cs : CharSpec) (hw : cs.wordChar ' ' = false) (o : Nat) (a : List Char)
    (h : CleanEnd (lexFrom cs o a)) : EndOK cs (some ' ') (lexFrom cs o a) := trail_endOK_space cs hw o a h

/-- **Trailing comment, token stream** (every input).  `a` = the source up to the end of a line,
    `v` = the rest (empty, or starting with the line feed), `sp` = one or more blanks, `c` = the comment
    text (no line feed).  For every character table with `TrailSpec` (blank is lexer white space and not
    a word character; `-`, `[` are not white space), if the last token of `a` is complete in front of a
    blank: `lex (a sp --c v)` = the tokens of `a`, a whitespace token `sp`, a line-comment token `--c`,
    the tokens of `v` at the shifted offset.  Nothing else changes: no token of `a` or `v` is split,
    merged or re-classified. -/
theorem C17_trailing_comment_tokens (cs : CharSpec) (hs : TrailSpec cs) (o : Nat) (a sp c v : List Char)
    (hne : sp ≠ []) (hsp : ∀ x ∈ sp, x = ' ') (hc : '\n' ∉ c) (hv : v.head? = none ∨ v.head? = some '\n')
    (hend : EndOK cs (some ' ') (lexFrom cs o a)) :
    lexFrom cs o (a ++ (sp ++ ('-' :: '-' :: c ++ v))) =
      lexFrom cs o a ++ (⟨.ws, sp, o + utf8Len a⟩ :: ⟨.lineComment, '-' :: '-' :: c, o + utf8Len a + utf8Len sp⟩ ::
        lexFrom cs (o + utf8Len a + utf8Len sp + utf8Len ('-' :: '-' :: c)) v) :=
  trail_lex_comment cs hs o a sp c v hne hsp hc hv hend

/-- **Trailing blanks, token stream** (every input): `lex (a sp v)` = the tokens of `a`, one
    whitespace token `sp`, the tokens of `v` shifted, when `v` does not start with lexer white space
    (a line feed, the end of input). -/
theorem C17_trailing_spaces_tokens (cs : CharSpec) (hs : TrailSpec cs) (o : Nat) (a sp v : List Char)
    (hne : sp ≠ []) (hsp : ∀ x ∈ sp, x = ' ') (hv : v.head?.any cs.ws = false)
    (hend : EndOK cs (some ' ') (lexFrom cs o a)) :
    lexFrom cs o (a ++ (sp ++ v)) =
      lexFrom cs o a ++ (⟨.ws, sp, o + utf8Len a⟩ :: lexFrom cs (o + utf8Len a + utf8Len sp) v) :=
  trail_lex_spaces cs hs o a sp v hne hsp hv hend

/-- … and when the line already ends in a whitespace token `w` (the case `EndOK` excludes): the
    blanks are merged into `w`, all other tokens are unchanged (those of `v` shifted).  Together with
    `C17_trailing_space_widen` (text level): invisible after trimming. -/
theorem C17_trailing_spaces_tokens_widen (cs : CharSpec) (hs : TrailSpec cs) (o : Nat) (a sp v : List Char)
    (hne : sp ≠ []) (hsp : ∀ x ∈ sp, x = ' ') (hv : v.head?.any cs.ws = false)
    (T : List Tok) (w : Tok) (hT : lexFrom cs o a = T ++ [w]) (hw : w.kind = .ws) :
    lexFrom cs o (a ++ (sp ++ v)) =
      T ++ (⟨.ws, w.text ++ sp, w.start⟩ :: lexFrom cs (o + utf8Len a + utf8Len sp) v) :=
  trail_lex_spaces_widen cs hs o a sp v hne hsp hv T w hT hw

/-- **Block comment between two words, token stream** (every input).  Original `a ␣ b`, transformed
    `a ␣ [-body ␣ b` with `body` ending in `-]` and containing no earlier `-]` (the harness writes
    `[- é c -]`), `b` not starting with white space: the original lexes to the tokens of `a`, a
    whitespace token, the tokens of `b`; the transformed source to the tokens of `a`, whitespace, ONE
    block-comment token, whitespace, the tokens of `b` shifted. -/
theorem C17_block_comment_tokens (cs : CharSpec) (hs : TrailSpec cs) (o : Nat) (a body b : List Char)
    (h1 : blockScan body = body.length) (h2 : ['-', ']'] <:+ body) (hb : b.head?.any cs.ws = false)
    (hend : EndOK cs (some ' ') (lexFrom cs o a)) :
    lexFrom cs o (a ++ (' ' :: b)) =
      lexFrom cs o a ++ (⟨.ws, [' '], o + utf8Len a⟩ :: lexFrom cs (o + utf8Len a + 1) b) ∧
    lexFrom cs o (a ++ (' ' :: ('[' :: '-' :: body ++ ' ' :: b))) =
      lexFrom cs o a ++ (⟨.ws, [' '], o + utf8Len a⟩ :: ⟨.blockComment, '[' :: '-' :: body, o + utf8Len a + 1⟩ ::
        ⟨.ws, [' '], o + utf8Len a + 1 + utf8Len ('[' :: '-' :: body)⟩ ::
        lexFrom cs (o + utf8Len a + 1 + utf8Len ('[' :: '-' :: body) + 1) b) :=
  trail_lex_block_comment cs hs o a body b h1 h2 hb hend

/-- **Insertion of whitespace / comment tokens inside a line: the same blocks** (every token
    stream).  `InsHyp A F W`: `A W` is a complete line, `A` a non-empty part of it in front of its
    newline token, `F` whitespace / comment tokens.  The stream consists of complete lines `L`, the
    line `A W`, anything `Z`.  With `F` inserted behind `A`, `next_block` cuts as many blocks, and
    corresponding blocks are equal or (`InsB`) the block `p A q` has become `p A F q`, where
    `q` = the rest `W` of the line and the further lines `N` of the block, trailing newline tokens
    trimmed.  So blank-line detection, `>>` / `=` single-line detection, continuation and trimming all
    decide identically (`F` never starts a line: `A` is not empty).  Covers all three
    transformations: `F` = whitespace + line comment or whitespace alone in front of the newline
    (`W = [nl]`), `F` = block comment + whitespace behind a whitespace token. -/
theorem C17_insertion_blocks {A F W : List Tok} (h : InsHyp A F W) (L : List (List Tok)) (hL : ∀ l ∈ L, IsLine l)
    (Z : List Tok) :
    LRel (InsB A F W) (blocksOf (L.flatten ++ (A ++ F ++ W ++ Z))) (blocksOf (L.flatten ++ (A ++ W ++ Z))) :=
  trail_blocks_insert h L hL Z

/-- the same with the tokens behind the insertion at shifted positions (any kind-preserving,
    reflexive relation `R`; e.g. `SameKT`, `TokSim`) -/
theorem C17_insertion_blocks_shifted {A F W : List Tok} {R : Tok → Tok → Prop} (hR : ∀ a b, R a b → a.kind = b.kind)
    (hrefl : ∀ t, R t t) (h : InsHyp A F W) (L : List (List Tok)) (hL : ∀ l ∈ L, IsLine l) (Z X' : List Tok)
    (hX : LRel R X' (W ++ Z)) :
    LRel (fun b' b => ∃ m, LRel R b' m ∧ InsB A F W m b)
      (blocksOf (L.flatten ++ (A ++ F ++ X'))) (blocksOf (L.flatten ++ (A ++ W ++ Z))) :=
  trail_blocks_insert_rel hR hrefl h L hL Z X' hX

/-- **Trailing comment in the source: the same blocks** (every input; lexer and splitter
    composed).  Source `u a ⏎ x` where `u` lexes to complete lines and `a` is the non-empty text of a
    line whose last token is complete in front of a blank and in front of the line feed.  The blocks
    `next_block` cuts from `u a sp --c ⏎ x` are, one by one and up to the positions of the tokens
    behind the insertion, the blocks of `u a ⏎ x`, the one containing the line having the whitespace
    token and the line-comment token inserted behind the tokens of `a`.
    (`C17_trailing_spaces_blocks` is the same for trailing blanks.)  MISSING at this level: the same
    composition for the block comment (the ingredients `C17_block_comment_tokens` and
    `C17_insertion_blocks_shifted` are proved; the gluing is not written out), and an unterminated last
    line (no line feed behind `a`). -/
theorem C17_trailing_comment_blocks (cs : CharSpec) (hs : TrailSpec cs) (u a sp c x : List Char) (L : List (List Tok))
    (hu : lex cs u = L.flatten) (hL : ∀ l ∈ L, IsLine l)
    (hne : sp ≠ []) (hsp : ∀ y ∈ sp, y = ' ') (hc : '\n' ∉ c) (ha : a ≠ [])
    (hnl : ∀ t ∈ lexFrom cs (utf8Len u) a, (t.kind != .newline) = true)
    (hend : EndOK cs (some ' ') (lexFrom cs (utf8Len u) a)) (hend' : EndOK cs (some '\n') (lexFrom cs (utf8Len u) a)) :
    ∃ F nl, F = [⟨.ws, sp, utf8Len u + utf8Len a⟩, ⟨.lineComment, '-' :: '-' :: c, utf8Len u + utf8Len a + utf8Len sp⟩] ∧
      nl = (⟨.newline, ['\n'], utf8Len u + utf8Len a⟩ : Tok) ∧
      LRel (fun b' b => ∃ m, LRel SameKT b' m ∧ InsB (lexFrom cs (utf8Len u) a) F [nl] m b)
        (blocksOf (lex cs (u ++ (a ++ (sp ++ ('-' :: '-' :: c ++ '\n' :: x))))))
        (blocksOf (lex cs (u ++ (a ++ '\n' :: x)))) :=
  trail_comment_blocks_source cs hs u a sp c x L hu hL hne hsp hc ha hnl hend hend'

/-- **White space next to white space does not change the words of a text** (`split_whitespace`,
    the comparison the property allows for step text): for any white-space predicate, inserting
    white space `S` where it touches white space or the end of the text (`BlankAdj`) leaves
    `trailWords` (the maximal runs of non-white-space characters) unchanged, in any context `pre`. -/
theorem C17_words_insensitive (ws : Char → Bool) (x S y : List Char) (hS : ∀ c ∈ S, ws c = true)
    (hadj : BlankAdj ws x y) (pre : List Char) :
    trailWords ws (pre ++ (x ++ S ++ y)) = trailWords ws (pre ++ (x ++ y)) := trail_words_ins ws x S y hS hadj pre

/-- **One step, abstractly.**  `SegsIns ws segs' segs`: the segment list of a step with filler
    tokens inserted in a text run (what they show is white space that touches white space or the end
    of the run) or added as a text run of their own between components / at the end.  The step items
    the analysis builds (`absItemsFrom`: text items with the shown text, component items with their
    table index) then have the same normal form `trailLoose ws` — adjacent text items joined, split
    into words, blank ones dropped, exactly the oracle's `loose` — and the components are the same. -/
theorem C17_step_items_loose (ws : Char → Bool) {segs' segs : List SegX} (h : SegsIns ws segs' segs)
    (b' b : List SegX) (hb : trailComps b' = trailComps b) :
    trailLoose ws (absItemsFrom b' segs') = trailLoose ws (absItemsFrom b segs) ∧
    trailComps segs' = trailComps segs := trail_segs_loose ws h b' b hb

/-- the three transformations are such insertions: a trailing comment / trailing blanks inside a
    text run (in front of a newline token of the run, or at its end) … -/
theorem C17_trailing_is_insertion (ws : Char → Bool) (hsp : ws ' ' = true) (S1 S2 : List SegX) (l1 F l2 : List Tok)
    (hF : IsFiller F) (hb : ∀ t ∈ F, t.kind = .ws → ∀ c ∈ t.text, c = ' ')
    (hl2 : l2 = [] ∨ ∃ nl r, l2 = nl :: r ∧ nl.kind = .newline ∧ nl.text ≠ [])
    (hS2 : ∀ s, S2.head? = some s → s.isText = false) :
    SegsIns ws (S1 ++ .text (l1 ++ F ++ l2) :: S2) (S1 ++ .text (l1 ++ l2) :: S2) :=
  trail_segsIns_trailing ws hsp S1 S2 l1 F l2 hF hb hl2 hS2

/-- … behind a component that ends the line (the filler is a text run of its own) … -/
theorem C17_trailing_after_component_is_insertion (ws : Char → Bool) (hsp : ws ' ' = true) (S1 S2 : List SegX)
    (F : List Tok) (hF : IsFiller F) (hb : ∀ t ∈ F, t.kind = .ws → ∀ c ∈ t.text, c = ' ')
    (hS2 : ∀ s, S2.head? = some s → s.isText = false) : SegsIns ws (S1 ++ .text F :: S2) (S1 ++ S2) :=
  trail_segsIns_afterComponent ws hsp S1 S2 F hF hb hS2

/-- … and a block comment (with its blank) behind a whitespace token of blanks in a text run -/
theorem C17_block_comment_is_insertion (ws : Char → Bool) (hsp : ws ' ' = true) (S1 S2 : List SegX) (l1 : List Tok)
    (w : Tok) (F l2 : List Tok) (hw : w.kind = .ws) (hwt : w.text ≠ []) (hwb : ∀ c ∈ w.text, c = ' ')
    (hF : IsFiller F) (hb : ∀ t ∈ F, t.kind = .ws → ∀ c ∈ t.text, c = ' ')
    (hS2 : ∀ s, S2.head? = some s → s.isText = false) :
    SegsIns ws (S1 ++ .text ((l1 ++ [w]) ++ F ++ l2) :: S2) (S1 ++ .text ((l1 ++ [w]) ++ l2) :: S2) :=
  trail_segsIns_blockComment ws hsp S1 S2 l1 w F l2 hw hwt hwb hF hb hS2

/-- **Trailing comment, trailing blanks, block comment between words: the same recipe up to white
    space in step text, the same validity — for well-formed recipes** (partial: see MISSING).
    `DocWF α env pre doc`: the printed document `pre ++ docSpec doc` (leading blank lines, then steps
    made of text runs and components, section lines, `>>` lines, with their separators) satisfies
    the conditions of the C01 round trip (`C01_recipe_doc`): every block within the printer's
    grammar, well spelled, no front-matter fence.  `ItemIns ws`: a block is unchanged, or is a step
    whose segments are related by `SegsIns` (any number of steps may carry an insertion).
    Statement: if both documents are well formed and the first is the second with such insertions,
    then `parse` returns a recipe for both (same validity: output present, no error), and
    * the sections correspond one to one with equal names, as many contents, steps with equal
      numbers and items equal up to white space in text (`LooseSection`/`trailLoose`: the oracle's
      comparison) — component items with the SAME table indices;
    * the ingredient, cookware and timer tables, the metadata map, the inline-quantity table and
      the front matter are EQUAL;
    * the diagnostics have the same severities, stages, kinds and label counts (at most the
      deprecation notice for `>>` lines), no panic.
    MISSING for the full clause: (a) the well-formedness of the TRANSFORMED document is a hypothesis
    here; it follows from that of the original (text runs stay text runs, `C17_well_spelled_insertion`
    gives the spelling, the step shape is kept because the filler never starts a line) but only the
    spelling part is proved; (b) documents outside the round-trip grammar (front matter, references,
    mode switches, `>` text blocks, insertion inside component names / quantities / notes — there the
    text-level laws `C17_trailing_space_trimmed`, `C17_trailing_space_before_newline`,
    `C17_comment_between_words` apply to the run, but the lift through the component parsers is not
    proved); (c) a trailing comment on a `>>` or `=` line (the pads of those lines in the grammar
    hold blanks and block comments only). -/
theorem C17_insertion_recipe_wellformed_partial {α : Type} [Arith α] (env : Env) (ws : Char → Bool)
    (pre' pre : List Tok) (doc' doc : List (DocItem × List Tok))
    (h' : DocWF α env pre' doc') (h : DocWF α env pre doc)
    (hins : LRel (ItemIns ws) (doc'.map (·.1)) (doc.map (·.1))) :
    ∃ c' c : Col α,
      parseRecipe env (render (pre' ++ docSpec doc')) = ⟨some c', c'.diags, none⟩ ∧
      parseRecipe env (render (pre ++ docSpec doc)) = ⟨some c, c.diags, none⟩ ∧
      LRel (LooseSection ws) c'.sections c.sections ∧
      c'.ingredients.toList = c.ingredients.toList ∧ c'.cookware.toList = c.cookware.toList ∧
      c'.timers.toList = c.timers.toList ∧ c'.metaMap = c.metaMap ∧ c'.inlineQ = c.inlineQ ∧
      c'.frontMatter = c.frontMatter ∧
      c'.diags.toList.map (fun d => (d.sev, d.stage, d.kind, d.labels.length)) =
        c.diags.toList.map (fun d => (d.sev, d.stage, d.kind, d.labels.length)) :=
  trail_recipe_doc env ws pre' pre doc' doc h' h hins

/-- the spelling part of (a): a well-spelled token list stays well spelled when filler is
    inserted, provided the token in front is complete in front of the filler and the filler in front
    of what follows -/
theorem C17_well_spelled_insertion (cs : CharSpec) (X F Y : List Tok) (h : WellSpelled cs (X ++ Y))
    (hFY : WellSpelled cs (F ++ Y))
    (hX : ∀ l, X.getLast? = some l → spellOK cs l.kind l.text (render (F ++ Y)).head? = true) :
    WellSpelled cs (X ++ (F ++ Y)) := trail_wellSpelled_insert cs X F Y h hFY hX

/-- one step of a document changed: the documents are related -/
theorem C17_insertion_in_one_step (ws : Char → Bool) (D1 D2 : List DocItem) (segs' segs : List SegX)
    (h : SegsIns ws segs' segs) : LRel (ItemIns ws) (D1 ++ .step segs' :: D2) (D1 ++ .step segs :: D2) :=
  trail_itemIns_at ws D1 D2 segs' segs h

/-! non-vacuity: the toy table satisfies `TrailSpec`; `a` = "ab" ends cleanly; a comment body -/
example : TrailSpec toyCharSpec := ⟨by decide, by decide, by decide, by decide⟩
example : lexFrom toyCharSpec 0 ['a', 'b'] = [⟨.word, ['a', 'b'], 0⟩] := by
  simp [lexFrom_cons, lexOne, singleKind, singleTable, toyCharSpec, isAsciiDigit, lexFrom]
example : CleanEnd [⟨.word, ['a', 'b'], 0⟩] := by
  intro l hl
  simp only [List.getLast?_singleton, Option.some.injEq] at hl
  subst hl
  decide
example : EndOK toyCharSpec (some ' ') [⟨.word, ['a', 'b'], 0⟩] ∧ EndOK toyCharSpec (some '\n') [⟨.word, ['a', 'b'], 0⟩] := by
  constructor <;> (intro l hl; simp only [List.getLast?_singleton, Option.some.injEq] at hl; subst hl; decide)
/-- a line that ends in white space is excluded by `CleanEnd` (the widening law covers it) -/
example : ¬ CleanEnd [⟨.word, ['a'], 0⟩, ⟨.ws, [' '], 1⟩] := by
  intro h
  exact (h ⟨.ws, [' '], 1⟩ rfl).1 rfl
example : blockScan " c -]".toList = " c -]".toList.length ∧ ['-', ']'] <:+ " c -]".toList := by decide
example : InsHyp [⟨.word, ['a'], 0⟩] [⟨.ws, [' '], 1⟩, ⟨.lineComment, ['-', '-', 'c'], 2⟩] [⟨.newline, ['\n'], 5⟩] :=
  ⟨⟨[⟨.word, ['a'], 0⟩], ⟨.newline, ['\n'], 5⟩, rfl, by decide, rfl⟩, by simp, by simp, by
    intro t ht
    simp only [List.mem_cons, List.not_mem_nil, or_false] at ht
    rcases ht with rfl | rfl <;> rfl⟩
example : trailWords (fun c => c = ' ') "a  b ".toList = ["a".toList, "b".toList] := by decide
example : trailLoose (fun c => c = ' ') [.text "Mix ".toList, .text " well".toList, .ingredient 0, .text " ".toList] =
    [.words ["Mix".toList, "well".toList], .item (.ingredient 0)] := by decide

/-! non-vacuity of the recipe-level theorem: `Mix well⏎` against `Mix well -- c⏎` and
    `Mix [- c -] well⏎`, all three within the grammar -/
def C17_exDoc : List (DocItem × List Tok) :=
  [(.step [.text [tk .word "Mix".toList, tk .ws [' '], tk .word "well".toList]], [tk .newline ['\n']])]
def C17_exDocComment : List (DocItem × List Tok) :=
  [(.step [.text ([tk .word "Mix".toList, tk .ws [' '], tk .word "well".toList] ++
      [tk .ws [' '], tk .lineComment "-- c".toList] ++ [])], [tk .newline ['\n']])]
def C17_exDocBlock : List (DocItem × List Tok) :=
  [(.step [.text (([tk .word "Mix".toList] ++ [tk .ws [' ']]) ++
      [tk .blockComment "[- c -]".toList, tk .ws [' ']] ++ [tk .word "well".toList])], [tk .newline ['\n']])]

/-- helper for the non-vacuity examples below: a document of single-text-run steps under the toy
    environment (no extension) is well formed once the decidable conditions hold -/
theorem C17_exDocWF (doc : List (DocItem × List Tok))
    (h1 : (∀ d ∈ doc, d.1.ok C17_toyEnv.cs C17_toyEnv.ext = true) ∧ (∀ d ∈ doc, d.1.simple = true) ∧
      sepsOK (doc.map (·.2)) = true ∧ WellSpelled C17_toyEnv.cs ([] ++ docSpec doc) ∧
      (parseFrontmatter C17_toyEnv.cs (render ([] ++ docSpec doc))).isNone = true)
    (h2 : ∀ d ∈ doc, ∃ l, d.1 = .step [.text l]) : DocWF Rat C17_toyEnv [] doc := by
  obtain ⟨a, b, c, d, e⟩ := h1
  refine ⟨by decide, a, b, ?_, ?_, c, d, by simpa using e⟩
  · intro x hx
    obtain ⟨l, hl⟩ := h2 x hx
    rw [hl]; trivial
  · intro x hx
    obtain ⟨l, hl⟩ := h2 x hx
    rw [hl]
    intro sg hsg
    simp only [List.mem_cons, List.not_mem_nil, or_false] at hsg
    subst hsg
    intro hh
    exact absurd hh (by decide)

example : DocWF Rat C17_toyEnv [] C17_exDoc :=
  C17_exDocWF _ (by decide) (by intro d hd; simp only [C17_exDoc, List.mem_cons, List.not_mem_nil, or_false] at hd; subst hd; exact ⟨_, rfl⟩)
example : DocWF Rat C17_toyEnv [] C17_exDocComment :=
  C17_exDocWF _ (by decide) (by intro d hd; simp only [C17_exDocComment, List.mem_cons, List.not_mem_nil, or_false] at hd; subst hd; exact ⟨_, rfl⟩)
example : DocWF Rat C17_toyEnv [] C17_exDocBlock :=
  C17_exDocWF _ (by decide) (by intro d hd; simp only [C17_exDocBlock, List.mem_cons, List.not_mem_nil, or_false] at hd; subst hd; exact ⟨_, rfl⟩)
example : render ([] ++ docSpec C17_exDocComment) = "Mix well -- c\n".toList ∧
    render ([] ++ docSpec C17_exDocBlock) = "Mix [- c -] well\n".toList ∧
    render ([] ++ docSpec C17_exDoc) = "Mix well\n".toList := by decide
example : LRel (ItemIns (fun c => c = ' ')) (C17_exDocComment.map (·.1)) (C17_exDoc.map (·.1)) :=
  C17_insertion_in_one_step _ [] [] _ _
    (C17_trailing_is_insertion _ (by decide) [] [] _ [tk .ws [' '], tk .lineComment "-- c".toList] []
      (by intro t ht; simp only [List.mem_cons, List.not_mem_nil, or_false] at ht; rcases ht with rfl | rfl <;> rfl)
      (by intro t ht; simp only [List.mem_cons, List.not_mem_nil, or_false] at ht; rcases ht with rfl | rfl <;> decide)
      (Or.inl rfl) (by intro s hs; cases hs))
example : LRel (ItemIns (fun c => c = ' ')) (C17_exDocBlock.map (·.1)) (C17_exDoc.map (·.1)) :=
  C17_insertion_in_one_step _ [] [] _ _
    (C17_block_comment_is_insertion _ (by decide) [] [] [tk .word "Mix".toList] (tk .ws [' '])
      [tk .blockComment "[- c -]".toList, tk .ws [' ']] [tk .word "well".toList] rfl (by decide) (by decide)
      (by intro t ht; simp only [List.mem_cons, List.not_mem_nil, or_false] at ht; rcases ht with rfl | rfl <;> rfl)
      (by intro t ht; simp only [List.mem_cons, List.not_mem_nil, or_false] at ht; rcases ht with rfl | rfl <;> decide)
      (by intro s hs; cases hs))

/-- **Trailing blanks in the source: the same blocks** (every input; needs additionally that LF is
    not lexer white space): as `C17_trailing_comment_blocks`, the inserted filler being the one
    whitespace token `sp`. -/
theorem C17_trailing_spaces_blocks (cs : CharSpec) (hs : TrailSpec cs) (hlf : cs.ws '\n' = false)
    (u a sp x : List Char) (L : List (List Tok))
    (hu : lex cs u = L.flatten) (hL : ∀ l ∈ L, IsLine l)
    (hne : sp ≠ []) (hsp : ∀ y ∈ sp, y = ' ') (ha : a ≠ [])
    (hnl : ∀ t ∈ lexFrom cs (utf8Len u) a, (t.kind != .newline) = true)
    (hend : EndOK cs (some ' ') (lexFrom cs (utf8Len u) a)) (hend' : EndOK cs (some '\n') (lexFrom cs (utf8Len u) a)) :
    ∃ F nl, F = [(⟨.ws, sp, utf8Len u + utf8Len a⟩ : Tok)] ∧
      nl = (⟨.newline, ['\n'], utf8Len u + utf8Len a⟩ : Tok) ∧
      LRel (fun b' b => ∃ m, LRel SameKT b' m ∧ InsB (lexFrom cs (utf8Len u) a) F [nl] m b)
        (blocksOf (lex cs (u ++ (a ++ (sp ++ '\n' :: x)))))
        (blocksOf (lex cs (u ++ (a ++ '\n' :: x)))) :=
  trail_spaces_blocks_source cs hs hlf u a sp x L hu hL hne hsp ha hnl hend hend'

/-- the second side condition of the two theorems above in readable form: under `CrlfSpec` (CR, LF
    neither lexer white space nor word characters) the line feed behind `a` is a token boundary
    unless `a` ends inside a block comment, in a lone backslash (it escapes the line feed) or in a
    lone carriage return (it joins the line feed) -/
theorem C17_clean_line_end_lf (cs : CharSpec) (hcs : CrlfSpec cs) (o : Nat) (a : List Char)
    (h : CleanEndLF (lexFrom cs o a)) : EndOK cs (some '\n') (lexFrom cs o a) := trail_endOK_lf cs hcs o a h

example : CleanEndLF [⟨.word, ['a', 'b'], 0⟩] := by
  intro l hl
  simp only [List.getLast?_singleton, Option.some.injEq] at hl
  subst hl
  decide

-- ===== w4audit17 =====
/-! ## Audit wave (notes/audit-C17.md): filler inside names / quantities / metadata at text level,
    the two exclusions are necessary, the comparison of the property is an equivalence and the
    edits compose -/

/-- **Block comment (with its blank) behind a blank inside ANY run read through `text_trimmed`.**
    Component names, aliases, units, notes, text values of quantities, `>>` keys and section names
    are all assembled by `BlockParser::text` from a token run and read through `text_trimmed()`.
    For such a run `xs w ys` (`w` a non-empty whitespace token of blanks) and any filler `F` of
    comment tokens and whitespace tokens of blanks (`A17Filler`; e.g. `[- c -]` + blank — the
    transformation "block comment between two words"): the run `xs w F ys` has the same
    `text_trimmed()`.  `C17_comment_between_words` alone gives only equal `text()` when the comment
    is inserted WITHOUT its blank; with the blank `text()` gains a blank and it is the collapsing of
    `text_trimmed` that makes `@olive [- c -] oil{}` the ingredient `olive oil`.  Offsets are free.
    MISSING for the recipe-level clause: that the component parsers delimit the same run
    (`xs w F ys` instead of `xs w ys`) — covered by the metamorphic runs (`transform5`). -/
theorem C17_filler_after_blank_trimmed (cs : CharSpec) (hsp : cs.uws ' ' = true) (off off' : Nat)
    (xs F ys : List Tok) (w : Tok) (hw : w.kind = .ws) (hwt : w.text ≠ []) (hwb : ∀ c ∈ w.text, c = ' ')
    (hF : ∀ t ∈ F, A17Filler t) :
    (buildText off' (xs ++ [w] ++ F ++ ys)).trimmed cs = (buildText off (xs ++ [w] ++ ys)).trimmed cs :=
  a17_buildText_filler_after_blank cs hsp off off' xs F ys w hw hwt hwb hF

/-- **Trailing comment / blanks on a line that ends inside such a run** (a name, unit or note
    wrapped over a line break: `@sea -- c⏎salt{}`): `xs F nl ys` against `xs nl ys`, the same
    `text_trimmed()` (the line break reads as one blank, the blanks of `F` collapse into it). -/
theorem C17_filler_before_newline_trimmed (cs : CharSpec) (hsp : cs.uws ' ' = true) (off off' : Nat)
    (xs F ys : List Tok) (nl : Tok) (hn : nl.kind = .newline) (hne : nl.text ≠ []) (hF : ∀ t ∈ F, A17Filler t) :
    (buildText off' (xs ++ F ++ [nl] ++ ys)).trimmed cs = (buildText off (xs ++ [nl] ++ ys)).trimmed cs :=
  a17_buildText_filler_before_newline cs hsp off off' xs F ys nl hn hne hF

/-- **Trailing comment / blanks at the end of such a run** (`>> key: value -- c`, `= name -- c`):
    `xs F` against `xs`, the same `text_trimmed()`; generalises `C17_trailing_space_trimmed` from one
    whitespace token to any filler (blank + line comment). -/
theorem C17_filler_at_end_trimmed (cs : CharSpec) (hsp : cs.uws ' ' = true) (off off' : Nat)
    (xs F : List Tok) (hF : ∀ t ∈ F, A17Filler t) :
    (buildText off' (xs ++ F)).trimmed cs = (buildText off xs).trimmed cs :=
  a17_buildText_filler_at_end cs hsp off off' xs F hF

/-- **The backslash exclusion of the CRLF clause is necessary, already for the number of steps.**
    Source `a\⏎⏎b` (toy character table; the real lexer agrees, see the harness family
    `witness:backslash-crlf`): the backslash escapes the line feed, the blank line is not seen and
    the block splitter cuts ONE block; after CRLF conversion the backslash escapes the carriage
    return, the line feed ends the line and there are TWO blocks.  On the real code: one step
    `"a\n b"` against two steps `"a\r"`, `"b"`. -/
theorem C17_crlf_backslash_exclusion_needed :
    (blocksOf (lex toyCharSpec ['a', '\\', '\n', '\n', 'b'])).length = 1 ∧
    (blocksOf (lex toyCharSpec (crlf ['a', '\\', '\n', '\n', 'b']))).length = 2 := a17_bs_blocks

/-- **The precise law of define mode `text`** (MODES extension, `[mode]: text`).  A component
    event that meets an open text buffer appends exactly the source bytes `input[span]` of the
    component to the paragraph; nothing of the event is read.  Consequences for C17: inside such a
    component the spelling of a line end (`\r\n` / `\n`), added blanks AND COMMENTS show up in the
    recipe: `>> [mode]: text⏎⏎Add @sea [- c -] salt{} now` gives the paragraph
    `Add @sea [- c -] salt{} now`, while outside the component the comment is removed
    (`Add some [- c -] salt` gives `Add some  salt`).  The CRLF difference is white space (allowed
    by the property); the comment is not — reported as a finding in notes/audit-C17.md. -/
theorem C17_text_mode_copies_source {α : Type} [Arith α] (env : Env) (input : Str) (ev : Ev α)
    (hev : ev.isComp = true) (c : Col α) (buf sl : Str) (hb : c.block = some (.text buf)) (hm : c.defineMode = .text)
    (hsl : sliceBytes input ev.a17Span.start ev.a17Span.stop = some sl) :
    (processEvent env input ev c).2.block = some (.text (buf ++ sl)) :=
  a17_text_mode_copies_source env input ev hev c buf sl hb hm hsl

/-- the law on a source with a comment inside the component: the comment is in the paragraph -/
example : (processEvent a17EnvModes "~a [-c-] b{}".toList
      (.timer ⟨⟨none, none⟩, ⟨0, 12⟩⟩ : Ev Rat) a17TextState).2.block = some (.text "~a [-c-] b{}".toList) :=
  C17_text_mode_copies_source a17EnvModes _ _ rfl a17TextState [] "~a [-c-] b{}".toList rfl rfl
    (by simp [sliceBytes, sliceBytes.go, Ev.a17Span]; decide)

/-- **The text-mode exclusion of the strict theorems is necessary** (`C17_analysis_event_step`,
    `C17_analysis_respects_evsim`, `C17_crlf_recipe_partial`): the source `~a⏎b{}` and its CRLF
    conversion, the two timer events the parser reports for them (`EvSim`-related), one collector
    state inside a text-mode block (`ColSim`-related to itself, `TextModeSliceAt` holds): the two
    results hold `~a\r\nb{}` and `~a\nb{}` and are NOT `ColSim`-related. -/
theorem C17_text_mode_exclusion_needed :
    "~a\r\nb{}".toList = crlf "~a\nb{}".toList ∧
    EvSim toyCharSpec.uws a17TimerCRLF a17TimerLF ∧ ColSim toyCharSpec.uws a17TextState a17TextState ∧
    TextModeSliceAt a17TimerLF a17TextState ∧
    (processEvent a17EnvModes "~a\r\nb{}".toList a17TimerCRLF a17TextState).2.block = some (.text "~a\r\nb{}".toList) ∧
    (processEvent a17EnvModes "~a\nb{}".toList a17TimerLF a17TextState).2.block = some (.text "~a\nb{}".toList) ∧
    ¬ ColSim toyCharSpec.uws (processEvent a17EnvModes "~a\r\nb{}".toList a17TimerCRLF a17TextState).2
        (processEvent a17EnvModes "~a\nb{}".toList a17TimerLF a17TextState).2 := a17_text_mode_exclusion_needed

/-- **The comparison the property states is an equivalence relation.**  `SameRecipe ws r' r`
    (Lemmas/AuditC17.lean): a recipe on both sides or on neither; sections one to one with equal
    names and as many contents, paragraphs equal, steps with equal numbers and items equal up to white
    space in their text runs (`trailLoose`: the oracle's normal form; component items with the same
    indices); ingredient, cookware, timer, inline-quantity tables and `>>` metadata map EQUAL (so
    names, values, units, modifiers, notes, relations are equal); front matter on both sides or on
    neither with the YAML text equal up to `\r\n`/`\n`; reports with the same severities, stages and
    kinds in the same order.  It is reflexive, symmetric and transitive (`ResSim`/`ColSim` are not:
    they are one-directional about CRLF front matter and not reflexive on arbitrary states). -/
theorem C17_same_recipe_equivalence {α : Type} [Arith α] (ws : Char → Bool) :
    (∀ r : AnalysisResult α, SameRecipe ws r r) ∧
    (∀ a b : AnalysisResult α, SameRecipe ws a b → SameRecipe ws b a) ∧
    (∀ a b c : AnalysisResult α, SameRecipe ws a b → SameRecipe ws b c → SameRecipe ws a c) :=
  ⟨SameRecipe.a17_refl ws, fun _ _ h => h.a17_symm, fun _ _ _ h1 h2 => h1.a17_trans h2⟩

/-- … and it implies the same validity (`PassResult::is_valid`: an output and no error-severity
    diagnostic) and as many diagnostics -/
theorem C17_same_recipe_validity {α : Type} [Arith α] (ws : Char → Bool) (a b : AnalysisResult α) (h : SameRecipe ws a b) :
    a.output.isSome = b.output.isSome ∧
    a.diags.toList.any (fun d => d.sev == .error) = b.diags.toList.any (fun d => d.sev == .error) ∧
    a.diags.size = b.diags.size := h.a17_valid

/-- every strict result (`ResSim`: CRLF conversion, extra blank / comment-only lines) implies it -/
theorem C17_strict_implies_same_recipe {α : Type} [Arith α] (uws ws : Char → Bool) (r' r : AnalysisResult α)
    (h : ResSim uws r' r) : SameRecipe ws r' r := a17_resSim_same ws h

/-- … and so does the insertion theorem for well-formed documents
    (`C17_insertion_recipe_wellformed_partial`: trailing comment, trailing blanks, block comment
    between words of step text) -/
theorem C17_insertion_same_recipe {α : Type} [Arith α] (env : Env) (ws : Char → Bool)
    (pre' pre : List Tok) (doc' doc : List (DocItem × List Tok))
    (h' : DocWF α env pre' doc') (h : DocWF α env pre doc)
    (hins : LRel (ItemIns ws) (doc'.map (·.1)) (doc.map (·.1))) :
    SameRecipe ws (parseRecipe (α := α) env (render (pre' ++ docSpec doc')))
      (parseRecipe (α := α) env (render (pre ++ docSpec doc))) := a17_insertion_same env ws pre' pre doc' doc h' h hins

/-- **Any finite sequence of the edits preserves the recipe.**  Sources `s 0, s 1, …, s n`, each
    obtained from the previous one by an edit that preserves the recipe in the sense of the property
    (CRLF conversion, a trailing comment, trailing blanks, a block comment between words, an extra
    blank or comment-only line — in any order, at any places): `parse (s n)` and `parse (s 0)` are
    the same recipe in that sense, with the same validity. -/
theorem C17_edits_compose {α : Type} [Arith α] (ws : Char → Bool) (env : Env) (s : Nat → Str) (n : Nat)
    (h : ∀ i, i < n → SameRecipe ws (parseRecipe (α := α) env (s (i + 1))) (parseRecipe (α := α) env (s i))) :
    SameRecipe ws (parseRecipe (α := α) env (s n)) (parseRecipe (α := α) env (s 0)) := a17_edits_compose ws env s n h

/-- CRLF conversion in the vocabulary of the property (every backslash-free input, MODES off) -/
theorem C17_crlf_same_recipe_modes_off {α : Type} [Arith α] (ws : Char → Bool) (env : Env) (hcs : CrlfSpec env.cs)
    (hu : UwsNL env.cs) (hm : env.ext.has Gen.EXT_MODES = false) (s : List Char) (hs : CrlfSafe s) :
    SameRecipe ws (parseRecipe (α := α) env (crlf s)) (parseRecipe (α := α) env s) :=
  a17_resSim_same ws (C17_crlf_recipe_modes_off (α := α) env hcs hu hm s hs)

/-- **Two edits composed**: an extra blank / comment-only line AND CRLF conversion of the result
    (setting of `C17_extra_blank_line_source_recipe_modes_off`, backslash-free source): the same
    recipe as the original LF source without the line. -/
theorem C17_crlf_after_extra_blank_line_modes_off {α : Type} [Arith α] (ws : Char → Bool) (env : Env)
    (hcs : CrlfSpec env.cs) (hu : UwsNL env.cs) (hm : env.ext.has Gen.EXT_MODES = false)
    (u e0 e x : List Char) (L : List (List Tok)) (hlu : lex env.cs u = L.flatten) (hL : ∀ l ∈ L, IsLine l)
    (hE0 : EmptyLine (lexFrom env.cs (utf8Len u) e0)) (hE : EmptyLine (lexFrom env.cs (utf8Len u + utf8Len e0) e))
    (h1 : parseFrontmatter env.cs (u ++ (e0 ++ (e ++ x))) = none) (h2 : parseFrontmatter env.cs (u ++ (e0 ++ x)) = none)
    (hs : CrlfSafe (u ++ (e0 ++ (e ++ x)))) :
    SameRecipe ws (parseRecipe (α := α) env (crlf (u ++ (e0 ++ (e ++ x))))) (parseRecipe (α := α) env (u ++ (e0 ++ x))) :=
  (C17_crlf_same_recipe_modes_off ws env hcs hu hm _ hs).a17_trans
    (a17_resSim_same ws (C17_extra_blank_line_source_recipe_modes_off (α := α) env hu hm u e0 e x L hlu hL hE0 hE h1 h2))

/-! non-vacuity: filler tokens (`[- c -]` + blank; blank + `-- c`), the runs `olive␣oil` /
    `olive␣[- c -]␣oil`, and two `SameRecipe`-related results that differ -/
example : ∀ t ∈ [(⟨.blockComment, "[- c -]".toList, 7⟩ : Tok), ⟨.ws, [' '], 14⟩], A17Filler t := by
  intro t ht
  simp only [List.mem_cons, List.not_mem_nil, or_false] at ht
  rcases ht with rfl | rfl
  · exact Or.inl (Or.inl rfl)
  · exact Or.inr ⟨rfl, by decide⟩
example : (buildText 1 ([⟨.word, "olive".toList, 1⟩] ++ [⟨.ws, [' '], 6⟩] ++
      [⟨.blockComment, "[- c -]".toList, 7⟩, ⟨.ws, [' '], 14⟩] ++ [⟨.word, "oil".toList, 15⟩])).trimmed toyCharSpec
    = "olive oil".toList := by decide
example : (buildText 1 ([⟨.word, "olive".toList, 1⟩] ++ [⟨.ws, [' '], 6⟩] ++ [⟨.word, "oil".toList, 7⟩])).trimmed toyCharSpec
    = "olive oil".toList := by decide
/-- without the collapsing of `text_trimmed` the two runs differ: `text()` has two blanks -/
example : (buildText 1 ([⟨.word, "olive".toList, 1⟩] ++ [⟨.ws, [' '], 6⟩] ++
      [⟨.blockComment, "[- c -]".toList, 7⟩, ⟨.ws, [' '], 14⟩] ++ [⟨.word, "oil".toList, 15⟩])).text
    = "olive  oil".toList := by decide
example : SameRecipe (α := Rat) (fun c => c = ' ')
    (parseEvents C17_toyEnv [] [.warning ⟨.warning, .parse, "k", [⟨1, 2⟩]⟩])
    (parseEvents C17_toyEnv ['x'] [.warning ⟨.warning, .parse, "k", [⟨5, 9⟩]⟩]) :=
  C17_strict_implies_same_recipe C17_toyEnv.cs.uws _ _ _
    (C17_analysis_respects_evsim C17_toyEnv [] ['x'] _ _
      (.cons (EvSim.mk_warning ⟨rfl, rfl, rfl, rfl⟩) .nil) (by
        simp only [TextModeFree]
        exact ⟨fun h => (by cases h.1), trivial⟩))
-- ===== end w4audit17 =====
/-! ### the character table of the real lexer

    Everything above holds for every `CharSpec` with the stated side conditions.  Below, the side conditions are
    PROVED for `realCharSpec`, the table `harness chartable` generates from the real lexer on every check
    (`Gen/CharTable.lean`, a Lean literal; facts in `Lemmas/TableFacts.lean`), and the theorems are restated for
    that table with the side conditions discharged.  If a lexer class changes so that a side condition fails,
    these theorems stop building and the check reports a broken obligation. -/

/-- CR and LF are neither lexer whitespace nor word characters in the table generated from the real lexer -/
theorem C17_crlfSpec_real : CrlfSpec realCharSpec := ⟨tbl_ws_cr, tbl_ws_lf, tbl_word_cr, tbl_word_lf⟩

/-- CR and LF are `char::is_whitespace` in the generated table -/
theorem C17_uwsNL_real : UwsNL realCharSpec := ⟨tbl_uws_cr, tbl_uws_lf⟩

/-- in the generated table the blank is lexer whitespace and no word character; `-` and `[` are no lexer whitespace -/
theorem C17_trailSpec_real : TrailSpec realCharSpec := ⟨tbl_ws_sp, tbl_ws_minus, tbl_ws_lbrack, tbl_word_sp⟩

/-! non-vacuity at the real table: an environment with that table exists (the driver's `realEnv` is one; see
    `Props/Tables.lean`) -/
example : ({ C17_toyEnv with cs := realCharSpec } : Env).cs = realCharSpec := rfl

/-- `C17_trailing_space_before_newline` at the character table generated from the real lexer:
    the side condition `uws ' ' = true` is proved for that table (`Lemmas/TableFacts.lean`), not assumed -/
theorem C17_trailing_space_before_newline_real (off off' : Nat) (xs ys : List Tok) (w nl : Tok) (hw : w.kind = .ws)
    (hS : ∀ c ∈ w.text, c = ' ') (hn : nl.kind = .newline) (hne : nl.text ≠ []) :
    (buildText off' (xs ++ [w, nl] ++ ys)).trimmed realCharSpec = (buildText off (xs ++ [nl] ++ ys)).trimmed realCharSpec :=
  C17_trailing_space_before_newline (cs := realCharSpec) (hsp := tbl_uws_sp) off off' xs ys w nl hw hS hn hne

/-- `C17_text_trimmed_collapses` at the character table generated from the real lexer (`ws` := its `char::is_whitespace` class):
    the side condition `uws ' ' = true` is proved for that table (`Lemmas/TableFacts.lean`), not assumed -/
theorem C17_text_trimmed_collapses_real (A S B : List Char) (hS : ∀ c ∈ S, c = ' ') :
    trimmedOf realCharSpec.uws (A ++ S ++ ' ' :: B) = trimmedOf realCharSpec.uws (A ++ ' ' :: B) :=
  C17_text_trimmed_collapses (ws := realCharSpec.uws) (hsp := tbl_uws_sp) A S B hS

/-- `C17_crlf` at the character table generated from the real lexer:
    the side condition `CrlfSpec` is proved for that table (`Lemmas/TableFacts.lean`), not assumed -/
theorem C17_crlf_real (s : List Char) (hs : CrlfSafe s) :
    (lex realCharSpec (crlf s)).map tokAbs = (lex realCharSpec s).map tokAbs :=
  C17_crlf (cs := realCharSpec) (hcs := C17_crlfSpec_real) s hs

/-- `C17_crlf_at_offset` at the character table generated from the real lexer:
    the side condition `CrlfSpec` is proved for that table (`Lemmas/TableFacts.lean`), not assumed -/
theorem C17_crlf_at_offset_real (s : List Char) (hs : CrlfSafe s) (off off' : Nat) :
    (lexFrom realCharSpec off' (crlf s)).map tokAbs = (lexFrom realCharSpec off s).map tokAbs :=
  C17_crlf_at_offset (cs := realCharSpec) (hcs := C17_crlfSpec_real) s hs off off'

/-- `C17_crlf_texts` at the character table generated from the real lexer:
    the side condition `CrlfSpec` is proved for that table (`Lemmas/TableFacts.lean`), not assumed -/
theorem C17_crlf_texts_real (s : List Char) (hs : CrlfSafe s) (off off' : Nat) :
    CrlfToks (lexFrom realCharSpec off' (crlf s)) (lexFrom realCharSpec off s) :=
  C17_crlf_texts (cs := realCharSpec) (hcs := C17_crlfSpec_real) s hs off off'

/-- `C17_crlf_visible_text` at the character table generated from the real lexer:
    the side condition `CrlfSpec` is proved for that table (`Lemmas/TableFacts.lean`), not assumed -/
theorem C17_crlf_visible_text_real (s : List Char) (hs : CrlfSafe s) (i j off off' : Nat) :
    (((lex realCharSpec (crlf s)).drop i).take j).flatMap vis = (((lex realCharSpec s).drop i).take j).flatMap vis ∧
    (buildText off' (((lex realCharSpec (crlf s)).drop i).take j)).text =
      (buildText off (((lex realCharSpec s).drop i).take j)).text :=
  C17_crlf_visible_text (cs := realCharSpec) (hcs := C17_crlfSpec_real) s hs i j off off'

/-- `C17_crlf_blocks` at the character table generated from the real lexer:
    the side condition `CrlfSpec` is proved for that table (`Lemmas/TableFacts.lean`), not assumed -/
theorem C17_crlf_blocks_real (s : List Char) (hs : CrlfSafe s) (off off' : Nat) :
    LRel (LRel CrlfTok)
      (allBlocks ((lexFrom realCharSpec off' (crlf s)).length + 1) (lexFrom realCharSpec off' (crlf s)))
      (allBlocks ((lexFrom realCharSpec off s).length + 1) (lexFrom realCharSpec off s)) :=
  C17_crlf_blocks (cs := realCharSpec) (hcs := C17_crlfSpec_real) s hs off off'

/-- `C17_crlf_blocks_abs` at the character table generated from the real lexer:
    the side condition `CrlfSpec` is proved for that table (`Lemmas/TableFacts.lean`), not assumed -/
theorem C17_crlf_blocks_abs_real (s : List Char) (hs : CrlfSafe s) (off off' : Nat) :
    (allBlocks ((lexFrom realCharSpec off' (crlf s)).length + 1) (lexFrom realCharSpec off' (crlf s))).map (·.map tokAbs) =
    (allBlocks ((lexFrom realCharSpec off s).length + 1) (lexFrom realCharSpec off s)).map (·.map tokAbs) :=
  C17_crlf_blocks_abs (cs := realCharSpec) (hcs := C17_crlfSpec_real) s hs off off'

/-- `C17_crlf_events_partial` at the character table generated from the real lexer:
    the side conditions `CrlfSpec`, `UwsNL` are proved for that table (`Lemmas/TableFacts.lean`), not assumed -/
theorem C17_crlf_events_partial_real {α : Type} [Arith α] (ext : Ext) (oldStyle : Bool) (s : List Char)
    (hs : CrlfSafe s) (off off' : Nat) (hnm : NoMarker (lexFrom realCharSpec off s))
    (acc' acc : Array (Ev α) × Option String) (he : LRel (EvSim realCharSpec.uws) acc'.1.toList acc.1.toList) :
    LRel (EvSim realCharSpec.uws)
      ((allBlocks ((lexFrom realCharSpec off' (crlf s)).length + 1) (lexFrom realCharSpec off' (crlf s))).foldl
        (fun a b => runBlock realCharSpec ext oldStyle b a.1 a.2) acc').1.toList
      ((allBlocks ((lexFrom realCharSpec off s).length + 1) (lexFrom realCharSpec off s)).foldl
        (fun a b => runBlock realCharSpec ext oldStyle b a.1 a.2) acc).1.toList :=
  C17_crlf_events_partial (cs := realCharSpec) (hcs := C17_crlfSpec_real) (hu := C17_uwsNL_real) ext oldStyle s hs off off' hnm acc' acc he

/-- `C17_crlf_pull_events_partial` at the character table generated from the real lexer:
    the side conditions `CrlfSpec`, `UwsNL` are proved for that table (`Lemmas/TableFacts.lean`), not assumed -/
theorem C17_crlf_pull_events_partial_real {α : Type} [Arith α] (ext : Ext) (s : List Char) (hs : CrlfSafe s)
    (hnm : NoMarker (lex realCharSpec s)) (h1 : parseFrontmatter realCharSpec s = none)
    (h2 : parseFrontmatter realCharSpec (crlf s) = none) :
    LRel (EvSim realCharSpec.uws) (pullEvents (α := α) realCharSpec ext (crlf s)).1.toList (pullEvents (α := α) realCharSpec ext s).1.toList :=
  C17_crlf_pull_events_partial (cs := realCharSpec) (hcs := C17_crlfSpec_real) (hu := C17_uwsNL_real) ext s hs hnm h1 h2

/-- `C17_block_parser_offset_blind_partial` at the character table generated from the real lexer:
    the side condition `UwsNL` is proved for that table (`Lemmas/TableFacts.lean`), not assumed -/
theorem C17_block_parser_offset_blind_partial_real {α : Type} [Arith α] (b' b : List Tok) (hb : LRel TokSim b' b)
    (hnm : NoMarker b) (ext : Ext) (oldStyle : Bool) (evs' evs : Array (Ev α))
    (he : LRel (EvSim realCharSpec.uws) evs'.toList evs.toList) (p' p : Option String) :
    LRel (EvSim realCharSpec.uws) (runBlock realCharSpec ext oldStyle b' evs' p').1.toList (runBlock realCharSpec ext oldStyle b evs p).1.toList :=
  C17_block_parser_offset_blind_partial (cs := realCharSpec) (hu := C17_uwsNL_real) b' b hb hnm ext oldStyle evs' evs he p' p

/-- `C17_crlf_events` at the character table generated from the real lexer:
    the side conditions `CrlfSpec`, `UwsNL` are proved for that table (`Lemmas/TableFacts.lean`), not assumed -/
theorem C17_crlf_events_real {α : Type} [Arith α] (ext : Ext) (oldStyle : Bool) (s : List Char) (hs : CrlfSafe s)
    (off off' : Nat) (acc' acc : Array (Ev α) × Option String)
    (he : LRel (EvSim realCharSpec.uws) acc'.1.toList acc.1.toList) :
    LRel (EvSim realCharSpec.uws)
      ((allBlocks ((lexFrom realCharSpec off' (crlf s)).length + 1) (lexFrom realCharSpec off' (crlf s))).foldl
        (fun a b => runBlock realCharSpec ext oldStyle b a.1 a.2) acc').1.toList
      ((allBlocks ((lexFrom realCharSpec off s).length + 1) (lexFrom realCharSpec off s)).foldl
        (fun a b => runBlock realCharSpec ext oldStyle b a.1 a.2) acc).1.toList :=
  C17_crlf_events (cs := realCharSpec) (hcs := C17_crlfSpec_real) (hu := C17_uwsNL_real) ext oldStyle s hs off off' acc' acc he

/-- `C17_crlf_frontmatter` at the character table generated from the real lexer:
    the side condition `UwsNL` is proved for that table (`Lemmas/TableFacts.lean`), not assumed -/
theorem C17_crlf_frontmatter_real (s : List Char) :
    OptRel FmCrlf (parseFrontmatter realCharSpec (crlf s)) (parseFrontmatter realCharSpec s) :=
  C17_crlf_frontmatter (cs := realCharSpec) (hu := C17_uwsNL_real) s

/-- `C17_crlf_frontmatter_iff` at the character table generated from the real lexer:
    the side condition `UwsNL` is proved for that table (`Lemmas/TableFacts.lean`), not assumed -/
theorem C17_crlf_frontmatter_iff_real (s : List Char) :
    (parseFrontmatter realCharSpec (crlf s)).isSome = (parseFrontmatter realCharSpec s).isSome :=
  C17_crlf_frontmatter_iff (cs := realCharSpec) (hu := C17_uwsNL_real) s

/-- `C17_crlf_frontmatter_texts` at the character table generated from the real lexer:
    the side condition `UwsNL` is proved for that table (`Lemmas/TableFacts.lean`), not assumed -/
theorem C17_crlf_frontmatter_texts_real (s : List Char) (fm : FrontMatter)
    (h : parseFrontmatter realCharSpec s = some fm) :
    ∃ fm', parseFrontmatter realCharSpec (crlf s) = some fm' ∧ fm'.yamlText = crlf fm.yamlText ∧
      fm'.cookText = crlf fm.cookText :=
  C17_crlf_frontmatter_texts (cs := realCharSpec) (hu := C17_uwsNL_real) s fm h

/-- `C17_crlf_pull_events` at the character table generated from the real lexer:
    the side conditions `CrlfSpec`, `UwsNL` are proved for that table (`Lemmas/TableFacts.lean`), not assumed -/
theorem C17_crlf_pull_events_real {α : Type} [Arith α] (ext : Ext) (s : List Char) (hs : CrlfSafe s) :
    LRel (EvSim realCharSpec.uws) (pullEvents (α := α) realCharSpec ext (crlf s)).1.toList (pullEvents (α := α) realCharSpec ext s).1.toList :=
  C17_crlf_pull_events (cs := realCharSpec) (hcs := C17_crlfSpec_real) (hu := C17_uwsNL_real) ext s hs

/-- `C17_block_parser_offset_blind` at the character table generated from the real lexer:
    the side condition `UwsNL` is proved for that table (`Lemmas/TableFacts.lean`), not assumed -/
theorem C17_block_parser_offset_blind_real {α : Type} [Arith α] (b' b : List Tok) (hb : LRel TokSim b' b) (ext : Ext)
    (oldStyle : Bool) (evs' evs : Array (Ev α)) (he : LRel (EvSim realCharSpec.uws) evs'.toList evs.toList)
    (p' p : Option String) :
    LRel (EvSim realCharSpec.uws) (runBlock realCharSpec ext oldStyle b' evs' p').1.toList (runBlock realCharSpec ext oldStyle b evs p).1.toList :=
  C17_block_parser_offset_blind (cs := realCharSpec) (hu := C17_uwsNL_real) b' b hb ext oldStyle evs' evs he p' p

/-- `C17_parse_quantity_offset_blind` at the character table generated from the real lexer:
    the side condition `UwsNL` is proved for that table (`Lemmas/TableFacts.lean`), not assumed -/
theorem C17_parse_quantity_offset_blind_real {α : Type} [Arith α] (ts' ts q' q : List Tok) (hq : LRel TokSim q' q) :
    Rel (α := α) realCharSpec ts' ts (parseQuantity q') (parseQuantity q) (ParsedQSim realCharSpec.uws) :=
  C17_parse_quantity_offset_blind (cs := realCharSpec) (hu := C17_uwsNL_real) ts' ts q' q hq

/-- `C17_extra_blank_lines_events` at the character table generated from the real lexer:
    the side condition `UwsNL` is proved for that table (`Lemmas/TableFacts.lean`), not assumed -/
theorem C17_extra_blank_lines_events_real {α : Type} [Arith α] (ext : Ext) (oldStyle : Bool) (L : List (List Tok))
    (hL : ∀ l ∈ L, IsLine l) (E0 E X : List Tok) (hE0 : EmptyLine E0) (hE : EmptyLine E) (Y : List Tok)
    (hY : LRel TokSim (L.flatten ++ (E0 ++ X)) Y) (acc' acc : Array (Ev α) × Option String)
    (he : LRel (EvSim realCharSpec.uws) acc'.1.toList acc.1.toList) :
    LRel (EvSim realCharSpec.uws)
      ((blocksOf (L.flatten ++ (E0 ++ (E ++ X)))).foldl (fun a b => runBlock realCharSpec ext oldStyle b a.1 a.2) acc').1.toList
      ((blocksOf Y).foldl (fun a b => runBlock realCharSpec ext oldStyle b a.1 a.2) acc).1.toList :=
  C17_extra_blank_lines_events (cs := realCharSpec) (hu := C17_uwsNL_real) ext oldStyle L hL E0 E X hE0 hE Y hY acc' acc he

/-- `C17_crlf_recipe_partial` at the character table generated from the real lexer (any environment whose
    table is that one, as the driver's `realEnv`):
    the side conditions `CrlfSpec`, `UwsNL` are proved for that table (`Lemmas/TableFacts.lean`), not assumed -/
theorem C17_crlf_recipe_partial_real {α : Type} [Arith α] (env : Env) (hreal : env.cs = realCharSpec) (s : List Char)
    (hs : CrlfSafe s) (hf : TextModeFree env s (pullEvents (α := α) env.cs env.ext s).1.toList {}) :
    ResSim env.cs.uws (parseRecipe (α := α) env (crlf s)) (parseRecipe (α := α) env s) :=
  C17_crlf_recipe_partial env (hcs := hreal ▸ C17_crlfSpec_real) (hu := hreal ▸ C17_uwsNL_real) s hs hf

/-- `C17_crlf_recipe_modes_off` at the character table generated from the real lexer (any environment whose
    table is that one, as the driver's `realEnv`):
    the side conditions `CrlfSpec`, `UwsNL` are proved for that table (`Lemmas/TableFacts.lean`), not assumed -/
theorem C17_crlf_recipe_modes_off_real {α : Type} [Arith α] (env : Env) (hreal : env.cs = realCharSpec)
    (hm : env.ext.has Gen.EXT_MODES = false) (s : List Char) (hs : CrlfSafe s) :
    ResSim env.cs.uws (parseRecipe (α := α) env (crlf s)) (parseRecipe (α := α) env s) :=
  C17_crlf_recipe_modes_off env (hcs := hreal ▸ C17_crlfSpec_real) (hu := hreal ▸ C17_uwsNL_real) hm s hs

/-- `C17_crlf_recipe_valid_modes_off` at the character table generated from the real lexer (any environment whose
    table is that one, as the driver's `realEnv`):
    the side conditions `CrlfSpec`, `UwsNL` are proved for that table (`Lemmas/TableFacts.lean`), not assumed -/
theorem C17_crlf_recipe_valid_modes_off_real {α : Type} [Arith α] (env : Env) (hreal : env.cs = realCharSpec)
    (hm : env.ext.has Gen.EXT_MODES = false) (s : List Char) (hs : CrlfSafe s) :
    (parseRecipe (α := α) env (crlf s)).output.isSome = (parseRecipe (α := α) env s).output.isSome ∧
    ∀ c' c, (parseRecipe (α := α) env (crlf s)).output = some c' → (parseRecipe (α := α) env s).output = some c →
      c'.sections = c.sections ∧ c'.ingredients = c.ingredients ∧ c'.cookware = c.cookware ∧
      c'.timers = c.timers ∧ c'.inlineQ = c.inlineQ ∧ c'.metaMap = c.metaMap :=
  C17_crlf_recipe_valid_modes_off env (hcs := hreal ▸ C17_crlfSpec_real) (hu := hreal ▸ C17_uwsNL_real) hm s hs

/-- `C17_extra_blank_lines_recipe_partial` at the character table generated from the real lexer (any environment whose
    table is that one, as the driver's `realEnv`):
    the side condition `UwsNL` is proved for that table (`Lemmas/TableFacts.lean`), not assumed -/
theorem C17_extra_blank_lines_recipe_partial_real {α : Type} [Arith α] (env : Env) (hreal : env.cs = realCharSpec)
    (oldStyle : Bool) (input' input : Str) (L : List (List Tok)) (hL : ∀ l ∈ L, IsLine l) (E0 E X : List Tok)
    (hE0 : EmptyLine E0) (hE : EmptyLine E) (Y : List Tok) (hY : LRel TokSim (L.flatten ++ (E0 ++ X)) Y)
    (acc' acc : Array (Ev α) × Option String) (he : LRel (EvSim env.cs.uws) acc'.1.toList acc.1.toList)
    (hf : TextModeFree env input ((blocksOf Y).foldl (fun a b => runBlock env.cs env.ext oldStyle b a.1 a.2) acc).1.toList {}) :
    ResSim env.cs.uws
      (parseEvents env input'
        ((blocksOf (L.flatten ++ (E0 ++ (E ++ X)))).foldl (fun a b => runBlock env.cs env.ext oldStyle b a.1 a.2) acc').1.toList)
      (parseEvents env input
        ((blocksOf Y).foldl (fun a b => runBlock env.cs env.ext oldStyle b a.1 a.2) acc).1.toList) :=
  C17_extra_blank_lines_recipe_partial env (hu := hreal ▸ C17_uwsNL_real) oldStyle input' input L hL E0 E X hE0 hE Y hY acc' acc he hf

/-- `C17_extra_blank_line_source_events` at the character table generated from the real lexer:
    the side condition `UwsNL` is proved for that table (`Lemmas/TableFacts.lean`), not assumed -/
theorem C17_extra_blank_line_source_events_real {α : Type} [Arith α] (ext : Ext) (u e0 e x : List Char)
    (L : List (List Tok)) (hlu : lex realCharSpec u = L.flatten) (hL : ∀ l ∈ L, IsLine l)
    (hE0 : EmptyLine (lexFrom realCharSpec (utf8Len u) e0))
    (hE : EmptyLine (lexFrom realCharSpec (utf8Len u + utf8Len e0) e))
    (h1 : parseFrontmatter realCharSpec (u ++ (e0 ++ (e ++ x))) = none)
    (h2 : parseFrontmatter realCharSpec (u ++ (e0 ++ x)) = none) :
    LRel (EvSim realCharSpec.uws) (pullEvents (α := α) realCharSpec ext (u ++ (e0 ++ (e ++ x)))).1.toList
      (pullEvents (α := α) realCharSpec ext (u ++ (e0 ++ x))).1.toList :=
  C17_extra_blank_line_source_events (cs := realCharSpec) (hu := C17_uwsNL_real) ext u e0 e x L hlu hL hE0 hE h1 h2

/-- `C17_extra_blank_line_source_recipe_partial` at the character table generated from the real lexer (any environment whose
    table is that one, as the driver's `realEnv`):
    the side condition `UwsNL` is proved for that table (`Lemmas/TableFacts.lean`), not assumed -/
theorem C17_extra_blank_line_source_recipe_partial_real {α : Type} [Arith α] (env : Env)
    (hreal : env.cs = realCharSpec) (u e0 e x : List Char) (L : List (List Tok)) (hlu : lex env.cs u = L.flatten)
    (hL : ∀ l ∈ L, IsLine l) (hE0 : EmptyLine (lexFrom env.cs (utf8Len u) e0))
    (hE : EmptyLine (lexFrom env.cs (utf8Len u + utf8Len e0) e))
    (h1 : parseFrontmatter env.cs (u ++ (e0 ++ (e ++ x))) = none)
    (h2 : parseFrontmatter env.cs (u ++ (e0 ++ x)) = none)
    (hf : TextModeFree env (u ++ (e0 ++ x)) (pullEvents (α := α) env.cs env.ext (u ++ (e0 ++ x))).1.toList {}) :
    ResSim env.cs.uws (parseRecipe (α := α) env (u ++ (e0 ++ (e ++ x)))) (parseRecipe (α := α) env (u ++ (e0 ++ x))) :=
  C17_extra_blank_line_source_recipe_partial env (hu := hreal ▸ C17_uwsNL_real) u e0 e x L hlu hL hE0 hE h1 h2 hf

/-- `C17_extra_blank_line_source_recipe_modes_off` at the character table generated from the real lexer (any environment whose
    table is that one, as the driver's `realEnv`):
    the side condition `UwsNL` is proved for that table (`Lemmas/TableFacts.lean`), not assumed -/
theorem C17_extra_blank_line_source_recipe_modes_off_real {α : Type} [Arith α] (env : Env)
    (hreal : env.cs = realCharSpec) (hm : env.ext.has Gen.EXT_MODES = false) (u e0 e x : List Char)
    (L : List (List Tok)) (hlu : lex env.cs u = L.flatten) (hL : ∀ l ∈ L, IsLine l)
    (hE0 : EmptyLine (lexFrom env.cs (utf8Len u) e0)) (hE : EmptyLine (lexFrom env.cs (utf8Len u + utf8Len e0) e))
    (h1 : parseFrontmatter env.cs (u ++ (e0 ++ (e ++ x))) = none)
    (h2 : parseFrontmatter env.cs (u ++ (e0 ++ x)) = none) :
    ResSim env.cs.uws (parseRecipe (α := α) env (u ++ (e0 ++ (e ++ x)))) (parseRecipe (α := α) env (u ++ (e0 ++ x))) :=
  C17_extra_blank_line_source_recipe_modes_off env (hu := hreal ▸ C17_uwsNL_real) hm u e0 e x L hlu hL hE0 hE h1 h2

/-- `C17_clean_line_end` at the character table generated from the real lexer:
    the side condition `wordChar ' ' = false` is proved for that table (`Lemmas/TableFacts.lean`), not assumed -/
theorem C17_clean_line_end_real (o : Nat) (a : List Char) (h : CleanEnd (lexFrom realCharSpec o a)) :
    EndOK realCharSpec (some ' ') (lexFrom realCharSpec o a) :=
  C17_clean_line_end (cs := realCharSpec) (hw := tbl_word_sp) o a h

/-- `C17_trailing_comment_tokens` at the character table generated from the real lexer:
    the side condition `TrailSpec` is proved for that table (`Lemmas/TableFacts.lean`), not assumed -/
theorem C17_trailing_comment_tokens_real (o : Nat) (a sp c v : List Char) (hne : sp ≠ []) (hsp : ∀ x ∈ sp, x = ' ')
    (hc : '\n' ∉ c) (hv : v.head? = none ∨ v.head? = some '\n')
    (hend : EndOK realCharSpec (some ' ') (lexFrom realCharSpec o a)) :
    lexFrom realCharSpec o (a ++ (sp ++ ('-' :: '-' :: c ++ v))) =
      lexFrom realCharSpec o a ++ (⟨.ws, sp, o + utf8Len a⟩ :: ⟨.lineComment, '-' :: '-' :: c, o + utf8Len a + utf8Len sp⟩ ::
        lexFrom realCharSpec (o + utf8Len a + utf8Len sp + utf8Len ('-' :: '-' :: c)) v) :=
  C17_trailing_comment_tokens (cs := realCharSpec) (hs := C17_trailSpec_real) o a sp c v hne hsp hc hv hend

/-- `C17_trailing_spaces_tokens` at the character table generated from the real lexer:
    the side condition `TrailSpec` is proved for that table (`Lemmas/TableFacts.lean`), not assumed -/
theorem C17_trailing_spaces_tokens_real (o : Nat) (a sp v : List Char) (hne : sp ≠ []) (hsp : ∀ x ∈ sp, x = ' ')
    (hv : v.head?.any realCharSpec.ws = false) (hend : EndOK realCharSpec (some ' ') (lexFrom realCharSpec o a)) :
    lexFrom realCharSpec o (a ++ (sp ++ v)) =
      lexFrom realCharSpec o a ++ (⟨.ws, sp, o + utf8Len a⟩ :: lexFrom realCharSpec (o + utf8Len a + utf8Len sp) v) :=
  C17_trailing_spaces_tokens (cs := realCharSpec) (hs := C17_trailSpec_real) o a sp v hne hsp hv hend

/-- `C17_trailing_spaces_tokens_widen` at the character table generated from the real lexer:
    the side condition `TrailSpec` is proved for that table (`Lemmas/TableFacts.lean`), not assumed -/
theorem C17_trailing_spaces_tokens_widen_real (o : Nat) (a sp v : List Char) (hne : sp ≠ []) (hsp : ∀ x ∈ sp, x = ' ')
    (hv : v.head?.any realCharSpec.ws = false) (T : List Tok) (w : Tok) (hT : lexFrom realCharSpec o a = T ++ [w])
    (hw : w.kind = .ws) :
    lexFrom realCharSpec o (a ++ (sp ++ v)) =
      T ++ (⟨.ws, w.text ++ sp, w.start⟩ :: lexFrom realCharSpec (o + utf8Len a + utf8Len sp) v) :=
  C17_trailing_spaces_tokens_widen (cs := realCharSpec) (hs := C17_trailSpec_real) o a sp v hne hsp hv T w hT hw

/-- `C17_block_comment_tokens` at the character table generated from the real lexer:
    the side condition `TrailSpec` is proved for that table (`Lemmas/TableFacts.lean`), not assumed -/
theorem C17_block_comment_tokens_real (o : Nat) (a body b : List Char) (h1 : blockScan body = body.length)
    (h2 : ['-', ']'] <:+ body) (hb : b.head?.any realCharSpec.ws = false)
    (hend : EndOK realCharSpec (some ' ') (lexFrom realCharSpec o a)) :
    lexFrom realCharSpec o (a ++ (' ' :: b)) =
      lexFrom realCharSpec o a ++ (⟨.ws, [' '], o + utf8Len a⟩ :: lexFrom realCharSpec (o + utf8Len a + 1) b) ∧
    lexFrom realCharSpec o (a ++ (' ' :: ('[' :: '-' :: body ++ ' ' :: b))) =
      lexFrom realCharSpec o a ++ (⟨.ws, [' '], o + utf8Len a⟩ :: ⟨.blockComment, '[' :: '-' :: body, o + utf8Len a + 1⟩ ::
        ⟨.ws, [' '], o + utf8Len a + 1 + utf8Len ('[' :: '-' :: body)⟩ ::
        lexFrom realCharSpec (o + utf8Len a + 1 + utf8Len ('[' :: '-' :: body) + 1) b) :=
  C17_block_comment_tokens (cs := realCharSpec) (hs := C17_trailSpec_real) o a body b h1 h2 hb hend

/-- `C17_trailing_comment_blocks` at the character table generated from the real lexer:
    the side condition `TrailSpec` is proved for that table (`Lemmas/TableFacts.lean`), not assumed -/
theorem C17_trailing_comment_blocks_real (u a sp c x : List Char) (L : List (List Tok))
    (hu : lex realCharSpec u = L.flatten) (hL : ∀ l ∈ L, IsLine l) (hne : sp ≠ []) (hsp : ∀ y ∈ sp, y = ' ')
    (hc : '\n' ∉ c) (ha : a ≠ []) (hnl : ∀ t ∈ lexFrom realCharSpec (utf8Len u) a, (t.kind != .newline) = true)
    (hend : EndOK realCharSpec (some ' ') (lexFrom realCharSpec (utf8Len u) a))
    (hend' : EndOK realCharSpec (some '\n') (lexFrom realCharSpec (utf8Len u) a)) :
    ∃ F nl, F = [⟨.ws, sp, utf8Len u + utf8Len a⟩, ⟨.lineComment, '-' :: '-' :: c, utf8Len u + utf8Len a + utf8Len sp⟩] ∧
      nl = (⟨.newline, ['\n'], utf8Len u + utf8Len a⟩ : Tok) ∧
      LRel (fun b' b => ∃ m, LRel SameKT b' m ∧ InsB (lexFrom realCharSpec (utf8Len u) a) F [nl] m b)
        (blocksOf (lex realCharSpec (u ++ (a ++ (sp ++ ('-' :: '-' :: c ++ '\n' :: x))))))
        (blocksOf (lex realCharSpec (u ++ (a ++ '\n' :: x)))) :=
  C17_trailing_comment_blocks (cs := realCharSpec) (hs := C17_trailSpec_real) u a sp c x L hu hL hne hsp hc ha hnl hend hend'

/-- `C17_trailing_is_insertion` at the character table generated from the real lexer (`ws` := its `char::is_whitespace` class):
    the side condition `uws ' ' = true` is proved for that table (`Lemmas/TableFacts.lean`), not assumed -/
theorem C17_trailing_is_insertion_real (S1 S2 : List SegX) (l1 F l2 : List Tok) (hF : IsFiller F)
    (hb : ∀ t ∈ F, t.kind = .ws → ∀ c ∈ t.text, c = ' ')
    (hl2 : l2 = [] ∨ ∃ nl r, l2 = nl :: r ∧ nl.kind = .newline ∧ nl.text ≠ [])
    (hS2 : ∀ s, S2.head? = some s → s.isText = false) :
    SegsIns realCharSpec.uws (S1 ++ .text (l1 ++ F ++ l2) :: S2) (S1 ++ .text (l1 ++ l2) :: S2) :=
  C17_trailing_is_insertion (ws := realCharSpec.uws) (hsp := tbl_uws_sp) S1 S2 l1 F l2 hF hb hl2 hS2

/-- `C17_trailing_after_component_is_insertion` at the character table generated from the real lexer (`ws` := its `char::is_whitespace` class):
    the side condition `uws ' ' = true` is proved for that table (`Lemmas/TableFacts.lean`), not assumed -/
theorem C17_trailing_after_component_is_insertion_real (S1 S2 : List SegX) (F : List Tok) (hF : IsFiller F)
    (hb : ∀ t ∈ F, t.kind = .ws → ∀ c ∈ t.text, c = ' ') (hS2 : ∀ s, S2.head? = some s → s.isText = false) :
    SegsIns realCharSpec.uws (S1 ++ .text F :: S2) (S1 ++ S2) :=
  C17_trailing_after_component_is_insertion (ws := realCharSpec.uws) (hsp := tbl_uws_sp) S1 S2 F hF hb hS2

/-- `C17_block_comment_is_insertion` at the character table generated from the real lexer (`ws` := its `char::is_whitespace` class):
    the side condition `uws ' ' = true` is proved for that table (`Lemmas/TableFacts.lean`), not assumed -/
theorem C17_block_comment_is_insertion_real (S1 S2 : List SegX) (l1 : List Tok) (w : Tok) (F l2 : List Tok)
    (hw : w.kind = .ws) (hwt : w.text ≠ []) (hwb : ∀ c ∈ w.text, c = ' ') (hF : IsFiller F)
    (hb : ∀ t ∈ F, t.kind = .ws → ∀ c ∈ t.text, c = ' ') (hS2 : ∀ s, S2.head? = some s → s.isText = false) :
    SegsIns realCharSpec.uws (S1 ++ .text ((l1 ++ [w]) ++ F ++ l2) :: S2) (S1 ++ .text ((l1 ++ [w]) ++ l2) :: S2) :=
  C17_block_comment_is_insertion (ws := realCharSpec.uws) (hsp := tbl_uws_sp) S1 S2 l1 w F l2 hw hwt hwb hF hb hS2

/-- `C17_trailing_spaces_blocks` at the character table generated from the real lexer:
    the side conditions `TrailSpec`, `ws '\n' = false` are proved for that table (`Lemmas/TableFacts.lean`), not assumed -/
theorem C17_trailing_spaces_blocks_real (u a sp x : List Char) (L : List (List Tok))
    (hu : lex realCharSpec u = L.flatten) (hL : ∀ l ∈ L, IsLine l) (hne : sp ≠ []) (hsp : ∀ y ∈ sp, y = ' ')
    (ha : a ≠ []) (hnl : ∀ t ∈ lexFrom realCharSpec (utf8Len u) a, (t.kind != .newline) = true)
    (hend : EndOK realCharSpec (some ' ') (lexFrom realCharSpec (utf8Len u) a))
    (hend' : EndOK realCharSpec (some '\n') (lexFrom realCharSpec (utf8Len u) a)) :
    ∃ F nl, F = [(⟨.ws, sp, utf8Len u + utf8Len a⟩ : Tok)] ∧
      nl = (⟨.newline, ['\n'], utf8Len u + utf8Len a⟩ : Tok) ∧
      LRel (fun b' b => ∃ m, LRel SameKT b' m ∧ InsB (lexFrom realCharSpec (utf8Len u) a) F [nl] m b)
        (blocksOf (lex realCharSpec (u ++ (a ++ (sp ++ '\n' :: x)))))
        (blocksOf (lex realCharSpec (u ++ (a ++ '\n' :: x)))) :=
  C17_trailing_spaces_blocks (cs := realCharSpec) (hs := C17_trailSpec_real) (hlf := tbl_ws_lf) u a sp x L hu hL hne hsp ha hnl hend hend'

/-- `C17_clean_line_end_lf` at the character table generated from the real lexer:
    the side condition `CrlfSpec` is proved for that table (`Lemmas/TableFacts.lean`), not assumed -/
theorem C17_clean_line_end_lf_real (o : Nat) (a : List Char) (h : CleanEndLF (lexFrom realCharSpec o a)) :
    EndOK realCharSpec (some '\n') (lexFrom realCharSpec o a) :=
  C17_clean_line_end_lf (cs := realCharSpec) (hcs := C17_crlfSpec_real) o a h

-- ===== w5c17body =====
/-! ## Wave 5 (notes/audit-C17.md, "wave 5"): filler INSIDE component bodies, paragraphs, servings,
    blank / comment-only lines around the front matter.

  New vocabulary (all of it specification side, no model function added):
  `TextLoose cs t' t` — equal `text_trimmed()` and equal `is_text_empty()` (the number of fragments is
  free); `EvLoose cs` — events with the same content as far as the analysis reads it (component
  names, aliases, notes, units, section names, metadata keys by `text_trimmed()`, metadata values by
  the outer `trim()`, step / paragraph text by `text()`, equal values / modifiers / reference data,
  diagnostics of the same kind); `FillerIn lF l`, `CompFiller cF c`, `TimerFiller`, `QtyFiller` — a
  text leaf / component / timer / quantity of the round-trip grammar with block comments and blanks
  inserted behind a blank of its name, alias, note, unit (since wave 10 also of its TEXT VALUE, `ValFiller`);
  `ParaIns` — filler inserted in a line of a
  `>` paragraph; `StrLine` — a complete source line. -/

/-- **`is_text_empty` of an assembled run** is decided by the characters its tokens contribute to
    the fragments (`bl17Raw`: a comment nothing, an escape its tail, a newline token its own
    characters, any other token its text): the run is empty iff all of them are Unicode white space. -/
theorem C17_is_text_empty_by_chars (cs : CharSpec) (off : Nat) (ts : List Tok) :
    (buildText off ts).isTextEmpty cs = (ts.flatMap bl17Raw).all cs.uws := bl17_buildText_isTextEmpty cs off ts

/-- **Filler behind a blank inside a trimmed run, `TextLoose`.**  Completes
    `C17_filler_after_blank_trimmed`: not only `text_trimmed()` but also `is_text_empty()` is unchanged,
    so every emptiness diagnostic of the component parsers (`empty name`, `empty alias`, `empty unit`, …)
    is raised on both sides or on neither. -/
theorem C17_filler_after_blank_loose (cs : CharSpec) (hsp : cs.uws ' ' = true) (off off' : Nat)
    (xs F ys : List Tok) (w : Tok) (hw : w.kind = .ws) (hwt : w.text ≠ []) (hwb : ∀ c ∈ w.text, c = ' ')
    (hF : ∀ t ∈ F, A17Filler t) :
    TextLoose cs (buildText off' (xs ++ [w] ++ F ++ ys)) (buildText off (xs ++ [w] ++ ys)) :=
  bl17_loose_after_blank cs hsp off off' xs F ys w hw hwt hwb hF

/-- the same in front of a line break of the run (trailing comment / blanks on a line that ends
    inside a name, a quantity, a note) … -/
theorem C17_filler_before_newline_loose (cs : CharSpec) (hsp : cs.uws ' ' = true) (off off' : Nat)
    (xs F ys : List Tok) (nl : Tok) (hn : nl.kind = .newline) (hne : nl.text ≠ []) (hF : ∀ t ∈ F, A17Filler t) :
    TextLoose cs (buildText off' (xs ++ F ++ [nl] ++ ys)) (buildText off (xs ++ [nl] ++ ys)) :=
  bl17_loose_before_newline cs hsp off off' xs F ys nl hn hne hF

/-- … and at the end of the run (metadata value, section name, last line of a note) -/
theorem C17_filler_at_end_loose (cs : CharSpec) (hsp : cs.uws ' ' = true) (off off' : Nat)
    (xs F : List Tok) (hF : ∀ t ∈ F, A17Filler t) : TextLoose cs (buildText off' (xs ++ F)) (buildText off xs) :=
  bl17_loose_at_end cs hsp off off' xs F hF

/-- `EvLoose` is implied by `EvSim` (so every CRLF / blank-line / offset result is also a loose one) -/
theorem C17_evSim_implies_evLoose {α : Type} [Arith α] (cs : CharSpec) (ev' ev : Ev α) (h : EvSim cs.uws ev' ev) :
    EvLoose cs ev' ev := h.loose

/-- what `EvLoose` says about two ingredient events: everything the analysis reads except spans -/
theorem C17_evLoose_ingredient {α : Type} [Arith α] (cs : CharSpec) (i' i : Loc (PIngredient α))
    (h : EvLoose cs (.ingredient i') (.ingredient i)) :
    i'.val.modifiers.val = i.val.modifiers.val ∧ i'.val.name.trimmed cs = i.val.name.trimmed cs ∧
    i'.val.alias.map (·.trimmed cs) = i.val.alias.map (·.trimmed cs) ∧
    i'.val.note.map (·.trimmed cs) = i.val.note.map (·.trimmed cs) ∧
    i'.val.inter.map (·.val) = i.val.inter.map (·.val) ∧
    i'.val.quantity.map (fun q => (q.val.value.value.val, q.val.value.lock.isSome, q.val.unit.map (·.trimmed cs))) =
      i.val.quantity.map (fun q => (q.val.value.value.val, q.val.value.lock.isSome, q.val.unit.map (·.trimmed cs))) := by
  have h2 : PIngredientLoose cs i'.val i.val := h
  obtain ⟨h1, hi, h3, h4, h5, h6⟩ := h2
  refine ⟨h1, h3, bl17_optTrimmed_eq h4, bl17_optTrimmed_eq h6, ?_, ?_⟩
  · rcases hi.elim with ⟨e', e⟩ | ⟨x', x, e', e, hx⟩
    · rw [e', e]
    · rw [e', e]; simp only [Option.map_some]; exact congrArg some hx
  · rcases h5.elim with ⟨e', e⟩ | ⟨x', x, e', e, hx⟩
    · rw [e', e]
    · rw [e', e]
      obtain ⟨⟨hv, hl⟩, hunit⟩ := hx
      simp only [Option.map_some, hv, hl, bl17_optTrimmed_eq hunit]

/-- **One event, loose.**  `process_event` on `EvLoose`-related events takes `ColSim`-related collector
    states to `ColSim`-related states (EQUAL sections, items, tables, metadata map, servings; same
    diagnostics up to label positions), for any two source texts: the collector reads component names
    through `text_trimmed()` only, never through the fragments.  Exception as for `EvSim`: a component
    event that meets an open text buffer of define mode `text`. -/
theorem C17_analysis_event_step_loose {α : Type} [Arith α] (env : Env) (input' input : Str) (ev' ev : Ev α)
    (h : EvLoose env.cs ev' ev) (c' c : Col α) (hc : ColSim env.cs.uws c' c) (hns : ¬ TextModeSliceAt ev c) :
    ColSim env.cs.uws (processEvent env input' ev' c').2 (processEvent env input ev c).2 :=
  processEvent_loose env input' input h hc hns

/-- **The analysis respects `EvLoose`.**  `parse_events` maps `EvLoose`-related event lists to
    `ResSim`-related results (the same recipe, the same validity, diagnostics of the same kinds in the
    same order), under the one-sided text-mode proviso of `C17_analysis_respects_evsim`. -/
theorem C17_analysis_respects_evloose {α : Type} [Arith α] (env : Env) (input' input : Str) (evs' evs : List (Ev α))
    (h : LRel (EvLoose env.cs) evs' evs) (hf : TextModeFree env input evs {}) :
    ResSim env.cs.uws (parseEvents env input' evs') (parseEvents env input evs) :=
  parseEvents_loose env input' input h hf

/-- **From loose events to the same recipe.**  Two sources whose `PullParser` events are
    `EvLoose`-related parse to the same recipe in the sense of the property (`SameRecipe`), with the
    MODES extension off (no proviso). -/
theorem C17_events_loose_same_recipe_modes_off {α : Type} [Arith α] (ws : Char → Bool) (env : Env)
    (hm : env.ext.has Gen.EXT_MODES = false) (s' s : List Char)
    (h : LRel (EvLoose env.cs) (pullEvents (α := α) env.cs env.ext s').1.toList (pullEvents (α := α) env.cs env.ext s).1.toList) :
    SameRecipe ws (parseRecipe (α := α) env s') (parseRecipe (α := α) env s) :=
  a17_resSim_same ws (bl17_parseRecipe_loose env s' s h (pullEvents_textModeFree env hm s))

/-- **Ingredient with filler inside its body (name, alias, note, unit), parser level.**
    `c` is an ingredient of the round-trip grammar (`AComp.wf`: the side conditions of C01), `cF` the
    same ingredient with block comments / blank whitespace tokens inserted behind a blank of its name,
    alias, note or unit (`CompFiller`).  In any two parser states (same character table and
    extensions; the component is anywhere in the block: `A' … rest'` / `A … rest` are arbitrary, with
    arbitrary offsets) `ingredient()` succeeds on both spellings, consumes exactly the component, and
    the two `Ingredient` events are `EvLoose`-related: the same name, alias, note, unit after
    `text_trimmed()`, the same value, lock, modifiers.  The wrong implementation "a block comment
    ends the name / glues two words of it" is excluded (`compBody` delimits the same runs, and the
    comment shows nothing between two blanks that `text_trimmed` collapses).
    NOT covered: a comment directly in front of the unit of an ADVANCED_UNITS quantity written without
    `%` (`{1 [- c -]kg}`) — there the real parser changes its reading (finding O5, repaired on branch
    w5advfix); `QtyFiller` only inserts into units written with `%` and (since wave 10) into text values,
    which under ADVANCED_UNITS without `%` start with a word (`advSafe`) so that the advanced form declines.
    The recipe level (step loop, block, document, analysis) is `C17_filler_in_component_bodies_same_recipe`. -/
theorem C17_ingredient_filler_in_body {α : Type} [Arith α] (cF c : AComp) (hF : CompFiller cF c) (p' p : CPad) (s' s : BP α)
    (hcs : s'.cs = s.cs) (hext : s'.ext = s.ext) (hsp : s.cs.uws ' ' = true)
    (hwf : c.wf s.cs s.ext = true) (hp' : p'.ok s.cs = true) (hp : p.ok s.cs = true)
    (A' ts' rest' A ts rest : List Tok) (hs' : Spells ts' (spellIngredient cF p')) (hs : Spells ts (spellIngredient c p))
    (ht' : s'.toks = A' ++ (ts' ++ rest')) (ht : s.toks = A ++ (ts ++ rest))
    (hc' : s'.cur = A'.length) (hc : s.cur = A.length) (hrest' : restOK c rest' = true) (hrest : restOK c rest = true)
    (hrun' : RunAt (baseOff s'.toks) s'.toks) (hrun : RunAt (baseOff s.toks) s.toks) :
    ∃ ev' ev : Ev α, ingredientP s' = (some ev', { s' with cur := A'.length + ts'.length }) ∧
      ingredientP s = (some ev, { s with cur := A.length + ts.length }) ∧ EvLoose s.cs ev' ev :=
  bl17_ingredient_filler_loose cF c hF p' p s' s hcs hext hsp hwf hp' hp A' ts' rest' A ts rest hs' hs ht' ht hc' hc
    hrest' hrest hrun' hrun

/-- **Cookware with filler inside its body**, as `C17_ingredient_filler_in_body` -/
theorem C17_cookware_filler_in_body {α : Type} [Arith α] (cF c : AComp) (hF : CompFiller cF c) (p' p : CPad) (s' s : BP α)
    (hcs : s'.cs = s.cs) (hext : s'.ext = s.ext) (hsp : s.cs.uws ' ' = true)
    (hwf : c.wfCookware s.cs s.ext = true) (hp' : p'.ok s.cs = true) (hp : p.ok s.cs = true)
    (A' ts' rest' A ts rest : List Tok) (hs' : Spells ts' (spellCookware cF p')) (hs : Spells ts (spellCookware c p))
    (ht' : s'.toks = A' ++ (ts' ++ rest')) (ht : s.toks = A ++ (ts ++ rest))
    (hc' : s'.cur = A'.length) (hc : s.cur = A.length) (hrest' : restOK c rest' = true) (hrest : restOK c rest = true)
    (hrun' : RunAt (baseOff s'.toks) s'.toks) (hrun : RunAt (baseOff s.toks) s.toks) :
    ∃ ev' ev : Ev α, cookwareP s' = (some ev', { s' with cur := A'.length + ts'.length }) ∧
      cookwareP s = (some ev, { s with cur := A.length + ts.length }) ∧ EvLoose s.cs ev' ev :=
  bl17_cookware_filler_loose cF c hF p' p s' s hcs hext hsp hwf hp' hp A' ts' rest' A ts rest hs' hs ht' ht hc' hc
    hrest' hrest hrun' hrun

/-- **Timer with filler inside its name / the unit of its quantity**, as above -/
theorem C17_timer_filler_in_body {α : Type} [Arith α] (cF c : ATimer) (hF : TimerFiller cF c) (p' p : CPad) (s' s : BP α)
    (hcs : s'.cs = s.cs) (hext : s'.ext = s.ext) (hsp : s.cs.uws ' ' = true)
    (hwf : c.wf s.cs s.ext = true) (hp' : p'.ok s.cs = true) (hp : p.ok s.cs = true)
    (A' ts' rest' A ts rest : List Tok) (hs' : Spells ts' (spellTimer cF p')) (hs : Spells ts (spellTimer c p))
    (ht' : s'.toks = A' ++ (ts' ++ rest')) (ht : s.toks = A ++ (ts ++ rest))
    (hc' : s'.cur = A'.length) (hc : s.cur = A.length) (hrest' : noParenNext rest' = true) (hrest : noParenNext rest = true)
    (hrun' : RunAt (baseOff s'.toks) s'.toks) (hrun : RunAt (baseOff s.toks) s.toks) :
    ∃ ev' ev : Ev α, timerP s' = (some ev', { s' with cur := A'.length + ts'.length }) ∧
      timerP s = (some ev, { s with cur := A.length + ts.length }) ∧ EvLoose s.cs ev' ev :=
  bl17_timer_filler_loose cF c hF p' p s' s hcs hext hsp hwf hp' hp A' ts' rest' A ts rest hs' hs ht' ht hc' hc
    hrest' hrest hrun' hrun

/-- **`parse_quantity` with filler inside the unit** (`{1%big [- c -] cup}`): the same value, the same
    lock, the unit with the same `text_trimmed()`, no diagnostic, the outer parser untouched — under
    both settings of ADVANCED_UNITS (the advanced form declines at once: a `%` is present).
    Since wave 10 `QtyFiller` also admits filler behind a blank of a TEXT value (`{a [- c -] few%pinches}`,
    `ValFiller`; spelled out as `C17_parse_quantity_filler_in_text_value`), so this theorem became stronger. -/
theorem C17_parse_quantity_filler_in_unit {α : Type} [Arith α] (qF q : AQty) (hF : QtyFiller qF q) (p : QPad) (outer : BP α)
    (hsp : outer.cs.uws ' ' = true) (hq : q.ok outer.cs = true) (hp : p.ok outer.cs = true)
    (hr : q.val.isRange = true → outer.ext.has Gen.EXT_RANGE_VALUES = true)
    (hadv : outer.ext.has Gen.EXT_ADVANCED_UNITS = true → q.advSafe = true)
    (ts : List Tok) (hs : Spells ts (spellQty qF p)) (hrun : RunAt (baseOff ts) ts) :
    ∃ vspan lspan unitT sep,
      parseQuantity ts outer = (⟨⟨⟨⟨⟨q.val.denote, vspan⟩, lspan⟩, unitT⟩, tokensSpan ts⟩, sep⟩, outer) ∧
      lspan.isSome = q.lock ∧ unitT.map (fun t => t.trimmed outer.cs) = q.unit.map leafText ∧
      sep.isSome = q.unit.isSome :=
  bl17_parseQuantity qF q hF p outer hsp hq hp hr hadv ts hs hrun

/-- **How an insertion changes a `>` paragraph** (finding O3 made precise).  `ParaIns ws lines' lines`:
    filler tokens inserted in the body of one line of the paragraph, what they show being white space
    that touches white space or the end of the paragraph.  Then the text of the paragraph (what the
    recipe holds as `Content::Text`) is `A ++ S ++ B` against `A ++ B` with `S` white space next to
    white space or at the end: ONLY blanks are gained, and the two texts have the same words
    (`trailWords` = `split_whitespace`), i.e. they are equal after collapsing runs of white space and
    trimming.  `LooseContent` (hence `LooseSection`, `SameRecipe`) now compares paragraphs in exactly
    this way; before this wave it demanded equal paragraphs, which the three edits falsify. -/
theorem C17_paragraph_insertion_text (ws : Char → Bool) (lines' lines : List PLine) (h : ParaIns ws lines' lines) :
    ∃ A S B, lines'.flatMap PLine.text = A ++ S ++ B ∧ lines.flatMap PLine.text = A ++ B ∧
      (∀ c ∈ S, ws c = true) ∧ BlankAdj ws A B ∧
      trailWords ws (lines'.flatMap PLine.text) = trailWords ws (lines.flatMap PLine.text) :=
  trail_paraIns_text ws h

/-- a trailing comment / trailing blanks on a line of a paragraph is such an insertion … -/
theorem C17_paragraph_trailing_is_insertion (ws : Char → Bool) (hsp : ws ' ' = true) (L1 L2 : List PLine) (l : PLine)
    (F : List Tok) (hF : IsFiller F) (hb : ∀ t ∈ F, t.kind = .ws → ∀ c ∈ t.text, c = ' ')
    (hl : (l.nl = [] ∧ L2 = []) ∨ ∃ nl r, l.nl = nl :: r ∧ nl.kind = .newline ∧ nl.text ≠ [])
    (hne : (L1 ++ l :: L2).flatMap PLine.text ≠ []) :
    ParaIns ws (L1 ++ { l with body := l.body ++ F } :: L2) (L1 ++ l :: L2) :=
  bl17_paraIns_trailing ws hsp L1 L2 l F hF hb hl hne

/-- … and so is a block comment (with its blank) behind a blank of the line -/
theorem C17_paragraph_block_comment_is_insertion (ws : Char → Bool) (hsp : ws ' ' = true) (L1 L2 : List PLine)
    (l : PLine) (b1 : List Tok) (w : Tok) (F b2 : List Tok) (hbody : l.body = (b1 ++ [w]) ++ b2)
    (hw : w.kind = .ws) (hwt : w.text ≠ []) (hwb : ∀ c ∈ w.text, c = ' ')
    (hF : IsFiller F) (hb : ∀ t ∈ F, t.kind = .ws → ∀ c ∈ t.text, c = ' ')
    (hne : (L1 ++ l :: L2).flatMap PLine.text ≠ []) :
    ParaIns ws (L1 ++ { l with body := (b1 ++ [w]) ++ F ++ b2 } :: L2) (L1 ++ l :: L2) :=
  bl17_paraIns_blockComment ws hsp L1 L2 l b1 w F b2 hbody hw hwt hwb hF hb hne

/-- one paragraph of a document changed: the documents are related by `ItemIns` (which the insertion
    theorems `C17_insertion_recipe_wellformed_partial` / `C17_insertion_same_recipe` quantify over — they
    now cover insertions in `>` paragraphs as well) -/
theorem C17_insertion_in_one_paragraph (ws : Char → Bool) (D1 D2 : List DocItem) (lines' lines : List PLine)
    (h : ParaIns ws lines' lines) : LRel (ItemIns ws) (D1 ++ .para lines' :: D2) (D1 ++ .para lines :: D2) :=
  bl17_itemIns_para ws D1 D2 lines' lines h

/-- **`servings` under insertion.**  The two recipes of the insertion theorem have the same
    `servings` (the value the analysis derives from a `>> servings: …` entry); `SameCol` / `SameRecipe`
    now state it (it was missing: `ColSim` had it, the insertion theorem did not). -/
theorem C17_insertion_servings {α : Type} [Arith α] (env : Env) (ws : Char → Bool) (pre' pre : List Tok)
    (doc' doc : List (DocItem × List Tok)) (h' : DocWF α env pre' doc') (h : DocWF α env pre doc)
    (hins : LRel (ItemIns ws) (doc'.map (·.1)) (doc.map (·.1))) (c' c : Col α)
    (hc' : (parseRecipe (α := α) env (render (pre' ++ docSpec doc'))).output = some c')
    (hc : (parseRecipe (α := α) env (render (pre ++ docSpec doc))).output = some c) : c'.servings = c.servings :=
  bl17_insertion_servings env ws pre' pre doc' doc h' h hins c' c hc' hc

/-- `SameRecipe` states the servings -/
theorem C17_same_recipe_servings {α : Type} [Arith α] (ws : Char → Bool) (r' r : AnalysisResult α) (h : SameRecipe ws r' r)
    (c' c : Col α) (hc' : r'.output = some c') (hc : r.output = some c) : c'.servings = c.servings := by
  have := h.output
  rw [hc', hc] at this
  exact this.servings

/-- **The front matter of a source of the shape `blank lines, fence, YAML lines, fence, X`**
    (`StrLine`: a complete line; a fence: `---` after `trim_end`; the YAML lines are not fences):
    `parse_frontmatter` returns the YAML lines as YAML text and `X` as recipe text, whatever `X` is. -/
theorem C17_frontmatter_shape (cs : CharSpec) (B Y : List (List Char)) (f1 f2 X : List Char)
    (hB : ∀ l ∈ B, StrLine l ∧ (trim cs.uws l).isEmpty = true)
    (hf1 : StrLine f1 ∧ isFence cs f1 = true) (hY : ∀ l ∈ Y, StrLine l ∧ isFence cs l = false)
    (hf2 : StrLine f2 ∧ isFence cs f2 = true) :
    parseFrontmatter cs (B.flatten ++ (f1 ++ (Y.flatten ++ (f2 ++ X)))) =
      some ⟨Y.flatten, utf8Len B.flatten + utf8Len f1, X,
        utf8Len B.flatten + utf8Len f1 + utf8Len Y.flatten + utf8Len f2⟩ :=
  bl17_frontmatter_intro cs B Y f1 f2 X hB hf1 hY hf2

/-- **A further blank line in front of the front matter: the same events** (clause 5 with front
    matter, first half).  `e` is a complete line that is blank under `str::trim`.  Every event of the
    `PullParser` run is related to its counterpart by `EvSim` (the front-matter event carries the
    same YAML text, all spans shift by the length of `e`). -/
theorem C17_blank_line_before_frontmatter_events {α : Type} [Arith α] (cs : CharSpec) (hu : UwsNL cs) (ext : Ext)
    (e : List Char) (B Y : List (List Char)) (f1 f2 X : List Char)
    (he : StrLine e ∧ (trim cs.uws e).isEmpty = true)
    (hB : ∀ l ∈ B, StrLine l ∧ (trim cs.uws l).isEmpty = true)
    (hf1 : StrLine f1 ∧ isFence cs f1 = true) (hY : ∀ l ∈ Y, StrLine l ∧ isFence cs l = false)
    (hf2 : StrLine f2 ∧ isFence cs f2 = true) :
    LRel (EvSim cs.uws)
      (pullEvents (α := α) cs ext (e ++ (B.flatten ++ (f1 ++ (Y.flatten ++ (f2 ++ X)))))).1.toList
      (pullEvents (α := α) cs ext (B.flatten ++ (f1 ++ (Y.flatten ++ (f2 ++ X))))).1.toList :=
  bl17_blank_before_front_events cs hu ext e B Y f1 f2 X he hB hf1 hY hf2

/-- **A blank or comment-only line directly behind the closing fence: the same events** (second
    half).  `e` is any source line that lexes to an empty line there (blanks, tabs, `-- comment`,
    `[- block comment -]`). -/
theorem C17_line_after_frontmatter_events {α : Type} [Arith α] (cs : CharSpec) (hu : UwsNL cs) (ext : Ext)
    (e : List Char) (B Y : List (List Char)) (f1 f2 X : List Char)
    (hB : ∀ l ∈ B, StrLine l ∧ (trim cs.uws l).isEmpty = true)
    (hf1 : StrLine f1 ∧ isFence cs f1 = true) (hY : ∀ l ∈ Y, StrLine l ∧ isFence cs l = false)
    (hf2 : StrLine f2 ∧ isFence cs f2 = true)
    (hE : EmptyLine (lexFrom cs (utf8Len B.flatten + utf8Len f1 + utf8Len Y.flatten + utf8Len f2) e)) :
    LRel (EvSim cs.uws)
      (pullEvents (α := α) cs ext (B.flatten ++ (f1 ++ (Y.flatten ++ (f2 ++ (e ++ X)))))).1.toList
      (pullEvents (α := α) cs ext (B.flatten ++ (f1 ++ (Y.flatten ++ (f2 ++ X))))).1.toList :=
  bl17_line_after_front_events cs hu ext e B Y f1 f2 X hB hf1 hY hf2 hE

/-- … and the same recipe, MODES off -/
theorem C17_blank_line_before_frontmatter_same_recipe_modes_off {α : Type} [Arith α] (ws : Char → Bool) (env : Env)
    (hu : UwsNL env.cs) (hm : env.ext.has Gen.EXT_MODES = false) (e : List Char) (B Y : List (List Char)) (f1 f2 X : List Char)
    (he : StrLine e ∧ (trim env.cs.uws e).isEmpty = true)
    (hB : ∀ l ∈ B, StrLine l ∧ (trim env.cs.uws l).isEmpty = true)
    (hf1 : StrLine f1 ∧ isFence env.cs f1 = true) (hY : ∀ l ∈ Y, StrLine l ∧ isFence env.cs l = false)
    (hf2 : StrLine f2 ∧ isFence env.cs f2 = true) :
    SameRecipe ws (parseRecipe (α := α) env (e ++ (B.flatten ++ (f1 ++ (Y.flatten ++ (f2 ++ X))))))
      (parseRecipe (α := α) env (B.flatten ++ (f1 ++ (Y.flatten ++ (f2 ++ X))))) :=
  a17_resSim_same ws (bl17_blank_before_front_recipe env hu e B Y f1 f2 X he hB hf1 hY hf2 (pullEvents_textModeFree env hm _))

theorem C17_line_after_frontmatter_same_recipe_modes_off {α : Type} [Arith α] (ws : Char → Bool) (env : Env)
    (hu : UwsNL env.cs) (hm : env.ext.has Gen.EXT_MODES = false) (e : List Char) (B Y : List (List Char)) (f1 f2 X : List Char)
    (hB : ∀ l ∈ B, StrLine l ∧ (trim env.cs.uws l).isEmpty = true)
    (hf1 : StrLine f1 ∧ isFence env.cs f1 = true) (hY : ∀ l ∈ Y, StrLine l ∧ isFence env.cs l = false)
    (hf2 : StrLine f2 ∧ isFence env.cs f2 = true)
    (hE : EmptyLine (lexFrom env.cs (utf8Len B.flatten + utf8Len f1 + utf8Len Y.flatten + utf8Len f2) e)) :
    SameRecipe ws (parseRecipe (α := α) env (B.flatten ++ (f1 ++ (Y.flatten ++ (f2 ++ (e ++ X))))))
      (parseRecipe (α := α) env (B.flatten ++ (f1 ++ (Y.flatten ++ (f2 ++ X))))) :=
  a17_resSim_same ws (bl17_line_after_front_recipe env hu e B Y f1 f2 X hB hf1 hY hf2 hE (pullEvents_textModeFree env hm _))

/-! non-vacuity of wave 5 -/

/-- `olive␣[- c -]␣oil` against `olive␣oil`: three fragments against one, `TextLoose` all the same -/
example : TextLoose toyCharSpec
    (buildText 1 ([⟨.word, "olive".toList, 1⟩] ++ [⟨.ws, [' '], 6⟩] ++
      [⟨.blockComment, "[- c -]".toList, 7⟩, ⟨.ws, [' '], 14⟩] ++ [⟨.word, "oil".toList, 15⟩]))
    (buildText 1 ([⟨.word, "olive".toList, 1⟩] ++ [⟨.ws, [' '], 6⟩] ++ [⟨.word, "oil".toList, 7⟩])) :=
  C17_filler_after_blank_loose toyCharSpec (by decide) 1 1 _ _ _ _ rfl (by decide) (by decide) (by
    intro t ht
    simp only [List.mem_cons, List.not_mem_nil, or_false] at ht
    rcases ht with rfl | rfl
    · exact Or.inl (Or.inl rfl)
    · exact Or.inr ⟨rfl, by decide⟩)
example : (buildText 1 ([⟨.word, "olive".toList, 1⟩] ++ [⟨.ws, [' '], 6⟩] ++
      [⟨.blockComment, "[- c -]".toList, 7⟩, ⟨.ws, [' '], 14⟩] ++ [⟨.word, "oil".toList, 15⟩])).frags.length = 2 ∧
    (buildText 1 ([⟨.word, "olive".toList, 1⟩] ++ [⟨.ws, [' '], 6⟩] ++ [⟨.word, "oil".toList, 7⟩])).frags.length = 1 := by
  decide

/-- the components `@olive [- c -] oil{1%big [- c -] cup}(very [- c -] fine)` and
    `@olive oil{1%big cup}(very fine)` of the grammar -/
def C17_exFillerTok : List Tok := [tk .blockComment "[- c -]".toList, tk .ws [' ']]
def C17_exCompF : AComp :=
  { name := [tk .word "olive".toList] ++ tk .ws [' '] :: (C17_exFillerTok ++ [tk .word "oil".toList]),
    qty := some { val := .num (.int ['1']),
                  unit := some ([tk .word "big".toList] ++ tk .ws [' '] :: (C17_exFillerTok ++ [tk .word "cup".toList])) },
    note := some ([tk .word "very".toList] ++ tk .ws [' '] :: (C17_exFillerTok ++ [tk .word "fine".toList])) }
def C17_exComp : AComp :=
  { name := [tk .word "olive".toList] ++ tk .ws [' '] :: [tk .word "oil".toList],
    qty := some { val := .num (.int ['1']), unit := some ([tk .word "big".toList] ++ tk .ws [' '] :: [tk .word "cup".toList]) },
    note := some ([tk .word "very".toList] ++ tk .ws [' '] :: [tk .word "fine".toList]) }

theorem C17_exFiller_pad : ∀ t ∈ C17_exFillerTok, bl17Pad t := by
  intro t ht
  simp only [C17_exFillerTok, List.mem_cons, List.not_mem_nil, or_false] at ht
  rcases ht with rfl | rfl
  · exact Or.inl rfl
  · exact Or.inr ⟨rfl, by decide⟩

theorem C17_exCompFiller : CompFiller C17_exCompF C17_exComp :=
  ⟨rfl, FillerIn.ins _ _ _ _ (by simp) rfl C17_exFiller_pad, trivial,
   FillerIn.ins _ _ _ _ (by simp) rfl C17_exFiller_pad,
   ⟨rfl, ValFiller.same _, FillerIn.ins _ _ _ _ (by simp) rfl C17_exFiller_pad⟩⟩

example : C17_exComp.wf toyCharSpec ⟨0⟩ = true ∧ (({} : CPad).ok toyCharSpec) = true ∧
    render (spellIngredient C17_exCompF {}) = "@olive [- c -] oil{1%big [- c -] cup}(very [- c -] fine)".toList ∧
    render (spellIngredient C17_exComp {}) = "@olive oil{1%big cup}(very fine)".toList ∧
    WellSpelled toyCharSpec (spellIngredient C17_exCompF {}) ∧ WellSpelled toyCharSpec (spellIngredient C17_exComp {}) := by
  decide

/-- the hypotheses of `C17_ingredient_filler_in_body` hold for the two sources lexed by the model's
    lexer, and the two events are related -/
example : ∃ ev' ev : Ev Rat,
    (ingredientP (⟨lex toyCharSpec (render (spellIngredient C17_exCompF {})), 0, ⟨0⟩, toyCharSpec, #[], none⟩ : BP Rat)).1 = some ev' ∧
    (ingredientP (⟨lex toyCharSpec (render (spellIngredient C17_exComp {})), 0, ⟨0⟩, toyCharSpec, #[], none⟩ : BP Rat)).1 = some ev ∧
    EvLoose toyCharSpec ev' ev := by
  obtain ⟨a1, a2⟩ := rtin_lex_spells toyCharSpec 0 (spellIngredient C17_exCompF {}) (by decide)
  obtain ⟨b1, b2⟩ := rtin_lex_spells toyCharSpec 0 (spellIngredient C17_exComp {}) (by decide)
  obtain ⟨ev', ev, h1, h2, h3⟩ := C17_ingredient_filler_in_body (α := Rat) C17_exCompF C17_exComp C17_exCompFiller {} {}
    ⟨lex toyCharSpec (render (spellIngredient C17_exCompF {})), 0, ⟨0⟩, toyCharSpec, #[], none⟩
    ⟨lex toyCharSpec (render (spellIngredient C17_exComp {})), 0, ⟨0⟩, toyCharSpec, #[], none⟩
    rfl rfl (by decide) (by decide) (by decide) (by decide) [] _ [] [] _ [] a1 b1 (by simp [lex]) (by simp [lex]) rfl rfl
    (by decide) (by decide) a2.base b2.base
  exact ⟨ev', ev, by rw [h1], by rw [h2], h3⟩

/-- a paragraph `> some note⏎` and the same with a trailing comment: related by `ParaIns` -/
def C17_exLine : PLine :=
  { body := [tk .word "some".toList, tk .ws [' '], tk .word "note".toList], sp := [tk .ws [' ']], nl := [tk .newline ['\n']] }
def C17_exLineComment : PLine :=
  { C17_exLine with body := C17_exLine.body ++ [tk .ws [' '], tk .lineComment "-- c".toList] }

example : ParaIns (fun c => c = ' ') [C17_exLineComment] [C17_exLine] :=
  C17_paragraph_trailing_is_insertion _ (by decide) [] [] C17_exLine [tk .ws [' '], tk .lineComment "-- c".toList]
    (by intro t ht; simp only [List.mem_cons, List.not_mem_nil, or_false] at ht; rcases ht with rfl | rfl <;> rfl)
    (by intro t ht; simp only [List.mem_cons, List.not_mem_nil, or_false] at ht; rcases ht with rfl | rfl <;> decide)
    (Or.inr ⟨tk .newline ['\n'], [], rfl, rfl, by decide⟩) (by decide)

/-- the paragraph texts are `"some note "` + the blank of the line break against `"some note"` + that
    blank: not equal, same words -/
example : [C17_exLineComment].flatMap PLine.text = "some note  ".toList ∧
    [C17_exLine].flatMap PLine.text = "some note ".toList := by decide

/-- front matter `---⏎title: x⏎---⏎` with a blank line `␣␣⏎` in front, and a comment-only line behind -/
example : StrLine "  \n".toList ∧ (trim toyCharSpec.uws "  \n".toList).isEmpty = true :=
  ⟨⟨"  ".toList, rfl, by decide⟩, by decide⟩
example : StrLine "---\n".toList ∧ isFence toyCharSpec "---\n".toList = true := ⟨⟨"---".toList, rfl, by decide⟩, by decide⟩
example : StrLine "title: x\n".toList ∧ isFence toyCharSpec "title: x\n".toList = false :=
  ⟨⟨"title: x".toList, rfl, by decide⟩, by decide⟩
example : (parseFrontmatter toyCharSpec ("  \n---\ntitle: x\n---\nAdd @salt{}\n".toList)).map
      (fun fm => (fm.yamlText, fm.yamlOffset, fm.cookText, fm.cookOffset)) =
    some ("title: x\n".toList, 7, "Add @salt{}\n".toList, 20) := by decide
example : EmptyLine (lexFrom toyCharSpec 17 "-- c\n".toList) := by
  have : lexFrom toyCharSpec 17 "-- c\n".toList = [⟨.lineComment, "-- c".toList, 17⟩, ⟨.newline, ['\n'], 21⟩] := by
    simp [lexFrom_cons, lexOne, singleKind, singleTable, toyCharSpec, isAsciiDigit, lexFrom, utf8Len]
    decide
  rw [this]
  exact ⟨⟨[⟨.lineComment, "-- c".toList, 17⟩], ⟨.newline, ['\n'], 21⟩, rfl, by decide, rfl⟩, by decide⟩

/-- **Filler inside component bodies: the same recipe — well-formed recipes** (closes clause 4b at
    recipe level).  `doc` is a document of the round-trip grammar (`DocWF`: the conditions of
    `C01_recipe_doc`).  `docF` is a document whose blocks are those of `doc` except that braces
    ingredients / cookware items / timers of its steps may be spelled WITH block comments and blank
    whitespace tokens inserted behind a blank of their name, alias, note or unit (`DocItemF`, `SegF`,
    `CompFiller`, `TimerFiller`; `docCleanF` forgets the filler; any number of components and steps may
    carry filler; `hclean` compares the blocks up to the blank padding of section / `>>` lines).  Hypotheses on the transformed source are the token-level ones only: its blocks have
    the block shape, its components are followed as the grammar demands (`DocItemF.OK`), separators
    are separators, the list is spelled as the lexer spells it, and it has no front-matter fence.
    Statement: both sources parse to a recipe, and the recipes are the same in the sense of the
    property (`SameRecipe`) — in fact with EQUAL sections, steps, items, text items, tables, metadata
    map, servings (`bl17_docF_same`), no white-space allowance being needed: the filler is inside runs
    that are read through `text_trimmed`.
    Excluded, and false of the real code before the repair on branch w5advfix: a comment directly in
    front of the unit of a quantity written WITHOUT `%` under ADVANCED_UNITS (finding O5). -/
theorem C17_filler_in_component_bodies_same_recipe {α : Type} [Arith α] (ws : Char → Bool) (env : Env)
    (hsp : env.cs.uws ' ' = true) (pre' pre : List Tok) (docF : List (DocItemF × List Tok))
    (doc : List (DocItem × List Tok)) (h : DocWF α env pre doc)
    (hclean : ((docCleanF docF).map (·.1)).map DocItem.core = (doc.map (·.1)).map DocItem.core)
    (hpre' : blankLinesOK pre' = true) (hok : ∀ d ∈ docF, d.1.OK env.cs env.ext)
    (hseps : sepsOK (docF.map (·.2)) = true) (hw : WellSpelled env.cs (pre' ++ docSpecF docF))
    (hfm : parseFrontmatter env.cs (render (pre' ++ docSpecF docF)) = none) :
    SameRecipe ws (parseRecipe (α := α) env (render (pre' ++ docSpecF docF)))
      (parseRecipe (α := α) env (render (pre ++ docSpec doc))) := by
  have hF : DocWFF α env pre' docF := DocWFF.of_clean env pre' pre docF doc h hclean hpre' hok hseps hw hfm
  obtain ⟨c', c, e', e, hs, hi, hc, ht, hm, hq, hf, hv, hd⟩ := bl17_docF_same (α := α) env hsp pre' pre docF doc hF h hclean
  rw [e', e]
  refine ⟨?_, hd⟩
  show SameCol ws c' c
  exact ⟨by rw [hs]; exact LRel.refl_of (LooseSection.refl ws) _, hi, hc, ht, hq, hm,
    by rw [hf]; exact OptRel.refl_of (A := A17FmSame) (fun _ => rfl) _, hv⟩

/-- **Trailing line comment on a section line or a `>>` line: the same recipe** (recipe level,
    well-formed recipes).  It is the theorem above: a block of `docF` may also be a section line or a
    `>>` line of the grammar with a line-comment token behind it (`DocItemF.sectionLC`, `.metaLC`: `= name
    -- c`, `= name = -- c`, `>> key: value -- c`; the blanks in front of the comment are the padding of the
    line, and `hclean` compares blocks up to that padding, `DocItem.core`).  The comment ends the name
    run / follows the closing `=`s / ends the value run; there it shows nothing, and the name is read
    through `text_trimmed`, the value through the outer `trim`. -/
theorem C17_trailing_comment_on_single_line_blocks_same_recipe {α : Type} [Arith α] (ws : Char → Bool) (env : Env)
    (hsp : env.cs.uws ' ' = true) (pre' pre : List Tok) (docF : List (DocItemF × List Tok))
    (doc : List (DocItem × List Tok)) (h : DocWF α env pre doc)
    (hclean : ((docCleanF docF).map (·.1)).map DocItem.core = (doc.map (·.1)).map DocItem.core)
    (hpre' : blankLinesOK pre' = true) (hok : ∀ d ∈ docF, d.1.OK env.cs env.ext)
    (hseps : sepsOK (docF.map (·.2)) = true) (hw : WellSpelled env.cs (pre' ++ docSpecF docF))
    (hfm : parseFrontmatter env.cs (render (pre' ++ docSpecF docF)) = none) :
    SameRecipe ws (parseRecipe (α := α) env (render (pre' ++ docSpecF docF)))
      (parseRecipe (α := α) env (render (pre ++ docSpec doc))) :=
  C17_filler_in_component_bodies_same_recipe ws env hsp pre' pre docF doc h hclean hpre' hok hseps hw hfm

/-! non-vacuity: `Add @olive [- c -] oil{1%big [- c -] cup}(very [- c -] fine) now⏎` against
    `Add @olive oil{1%big cup}(very fine) now⏎` -/
def C17_exDocCompF : List (DocItemF × List Tok) :=
  [(.stepF [.x (.text [tk .word "Add".toList, tk .ws [' ']]), .ingredient C17_exCompF C17_exComp {},
            .x (.text [tk .ws [' '], tk .word "now".toList])], [tk .newline ['\n']])]
def C17_exDocComp : List (DocItem × List Tok) :=
  [(.step [.text [tk .word "Add".toList, tk .ws [' ']], .ingredient C17_exComp {},
           .text [tk .ws [' '], tk .word "now".toList]], [tk .newline ['\n']])]

example : render ([] ++ docSpecF C17_exDocCompF) = "Add @olive [- c -] oil{1%big [- c -] cup}(very [- c -] fine) now\n".toList ∧
    render ([] ++ docSpec C17_exDocComp) = "Add @olive oil{1%big cup}(very fine) now\n".toList := by decide

theorem C17_exDocComp_wf : DocWF Rat C17_toyEnv [] C17_exDocComp := by
  have h1 : (∀ d ∈ C17_exDocComp, d.1.ok C17_toyEnv.cs C17_toyEnv.ext = true) ∧ (∀ d ∈ C17_exDocComp, d.1.simple = true) ∧
      sepsOK (C17_exDocComp.map (·.2)) = true ∧ WellSpelled C17_toyEnv.cs ([] ++ docSpec C17_exDocComp) ∧
      (parseFrontmatter C17_toyEnv.cs (render ([] ++ docSpec C17_exDocComp))).isNone = true := by decide
  obtain ⟨a, b, c, d, e⟩ := h1
  refine ⟨by decide, a, b, ?_, ?_, c, d, by simpa using e⟩
  · intro x hx
    simp only [C17_exDocComp, List.mem_cons, List.not_mem_nil, or_false] at hx
    subst hx; trivial
  · intro x hx
    simp only [C17_exDocComp, List.mem_cons, List.not_mem_nil, or_false] at hx
    subst hx
    intro sg hsg
    simp only [List.mem_cons, List.not_mem_nil, or_false] at hsg
    rcases hsg with rfl | rfl | rfl
    · intro hh; exact absurd hh (by decide)
    · trivial
    · intro hh; exact absurd hh (by decide)

example : SameRecipe (α := Rat) (fun c => c = ' ')
    (parseRecipe C17_toyEnv (render ([] ++ docSpecF C17_exDocCompF)))
    (parseRecipe C17_toyEnv (render ([] ++ docSpec C17_exDocComp))) :=
  C17_filler_in_component_bodies_same_recipe _ C17_toyEnv (by decide) [] [] C17_exDocCompF C17_exDocComp C17_exDocComp_wf rfl
    (by decide)
    (by
      intro d hd
      simp only [C17_exDocCompF, List.mem_cons, List.not_mem_nil, or_false] at hd
      subst hd
      refine ⟨⟨show SegX.ok _ _ _ = true by decide, by decide, ⟨C17_exCompFiller, by decide, by decide⟩, by decide,
        show SegX.ok _ _ _ = true by decide, by decide, trivial⟩, by decide, by decide⟩)
    (by decide) (by decide)
    (by
      have : (parseFrontmatter C17_toyEnv.cs (render ([] ++ docSpecF C17_exDocCompF))).isNone = true := by decide
      simpa using this)

/-! a trailing comment on a LAST line WITHOUT line feed, recipe level: the grammar of the insertion
    theorem allows an empty last separator (`tailOK []`), so `C17_insertion_same_recipe` covers
    `Mix well` against `Mix well -- c` (no line feed at the end of either source) -/
def C17_exDocNoLF : List (DocItem × List Tok) :=
  [(.step [.text [tk .word "Mix".toList, tk .ws [' '], tk .word "well".toList]], [])]
def C17_exDocNoLFComment : List (DocItem × List Tok) :=
  [(.step [.text ([tk .word "Mix".toList, tk .ws [' '], tk .word "well".toList] ++
      [tk .ws [' '], tk .lineComment "-- c".toList] ++ [])], [])]
example : render ([] ++ docSpec C17_exDocNoLFComment) = "Mix well -- c".toList ∧
    render ([] ++ docSpec C17_exDocNoLF) = "Mix well".toList := by decide
example : SameRecipe (α := Rat) (fun c => c = ' ')
    (parseRecipe C17_toyEnv (render ([] ++ docSpec C17_exDocNoLFComment)))
    (parseRecipe C17_toyEnv (render ([] ++ docSpec C17_exDocNoLF))) :=
  C17_insertion_same_recipe C17_toyEnv _ [] [] _ _
    (C17_exDocWF _ (by decide) (by intro d hd; simp only [C17_exDocNoLFComment, List.mem_cons, List.not_mem_nil, or_false] at hd; subst hd; exact ⟨_, rfl⟩))
    (C17_exDocWF _ (by decide) (by intro d hd; simp only [C17_exDocNoLF, List.mem_cons, List.not_mem_nil, or_false] at hd; subst hd; exact ⟨_, rfl⟩))
    (C17_insertion_in_one_step _ [] [] _ _
      (C17_trailing_is_insertion _ (by decide) [] [] _ [tk .ws [' '], tk .lineComment "-- c".toList] []
        (by intro t ht; simp only [List.mem_cons, List.not_mem_nil, or_false] at ht; rcases ht with rfl | rfl <;> rfl)
        (by intro t ht; simp only [List.mem_cons, List.not_mem_nil, or_false] at ht; rcases ht with rfl | rfl <;> decide)
        (Or.inl rfl) (by intro s hs; cases hs)))

/-! non-vacuity: `= sec -- c⏎⏎>> k: v -- c⏎⏎Mix well⏎` against `= sec⏎⏎>> k: v⏎⏎Mix well⏎` -/
def C17_exDocLC : List (DocItemF × List Tok) :=
  [(.sectionLC (some [tk .word "sec".toList]) { n0 := 0, a := [tk .ws [' ']], b := [tk .ws [' ']] } (tk .lineComment "-- c".toList),
      [tk .newline ['\n'], tk .newline ['\n']]),
   (.metaLC [tk .word "k".toList] [tk .word "v".toList] { a := [tk .ws [' ']], c := [tk .ws [' ']], d := [tk .ws [' ']] }
      (tk .lineComment "-- c".toList), [tk .newline ['\n'], tk .newline ['\n']]),
   (.other (.step [.text [tk .word "Mix".toList, tk .ws [' '], tk .word "well".toList]]), [tk .newline ['\n']])]
def C17_exDocLCClean : List (DocItem × List Tok) :=
  [(.sectionLine (some [tk .word "sec".toList]) { n0 := 0, a := [tk .ws [' ']] }, [tk .newline ['\n'], tk .newline ['\n']]),
   (.metaLine [tk .word "k".toList] [tk .word "v".toList] { a := [tk .ws [' ']], c := [tk .ws [' ']] },
      [tk .newline ['\n'], tk .newline ['\n']]),
   (.step [.text [tk .word "Mix".toList, tk .ws [' '], tk .word "well".toList]], [tk .newline ['\n']])]

example : render ([] ++ docSpecF C17_exDocLC) = "= sec -- c\n\n>> k: v -- c\n\nMix well\n".toList ∧
    render ([] ++ docSpec C17_exDocLCClean) = "= sec\n\n>> k: v\n\nMix well\n".toList := by decide

theorem C17_exDocLCClean_wf : DocWF Rat C17_toyEnv [] C17_exDocLCClean := by
  have h1 : (∀ d ∈ C17_exDocLCClean, d.1.ok C17_toyEnv.cs C17_toyEnv.ext = true) ∧ (∀ d ∈ C17_exDocLCClean, d.1.simple = true) ∧
      sepsOK (C17_exDocLCClean.map (·.2)) = true ∧ WellSpelled C17_toyEnv.cs ([] ++ docSpec C17_exDocLCClean) ∧
      (parseFrontmatter C17_toyEnv.cs (render ([] ++ docSpec C17_exDocLCClean))).isNone = true := by decide
  obtain ⟨a, b, c, d, e⟩ := h1
  refine ⟨by decide, a, b, ?_, ?_, c, d, by simpa using e⟩
  · intro x hx
    simp only [C17_exDocLCClean, List.mem_cons, List.not_mem_nil, or_false] at hx
    rcases hx with rfl | rfl | rfl
    · trivial
    · refine ⟨?_, ?_⟩
      · intro hh; exact absurd hh.1 (by decide)
      · intro sk hsk
        have : StdKey.ofStr (String.ofList (leafText [tk .word "k".toList])) = none := by decide
        rw [this] at hsk; cases hsk
    · trivial
  · intro x hx
    simp only [C17_exDocLCClean, List.mem_cons, List.not_mem_nil, or_false] at hx
    rcases hx with rfl | rfl | rfl
    · trivial
    · trivial
    · intro sg hsg
      simp only [List.mem_cons, List.not_mem_nil, or_false] at hsg
      subst hsg
      intro hh; exact absurd hh (by decide)

example : SameRecipe (α := Rat) (fun c => c = ' ')
    (parseRecipe C17_toyEnv (render ([] ++ docSpecF C17_exDocLC)))
    (parseRecipe C17_toyEnv (render ([] ++ docSpec C17_exDocLCClean))) :=
  C17_trailing_comment_on_single_line_blocks_same_recipe _ C17_toyEnv (by decide) [] [] C17_exDocLC C17_exDocLCClean
    C17_exDocLCClean_wf rfl (by decide)
    (by
      intro d hd
      simp only [C17_exDocLC, List.mem_cons, List.not_mem_nil, or_false] at hd
      rcases hd with rfl | rfl | rfl
      · exact ⟨by decide, rfl⟩
      · exact ⟨by decide, rfl⟩
      · show DocItem.ok _ _ _ = true
        decide)
    (by decide) (by decide)
    (by
      have : (parseFrontmatter C17_toyEnv.cs (render ([] ++ docSpecF C17_exDocLC))).isNone = true := by decide
      simpa using this)
-- ===== end w5c17body =====
-- ===== w5advfix: defect F-C17-1 (block comment in front of the unit of an ADVANCED_UNITS quantity) =====

/-- **Block comment between value and unit of an ADVANCED_UNITS quantity `value blank unit`** (clause 4b, quantities;
    true of the code after the repair of defect F-C17-1).  The tokens between the braces are `H ++ F ++ U`:
    `H` the optional scaling lock and the value (no word token, not only lock and blanks), `F` what stands between
    value and unit, `U` the unit tokens, the first of which is a word; no `%` anywhere, the extension is on and the
    value reads as a number or a range.  For ANY two fillers `F₁`, `F₂` made of blanks and block comments with at
    least one blank each — `1 kg`, `1 [- c -]kg` (comment glued to the unit), `1[- c -] kg` (comment between value
    and blank), `1 [- c -] kg`, several comments — `parse_quantity` gives the same quantity up to spans:
    the same value with the same span and scaling lock, units with the same content (`ParsedQSim`: equal fragment
    texts, hence equal `text()` / `text_trimmed()`; the unit tokens of the two inputs sit at different offsets,
    `LRel TokSim`), a unit on both sides, no unit separator; the same events (errors of the value) are pushed and
    extensions, character table, outer tokens and cursor are left alike.  Validity cannot differ: the pushed events
    are equal.  Not compared: the span of the whole quantity (it covers the filler) and the panic flag (never set on
    lexed tokens, C03).  Before the repair this was FALSE: see `C17_advanced_quantity_defect_before_repair`. -/
theorem C17_advanced_quantity_comment_before_unit {α : Type} [Arith α] (s : BP α) (hu : UwsNL s.cs)
    (hadv : s.ext.has Gen.EXT_ADVANCED_UNITS = true) (H F₁ F₂ U₁ U₂ : List Tok)
    (hH : ∀ t ∈ H, t.kind ≠ .word) (hne : advValueToks H ≠ [])
    (hF₁ : A17qFiller F₁) (hF₂ : A17qFiller F₂)
    (hU : LRel TokSim U₁ U₂) (hw : ∃ w r, U₁ = w :: r ∧ w.kind = .word)
    (hp : ∀ t ∈ H ++ U₁, t.kind ≠ .percent)
    (hnum : (numOrRange (α := α) (s.ext.has Gen.EXT_RANGE_VALUES) (a17qTrim (advValueToks H))).isSome = true) :
    ParsedQSim s.cs.uws (parseQuantity (H ++ (F₁ ++ U₁)) s).1 (parseQuantity (H ++ (F₂ ++ U₂)) s).1 ∧
    (parseQuantity (H ++ (F₁ ++ U₁)) s).1.quantity.val.value = (parseQuantity (H ++ (F₂ ++ U₂)) s).1.quantity.val.value ∧
    (parseQuantity (H ++ (F₁ ++ U₁)) s).1.quantity.val.unit.isSome = true ∧
    (parseQuantity (H ++ (F₁ ++ U₁)) s).1.unitSep = none ∧ (parseQuantity (H ++ (F₂ ++ U₂)) s).1.unitSep = none ∧
    (parseQuantity (H ++ (F₁ ++ U₁)) s).2.evs = (parseQuantity (H ++ (F₂ ++ U₂)) s).2.evs ∧
    (parseQuantity (H ++ (F₁ ++ U₁)) s).2.ext = (parseQuantity (H ++ (F₂ ++ U₂)) s).2.ext ∧
    (parseQuantity (H ++ (F₁ ++ U₁)) s).2.cs = (parseQuantity (H ++ (F₂ ++ U₂)) s).2.cs ∧
    (parseQuantity (H ++ (F₁ ++ U₁)) s).2.toks = (parseQuantity (H ++ (F₂ ++ U₂)) s).2.toks ∧
    (parseQuantity (H ++ (F₁ ++ U₁)) s).2.cur = (parseQuantity (H ++ (F₂ ++ U₂)) s).2.cur :=
  a17q_parseQuantity_filler s hu hadv H F₁ F₂ U₁ U₂ hH hne hF₁ hF₂ hU hw hp hnum

/-- the hypotheses on `1 kg` against `1 [- c -]kg` (the minimal input of the defect), all extensions on -/
example :
    ParsedQSim toyCharSpec.uws
      (parseQuantity (α := Rat) a17qPlain ⟨[], 0, ⟨3818⟩, toyCharSpec, #[], none⟩).1
      (parseQuantity (α := Rat) a17qGlued ⟨[], 0, ⟨3818⟩, toyCharSpec, #[], none⟩).1 :=
  (C17_advanced_quantity_comment_before_unit (α := Rat) ⟨[], 0, ⟨3818⟩, toyCharSpec, #[], none⟩
    ⟨by decide, by decide⟩ (by decide) [⟨.int, ['1'], 0⟩]
    [⟨.ws, [' '], 1⟩] [⟨.ws, [' '], 1⟩, ⟨.blockComment, ['[', '-', ' ', 'c', ' ', '-', ']'], 2⟩]
    [⟨.word, ['k', 'g'], 2⟩] [⟨.word, ['k', 'g'], 9⟩]
    (by decide) (by decide)
    ⟨by intro t ht; simp only [List.mem_cons, List.not_mem_nil, or_false] at ht; subst ht; simp, ⟨⟨.ws, [' '], 1⟩, by simp, rfl⟩⟩
    ⟨by intro t ht; simp only [List.mem_cons, List.not_mem_nil, or_false] at ht; rcases ht with rfl | rfl <;> simp,
      ⟨⟨.ws, [' '], 1⟩, by simp, rfl⟩⟩
    (.cons ⟨rfl, fun _ => rfl, fun h => by cases h⟩ .nil) ⟨_, _, rfl, rfl⟩ (by decide) (a17q_num_one _)).1

/-- the same with the comment between value and blank (`1[- c -] kg`) and on both sides of two blanks -/
example : A17qFiller [⟨.blockComment, ['[', '-', ' ', 'c', ' ', '-', ']'], 1⟩, ⟨.ws, [' '], 8⟩] ∧
    A17qFiller [⟨.ws, [' '], 1⟩, ⟨.blockComment, ['[', '-', ' ', 'c', ' ', '-', ']'], 2⟩, ⟨.ws, [' '], 9⟩] :=
  ⟨⟨by intro t ht; simp only [List.mem_cons, List.not_mem_nil, or_false] at ht; rcases ht with rfl | rfl <;> simp,
      ⟨⟨.ws, [' '], 8⟩, by simp, rfl⟩⟩,
   ⟨by intro t ht; simp only [List.mem_cons, List.not_mem_nil, or_false] at ht; rcases ht with rfl | rfl | rfl <;> simp,
      ⟨⟨.ws, [' '], 1⟩, by simp, rfl⟩⟩⟩

/-- `C17_advanced_quantity_comment_before_unit` at the character table generated from the real lexer:
    the side condition `UwsNL` is proved for that table (`Lemmas/TableFacts.lean`), not assumed -/
theorem C17_advanced_quantity_comment_before_unit_real {α : Type} [Arith α] (s : BP α) (hcs : s.cs = realCharSpec)
    (hadv : s.ext.has Gen.EXT_ADVANCED_UNITS = true) (H F₁ F₂ U₁ U₂ : List Tok)
    (hH : ∀ t ∈ H, t.kind ≠ .word) (hne : advValueToks H ≠ [])
    (hF₁ : A17qFiller F₁) (hF₂ : A17qFiller F₂)
    (hU : LRel TokSim U₁ U₂) (hw : ∃ w r, U₁ = w :: r ∧ w.kind = .word)
    (hp : ∀ t ∈ H ++ U₁, t.kind ≠ .percent)
    (hnum : (numOrRange (α := α) (s.ext.has Gen.EXT_RANGE_VALUES) (a17qTrim (advValueToks H))).isSome = true) :
    ParsedQSim realCharSpec.uws (parseQuantity (H ++ (F₁ ++ U₁)) s).1 (parseQuantity (H ++ (F₂ ++ U₂)) s).1 ∧
    (parseQuantity (H ++ (F₁ ++ U₁)) s).1.quantity.val.value = (parseQuantity (H ++ (F₂ ++ U₂)) s).1.quantity.val.value ∧
    (parseQuantity (H ++ (F₁ ++ U₁)) s).2.evs = (parseQuantity (H ++ (F₂ ++ U₂)) s).2.evs := by
  have h := C17_advanced_quantity_comment_before_unit s (by rw [hcs]; exact C17_uwsNL_real) hadv H F₁ F₂ U₁ U₂
    hH hne hF₁ hF₂ hU hw hp hnum
  rw [hcs] at h
  exact ⟨h.1, h.2.1, h.2.2.2.2.2.1⟩

/-- **Defect F-C17-1, before the repair.**  `parseAdvancedQuantityOrig` is the model of `parse_advanced_quantity`
    as it was (blank test on the very last value token).  On the tokens of `1 [- c -]kg` it DECLINES (`None`) — the
    quantity then went through the regular reading and became the text value `"1 kg"` without unit: `~{1 [- c -]min}`
    "missing unit", `@x{1 [- c -]kg}` a text — whatever the extensions and the character table, whereas on `1 kg`
    the reading is a number with a unit: the comment changed the recipe and its validity.  The repaired function
    (the current model, tied to the repaired code by the correspondence run) accepts both, and
    `C17_advanced_quantity_comment_before_unit` shows the results agree. -/
theorem C17_advanced_quantity_defect_before_repair {α : Type} [Arith α] (e : Ext) (cs : CharSpec) (evs : Array (Ev α)) :
    (parseAdvancedQuantityOrig (α := α) ⟨a17qGlued, 0, e, cs, evs, none⟩).1 = none ∧
    (parseAdvancedQuantity (α := α) ⟨a17qGlued, 0, e, cs, evs, none⟩).1.isSome = true ∧
    (parseAdvancedQuantity (α := α) ⟨a17qPlain, 0, e, cs, evs, none⟩).1.isSome = true :=
  ⟨a17q_orig_declines_glued e cs evs, a17q_new_accepts e cs evs⟩

/-- the tokens of the statement are those of `1 kg` and `1 [- c -]kg` -/
example : a17qPlain.flatMap (·.text) = "1 kg".toList ∧ a17qGlued.flatMap (·.text) = "1 [- c -]kg".toList := by decide

-- ===== w6c17docwf =====
/-! ## Wave 6 (notes/audit-C17.md, "Wave 6"): the text-mode exclusion as a decidable predicate on the
    event list — the `_modes_off` theorems for EVERY extension set (in particular `Extensions::all()`,
    which has MODES on) -/

/-- **The text-mode exclusion, decidable.**  `TextSwitchFree cs evs` (a `Bool`): no event of the list
    is a `>>` entry whose trimmed key is `[define]` or `[mode]` and whose trimmed value is `text`.
    For the events of the pull parser on ANY input, under ANY extension set (MODES on or off), this
    implies `TextModeFree`: the analysis never copies a component's source text into a text block.
    (With MODES on the define mode changes only at such entries; the other values — `all`, `default`,
    `components`, `ingredients`, `steps`, an invalid value — never give mode `text`.)  The exclusion
    itself is necessary: `C17_text_mode_exclusion_needed`. -/
theorem C17_text_switch_free_text_mode_free {α : Type} [Arith α] (env : Env) (s : List Char)
    (hfree : TextSwitchFree env.cs (pullEvents (α := α) env.cs env.ext s).1.toList = true) :
    TextModeFree env s (pullEvents (α := α) env.cs env.ext s).1.toList {} :=
  w6m_pullEvents_textModeFree env s hfree

/-- one event: an event that is not such a switch never makes the define mode `text` -/
theorem C17_define_mode_text_only_by_switch {α : Type} [Arith α] (env : Env) (input : Str) (ev : Ev α)
    (hev : ev.w6mSetsText env.cs = false) (c : Col α) (hd : c.defineMode ≠ .text) :
    (processEvent env input ev c).2.defineMode ≠ .text := w6m_processEvent env input ev hev c hd

/-- **CRLF conversion, every backslash-free input, every extension set** (MODES on included): when
    the events of the LF source contain no switch to define mode `text`, `parse (crlf s)` and
    `parse s` are `ResSim`-related — equal sections, steps, items, text items, tables, metadata map,
    same validity, diagnostics of the same kinds in the same order. -/
theorem C17_crlf_recipe {α : Type} [Arith α] (env : Env) (hcs : CrlfSpec env.cs) (hu : UwsNL env.cs)
    (s : List Char) (hs : CrlfSafe s)
    (hfree : TextSwitchFree env.cs (pullEvents (α := α) env.cs env.ext s).1.toList = true) :
    ResSim env.cs.uws (parseRecipe (α := α) env (crlf s)) (parseRecipe (α := α) env s) :=
  crlf_parseRecipe_sim env hcs hu s hs (w6m_pullEvents_textModeFree env s hfree)

/-- … in the vocabulary of the property -/
theorem C17_crlf_same_recipe {α : Type} [Arith α] (ws : Char → Bool) (env : Env) (hcs : CrlfSpec env.cs)
    (hu : UwsNL env.cs) (s : List Char) (hs : CrlfSafe s)
    (hfree : TextSwitchFree env.cs (pullEvents (α := α) env.cs env.ext s).1.toList = true) :
    SameRecipe ws (parseRecipe (α := α) env (crlf s)) (parseRecipe (α := α) env s) :=
  a17_resSim_same ws (C17_crlf_recipe (α := α) env hcs hu s hs hfree)

/-- **From loose events to the same recipe, every extension set**: two sources whose `PullParser`
    events are `EvLoose`-related parse to the same recipe when the events of the second contain no
    switch to define mode `text`. -/
theorem C17_events_loose_same_recipe {α : Type} [Arith α] (ws : Char → Bool) (env : Env) (s' s : List Char)
    (h : LRel (EvLoose env.cs) (pullEvents (α := α) env.cs env.ext s').1.toList (pullEvents (α := α) env.cs env.ext s).1.toList)
    (hfree : TextSwitchFree env.cs (pullEvents (α := α) env.cs env.ext s).1.toList = true) :
    SameRecipe ws (parseRecipe (α := α) env s') (parseRecipe (α := α) env s) :=
  a17_resSim_same ws (bl17_parseRecipe_loose env s' s h (w6m_pullEvents_textModeFree env s hfree))

/-- **Extra blank / comment-only line in the source (no front matter), every extension set.** -/
theorem C17_extra_blank_line_source_same_recipe {α : Type} [Arith α] (ws : Char → Bool) (env : Env) (hu : UwsNL env.cs)
    (u e0 e x : List Char) (L : List (List Tok)) (hlu : lex env.cs u = L.flatten) (hL : ∀ l ∈ L, IsLine l)
    (hE0 : EmptyLine (lexFrom env.cs (utf8Len u) e0)) (hE : EmptyLine (lexFrom env.cs (utf8Len u + utf8Len e0) e))
    (h1 : parseFrontmatter env.cs (u ++ (e0 ++ (e ++ x))) = none) (h2 : parseFrontmatter env.cs (u ++ (e0 ++ x)) = none)
    (hfree : TextSwitchFree env.cs (pullEvents (α := α) env.cs env.ext (u ++ (e0 ++ x))).1.toList = true) :
    SameRecipe ws (parseRecipe (α := α) env (u ++ (e0 ++ (e ++ x)))) (parseRecipe (α := α) env (u ++ (e0 ++ x))) :=
  a17_resSim_same ws
    (blank_line_source_recipe env hu u e0 e x L hlu hL hE0 hE h1 h2 (w6m_pullEvents_textModeFree env _ hfree))

/-- **A further blank line in front of the front matter, every extension set.** -/
theorem C17_blank_line_before_frontmatter_same_recipe {α : Type} [Arith α] (ws : Char → Bool) (env : Env)
    (hu : UwsNL env.cs) (e : List Char) (B Y : List (List Char)) (f1 f2 X : List Char)
    (he : StrLine e ∧ (trim env.cs.uws e).isEmpty = true)
    (hB : ∀ l ∈ B, StrLine l ∧ (trim env.cs.uws l).isEmpty = true)
    (hf1 : StrLine f1 ∧ isFence env.cs f1 = true) (hY : ∀ l ∈ Y, StrLine l ∧ isFence env.cs l = false)
    (hf2 : StrLine f2 ∧ isFence env.cs f2 = true)
    (hfree : TextSwitchFree env.cs
      (pullEvents (α := α) env.cs env.ext (B.flatten ++ (f1 ++ (Y.flatten ++ (f2 ++ X))))).1.toList = true) :
    SameRecipe ws (parseRecipe (α := α) env (e ++ (B.flatten ++ (f1 ++ (Y.flatten ++ (f2 ++ X))))))
      (parseRecipe (α := α) env (B.flatten ++ (f1 ++ (Y.flatten ++ (f2 ++ X))))) :=
  a17_resSim_same ws (bl17_blank_before_front_recipe env hu e B Y f1 f2 X he hB hf1 hY hf2
    (w6m_pullEvents_textModeFree env _ hfree))

/-- **A blank or comment-only line directly behind the closing fence, every extension set.** -/
theorem C17_line_after_frontmatter_same_recipe {α : Type} [Arith α] (ws : Char → Bool) (env : Env)
    (hu : UwsNL env.cs) (e : List Char) (B Y : List (List Char)) (f1 f2 X : List Char)
    (hB : ∀ l ∈ B, StrLine l ∧ (trim env.cs.uws l).isEmpty = true)
    (hf1 : StrLine f1 ∧ isFence env.cs f1 = true) (hY : ∀ l ∈ Y, StrLine l ∧ isFence env.cs l = false)
    (hf2 : StrLine f2 ∧ isFence env.cs f2 = true)
    (hE : EmptyLine (lexFrom env.cs (utf8Len B.flatten + utf8Len f1 + utf8Len Y.flatten + utf8Len f2) e))
    (hfree : TextSwitchFree env.cs
      (pullEvents (α := α) env.cs env.ext (B.flatten ++ (f1 ++ (Y.flatten ++ (f2 ++ X))))).1.toList = true) :
    SameRecipe ws (parseRecipe (α := α) env (B.flatten ++ (f1 ++ (Y.flatten ++ (f2 ++ (e ++ X))))))
      (parseRecipe (α := α) env (B.flatten ++ (f1 ++ (Y.flatten ++ (f2 ++ X))))) :=
  a17_resSim_same ws (bl17_line_after_front_recipe env hu e B Y f1 f2 X hB hf1 hY hf2 hE
    (w6m_pullEvents_textModeFree env _ hfree))

/-- **Two edits composed, every extension set**: an extra blank / comment-only line and CRLF
    conversion of the result.  The exclusion is asked of the two LF sources (with and without the
    line). -/
theorem C17_crlf_after_extra_blank_line {α : Type} [Arith α] (ws : Char → Bool) (env : Env)
    (hcs : CrlfSpec env.cs) (hu : UwsNL env.cs)
    (u e0 e x : List Char) (L : List (List Tok)) (hlu : lex env.cs u = L.flatten) (hL : ∀ l ∈ L, IsLine l)
    (hE0 : EmptyLine (lexFrom env.cs (utf8Len u) e0)) (hE : EmptyLine (lexFrom env.cs (utf8Len u + utf8Len e0) e))
    (h1 : parseFrontmatter env.cs (u ++ (e0 ++ (e ++ x))) = none) (h2 : parseFrontmatter env.cs (u ++ (e0 ++ x)) = none)
    (hs : CrlfSafe (u ++ (e0 ++ (e ++ x))))
    (hfree' : TextSwitchFree env.cs (pullEvents (α := α) env.cs env.ext (u ++ (e0 ++ (e ++ x)))).1.toList = true)
    (hfree : TextSwitchFree env.cs (pullEvents (α := α) env.cs env.ext (u ++ (e0 ++ x))).1.toList = true) :
    SameRecipe ws (parseRecipe (α := α) env (crlf (u ++ (e0 ++ (e ++ x))))) (parseRecipe (α := α) env (u ++ (e0 ++ x))) :=
  (C17_crlf_same_recipe ws env hcs hu _ hs hfree').a17_trans
    (C17_extra_blank_line_source_same_recipe ws env hu u e0 e x L hlu hL hE0 hE h1 h2 hfree)

/-- the predicate does not depend on the extension set, and it holds of every list without `>>` entries -/
theorem C17_text_switch_free_of_no_metadata {α : Type} [Arith α] (cs : CharSpec) (evs : List (Ev α))
    (h : ∀ ev ∈ evs, ∀ k v, ev ≠ .metadata k v) : TextSwitchFree cs evs = true := w6m_free_of_no_metadata cs evs h

/-! non-vacuity: an environment with MODES ON; an event list with a `>>` entry `[mode]: steps` (a
    mode switch, but not to `text`) satisfies the predicate; `[mode]: text` is excluded -/
def C17_toyEnvModes : Env := ⟨toyCharSpec, ⟨Gen.EXT_MODES⟩, fun _ => none, fun _ _ => .ok, fun c => [c], 0⟩
example : C17_toyEnvModes.ext.has Gen.EXT_MODES = true := by decide
example : TextSwitchFree (α := Rat) toyCharSpec
    [.metadata (buildText 3 [tk .word "[mode]".toList]) (buildText 11 [tk .word "steps".toList]),
     .start .step, .timer ⟨⟨none, none⟩, ⟨0, 0⟩⟩, .stop .step] = true := by decide
example : TextSwitchFree (α := Rat) toyCharSpec
    [.metadata (buildText 3 [tk .word "[mode]".toList]) (buildText 11 [tk .word "text".toList])] = false := by decide
-- ===== end w6c17docwf (part 1) =====

-- ===== w6c17docwf (part 2): the recipe-level theorems at the character table of the real lexer =====
/-! Every recipe-level theorem of this file is stated for every `Env` (any extension bits, any converter);
    the ones below restate those that carry a side condition on the character table at the table generated
    from the real lexer (`env.cs = realCharSpec`: true of `Driver.realEnv ext conv` for every `ext`, `conv`,
    in particular of the canonical parser `realEnv 0 0` and the extended parser `realEnv 3818 1`), with
    the side conditions (`CrlfSpec`, `UwsNL`, `uws ' '`) proved for that table, not assumed.
    `C17_insertion_same_recipe`, `C17_insertion_recipe_wellformed_partial`, `C17_events_loose_same_recipe(_modes_off)`
    have no table side condition.  `Props/Tables.lean` instantiates them at the two parsers. -/

theorem C17_crlf_recipe_real {α : Type} [Arith α] (env : Env) (hreal : env.cs = realCharSpec)
    (s : List Char) (hs : CrlfSafe s)
    (hfree : TextSwitchFree env.cs (pullEvents (α := α) env.cs env.ext s).1.toList = true) :
    ResSim env.cs.uws (parseRecipe (α := α) env (crlf s)) (parseRecipe (α := α) env s) :=
  C17_crlf_recipe env (hcs := hreal ▸ C17_crlfSpec_real) (hu := hreal ▸ C17_uwsNL_real) s hs hfree

theorem C17_crlf_same_recipe_real {α : Type} [Arith α] (ws : Char → Bool) (env : Env) (hreal : env.cs = realCharSpec)
    (s : List Char) (hs : CrlfSafe s)
    (hfree : TextSwitchFree env.cs (pullEvents (α := α) env.cs env.ext s).1.toList = true) :
    SameRecipe ws (parseRecipe (α := α) env (crlf s)) (parseRecipe (α := α) env s) :=
  C17_crlf_same_recipe ws env (hcs := hreal ▸ C17_crlfSpec_real) (hu := hreal ▸ C17_uwsNL_real) s hs hfree

theorem C17_crlf_same_recipe_modes_off_real {α : Type} [Arith α] (ws : Char → Bool) (env : Env)
    (hreal : env.cs = realCharSpec) (hm : env.ext.has Gen.EXT_MODES = false) (s : List Char) (hs : CrlfSafe s) :
    SameRecipe ws (parseRecipe (α := α) env (crlf s)) (parseRecipe (α := α) env s) :=
  C17_crlf_same_recipe_modes_off ws env (hcs := hreal ▸ C17_crlfSpec_real) (hu := hreal ▸ C17_uwsNL_real) hm s hs

theorem C17_extra_blank_line_source_same_recipe_real {α : Type} [Arith α] (ws : Char → Bool) (env : Env)
    (hreal : env.cs = realCharSpec)
    (u e0 e x : List Char) (L : List (List Tok)) (hlu : lex env.cs u = L.flatten) (hL : ∀ l ∈ L, IsLine l)
    (hE0 : EmptyLine (lexFrom env.cs (utf8Len u) e0)) (hE : EmptyLine (lexFrom env.cs (utf8Len u + utf8Len e0) e))
    (h1 : parseFrontmatter env.cs (u ++ (e0 ++ (e ++ x))) = none) (h2 : parseFrontmatter env.cs (u ++ (e0 ++ x)) = none)
    (hfree : TextSwitchFree env.cs (pullEvents (α := α) env.cs env.ext (u ++ (e0 ++ x))).1.toList = true) :
    SameRecipe ws (parseRecipe (α := α) env (u ++ (e0 ++ (e ++ x)))) (parseRecipe (α := α) env (u ++ (e0 ++ x))) :=
  C17_extra_blank_line_source_same_recipe ws env (hu := hreal ▸ C17_uwsNL_real) u e0 e x L hlu hL hE0 hE h1 h2 hfree

theorem C17_crlf_after_extra_blank_line_real {α : Type} [Arith α] (ws : Char → Bool) (env : Env)
    (hreal : env.cs = realCharSpec)
    (u e0 e x : List Char) (L : List (List Tok)) (hlu : lex env.cs u = L.flatten) (hL : ∀ l ∈ L, IsLine l)
    (hE0 : EmptyLine (lexFrom env.cs (utf8Len u) e0)) (hE : EmptyLine (lexFrom env.cs (utf8Len u + utf8Len e0) e))
    (h1 : parseFrontmatter env.cs (u ++ (e0 ++ (e ++ x))) = none) (h2 : parseFrontmatter env.cs (u ++ (e0 ++ x)) = none)
    (hs : CrlfSafe (u ++ (e0 ++ (e ++ x))))
    (hfree' : TextSwitchFree env.cs (pullEvents (α := α) env.cs env.ext (u ++ (e0 ++ (e ++ x)))).1.toList = true)
    (hfree : TextSwitchFree env.cs (pullEvents (α := α) env.cs env.ext (u ++ (e0 ++ x))).1.toList = true) :
    SameRecipe ws (parseRecipe (α := α) env (crlf (u ++ (e0 ++ (e ++ x))))) (parseRecipe (α := α) env (u ++ (e0 ++ x))) :=
  C17_crlf_after_extra_blank_line ws env (hcs := hreal ▸ C17_crlfSpec_real) (hu := hreal ▸ C17_uwsNL_real)
    u e0 e x L hlu hL hE0 hE h1 h2 hs hfree' hfree

theorem C17_blank_line_before_frontmatter_same_recipe_real {α : Type} [Arith α] (ws : Char → Bool) (env : Env)
    (hreal : env.cs = realCharSpec) (e : List Char) (B Y : List (List Char)) (f1 f2 X : List Char)
    (he : StrLine e ∧ (trim env.cs.uws e).isEmpty = true)
    (hB : ∀ l ∈ B, StrLine l ∧ (trim env.cs.uws l).isEmpty = true)
    (hf1 : StrLine f1 ∧ isFence env.cs f1 = true) (hY : ∀ l ∈ Y, StrLine l ∧ isFence env.cs l = false)
    (hf2 : StrLine f2 ∧ isFence env.cs f2 = true)
    (hfree : TextSwitchFree env.cs
      (pullEvents (α := α) env.cs env.ext (B.flatten ++ (f1 ++ (Y.flatten ++ (f2 ++ X))))).1.toList = true) :
    SameRecipe ws (parseRecipe (α := α) env (e ++ (B.flatten ++ (f1 ++ (Y.flatten ++ (f2 ++ X))))))
      (parseRecipe (α := α) env (B.flatten ++ (f1 ++ (Y.flatten ++ (f2 ++ X))))) :=
  C17_blank_line_before_frontmatter_same_recipe ws env (hu := hreal ▸ C17_uwsNL_real) e B Y f1 f2 X he hB hf1 hY hf2 hfree

theorem C17_line_after_frontmatter_same_recipe_real {α : Type} [Arith α] (ws : Char → Bool) (env : Env)
    (hreal : env.cs = realCharSpec) (e : List Char) (B Y : List (List Char)) (f1 f2 X : List Char)
    (hB : ∀ l ∈ B, StrLine l ∧ (trim env.cs.uws l).isEmpty = true)
    (hf1 : StrLine f1 ∧ isFence env.cs f1 = true) (hY : ∀ l ∈ Y, StrLine l ∧ isFence env.cs l = false)
    (hf2 : StrLine f2 ∧ isFence env.cs f2 = true)
    (hE : EmptyLine (lexFrom env.cs (utf8Len B.flatten + utf8Len f1 + utf8Len Y.flatten + utf8Len f2) e))
    (hfree : TextSwitchFree env.cs
      (pullEvents (α := α) env.cs env.ext (B.flatten ++ (f1 ++ (Y.flatten ++ (f2 ++ X))))).1.toList = true) :
    SameRecipe ws (parseRecipe (α := α) env (B.flatten ++ (f1 ++ (Y.flatten ++ (f2 ++ (e ++ X))))))
      (parseRecipe (α := α) env (B.flatten ++ (f1 ++ (Y.flatten ++ (f2 ++ X))))) :=
  C17_line_after_frontmatter_same_recipe ws env (hu := hreal ▸ C17_uwsNL_real) e B Y f1 f2 X hB hf1 hY hf2 hE hfree

theorem C17_filler_in_component_bodies_same_recipe_real {α : Type} [Arith α] (ws : Char → Bool) (env : Env)
    (hreal : env.cs = realCharSpec) (pre' pre : List Tok) (docF : List (DocItemF × List Tok))
    (doc : List (DocItem × List Tok)) (h : DocWF α env pre doc)
    (hclean : ((docCleanF docF).map (·.1)).map DocItem.core = (doc.map (·.1)).map DocItem.core)
    (hpre' : blankLinesOK pre' = true) (hok : ∀ d ∈ docF, d.1.OK env.cs env.ext)
    (hseps : sepsOK (docF.map (·.2)) = true) (hw : WellSpelled env.cs (pre' ++ docSpecF docF))
    (hfm : parseFrontmatter env.cs (render (pre' ++ docSpecF docF)) = none) :
    SameRecipe ws (parseRecipe (α := α) env (render (pre' ++ docSpecF docF)))
      (parseRecipe (α := α) env (render (pre ++ docSpec doc))) :=
  C17_filler_in_component_bodies_same_recipe ws env (hsp := hreal ▸ tbl_uws_sp) pre' pre docF doc h hclean hpre' hok hseps hw hfm

theorem C17_trailing_comment_on_single_line_blocks_same_recipe_real {α : Type} [Arith α] (ws : Char → Bool) (env : Env)
    (hreal : env.cs = realCharSpec) (pre' pre : List Tok) (docF : List (DocItemF × List Tok))
    (doc : List (DocItem × List Tok)) (h : DocWF α env pre doc)
    (hclean : ((docCleanF docF).map (·.1)).map DocItem.core = (doc.map (·.1)).map DocItem.core)
    (hpre' : blankLinesOK pre' = true) (hok : ∀ d ∈ docF, d.1.OK env.cs env.ext)
    (hseps : sepsOK (docF.map (·.2)) = true) (hw : WellSpelled env.cs (pre' ++ docSpecF docF))
    (hfm : parseFrontmatter env.cs (render (pre' ++ docSpecF docF)) = none) :
    SameRecipe ws (parseRecipe (α := α) env (render (pre' ++ docSpecF docF)))
      (parseRecipe (α := α) env (render (pre ++ docSpec doc))) :=
  C17_trailing_comment_on_single_line_blocks_same_recipe ws env (hsp := hreal ▸ tbl_uws_sp) pre' pre docF doc h hclean hpre'
    hok hseps hw hfm
-- ===== end w6c17docwf (part 2) =====

-- ===== w6c17docwf (part 3): well-formedness of the TRANSFORMED document derived =====
/-- **A step with filler inserted in a text run is a block of the grammar again.**  `DocItem.ok` of a
    step = every segment within the grammar, every component FOLLOWED as the grammar demands (a braces
    component without note and a timer not by `(`; a single-word component by no `{` before the next
    marker ANYWHERE in the rest of the step and by no word / `(`), first token not `>>`, `=`, `>`, and
    the shape of a multi-line block (no blank line, no line starting with `>>` or `=`).  All of it is
    inherited when tokens `F` that are white space / block comments / line comments (`IsFiller`) are
    inserted anywhere in a text run — also the conditions that look at the whole rest of the step
    (obstacle (iii) of the audit): filler shows neither `{`, `(`, a marker, a word nor a line end. -/
theorem C17_step_with_filler_in_text_wellformed (cs : CharSpec) (e : Ext) (S1 S2 : List SegX) (l1 F l2 : List Tok)
    (hF : IsFiller F) (h : (DocItem.step (S1 ++ SegX.text (l1 ++ l2) :: S2)).ok cs e = true) :
    (DocItem.step (S1 ++ SegX.text (l1 ++ F ++ l2) :: S2)).ok cs e = true :=
  w6d_step_ok_inText cs e S1 S2 l1 F l2 hF h

/-- … and with filler as a text run of its own (behind a component or at the start of the step, in
    front of a component or at the end of the step: `@a{} -- c⏎`, `@a{} [- c -]@b{}`), when the filler
    shows something (holds a blank) and is not placed directly behind a text run (that insertion is
    the other form, at the end of that run — the case the audit pointed at, two text runs next to
    each other, is excluded by this condition on the insertion point). -/
theorem C17_step_with_filler_run_wellformed (cs : CharSpec) (e : Ext) (S1 S2 : List SegX) (F : List Tok)
    (hF : IsFiller F) (hvis : F.flatMap vis ≠ []) (hS2 : ∀ s, S2.head? = some s → s.isText = false)
    (hS1 : ∀ s, S1.getLast? = some s → s.isText = false) (h : (DocItem.step (S1 ++ S2)).ok cs e = true) :
    (DocItem.step (S1 ++ SegX.text F :: S2)).ok cs e = true :=
  w6d_step_ok_newText cs e S1 S2 F hF hvis hS2 hS1 h

/-- **`DocWF` of the transformed document from `DocWF` of the original** (partial, see MISSING), filler
    inside a text run of one step of the document `D1 ++ step :: D2`.  Derived: leading blank lines,
    every block within the grammar (theorem above), plain definitions, plain metadata, the extension
    conditions of all OTHER segments, the separators.  MISSING (still asked of the transformed text):
    (a) its spelling — `C17_well_spelled_insertion` reduces it to the filler and its two neighbours;
    (b) that it has no front-matter fence (obstacle (ii): a line-level argument; a block comment may
    span lines, so "no line becomes `---`" is a condition on the filler, not a consequence);
    (c) under INLINE_QUANTITIES only: that the inline-quantity scan finds nothing in the changed run
    (obstacle (i); void without the extension, `C17_insertion_in_text_same_recipe_inline_off_partial`). -/
theorem C17_insertion_in_text_wellformed_partial {α : Type} [Arith α] (env : Env) (pre : List Tok)
    (D1 D2 : List (DocItem × List Tok)) (sep : List Tok) (S1 S2 : List SegX) (l1 F l2 : List Tok) (hF : IsFiller F)
    (h : DocWF α env pre (D1 ++ (DocItem.step (S1 ++ SegX.text (l1 ++ l2) :: S2), sep) :: D2))
    (hext : (SegX.text (l1 ++ F ++ l2)).extOK α env)
    (hw : WellSpelled env.cs (pre ++ docSpec (D1 ++ (DocItem.step (S1 ++ SegX.text (l1 ++ F ++ l2) :: S2), sep) :: D2)))
    (hfm : parseFrontmatter env.cs
      (render (pre ++ docSpec (D1 ++ (DocItem.step (S1 ++ SegX.text (l1 ++ F ++ l2) :: S2), sep) :: D2))) = none) :
    DocWF α env pre (D1 ++ (DocItem.step (S1 ++ SegX.text (l1 ++ F ++ l2) :: S2), sep) :: D2) :=
  w6d_docWF_inText env pre D1 D2 sep S1 S2 l1 F l2 hF h hext hw hfm

/-- the same for filler as a text run of its own -/
theorem C17_insertion_run_wellformed_partial {α : Type} [Arith α] (env : Env) (pre : List Tok)
    (D1 D2 : List (DocItem × List Tok)) (sep : List Tok) (S1 S2 : List SegX) (F : List Tok) (hF : IsFiller F)
    (hvis : F.flatMap vis ≠ []) (hS2 : ∀ s, S2.head? = some s → s.isText = false)
    (hS1 : ∀ s, S1.getLast? = some s → s.isText = false)
    (h : DocWF α env pre (D1 ++ (DocItem.step (S1 ++ S2), sep) :: D2))
    (hext : (SegX.text F).extOK α env)
    (hw : WellSpelled env.cs (pre ++ docSpec (D1 ++ (DocItem.step (S1 ++ SegX.text F :: S2), sep) :: D2)))
    (hfm : parseFrontmatter env.cs
      (render (pre ++ docSpec (D1 ++ (DocItem.step (S1 ++ SegX.text F :: S2), sep) :: D2))) = none) :
    DocWF α env pre (D1 ++ (DocItem.step (S1 ++ SegX.text F :: S2), sep) :: D2) :=
  w6d_docWF_newText env pre D1 D2 sep S1 S2 F hF hvis hS2 hS1 h hext hw hfm

/-- **Trailing comment / trailing blanks / block comment between words of step text: the same recipe,
    from the well-formedness of the ORIGINAL alone, INLINE_QUANTITIES off** (the canonical parser; partial:
    spelling and "no fence" of the transformed text are still hypotheses, see above).  `F`: white space
    / comment tokens showing only white space, next to white space or at the end of the run; the run is
    followed by a component or the end of the step. -/
theorem C17_insertion_in_text_same_recipe_inline_off_partial {α : Type} [Arith α] (env : Env) (ws : Char → Bool)
    (hoff : env.ext.has Gen.EXT_INLINE_QUANTITIES = false) (pre : List Tok)
    (D1 D2 : List (DocItem × List Tok)) (sep : List Tok) (S1 S2 : List SegX) (l1 F l2 : List Tok) (hF : IsFiller F)
    (hvis : ∀ c ∈ F.flatMap vis, ws c = true) (hadj : BlankAdj ws (l1.flatMap vis) (l2.flatMap vis))
    (hS2 : ∀ s, S2.head? = some s → s.isText = false)
    (h : DocWF α env pre (D1 ++ (DocItem.step (S1 ++ SegX.text (l1 ++ l2) :: S2), sep) :: D2))
    (hw : WellSpelled env.cs (pre ++ docSpec (D1 ++ (DocItem.step (S1 ++ SegX.text (l1 ++ F ++ l2) :: S2), sep) :: D2)))
    (hfm : parseFrontmatter env.cs
      (render (pre ++ docSpec (D1 ++ (DocItem.step (S1 ++ SegX.text (l1 ++ F ++ l2) :: S2), sep) :: D2))) = none) :
    SameRecipe ws
      (parseRecipe (α := α) env
        (render (pre ++ docSpec (D1 ++ (DocItem.step (S1 ++ SegX.text (l1 ++ F ++ l2) :: S2), sep) :: D2))))
      (parseRecipe (α := α) env
        (render (pre ++ docSpec (D1 ++ (DocItem.step (S1 ++ SegX.text (l1 ++ l2) :: S2), sep) :: D2)))) := by
  refine C17_insertion_same_recipe env ws pre pre _ _
    (w6d_docWF_inText env pre D1 D2 sep S1 S2 l1 F l2 hF h (w6d_text_extOK_off env hoff _) hw hfm) h ?_
  simp only [List.map_append, List.map_cons]
  exact C17_insertion_in_one_step ws _ _ _ _ (SegsIns.inText S1 S2 l1 F l2 hvis hadj hS2)

/-! non-vacuity: `Mix [- c -] well⏎` against `Mix well⏎` under the toy environment (no extension): the
    theorem applies with the well-formedness of `Mix well⏎` only -/
example : SameRecipe (α := Rat) (fun c => c = ' ')
    (parseRecipe C17_toyEnv "Mix [- c -] well\n".toList) (parseRecipe C17_toyEnv "Mix well\n".toList) := by
  have h := C17_insertion_in_text_same_recipe_inline_off_partial (α := Rat) C17_toyEnv (fun c => c = ' ') (by decide) []
    [] [] [tk .newline ['\n']] [] [] [tk .word "Mix".toList, tk .ws [' ']]
    [tk .blockComment "[- c -]".toList, tk .ws [' ']] [tk .word "well".toList]
    (by intro t ht; simp only [List.mem_cons, List.not_mem_nil, or_false] at ht; rcases ht with rfl | rfl <;> rfl)
    (by decide) (Or.inr (Or.inr ⟨"Mix".toList, ' ', by decide, by decide⟩)) (by intro s hs; cases hs)
    (C17_exDocWF _ (by decide) (by
      intro d hd
      simp only [List.nil_append, List.mem_cons, List.not_mem_nil, or_false] at hd
      subst hd; exact ⟨_, rfl⟩))
    (by decide) (by decide)
  have e1 : render ([] ++ docSpec ([] ++ (DocItem.step ([] ++ SegX.text ([tk .word "Mix".toList, tk .ws [' ']] ++
      [tk .blockComment "[- c -]".toList, tk .ws [' ']] ++ [tk .word "well".toList]) :: []), [tk .newline ['\n']]) :: [])) =
      "Mix [- c -] well\n".toList := by decide
  have e2 : render ([] ++ docSpec ([] ++ (DocItem.step ([] ++ SegX.text ([tk .word "Mix".toList, tk .ws [' ']] ++
      [tk .word "well".toList]) :: []), [tk .newline ['\n']]) :: [])) = "Mix well\n".toList := by decide
  rw [e1, e2] at h
  exact h
-- ===== end w6c17docwf (part 3) =====

-- ===== w7c17text =====
/-! ## Wave 7 (notes/audit-C17.md, "wave 7"): filler inside VALUES.

  Parser half: `numeric_value` / `range_value` skip blanks and comments between the tokens of a number,
  so filler inserted next to a blank changes neither the number nor the decision "number or text"
  (`C17_num_or_range_filler`); a text value is stored through `text_trimmed()`
  (`C17_parse_value_filler`, arbitrary value tokens).  Recipe half: the blank material inside
  components is padding of the round-trip grammar, and the recipe of a well-formed document does not
  depend on any padding (`C17_component_pads_same_recipe`).  `C17_bundled_find_unit_blank`: the fact about
  the bundled converter that the inline-quantity scan needs under appended blanks. -/

/-- **`numeric_value` ignores filler next to a blank.**  `A ++ [w] ++ B` are value tokens, `w` a blank
    or comment token among them (`w7vPad`), `F` further blank / comment tokens inserted behind it:
    the reading (not a number / a number / a parse error such as division by zero) is the same —
    `1 1/2` and `1 [- c -] 1/2`, `1 / 2` and `1 [- c -] / 2`, `1 kg` (no number) and `1 [- c -] kg`.
    False without the blank `w`: `1.5` is a number, `1[- c -].5` is not. -/
theorem C17_numeric_value_filler {α : Type} [Arith α] (A : List Tok) (w : Tok) (F B : List Tok) (hw : w7vPad w = true)
    (hF : ∀ x ∈ F, w7vPad x = true) :
    numericValue (α := α) (A ++ [w] ++ F ++ B) = numericValue (α := α) (A ++ [w] ++ B) :=
  w7v_numericValue_filler A w F B hw hF

/-- as soon as a blank or comment is left between the trimmed ends, `numeric_value` reads only the
    tokens that are neither (`w7vLoose`: `int int / int` or `int / int`, nothing else) -/
theorem C17_numeric_value_reads_visible_tokens {α : Type} [Arith α] (P Q M : List Tok) (b : Tok)
    (hP : ∀ x ∈ P, w7vPad x = true) (hQ : ∀ x ∈ Q, w7vPad x = true)
    (ha : ∀ t, (M ++ [b]).head? = some t → w7vPad t = false) (hb : w7vPad b = false)
    (hin : (M ++ [b]).any w7vPad = true) :
    numericValue (α := α) (P ++ (M ++ [b]) ++ Q) = w7vLoose ((M ++ [b]).filter notWsComment) :=
  w7v_numericValue_loose P Q M b hP hQ ha hb hin

/-- **… and so do `range_value` and their combination** (`range_value(..).or_else(numeric_value)`, the
    value reader of `parse_value` and of `parse_advanced_quantity`), with RANGE_VALUES on or off: the
    filler holds no `-`, so the split at the first `-` falls between the same tokens. -/
theorem C17_num_or_range_filler {α : Type} [Arith α] (rangeExt : Bool) (A : List Tok) (w : Tok) (F B : List Tok)
    (hw : w7vPad w = true) (hF : ∀ x ∈ F, w7vPad x = true) :
    numOrRange (α := α) rangeExt (A ++ [w] ++ F ++ B) = numOrRange (α := α) rangeExt (A ++ [w] ++ B) :=
  w7v_numOrRange_filler rangeExt A w F B hw hF

/-- **`parse_value` with filler behind a blank, any value tokens**: the same value — number, range, or
    text (stored through `text_trimmed()`, which collapses the blanks the filler leaves) — and as many
    diagnostics pushed (`int-parse`, `division-by-zero`, `empty-value` on both sides or on neither).
    `w` is a whitespace token of U+0020s, `F` comments and such tokens (`A17Filler`); both token lists
    are adjacent runs as the lexer produces them; the two parser states share only character table and
    extension set. -/
theorem C17_parse_value_filler {α : Type} [Arith α] (s' s : BP α) (hcs : s'.cs = s.cs) (hext : s'.ext = s.ext)
    (hsp : s.cs.uws ' ' = true) (A F B : List Tok) (w : Tok) (hw : w.kind = .ws) (hwt : w.text ≠ [])
    (hwb : ∀ c ∈ w.text, c = ' ') (hF : ∀ t ∈ F, A17Filler t)
    (hr' : RunAt (w7pStart (A ++ [w] ++ F ++ B) (offAt s'.toks s'.cur)) (A ++ [w] ++ F ++ B))
    (hr : RunAt (w7pStart (A ++ [w] ++ B) (offAt s.toks s.cur)) (A ++ [w] ++ B)) :
    (parseValue (α := α) (A ++ [w] ++ F ++ B) s').1.val = (parseValue (α := α) (A ++ [w] ++ B) s).1.val ∧
    (parseValue (α := α) (A ++ [w] ++ F ++ B) s').2.evs.size - s'.evs.size =
      (parseValue (α := α) (A ++ [w] ++ B) s).2.evs.size - s.evs.size :=
  w7p_parseValue_filler s' s hcs hext hsp A F B w hw hwt hwb hF hr' hr

/-- **Blank material inside components does not reach the recipe — well-formed recipes.**  Two
    documents of the round-trip grammar (`DocWF` each) whose blocks agree up to ALL padding
    (`DocItem.bare`: the blanks and block comments between the tokens of a number, around the `-` of a
    range, at both ends of a value, behind `%`, behind a name, around `|`, inside empty braces, in an
    intermediate-reference group, on section / `>>` lines; separators and leading blank lines are free
    anyway) parse to the same recipe, in fact with EQUAL sections, tables, metadata and servings. -/
theorem C17_component_pads_same_recipe {α : Type} [Arith α] (ws : Char → Bool) (env : Env) (pre' pre : List Tok)
    (doc' doc : List (DocItem × List Tok)) (h' : DocWF α env pre' doc') (h : DocWF α env pre doc)
    (hb : (doc'.map (·.1)).map DocItem.bare = (doc.map (·.1)).map DocItem.bare) :
    SameRecipe ws (parseRecipe (α := α) env (render (pre' ++ docSpec doc')))
      (parseRecipe (α := α) env (render (pre ++ docSpec doc))) := by
  obtain ⟨c', c, e', e, hs, hi, hc, ht, hm, hq, hf, hv, hd⟩ := w7t_doc_pads_same (α := α) env pre' pre doc' doc h' h hb
  rw [e', e]
  refine ⟨?_, hd⟩
  show SameCol ws c' c
  exact ⟨by rw [hs]; exact LRel.refl_of (LooseSection.refl ws) _, hi, hc, ht, hq, hm,
    by rw [hf]; exact OptRel.refl_of (A := A17FmSame) (fun _ => rfl) _, hv⟩

/-- **No key of the bundled unit table is blank**, so `find_unit` of the empty string (of any string
    of Unicode white space) is `None` for the bundled converter (generated table, 167 keys).  This is
    what rejects the candidate `(n, "")` of the inline-quantity scan when blanks are appended behind a
    final number (`take 2` → `take 2 `).  For a general `env` it is a HYPOTHESIS
    (`∀ k, k.all env.cs.uws = true → env.findUnit k = none`); the converter without units satisfies it
    trivially. -/
theorem C17_bundled_find_unit_blank (k : List Char) (h : k.all realCharSpec.uws = true) : bundledFindUnit k = none :=
  w7u_bundled_blank k h

/-! non-vacuity -/
example : bundledFindUnit [] = none ∧ bundledFindUnit "  ".toList = none ∧ (bundledFindUnit "kg".toList).isSome = true :=
  ⟨C17_bundled_find_unit_blank [] rfl, C17_bundled_find_unit_blank _ (by decide +kernel), by decide +kernel⟩

/-- `1 1/2` against `1 [- c -] 1/2`, and the tokens of `1 / 2` -/
def C17_exNumToks : List Tok := [tk .int ['1'], tk .ws [' '], tk .int ['1'], tk .slash ['/'], tk .int ['2']]
def C17_exNumToksF : List Tok :=
  [tk .int ['1'], tk .ws [' '], tk .blockComment "[- c -]".toList, tk .ws [' '], tk .int ['1'], tk .slash ['/'], tk .int ['2']]

example : numericValue (α := Rat) C17_exNumToksF = numericValue (α := Rat) C17_exNumToks :=
  C17_numeric_value_filler [tk .int ['1']] (tk .ws [' ']) [tk .blockComment "[- c -]".toList, tk .ws [' ']]
    [tk .int ['1'], tk .slash ['/'], tk .int ['2']] (by decide) (by decide)
example : numericValue (α := Rat) C17_exNumToks = some (.ok (.number (.fraction 1 1 2 0))) := by
  simp [numericValue, C17_exNumToks, trimTokens, tk, isWsComment, notWsComment, mixedNum, fracNum, parseU32, digitsToNat, u32Max]
  rfl

/-- `Add @oil{1 1/2%cup} now⏎` against `Add @oil{1 [- c -] 1/2 %cup} now⏎` -/
def C17_exNumComp : AComp :=
  { name := [tk .word "oil".toList], qty := some { val := .num (.mixed ['1'] ['1'] ['2']), unit := some [tk .word "cup".toList] } }
def C17_exNumPad : CPad := { q := { v := { lo := { w := [tk .ws [' ']] } } } }
def C17_exNumPadF : CPad :=
  { q := { v := { lo := { w := [tk .ws [' '], tk .blockComment "[- c -]".toList, tk .ws [' ']] }, post := [tk .ws [' ']] } } }
def C17_exNumDoc (p : CPad) : List (DocItem × List Tok) :=
  [(.step [.text [tk .word "Add".toList, tk .ws [' ']], .ingredient C17_exNumComp p,
           .text [tk .ws [' '], tk .word "now".toList]], [tk .newline ['\n']])]

example : render ([] ++ docSpec (C17_exNumDoc C17_exNumPadF)) = "Add @oil{1 [- c -] 1/2 %cup} now\n".toList ∧
    render ([] ++ docSpec (C17_exNumDoc C17_exNumPad)) = "Add @oil{1 1/2%cup} now\n".toList := by decide

theorem C17_exNumDoc_wf (p : CPad)
    (h1 : (∀ d ∈ C17_exNumDoc p, d.1.ok C17_toyEnv.cs C17_toyEnv.ext = true) ∧ (∀ d ∈ C17_exNumDoc p, d.1.simple = true) ∧
      sepsOK ((C17_exNumDoc p).map (·.2)) = true ∧ WellSpelled C17_toyEnv.cs ([] ++ docSpec (C17_exNumDoc p)) ∧
      (parseFrontmatter C17_toyEnv.cs (render ([] ++ docSpec (C17_exNumDoc p)))).isNone = true) :
    DocWF Rat C17_toyEnv [] (C17_exNumDoc p) := by
  obtain ⟨a, b, c, d, e⟩ := h1
  refine ⟨by decide, a, b, ?_, ?_, c, d, by simpa using e⟩
  · intro x hx
    simp only [C17_exNumDoc, List.mem_cons, List.not_mem_nil, or_false] at hx
    subst hx; trivial
  · intro x hx
    simp only [C17_exNumDoc, List.mem_cons, List.not_mem_nil, or_false] at hx
    subst hx
    intro sg hsg
    simp only [List.mem_cons, List.not_mem_nil, or_false] at hsg
    rcases hsg with rfl | rfl | rfl
    · intro hh; exact absurd hh (by decide)
    · trivial
    · intro hh; exact absurd hh (by decide)

example : SameRecipe (α := Rat) (fun c => c = ' ')
    (parseRecipe C17_toyEnv (render ([] ++ docSpec (C17_exNumDoc C17_exNumPadF))))
    (parseRecipe C17_toyEnv (render ([] ++ docSpec (C17_exNumDoc C17_exNumPad)))) :=
  C17_component_pads_same_recipe _ C17_toyEnv [] [] _ _ (C17_exNumDoc_wf _ (by decide)) (C17_exNumDoc_wf _ (by decide)) rfl
-- ===== end w7c17text =====

-- ===== w8c17fence =====
/-! ## Wave 8 (notes/audit-C17.md, "wave 8"): obstacle (ii), "no line of the transformed text becomes a fence".

  `parse_frontmatter` answers `None` for one of three reasons that can be read off the LINES of the source (no
  fence; a non-blank line before the first fence; no second fence), and all three survive when one line is
  replaced by lines none of which is a fence (one of them non-blank if the replaced line was), or by a line
  that is a fence only if the replaced one was.  `fncFillerOK cs f` is the decidable condition on the filler
  text alone under which that is what an insertion of `f` does. -/

/-- **`parse_frontmatter s = None` is a decision on the lines of `s`** (`split_inclusive('\n')`): the first
    line that is a fence has no fence behind it, or a line in front of it is not blank, or there is none. -/
theorem C17_no_front_matter_by_lines (cs : CharSpec) (s : List Char) :
    parseFrontmatter cs s = none ↔ fncNone cs (splitInclusive s) = true := fnc_none_iff cs s

/-- **Filler text put ANYWHERE into a source without front matter: still no front matter**, for a filler
    `f` with `fncFillerOK cs f`: `f` is white space without line feed (then a line is a fence only if it was
    one: a fence holds no white space, and white space at the end of a line is trimmed before and after);
    or the first and the last line of `f` show a character that is neither `-` nor white space (`[` of `[-`,
    `]` of `-]`, the text of a comment), `f` does not end in a line feed, and no line of `f` is a fence under
    `trim_end` (the inner lines of a block comment become lines of the source).  `u`, `v` arbitrary. -/
theorem C17_no_front_matter_after_filler (cs : CharSpec) (u f v : List Char) (hok : fncFillerOK cs f = true)
    (h : parseFrontmatter cs (u ++ v) = none) : parseFrontmatter cs (u ++ f ++ v) = none :=
  fnc_insert_text cs u f v hok h

/-! the condition holds for blanks, for a one-line comment with a blank, for a block comment over several
    lines (blank and `--` lines inside are harmless); it fails for a comment with a `---` line and for the
    bare line comment `--`.  Both failures are NEEDED: behind an unclosed opening fence the comment line `---`
    closes the front matter, and `-` followed by `--` is the line `---` (that second one is not well spelled
    as tokens — the lexer reads `---` as one comment — so it is excluded twice in the theorems below). -/
example : fncFillerOK toyCharSpec "  ".toList = true ∧ fncFillerOK toyCharSpec "[- c -] ".toList = true ∧
    fncFillerOK toyCharSpec "-- c".toList = true ∧ fncFillerOK toyCharSpec "[- a\n\n -- \nb -]".toList = true ∧
    fncFillerOK toyCharSpec "[- a\n---\nb -]".toList = false ∧ fncFillerOK toyCharSpec "--".toList = false := by decide
example : (parseFrontmatter toyCharSpec "---\nMix  well\n".toList).isNone = true ∧
    (parseFrontmatter toyCharSpec ("---\nMix ".toList ++ "[- a\n---\nb -]".toList ++ " well\n".toList)).isNone = false := by
  decide
example : (parseFrontmatter toyCharSpec "---\n-\n".toList).isNone = true ∧
    (parseFrontmatter toyCharSpec ("---\n-".toList ++ "--".toList ++ "\n".toList)).isNone = false := by decide
example : parseFrontmatter toyCharSpec ("---\nMix ".toList ++ "[- a\n\n -- \nb -]".toList ++ " well\n".toList) = none :=
  C17_no_front_matter_after_filler _ _ _ _ (by decide) (by decide)

/-- **`DocWF` of the transformed document from `DocWF` of the original, INLINE_QUANTITIES off, WITHOUT the
    no-fence hypothesis on the transformed text** (obstacle (ii) closed): filler `F` inside a text run of one
    step of `D1 ++ step :: D2`.  Conditions on the insertion that remain, both on the filler and its
    neighbours only: the printed filler satisfies `fncFillerOK` (above; decidable, needed), and the token list
    with the filler is spelled as the lexer spells it (`hw`; `C17_well_spelled_insertion` reduces it to the
    filler and its two neighbours — a condition of the same kind: `-` followed by `--` is not an insertion of
    a comment).  Under INLINE_QUANTITIES the scan of the changed run is still open (obstacle (i)):
    `C17_insertion_in_text_wellformed_partial` with `hext`, and the `_no_fence_partial` form below. -/
theorem C17_insertion_in_text_wellformed {α : Type} [Arith α] (env : Env)
    (hoff : env.ext.has Gen.EXT_INLINE_QUANTITIES = false) (pre : List Tok)
    (D1 D2 : List (DocItem × List Tok)) (sep : List Tok) (S1 S2 : List SegX) (l1 F l2 : List Tok) (hF : IsFiller F)
    (hnf : fncFillerOK env.cs (render F) = true)
    (h : DocWF α env pre (D1 ++ (DocItem.step (S1 ++ SegX.text (l1 ++ l2) :: S2), sep) :: D2))
    (hw : WellSpelled env.cs (pre ++ docSpec (D1 ++ (DocItem.step (S1 ++ SegX.text (l1 ++ F ++ l2) :: S2), sep) :: D2))) :
    DocWF α env pre (D1 ++ (DocItem.step (S1 ++ SegX.text (l1 ++ F ++ l2) :: S2), sep) :: D2) :=
  w6d_docWF_inText env pre D1 D2 sep S1 S2 l1 F l2 hF h (w6d_text_extOK_off env hoff _) hw
    (fnc_doc_inText env.cs pre D1 D2 sep S1 S2 l1 F l2 hnf h.noFront)

/-- every extension set: the no-fence hypothesis replaced by the condition on the filler; partial because
    under INLINE_QUANTITIES "the scan finds nothing in the changed run" (`hext`) is still asked of the
    transformed run (obstacle (i), the word-by-word induction over `inlineStep`, not done) -/
theorem C17_insertion_in_text_wellformed_no_fence_partial {α : Type} [Arith α] (env : Env) (pre : List Tok)
    (D1 D2 : List (DocItem × List Tok)) (sep : List Tok) (S1 S2 : List SegX) (l1 F l2 : List Tok) (hF : IsFiller F)
    (hnf : fncFillerOK env.cs (render F) = true)
    (h : DocWF α env pre (D1 ++ (DocItem.step (S1 ++ SegX.text (l1 ++ l2) :: S2), sep) :: D2))
    (hext : (SegX.text (l1 ++ F ++ l2)).extOK α env)
    (hw : WellSpelled env.cs (pre ++ docSpec (D1 ++ (DocItem.step (S1 ++ SegX.text (l1 ++ F ++ l2) :: S2), sep) :: D2))) :
    DocWF α env pre (D1 ++ (DocItem.step (S1 ++ SegX.text (l1 ++ F ++ l2) :: S2), sep) :: D2) :=
  w6d_docWF_inText env pre D1 D2 sep S1 S2 l1 F l2 hF h hext hw
    (fnc_doc_inText env.cs pre D1 D2 sep S1 S2 l1 F l2 hnf h.noFront)

/-- the same for filler as a text run of its own (behind a component or at the start of the step, in front of
    a component or at the end of the step), INLINE_QUANTITIES off -/
theorem C17_insertion_run_wellformed {α : Type} [Arith α] (env : Env)
    (hoff : env.ext.has Gen.EXT_INLINE_QUANTITIES = false) (pre : List Tok)
    (D1 D2 : List (DocItem × List Tok)) (sep : List Tok) (S1 S2 : List SegX) (F : List Tok) (hF : IsFiller F)
    (hnf : fncFillerOK env.cs (render F) = true)
    (hvis : F.flatMap vis ≠ []) (hS2 : ∀ s, S2.head? = some s → s.isText = false)
    (hS1 : ∀ s, S1.getLast? = some s → s.isText = false)
    (h : DocWF α env pre (D1 ++ (DocItem.step (S1 ++ S2), sep) :: D2))
    (hw : WellSpelled env.cs (pre ++ docSpec (D1 ++ (DocItem.step (S1 ++ SegX.text F :: S2), sep) :: D2))) :
    DocWF α env pre (D1 ++ (DocItem.step (S1 ++ SegX.text F :: S2), sep) :: D2) :=
  w6d_docWF_newText env pre D1 D2 sep S1 S2 F hF hvis hS2 hS1 h (w6d_text_extOK_off env hoff _) hw
    (fnc_doc_newText env.cs pre D1 D2 sep S1 S2 F hnf h.noFront)

/-- **Trailing comment / trailing blanks / block comment (also over several lines) between words of step
    text: the same recipe, from the well-formedness of the ORIGINAL alone, INLINE_QUANTITIES off** — the
    no-fence hypothesis of `C17_insertion_in_text_same_recipe_inline_off_partial` replaced by the condition on the
    filler.  What is asked of the insertion: `F` is white space / comments showing only white space, next to
    white space or at the end of the run; its text satisfies `fncFillerOK`; the token list is well spelled. -/
theorem C17_insertion_in_text_same_recipe_inline_off {α : Type} [Arith α] (env : Env) (ws : Char → Bool)
    (hoff : env.ext.has Gen.EXT_INLINE_QUANTITIES = false) (pre : List Tok)
    (D1 D2 : List (DocItem × List Tok)) (sep : List Tok) (S1 S2 : List SegX) (l1 F l2 : List Tok) (hF : IsFiller F)
    (hnf : fncFillerOK env.cs (render F) = true)
    (hvis : ∀ c ∈ F.flatMap vis, ws c = true) (hadj : BlankAdj ws (l1.flatMap vis) (l2.flatMap vis))
    (hS2 : ∀ s, S2.head? = some s → s.isText = false)
    (h : DocWF α env pre (D1 ++ (DocItem.step (S1 ++ SegX.text (l1 ++ l2) :: S2), sep) :: D2))
    (hw : WellSpelled env.cs (pre ++ docSpec (D1 ++ (DocItem.step (S1 ++ SegX.text (l1 ++ F ++ l2) :: S2), sep) :: D2))) :
    SameRecipe ws
      (parseRecipe (α := α) env
        (render (pre ++ docSpec (D1 ++ (DocItem.step (S1 ++ SegX.text (l1 ++ F ++ l2) :: S2), sep) :: D2))))
      (parseRecipe (α := α) env
        (render (pre ++ docSpec (D1 ++ (DocItem.step (S1 ++ SegX.text (l1 ++ l2) :: S2), sep) :: D2)))) :=
  C17_insertion_in_text_same_recipe_inline_off_partial env ws hoff pre D1 D2 sep S1 S2 l1 F l2 hF hvis hadj hS2 h hw
    (fnc_doc_inText env.cs pre D1 D2 sep S1 S2 l1 F l2 hnf h.noFront)

/-! non-vacuity: `Mix [- c -] well⏎` against `Mix well⏎` under the toy environment, now without looking at the
    front matter of the transformed text -/
example : SameRecipe (α := Rat) (fun c => c = ' ')
    (parseRecipe C17_toyEnv "Mix [- c -] well\n".toList) (parseRecipe C17_toyEnv "Mix well\n".toList) := by
  have h := C17_insertion_in_text_same_recipe_inline_off (α := Rat) C17_toyEnv (fun c => c = ' ') (by decide) []
    [] [] [tk .newline ['\n']] [] [] [tk .word "Mix".toList, tk .ws [' ']]
    [tk .blockComment "[- c -]".toList, tk .ws [' ']] [tk .word "well".toList]
    (by intro t ht; simp only [List.mem_cons, List.not_mem_nil, or_false] at ht; rcases ht with rfl | rfl <;> rfl)
    (by decide)
    (by decide) (Or.inr (Or.inr ⟨"Mix".toList, ' ', by decide, by decide⟩)) (by intro s hs; cases hs)
    (C17_exDocWF _ (by decide) (by
      intro d hd
      simp only [List.nil_append, List.mem_cons, List.not_mem_nil, or_false] at hd
      subst hd; exact ⟨_, rfl⟩))
    (by decide)
  have e1 : render ([] ++ docSpec ([] ++ (DocItem.step ([] ++ SegX.text ([tk .word "Mix".toList, tk .ws [' ']] ++
      [tk .blockComment "[- c -]".toList, tk .ws [' ']] ++ [tk .word "well".toList]) :: []), [tk .newline ['\n']]) :: [])) =
      "Mix [- c -] well\n".toList := by decide
  have e2 : render ([] ++ docSpec ([] ++ (DocItem.step ([] ++ SegX.text ([tk .word "Mix".toList, tk .ws [' ']] ++
      [tk .word "well".toList]) :: []), [tk .newline ['\n']]) :: [])) = "Mix well\n".toList := by decide
  rw [e1, e2] at h
  exact h

/-! … and a block comment over three lines, the middle one blank: `Mix [- a⏎⏎b -] well⏎` -/
example : SameRecipe (α := Rat) (fun c => c = ' ')
    (parseRecipe C17_toyEnv "Mix [- a\n\nb -] well\n".toList) (parseRecipe C17_toyEnv "Mix well\n".toList) := by
  have h := C17_insertion_in_text_same_recipe_inline_off (α := Rat) C17_toyEnv (fun c => c = ' ') (by decide) []
    [] [] [tk .newline ['\n']] [] [] [tk .word "Mix".toList, tk .ws [' ']]
    [tk .blockComment "[- a\n\nb -]".toList, tk .ws [' ']] [tk .word "well".toList]
    (by intro t ht; simp only [List.mem_cons, List.not_mem_nil, or_false] at ht; rcases ht with rfl | rfl <;> rfl)
    (by decide)
    (by decide) (Or.inr (Or.inr ⟨"Mix".toList, ' ', by decide, by decide⟩)) (by intro s hs; cases hs)
    (C17_exDocWF _ (by decide) (by
      intro d hd
      simp only [List.nil_append, List.mem_cons, List.not_mem_nil, or_false] at hd
      subst hd; exact ⟨_, rfl⟩))
    (by decide)
  have e1 : render ([] ++ docSpec ([] ++ (DocItem.step ([] ++ SegX.text ([tk .word "Mix".toList, tk .ws [' ']] ++
      [tk .blockComment "[- a\n\nb -]".toList, tk .ws [' ']] ++ [tk .word "well".toList]) :: []), [tk .newline ['\n']]) :: [])) =
      "Mix [- a\n\nb -] well\n".toList := by decide
  have e2 : render ([] ++ docSpec ([] ++ (DocItem.step ([] ++ SegX.text ([tk .word "Mix".toList, tk .ws [' ']] ++
      [tk .word "well".toList]) :: []), [tk .newline ['\n']]) :: [])) = "Mix well\n".toList := by decide
  rw [e1, e2] at h
  exact h

/-- **Obstacle (i), first step only: whether `find_inline_quantity` finds a quantity does not depend on the
    text in front of the scanned position** (that text only enters the `before` part and the sign of a hit), for
    every fuel.  The invariance of the scan under blanks inserted next to blanks (the word-by-word induction
    over `inlineStep` with a relation between the two remaining texts) is NOT proved; with this lemma the
    relation needs to speak about the remaining text only. -/
theorem C17_inline_scan_none_prefix_free {α : Type} [Arith α] (env : Env) (fuel : Nat) (pre pre' rest : Str) :
    (findInlineQuantity (α := α) env fuel pre rest).isNone = (findInlineQuantity (α := α) env fuel pre' rest).isNone :=
  w8i_none_prefix env fuel pre pre' rest

example : (findInlineQuantity (α := Rat) C17_toyEnv 9 "dda ".toList.reverse "2 cups now".toList).isNone =
    (findInlineQuantity (α := Rat) C17_toyEnv 9 [] "2 cups now".toList).isNone :=
  C17_inline_scan_none_prefix_free _ _ _ _ _
-- ===== end w8c17fence =====

-- ===== w9c17inline =====
/-! ## Wave 9: obstacle (i), the inline-quantity scan under inserted blanks (INLINE_QUANTITIES on).

  Through the specification of the finder (`Lemmas/FinderSpec.lean`): the candidate `number blanks unit-word` of
  the text and of the text with blanks inserted next to a blank / at the end have the same number and unit word,
  and remaining texts related in the same way (`w9i_step`, `Lemmas/InlineBlank.lean`).  The one new candidate is
  `(n, "")` when blanks are appended behind a final number (`take 2` → `take 2 `); it is rejected iff the
  converter knows no blank unit — `hblank`, true of the bundled table (`C17_bundled_find_unit_blank`). -/

/-- **The scan finds no quantity in `x ++ y` ⇒ it finds none in `x ++ b ++ y`**, `b` white space, put next to
    white space or at the end (`BlankAdj`: `y` empty, or `y` starts / `x` ends with white space); fuel as the
    analysis gives it (length + 1).  `hd`: no digit is white space (true of the real table,
    `C03_digitsNotWs_real`); `hblank`: `find_unit` of a blank string is `None`. -/
theorem C17_inline_scan_blank_insertion {α : Type} [Arith α] (env : Env) (hd : DigitsNotWs env.cs)
    (hblank : ∀ k : Str, k.all env.cs.uws = true → env.findUnit k = none)
    (x b y : Str) (hb : ∀ a ∈ b, env.cs.uws a = true) (hadj : BlankAdj env.cs.uws x y)
    (h : findInlineQuantity (α := α) env ((x ++ y).length + 1) [] (x ++ y) = none) :
    findInlineQuantity (α := α) env ((x ++ b ++ y).length + 1) [] (x ++ b ++ y) = none :=
  w9i_find_none_ins env hd hblank x b y hb hadj h

/-- the same on the specification of the finder: no candidate of the candidate sequence is accepted -/
theorem C17_inline_nothing_blank_insertion {α : Type} [Arith α] (env : Env) (hd : DigitsNotWs env.cs)
    (hblank : ∀ k : Str, k.all env.cs.uws = true → env.findUnit k = none)
    (x b y : Str) (hb : ∀ a ∈ b, env.cs.uws a = true) (hbne : b ≠ []) (hadj : BlankAdj env.cs.uws x y)
    (h : FsNothing α env (x ++ y)) : FsNothing α env (x ++ (b ++ y)) :=
  w9i_nothing_ins env hd hblank b hb hbne _ x y (Nat.lt_succ_self _) hadj h

/-- INLINE_QUANTITIES on, unit `g` known: the environment of the examples -/
def C17_w9Env : Env := ⟨toyCharSpec, ⟨128⟩, fun k => if k = ['g'] then some 1 else none, fun _ _ => .ok, fun c => [c], 0⟩

theorem C17_w9_digits : DigitsNotWs toyCharSpec := by
  intro c h
  simp only [isAsciiDigitC, Bool.and_eq_true, decide_eq_true_eq] at h
  have h1 : 48 ≤ c.val := h.1
  have h2 : c.val ≤ 57 := h.2
  simp only [toyCharSpec, Char.isWhitespace, Bool.or_eq_false_iff, decide_eq_false_iff_not]
  refine ⟨⟨⟨?_, ?_⟩, ?_⟩, ?_⟩ <;> intro e <;> subst e <;> revert h1 h2 <;> decide

theorem C17_w9_blank : ∀ k : Str, k.all C17_w9Env.cs.uws = true → C17_w9Env.findUnit k = none := by
  intro k hk
  show (if k = ['g'] then some 1 else none) = none
  split
  · next e => subst e; exact absurd hk (by decide)
  · rfl

/-! non-vacuity: `take 2 cups` → `take   2 cups`, and the new end-of-text candidate: `take 2` → `take 2  `;
    the environment does find `2 g` -/
example : C17_w9Env.ext.has Gen.EXT_INLINE_QUANTITIES = true := by decide
example : findInlineQuantity (α := Rat) C17_w9Env 14 [] ("take ".toList ++ "  ".toList ++ "2 cups".toList) = none :=
  C17_inline_scan_blank_insertion C17_w9Env C17_w9_digits C17_w9_blank "take ".toList "  ".toList "2 cups".toList
    (by decide) (Or.inr (Or.inr ⟨"take".toList, ' ', by decide, by decide⟩)) (by decide)
example : findInlineQuantity (α := Rat) C17_w9Env 9 [] ("take 2".toList ++ "  ".toList ++ []) = none :=
  C17_inline_scan_blank_insertion C17_w9Env C17_w9_digits C17_w9_blank "take 2".toList "  ".toList []
    (by decide) (Or.inl rfl) (by decide)
example : (findInlineQuantity (α := Rat) C17_w9Env 9 [] "take 2 g".toList).isSome = true := by decide

/-- **The extension condition of a text run (`SegX.extOK`: under INLINE_QUANTITIES the run shows something and
    the scan finds nothing in it) is inherited when filler showing only white space is inserted next to white
    space / at the end of the run.** -/
theorem C17_text_run_ext_after_filler {α : Type} [Arith α] (env : Env) (hd : DigitsNotWs env.cs)
    (hblank : ∀ k : Str, k.all env.cs.uws = true → env.findUnit k = none) (l1 F l2 : List Tok)
    (hvis : ∀ c ∈ F.flatMap vis, env.cs.uws c = true)
    (hadj : BlankAdj env.cs.uws (l1.flatMap vis) (l2.flatMap vis))
    (h : (SegX.text (l1 ++ l2)).extOK α env) : (SegX.text (l1 ++ F ++ l2)).extOK α env := by
  intro hon
  obtain ⟨hne, hnone⟩ := h hon
  simp only [List.flatMap_append] at hne hnone ⊢
  refine ⟨?_, w9i_find_none_ins env hd hblank _ _ _ hvis hadj hnone⟩
  intro e
  apply hne
  simp only [List.append_eq_nil_iff] at e ⊢
  exact ⟨e.1.1, e.2⟩

example : (SegX.text ([tk .word "take".toList, tk .ws [' ']] ++ [tk .blockComment "[- c -]".toList, tk .ws [' ']] ++
    [tk .int ['2'], tk .ws [' '], tk .word "cups".toList])).extOK Rat C17_w9Env :=
  C17_text_run_ext_after_filler C17_w9Env C17_w9_digits C17_w9_blank _ _ _ (by decide)
    (Or.inr (Or.inr ⟨"take".toList, ' ', by decide, by decide⟩))
    (fun _ => ⟨by decide, by decide⟩)

/-- **`DocWF` of the transformed document from `DocWF` of the original, EVERY extension set** (obstacle (i)
    closed: `hext` of `C17_insertion_in_text_wellformed_no_fence_partial` derived).  Filler `F` showing only white
    space, inserted in a text run next to white space or at the end of the run.  Conditions that remain are on
    the insertion (`fncFillerOK` of the printed filler, spelling of the token list — both needed, see wave 8) and on
    the environment: no digit is white space, the converter knows no blank unit (both true of the real table and
    the bundled converter; without INLINE_QUANTITIES neither is used). -/
theorem C17_insertion_in_text_wellformed_all_ext {α : Type} [Arith α] (env : Env) (hd : DigitsNotWs env.cs)
    (hblank : ∀ k : Str, k.all env.cs.uws = true → env.findUnit k = none) (pre : List Tok)
    (D1 D2 : List (DocItem × List Tok)) (sep : List Tok) (S1 S2 : List SegX) (l1 F l2 : List Tok) (hF : IsFiller F)
    (hnf : fncFillerOK env.cs (render F) = true)
    (hvis : ∀ c ∈ F.flatMap vis, env.cs.uws c = true)
    (hadj : BlankAdj env.cs.uws (l1.flatMap vis) (l2.flatMap vis))
    (h : DocWF α env pre (D1 ++ (DocItem.step (S1 ++ SegX.text (l1 ++ l2) :: S2), sep) :: D2))
    (hw : WellSpelled env.cs (pre ++ docSpec (D1 ++ (DocItem.step (S1 ++ SegX.text (l1 ++ F ++ l2) :: S2), sep) :: D2))) :
    DocWF α env pre (D1 ++ (DocItem.step (S1 ++ SegX.text (l1 ++ F ++ l2) :: S2), sep) :: D2) := by
  refine C17_insertion_in_text_wellformed_no_fence_partial env pre D1 D2 sep S1 S2 l1 F l2 hF hnf h ?_ hw
  have hs := h.ext (DocItem.step (S1 ++ SegX.text (l1 ++ l2) :: S2), sep) (by simp)
  exact C17_text_run_ext_after_filler env hd hblank l1 F l2 hvis hadj (hs (SegX.text (l1 ++ l2)) (by simp))

theorem C17_w9_adj_mono (ws ws' : Char → Bool) (hws : ∀ c, ws c = true → ws' c = true) (x y : List Char)
    (h : BlankAdj ws x y) : BlankAdj ws' x y := by
  rcases h with h | ⟨c, r, e, hc⟩ | ⟨r, c, e, hc⟩
  · exact Or.inl h
  · exact Or.inr (Or.inl ⟨c, r, e, hws c hc⟩)
  · exact Or.inr (Or.inr ⟨r, c, e, hws c hc⟩)

/-- **Trailing comment / trailing blanks / block comment between words of step text: the same recipe, from the
    well-formedness of the ORIGINAL alone, EVERY extension set** (INLINE_QUANTITIES included).  `ws`: the white
    space of the comparison, part of the Unicode white space of the scan (`hws`); the rest as in
    `C17_insertion_in_text_same_recipe_inline_off` and the theorem above. -/
theorem C17_insertion_in_text_same_recipe {α : Type} [Arith α] (env : Env) (ws : Char → Bool)
    (hws : ∀ c, ws c = true → env.cs.uws c = true) (hd : DigitsNotWs env.cs)
    (hblank : ∀ k : Str, k.all env.cs.uws = true → env.findUnit k = none) (pre : List Tok)
    (D1 D2 : List (DocItem × List Tok)) (sep : List Tok) (S1 S2 : List SegX) (l1 F l2 : List Tok) (hF : IsFiller F)
    (hnf : fncFillerOK env.cs (render F) = true)
    (hvis : ∀ c ∈ F.flatMap vis, ws c = true) (hadj : BlankAdj ws (l1.flatMap vis) (l2.flatMap vis))
    (hS2 : ∀ s, S2.head? = some s → s.isText = false)
    (h : DocWF α env pre (D1 ++ (DocItem.step (S1 ++ SegX.text (l1 ++ l2) :: S2), sep) :: D2))
    (hw : WellSpelled env.cs (pre ++ docSpec (D1 ++ (DocItem.step (S1 ++ SegX.text (l1 ++ F ++ l2) :: S2), sep) :: D2))) :
    SameRecipe ws
      (parseRecipe (α := α) env
        (render (pre ++ docSpec (D1 ++ (DocItem.step (S1 ++ SegX.text (l1 ++ F ++ l2) :: S2), sep) :: D2))))
      (parseRecipe (α := α) env
        (render (pre ++ docSpec (D1 ++ (DocItem.step (S1 ++ SegX.text (l1 ++ l2) :: S2), sep) :: D2)))) := by
  refine C17_insertion_same_recipe env ws pre pre _ _
    (C17_insertion_in_text_wellformed_all_ext env hd hblank pre D1 D2 sep S1 S2 l1 F l2 hF hnf
      (fun c hc => hws c (hvis c hc)) (C17_w9_adj_mono ws _ hws _ _ hadj) h hw) h ?_
  simp only [List.map_append, List.map_cons]
  exact C17_insertion_in_one_step ws _ _ _ _ (SegsIns.inText S1 S2 l1 F l2 hvis hadj hS2)

/-! non-vacuity (the hypotheses are satisfiable; toy environment): `Mix [- c -] well⏎` against `Mix well⏎` -/
example : SameRecipe (α := Rat) (fun c => c = ' ')
    (parseRecipe C17_toyEnv "Mix [- c -] well\n".toList) (parseRecipe C17_toyEnv "Mix well\n".toList) := by
  have h := C17_insertion_in_text_same_recipe (α := Rat) C17_toyEnv (fun c => c = ' ')
    (by intro c hc; simp only [decide_eq_true_eq] at hc; subst hc; decide) C17_w9_digits (fun _ _ => rfl) []
    [] [] [tk .newline ['\n']] [] [] [tk .word "Mix".toList, tk .ws [' ']]
    [tk .blockComment "[- c -]".toList, tk .ws [' ']] [tk .word "well".toList]
    (by intro t ht; simp only [List.mem_cons, List.not_mem_nil, or_false] at ht; rcases ht with rfl | rfl <;> rfl)
    (by decide)
    (by decide) (Or.inr (Or.inr ⟨"Mix".toList, ' ', by decide, by decide⟩)) (by intro s hs; cases hs)
    (C17_exDocWF _ (by decide) (by
      intro d hd
      simp only [List.nil_append, List.mem_cons, List.not_mem_nil, or_false] at hd
      subst hd; exact ⟨_, rfl⟩))
    (by decide)
  have e1 : render ([] ++ docSpec ([] ++ (DocItem.step ([] ++ SegX.text ([tk .word "Mix".toList, tk .ws [' ']] ++
      [tk .blockComment "[- c -]".toList, tk .ws [' ']] ++ [tk .word "well".toList]) :: []), [tk .newline ['\n']]) :: [])) =
      "Mix [- c -] well\n".toList := by decide
  have e2 : render ([] ++ docSpec ([] ++ (DocItem.step ([] ++ SegX.text ([tk .word "Mix".toList, tk .ws [' ']] ++
      [tk .word "well".toList]) :: []), [tk .newline ['\n']]) :: [])) = "Mix well\n".toList := by decide
  rw [e1, e2] at h
  exact h
-- ===== end w9c17inline =====

-- ===== w10c17val =====
/-! ## Wave 10: braces that hold only blanks and block comments (seeded change C17-10), a `DocWF` witness under
    INLINE_QUANTITIES. -/

/-- **A braces body that consists only of whitespace and block-comment tokens is "no quantity"** — `comp_body`
    (`src/parser/step.rs`: `quantity_not_empty = tokens.any(|t| !matches!(t.kind, ws | block comment))`).  The
    parser stands anywhere in ARBITRARY tokens, in front of `name { q } rest`: `name` holds no `{` and no marker
    `@ # ~`, `q` only whitespace and block comments (`w10bBlank`).  Then `comp_body` returns the body with the name
    `name`, the span of the braces and `quantity = None`, the cursor behind the `}`, nothing pushed — whatever `q`
    is, in particular as for `q = []` (`@salt{ [- c -] }` against `@salt{}`; only the END of the brace span and the
    cursor move with the length of `q`).  Used alike by `ingredient`, `cookware` and `timer`, which all read their body through `comp_body`
    and branch on `body.quantity` only. -/
theorem C17_comment_only_braces_is_no_quantity {α : Type} [Arith α] (s : BP α) (A name q rest : List Tok) (ob cb : Tok)
    (ht : s.toks = A ++ (name ++ ob :: (q ++ cb :: rest))) (hc : s.cur = A.length)
    (hn : ∀ t ∈ name, (t.kind == .openBrace || isMarker t.kind) = false)
    (hob : ob.kind = .openBrace) (hcb : cb.kind = .closeBrace)
    (hq : ∀ t ∈ q, w10bBlank t = true) :
    compBody s = (some ⟨name, some ⟨ob.start, cb.stop⟩, none⟩,
      { s with cur := A.length + name.length + 1 + q.length + 1 }) := by
  rw [compBody_run s A name ob q cb rest ht hc hn hob
    (fun t ht' h => by have := w10b_blank_noClose q hq t ht'; simp [h] at this) hcb]
  have : q.any (fun t => !isPadK t) = false := w10b_any_blank q hq
  rw [this]; rfl

/-- the contrast (so that the statement above is not true of a parser that never reads a quantity): one token
    between the braces that is neither whitespace nor a block comment, and the body holds the quantity tokens `q` -/
theorem C17_solid_braces_hold_quantity {α : Type} [Arith α] (s : BP α) (A name q rest : List Tok) (ob cb : Tok)
    (ht : s.toks = A ++ (name ++ ob :: (q ++ cb :: rest))) (hc : s.cur = A.length)
    (hn : ∀ t ∈ name, (t.kind == .openBrace || isMarker t.kind) = false)
    (hob : ob.kind = .openBrace) (hcb : cb.kind = .closeBrace)
    (hq : ∀ t ∈ q, t.kind ≠ .closeBrace) (hsolid : ∃ t ∈ q, w10bBlank t = false) :
    compBody s = (some ⟨name, some ⟨ob.start, cb.stop⟩, some q⟩,
      { s with cur := A.length + name.length + 1 + q.length + 1 }) := by
  rw [compBody_run s A name ob q cb rest ht hc hn hob hq hcb]
  have : q.any (fun t => !isPadK t) = true := by
    obtain ⟨t, ht', h⟩ := hsolid
    rw [List.any_eq_true]
    exact ⟨t, ht', by simp only [w10bBlank] at h; simp [isPadK, h]⟩
  rw [this]; rfl

/-! non-vacuity: the tokens of `@salt{ [- c -] }` (cursor behind the `@`), and of `@salt{ 1 }` -/
def C17_w10Toks (q : List Tok) : List Tok :=
  [tk .at ['@']] ++ ([tk .word "salt".toList] ++ tk .openBrace ['{'] :: (q ++ tk .closeBrace ['}'] :: [tk .ws [' ']]))
example : (compBody (⟨C17_w10Toks [tk .ws [' '], tk .blockComment "[- c -]".toList, tk .ws [' ']], 1, ⟨0⟩, toyCharSpec, #[], none⟩ : BP Rat)).1.map
      (fun b => (b.name, b.quantity)) = some ([tk .word "salt".toList], none) := by
  rw [C17_comment_only_braces_is_no_quantity _ [tk .at ['@']] [tk .word "salt".toList]
    [tk .ws [' '], tk .blockComment "[- c -]".toList, tk .ws [' ']] [tk .ws [' ']] (tk .openBrace ['{']) (tk .closeBrace ['}']) rfl rfl
    (by decide) rfl rfl (by decide)]
  rfl
example : (compBody (⟨C17_w10Toks [tk .ws [' '], tk .int ['1'], tk .ws [' ']], 1, ⟨0⟩, toyCharSpec, #[], none⟩ : BP Rat)).1.map
      (fun b => (b.name, b.quantity)) = some ([tk .word "salt".toList], some [tk .ws [' '], tk .int ['1'], tk .ws [' ']]) := by
  rw [C17_solid_braces_hold_quantity _ [tk .at ['@']] [tk .word "salt".toList]
    [tk .ws [' '], tk .int ['1'], tk .ws [' ']] [tk .ws [' ']] (tk .openBrace ['{']) (tk .closeBrace ['}']) rfl rfl
    (by decide) rfl rfl (by decide) ⟨tk .int ['1'], by decide, by decide⟩]
  rfl

/-- **Ingredient: blanks and block comments inside braces that hold no quantity, component level.**  The same
    abstract ingredient `c` (any modifiers, name, alias, note; with or without quantity) spelled with the padding
    `p` and with the same padding but `E'` inside its empty braces (`padOK`: whitespace and block comments): both
    parse, each consuming exactly its tokens, and the events are `EvLoose`-related (equal modifiers, quantity —
    for `c.qty = none`: none on both sides —, names / aliases / notes with the same `text_trimmed()`). -/
theorem C17_comment_only_braces_ingredient {α : Type} [Arith α] (c : AComp) (p : CPad) (E' : List Tok) (s' s : BP α)
    (hcs : s'.cs = s.cs) (hext : s'.ext = s.ext) (hsp : s.cs.uws ' ' = true)
    (hwf : c.wf s.cs s.ext = true) (hE' : padOK s.cs E' = true) (hp : p.ok s.cs = true)
    (A' ts' rest' A ts rest : List Tok) (hs' : Spells ts' (spellIngredient c { p with e := E' }))
    (hs : Spells ts (spellIngredient c p))
    (ht' : s'.toks = A' ++ (ts' ++ rest')) (ht : s.toks = A ++ (ts ++ rest))
    (hc' : s'.cur = A'.length) (hc : s.cur = A.length) (hrest' : restOK c rest' = true) (hrest : restOK c rest = true)
    (hrun' : RunAt (baseOff s'.toks) s'.toks) (hrun : RunAt (baseOff s.toks) s.toks) :
    ∃ ev' ev : Ev α, ingredientP s' = (some ev', { s' with cur := A'.length + ts'.length }) ∧
      ingredientP s = (some ev, { s with cur := A.length + ts.length }) ∧ EvLoose s.cs ev' ev := by
  refine C17_ingredient_filler_in_body c c (CompFiller.refl c) { p with e := E' } p s' s hcs hext hsp hwf ?_ hp
    A' ts' rest' A ts rest hs' hs ht' ht hc' hc hrest' hrest hrun' hrun
  simp only [CPad.ok, Bool.and_eq_true] at hp ⊢
  exact ⟨⟨⟨⟨hp.1.1.1.1, hp.1.1.1.2⟩, hp.1.1.2⟩, hp.1.2⟩, hE'⟩

/-- **Cookware**, as `C17_comment_only_braces_ingredient` -/
theorem C17_comment_only_braces_cookware {α : Type} [Arith α] (c : AComp) (p : CPad) (E' : List Tok) (s' s : BP α)
    (hcs : s'.cs = s.cs) (hext : s'.ext = s.ext) (hsp : s.cs.uws ' ' = true)
    (hwf : c.wfCookware s.cs s.ext = true) (hE' : padOK s.cs E' = true) (hp : p.ok s.cs = true)
    (A' ts' rest' A ts rest : List Tok) (hs' : Spells ts' (spellCookware c { p with e := E' }))
    (hs : Spells ts (spellCookware c p))
    (ht' : s'.toks = A' ++ (ts' ++ rest')) (ht : s.toks = A ++ (ts ++ rest))
    (hc' : s'.cur = A'.length) (hc : s.cur = A.length) (hrest' : restOK c rest' = true) (hrest : restOK c rest = true)
    (hrun' : RunAt (baseOff s'.toks) s'.toks) (hrun : RunAt (baseOff s.toks) s.toks) :
    ∃ ev' ev : Ev α, cookwareP s' = (some ev', { s' with cur := A'.length + ts'.length }) ∧
      cookwareP s = (some ev, { s with cur := A.length + ts.length }) ∧ EvLoose s.cs ev' ev := by
  refine C17_cookware_filler_in_body c c (CompFiller.refl c) { p with e := E' } p s' s hcs hext hsp hwf ?_ hp
    A' ts' rest' A ts rest hs' hs ht' ht hc' hc hrest' hrest hrun' hrun
  simp only [CPad.ok, Bool.and_eq_true] at hp ⊢
  exact ⟨⟨⟨⟨hp.1.1.1.1, hp.1.1.1.2⟩, hp.1.1.2⟩, hp.1.2⟩, hE'⟩

/-- **Timer**, as `C17_comment_only_braces_ingredient` (`~rest{ [- c -] }` against `~rest{}`: a timer with a name
    and no quantity on both sides, no "missing quantity" error appears or disappears) -/
theorem C17_comment_only_braces_timer {α : Type} [Arith α] (c : ATimer) (p : CPad) (E' : List Tok) (s' s : BP α)
    (hcs : s'.cs = s.cs) (hext : s'.ext = s.ext) (hsp : s.cs.uws ' ' = true)
    (hwf : c.wf s.cs s.ext = true) (hE' : padOK s.cs E' = true) (hp : p.ok s.cs = true)
    (A' ts' rest' A ts rest : List Tok) (hs' : Spells ts' (spellTimer c { p with e := E' }))
    (hs : Spells ts (spellTimer c p))
    (ht' : s'.toks = A' ++ (ts' ++ rest')) (ht : s.toks = A ++ (ts ++ rest))
    (hc' : s'.cur = A'.length) (hc : s.cur = A.length) (hrest' : noParenNext rest' = true) (hrest : noParenNext rest = true)
    (hrun' : RunAt (baseOff s'.toks) s'.toks) (hrun : RunAt (baseOff s.toks) s.toks) :
    ∃ ev' ev : Ev α, timerP s' = (some ev', { s' with cur := A'.length + ts'.length }) ∧
      timerP s = (some ev, { s with cur := A.length + ts.length }) ∧ EvLoose s.cs ev' ev := by
  refine C17_timer_filler_in_body c c (TimerFiller.refl c) { p with e := E' } p s' s hcs hext hsp hwf ?_ hp
    A' ts' rest' A ts rest hs' hs ht' ht hc' hc hrest' hrest hrun' hrun
  simp only [CPad.ok, Bool.and_eq_true] at hp ⊢
  exact ⟨⟨⟨⟨hp.1.1.1.1, hp.1.1.1.2⟩, hp.1.1.2⟩, hp.1.2⟩, hE'⟩

/-! non-vacuity: `@sea salt{ [- to taste -] }` against `@sea salt{ }`, `~rest{ [- c -] }` against `~rest{}`, sources
    lexed by the model's lexer; both events carry no quantity -/
def C17_w10Comp : AComp := { name := [tk .word "sea".toList, tk .ws [' '], tk .word "salt".toList] }
def C17_w10PadC : List Tok := [tk .ws [' '], tk .blockComment "[- to taste -]".toList, tk .ws [' ']]
def C17_w10Timer : ATimer := { name := some [tk .word "rest".toList] }
example : render (spellIngredient C17_w10Comp { e := C17_w10PadC }) = "@sea salt{ [- to taste -] }".toList ∧
    render (spellIngredient C17_w10Comp { e := [tk .ws [' ']] }) = "@sea salt{ }".toList ∧
    render (spellTimer C17_w10Timer { e := C17_w10PadC }) = "~rest{ [- to taste -] }".toList := by decide

example : ∃ ev' ev : Ev Rat,
    (ingredientP (⟨lex toyCharSpec (render (spellIngredient C17_w10Comp { e := C17_w10PadC })), 0, ⟨0⟩, toyCharSpec, #[], none⟩ : BP Rat)).1 = some ev' ∧
    (ingredientP (⟨lex toyCharSpec (render (spellIngredient C17_w10Comp { e := [tk .ws [' ']] })), 0, ⟨0⟩, toyCharSpec, #[], none⟩ : BP Rat)).1 = some ev ∧
    EvLoose toyCharSpec ev' ev := by
  obtain ⟨a1, a2⟩ := rtin_lex_spells toyCharSpec 0 (spellIngredient C17_w10Comp { e := C17_w10PadC }) (by decide)
  obtain ⟨b1, b2⟩ := rtin_lex_spells toyCharSpec 0 (spellIngredient C17_w10Comp { e := [tk .ws [' ']] }) (by decide)
  obtain ⟨ev', ev, h1, h2, h3⟩ := C17_comment_only_braces_ingredient (α := Rat) C17_w10Comp { e := [tk .ws [' ']] } C17_w10PadC
    ⟨lex toyCharSpec (render (spellIngredient C17_w10Comp { e := C17_w10PadC })), 0, ⟨0⟩, toyCharSpec, #[], none⟩
    ⟨lex toyCharSpec (render (spellIngredient C17_w10Comp { e := [tk .ws [' ']] })), 0, ⟨0⟩, toyCharSpec, #[], none⟩
    rfl rfl (by decide) (by decide) (by decide) (by decide) [] _ [] [] _ [] a1 b1 (by simp [lex]) (by simp [lex]) rfl rfl
    (by decide) (by decide) a2.base b2.base
  exact ⟨ev', ev, by rw [h1], by rw [h2], h3⟩

example : ∃ ev' ev : Ev Rat,
    (cookwareP (⟨lex toyCharSpec (render (spellCookware C17_w10Comp { e := C17_w10PadC })), 0, ⟨0⟩, toyCharSpec, #[], none⟩ : BP Rat)).1 = some ev' ∧
    (cookwareP (⟨lex toyCharSpec (render (spellCookware C17_w10Comp {})), 0, ⟨0⟩, toyCharSpec, #[], none⟩ : BP Rat)).1 = some ev ∧
    EvLoose toyCharSpec ev' ev := by
  obtain ⟨a1, a2⟩ := rtin_lex_spells toyCharSpec 0 (spellCookware C17_w10Comp { e := C17_w10PadC }) (by decide)
  obtain ⟨b1, b2⟩ := rtin_lex_spells toyCharSpec 0 (spellCookware C17_w10Comp {}) (by decide)
  obtain ⟨ev', ev, h1, h2, h3⟩ := C17_comment_only_braces_cookware (α := Rat) C17_w10Comp {} C17_w10PadC
    ⟨lex toyCharSpec (render (spellCookware C17_w10Comp { e := C17_w10PadC })), 0, ⟨0⟩, toyCharSpec, #[], none⟩
    ⟨lex toyCharSpec (render (spellCookware C17_w10Comp {})), 0, ⟨0⟩, toyCharSpec, #[], none⟩
    rfl rfl (by decide) (by decide) (by decide) (by decide) [] _ [] [] _ [] a1 b1 (by simp [lex]) (by simp [lex]) rfl rfl
    (by decide) (by decide) a2.base b2.base
  exact ⟨ev', ev, by rw [h1], by rw [h2], h3⟩

example : ∃ ev' ev : Ev Rat,
    (timerP (⟨lex toyCharSpec (render (spellTimer C17_w10Timer { e := C17_w10PadC })), 0, ⟨0⟩, toyCharSpec, #[], none⟩ : BP Rat)).1 = some ev' ∧
    (timerP (⟨lex toyCharSpec (render (spellTimer C17_w10Timer {})), 0, ⟨0⟩, toyCharSpec, #[], none⟩ : BP Rat)).1 = some ev ∧
    EvLoose toyCharSpec ev' ev := by
  obtain ⟨a1, a2⟩ := rtin_lex_spells toyCharSpec 0 (spellTimer C17_w10Timer { e := C17_w10PadC }) (by decide)
  obtain ⟨b1, b2⟩ := rtin_lex_spells toyCharSpec 0 (spellTimer C17_w10Timer {}) (by decide)
  obtain ⟨ev', ev, h1, h2, h3⟩ := C17_comment_only_braces_timer (α := Rat) C17_w10Timer {} C17_w10PadC
    ⟨lex toyCharSpec (render (spellTimer C17_w10Timer { e := C17_w10PadC })), 0, ⟨0⟩, toyCharSpec, #[], none⟩
    ⟨lex toyCharSpec (render (spellTimer C17_w10Timer {})), 0, ⟨0⟩, toyCharSpec, #[], none⟩
    rfl rfl (by decide) (by decide) (by decide) (by decide) [] _ [] [] _ [] a1 b1 (by simp [lex]) (by simp [lex]) rfl rfl
    (by decide) (by decide) a2.base b2.base
  exact ⟨ev', ev, by rw [h1], by rw [h2], h3⟩

/-! non-vacuity of the seeded change C17-10 at RECIPE level (through `C17_component_pads_same_recipe`, wave 7: the
    content of empty braces is padding, `CPad.e`): `Use a #big pan{ [- to taste -] } and ~rest{ [- to taste -] } with
    @sea salt{ [- to taste -] }⏎` against the same with `{}` three times -/
def C17_w10BracesDoc (p : CPad) : List (DocItem × List Tok) :=
  [(.step [.text [tk .word "Use".toList, tk .ws [' '], tk .word "a".toList, tk .ws [' ']],
           .cookware { name := [tk .word "big".toList, tk .ws [' '], tk .word "pan".toList] } p,
           .text [tk .ws [' '], tk .word "and".toList, tk .ws [' ']],
           .timer C17_w10Timer p,
           .text [tk .ws [' '], tk .word "with".toList, tk .ws [' ']],
           .ingredient C17_w10Comp p], [tk .newline ['\n']])]

example : render ([] ++ docSpec (C17_w10BracesDoc { e := C17_w10PadC })) =
      "Use a #big pan{ [- to taste -] } and ~rest{ [- to taste -] } with @sea salt{ [- to taste -] }\n".toList ∧
    render ([] ++ docSpec (C17_w10BracesDoc {})) = "Use a #big pan{} and ~rest{} with @sea salt{}\n".toList := by decide

theorem C17_w10BracesDoc_wf (p : CPad)
    (h1 : (∀ d ∈ C17_w10BracesDoc p, d.1.ok C17_toyEnv.cs C17_toyEnv.ext = true) ∧ (∀ d ∈ C17_w10BracesDoc p, d.1.simple = true) ∧
      sepsOK ((C17_w10BracesDoc p).map (·.2)) = true ∧ WellSpelled C17_toyEnv.cs ([] ++ docSpec (C17_w10BracesDoc p)) ∧
      (parseFrontmatter C17_toyEnv.cs (render ([] ++ docSpec (C17_w10BracesDoc p)))).isNone = true) :
    DocWF Rat C17_toyEnv [] (C17_w10BracesDoc p) := by
  obtain ⟨a, b, c, d, e⟩ := h1
  refine ⟨by decide, a, b, ?_, ?_, c, d, by simpa using e⟩
  · intro x hx
    simp only [C17_w10BracesDoc, List.mem_cons, List.not_mem_nil, or_false] at hx
    subst hx; trivial
  · intro x hx
    simp only [C17_w10BracesDoc, List.mem_cons, List.not_mem_nil, or_false] at hx
    subst hx
    intro sg hsg
    simp only [List.mem_cons, List.not_mem_nil, or_false] at hsg
    rcases hsg with rfl | rfl | rfl | rfl | rfl | rfl
    · intro hh; exact absurd hh (by decide)
    · trivial
    · intro hh; exact absurd hh (by decide)
    · intro hh; exact absurd hh (by decide)
    · intro hh; exact absurd hh (by decide)
    · trivial

example : SameRecipe (α := Rat) (fun c => c = ' ')
    (parseRecipe C17_toyEnv (render ([] ++ docSpec (C17_w10BracesDoc { e := C17_w10PadC }))))
    (parseRecipe C17_toyEnv (render ([] ++ docSpec (C17_w10BracesDoc {})))) :=
  C17_component_pads_same_recipe _ C17_toyEnv [] [] _ _ (C17_w10BracesDoc_wf _ (by decide)) (C17_w10BracesDoc_wf _ (by decide)) rfl

/-- helper for the non-vacuity examples under INLINE_QUANTITIES (`C17_w9Env`): a document of single-text-run steps
    whose runs show something and hold no inline quantity is well formed once the decidable conditions hold -/
theorem C17_w10ExDocWF (doc : List (DocItem × List Tok))
    (h1 : (∀ d ∈ doc, d.1.ok C17_w9Env.cs C17_w9Env.ext = true) ∧ (∀ d ∈ doc, d.1.simple = true) ∧
      sepsOK (doc.map (·.2)) = true ∧ WellSpelled C17_w9Env.cs ([] ++ docSpec doc) ∧
      (parseFrontmatter C17_w9Env.cs (render ([] ++ docSpec doc))).isNone = true)
    (h2 : ∀ d ∈ doc, ∃ l, d.1 = .step [.text l] ∧ l.flatMap vis ≠ [] ∧
      findInlineQuantity (α := Rat) C17_w9Env ((l.flatMap vis).length + 1) [] (l.flatMap vis) = none) :
    DocWF Rat C17_w9Env [] doc := by
  obtain ⟨a, b, c, d, e⟩ := h1
  refine ⟨by decide, a, b, ?_, ?_, c, d, by simpa using e⟩
  · intro x hx
    obtain ⟨l, hl, _⟩ := h2 x hx
    rw [hl]; trivial
  · intro x hx
    obtain ⟨l, hl, h3, h4⟩ := h2 x hx
    rw [hl]
    intro sg hsg
    simp only [List.mem_cons, List.not_mem_nil, or_false] at hsg
    subst hsg
    intro _
    exact ⟨h3, h4⟩

/-- `take 2 cups⏎` (no unit `cups` in the converter of `C17_w9Env`: the scan finds nothing) -/
def C17_w10Doc : List (DocItem × List Tok) :=
  [(.step [.text ([tk .word "take".toList, tk .ws [' ']] ++ [tk .int ['2'], tk .ws [' '], tk .word "cups".toList])],
    [tk .newline ['\n']])]

theorem C17_w10Doc_wf : DocWF Rat C17_w9Env [] C17_w10Doc :=
  C17_w10ExDocWF _ (by decide) (by
    intro d hd
    simp only [C17_w10Doc, List.mem_cons, List.not_mem_nil, or_false] at hd
    subst hd
    exact ⟨_, rfl, by decide, by decide⟩)

/-- **non-vacuity of the wave-9 theorems under INLINE_QUANTITIES**: `take [- c -] 2 cups⏎` against `take 2 cups⏎`
    under `C17_w9Env` (extension on, unit `g` known): `DocWF` of the transformed document and the same recipe -/
example : DocWF Rat C17_w9Env [] ([] ++ (DocItem.step ([] ++ SegX.text ([tk .word "take".toList, tk .ws [' ']] ++
      [tk .blockComment "[- c -]".toList, tk .ws [' ']] ++ [tk .int ['2'], tk .ws [' '], tk .word "cups".toList]) :: []),
      [tk .newline ['\n']]) :: []) :=
  C17_insertion_in_text_wellformed_all_ext (α := Rat) C17_w9Env C17_w9_digits C17_w9_blank [] [] [] [tk .newline ['\n']] [] []
    [tk .word "take".toList, tk .ws [' ']] [tk .blockComment "[- c -]".toList, tk .ws [' ']]
    [tk .int ['2'], tk .ws [' '], tk .word "cups".toList]
    (by intro t ht; simp only [List.mem_cons, List.not_mem_nil, or_false] at ht; rcases ht with rfl | rfl <;> rfl)
    (by decide) (by decide) (Or.inr (Or.inr ⟨"take".toList, ' ', by decide, by decide⟩))
    C17_w10Doc_wf (by decide)

example : SameRecipe (α := Rat) (fun c => c = ' ')
    (parseRecipe C17_w9Env "take [- c -] 2 cups\n".toList) (parseRecipe C17_w9Env "take 2 cups\n".toList) := by
  have h := C17_insertion_in_text_same_recipe (α := Rat) C17_w9Env (fun c => c = ' ')
    (by intro c hc; simp only [decide_eq_true_eq] at hc; subst hc; decide) C17_w9_digits C17_w9_blank []
    [] [] [tk .newline ['\n']] [] [] [tk .word "take".toList, tk .ws [' ']]
    [tk .blockComment "[- c -]".toList, tk .ws [' ']] [tk .int ['2'], tk .ws [' '], tk .word "cups".toList]
    (by intro t ht; simp only [List.mem_cons, List.not_mem_nil, or_false] at ht; rcases ht with rfl | rfl <;> rfl)
    (by decide)
    (by decide) (Or.inr (Or.inr ⟨"take".toList, ' ', by decide, by decide⟩)) (by intro s hs; cases hs)
    C17_w10Doc_wf (by decide)
  have e1 : render ([] ++ docSpec ([] ++ (DocItem.step ([] ++ SegX.text ([tk .word "take".toList, tk .ws [' ']] ++
      [tk .blockComment "[- c -]".toList, tk .ws [' ']] ++ [tk .int ['2'], tk .ws [' '], tk .word "cups".toList]) :: []),
      [tk .newline ['\n']]) :: [])) = "take [- c -] 2 cups\n".toList := by decide
  have e2 : render ([] ++ docSpec ([] ++ (DocItem.step ([] ++ SegX.text ([tk .word "take".toList, tk .ws [' ']] ++
      [tk .int ['2'], tk .ws [' '], tk .word "cups".toList]) :: []), [tk .newline ['\n']]) :: [])) = "take 2 cups\n".toList := by decide
  rw [e1, e2] at h
  exact h

/-- … and the hypothesis bites: with the known unit the original is NOT well formed (its text run holds the inline
    quantity `2 g`), so the theorem says nothing about `take 2 g⏎` -/
example : ¬ (SegX.text [tk .word "take".toList, tk .ws [' '], tk .int ['2'], tk .ws [' '], tk .word "g".toList]).extOK Rat C17_w9Env := by
  intro h
  have := (h (by decide)).2
  revert this
  decide

/-- **`parse_quantity` with filler inside a TEXT VALUE** (`{a [- c -] few%pinches}`, `{=a [- c -] few}`): `lF` is the
    text-value leaf `l` (words and single blanks, not number-like) with block comments / blank whitespace tokens
    inserted behind one of its blanks (`FillerIn`), the unit may carry filler too.  `parse_quantity` gives the text
    value `text_trimmed` = the string of the CLEAN leaf, the same lock and unit, no diagnostic, and hands the outer
    parser back untouched — under both settings of ADVANCED_UNITS (with it and without `%`: the text starts with a
    word, `advSafe`, so the advanced form declines before and after) and of RANGE_VALUES.  Instance of
    `C17_parse_quantity_filler_in_unit`, whose relation `QtyFiller` admits such values since wave 10 (`ValFiller`);
    through `CompFiller` / `TimerFiller` / `DocItemF` the component-level theorems `C17_ingredient/cookware/timer_filler_in_body`
    and the recipe-level `C17_filler_in_component_bodies_same_recipe` cover text values with filler as well. -/
theorem C17_parse_quantity_filler_in_text_value {α : Type} [Arith α] (lF l : List Tok) (hFl : FillerIn lF l)
    (lock : Bool) (uF u : Option (List Tok)) (hU : OptRel FillerIn uF u) (p : QPad) (outer : BP α)
    (hsp : outer.cs.uws ' ' = true) (hq : ({ lock := lock, val := .text l, unit := u } : AQty).ok outer.cs = true)
    (hp : p.ok outer.cs = true)
    (hadv : outer.ext.has Gen.EXT_ADVANCED_UNITS = true → ({ lock := lock, val := .text l, unit := u } : AQty).advSafe = true)
    (ts : List Tok) (hs : Spells ts (spellQty { lock := lock, val := .text lF, unit := uF } p))
    (hrun : RunAt (baseOff ts) ts) :
    ∃ vspan lspan unitT sep,
      parseQuantity ts outer = (⟨⟨⟨⟨⟨.text (leafText l), vspan⟩, lspan⟩, unitT⟩, tokensSpan ts⟩, sep⟩, outer) ∧
      lspan.isSome = lock ∧ unitT.map (fun t => t.trimmed outer.cs) = u.map leafText ∧ sep.isSome = u.isSome :=
  C17_parse_quantity_filler_in_unit { lock := lock, val := .text lF, unit := uF } { lock := lock, val := .text l, unit := u }
    ⟨rfl, ValFiller.text lF l hFl, hU⟩ p outer hsp hq hp (by intro h; cases h) hadv ts hs hrun

/-! non-vacuity, recipe level: `Add @salt{a [- c -] few%small [- c -] pinches} now⏎` against
    `Add @salt{a few%small pinches} now⏎` -/
def C17_w10ValF : AComp :=
  { name := [tk .word "salt".toList],
    qty := some { val := .text ([tk .word "a".toList] ++ tk .ws [' '] :: (C17_exFillerTok ++ [tk .word "few".toList])),
                  unit := some ([tk .word "small".toList] ++ tk .ws [' '] :: (C17_exFillerTok ++ [tk .word "pinches".toList])) } }
def C17_w10Val : AComp :=
  { name := [tk .word "salt".toList],
    qty := some { val := .text ([tk .word "a".toList] ++ tk .ws [' '] :: [tk .word "few".toList]),
                  unit := some ([tk .word "small".toList] ++ tk .ws [' '] :: [tk .word "pinches".toList]) } }
theorem C17_w10ValFiller : CompFiller C17_w10ValF C17_w10Val :=
  ⟨rfl, FillerIn.same _, trivial, trivial,
   ⟨rfl, ValFiller.text _ _ (FillerIn.ins _ _ _ _ (by simp) rfl C17_exFiller_pad),
    FillerIn.ins _ _ _ _ (by simp) rfl C17_exFiller_pad⟩⟩

def C17_w10DocValF : List (DocItemF × List Tok) :=
  [(.stepF [.x (.text [tk .word "Add".toList, tk .ws [' ']]), .ingredient C17_w10ValF C17_w10Val {},
            .x (.text [tk .ws [' '], tk .word "now".toList])], [tk .newline ['\n']])]
def C17_w10DocVal : List (DocItem × List Tok) :=
  [(.step [.text [tk .word "Add".toList, tk .ws [' ']], .ingredient C17_w10Val {},
           .text [tk .ws [' '], tk .word "now".toList]], [tk .newline ['\n']])]

example : render ([] ++ docSpecF C17_w10DocValF) = "Add @salt{a [- c -] few%small [- c -] pinches} now\n".toList ∧
    render ([] ++ docSpec C17_w10DocVal) = "Add @salt{a few%small pinches} now\n".toList := by decide

theorem C17_w10DocVal_wf : DocWF Rat C17_toyEnv [] C17_w10DocVal := by
  have h1 : (∀ d ∈ C17_w10DocVal, d.1.ok C17_toyEnv.cs C17_toyEnv.ext = true) ∧ (∀ d ∈ C17_w10DocVal, d.1.simple = true) ∧
      sepsOK (C17_w10DocVal.map (·.2)) = true ∧ WellSpelled C17_toyEnv.cs ([] ++ docSpec C17_w10DocVal) ∧
      (parseFrontmatter C17_toyEnv.cs (render ([] ++ docSpec C17_w10DocVal))).isNone = true := by decide
  obtain ⟨a, b, c, d, e⟩ := h1
  refine ⟨by decide, a, b, ?_, ?_, c, d, by simpa using e⟩
  · intro x hx
    simp only [C17_w10DocVal, List.mem_cons, List.not_mem_nil, or_false] at hx
    subst hx; trivial
  · intro x hx
    simp only [C17_w10DocVal, List.mem_cons, List.not_mem_nil, or_false] at hx
    subst hx
    intro sg hsg
    simp only [List.mem_cons, List.not_mem_nil, or_false] at hsg
    rcases hsg with rfl | rfl | rfl
    · intro hh; exact absurd hh (by decide)
    · trivial
    · intro hh; exact absurd hh (by decide)

example : SameRecipe (α := Rat) (fun c => c = ' ')
    (parseRecipe C17_toyEnv (render ([] ++ docSpecF C17_w10DocValF)))
    (parseRecipe C17_toyEnv (render ([] ++ docSpec C17_w10DocVal))) :=
  C17_filler_in_component_bodies_same_recipe _ C17_toyEnv (by decide) [] [] C17_w10DocValF C17_w10DocVal C17_w10DocVal_wf rfl
    (by decide)
    (by
      intro d hd
      simp only [C17_w10DocValF, List.mem_cons, List.not_mem_nil, or_false] at hd
      subst hd
      refine ⟨⟨show SegX.ok _ _ _ = true by decide, by decide, ⟨C17_w10ValFiller, by decide, by decide⟩, by decide,
        show SegX.ok _ _ _ = true by decide, by decide, trivial⟩, by decide, by decide⟩)
    (by decide) (by decide)
    (by
      have : (parseFrontmatter C17_toyEnv.cs (render ([] ++ docSpecF C17_w10DocValF))).isNone = true := by decide
      simpa using this)

/-! non-vacuity, quantity level, ADVANCED_UNITS on, no `%`: the tokens of `=a [- c -] few` as the model's lexer gives them -/
example : ∃ vspan lspan unitT sep,
    parseQuantity (lex toyCharSpec "=a [- c -] few".toList) (⟨[], 0, ⟨Gen.EXT_ADVANCED_UNITS⟩, toyCharSpec, #[], none⟩ : BP Rat) =
      (⟨⟨⟨⟨⟨.text "a few".toList, vspan⟩, lspan⟩, unitT⟩, tokensSpan (lex toyCharSpec "=a [- c -] few".toList)⟩, sep⟩,
        ⟨[], 0, ⟨Gen.EXT_ADVANCED_UNITS⟩, toyCharSpec, #[], none⟩) ∧
    lspan.isSome = true ∧ unitT.map (fun t => t.trimmed toyCharSpec) = none ∧ sep.isSome = false := by
  obtain ⟨a1, a2⟩ := rtin_lex_spells toyCharSpec 0
    (spellQty { lock := true, val := .text ([tk .word "a".toList] ++ tk .ws [' '] :: (C17_exFillerTok ++ [tk .word "few".toList])) } {})
    (by decide)
  have e : render (spellQty { lock := true, val := .text ([tk .word "a".toList] ++ tk .ws [' '] :: (C17_exFillerTok ++ [tk .word "few".toList])) } {})
      = "=a [- c -] few".toList := by decide
  rw [e] at a1 a2
  exact C17_parse_quantity_filler_in_text_value (α := Rat) _ ([tk .word "a".toList] ++ tk .ws [' '] :: [tk .word "few".toList])
    (FillerIn.ins _ _ _ _ (by simp) rfl C17_exFiller_pad) true none none trivial {}
    ⟨[], 0, ⟨Gen.EXT_ADVANCED_UNITS⟩, toyCharSpec, #[], none⟩ (by decide) (by decide) (by decide) (by intro _; decide)
    (lex toyCharSpec "=a [- c -] few".toList) a1 a2.base

/-! non-vacuity of the multi-insertion constructor `FillerIn.more` (wave 10), recipe level: TWO comments in one name
    and two in one text value: `Add @extra [- c -] virgin [- c -] oil{a [- c -] very [- c -] few%cups} now⏎` against
    `Add @extra virgin oil{a very few%cups} now⏎` -/
def C17_w10Sp : Tok := tk .ws [' ']
def C17_w10TwoF : AComp :=
  { name := [tk .word "extra".toList, C17_w10Sp] ++ C17_exFillerTok ++ [tk .word "virgin".toList] ++ C17_w10Sp :: (C17_exFillerTok ++ [tk .word "oil".toList]),
    qty := some { val := .text ([tk .word "a".toList, C17_w10Sp] ++ C17_exFillerTok ++ [tk .word "very".toList] ++ C17_w10Sp :: (C17_exFillerTok ++ [tk .word "few".toList])),
                  unit := some [tk .word "cups".toList] } }
def C17_w10Two : AComp :=
  { name := [tk .word "extra".toList, C17_w10Sp, tk .word "virgin".toList, C17_w10Sp, tk .word "oil".toList],
    qty := some { val := .text [tk .word "a".toList, C17_w10Sp, tk .word "very".toList, C17_w10Sp, tk .word "few".toList],
                  unit := some [tk .word "cups".toList] } }

theorem C17_w10TwoFillerIn (a b c : Tok) :
    FillerIn ([a, C17_w10Sp] ++ C17_exFillerTok ++ [b] ++ C17_w10Sp :: (C17_exFillerTok ++ [c])) [a, C17_w10Sp, b, C17_w10Sp, c] :=
  FillerIn.more ([a, C17_w10Sp] ++ C17_exFillerTok ++ [b]) C17_w10Sp C17_exFillerTok [c] _
    (FillerIn.ins [a] C17_w10Sp C17_exFillerTok [b, C17_w10Sp, c] (by simp) rfl C17_exFiller_pad)
    (by simp) rfl C17_exFiller_pad

theorem C17_w10TwoFiller : CompFiller C17_w10TwoF C17_w10Two :=
  ⟨rfl, C17_w10TwoFillerIn _ _ _, trivial, trivial, ⟨rfl, ValFiller.text _ _ (C17_w10TwoFillerIn _ _ _), FillerIn.same _⟩⟩

def C17_w10DocTwoF : List (DocItemF × List Tok) :=
  [(.stepF [.x (.text [tk .word "Add".toList, tk .ws [' ']]), .ingredient C17_w10TwoF C17_w10Two {},
            .x (.text [tk .ws [' '], tk .word "now".toList])], [tk .newline ['\n']])]
def C17_w10DocTwo : List (DocItem × List Tok) :=
  [(.step [.text [tk .word "Add".toList, tk .ws [' ']], .ingredient C17_w10Two {},
           .text [tk .ws [' '], tk .word "now".toList]], [tk .newline ['\n']])]

example : render ([] ++ docSpecF C17_w10DocTwoF) =
      "Add @extra [- c -] virgin [- c -] oil{a [- c -] very [- c -] few%cups} now\n".toList ∧
    render ([] ++ docSpec C17_w10DocTwo) = "Add @extra virgin oil{a very few%cups} now\n".toList := by decide

theorem C17_w10DocTwo_wf : DocWF Rat C17_toyEnv [] C17_w10DocTwo := by
  have h1 : (∀ d ∈ C17_w10DocTwo, d.1.ok C17_toyEnv.cs C17_toyEnv.ext = true) ∧ (∀ d ∈ C17_w10DocTwo, d.1.simple = true) ∧
      sepsOK (C17_w10DocTwo.map (·.2)) = true ∧ WellSpelled C17_toyEnv.cs ([] ++ docSpec C17_w10DocTwo) ∧
      (parseFrontmatter C17_toyEnv.cs (render ([] ++ docSpec C17_w10DocTwo))).isNone = true := by decide
  obtain ⟨a, b, c, d, e⟩ := h1
  refine ⟨by decide, a, b, ?_, ?_, c, d, by simpa using e⟩
  · intro x hx
    simp only [C17_w10DocTwo, List.mem_cons, List.not_mem_nil, or_false] at hx
    subst hx; trivial
  · intro x hx
    simp only [C17_w10DocTwo, List.mem_cons, List.not_mem_nil, or_false] at hx
    subst hx
    intro sg hsg
    simp only [List.mem_cons, List.not_mem_nil, or_false] at hsg
    rcases hsg with rfl | rfl | rfl
    · intro hh; exact absurd hh (by decide)
    · trivial
    · intro hh; exact absurd hh (by decide)

example : SameRecipe (α := Rat) (fun c => c = ' ')
    (parseRecipe C17_toyEnv (render ([] ++ docSpecF C17_w10DocTwoF)))
    (parseRecipe C17_toyEnv (render ([] ++ docSpec C17_w10DocTwo))) :=
  C17_filler_in_component_bodies_same_recipe _ C17_toyEnv (by decide) [] [] C17_w10DocTwoF C17_w10DocTwo C17_w10DocTwo_wf rfl
    (by decide)
    (by
      intro d hd
      simp only [C17_w10DocTwoF, List.mem_cons, List.not_mem_nil, or_false] at hd
      subst hd
      refine ⟨⟨show SegX.ok _ _ _ = true by decide, by decide, ⟨C17_w10TwoFiller, by decide, by decide⟩, by decide,
        show SegX.ok _ _ _ = true by decide, by decide, trivial⟩, by decide, by decide⟩)
    (by decide) (by decide)
    (by
      have : (parseFrontmatter C17_toyEnv.cs (render ([] ++ docSpecF C17_w10DocTwoF))).isNone = true := by decide
      simpa using this)
-- ===== end w10c17val =====

end Cook
