import CookModel.Lemmas.TextLaws
/-
  C17  Line endings, comments and blank space do not change the recipe.

  Proved here at the level of text assembly, for every token run and every offset (so whatever
  the byte positions become after an insertion): the characters of an assembled text are the
  visible characters of its tokens; hence inserting a comment token anywhere changes nothing, a
  newline token (LF or CRLF alike) is one space, and appending a comment or whitespace to a run only
  appends (nothing or) whitespace.  The end-to-end clause (recipe equal up to whitespace in step
  text, validity equal) for CRLF conversion, trailing comments/spaces, comments between words and
  extra blank/comment-only lines is decided per run on well-formed recipes and filtered soups
  (oracle on the implementation; both variants also go through the model).
-/
namespace Cook

theorem C17_text_is_visible_chars (off : Nat) (ts : List Tok) :
    (buildText off ts).text = ts.flatMap vis := buildText_text off ts

/-- inserting a comment token between any two tokens of a run leaves the text unchanged
    (offsets may all differ: `off`/`off'` and the tokens' own positions are arbitrary) -/
theorem C17_comment_between_words (off off' : Nat) (xs ys : List Tok) (c : Tok)
    (hc : c.kind = .blockComment ∨ c.kind = .lineComment) :
    (buildText off' (xs ++ [c] ++ ys)).text = (buildText off (xs ++ ys)).text := by
  rw [buildText_text, buildText_text]
  have : vis c = [] := by rcases hc with h | h <;> simp [vis, h]
  simp [this]

/-- a trailing comment adds nothing to the text of a line -/
theorem C17_trailing_comment (off : Nat) (xs : List Tok) (c : Tok)
    (hc : c.kind = .blockComment ∨ c.kind = .lineComment) :
    (buildText off (xs ++ [c])).text = (buildText off xs).text := by
  have := C17_comment_between_words off off xs [] c hc
  simpa using this

/-- trailing whitespace only appends that whitespace -/
theorem C17_trailing_space (off : Nat) (xs : List Tok) (w : Tok) (hw : w.kind = .ws) :
    (buildText off (xs ++ [w])).text = (buildText off xs).text ++ w.text := by
  rw [buildText_text, buildText_text]
  simp [vis, hw]

/-- LF and CRLF newline tokens read the same: one space -/
theorem C17_newline_is_space (off off' : Nat) (xs ys : List Tok) (n n' : Tok)
    (hn : n.kind = .newline) (hn' : n'.kind = .newline) (h1 : n.text ≠ []) (h2 : n'.text ≠ []) :
    (buildText off (xs ++ [n] ++ ys)).text = (buildText off' (xs ++ [n'] ++ ys)).text := by
  rw [buildText_text, buildText_text]
  have e1 : vis n = [' '] := by simp [vis, hn, h1]
  have e2 : vis n' = [' '] := by simp [vis, hn', h2]
  simp [e1, e2]

end Cook
