import CookModel.Syntax.Lexer
/-
  Model of src/text.rs (`Text`, `TextFragment`) and src/span.rs.
-/
namespace Cook

structure Span where
  start : Nat
  stop : Nat
deriving Repr, DecidableEq, Inhabited

def Span.pos (p : Nat) : Span := ⟨p, p⟩

structure Frag where
  text : List Char
  offset : Nat
  soft : Bool
deriving Repr, DecidableEq, Inhabited

def Frag.stop (f : Frag) : Nat := f.offset + utf8Len f.text

/-- `Text`: fragments in source order; `emptyOff` is the offset of `TextData::Empty`.
    `bad` records that the ordering assertion of `append_fragment` would have failed. -/
structure Text where
  frags : List Frag
  emptyOff : Nat
  bad : Bool := false
deriving Repr, DecidableEq, Inhabited

def Text.empty (off : Nat) : Text := ⟨[], off, false⟩

def Text.span (t : Text) : Span :=
  match t.frags with
  | [] => Span.pos t.emptyOff
  | f :: _ => ⟨f.offset, (t.frags.getLast?.getD f).stop⟩

/-- `append_fragment`: `assert!(self.span().end() <= fragment.offset)`, empty text is skipped -/
def Text.appendFrag (t : Text) (f : Frag) : Text :=
  let t := if t.span.stop ≤ f.offset then t else { t with bad := true }
  if f.text.isEmpty then t else { t with frags := t.frags ++ [f] }

def Text.appendStr (t : Text) (s : List Char) (off : Nat) : Text := t.appendFrag ⟨s, off, false⟩

def Text.fromStr (s : List Char) (off : Nat) : Text := (Text.empty off).appendStr s off

/-- `Text::text`: a soft break renders as one ASCII space -/
def Text.text (t : Text) : List Char :=
  t.frags.flatMap (fun f => if f.soft then [' '] else f.text)

/-- `str::trim` -/
def trimStart (ws : Char → Bool) (s : List Char) : List Char := s.dropWhile ws
def trimEnd (ws : Char → Bool) (s : List Char) : List Char := (s.reverse.dropWhile ws).reverse
def trim (ws : Char → Bool) (s : List Char) : List Char := trimEnd ws (trimStart ws s)

def Text.outerTrimmed (cs : CharSpec) (t : Text) : List Char := trim cs.uws t.text

def hasDoubleSpace : List Char → Bool
  | ' ' :: ' ' :: _ => true
  | _ :: t => hasDoubleSpace t
  | [] => false

/-- the `retain` of `text_trimmed`: drop a space that follows a space (`prev` starts as a space) -/
def collapseSpaces (prev : Char) : List Char → List Char
  | [] => []
  | c :: t => if c ≠ ' ' ∨ prev ≠ ' ' then c :: collapseSpaces c t else collapseSpaces c t

def Text.trimmed (cs : CharSpec) (t : Text) : List Char :=
  let s := t.outerTrimmed cs
  if hasDoubleSpace s then collapseSpaces ' ' s else s

/-- `is_text_empty`: every fragment is blank under `trim` -/
def Text.isTextEmpty (cs : CharSpec) (t : Text) : Bool :=
  t.frags.all (fun f => (trim cs.uws f.text).isEmpty)

structure Loc (β : Type) where
  val : β
  span : Span
deriving Repr, DecidableEq, Inhabited

end Cook
