import CookModel.Syntax.Text
import CookModel.Analysis.Model
import CookModel.Gen.Consts
/-
  Model of the block parsers: src/parser/block_parser.rs, step.rs, quantity.rs, section.rs,
  metadata.rs, text_block.rs and `parse_block` of src/parser/mod.rs.

  `BP` mirrors `BlockParser`: the tokens of the block, the cursor, the extensions and the
  shared event queue.  Every `assert!/expect/unwrap/panic!` of the Rust code sets `panic`
  (first one wins) and the computation continues with a default value; C03 is the theorem that
  it is never set.
-/
namespace Cook

/-! ### Extensions (raw bits, values generated from src/lib.rs) -/
structure Ext where
  bits : Nat
deriving Repr, DecidableEq, Inhabited

def Ext.has (e : Ext) (flag : Nat) : Bool := (e.bits &&& flag) == flag

/-! ### Diagnostics and events -/
inductive Sev | error | warning deriving Repr, DecidableEq, Inhabited
inductive Stage | parse | analysis deriving Repr, DecidableEq, Inhabited

structure Diag where
  sev : Sev
  stage : Stage
  kind : String
  labels : List Span
deriving Repr, DecidableEq, Inhabited

inductive BlockKind | step | text deriving Repr, DecidableEq, Inhabited

structure PQValue (α : Type) where
  value : Loc (Value α)
  lock : Option Span
deriving Repr, Inhabited

structure PQuantity (α : Type) where
  value : PQValue α
  unit : Option Text
deriving Repr, Inhabited

structure InterData where
  relative : Bool
  isSection : Bool
  val : Int
deriving Repr, DecidableEq, Inhabited

structure PIngredient (α : Type) where
  modifiers : Loc Modifiers
  inter : Option (Loc InterData)
  name : Text
  alias : Option Text
  quantity : Option (Loc (PQuantity α))
  note : Option Text
deriving Repr, Inhabited

structure PCookware (α : Type) where
  modifiers : Loc Modifiers
  name : Text
  alias : Option Text
  quantity : Option (Loc (PQValue α))
  note : Option Text
deriving Repr, Inhabited

structure PTimer (α : Type) where
  name : Option Text
  quantity : Option (Loc (PQuantity α))
deriving Repr, Inhabited

inductive Ev (α : Type) where
  | frontMatter (t : Text)
  | metadata (key value : Text)
  | section (name : Option Text)
  | start (k : BlockKind)
  | stop (k : BlockKind)
  | text (t : Text)
  | ingredient (i : Loc (PIngredient α))
  | cookware (c : Loc (PCookware α))
  | timer (t : Loc (PTimer α))
  | error (d : Diag)
  | warning (d : Diag)
deriving Repr, Inhabited

/-! ### The block parser state -/
structure BP (α : Type) where
  toks : List Tok
  cur : Nat
  ext : Ext
  cs : CharSpec
  evs : Array (Ev α)
  panic : Option String

abbrev P (α : Type) := StateM (BP α)

variable {α : Type} [Arith α]

def panicWith (site : String) : P α Unit :=
  modify fun s => if s.panic.isNone then { s with panic := some site } else s

def pushEv (e : Ev α) : P α Unit := modify fun s => { s with evs := s.evs.push e }

def perr (kind : String) (labels : List Span) : P α Unit :=
  pushEv (.error ⟨.error, .parse, kind, labels⟩)
def pwarn (kind : String) (labels : List Span) : P α Unit :=
  pushEv (.warning ⟨.warning, .parse, kind, labels⟩)

def hasExt (flag : Nat) : P α Bool := do return (← get).ext.has flag

def restToks : P α (List Tok) := do let s ← get; return s.toks.drop s.cur
def parsedToks : P α (List Tok) := do let s ← get; return s.toks.take s.cur
def allToks : P α (List Tok) := do return (← get).toks
def getCur : P α Nat := do return (← get).cur
def setCur (c : Nat) : P α Unit := modify fun s => { s with cur := c }

/-- `tokens_span` (debug_assert non-empty) -/
def tokensSpan (ts : List Tok) : Span :=
  ⟨(ts.head?.map (·.start)).getD 0, (ts.getLast?.map (·.stop)).getD 0⟩

def tokensSpanP (site : String) (ts : List Tok) : P α Span := do
  if ts.isEmpty then panicWith s!"tokens_span empty: {site}"
  return tokensSpan ts

def baseOffset : P α Nat := do
  return ((← get).toks.head?.map (·.start)).getD 0

/-- `current_offset`: end of the last parsed token, or the base offset -/
def currentOffset : P α Nat := do
  let s ← get
  match (s.toks.take s.cur).getLast? with
  | some t => return t.stop
  | none => baseOffset

def bpSpan : P α Span := do tokensSpanP "bp.span" (← get).toks

def peekK : P α (Option TK) := do
  let s ← get
  return (s.toks[s.cur]?).map (·.kind)

def atK (k : TK) : P α Bool := do return (← peekK) == some k

def nextToken : P α (Option Tok) := do
  let s ← get
  match s.toks[s.cur]? with
  | some t => set { s with cur := s.cur + 1 }; return some t
  | none => return none

def dummyTok : Tok := ⟨.word, [], 0⟩

/-- `bump_any`: `expect("Expected token, but there was none")` -/
def bumpAny : P α Tok := do
  match ← nextToken with
  | some t => return t
  | none => panicWith "bump_any: no token"; return dummyTok

/-- `bump(expected)`: `assert_eq!(token.kind, expected)` -/
def bump (k : TK) : P α Tok := do
  let t ← bumpAny
  if t.kind ≠ k then panicWith s!"bump: expected {k.name}"
  return t

/-- `until(f)`: tokens up to the first one satisfying `f`; `none` (nothing consumed) if there is none -/
def untilK (f : TK → Bool) : P α (Option (List Tok)) := do
  let r ← restToks
  match r.findIdx? (fun t => f t.kind) with
  | none => return none
  | some pos =>
    modify fun s => { s with cur := s.cur + pos }
    return some (r.take pos)

def consumeWhile (f : TK → Bool) : P α (List Tok) := do
  let r ← restToks
  let pos := (r.findIdx? (fun t => !f t.kind)).getD r.length
  modify fun s => { s with cur := s.cur + pos }
  return r.take pos

def isWsComment (k : TK) : Bool := k == .ws || k == .lineComment || k == .blockComment

def wsComments : P α (List Tok) := consumeWhile isWsComment

def consumeK (k : TK) : P α (Option Tok) := do
  if ← atK k then return some (← bumpAny) else return none

def consumeRest : P α (List Tok) := do
  let r ← restToks
  modify fun s => { s with cur := s.cur + r.length }
  return r

/-- `with_recover`: on `none` the cursor is restored; pushed events stay -/
def withRecover {β : Type} (f : P α (Option β)) : P α (Option β) := do
  let old ← getCur
  let r ← f
  if r.isNone then setCur old
  return r

/-! ### `BlockParser::text` -/
structure TextAcc where
  t : Text
  start : Nat
  cur : List Char

def textStep (a : TextAcc) (tok : Tok) : TextAcc :=
  match tok.kind with
  | .newline =>
    let t := a.t.appendStr a.cur a.start
    let t := t.appendFrag ⟨tok.text, tok.start, true⟩
    ⟨t, tok.stop, []⟩
  | .lineComment | .blockComment =>
    ⟨a.t.appendStr a.cur a.start, tok.stop, []⟩
  | .escaped =>
    ⟨a.t.appendStr a.cur a.start, tok.start + 1, tok.text.tail⟩
  | _ => ⟨a.t, a.start, a.cur ++ tok.text⟩

def buildText (offset : Nat) (tokens : List Tok) : Text :=
  match tokens with
  | [] => Text.empty offset
  | t0 :: _ =>
    let a := tokens.foldl textStep ⟨Text.empty offset, t0.start, []⟩
    let t := a.t.appendStr a.cur a.start
    if offset = t0.start then t else { t with bad := true }

def bpText (offset : Nat) (tokens : List Tok) : P α Text := do
  let t := buildText offset tokens
  if t.bad then panicWith "text: offset/order assertion"
  return t

/-! ### Numbers (src/parser/quantity.rs) -/
def digitsToNat (s : List Char) : Nat := s.foldl (fun n c => n * 10 + (c.toNat - '0'.toNat)) 0

def recoverValue : Value α := .number (.regular (Arith.ofNat 1))

/-- `int(tok)`: `str::parse::<u32>`; `assert_eq!(tok.kind, T![int])` -/
def parseU32 (tok : Tok) : Except Diag Nat :=
  let n := digitsToNat tok.text
  if n ≤ u32Max then .ok n
  else .error ⟨.error, .parse, "int-parse", [⟨tok.start, tok.stop⟩]⟩

def fracNum (a b : Tok) : Except Diag (Number α) :=
  match parseU32 a with
  | .error e => .error e
  | .ok x =>
    match parseU32 b with
    | .error e => .error e
    | .ok y =>
      if y = 0 then .error ⟨.error, .parse, "division-by-zero", [⟨a.start, b.stop⟩]⟩
      else .ok (.fraction 0 x y (Arith.ofNat 0))

def mixedNum (i a b : Tok) : Except Diag (Number α) :=
  match parseU32 i with
  | .error e => .error e
  | .ok w =>
    match fracNum (α := α) a b with
    | .error e => .error e
    | .ok (.fraction _ n d _) => .ok (.fraction w n d (Arith.ofNat 0))
    | .ok n => .ok n

def notWsComment (t : Tok) : Bool := !isWsComment t.kind

def trimTokens (s : List Tok) : List Tok :=
  ((s.dropWhile (fun t => isWsComment t.kind)).reverse.dropWhile (fun t => isWsComment t.kind)).reverse

def isIntLike (k : TK) : Bool := k == .int || k == .zeroInt

/-- `numeric_value`: `none` = not numeric -/
def numericValue (tokens : List Tok) : Option (Except Diag (Value α)) :=
  let tr := trimTokens tokens
  if tr.isEmpty then none else
  match tr with
  | [a] =>
    if a.kind == .int then some (.ok (.number (.regular (Arith.ofDecimal (digitsToNat a.text) 0)))) else none
  | [a, d, b] =>
    if a.kind == .int && d.kind == .dot && isIntLike b.kind then
      some (.ok (.number (.regular (Arith.ofDecimal (digitsToNat (a.text ++ b.text)) b.text.length))))
    else
      let f := tr.filter notWsComment
      match f with
      | [x, s, y] =>
        if x.kind == .int && s.kind == .slash && y.kind == .int then
          some ((fracNum (α := α) x y).map .number) else none
      | _ => none
  | [d, b] =>
    if d.kind == .dot && isIntLike b.kind then
      some (.ok (.number (.regular (Arith.ofDecimal (digitsToNat b.text) b.text.length))))
    else none
  | _ =>
    let f := tr.filter notWsComment
    match f with
    | [i, x, s, y] =>
      if i.kind == .int && x.kind == .int && s.kind == .slash && y.kind == .int then
        some ((mixedNum (α := α) i x y).map .number) else none
    | [x, s, y] =>
      if x.kind == .int && s.kind == .slash && y.kind == .int then
        some ((fracNum (α := α) x y).map .number) else none
    | _ => none

/-- `range_value` (gated by RANGE_VALUES) -/
def rangeValue (rangeExt : Bool) (tokens : List Tok) : Option (Except Diag (Value α)) :=
  if !rangeExt then none else
  match tokens.findIdx? (fun t => t.kind == .minus) with
  | none => none
  | some mid =>
    let startT := tokens.take mid
    let endT := tokens.drop (mid + 1)
    match numericValue (α := α) startT with
    | none => none
    | some (.error e) => some (.error e)
    | some (.ok (.number s)) =>
      match numericValue (α := α) endT with
      | none => none
      | some (.error e) => some (.error e)
      | some (.ok (.number e)) => some (.ok (.range s e))
      | some (.ok v) => some (.ok v)   -- unreachable!("numeric_value not number")
    | some (.ok v) => some (.ok v)     -- unreachable!

def numOrRange (rangeExt : Bool) (tokens : List Tok) : Option (Except Diag (Value α)) :=
  match rangeValue (α := α) rangeExt tokens with
  | some r => some r
  | none => numericValue tokens

def scalingLock : P α (Option Span) := do
  let _ ← wsComments
  if ← atK .eq then
    let t ← bumpAny
    return some ⟨t.start, t.stop⟩
  else return none

def textValue (tokens : List Tok) (offset : Nat) : P α (Value α) := do
  let text ← bpText offset tokens
  let cs := (← get).cs
  if text.isTextEmpty cs then perr "empty-value" [text.span]
  return .text (text.trimmed cs)

def parseValue (tokens : List Tok) : P α (Loc (Value α)) := do
  let cur ← currentOffset
  let start := (tokens.head?.map (·.start)).getD cur
  let span : Span := ⟨start, cur⟩
  let rangeExt ← hasExt Gen.EXT_RANGE_VALUES
  match numOrRange (α := α) rangeExt tokens with
  | some (.ok v) => return ⟨v, span⟩
  | some (.error e) => pushEv (.error e); return ⟨recoverValue, span⟩
  | none =>
    let v ← textValue tokens start
    return ⟨v, span⟩

def qvalue : P α (PQValue α) := do
  let lock ← scalingLock
  let vt ← consumeWhile (fun k => k != .percent)
  let v ← parseValue vt
  return ⟨v, lock⟩

structure ParsedQuantity (α : Type) where
  quantity : Loc (PQuantity α)
  unitSep : Option Span

def parseRegularQuantity : P α (ParsedQuantity α) := do
  let value ← qvalue
  let unit : Option (Span × Text) ← (do
    match ← peekK with
    | some .percent =>
      let sep ← bumpAny
      let ut ← consumeRest
      let t ← bpText sep.stop ut
      return some (⟨sep.start, sep.stop⟩, t)
    | _ => return none)   -- `value` consumed everything up to `%`, so only Eof is possible here
  let cs := (← get).cs
  let unitSep := unit.map (·.1)
  let mut unitT := unit.map (·.2)
  match unit with
  | some (sep, ut) =>
    if ut.isTextEmpty cs then
      pwarn "empty-unit" [sep]
      unitT := none
  | none => pure ()
  let sp ← tokensSpanP "quantity" (← get).toks
  return ⟨⟨⟨value, unitT⟩, sp⟩, unitSep⟩

def parseAdvancedQuantity : P α (Option (ParsedQuantity α)) := do
  let all ← allToks
  if all.any (fun t => t.kind == .percent) then return none
  let lock ← scalingLock
  let _ ← wsComments
  let vt ← consumeWhile (fun k => k != .word)
  match vt.reverse.find? (fun t => t.kind != .blockComment) with
  | none => return none
  | some l =>
    if l.kind != .ws then return none
    let vt := (vt.reverse.dropWhile (fun t => t.kind == .ws || t.kind == .blockComment)).reverse
    if vt.isEmpty then panicWith "advanced quantity: rposition unwrap"
    let ut ← consumeRest
    if ut.isEmpty then return none
    let vspan := tokensSpan vt
    let rangeExt ← hasExt Gen.EXT_RANGE_VALUES
    match numOrRange (α := α) rangeExt vt with
    | none => return none
    | some r =>
      let v : Value α ← (match r with
        | .ok v => pure v
        | .error e => do pushEv (.error e); pure recoverValue)
      let unit ← bpText ((ut.head?.map (·.start)).getD 0) ut
      let sp ← tokensSpanP "quantity" all
      return some ⟨⟨⟨⟨⟨v, vspan⟩, lock⟩, some unit⟩, sp⟩, none⟩

/-- `parse_quantity`: a sub-block parser over the tokens between the braces, sharing events -/
def parseQuantity (tokens : List Tok) : P α (ParsedQuantity α) := do
  if tokens.isEmpty then panicWith "parse_quantity: empty tokens"
  let outer ← get
  set { outer with toks := tokens, cur := 0 }
  let adv ← (do
    if ← hasExt Gen.EXT_ADVANCED_UNITS then withRecover parseAdvancedQuantity else return none)
  let r ← (match adv with
    | some q => pure q
    | none => parseRegularQuantity)
  modify fun s => { s with toks := outer.toks, cur := outer.cur }
  return r

/-! ### Components (src/parser/step.rs) -/
structure Body where
  name : List Tok
  close : Option Span
  quantity : Option (List Tok)

def isMarker (k : TK) : Bool := k == .at || k == .hash || k == .tilde

def compBodyLong : P α (Option Body) := withRecover do
  match ← untilK (fun k => k == .openBrace || isMarker k) with
  | none => return none
  | some name =>
    match ← consumeK .openBrace with
    | none => return none
    | some ob =>
      match ← untilK (fun k => k == .closeBrace) with
      | none => return none
      | some q =>
        let cb ← bump .closeBrace
        let notEmpty := q.any (fun t => !(t.kind == .ws || t.kind == .blockComment))
        return some ⟨name, some ⟨ob.start, cb.stop⟩, if notEmpty then some q else none⟩

def compBodyShort : P α (Option Body) := withRecover do
  let toks ← consumeWhile (fun k => k == .word || k == .int || k == .zeroInt)
  if toks.isEmpty then
    let r ← restToks
    if !r.isEmpty && !(← atK .ws) then
      pwarn "invalid-single-word-name" [Span.pos (← currentOffset)]
    return none
  return some ⟨toks, none, none⟩

def compBody : P α (Option Body) := do
  match ← compBodyLong with
  | some b => return some b
  | none => compBodyShort

def isModifierTok (k : TK) : Bool := k == .at || k == .question || k == .plus || k == .minus

/-- the `loop` of `modifiers` with a fuel that is the number of remaining tokens -/
def modifiersLoop (inter : Bool) : Nat → P α Unit
  | 0 => pure ()
  | fuel + 1 => do
    match ← peekK with
    | some k =>
      if isModifierTok k then
        let _ ← bumpAny
        modifiersLoop inter fuel
      else if k == .and then
        let _ ← bumpAny
        if inter then
          let _ ← withRecover (do
            match ← consumeK .openParen with
            | none => return none
            | some _ =>
              match ← untilK (fun k => k == .closeParen) with
              | none => return none
              | some _ =>
                let _ ← bump .closeParen
                return some ())
        modifiersLoop inter fuel
      else pure ()
    | none => pure ()

def modifiersP : P α (List Tok) := do
  if !(← hasExt Gen.EXT_COMPONENT_MODIFIERS) then return []
  let start ← getCur
  let inter ← hasExt Gen.EXT_INTERMEDIATE_PREPARATIONS
  let r ← restToks
  modifiersLoop inter (r.length + 1)
  let s ← get
  return (s.toks.take s.cur).drop start

def noteP : P α (Option Text) := withRecover do
  match ← consumeK .openParen with
  | none => return none
  | some _ =>
    let offset ← currentOffset
    match ← untilK (fun k => k == .closeParen) with
    | none => return none
    | some n =>
      let _ ← bump .closeParen
      let t ← bpText offset n
      return some t

/-- `parse_intermediate_ref_data`: `toks` are the modifier tokens after the `&`;
    returns the data and the remaining modifier tokens -/
def parseInterRef (toks : List Tok) : P α (Option (Loc InterData) × List Tok) := do
  match toks with
  | [] => return (none, toks)
  | t0 :: _ =>
    if t0.kind != .openParen then return (none, toks)
    match toks.findIdx? (fun t => t.kind == .closeParen) with
    | none =>
      panicWith "No closing paren in intermediate preparation reference"
      return (none, [])
    | some endPos =>
      let slice := toks.take (endPos + 1)
      let restM := toks.drop (endPos + 1)
      let inner := (slice.drop 1).take (slice.length - 2)
      let f := inner.filter (fun t => !(t.kind == .ws || t.kind == .blockComment))
      let sliceSpan := tokensSpan slice
      let ks := f.map (·.kind)
      let good : Option (Tok × Bool × Bool) :=
        match f with
        | [i] => if i.kind == .int then some (i, false, false) else none
        | [a, i] =>
          if a.kind == .tilde && i.kind == .int then some (i, true, false)
          else if a.kind == .eq && i.kind == .int then some (i, false, true) else none
        | [a, b, i] => if a.kind == .eq && b.kind == .tilde && i.kind == .int then some (i, true, true) else none
        | _ => none
      match good with
      | some (i, rel, sec) =>
        let n := digitsToNat i.text
        if n ≤ 32767 then return (some ⟨⟨rel, sec, n⟩, sliceSpan⟩, restM)
        else
          perr "int-parse" [⟨i.start, i.stop⟩]
          return (none, restM)
      | none =>
        if f.isEmpty then
          perr "inter-ref-empty" [sliceSpan]
        else if ks == [.tilde, .eq, .int] then
          perr "inter-ref-wrong-order" (f.take 2 |>.map (fun t => ⟨t.start, t.stop⟩))
        else
          let n := f.length
          let signed := n ≥ 2 && (f[n-1]?.map (·.kind)) == some .int &&
            ((f[n-2]?.map (·.kind)) == some .minus || (f[n-2]?.map (·.kind)) == some .plus)
          if signed then
            perr "inter-ref-sign" ((f[n-2]?.map (fun t => [(⟨t.start, t.stop⟩ : Span)])).getD [])
          else
            let sp ← tokensSpanP "inter-ref inner" inner
            perr "inter-ref-invalid" [sp]
        return (none, restM)

structure ParsedModifiers where
  flags : Loc Modifiers
  inter : Option (Loc InterData)

def modifierFlag (k : TK) : Option Nat :=
  if k == .at then some Modifiers.RECIPE else if k == .and then some Modifiers.REF
  else if k == .question then some Modifiers.OPT else if k == .plus then some Modifiers.NEW
  else if k == .minus then some Modifiers.HIDDEN else none

def parseModifiersLoop (span : Span) (interExt : Bool) :
    Nat → List Tok → Modifiers → Option (Loc InterData) → P α (Modifiers × Option (Loc InterData))
  | 0, _, m, d => pure (m, d)
  | _, [], m, d => pure (m, d)
  | fuel + 1, tok :: rest, m, d => do
    let mut rest := rest
    let mut d := d
    let flag ← (match modifierFlag tok.kind with
      | some f => pure f
      | none => do panicWith "Bad modifiers token sequence"; pure 0)
    if tok.kind == .and && interExt then
      let r ← parseInterRef rest
      d := r.1
      rest := r.2
    if flag ≠ 0 && m.contains flag then
      perr "duplicate-modifier" [span]
      parseModifiersLoop span interExt fuel rest m d
    else
      parseModifiersLoop span interExt fuel rest (m.insert flag) d

def parseModifiers (mtoks : List Tok) (pos : Nat) : P α ParsedModifiers := do
  if mtoks.isEmpty then return ⟨⟨Modifiers.empty, Span.pos pos⟩, none⟩
  let span := tokensSpan mtoks
  let interExt ← hasExt Gen.EXT_INTERMEDIATE_PREPARATIONS
  let r ← parseModifiersLoop span interExt (mtoks.length + 1) mtoks Modifiers.empty none
  return ⟨⟨r.1, span⟩, r.2⟩

def parseAlias (container : String) (tokens : List Tok) (nameOffset : Nat) : P α (Text × Option Text) := do
  let aliasExt ← hasExt Gen.EXT_COMPONENT_ALIAS
  let sepIdx := if aliasExt then tokens.findIdx? (fun t => t.kind == .or) else none
  match sepIdx with
  | none => return (← bpText nameOffset tokens, none)
  | some i =>
    let nameT := tokens.take i
    let sep := (tokens[i]?).getD dummyTok
    let aliasT := tokens.drop (i + 1)
    let aliasText ← bpText sep.stop aliasT
    let cs := (← get).cs
    let alias : Option Text ← (do
      if aliasT.any (fun t => t.kind == .or) then
        let bad : Span := ⟨sep.start, ((aliasT.getLast?).getD sep).stop⟩
        perr s!"multiple-aliases:{container}" [bad]
        return none
      else if aliasText.isTextEmpty cs then
        perr s!"empty-alias:{container}" [⟨sep.start, sep.stop⟩]
        return none
      else return some aliasText)
    return (← bpText nameOffset nameT, alias)

def checkEmptyName (container : String) (name : Text) : P α Unit := do
  if name.isTextEmpty (← get).cs then perr s!"empty-name:{container}" [name.span]

def ingredientP : P α (Option (Ev α)) := do
  let start ← currentOffset
  match ← consumeK .at with
  | none => return none
  | some _ =>
    let modPos ← currentOffset
    let mtoks ← modifiersP
    let nameOffset ← currentOffset
    match ← compBody with
    | none => return none
    | some body =>
      let note ← noteP
      let stop ← currentOffset
      let (name, alias) ← parseAlias "ingredient" body.name nameOffset
      checkEmptyName "ingredient" name
      let pm ← parseModifiers mtoks modPos
      let quantity ← (match body.quantity with
        | some qt => do let q ← parseQuantity qt; pure (some q.quantity)
        | none => pure none)
      return some (.ingredient ⟨⟨pm.flags, pm.inter, name, alias, quantity, note⟩, ⟨start, stop⟩⟩)

def cookwareP : P α (Option (Ev α)) := do
  let start ← currentOffset
  match ← consumeK .hash with
  | none => return none
  | some _ =>
    let modPos ← currentOffset
    let mtoks ← modifiersP
    let nameOffset ← currentOffset
    match ← compBody with
    | none => return none
    | some body =>
      let note ← noteP
      let stop ← currentOffset
      let (name, alias) ← parseAlias "cookware" body.name nameOffset
      checkEmptyName "cookware" name
      let quantity : Option (Loc (PQValue α)) ← (match body.quantity with
        | some qt => do
          let q ← parseQuantity qt
          match q.quantity.val.unit with
          | some unit =>
            let span : Span := match q.unitSep with
              | some sep => ⟨sep.start, unit.span.stop⟩
              | none => unit.span
            perr "cookware-unit" [span]
          | none => pure ()
          pure (some ⟨q.quantity.val.value, q.quantity.span⟩)
        | none => pure none)
      let pm ← parseModifiers mtoks modPos
      match pm.inter with
      | some d => perr "inter-ref-not-allowed:cookware" [d.span]
      | none => pure ()
      if pm.flags.val.contains Modifiers.RECIPE then
        match mtoks.find? (fun t => t.kind == .at) with
        | some t => perr "cookware-recipe-modifier" [⟨t.start, t.stop⟩]
        | none => panicWith "no recipe token in modifiers with recipe"
      return some (.cookware ⟨⟨pm.flags, name, alias, quantity, note⟩, ⟨start, stop⟩⟩)

def recoverPQuantity : Loc (PQuantity α) :=
  ⟨⟨⟨⟨recoverValue, ⟨0, 0⟩⟩, none⟩, none⟩, ⟨0, 0⟩⟩

/-- `check_note` for timers: only peeks, warns, always backtracks.  After the repair the
    second label is at the opening parenthesis. -/
def checkNoteTimer : P α Unit := do
  let _ ← withRecover (β := Unit) do
    match ← consumeK .openParen with
    | none => return none
    | some op =>
      match ← untilK (fun k => k == .closeParen) with
      | none => return none
      | some _ =>
        let cp ← bump .closeParen
        pwarn "note-not-allowed:timer" [⟨op.start, cp.stop⟩, Span.pos op.start]
        return none
  pure ()

def timerP : P α (Option (Ev α)) := do
  let start ← currentOffset
  match ← consumeK .tilde with
  | none => return none
  | some _ =>
    let mtoks ← modifiersP
    let nameOffset ← currentOffset
    match ← compBody with
    | none => return none
    | some body =>
      let stop ← currentOffset
      if !mtoks.isEmpty then perr "modifiers-not-allowed:timer" [tokensSpan mtoks]
      if ← hasExt Gen.EXT_COMPONENT_ALIAS then
        match body.name.findIdx? (fun t => t.kind == .or) with
        | some i =>
          let sep := (body.name[i]?).getD dummyTok
          perr "alias-not-allowed:timer" [⟨sep.start, ((body.name.getLast?).getD sep).stop⟩]
        | none => pure ()
      checkNoteTimer
      let name ← bpText nameOffset body.name
      let cs := (← get).cs
      let mut quantity : Option (Loc (PQuantity α)) ← (match body.quantity with
        | some qt => do
          let q ← parseQuantity qt
          if q.quantity.val.unit.isNone then
            perr "timer-missing-unit" [Span.pos q.quantity.val.value.value.span.stop]
          pure (some q.quantity)
        | none => pure none)
      if quantity.isNone && (← hasExt Gen.EXT_TIMER_REQUIRES_TIME) then
        let span := body.close.getD (Span.pos name.span.stop)
        perr "timer-missing-quantity" [span]
        quantity := some recoverPQuantity
      let nameO := if name.isTextEmpty cs then none else some name
      if nameO.isNone && quantity.isNone then
        let span : Span := match body.close with
          | some s => ⟨nameOffset, s.stop⟩
          | none => Span.pos nameOffset
        perr "timer-neither-name-nor-quantity" [span]
        quantity := some recoverPQuantity
      return some (.timer ⟨⟨nameO, quantity⟩, ⟨start, stop⟩⟩)

/-- one iteration of the `while` of `parse_step` -/
def stepOne : P α Unit := do
  let comp ← (do
    match ← peekK with
    | some .at => withRecover ingredientP
    | some .hash => withRecover cookwareP
    | some .tilde => withRecover timerP
    | _ => return none)
  match comp with
  | some ev => pushEv ev
  | none =>
    let start ← currentOffset
    let c0 ← getCur
    let _ ← bumpAny
    let _ ← consumeWhile (fun k => !isMarker k)
    let s ← get
    let toks := (s.toks.take s.cur).drop c0
    let text ← bpText start toks
    if !text.frags.isEmpty then pushEv (.text text)

def stepLoop : Nat → P α Unit
  | 0 => do
    if !(← restToks).isEmpty then panicWith "parse_step: fuel exhausted (non-termination)"
  | fuel + 1 => do
    if (← restToks).isEmpty then pure () else
    stepOne
    stepLoop fuel

def parseStep : P α Unit := do
  pushEv (.start .step)
  stepLoop ((← restToks).length)
  pushEv (.stop .step)

/-! ### Text block, section, metadata -/
def textBlockLoop : Nat → P α Unit
  | 0 => do
    if !(← restToks).isEmpty then panicWith "parse_text_block: fuel exhausted (non-termination)"
  | fuel + 1 => do
    if (← restToks).isEmpty then pure () else
    match ← consumeK .textStep with
    | some _ => let _ ← consumeK .ws
    | none => pure ()
    let start ← currentOffset
    let c0 ← getCur
    let _ ← consumeWhile (fun k => k != .newline)
    let _ ← consumeK .newline
    let s ← get
    let toks := (s.toks.take s.cur).drop c0
    let text ← bpText start toks
    if !text.isTextEmpty s.cs then pushEv (.text text)
    textBlockLoop fuel

def parseTextBlock : P α Unit := do
  pushEv (.start .text)
  textBlockLoop ((← restToks).length)
  pushEv (.stop .text)

def sectionP : P α (Option (Ev α)) := do
  match ← consumeK .eq with
  | none => return none
  | some _ =>
    let _ ← consumeWhile (fun k => k == .eq)
    let namePos ← currentOffset
    let nameT ← consumeWhile (fun k => k != .eq)
    let name ← bpText namePos nameT
    let _ ← consumeWhile (fun k => k == .eq)
    let _ ← wsComments
    let r ← restToks
    if !r.isEmpty then
      pwarn "section-invalid" [tokensSpan r]
      return none
    let cs := (← get).cs
    return some (.section (if name.isTextEmpty cs then none else some name))

def metadataEntry : P α (Option (Ev α)) := do
  match ← consumeK .metaStart with
  | none => return none
  | some _ =>
    let keyPos ← currentOffset
    match ← untilK (fun k => k == .colon) with
    | none =>
      pwarn "metadata-invalid" [← bpSpan]
      return none
    | some keyT =>
      let key ← bpText keyPos keyT
      let _ ← bump .colon
      let valPos ← currentOffset
      let valT ← consumeRest
      let value ← bpText valPos valT
      let cs := (← get).cs
      if key.isTextEmpty cs then perr "empty-metadata-key" [key.span]
      else if value.isTextEmpty cs then pwarn "empty-metadata-value" [value.span, key.span]
      return some (.metadata key value)

def isEmptyTok (k : TK) : Bool := k == .ws || k == .blockComment || k == .lineComment || k == .newline

def parseMultilineBlock : P α Unit := do
  let all ← allToks
  if all.all (fun t => isEmptyTok t.kind) then
    let _ ← consumeRest
  else if (← peekK) == some .textStep then parseTextBlock
  else parseStep

def isConfigKey (cs : CharSpec) (key : Text) : Bool :=
  let k := key.outerTrimmed cs
  k.head? == some '[' && k.getLast? == some ']'

def parseBlock (oldStyle : Bool) : P α Unit := do
  let r : Option (Ev α) ← (do
    match ← peekK with
    | some .metaStart => withRecover do
      match ← metadataEntry with
      | some (.metadata key value) =>
        let cs := (← get).cs
        let modes ← hasExt Gen.EXT_MODES
        if (isConfigKey cs key && modes) || oldStyle then return some (.metadata key value) else return none
      | _ => return none
    | some .eq => withRecover sectionP
    | _ => return none)
  match r with
  | some ev => pushEv ev
  | none => parseMultilineBlock

/-- `BlockParser::new` + `parse_block` + `finish` on one trimmed block -/
def runBlock (cs : CharSpec) (ext : Ext) (oldStyle : Bool) (block : List Tok)
    (evs : Array (Ev α)) (panic : Option String) : Array (Ev α) × Option String :=
  let s0 : BP α := ⟨block, 0, ext, cs, evs, panic⟩
  let ((), s) := (do
    if block.isEmpty then panicWith "BlockParser::new: empty tokens"
    parseBlock oldStyle
    let s ← get
    if s.cur ≠ s.toks.length then panicWith "Block tokens not parsed") s0
  (s.evs, s.panic)

end Cook
