import CookModel.Syntax.Blocks
/-
  Model of `build_ast` (src/ast.rs:29-73) and of the `Block` / `Item` types it fills
  (src/parser/mod.rs): the fold over parser events that builds the optional AST.

  The one panic site of the function — `panic!("Not text in text block: {i:?}")` when a `Text` block
  is closed while the item buffer holds a component (ast.rs:56) — is the value `panic := some _`.
  (The front-matter arm, which used to be a `todo!()`, pushes `Block::FrontMatter` since the repair.)

  ADDED BY THE AUDIT OF C03/C04.  Tied to the code by the driver operation `ast` (Driver/Tie.lean):
  harness/src/props/c04.rs (`ast_case`, run on every input of C04 and C03) compares the rendering of
  `buildAstOfInput` with that of `cooklang::ast::build_ast(PullParser::new(input, ext))`.
-/
namespace Cook

/-- `parser::Item` -/
inductive AstItem (α : Type) where
  | text (t : Text)
  | ingredient (i : Loc (PIngredient α))
  | cookware (c : Loc (PCookware α))
  | timer (t : Loc (PTimer α))
deriving Repr, Inhabited

/-- `parser::Block` -/
inductive AstBlock (α : Type) where
  | frontMatter (yaml : Text)
  | metadata (key value : Text)
  | «section» (name : Option Text)
  | step (items : List (AstItem α))
  | textBlock (texts : List Text)
deriving Repr, Inhabited

/-- the locals of `build_ast`: `blocks`, `items`, `ctx` (the report), and the panic flag -/
structure AstState (α : Type) where
  blocks : List (AstBlock α) := []
  items : List (AstItem α) := []
  diags : List Diag := []
  panic : Option String := none

variable {α : Type}

/-- the `.map(|i| if let Item::Text(t) = i { t } else { panic!(..) }).collect()` of the `Text` arm;
    `none` = the `panic!` -/
def astTexts : List (AstItem α) → Option (List Text)
  | [] => some []
  | .text t :: rest =>
    match astTexts rest with
    | some ts => some (t :: ts)
    | none => none
  | _ :: _ => none

/-- one iteration of `for event in events` -/
def astStep (s : AstState α) (ev : Ev α) : AstState α :=
  match ev with
  | .frontMatter yaml => { s with blocks := s.blocks ++ [.frontMatter yaml] }
  | .metadata k v => { s with blocks := s.blocks ++ [.metadata k v] }
  | .«section» n => { s with blocks := s.blocks ++ [.«section» n] }
  | .start _ => { s with items := [] }
  | .stop .step =>
    if s.items.isEmpty then s else { s with blocks := s.blocks ++ [.step s.items], items := [] }
  | .stop .text =>
    match astTexts s.items with
    | some ts => { s with blocks := s.blocks ++ [.textBlock ts], items := [] }
    | none => { s with items := [], panic := match s.panic with
                                             | some p => some p
                                             | none => some "Not text in text block" }
  | .text t => { s with items := s.items ++ [.text t] }
  | .ingredient i => { s with items := s.items ++ [.ingredient i] }
  | .cookware c => { s with items := s.items ++ [.cookware c] }
  | .timer t => { s with items := s.items ++ [.timer t] }
  | .error d => { s with diags := s.diags ++ [d] }
  | .warning d => { s with diags := s.diags ++ [d] }

/-- `build_ast(events)`: the blocks are the `Ast`, `diags` the report of the `PassResult` -/
def buildAst (evs : List (Ev α)) : AstState α := evs.foldl astStep {}

/-- `build_ast(PullParser::new(input, extensions))`; a panic of the pull parser is reported too -/
def buildAstOfInput [Arith α] (cs : CharSpec) (ext : Ext) (input : List Char) : AstState α :=
  let pe := pullEvents (α := α) cs ext input
  let r := buildAst pe.1.toList
  { r with panic := match pe.2 with
                    | some p => some p
                    | none => r.panic }

end Cook
