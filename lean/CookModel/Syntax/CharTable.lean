import CookModel.Syntax.Lexer
import CookModel.Gen.CharTable
/- Character classes of the real code (generated table) as a `CharSpec` and std predicates. -/
namespace Cook

def parseRange (s : String) : Option (Nat × Nat × Nat) :=
  match s.splitOn "," with
  | [a, b, c] => do
    let a ← a.toNat?; let b ← b.toNat?; let c ← c.toNat?
    return (a, b, c)
  | _ => none

/-- the generated table (a Lean literal the kernel can evaluate; `Lemmas/TableFacts.lean` proves facts about it).
    `irreducible`: the elaborator must not try to evaluate the ~2000-entry literal (e.g. its `size`) when it
    unfolds `classBitsAux`; the kernel and the compiled driver are not affected by the attribute. -/
@[irreducible] def charRanges : Array (Nat × Nat × Nat) := Gen.charRangesList.toArray

/-- binary search in the generated range table -/
def classBitsAux (cp : Nat) (lo hi : Nat) (fuel : Nat) : Nat :=
  match fuel with
  | 0 => 0
  | fuel + 1 =>
    if lo ≥ hi then 0 else
    let mid := (lo + hi) / 2
    match charRanges[mid]? with
    | none => 0
    | some (a, b, bits) =>
      if cp < a then classBitsAux cp lo mid fuel
      else if cp > b then classBitsAux cp (mid + 1) hi fuel
      else bits

def classBits (c : Char) : Nat := classBitsAux c.toNat 0 charRanges.size 64

def realCharSpec : CharSpec where
  ws c := classBits c &&& 1 != 0
  punct c := classBits c &&& 2 != 0
  wordChar c := classBits c &&& 4 != 0
  uws c := classBits c &&& 8 != 0
  alnum c := classBits c &&& 16 != 0

/-- `char::is_whitespace` (Unicode White_Space), as `str::trim` uses -/
def uniWs (c : Char) : Bool := classBits c &&& 8 != 0
/-- `char::is_alphanumeric` -/
def uniAlnum (c : Char) : Bool := classBits c &&& 16 != 0

end Cook

namespace Cook

def parseCps (s : String) : List Char :=
  if s.isEmpty then [] else (s.splitOn ".").filterMap (fun p => p.toNat?.map Char.ofNat)

/-- unicase folding table (generated), as an association array sorted by code point -/
@[irreducible] def foldTable : Array (Nat × List Char) :=
  (Gen.foldList.map (fun e => (e.1, e.2.map Char.ofNat))).toArray

def foldLookupAux (cp lo hi fuel : Nat) : Option (List Char) :=
  match fuel with
  | 0 => none
  | fuel + 1 =>
    if lo ≥ hi then none else
    let mid := (lo + hi) / 2
    match foldTable[mid]? with
    | none => none
    | some (k, v) =>
      if cp < k then foldLookupAux cp lo mid fuel
      else if cp > k then foldLookupAux cp (mid + 1) hi fuel
      else some v

def realFold (c : Char) : List Char := (foldLookupAux c.toNat 0 foldTable.size 64).getD [c]

/-- keys of the bundled converter -/
def unitKeyTable : List (List Char × Nat) :=
  Gen.unitKeysList.map (fun e => (e.1.map Char.ofNat, e.2))

def bundledFindUnit (k : List Char) : Option Nat := (unitKeyTable.find? (fun p => p.1 == k)).map (·.2)

end Cook
