import CookModel.Syntax.Lexer
import CookModel.Gen.CharTable
/- Character classes of the real code (generated table) as a `CharSpec` and std predicates. -/
namespace Cook

def parseRange (s : String) : Option (Nat × Nat × Nat) :=
  match s.splitOn "," with
  | [a, b, c] => do
    let a ← a.toNat?; let b ← b.toNat?; let c ← c.toNat?
    return (a, b, c)
  | _ => none

/-- the generated table, decoded once -/
def charRanges : Array (Nat × Nat × Nat) :=
  ((Gen.charRangesStr.splitOn ";").filterMap parseRange).toArray

/-- binary search in the generated range table -/
def classBitsAux (cp : Nat) (lo hi : Nat) (fuel : Nat) : Nat :=
  match fuel with
  | 0 => 0
  | fuel + 1 =>
    if lo ≥ hi then 0 else
    let mid := (lo + hi) / 2
    match charRanges[mid]? with
    | none => 0
    | some (a, b, bits) =>
      if cp < a then classBitsAux cp lo mid fuel
      else if cp > b then classBitsAux cp (mid + 1) hi fuel
      else bits

def classBits (c : Char) : Nat := classBitsAux c.toNat 0 charRanges.size 64

def realCharSpec : CharSpec where
  ws c := classBits c &&& 1 != 0
  punct c := classBits c &&& 2 != 0
  wordChar c := classBits c &&& 4 != 0
  uws c := classBits c &&& 8 != 0
  alnum c := classBits c &&& 16 != 0

/-- `char::is_whitespace` (Unicode White_Space), as `str::trim` uses -/
def uniWs (c : Char) : Bool := classBits c &&& 8 != 0
/-- `char::is_alphanumeric` -/
def uniAlnum (c : Char) : Bool := classBits c &&& 16 != 0

end Cook
