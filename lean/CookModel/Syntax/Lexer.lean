/-
  Model of the lexer (src/lexer/mod.rs, src/lexer/cursor.rs) and of `TokenStream`
  (src/parser/token_stream.rs).

  Input text is `List Char`.  A token carries its kind, its text (the characters it covers)
  and its start byte offset; its end is `start + utf8 length of the text`, as in `Span`.
  Character classes that come from Unicode tables (`finl_unicode`, `std`) are a parameter
  `CharSpec`; the driver instantiates it with the table generated from the real lexer.
-/
namespace Cook

inductive TK where
  | metaStart | textStep | colon | at | hash | tilde | question | plus | minus | slash | star
  | and | or | eq | percent | openBrace | closeBrace | openParen | closeParen | dot
  | int | zeroInt | punct | word | escaped | ws | newline | lineComment | blockComment
deriving Repr, DecidableEq, Inhabited

def TK.name : TK → String
  | .metaStart => "MetadataStart" | .textStep => "TextStep" | .colon => "Colon" | .at => "At"
  | .hash => "Hash" | .tilde => "Tilde" | .question => "Question" | .plus => "Plus"
  | .minus => "Minus" | .slash => "Slash" | .star => "Star" | .and => "And" | .or => "Or"
  | .eq => "Eq" | .percent => "Percent" | .openBrace => "OpenBrace" | .closeBrace => "CloseBrace"
  | .openParen => "OpenParen" | .closeParen => "CloseParen" | .dot => "Dot" | .int => "Int"
  | .zeroInt => "ZeroInt" | .punct => "Punctuation" | .word => "Word" | .escaped => "Escaped"
  | .ws => "Whitespace" | .newline => "Newline" | .lineComment => "LineComment"
  | .blockComment => "BlockComment"

/-- Unicode-table driven predicates of the lexer. -/
structure CharSpec where
  /-- `is_whitespace`: category Zs or `\t` -/
  ws : Char → Bool
  /-- `char::is_punctuation` (finl_unicode) -/
  punct : Char → Bool
  /-- `is_word_char` -/
  wordChar : Char → Bool
  /-- `char::is_whitespace` (Unicode White_Space; what `str::trim` removes) -/
  uws : Char → Bool
  /-- `char::is_alphanumeric` -/
  alnum : Char → Bool

def utf8Len (s : List Char) : Nat := (s.map (fun c => c.utf8Size)).sum

structure Tok where
  kind : TK
  text : List Char
  start : Nat
deriving Repr, DecidableEq, Inhabited

def Tok.stop (t : Tok) : Nat := t.start + utf8Len t.text

def isAsciiDigit (c : Char) : Bool := '0' ≤ c && c ≤ '9'

/-- number of characters eaten by `block_comment` after the `[-` -/
def blockScan : List Char → Nat
  | [] => 0
  | '-' :: ']' :: _ => 2
  | _ :: t => 1 + blockScan t

theorem blockScan_le (s : List Char) : blockScan s ≤ s.length := by
  fun_induction blockScan s <;> simp <;> omega

/-- single-character tokens of the `match` in `advance_token` -/
def singleKind (c : Char) : Option TK :=
  if c = ':' then some .colon else if c = '@' then some .at else if c = '#' then some .hash
  else if c = '~' then some .tilde else if c = '?' then some .question else if c = '+' then some .plus
  else if c = '/' then some .slash else if c = '*' then some .star else if c = '&' then some .and
  else if c = '|' then some .or else if c = '%' then some .percent else if c = '=' then some .eq
  else if c = '{' then some .openBrace else if c = '}' then some .closeBrace
  else if c = '(' then some .openParen else if c = ')' then some .closeParen
  else if c = '.' then some .dot else none

/-- `advance_token` after the first character `c` was bumped: the token kind and how many
    further characters of `rest` it consumes. -/
def lexOne (cs : CharSpec) (c : Char) (rest : List Char) : TK × Nat :=
  if c = '\\' then (.escaped, if rest.isEmpty then 0 else 1)
  else if c = '>' then (if rest.head? = some '>' then (.metaStart, 1) else (.textStep, 0))
  else if c = '-' then
    (if rest.head? = some '-' then (.lineComment, (rest.takeWhile (· ≠ '\n')).length) else (.minus, 0))
  else if c = '[' ∧ rest.head? = some '-' then (.blockComment, 1 + blockScan rest.tail)
  else if c = '\n' then (.newline, 0)
  else if c = '\r' ∧ rest.head? = some '\n' then (.newline, 1)
  else if isAsciiDigit c then
    let n := (rest.takeWhile isAsciiDigit).length
    (if c = '0' ∧ n > 0 then .zeroInt else .int, n)
  else match singleKind c with
  | some k => (k, 0)
  | none =>
    if cs.ws c then (.ws, (rest.takeWhile cs.ws).length)
    else if cs.punct c then (.punct, 0)
    else (.word, (rest.takeWhile cs.wordChar).length)

theorem lexOne_le (cs : CharSpec) (c : Char) (rest : List Char) : (lexOne cs c rest).2 ≤ rest.length := by
  unfold lexOne
  have tw : ∀ (p : Char → Bool), (rest.takeWhile p).length ≤ rest.length :=
    fun p => (List.takeWhile_sublist p).length_le
  have bs := blockScan_le rest.tail
  repeat' split
  all_goals first
    | exact Nat.zero_le _
    | exact tw _
    | (cases rest <;> simp_all <;> omega)

/-- The token stream of `s` starting at byte offset `off` (`TokenStream` with `offset`). -/
def lexFrom (cs : CharSpec) (off : Nat) : List Char → List Tok
  | [] => []
  | c :: rest =>
    let r := lexOne cs c rest
    let text := c :: rest.take r.2
    ⟨r.1, text, off⟩ :: lexFrom cs (off + utf8Len text) (rest.drop r.2)
termination_by s => s.length
decreasing_by simp; omega

def lex (cs : CharSpec) (s : List Char) : List Tok := lexFrom cs 0 s

end Cook
