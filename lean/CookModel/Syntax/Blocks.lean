import CookModel.Syntax.Parser
/-
  Model of `PullParser` (src/parser/mod.rs): front matter split (src/parser/frontmatter.rs),
  block splitting (`pull_line`, `next_block`), the metadata-only scanner (`next_metadata_block`).
-/
namespace Cook

variable {α : Type} [Arith α]

/-! ### Front matter -/

/-- `split_inclusive('\n')` -/
def splitInclusive : List Char → List (List Char)
  | [] => []
  | s =>
    let line := s.takeWhile (· ≠ '\n')
    let rest := s.dropWhile (· ≠ '\n')
    match rest with
    | [] => [line]
    | nl :: rest' => (line ++ [nl]) :: splitInclusive rest'
termination_by s => s.length
decreasing_by
  have h1 : (List.dropWhile (fun x => x ≠ '\n') s).length ≤ s.length :=
    (List.dropWhile_sublist _).length_le
  simp_all; omega

def isFence (cs : CharSpec) (line : List Char) : Bool := trimEnd cs.uws line == ['-', '-', '-']

/-- lines with their byte offsets -/
def linesWithOffset (lines : List (List Char)) (off : Nat) : List (List Char × Nat) :=
  match lines with
  | [] => []
  | l :: ls => (l, off) :: linesWithOffset ls (off + utf8Len l)

structure FrontMatter where
  yamlText : List Char
  yamlOffset : Nat
  cookText : List Char
  cookOffset : Nat
deriving Repr

/-- After the repair (fix: front matter only at the top): a fence opens the front matter
    only if every line before it is blank. -/
def parseFrontmatter (cs : CharSpec) (s : List Char) : Option FrontMatter :=
  let ls := linesWithOffset (splitInclusive s) 0
  let before := ls.takeWhile (fun l => !isFence cs l.1)
  let rest := ls.dropWhile (fun l => !isFence cs l.1)
  match rest with
  | [] => none
  | f1 :: rest1 =>
    if !(before.all (fun l => (trim cs.uws l.1).isEmpty)) then none else
    let yamlLines := rest1.takeWhile (fun l => !isFence cs l.1)
    match rest1.dropWhile (fun l => !isFence cs l.1) with
    | [] => none
    | f2 :: rest2 =>
      some ⟨yamlLines.flatMap (·.1), f1.2 + utf8Len f1.1,
            rest2.flatMap (·.1), f2.2 + utf8Len f2.1⟩

/-! ### Block splitting -/

def isSingleLineMarker (t : Option Tok) : Bool :=
  match t with
  | some t => t.kind == .metaStart || t.kind == .eq
  | none => false

structure LineInfo where
  toks : List Tok        -- the tokens of the line, newline included
  isEmpty : Bool
  isSingleLine : Bool

/-- `pull_line`: the tokens up to and including the first newline token -/
def pullLine (ts : List Tok) : Option (LineInfo × List Tok) :=
  match ts with
  | [] => none
  | t0 :: _ =>
    let body := ts.takeWhile (fun t => t.kind != .newline)
    let rest := ts.dropWhile (fun t => t.kind != .newline)
    let (line, rest) := match rest with
      | nl :: rest' => (body ++ [nl], rest')
      | [] => (body, [])
    some (⟨line, line.all (fun t => isEmptyTok t.kind), isSingleLineMarker (some t0)⟩, rest)

theorem pullLine_shorter (ts : List Tok) (li : LineInfo) (rest : List Tok)
    (h : pullLine ts = some (li, rest)) : rest.length < ts.length := by
  unfold pullLine at h
  cases ts with
  | nil => simp at h
  | cons t0 tl =>
    simp only at h
    have hd : ((t0 :: tl).dropWhile (fun t => t.kind != .newline)).length ≤ (t0 :: tl).length :=
      (List.dropWhile_sublist _).length_le
    split at h
    · rename_i nl rest' heq
      simp only [Option.some.injEq, Prod.mk.injEq] at h
      rw [← h.2]; rw [heq] at hd; simp at hd ⊢; omega
    · simp only [Option.some.injEq, Prod.mk.injEq] at h
      rw [← h.2]; simp

/-- skip empty lines; returns the first non-empty line and what follows -/
def skipEmptyLines : (fuel : Nat) → List Tok → Option (LineInfo × List Tok)
  | 0, _ => none
  | fuel + 1, ts =>
    match pullLine ts with
    | none => none
    | some (li, rest) => if li.isEmpty then skipEmptyLines fuel rest else some (li, rest)

/-- the continuation lines of a multi-line block: stops before a single-line marker, at an empty
    line (whose tokens are consumed and dropped) or at the end of input -/
def moreLines : (fuel : Nat) → List Tok → List Tok × List Tok
  | 0, ts => ([], ts)
  | fuel + 1, ts =>
    if isSingleLineMarker ts.head? then ([], ts) else
    match pullLine ts with
    | none => ([], ts)
    | some (li, rest) =>
      if li.isEmpty then ([], rest) else
      let r := moreLines fuel rest
      (li.toks ++ r.1, r.2)

def trimTrailingNewlines (ts : List Tok) : List Tok :=
  (ts.reverse.dropWhile (fun t => t.kind == .newline)).reverse

/-- `next_block`: the trimmed token block and the remaining token stream -/
def nextBlock (ts : List Tok) : Option (List Tok × List Tok) :=
  match skipEmptyLines (ts.length + 1) ts with
  | none => none
  | some (li, rest) =>
    let (more, rest') := if li.isSingleLine then ([], rest) else moreLines (rest.length + 1) rest
    let block := trimTrailingNewlines (li.toks ++ more)
    if block.isEmpty then none else some (block, rest')

/-- all blocks of a token stream -/
def allBlocks : (fuel : Nat) → List Tok → List (List Tok)
  | 0, _ => []
  | fuel + 1, ts =>
    match nextBlock ts with
    | none => []
    | some (b, rest) => b :: allBlocks fuel rest

/-- `PullParser` run to completion: all events, and the panic flag -/
def pullEvents (cs : CharSpec) (ext : Ext) (input : List Char) : Array (Ev α) × Option String :=
  let (toks, evs0, oldStyle) : List Tok × Array (Ev α) × Bool :=
    match parseFrontmatter cs input with
    | some fm => (lexFrom cs fm.cookOffset fm.cookText, #[.frontMatter (Text.fromStr fm.yamlText fm.yamlOffset)], false)
    | none => (lex cs input, #[], true)
  (allBlocks (toks.length + 1) toks).foldl
    (fun acc b => runBlock cs ext oldStyle b acc.1 acc.2) (evs0, none)

/-! ### Metadata-only scanner (`next_metadata_block`) -/

/-- skip tokens until a `>>` that follows a newline (or the start); returns the stream from the `>>` -/
def seekMeta : (last : TK) → List Tok → Option (List Tok)
  | _, [] => none
  | last, t :: rest =>
    if last == .newline && t.kind == .metaStart then some (t :: rest) else seekMeta t.kind rest

/-- the `>>` line blocks found by the metadata-only scanner -/
def metaBlocks : (fuel : Nat) → (last : TK) → List Tok → List (List Tok)
  | 0, _, _ => []
  | fuel + 1, last, ts =>
    match seekMeta last ts with
    | none => []
    | some ts' =>
      let line := ts'.takeWhile (fun t => t.kind != .newline)
      let rest := (ts'.dropWhile (fun t => t.kind != .newline)).drop 1
      line :: metaBlocks fuel .newline rest

/-- `BlockParser::new` + `metadata_entry` on one `>>` line; `finish` only when an entry was parsed -/
def runMetaBlock (cs : CharSpec) (ext : Ext) (block : List Tok)
    (evs : Array (Ev α)) (panic : Option String) : Array (Ev α) × Option String :=
  let s0 : BP α := ⟨block, 0, ext, cs, evs, panic⟩
  let ((), s) := (do
    if block.isEmpty then panicWith "BlockParser::new: empty tokens"
    match ← metadataEntry with
    | some ev =>
      pushEv ev
      let s ← get
      if s.cur ≠ s.toks.length then panicWith "Block tokens not parsed"
    | none => pure ()) s0
  (s.evs, s.panic)

/-- `into_meta_iter` run to completion -/
def pullMetaEvents (cs : CharSpec) (ext : Ext) (input : List Char) : Array (Ev α) × Option String :=
  match parseFrontmatter cs input with
  | some fm => (#[.frontMatter (Text.fromStr fm.yamlText fm.yamlOffset)], none)
  | none =>
    let toks := lex cs input
    (metaBlocks (toks.length + 1) .newline toks).foldl
      (fun acc b => runMetaBlock cs ext b acc.1 acc.2) (#[], none)

end Cook
