/- Helpers for the line protocol of the driver. -/
namespace Cook.Proto

def parseNat? (s : String) : Option Nat := s.toNat?
def parseInt? (s : String) : Option Int := s.toInt?

def parseBits? (s : String) : Option Float := (s.toNat?).map (fun n => Float.ofBits (UInt64.ofNat n))

/-- text argument: comma separated decimal code points, `-` for the empty text -/
def parseText? (s : String) : Option (List Char) :=
  if s = "-" then some [] else
  (s.splitOn ",").mapM (fun p => p.toNat?.map Char.ofNat)

def renderText (cs : List Char) : String :=
  if cs.isEmpty then "-" else ",".intercalate (cs.map (fun c => toString c.toNat))

end Cook.Proto
