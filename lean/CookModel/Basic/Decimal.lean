/-
  Correctly rounded decimal → binary64 conversion (what `str::parse::<f64>` does), with exact
  natural-number arithmetic, so that the Float instance of the model reads numeric literals
  exactly as Rust does.  Value = m / 10^e  (m, e naturals).
-/
namespace Cook

/-- number of bits of `n` (0 for 0) -/
def bitLen (n : Nat) : Nat := if n = 0 then 0 else Nat.log2 n + 1

/-- round-half-even of num/den (den > 0) -/
def divRoundEven (num den : Nat) : Nat :=
  let q := num / den
  let r := num % den
  if 2 * r < den then q else if 2 * r > den then q + 1 else if q % 2 = 0 then q else q + 1

/-- bits of the f64 nearest to `num/den` (round half to even); `den > 0`. -/
def ratToF64Bits (num den : Nat) : UInt64 :=
  if num = 0 then 0 else
  -- estimate e2 with 2^e2 ≤ num/den < 2^(e2+1)
  let est : Int := (bitLen num : Int) - (bitLen den : Int)
  -- adjust estimate: value ≥ 2^est ?
  let ge (k : Int) : Bool := if k ≥ 0 then num ≥ den * 2 ^ k.toNat else num * 2 ^ (-k).toNat ≥ den
  let e2 : Int := if ge est then est else est - 1
  -- normal numbers: mantissa has 53 bits: m = round(value / 2^(e2-52)); subnormal: exponent fixed at -1074
  let sh : Int := if e2 < -1022 then -1074 else e2 - 52
  let m := if sh ≥ 0 then divRoundEven num (den * 2 ^ sh.toNat) else divRoundEven (num * 2 ^ (-sh).toNat) den
  -- m may have become 2^53 after rounding
  let (m, sh) := if m = 2 ^ 53 then (2 ^ 52, sh + 1) else (m, sh)
  if m < 2 ^ 52 then UInt64.ofNat m            -- subnormal (or zero): biased exponent 0
  else
    let biased : Int := sh + 52 + 1023
    if biased ≥ 2047 then 0x7FF0000000000000   -- overflow → +inf
    else UInt64.ofNat (biased.toNat * 2 ^ 52 + (m - 2 ^ 52))

/-- f64 bits of the decimal literal `m / 10^e` -/
def decToF64Bits (m e : Nat) : UInt64 := ratToF64Bits m (10 ^ e)

end Cook
