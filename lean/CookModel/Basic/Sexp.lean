import CookModel.Basic.Proto
/-
  S-expressions of the line protocol.  A request line is already split at spaces; parentheses
  are tokens of their own:  `( sec none ( ( text 97,98 ) ) )`.
-/
namespace Cook

inductive Sexp where
  | atom (s : String)
  | list (xs : List Sexp)
deriving Repr, Inhabited

namespace Sexp

/-- `stack`: the innermost open list first, each reversed -/
def parseToks : List String → List (List Sexp) → Option (List Sexp)
  | [], [top] => some top.reverse
  | [], _ => none
  | tok :: rest, stack =>
    if tok = "(" then parseToks rest ([] :: stack)
    else if tok = ")" then
      match stack with
      | cur :: parent :: st => parseToks rest ((.list cur.reverse :: parent) :: st)
      | _ => none
    else
      match stack with
      | cur :: st => parseToks rest ((.atom tok :: cur) :: st)
      | [] => none

/-- all top-level S-expressions of a token list -/
def parseAll (toks : List String) : Option (List Sexp) := parseToks toks [[]]

def nat? : Sexp → Option Nat
  | .atom s => s.toNat?
  | _ => none

def text? : Sexp → Option (List Char)
  | .atom s => Proto.parseText? s
  | _ => none

def bits? : Sexp → Option Float
  | .atom s => Proto.parseBits? s
  | _ => none

def bool? : Sexp → Option Bool
  | .atom "true" => some true
  | .atom "false" => some false
  | _ => none

/-- `none` | `( some X )` -/
def opt? {β} (f : Sexp → Option β) : Sexp → Option (Option β)
  | .atom "none" => some none
  | .list [.atom "some", x] => (f x).map some
  | _ => none

def listOf? {β} (f : Sexp → Option β) : Sexp → Option (List β)
  | .list xs => xs.mapM f
  | _ => none

end Sexp
end Cook
