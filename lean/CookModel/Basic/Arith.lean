import CookModel.Basic.Decimal
/-
  Arithmetic interface of the numeric model.

  Every numeric definition of the model is written once over `Arith α` and used at
  two instances:
    * `Rat`   : exact arithmetic; the theorems are stated and proved here.
    * `Float` : IEEE-754 binary64; the driver runs this instance and its results
                are compared bit for bit with the f64 results of the Rust code.
  Constants are `Const`s: an exact rational together with the f64 bit pattern the
  Rust compiler gives the same literal (generated, see Gen/Consts.lean).
-/
namespace Cook

/-- A numeric literal of the source: exact value and f64 bit pattern. -/
structure Const where
  rat  : Rat
  bits : UInt64

class Arith (α : Type) where
  add : α → α → α
  sub : α → α → α
  mul : α → α → α
  div : α → α → α
  neg : α → α
  /-- `a < b` as Rust's `<` on f64 (false if unordered). -/
  lt : α → α → Bool
  le : α → α → Bool
  /-- `==` -/
  eq : α → α → Bool
  ofNat : Nat → α
  ofInt : Int → α
  const : Const → α
  /-- the decimal literal `m / 10^e`, as `str::parse::<f64>` reads it (correctly rounded) -/
  ofDecimal : Nat → Nat → α
  /-- Rust `f64::trunc` -/
  trunc : α → α
  /-- Rust `f64::round` (half away from zero) -/
  round : α → α
  abs : α → α
  isFinite : α → Bool
  /-- Rust `x as u32` (saturating, NaN ↦ 0) -/
  toU32 : α → Nat
  /-- Rust `x as i16` (saturating, NaN ↦ 0) -/
  toI16 : α → Int
  /-- canonical rendering for the line protocol -/
  render : α → String

namespace Arith
variable {α : Type} [Arith α]
instance : Add α := ⟨Arith.add⟩
instance : Sub α := ⟨Arith.sub⟩
instance : Mul α := ⟨Arith.mul⟩
instance : Div α := ⟨Arith.div⟩
instance : Neg α := ⟨Arith.neg⟩
/-- Rust `f64::fract` = `x - x.trunc()` -/
def fract (x : α) : α := x - Arith.trunc x
def gt (a b : α) : Bool := Arith.lt b a
def ge (a b : α) : Bool := Arith.le b a
def zero : α := Arith.ofNat 0
def one : α := Arith.ofNat 1
end Arith

def u32Max : Nat := 4294967295

/-- Rational `trunc` (toward zero). -/
def ratTrunc (x : Rat) : Int := if 0 ≤ x then x.floor else -((-x).floor)

/-- Rational round half away from zero. -/
def ratRound (x : Rat) : Int :=
  if 0 ≤ x then (x + 1/2).floor else -((-x + 1/2).floor)

def clampInt (lo hi : Int) (x : Int) : Int := if x < lo then lo else if hi < x then hi else x

def ratRender (x : Rat) : String := s!"{x.num}/{x.den}"

instance : Arith Rat where
  add := (· + ·)
  sub := (· - ·)
  mul := (· * ·)
  div := (· / ·)
  neg := (- ·)
  lt a b := decide (a < b)
  le a b := decide (a ≤ b)
  eq a b := decide (a = b)
  ofNat n := (n : Rat)
  ofInt n := (n : Rat)
  const c := c.rat
  ofDecimal m e := (m : Rat) / ((10 ^ e : Nat) : Rat)
  trunc x := (ratTrunc x : Rat)
  round x := (ratRound x : Rat)
  abs x := if 0 ≤ x then x else -x
  isFinite _ := true
  toU32 x := (clampInt 0 u32Max (ratTrunc x)).toNat
  toI16 x := clampInt (-32768) 32767 (ratTrunc x)
  render := ratRender

def floatTrunc (x : Float) : Float := if x < 0 then x.ceil else x.floor

instance : Arith Float where
  add := (· + ·)
  sub := (· - ·)
  mul := (· * ·)
  div := (· / ·)
  neg := (- ·)
  lt a b := decide (a < b)
  le a b := decide (a ≤ b)
  eq a b := a == b
  ofNat n := Float.ofNat n
  ofInt n := Float.ofInt n
  const c := Float.ofBits c.bits
  ofDecimal m e := Float.ofBits (decToF64Bits m e)
  trunc := floatTrunc
  round := Float.round
  abs := Float.abs
  isFinite := Float.isFinite
  toU32 x := x.toUInt32.toNat
  toI16 x := x.toInt16.toInt
  render x := toString x.toBits

end Cook
