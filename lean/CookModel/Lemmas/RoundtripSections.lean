import CookModel.Lemmas.RoundtripAnalysis
/-
  C01, analysis layer with sections and `>>` metadata: the event list of a document made of steps
  (simple items), section lines and plain metadata entries is folded by `parse_events` into the
  intended sections (names, step numbers restarting at 1, component indices running on), tables and
  metadata map; the only diagnostic is the `>>` deprecation notice.  (`rts_` prefix.)
-/
set_option linter.unusedSectionVars false
set_option linter.unusedSimpArgs false
set_option linter.unusedVariables false
namespace Cook

variable {α : Type} [Arith α]

/-! ### items under ADVANCED_UNITS and INLINE_QUANTITIES -/

/-- a timer that raises nothing under ADVANCED_UNITS: a numeric amount, and a unit the converter knows
    as a unit of time (vacuous when the extension is off) -/
def TimerAdvOK (env : Env) (lt : Loc (PTimer α)) : Prop :=
  env.ext.has Gen.EXT_ADVANCED_UNITS = true → ∀ q, lt.val.quantity = some q →
    q.val.value.value.val.isText = false ∧
    ∀ u, q.val.unit = some u → env.findUnit (u.trimmed env.cs) = some env.timeQ

/-- a step text that INLINE_QUANTITIES leaves in one piece: `find_inline_quantity` finds nothing in it
    (vacuous when the extension is off) -/
def TextInlOK (env : Env) (t : Text) : Prop :=
  env.ext.has Gen.EXT_INLINE_QUANTITIES = true →
    t.text ≠ [] ∧ findInlineQuantity (α := α) env (t.text.length + 1) [] t.text = none

/-- the side conditions of an item, for every extension set -/
def SItem.SimpleX (env : Env) : SItem α → Prop
  | .text t => TextInlOK (α := α) env t
  | .ingredient i => IngrSimple i
  | .cookware c => CwSimple c
  | .timer t => TimerSimple t ∧ TimerAdvOK env t

/-- closed form: a text without ASCII digit has no inline quantity -/
theorem rts_no_digit_no_inline (env : Env) (fuel : Nat) (pre txt : Str) (h : txt.all (fun c => !isAsciiDigitC c) = true) :
    findInlineQuantity (α := α) env fuel pre txt = none := by
  cases fuel with
  | zero => rfl
  | succ f =>
    unfold findInlineQuantity
    have : txt.dropWhile (fun c => !isAsciiDigitC c) = [] := by
      clear pre f
      induction txt with
      | nil => rfl
      | cons c r ih =>
        simp only [List.all_cons, Bool.and_eq_true] at h
        simp only [List.dropWhile_cons, h.1, if_true]
        exact ih h.2
    simp only [this]

theorem rts_proc_timer (env : Env) (input : Str) (lt : Loc (PTimer α)) (s : Col α) (items : List Item)
    (h : TimerSimple lt) (hadv : TimerAdvOK env lt) (hb : s.block = some (.step items)) :
    (processEvent env input (.timer lt) s).2 =
      { s with timers := s.timers.push (timerOf env lt),
               block := some (.step (items ++ [.timer s.timers.size])) } := by
  by_cases hext : env.ext.has Gen.EXT_ADVANCED_UNITS = true
  · have e : processEvent env input (.timer lt) s = inBlockComponent env input (.timer lt) s := rfl
    rw [e, rta_inBlock_step env input _ s items hb]
    have hq : timerQuantity env lt.val.quantity s = (lt.val.quantity.map (fun q => expQuantity env q false), s) := by
      cases hq : lt.val.quantity with
      | none => rfl
      | some q =>
        obtain ⟨h1, h2⟩ := hadv hext q hq
        have hv : (expQuantity env q false).value.val.isText = false := by
          simp only [expQuantity, expValue]
          split <;> exact h1
        simp only [timerQuantity, bind, StateT.bind, rta_quantityOf env q false s (h.lock q hq), timerQuantityChecks, hext,
          if_true, hv, Bool.false_eq_true, if_false, pure, StateT.pure, Option.map_some]
        cases hu : q.val.unit with
        | none => simp [expQuantity, hu, pure, StateT.pure]
        | some u =>
          have := h2 u hu
          simp [expQuantity, hu, this, pure, StateT.pure]
    have ht : timerA env lt s = (s.timers.size, { s with timers := s.timers.push (timerOf env lt) }) := by
      unfold timerA
      simp only [bind, StateT.bind, hq, get, getThe, MonadStateOf.get, StateT.get, pure, StateT.pure, modify, modifyGet,
        MonadStateOf.modifyGet, StateT.modifyGet, Array.size_push, Nat.add_sub_cancel]
      rfl
    simp only [inStepComponent, bind, StateT.bind, ht]
    rw [rta_pushItem _ { s with timers := s.timers.push (timerOf env lt) } items hb]
  · exact rta_proc_timer env input lt s items h (by simpa using hext) hb

theorem rts_proc_text (env : Env) (input : Str) (t : Text) (s : Col α) (items : List Item)
    (hinl : TextInlOK (α := α) env t) (hd : s.defineMode = .all) (hb : s.block = some (.step items)) :
    (processEvent env input (.text t) s).2 = { s with block := some (.step (items ++ [.text t.text])) } := by
  by_cases hext : env.ext.has Gen.EXT_INLINE_QUANTITIES = true
  · obtain ⟨hne, hnone⟩ := hinl hext
    have e : processEvent env input (.text t) s = inStepText env t s := rfl
    rw [e]
    unfold inStepText
    simp only [bind, StateT.bind, get, getThe, MonadStateOf.get, StateT.get, pure, StateT.pure, hb]
    unfold inStepTextStep
    have hloop : inlineLoop (α := α) env (t.text.length + 1) t.text items s.inlineQ = (items ++ [.text t.text], s.inlineQ) := by
      unfold inlineLoop
      simp only [hnone]
      have : t.text.isEmpty = false := by cases ht : t.text <;> simp_all
      simp [this]
    simp [bind, StateT.bind, get, getThe, MonadStateOf.get, StateT.get, pure, StateT.pure, hd, hext, hloop, modify, modifyGet,
      MonadStateOf.modifyGet, StateT.modifyGet]
  · exact rta_proc_text env input t s items (by simpa using hext) hd hb

/-- a block of a document, as the parser hands it to the analysis -/
inductive SBlock (α : Type) where
  | step (items : List (SItem α))
  | sect (name : Option Text)
  | entry (key value : Text)
  /-- a text paragraph (`>` block): the texts the parser delivers between `start text` and `end text` -/
  | para (texts : List Text)

def SBlock.events : SBlock α → List (Ev α)
  | .step st => stepEvents st
  | .sect name => [.section name]
  | .entry k v => [.metadata k v]
  | .para ts => [Ev.start .text] ++ ts.map Ev.text ++ [Ev.stop .text]

/-- the content a text paragraph adds: its texts joined; nothing when they are all empty -/
def paraContent (ts : List Text) : List Content :=
  if (ts.flatMap (·.text)).isEmpty then [] else [.text (ts.flatMap (·.text))]

/-- a metadata entry that is neither a `[mode]` / `[define]` / `[duplicate]` switch (MODES) nor a
    standard key whose value is rejected, nor one of the three time keys -/
structure EntryPlain (env : Env) (k v : Text) : Prop where
  notConfig : ¬ (env.ext.has Gen.EXT_MODES = true ∧ (k.trimmed env.cs).head? = some '[' ∧
    (k.trimmed env.cs).getLast? = some ']')
  std : ∀ sk, StdKey.ofStr (String.ofList (k.trimmed env.cs)) = some sk →
    env.stdCheck sk (v.outerTrimmed env.cs) ≠ .rejected ∧ stdKeyIsTime sk = false

def SBlock.OK (env : Env) : SBlock α → Prop
  | .step st => (∀ it ∈ st, it.SimpleX env) ∧ st ≠ []
  | .sect _ => True
  | .entry k v => EntryPlain env k v
  | .para _ => True

/-- what a plain metadata entry does to the collector -/
def entryEffect (env : Env) (k v : Text) (s : Col α) : Col α :=
  match StdKey.ofStr (String.ofList (k.trimmed env.cs)) with
  | none =>
    { s with oldStyleUsed := s.oldStyleUsed ++ [⟨k.span.start, v.span.stop⟩],
             metaMap := metaInsert s.metaMap (k.trimmed env.cs) (v.outerTrimmed env.cs) }
  | some sk =>
    { s with oldStyleUsed := s.oldStyleUsed ++ [⟨k.span.start, v.span.stop⟩],
             metaMap := metaInsert s.metaMap (k.trimmed env.cs) (v.outerTrimmed env.cs),
             servings := (match env.stdCheck sk (v.outerTrimmed env.cs) with
                          | .servings sv => some sv
                          | _ => s.servings),
             metaLocs := (s.metaLocs.filter (fun p => p.1 != sk)) ++ [(sk, ⟨k.span.start, v.span.stop⟩)] }

theorem rts_metadataA_plain (env : Env) (k v : Text) (s : Col α) (h : EntryPlain env k v) :
    (metadataA env k v s).2 = entryEffect env k v s := by
  have hc1 : (env.ext.has Gen.EXT_MODES && (k.trimmed env.cs).head? == some '[' &&
      (k.trimmed env.cs).getLast? == some ']' && decide ((k.trimmed env.cs).length ≥ 2)) = false := by
    cases h1 : env.ext.has Gen.EXT_MODES <;> simp
    intro h2 h3
    exact absurd ⟨h1, h2, h3⟩ h.notConfig
  have hc2 : (env.ext.has Gen.EXT_MODES && (k.trimmed env.cs).head? == some '[' &&
      (k.trimmed env.cs).getLast? == some ']') = false := by
    cases h1 : env.ext.has Gen.EXT_MODES <;> simp
    intro h2 h3
    exact absurd ⟨h1, h2, h3⟩ h.notConfig
  unfold metadataA entryEffect
  simp only [bind, StateT.bind, get, getThe, MonadStateOf.get, StateT.get, pure, StateT.pure, hc1, hc2,
    Bool.false_eq_true, if_false, modify, modifyGet, MonadStateOf.modifyGet, StateT.modifyGet]
  cases hk : StdKey.ofStr (String.ofList (k.trimmed env.cs)) with
  | none => rfl
  | some sk =>
    obtain ⟨hr, ht⟩ := h.std sk hk
    cases hv : env.stdCheck sk (v.outerTrimmed env.cs) with
    | rejected => exact absurd hv hr
    | ok => simp only [hv, ht, Bool.false_eq_true, if_false]; rfl
    | servings sv => simp only [hv, ht, Bool.false_eq_true, if_false]; rfl

/-- the default modes (a recipe that switches no mode) -/
def BaseOK (base : Col α) : Prop := base.defineMode = .all ∧ base.duplicateMode = .new

/-- the collector after the items `before`, on top of `base` (sections pushed so far, name of the
    current section, metadata, diagnostics, modes): current section content, step counter, open block -/
def stOfX (env : Env) (base : Col α) (before : List (SItem α)) (content : List Content) (counter : Nat)
    (block : Option BlockBuf) : Col α :=
  { base with
    cur := ⟨base.cur.name, content⟩,
    ingredients := ((ingrsOf before).map (ingrOf env)).toArray,
    cookware := ((cwsOf before).map (cwOf env)).toArray,
    timers := ((timersOf before).map (timerOf env)).toArray,
    locIngr := (ingrsOf before).toArray,
    locCw := (cwsOf before).toArray,
    stepCounter := counter,
    block := block }

theorem rts_item (env : Env) (input : Str) (base : Col α) (hb : BaseOK base) (it : SItem α)
    (h : it.SimpleX env) (before : List (SItem α)) (content : List Content) (n : Nat) (items : List Item) :
    (processEvent env input it.ev (stOfX env base before content n (some (.step items)))).2 =
      stOfX env base (before ++ [it]) content n (some (.step (items ++ [it.toItem before]))) := by
  have hd : (stOfX env base before content n (some (.step items))).defineMode = .all := hb.1
  have hdup : (stOfX env base before content n (some (.step items))).duplicateMode = .new := hb.2
  cases it with
  | text t =>
    rw [SItem.ev, rts_proc_text env input t _ items h hd rfl]
    simp [stOfX, SItem.toItem, ingrsOf, cwsOf, timersOf, SItem.ingr?, SItem.cw?, SItem.timer?]
  | ingredient li =>
    rw [SItem.ev, rta_proc_ingredient env input li _ items h hd hdup rfl]
    simp [stOfX, SItem.toItem, ingrsOf, cwsOf, timersOf, SItem.ingr?, SItem.cw?, SItem.timer?]
  | cookware lc =>
    rw [SItem.ev, rta_proc_cookware env input lc _ items h hd hdup rfl]
    simp [stOfX, SItem.toItem, ingrsOf, cwsOf, timersOf, SItem.ingr?, SItem.cw?, SItem.timer?]
  | timer lt =>
    rw [SItem.ev, rts_proc_timer env input lt _ items h.1 h.2 rfl]
    simp [stOfX, SItem.toItem, ingrsOf, cwsOf, timersOf, SItem.ingr?, SItem.cw?, SItem.timer?]

theorem rts_loop_items (env : Env) (input : Str) (base : Col α) (hb : BaseOK base) (rest : List (Ev α))
    (content : List Content) (n : Nat) :
    ∀ (st : List (SItem α)), (∀ it ∈ st, it.SimpleX env) → ∀ (before : List (SItem α)) (items : List Item),
      parseEventsLoop env input (st.map SItem.ev ++ rest) (stOfX env base before content n (some (.step items))) =
        parseEventsLoop env input rest
          (stOfX env base (before ++ st) content n (some (.step (items ++ itemsFrom before st)))) := by
  intro st
  induction st with
  | nil => intro _ before items; simp [itemsFrom]
  | cons it r ih =>
    intro hs before items
    rw [List.map_cons, List.cons_append, parseEventsLoop_cons_nonerror env input _ _ _ (rta_ev_not_error it),
      rts_item env input base hb it (hs it (by simp)), ih (fun x hx => hs x (by simp [hx]))]
    simp [itemsFrom]

theorem rts_start (env : Env) (input : Str) (base : Col α) (hb : BaseOK base) (before : List (SItem α))
    (content : List Content) (n : Nat) :
    (processEvent env input (.start .step) (stOfX env base before content n none)).2 =
      stOfX env base before content n (some (.step [])) := by
  simp [processEvent, modify, modifyGet, MonadStateOf.modifyGet, StateT.modifyGet, stOfX, pure, StateT.pure, hb.1]

theorem rts_stop (env : Env) (input : Str) (base : Col α) (hb : BaseOK base) (before : List (SItem α))
    (content : List Content) (n : Nat) (items : List Item) (hne : items ≠ []) :
    (processEvent env input (.stop .step) (stOfX env base before content n (some (.step items)))).2 =
      stOfX env base before (content ++ [.step ⟨items, n⟩]) (n + 1) none := by
  have hne' : items.isEmpty = false := by cases items <;> simp_all
  simp [processEvent, endBlock, endBlockContent, pushContent, Content.isStep, Content.isEmptyContent, hne', bind,
    StateT.bind, get, getThe, MonadStateOf.get, StateT.get, pure, StateT.pure, modify, modifyGet,
    MonadStateOf.modifyGet, StateT.modifyGet, stOfX, hb.1]

/-- one step block -/
theorem rts_loop_step (env : Env) (input : Str) (base : Col α) (hb : BaseOK base) (rest : List (Ev α))
    (st : List (SItem α)) (hs : ∀ it ∈ st, it.SimpleX env) (hne : st ≠ []) (before : List (SItem α))
    (content : List Content) (n : Nat) :
    parseEventsLoop env input (stepEvents st ++ rest) (stOfX env base before content n none) =
      parseEventsLoop env input rest
        (stOfX env base (before ++ st) (content ++ [.step ⟨itemsFrom before st, n⟩]) (n + 1) none) := by
  have e : stepEvents st ++ rest = Ev.start .step :: (st.map SItem.ev ++ (Ev.stop .step :: rest)) := by
    simp [stepEvents]
  rw [e, parseEventsLoop_cons_nonerror env input _ _ _ (by rintro ⟨d, h⟩; cases h), rts_start env input base hb,
    rts_loop_items env input base hb _ content n st hs before [],
    parseEventsLoop_cons_nonerror env input _ _ _ (by rintro ⟨d, h⟩; cases h), List.nil_append,
    rts_stop env input base hb _ content n _ (rta_itemsFrom_ne before st hne)]

/-- a section line: the current section is pushed unless it is empty, the new one starts at step 1 -/
theorem rts_section (env : Env) (input : Str) (base : Col α) (name : Option Text) (before : List (SItem α))
    (content : List Content) (n : Nat) :
    (processEvent env input (.section name) (stOfX env base before content n none)).2 =
      stOfX env
        { base with sections := (if (Section.isEmpty ⟨base.cur.name, content⟩) then base.sections
                                 else base.sections ++ [⟨base.cur.name, content⟩]),
                    cur := ⟨name.map (·.trimmed env.cs), []⟩ } before [] 1 none := by
  by_cases h : Section.isEmpty ⟨base.cur.name, content⟩ = true <;>
    simp [processEvent, modify, modifyGet, MonadStateOf.modifyGet, StateT.modifyGet, stOfX, pure, StateT.pure, h]

theorem rts_entryEffect_stOfX (env : Env) (k v : Text) (base : Col α) (before : List (SItem α))
    (content : List Content) (n : Nat) (block : Option BlockBuf) :
    entryEffect env k v (stOfX env base before content n block) =
      stOfX env (entryEffect env k v base) before content n block := by
  unfold entryEffect
  cases StdKey.ofStr (String.ofList (k.trimmed env.cs)) <;> simp [stOfX]

theorem rts_entry (env : Env) (input : Str) (base : Col α) (k v : Text) (h : EntryPlain env k v)
    (before : List (SItem α)) (content : List Content) (n : Nat) :
    (processEvent env input (.metadata k v) (stOfX env base before content n none)).2 =
      stOfX env (entryEffect env k v base) before content n none := by
  have e : processEvent env input (.metadata k v) (stOfX env base before content n none) =
      metadataA env k v (stOfX env base before content n none) := rfl
  rw [e, rts_metadataA_plain env k v _ h, rts_entryEffect_stOfX]

theorem rts_entryEffect_base (env : Env) (k v : Text) (base : Col α) (hb : BaseOK base) :
    BaseOK (entryEffect env k v base) := by
  unfold entryEffect BaseOK
  cases StdKey.ofStr (String.ofList (k.trimmed env.cs)) <;> exact hb

/-! ### text paragraphs -/

theorem rts_para_texts (env : Env) (input : Str) (base : Col α) (rest : List (Ev α)) (before : List (SItem α))
    (content : List Content) (n : Nat) :
    ∀ (ts : List Text) (buf : Str),
      parseEventsLoop env input (ts.map Ev.text ++ rest) (stOfX env base before content n (some (.text buf))) =
        parseEventsLoop env input rest (stOfX env base before content n (some (.text (buf ++ ts.flatMap (·.text))))) := by
  intro ts
  induction ts with
  | nil => intro buf; simp
  | cons t r ih =>
    intro buf
    have hstep : (processEvent env input (.text t) (stOfX env base before content n (some (.text buf)))).2 =
        stOfX env base before content n (some (.text (buf ++ t.text))) := by
      have e : processEvent env input (.text t) (stOfX env base before content n (some (.text buf))) =
          inStepText env t (stOfX env base before content n (some (.text buf))) := rfl
      rw [e]
      unfold inStepText
      simp [bind, StateT.bind, get, getThe, MonadStateOf.get, StateT.get, pure, StateT.pure, stOfX, modify, modifyGet,
        MonadStateOf.modifyGet, StateT.modifyGet]
    rw [List.map_cons, List.cons_append, parseEventsLoop_cons_nonerror env input _ _ _ (by rintro ⟨d, h⟩; cases h), hstep,
      ih]
    simp [List.append_assoc]

/-- one text paragraph: its joined text is appended to the current section (nothing if it is empty); the
    step counter does not move -/
theorem rts_para (env : Env) (input : Str) (base : Col α) (hb : BaseOK base) (rest : List (Ev α)) (ts : List Text)
    (before : List (SItem α)) (content : List Content) (n : Nat) :
    parseEventsLoop env input (([Ev.start .text] ++ ts.map Ev.text ++ [Ev.stop .text]) ++ rest)
        (stOfX env base before content n none) =
      parseEventsLoop env input rest (stOfX env base before (content ++ paraContent ts) n none) := by
  have e : ([Ev.start .text] ++ ts.map Ev.text ++ [Ev.stop .text]) ++ rest =
      Ev.start .text :: (ts.map Ev.text ++ (Ev.stop .text :: rest)) := by simp
  have hstart : (processEvent env input (.start .text) (stOfX env base before content n none)).2 =
      stOfX env base before content n (some (.text [])) := by
    simp [processEvent, modify, modifyGet, MonadStateOf.modifyGet, StateT.modifyGet, stOfX, pure, StateT.pure, hb.1]
  have hstop : ∀ buf, (processEvent env input (.stop .text) (stOfX env base before content n (some (.text buf)))).2 =
      stOfX env base before (content ++ (if buf.isEmpty then [] else [.text buf])) n none := by
    intro buf
    by_cases hbuf : buf.isEmpty = true <;>
      simp [processEvent, endBlock, endBlockContent, pushContent, Content.isStep, Content.isEmptyContent, hbuf, bind,
        StateT.bind, get, getThe, MonadStateOf.get, StateT.get, pure, StateT.pure, modify, modifyGet,
        MonadStateOf.modifyGet, StateT.modifyGet, stOfX, hb.1]
  rw [e, parseEventsLoop_cons_nonerror env input _ _ _ (by rintro ⟨d, h⟩; cases h), hstart,
    rts_para_texts env input base _ before content n ts [],
    parseEventsLoop_cons_nonerror env input _ _ _ (by rintro ⟨d, h⟩; cases h), hstop]
  simp [paraContent]

/-! ### the intended result -/

/-- all step items of the document, in order -/
def docStepItems : List (SBlock α) → List (SItem α)
  | [] => []
  | .step st :: r => st ++ docStepItems r
  | _ :: r => docStepItems r

/-- the metadata entries of the document, in order -/
def docEntries : List (SBlock α) → List (Text × Text)
  | [] => []
  | .entry k v :: r => (k, v) :: docEntries r
  | _ :: r => docEntries r

/-- the sections of the document, reading the blocks in order: `cur` is the section being filled
    (name, content so far), `num` the number of its next step, `before` all items read so far (a
    component item carries the number of components of its kind before it in the WHOLE document).
    A section line closes the current section — dropped when it has neither a name nor content — and
    opens a new one whose steps are numbered from 1; metadata lines do not touch sections. -/
def docSecs (env : Env) (before : List (SItem α)) (cur : Section) (num : Nat) : List (SBlock α) → List Section
  | [] => if cur.isEmpty then [] else [cur]
  | .step st :: r =>
    docSecs env (before ++ st) ⟨cur.name, cur.content ++ [.step ⟨itemsFrom before st, num⟩]⟩ (num + 1) r
  | .sect name :: r =>
    (if cur.isEmpty then [] else [cur]) ++ docSecs env before ⟨name.map (·.trimmed env.cs), []⟩ 1 r
  | .entry _ _ :: r => docSecs env before cur num r
  | .para ts :: r => docSecs env before ⟨cur.name, cur.content ++ paraContent ts⟩ num r

/-- the `>>` map: entries inserted in order, a repeated key keeps its place and takes the new value -/
def docMeta (env : Env) (m : List (Str × Str)) (es : List (Text × Text)) : List (Str × Str) :=
  es.foldl (fun m e => metaInsert m (e.1.trimmed env.cs) (e.2.outerTrimmed env.cs)) m

def docSpans (es : List (Text × Text)) : List Span := es.map (fun e => ⟨e.1.span.start, e.2.span.stop⟩)

/-- the deprecation notice for `>>` entries: one warning carrying the span of every entry -/
def deprecation (spans : List Span) : Array Diag :=
  if spans.isEmpty then #[] else #[⟨.warning, .analysis, "meta-deprecated", spans⟩]

structure DocResult (env : Env) (base : Col α) (before : List (SItem α)) (content : List Content) (n : Nat)
    (blocks : List (SBlock α)) (c : Col α) : Prop where
  sections : c.sections = base.sections ++ docSecs env before ⟨base.cur.name, content⟩ n blocks
  ingredients : c.ingredients = ((ingrsOf (before ++ docStepItems blocks)).map (ingrOf env)).toArray
  cookware : c.cookware = ((cwsOf (before ++ docStepItems blocks)).map (cwOf env)).toArray
  timers : c.timers = ((timersOf (before ++ docStepItems blocks)).map (timerOf env)).toArray
  metaMap : c.metaMap = docMeta env base.metaMap (docEntries blocks)
  used : c.oldStyleUsed = base.oldStyleUsed ++ docSpans (docEntries blocks)
  diags : c.diags = base.diags ++ deprecation (base.oldStyleUsed ++ docSpans (docEntries blocks))
  inlineQ : c.inlineQ = base.inlineQ
  frontMatter : c.frontMatter = base.frontMatter

/-- what `parse_events` does when the events are used up: push the current section unless it is empty,
    add the deprecation notice when `>>` entries were seen -/
def finalCol (s : Col α) : Col α :=
  let s := if !s.cur.isEmpty then { s with sections := s.sections ++ [s.cur], cur := ⟨none, []⟩ } else s
  if !s.oldStyleUsed.isEmpty then
    { s with diags := s.diags.push ⟨.warning, .analysis, "meta-deprecated", s.oldStyleUsed⟩ } else s

theorem rts_loop_nil (env : Env) (input : Str) (s : Col α) :
    parseEventsLoop env input [] s = ⟨some (finalCol s), (finalCol s).diags, (finalCol s).panic⟩ := by
  unfold parseEventsLoop finalCol
  rfl

theorem rts_final (env : Env) (input : Str) (base : Col α) (before : List (SItem α)) (content : List Content) (n : Nat) :
    ∃ c : Col α, parseEventsLoop env input [] (stOfX env base before content n none) = ⟨some c, c.diags, base.panic⟩ ∧
      DocResult env base before content n [] c := by
  refine ⟨finalCol (stOfX env base before content n none), ?_, ?_⟩
  · rw [rts_loop_nil]
    congr 1
    unfold finalCol
    by_cases h1 : Section.isEmpty ⟨base.cur.name, content⟩ = true <;>
      by_cases h2 : base.oldStyleUsed.isEmpty = true <;> simp [stOfX, h1, h2]
  · unfold finalCol
    by_cases h1 : Section.isEmpty ⟨base.cur.name, content⟩ = true <;>
      by_cases h2 : base.oldStyleUsed.isEmpty = true <;>
      constructor <;>
        simp [stOfX, h1, h2, docSecs, docStepItems, docEntries, docMeta, docSpans, deprecation]

theorem rts_loop_doc (env : Env) (input : Str) :
    ∀ (blocks : List (SBlock α)), (∀ b ∈ blocks, b.OK env) →
      ∀ (base : Col α), BaseOK base → ∀ (before : List (SItem α)) (content : List Content) (n : Nat),
      ∃ c : Col α,
        parseEventsLoop env input (blocks.flatMap SBlock.events) (stOfX env base before content n none) =
          ⟨some c, c.diags, base.panic⟩ ∧
        DocResult env base before content n blocks c := by
  intro blocks
  induction blocks with
  | nil => intro _ base _ before content n; exact rts_final env input base before content n
  | cons b r ih =>
    intro hok base hb before content n
    have hr : ∀ x ∈ r, x.OK env := fun x hx => hok x (by simp [hx])
    have hb0 := hok b (by simp)
    cases b with
    | step st =>
      obtain ⟨hs, hne⟩ := hb0
      obtain ⟨c, h1, h2⟩ := ih hr base hb (before ++ st) (content ++ [.step ⟨itemsFrom before st, n⟩]) (n + 1)
      refine ⟨c, ?_, ?_⟩
      · rw [List.flatMap_cons, SBlock.events, rts_loop_step env input base hb _ st hs hne, h1]
      · obtain ⟨a1, a2, a3, a4, a5, a6, a7, a8, a9⟩ := h2
        exact ⟨by rw [a1]; rfl, by rw [a2]; simp [docStepItems], by rw [a3]; simp [docStepItems], by rw [a4]; simp [docStepItems],
          a5, a6, a7, a8, a9⟩
    | sect name =>
      obtain ⟨c, h1, h2⟩ := ih hr
        { base with sections := (if (Section.isEmpty ⟨base.cur.name, content⟩) then base.sections
                                 else base.sections ++ [⟨base.cur.name, content⟩]),
                    cur := ⟨name.map (·.trimmed env.cs), []⟩ } hb before [] 1
      refine ⟨c, ?_, ?_⟩
      · rw [List.flatMap_cons, SBlock.events, List.singleton_append,
          parseEventsLoop_cons_nonerror env input _ _ _ (by rintro ⟨d, h⟩; cases h), rts_section, h1]
      · obtain ⟨a1, a2, a3, a4, a5, a6, a7, a8, a9⟩ := h2
        refine ⟨?_, a2, a3, a4, a5, a6, a7, a8, a9⟩
        rw [a1]
        by_cases hc : Section.isEmpty ⟨base.cur.name, content⟩ = true <;> simp [docSecs, hc]
    | entry k v =>
      obtain ⟨c, h1, h2⟩ := ih hr (entryEffect env k v base) (rts_entryEffect_base env k v base hb) before content n
      have hpanic : (entryEffect env k v base).panic = base.panic := by
        unfold entryEffect; cases StdKey.ofStr (String.ofList (k.trimmed env.cs)) <;> rfl
      have hsec : (entryEffect env k v base).sections = base.sections ∧ (entryEffect env k v base).cur = base.cur ∧
          (entryEffect env k v base).metaMap = metaInsert base.metaMap (k.trimmed env.cs) (v.outerTrimmed env.cs) ∧
          (entryEffect env k v base).oldStyleUsed = base.oldStyleUsed ++ [⟨k.span.start, v.span.stop⟩] ∧
          (entryEffect env k v base).diags = base.diags ∧ (entryEffect env k v base).inlineQ = base.inlineQ ∧
          (entryEffect env k v base).frontMatter = base.frontMatter := by
        unfold entryEffect; cases StdKey.ofStr (String.ofList (k.trimmed env.cs)) <;> exact ⟨rfl, rfl, rfl, rfl, rfl, rfl, rfl⟩
      obtain ⟨e1, e2, e3, e4, e5, e6, e7⟩ := hsec
      refine ⟨c, ?_, ?_⟩
      · rw [List.flatMap_cons, SBlock.events, List.singleton_append,
          parseEventsLoop_cons_nonerror env input _ _ _ (by rintro ⟨d, h⟩; cases h), rts_entry env input base k v hb0, h1,
          hpanic]
      · obtain ⟨a1, a2, a3, a4, a5, a6, a7, a8, a9⟩ := h2
        refine ⟨?_, a2, a3, a4, ?_, ?_, ?_, by rw [a8, e6], by rw [a9, e7]⟩
        · rw [a1, e1, e2]; rfl
        · rw [a5, e3]; rfl
        · rw [a6, e4]; simp [docEntries, docSpans]
        · rw [a7, e4, e5]; simp [docEntries, docSpans]

    | para ts =>
      obtain ⟨c, h1, h2⟩ := ih hr base hb before (content ++ paraContent ts) n
      refine ⟨c, ?_, ?_⟩
      · rw [List.flatMap_cons, SBlock.events, rts_para env input base hb _ ts, h1]
      · obtain ⟨a1, a2, a3, a4, a5, a6, a7, a8, a9⟩ := h2
        exact ⟨by rw [a1]; rfl, a2, a3, a4, a5, a6, a7, a8, a9⟩

/-- **analysis layer, documents with sections and metadata** -/
theorem rts_parseEvents_doc (env : Env) (input : Str) (blocks : List (SBlock α)) (hok : ∀ b ∈ blocks, b.OK env) :
    ∃ c : Col α, parseEvents env input (blocks.flatMap SBlock.events) = ⟨some c, c.diags, none⟩ ∧
      c.sections = docSecs env [] ⟨none, []⟩ 1 blocks ∧
      c.ingredients.toList = (ingrsOf (docStepItems blocks)).map (ingrOf env) ∧
      c.cookware.toList = (cwsOf (docStepItems blocks)).map (cwOf env) ∧
      c.timers.toList = (timersOf (docStepItems blocks)).map (timerOf env) ∧
      c.metaMap = docMeta env [] (docEntries blocks) ∧
      c.diags = deprecation (docSpans (docEntries blocks)) ∧
      c.inlineQ = #[] ∧ c.frontMatter = none := by
  have h0 : ({} : Col α) = stOfX env {} [] [] 1 none := by simp [stOfX, ingrsOf, cwsOf, timersOf]
  obtain ⟨c, h1, h2⟩ := rts_loop_doc env input blocks hok {} ⟨rfl, rfl⟩ [] [] 1
  refine ⟨c, ?_, ?_, ?_, ?_, ?_, ?_, ?_, ?_, ?_⟩
  · unfold parseEvents; rw [h0, h1]
  · rw [h2.sections]; simp
  · rw [h2.ingredients]; simp
  · rw [h2.cookware]; simp
  · rw [h2.timers]; simp
  · rw [h2.metaMap]
  · rw [h2.diags]; simp
  · rw [h2.inlineQ]
  · rw [h2.frontMatter]

end Cook
