import CookModel.Lemmas.BestUnit
import CookModel.Lemmas.FitFractionChoice
/-
  `ScaledQuantity::fit` (src/convert/mod.rs:505) when fractions are disabled on its way: it is the conversion to the best
  unit of the unit's own system, the unit text becomes that unit's symbol, and fitting a fitted quantity changes nothing.
  Prefix `fc_`.  Specification-side vocabulary: `FractionsOffFor`, `Converter.SystemsCoherent`.
-/
namespace Cook
open Arith

/-- fractions are disabled for `u` and for every unit of the best list of `u`'s quantity for system `s`
    (the shipped configuration for metric units: `fractions.metric = false`) -/
def FractionsOffFor (c : Converter Rat) (u : Unit Rat) (s : System) : Prop :=
  (c.fractionsConfig u).enabled = false ∧
  ∀ x ∈ ((c.best u.pq).conversions s).unitsOf, (c.fractionsConfig x).enabled = false

instance (c : Converter Rat) (u : Unit Rat) (s : System) : Decidable (FractionsOffFor c u s) := by
  unfold FractionsOffFor; infer_instance

/-- the best list a listed unit is fitted with (its own system's, the default system's for a unit of none) is the list
    it is listed in: lists are not mixed across systems -/
def Converter.SystemsCoherent (c : Converter Rat) : Prop :=
  ∀ q s, ∀ x ∈ ((c.best q).conversions s).unitsOf,
    ((c.best q).conversions (x.system.getD c.defaultSystem)).entries = ((c.best q).conversions s).entries

def systemsCoherentB (c : Converter Rat) : Bool :=
  PhysQ.all.all (fun q => [System.metric, System.imperial].all (fun s =>
    ((c.best q).conversions s).unitsOf.all (fun x =>
      decide (((c.best q).conversions (x.system.getD c.defaultSystem)).entries = ((c.best q).conversions s).entries))))

theorem fc_systemsCoherentB {c : Converter Rat} (h : systemsCoherentB c = true) : c.SystemsCoherent := by
  intro q s x hx
  simp only [systemsCoherentB, List.all_eq_true, PhysQ.all, decide_eq_true_eq] at h
  have hq : q ∈ [PhysQ.volume, .mass, .length, .temperature, .time] := by cases q <;> simp
  have hs : s ∈ [System.metric, System.imperial] := by cases s <;> simp
  exact h q hq s hs x hx

theorem fc_bc_ext {a b : BestConversions Rat} (h : a.entries = b.entries) : a = b := by
  cases a; cases b; simp only at h; rw [h]

theorem fc_candidates_off (c : Converter Rat) (v : Rat) (unit : Unit Rat) :
    ∀ es : List (Rat × Unit Rat), (∀ e ∈ es, (c.fractionsConfig e.2).enabled = false) →
      fracCandidates c v unit es = .ok [] := by
  intro es
  induction es with
  | nil => intro _; rfl
  | cons e rest ih =>
    intro h
    unfold fracCandidates
    simp only [h e (by simp), Bool.not_false, if_true]
    exact ih (fun x hx => h x (by simp [hx]))

/-- with fractions disabled for the unit (no target system) or for the whole list (target system), `fit_fraction` declines
    and leaves the quantity alone -/
theorem fc_fitFraction_off {c : Converter Rat} (q : SQuantity Rat) (b : Unit Rat) (hb : unitInfo c q = some b)
    (hnt : q.value.isText = false) (target : Option System)
    (hoff : match target with
      | none => (c.fractionsConfig b).enabled = false
      | some s => ∀ x ∈ ((c.best b.pq).conversions s).unitsOf, (c.fractionsConfig x).enabled = false) :
    fitFraction c q b target = (q, .ok false) := by
  unfold fitFraction
  cases target with
  | none =>
    simp only at hoff ⊢
    unfold tryFraction
    simp [hb, hoff]
  | some s =>
    simp only at hoff ⊢
    have hc : ∀ v, fitFractionWith c q b s v = (q, .ok false) := by
      intro v
      unfold fitFractionWith
      rw [fc_candidates_off c v b _ (fun e he => hoff e.2 (List.mem_map.mpr ⟨e, he, rfl⟩))]
      rfl
    cases hq : q.value with
    | text t => simp [hq, Value.isText] at hnt
    | number n => exact hc _
    | range s' e => exact hc _

theorem fc_toValue_isText (v : ConvertValue Rat) : v.toValue.isText = false := by
  cases v <;> rfl

theorem fc_ofValue_toValue (v : ConvertValue Rat) : ConvertValue.ofValue v.toValue = .ok v := by
  cases v <;> rfl

/-- `convert(SameSystem)` with fractions disabled on the way: the value converted to `best_unit`'s pick, plain numbers,
    unit text = the pick's symbol -/
theorem fc_convertImpl_same_off {c : Converter Rat} (hc : c.Sound) (q : SQuantity Rat) (u : Unit Rat)
    (hu : unitInfo c q = some u) {value v' : ConvertValue Rat} (hval : ConvertValue.ofValue q.value = .ok value)
    {b : Unit Rat} (hconv : c.convertToBest value u (u.system.getD c.defaultSystem) = .ok (v', b))
    (hoff : ∀ x ∈ ((c.best u.pq).conversions (u.system.getD c.defaultSystem)).unitsOf,
      (c.fractionsConfig x).enabled = false) :
    convertImpl c q .sameSystem = (⟨v'.toValue, b.symbol?⟩, .ok ()) := by
  obtain ⟨k, hk, hf⟩ := unitInfo_some hu
  have hum := findUnit_mem hf
  have hs := convertToBest_spec hc hum hconv
  obtain ⟨sym, hsym⟩ := Option.isSome_iff_exists.mp (hc.symbol b hs.2.1)
  have hq1 : unitInfo c ⟨v'.toValue, some sym⟩ = some b :=
    unitInfo_symbol hc hs.2.1 (by simp [hsym]) rfl
  have hff : fitFraction c ⟨v'.toValue, some sym⟩ b u.system = (⟨v'.toValue, some sym⟩, .ok false) := by
    apply fc_fitFraction_off _ b hq1 (fc_toValue_isText v')
    cases hsys : u.system with
    | none => exact hoff b hs.1
    | some s0 =>
      simp only
      rw [hs.2.2.1]
      simpa [hsys] using hoff
  unfold convertImpl
  simp only [hk, hf, hval]
  have hcv : c.convert value (.unit u) .sameSystem = .ok (v', b) :=
    bu_convert_of (to := .sameSystem) rfl hconv
  simp only [hcv, hsym, hff, dropBool]

/-- `fit` with fractions disabled on its way is that conversion -/
theorem fc_fit_off {c : Converter Rat} (hc : c.Sound) (q : SQuantity Rat) (u : Unit Rat)
    (hu : unitInfo c q = some u) {value v' : ConvertValue Rat} (hval : ConvertValue.ofValue q.value = .ok value)
    {b : Unit Rat} (hconv : c.convertToBest value u (u.system.getD c.defaultSystem) = .ok (v', b))
    (hoff : FractionsOffFor c u (u.system.getD c.defaultSystem)) :
    fit c q = (⟨v'.toValue, b.symbol?⟩, .ok ()) := by
  unfold fit
  simp only [hu, hoff.1, Bool.false_eq_true, if_false]
  exact fc_convertImpl_same_off hc q u hu hval hconv hoff.2

/-- a successful `fit` with fractions disabled on its way, read backwards -/
theorem fc_fit_off_inv {c : Converter Rat} (hc : c.Sound) (q q' : SQuantity Rat) (u : Unit Rat)
    (hu : unitInfo c q = some u) (hoff : FractionsOffFor c u (u.system.getD c.defaultSystem))
    (h : fit c q = (q', .ok ())) :
    ∃ value v' b, ConvertValue.ofValue q.value = .ok value ∧
      c.convertToBest value u (u.system.getD c.defaultSystem) = .ok (v', b) ∧
      q' = ⟨v'.toValue, b.symbol?⟩ := by
  cases hval : ConvertValue.ofValue q.value with
  | error e =>
    exfalso
    obtain ⟨t, ht, _⟩ := ofValue_error hval
    have : fit c q = (q, .error (.textValue t)) := by
      unfold fit
      simp only [hu, hoff.1, Bool.false_eq_true, if_false]
      exact convertImpl_text c q .sameSystem u t hu ht
    rw [this] at h; cases h
  | ok value =>
    cases hconv : c.convertToBest value u (u.system.getD c.defaultSystem) with
    | error e =>
      exfalso
      have : fit c q = (q, .error e) := by
        unfold fit
        simp only [hu, hoff.1, Bool.false_eq_true, if_false]
        exact convertImpl_convert_error c q .sameSystem u value e hu hval
          (by unfold Converter.convert; simp only [getUnit_unit]; exact hconv)
      rw [this] at h; cases h
    | ok r =>
      obtain ⟨v', b⟩ := r
      rw [fc_fit_off hc q u hu hval hconv hoff] at h
      simp only [Prod.mk.injEq, and_true] at h
      exact ⟨value, v', b, rfl, hconv, h.symm⟩

/-- **`fit` is idempotent over ℚ** (fractions disabled on the way, non-negative leading numbers, lists not mixed across
    systems): fitting a fitted quantity returns it unchanged — same unit, same numbers. -/
theorem fc_fit_idempotent {c : Converter Rat} (hc : c.Sound) (hcoh : c.SystemsCoherent) (q q' : SQuantity Rat)
    (u : Unit Rat) (hu : unitInfo c q = some u) (hoff : FractionsOffFor c u (u.system.getD c.defaultSystem))
    (h : fit c q = (q', .ok ())) (h0 : ∀ x ∈ q.value.parts.head?, 0 ≤ x) (h0' : ∀ x ∈ q'.value.parts.head?, 0 ≤ x) :
    fit c q' = (q', .ok ()) := by
  obtain ⟨value, v', b, hval, hconv, rfl⟩ := fc_fit_off_inv hc q _ u hu hoff h
  have hum := unitInfo_mem hu
  have hs := convertToBest_spec hc hum hconv
  obtain ⟨sym, hsym⟩ := Option.isSome_iff_exists.mp (hc.symbol b hs.2.1)
  have hq1 : unitInfo c ⟨v'.toValue, b.symbol?⟩ = some b :=
    unitInfo_symbol hc hs.2.1 rfl (by simp [hsym])
  have hlist : (c.best b.pq).conversions (b.system.getD c.defaultSystem) =
      (c.best u.pq).conversions (u.system.getD c.defaultSystem) := by
    rw [hs.2.2.1]
    exact fc_bc_ext (hcoh _ _ b hs.1)
  have hlead : value.lead ∈ q.value.parts.head? := by
    rw [← ofValue_parts hval]; cases value <;> simp [ConvertValue.parts, ConvertValue.lead]
  have hlead' : v'.lead ∈ (⟨v'.toValue, b.symbol?⟩ : SQuantity Rat).value.parts.head? := by
    simp only [toValue_parts]; cases v' <;> simp [ConvertValue.parts, ConvertValue.lead]
  have hidem := bu_convertToBest_idempotent hc hum _ hconv (h0 _ hlead) (h0' _ hlead')
  have hconv' : c.convertToBest v' b (b.system.getD c.defaultSystem) = .ok (v', b) := by
    unfold Converter.convertToBest at hidem ⊢
    rw [hlist, ← hs.2.2.1]
    rw [hs.2.2.1] at hidem ⊢
    exact hidem
  have hoff' : FractionsOffFor c b (b.system.getD c.defaultSystem) := by
    refine ⟨hoff.2 b hs.1, ?_⟩
    rw [hlist]; exact hoff.2
  exact fc_fit_off hc _ b hq1 (fc_ofValue_toValue v') hconv' hoff'

end Cook
