import CookModel.Lemmas.CoverEvents
import CookModel.Lemmas.Roundtrip
import CookModel.Lemmas.SpansDoc
import CookModel.Lemmas.ExtLaws
import CookModel.Lemmas.SpansFront
import CookModel.Lemmas.Blocks
/-
  C05 at event level, ALL block shapes: steps with components, text blocks, section lines,
  metadata lines.  Hoare layer of `SpansEv` with the queue predicate `CovQ` ("the content tokens
  before the cursor, and the content tokens of the earlier blocks, are covered").

  `Wordy cs t`: the token shows at least one character that is not white space (`NBs cs (vis t)`:
  so it is not a comment, and for an escape `\x` the character is `x`) and is none of: a line
  break, a whitespace token, `>>`, `=`, `>`.  Every word and number token is such a token.
-/
set_option linter.unusedSectionVars false
set_option linter.unusedSimpArgs false
set_option linter.unusedVariables false
namespace Cook

variable {α : Type} [Arith α]

/-- a token that carries recipe content -/
def Wordy (cs : CharSpec) (t : Tok) : Prop :=
  NBs cs (vis t) ∧ t.kind ≠ .newline ∧ t.kind ≠ .ws ∧ t.kind ≠ .metaStart ∧ t.kind ≠ .eq ∧
    t.kind ≠ .textStep

theorem cov_tokBodyStart_ge (t : Tok) : t.start ≤ tokBodyStart t := by
  unfold tokBodyStart; split <;> omega

theorem Wordy.notComment {cs : CharSpec} {t : Tok} (h : Wordy cs t) :
    t.kind ≠ .lineComment ∧ t.kind ≠ .blockComment := by
  obtain ⟨⟨c, hc, -⟩, -⟩ := h
  unfold vis at hc
  constructor <;> intro hk <;> rw [hk] at hc <;> simp at hc

theorem Wordy.notWsComment {cs : CharSpec} {t : Tok} (h : Wordy cs t) : isWsComment t.kind = false := by
  have h1 := h.notComment
  have h2 := h.2.2.1
  unfold isWsComment
  cases hk : t.kind <;> simp_all

theorem Wordy.notEmptyTok {cs : CharSpec} {t : Tok} (h : Wordy cs t) : isEmptyTok t.kind = false := by
  have h1 := h.notComment
  have h2 := h.2.2.1
  have h3 := h.2.1
  unfold isEmptyTok
  cases hk : t.kind <;> simp_all

/-- a content token has a body (it shows in a text run) -/
theorem Wordy.hasBody {cs : CharSpec} {t : Tok} (h : Wordy cs t)
    (he : t.kind = .escaped → t.text.head? = some '\\') : HasBody t := by
  have hnc := h.notComment
  obtain ⟨⟨c, hc, -⟩, hnl, -⟩ := h
  refine ⟨hnc.1, hnc.2, ?_⟩
  unfold vis at hc
  unfold tokBodyStart Tok.stop
  split at hc
  · rename_i hk; exact absurd hk hnl
  · simp at hc
  · simp at hc
  · rename_i hk
    have hh := he hk
    rw [if_pos hk]
    cases htxt : t.text with
    | nil => rw [htxt] at hc; simp at hc
    | cons x xs =>
      rw [htxt] at hc hh
      simp only [List.tail_cons] at hc
      have hne : xs ≠ [] := by intro h0; rw [h0] at hc; simp at hc
      have := utf8Len_pos hne
      have := utf8Size_pos x
      rw [utf8Len_cons]
      simp only [List.head?_cons, Option.some.injEq] at hh
      subst hh
      have : '\\'.utf8Size = 1 := by decide
      omega
  · rename_i h1 h2 h3 h4
    rw [if_neg h4]
    have hne : t.text ≠ [] := by intro h0; rw [h0] at hc; simp at hc
    have := utf8Len_pos hne
    omega

/-! ### a text run with a content token is not blank -/

theorem textStep_NB_vis {cs : CharSpec} (a : TextAcc) (tok : Tok) (hk : tok.kind ≠ .newline)
    (hn : NBs cs (vis tok)) : AccNB cs (textStep a tok) := by
  obtain ⟨c, hc, hcu⟩ := hn
  unfold textStep
  cases hk' : tok.kind <;> simp [vis, hk'] at hc hk ⊢ <;> exact Or.inr ⟨c, by simp [hc], hcu⟩

theorem foldl_textStep_NB_vis {cs : CharSpec} (ts : List Tok) (a : TextAcc)
    (h : AccNB cs a ∨ ∃ t ∈ ts, t.kind ≠ .newline ∧ NBs cs (vis t)) : AccNB cs (ts.foldl textStep a) := by
  induction ts generalizing a with
  | nil =>
    rcases h with h | ⟨t, ht, -⟩
    · exact h
    · simp at ht
  | cons t r ih =>
    rw [List.foldl_cons]
    apply ih
    rcases h with h | ⟨x, hx, hp, hn⟩
    · left; exact textStep_NB a t h
    · simp only [List.mem_cons] at hx
      rcases hx with rfl | hx
      · left; exact textStep_NB_vis a x hp hn
      · right; exact ⟨x, hx, hp, hn⟩

theorem buildText_not_empty_vis {cs : CharSpec} (off : Nat) (ts : List Tok)
    (h : ∃ t ∈ ts, t.kind ≠ .newline ∧ NBs cs (vis t)) : (buildText off ts).isTextEmpty cs = false := by
  have key : ∀ t : Text, (∃ f ∈ t.frags, NBs cs f.text) → t.isTextEmpty cs = false := by
    intro t ⟨f, hf, hn⟩
    unfold Text.isTextEmpty
    rw [Bool.eq_false_iff]
    intro hall
    rw [List.all_eq_true] at hall
    have := hall f hf
    rw [trim_nonempty hn] at this; cases this
  unfold buildText
  cases ts with
  | nil => obtain ⟨t, ht, -⟩ := h; simp at ht
  | cons t0 rest =>
    simp only
    have hacc := foldl_textStep_NB_vis (cs := cs) (t0 :: rest) ⟨Text.empty off, t0.start, []⟩ (Or.inr h)
    have hfr := appendStr_NB (cs := cs) _ _ ((t0 :: rest).foldl textStep ⟨Text.empty off, t0.start, []⟩).start hacc
    split
    · exact key _ hfr
    · exact key _ hfr

/-- **a text run over `ts[c0..c3]`** (what `BlockParser::text` is called with): every token with a
    body of the slice lies inside the span of the assembled text, which has fragments -/
theorem textRun_coverB {ts : List Tok} (hw : WF ts) {c0 c3 : Nat} (hle : c0 ≤ c3)
    {i : Nat} (h1 : c0 ≤ i) (h2 : i < c3) {t : Tok} (ht : ts[i]? = some t) (hb : HasBody t) :
    (buildText (offAt ts c0) (slice ts c0 c3)).frags ≠ [] ∧
    (buildText (offAt ts c0) (slice ts c0 c3)).span.start ≤ tokBodyStart t ∧
    t.stop ≤ (buildText (offAt ts c0) (slice ts c0 c3)).span.stop := by
  have hr : RunAt (offAt ts c0) (slice ts c0 c3) := slice_runAt hw.run hle
  have hm : t ∈ slice ts c0 c3 := cover_mem_slice h1 h2 ht
  obtain ⟨k1, k2, k3⟩ := cov_buildText_span _ _ hr.1 hr.2 t hm hb
  exact ⟨k3, k1, k2⟩

/-- … and when the token is a content token the text is not blank -/
theorem textRun_cover {cs : CharSpec} {ts : List Tok} (hw : WF ts) {c0 c3 : Nat} (hle : c0 ≤ c3)
    {i : Nat} (h1 : c0 ≤ i) (h2 : i < c3) {t : Tok} (ht : ts[i]? = some t) (hct : Wordy cs t) :
    (buildText (offAt ts c0) (slice ts c0 c3)).frags ≠ [] ∧
    (buildText (offAt ts c0) (slice ts c0 c3)).isTextEmpty cs = false ∧
    (buildText (offAt ts c0) (slice ts c0 c3)).span.start ≤ tokBodyStart t ∧
    t.stop ≤ (buildText (offAt ts c0) (slice ts c0 c3)).span.stop := by
  have hm : t ∈ slice ts c0 c3 := cover_mem_slice h1 h2 ht
  have hb : HasBody t := hct.hasBody (hw.run.2 t (List.mem_of_getElem? ht))
  obtain ⟨k3, k1, k2⟩ := textRun_coverB hw hle h1 h2 ht hb
  exact ⟨k3, buildText_not_empty_vis _ _ ⟨t, hm, hct.2.1, hct.1⟩, k1, k2⟩

/-! ### the queue predicate -/

/-- the tokens of `K` (earlier blocks) are covered, and so are the tokens of the block before
    position `n` that satisfy `C` (`Wordy cs`: content tokens; `HasBody`: all tokens with a body) -/
def CovQ (C : Tok → Prop) (K : Tok → Prop) (ts : List Tok) (n : Nat) (evs : Array (Ev α)) : Prop :=
  (∀ t, K t → CoveredBy evs t) ∧ ∀ i, i < n → ∀ t, ts[i]? = some t → C t → CoveredBy evs t

variable {cs : CharSpec} {C : Tok → Prop} {K : Tok → Prop} {ts : List Tok} {e : Ext} {s : BP α} {off : Nat} {w : List Char}

theorem CovQ.push {n : Nat} {evs : Array (Ev α)} (h : CovQ C K ts n evs) (ev : Ev α) :
    CovQ C K ts n (evs.push ev) :=
  ⟨fun t ht => (h.1 t ht).push ev, fun i hi t ht hc => (h.2 i hi t ht hc).push ev⟩

/-- advance over tokens that are covered (or are no content) -/
theorem CovQ.advance {n n' : Nat} {evs : Array (Ev α)} (h : CovQ C K ts n evs)
    (hn : ∀ i, n ≤ i → i < n' → ∀ t, ts[i]? = some t → C t → CoveredBy evs t) :
    CovQ C K ts n' evs := by
  refine ⟨h.1, fun i hi t ht hc => ?_⟩
  rcases Nat.lt_or_ge i n with h' | h'
  · exact h.2 i h' t ht hc
  · exact hn i h' hi t ht hc

/-- push an event whose span covers the content tokens from `n` to `n'` -/
theorem CovQ.pushCover {n n' : Nat} {evs : Array (Ev α)} (h : CovQ C K ts n evs) (ev : Ev α)
    (hn : ∀ i, n ≤ i → i < n' → ∀ t, ts[i]? = some t → C t →
      ∃ sp, ev.srcSpan = some sp ∧ sp.start ≤ tokBodyStart t ∧ t.stop ≤ sp.stop) :
    CovQ C K ts n' (evs.push ev) :=
  (h.push ev).advance (fun i h1 h2 t ht hc => by
    obtain ⟨sp, k1, k2, k3⟩ := hn i h1 h2 t ht hc
    exact ⟨ev, by simp, sp, k1, k2, k3⟩)

theorem covCtx (hw : WFI off w ts) (n : Nat) : Ctx off w (CovQ (α := α) C K ts n) ts :=
  ⟨hw, fun evs d h _ => ⟨h.push _, h.push _⟩⟩

/-! ### steps, with components -/

/-- one iteration of `parse_step`: the tokens it consumes are covered — by the component event,
    whose span is exactly the consumed bytes, or by the text event -/
theorem stepOne_coverAll (hw : WFI off w ts) (hz : Boundary off w 0) (hC : ∀ t ∈ ts, C t → HasBody t) (h : GE (CovQ C K ts s.cur) ts e s)
    (hlt : s.cur < ts.length) :
    Sat (stepOne (α := α)) s (fun _ s' => GE (CovQ C K ts s'.cur) ts e s' ∧ s.cur < s'.cur) := by
  have hc : Ctx off w (CovQ (α := α) C K ts s.cur) ts := covCtx hw _
  unfold stepOne
  apply Sat.bind
  apply Sat.mono (Q := fun r s' => GE (CovQ C K ts s.cur) ts e s' ∧
    match r with
    | none => s'.cur = s.cur
    | some ev => s.cur < s'.cur ∧ ev.srcSpan = some ⟨offAt ts s.cur, offAt ts s'.cur⟩)
  · have comp : ∀ (p : P α (Option (Ev α))),
        (∀ s0 : BP α, GE (CovQ C K ts s.cur) ts e s0 → Sat p s0 (fun r s' => GE (CovQ C K ts s.cur) ts e s' ∧
          (r.isSome = true → s0.cur < s'.cur) ∧ CompRet off w ts s0.cur s'.cur r ∧ EvAt ts s0.cur s'.cur r)) →
        Sat (withRecover p) s (fun r s' => GE (CovQ C K ts s.cur) ts e s' ∧
          match r with
          | none => s'.cur = s.cur
          | some ev => s.cur < s'.cur ∧ ev.srcSpan = some ⟨offAt ts s.cur, offAt ts s'.cur⟩) := by
      intro p hp
      apply withRecover_sat
      refine Sat.mono (hp s h) ?_
      rintro r s1 ⟨g1, h1, -, h3⟩
      cases r with
      | none => exact ⟨g1.setCur h.le, rfl⟩
      | some ev => exact ⟨g1, h1 rfl, h3 ev rfl⟩
    refine Sat.bind (peekK_sat h.g ?_)
    split
    · exact comp _ (fun s0 h0 => ingredientP_evx hc h0)
    · exact comp _ (fun s0 h0 => cookwareP_evx hc h0)
    · exact comp _ (fun s0 h0 => timerP_evx hc hz h0)
    · exact Sat.pure ⟨h, rfl⟩
  rintro comp s1 ⟨g1, h1⟩
  cases comp with
  | some ev =>
    obtain ⟨c1, hsp⟩ := h1
    refine Sat.pushEv ⟨g1.push (g1.evs.pushCover ev ?_), c1⟩
    intro i hi1 hi2 t ht hct
    have hi2' : i < s1.cur := hi2
    refine ⟨_, hsp, ?_, ?_⟩
    · have := (hw.tokAt ht).1
      have := hw.offAt_mono hi1
      have := cov_tokBodyStart_ge t
      show offAt ts s.cur ≤ tokBodyStart t
      omega
    · have := (hw.tokAt ht).2
      have := hw.offAt_mono (show i + 1 ≤ s1.cur by omega)
      show t.stop ≤ offAt ts s1.cur
      omega
  | none =>
    dsimp only at h1 ⊢
    refine Sat.bind (currentOffset_sat g1.g ?_)
    refine Sat.bind (Sat.getCur ?_)
    have hget : ts[s1.cur]? = some ts[s1.cur] := List.getElem?_eq_getElem (by omega)
    refine Sat.bind (Sat.mono (bumpAny_ge g1 hget) ?_)
    rintro _ s2 ⟨-, g2, c2⟩
    refine Sat.bind (Sat.mono (consumeWhile_ge _ g2) ?_)
    rintro _ s3 ⟨g3, c3, -, -, -⟩
    refine Sat.bind (Sat.get ?_)
    try dsimp only
    have hle : s1.cur ≤ s3.cur := by omega
    have hr : RunAt (offAt ts s1.cur) ((s3.toks.take s3.cur).drop s1.cur) := by
      rw [g3.g.toks]; exact slice_runAt hw.wf.run hle
    refine Sat.bind (bpText_sat hr ?_)
    have hcov : ∀ i, s1.cur ≤ i → i < s3.cur → ∀ t, ts[i]? = some t → C t →
        (buildText (offAt ts s1.cur) ((s3.toks.take s3.cur).drop s1.cur)).frags ≠ [] ∧
        (buildText (offAt ts s1.cur) ((s3.toks.take s3.cur).drop s1.cur)).span.start ≤ tokBodyStart t ∧
        t.stop ≤ (buildText (offAt ts s1.cur) ((s3.toks.take s3.cur).drop s1.cur)).span.stop := by
      intro i k1 k2 t ht hct
      rw [g3.g.toks]
      exact textRun_coverB hw.wf hle k1 k2 ht (hC t (List.mem_of_getElem? ht) hct)
    split
    · refine Sat.pushEv ⟨g3.push (g3.evs.pushCover _ ?_), by show s.cur < s3.cur; omega⟩
      intro i k1 k2 t ht hct
      obtain ⟨-, m3, m4⟩ := hcov i (by omega) k2 t ht hct
      exact ⟨_, rfl, m3, m4⟩
    · rename_i hemp
      refine Sat.pure ⟨g3.mono (fun hi => hi.advance ?_), by omega⟩
      intro i k1 k2 t ht hct
      exfalso
      obtain ⟨m1, -, -⟩ := hcov i (by omega) k2 t ht hct
      apply hemp
      cases hf : (buildText (offAt ts s1.cur) ((s3.toks.take s3.cur).drop s1.cur)).frags with
      | nil => exact absurd hf m1
      | cons _ _ => simp

theorem stepLoop_coverAll (hw : WFI off w ts) (hz : Boundary off w 0) (hC : ∀ t ∈ ts, C t → HasBody t) (fuel : Nat)
    (h : GE (CovQ C K ts s.cur) ts e s) (hf : ts.length - s.cur ≤ fuel) :
    Sat (stepLoop (α := α) fuel) s (fun _ s' => GE (CovQ C K ts ts.length) ts e s' ∧ s'.cur = ts.length) := by
  have hle := h.le
  induction fuel generalizing s with
  | zero =>
    unfold stepLoop
    refine Sat.bind (restToks_sat h.g ?_)
    have : ts.drop s.cur = [] := List.drop_eq_nil_of_le (by omega)
    rw [this]
    have e1 : s.cur = ts.length := by omega
    exact Sat.pure ⟨by rw [← e1]; exact h, e1⟩
  | succ fuel ih =>
    unfold stepLoop
    refine Sat.bind (restToks_sat h.g ?_)
    split
    · rename_i hemp
      have := drop_isEmpty_true hemp
      have e1 : s.cur = ts.length := by omega
      exact Sat.pure ⟨by rw [← e1]; exact h, e1⟩
    · rename_i hemp
      have hlt := drop_isEmpty_false (by simpa using hemp)
      refine Sat.bind (Sat.mono (stepOne_coverAll hw hz hC h hlt) ?_)
      rintro _ s1 ⟨g1, c1⟩
      exact ih g1 (by omega) g1.le

theorem parseStep_coverAll (hw : WFI off w ts) (hz : Boundary off w 0) (hC : ∀ t ∈ ts, C t → HasBody t) (h : GE (CovQ C K ts s.cur) ts e s) :
    Sat (parseStep (α := α)) s (fun _ s' => GE (CovQ C K ts ts.length) ts e s' ∧ s'.cur = ts.length) := by
  unfold parseStep
  refine Sat.bind (Sat.pushEv ?_)
  have g1 : GE (CovQ C K ts s.cur) ts e { s with evs := s.evs.push (.start .step) } := h.push (h.evs.push _)
  refine Sat.bind (restToks_sat g1.g ?_)
  refine Sat.bind (Sat.mono (stepLoop_coverAll hw hz hC _ g1 (by simp)) ?_)
  rintro _ s2 ⟨g2, c2⟩
  exact Sat.pushEv ⟨g2.push (g2.evs.push _), c2⟩

/-! ### plumbing: conjunction of two facts about one run, and "the character tables are kept" -/

theorem Sat.covBoth {β : Type} {m : P α β} {s : BP α} {Q Q' : β → BP α → Prop} (h : Sat m s Q) (h' : Sat m s Q') :
    Sat m s (fun r s' => Q r s' ∧ Q' r s') := ⟨h, h'⟩

theorem Sat.covWithCs {β : Type} {m : P α β} {s : BP α} {Q : β → BP α → Prop} (h : Sat m s Q) (hi : IndA m) :
    Sat m s (fun r s' => Q r s' ∧ s'.cs = s.cs) := ⟨h, (hi.all s).cs⟩

theorem GE.covAdv {n n' : Nat} (h : GE (CovQ (Wordy cs) K ts n) ts e s)
    (hn : ∀ i, n ≤ i → i < n' → ∀ t, ts[i]? = some t → ¬ Wordy cs t) : GE (CovQ (Wordy cs) K ts n') ts e s :=
  h.mono (fun hi => hi.advance (fun i a b t ht hc => absurd hc (hn i a b t ht)))

/-! ### text blocks -/

theorem textLineK_coverAll (hw : WFI off w ts) (h : GE (CovQ (Wordy cs) K ts s.cur) ts e s) (hcs : s.cs = cs)
    (k : P α Unit) (Q : Unit → BP α → Prop)
    (hk : ∀ (s2 : BP α), GE (CovQ (Wordy cs) K ts s2.cur) ts e s2 → s2.cs = cs → s.cur ≤ s2.cur →
      (s.cur < ts.length → s.cur < s2.cur) → Sat k s2 Q) :
    Sat (textLineK (α := α) k) s Q := by
  unfold textLineK
  refine Sat.bind (currentOffset_sat h.g ?_)
  refine Sat.bind (Sat.getCur ?_)
  refine Sat.bind (Sat.mono ((consumeWhile_ge _ h).covWithCs (consumeWhile_indA _)) ?_)
  rintro _ s1 ⟨⟨g1, c1, -, -, hend⟩, cs1⟩
  refine Sat.bind (Sat.mono ((consumeK_ge _ g1).covWithCs (consumeK_indA _)) ?_)
  rintro r2 s2 ⟨⟨g2, h2⟩, cs2⟩
  have hprog : s1.cur ≤ s2.cur ∧ (s.cur < ts.length → s.cur < s2.cur) := by
    cases r2 with
    | some nl =>
      obtain ⟨-, -, c2⟩ := h2
      exact ⟨by omega, fun _ => by omega⟩
    | none =>
      obtain ⟨c2, hk'⟩ := h2
      refine ⟨by omega, fun hlt => ?_⟩
      rcases Nat.lt_or_ge s.cur s1.cur with h' | h'
      · omega
      · exfalso
        have e1 : s1.cur = s.cur := by omega
        have hget : ts[s1.cur]? = some ts[s1.cur] := List.getElem?_eq_getElem (by omega)
        have := hend _ hget
        apply hk'
        rw [hget]
        simp only [Option.map_some, Option.some.injEq]
        simpa using this
  refine Sat.bind (Sat.get ?_)
  dsimp only
  have hle : s.cur ≤ s2.cur := by omega
  have hcs2 : s2.cs = cs := by rw [cs2, cs1, hcs]
  have hr : RunAt (offAt ts s.cur) ((s2.toks.take s2.cur).drop s.cur) := by
    rw [g2.g.toks]; exact slice_runAt hw.wf.run hle
  refine Sat.bind (bpText_sat hr ?_)
  have hcov : ∀ i, s.cur ≤ i → i < s2.cur → ∀ t, ts[i]? = some t → Wordy cs t →
      (buildText (offAt ts s.cur) ((s2.toks.take s2.cur).drop s.cur)).isTextEmpty s2.cs = false ∧
      (buildText (offAt ts s.cur) ((s2.toks.take s2.cur).drop s.cur)).span.start ≤ tokBodyStart t ∧
      t.stop ≤ (buildText (offAt ts s.cur) ((s2.toks.take s2.cur).drop s.cur)).span.stop := by
    intro i k1 k2 t ht hct
    rw [g2.g.toks, hcs2]
    obtain ⟨-, m2, m3, m4⟩ := textRun_cover hw.wf hle k1 k2 ht hct
    exact ⟨m2, m3, m4⟩
  split
  · refine Sat.bind (Sat.pushEv ?_)
    refine hk _ (g2.push (g2.evs.pushCover _ ?_)) hcs2 hle hprog.2
    intro i k1 k2 t ht hct
    obtain ⟨-, m3, m4⟩ := hcov i k1 k2 t ht hct
    exact ⟨_, rfl, m3, m4⟩
  · rename_i hemp
    refine hk _ (g2.mono (fun hi => hi.advance ?_)) hcs2 hle hprog.2
    intro i k1 k2 t ht hct
    exfalso
    obtain ⟨m2, -, -⟩ := hcov i k1 k2 t ht hct
    apply hemp
    rw [m2]; rfl

theorem textBlockLoop_coverAll (hw : WFI off w ts) (fuel : Nat) (h : GE (CovQ (Wordy cs) K ts s.cur) ts e s)
    (hcs : s.cs = cs) (hf : ts.length - s.cur ≤ fuel) :
    Sat (textBlockLoop (α := α) fuel) s
      (fun _ s' => GE (CovQ (Wordy cs) K ts ts.length) ts e s' ∧ s'.cur = ts.length) := by
  have hle := h.le
  induction fuel generalizing s with
  | zero =>
    unfold textBlockLoop
    refine Sat.bind (restToks_sat h.g ?_)
    have : ts.drop s.cur = [] := List.drop_eq_nil_of_le (by omega)
    rw [this]
    have e1 : s.cur = ts.length := by omega
    exact Sat.pure ⟨by rw [← e1]; exact h, e1⟩
  | succ fuel ih =>
    unfold textBlockLoop
    refine Sat.bind (restToks_sat h.g ?_)
    split
    · rename_i hemp
      have := drop_isEmpty_true hemp
      have e1 : s.cur = ts.length := by omega
      exact Sat.pure ⟨by rw [← e1]; exact h, e1⟩
    · rename_i hemp
      have hlt := drop_isEmpty_false (by simpa using hemp)
      have tail : ∀ s1 : BP α, GE (CovQ (Wordy cs) K ts s1.cur) ts e s1 → s1.cs = cs → s.cur ≤ s1.cur →
          Sat (textLineK (α := α) (textBlockLoop fuel)) s1
            (fun _ s' => GE (CovQ (Wordy cs) K ts ts.length) ts e s' ∧ s'.cur = ts.length) := by
        intro s1 g1 cs1 c1
        refine textLineK_coverAll hw g1 cs1 _ _ ?_
        intro s2 g2 cs2 c2 hp
        have hle2 := g2.le
        have hle1 := g1.le
        refine ih g2 cs2 ?_ g2.le
        rcases Nat.lt_or_ge s1.cur ts.length with h' | h'
        · have := hp h'; omega
        · omega
      refine Sat.bind (Sat.mono ((consumeK_ge _ h).covWithCs (consumeK_indA _)) ?_)
      rintro r1 s1 ⟨⟨g1, h1⟩, cs1⟩
      cases r1 with
      | none => exact tail s1 (by rw [h1.1]; exact g1) (by rw [cs1, hcs]) (by omega)
      | some m =>
        obtain ⟨hm, hmk, c1⟩ := h1
        have g1' : GE (CovQ (Wordy cs) K ts s1.cur) ts e s1 := by
          refine g1.covAdv ?_
          intro i k1 k2 t ht hct
          have : i = s.cur := by omega
          subst this
          rw [hm] at ht
          simp only [Option.some.injEq] at ht
          subst ht
          exact hct.2.2.2.2.2 hmk
        dsimp only
        refine Sat.bind (Sat.mono ((consumeK_ge _ g1').covWithCs (consumeK_indA _)) ?_)
        rintro r2 s2 ⟨⟨g2, h2⟩, cs2⟩
        cases r2 with
        | none => exact tail s2 (by rw [h2.1]; exact g2) (by rw [cs2, cs1, hcs]) (by omega)
        | some w' =>
          obtain ⟨hw', hwk, c2⟩ := h2
          refine tail s2 ?_ (by rw [cs2, cs1, hcs]) (by omega)
          refine g2.covAdv ?_
          intro i k1 k2 t ht hct
          have : i = s1.cur := by omega
          subst this
          rw [hw'] at ht
          simp only [Option.some.injEq] at ht
          subst ht
          exact hct.2.2.1 hwk

theorem parseTextBlock_coverAll (hw : WFI off w ts) (h : GE (CovQ (Wordy cs) K ts s.cur) ts e s) (hcs : s.cs = cs) :
    Sat (parseTextBlock (α := α)) s
      (fun _ s' => GE (CovQ (Wordy cs) K ts ts.length) ts e s' ∧ s'.cur = ts.length) := by
  unfold parseTextBlock
  refine Sat.bind (Sat.pushEv ?_)
  have g1 : GE (CovQ (Wordy cs) K ts s.cur) ts e { s with evs := s.evs.push (.start .text) } := h.push (h.evs.push _)
  refine Sat.bind (restToks_sat g1.g ?_)
  refine Sat.bind (Sat.mono (textBlockLoop_coverAll hw _ g1 hcs (by simp)) ?_)
  rintro _ s2 ⟨g2, c2⟩
  exact Sat.pushEv ⟨g2.push (g2.evs.push _), c2⟩

/-! ### section and metadata lines: what the returned event covers -/

/-- all content tokens of the block lie inside the source span of the event -/
def EvCovers (cs : CharSpec) (ts : List Tok) (ev : Ev α) : Prop :=
  ∀ (i : Nat) (t : Tok), ts[i]? = some t → Wordy cs t →
    ∃ sp, ev.srcSpan = some sp ∧ sp.start ≤ tokBodyStart t ∧ t.stop ≤ sp.stop

/-- `section`: when a section event is returned (no `section-invalid` warning), every content token
    of the line is in the name, the name is not blank, and its span covers the token -/
theorem sectionP_coverAll (hw : WFI off w ts) (h : G ts e s) (h0 : s.cur = 0) (hcs : s.cs = cs) :
    Sat (sectionP (α := α)) s (fun r _ => ∀ ev, r = some ev → EvCovers cs ts ev) := by
  unfold sectionP
  refine Sat.bind (Sat.mono ((consumeK_sat _ h).covWithCs (consumeK_indA _)) ?_)
  rintro r1 s1 ⟨⟨g1, h1⟩, cs1⟩
  cases r1 with
  | none => exact Sat.pure (fun ev hev => by cases hev)
  | some m =>
    obtain ⟨hm, hmk, c1⟩ := h1
    refine Sat.bind (Sat.mono ((consumeWhile_sat _ g1).covWithCs (consumeWhile_indA _)) ?_)
    rintro eq1 s2 ⟨⟨g2, c2, he1, hall1, -⟩, cs2⟩
    refine Sat.bind (currentOffset_sat g2 ?_)
    refine Sat.bind (Sat.mono ((consumeWhile_sat _ g2).covWithCs (consumeWhile_indA _)) ?_)
    rintro nameT s3 ⟨⟨g3, c3, hn, -, -⟩, cs3⟩
    have hr : RunAt (offAt ts s2.cur) nameT := by rw [hn]; exact slice_runAt hw.wf.run c3
    refine Sat.bind (bpText_sat hr ?_)
    refine Sat.bind (Sat.mono ((consumeWhile_sat _ g3).covWithCs (consumeWhile_indA _)) ?_)
    rintro eq2 s4 ⟨⟨g4, c4, he2, hall2, -⟩, cs4⟩
    unfold wsComments
    refine Sat.bind (Sat.mono ((consumeWhile_sat _ g4).covWithCs (consumeWhile_indA _)) ?_)
    rintro wsT s5 ⟨⟨g5, c5, he3, hall3, -⟩, cs5⟩
    refine Sat.bind (restToks_sat g5 ?_)
    split
    · refine Sat.bind (Sat.pwarnE ?_)
      exact Sat.pure (fun ev hev => by cases hev)
    · rename_i hemp
      refine Sat.bind (Sat.get ?_)
      have hlen := drop_isEmpty_true (ts := ts) (c := s5.cur) (by simpa using hemp)
      have hcs5 : s5.cs = cs := by rw [cs5, cs4, cs3, cs2, cs1, hcs]
      refine Sat.pure ?_
      intro ev hev i t ht hct
      simp only [Option.some.injEq] at hev
      subst hev
      have hi : i < ts.length := getElem?_lt ht
      by_cases a0 : i < s1.cur
      · exfalso
        have : i = s.cur := by omega
        subst this
        rw [hm] at ht
        simp only [Option.some.injEq] at ht
        subst ht
        exact hct.2.2.2.2.1 hmk
      by_cases a1 : i < s2.cur
      · exfalso
        have := hall1 t (by rw [he1]; exact cover_mem_slice (by omega) a1 ht)
        exact hct.2.2.2.2.1 (by simpa using this)
      by_cases a2 : i < s3.cur
      · obtain ⟨-, m2, m3, m4⟩ := textRun_cover hw.wf c3 (by omega) a2 ht hct
        have hne : (buildText (offAt ts s2.cur) nameT).isTextEmpty s5.cs = false := by
          rw [hcs5, hn]; exact m2
        refine ⟨(buildText (offAt ts s2.cur) nameT).span, ?_, ?_, ?_⟩
        · simp only [hne, Bool.false_eq_true, if_false, Ev.srcSpan]
        · rw [hn]; exact m3
        · rw [hn]; exact m4
      by_cases a3 : i < s4.cur
      · exfalso
        have := hall2 t (by rw [he2]; exact cover_mem_slice (by omega) a3 ht)
        exact hct.2.2.2.2.1 (by simpa using this)
      · exfalso
        have := hall3 t (by rw [he3]; exact cover_mem_slice (by omega) (by omega) ht)
        rw [hct.notWsComment] at this; cases this

/-- `metadata_entry`: when an entry is returned, the span `key.start .. value.end` covers every
    content token of the line (everything but the `>>`) -/
theorem metadataEntry_coverAll (hw : WFI off w ts) (h : G ts e s) (h0 : s.cur = 0) :
    Sat (metadataEntry (α := α)) s (fun r _ => ∀ ev, r = some ev → EvCovers cs ts ev) := by
  unfold metadataEntry
  refine Sat.bind (Sat.mono (consumeK_sat _ h) ?_)
  rintro r1 s1 ⟨g1, h1⟩
  cases r1 with
  | none => exact Sat.pure (fun ev hev => by cases hev)
  | some m =>
    obtain ⟨hm, hmk, c1⟩ := h1
    refine Sat.bind (currentOffset_sat g1 ?_)
    refine Sat.bind (Sat.mono (untilK_sat _ g1) ?_)
    rintro r2 s2 ⟨g2, h2⟩
    cases r2 with
    | none =>
      unfold bpSpan
      refine Sat.bind (Sat.bind (Sat.get ?_))
      refine tokensSpanP_sat (by rw [g2.toks]; exact hw.ne) ?_
      refine Sat.bind (Sat.pwarnE ?_)
      exact Sat.pure (fun ev hev => by cases hev)
    | some keyT =>
      obtain ⟨c2, hkey, ⟨c, hcl, hck⟩, -⟩ := h2
      have hr : RunIn off w (offAt ts s1.cur) keyT := by rw [hkey]; exact hw.slice c2
      refine Sat.bind (bpText_sat hr.run ?_)
      refine Sat.bind (Sat.mono (bump_sat g2 hcl (by simpa using hck)) ?_)
      rintro _ s3 ⟨-, g3, c3⟩
      refine Sat.bind (currentOffset_sat g3 ?_)
      refine Sat.bind (Sat.mono (consumeRest_sat g3) ?_)
      rintro valT s4 ⟨g4, c4, hv⟩
      have hr2 : RunIn off w (offAt ts s3.cur) valT := by rw [hv]; exact hw.slice g3.le
      refine Sat.bind (bpText_sat hr2.run ?_)
      refine Sat.bind (Sat.get ?_)
      dsimp only
      have key : EvCovers cs ts (Ev.metadata (α := α) (buildText (offAt ts s1.cur) keyT)
          (buildText (offAt ts s3.cur) valT)) := by
        intro i t ht hct
        have hrg := hr.text_range
        have hrg2 := hr2.text_range
        have e1 : lastStop (offAt ts s1.cur) keyT = offAt ts s2.cur := by rw [hkey]; exact offAt_slice c2
        rw [e1] at hrg
        have hks : (buildText (offAt ts s1.cur) keyT).span.start ≤ (buildText (offAt ts s1.cur) keyT).span.stop :=
          hr.text.1.2.2
        have hvs : (buildText (offAt ts s3.cur) valT).span.start ≤ (buildText (offAt ts s3.cur) valT).span.stop :=
          hr2.text.1.2.2
        have hmono := hw.offAt_mono (show s2.cur ≤ s3.cur by omega)
        have hi : i < ts.length := getElem?_lt ht
        refine ⟨⟨_, _⟩, rfl, ?_, ?_⟩
        · show (buildText (offAt ts s1.cur) keyT).span.start ≤ tokBodyStart t
          by_cases a0 : i < s1.cur
          · exfalso
            have : i = s.cur := by omega
            subst this
            rw [hm] at ht
            simp only [Option.some.injEq] at ht
            subst ht
            exact hct.2.2.2.1 hmk
          by_cases a1 : i < s2.cur
          · obtain ⟨-, -, m3, -⟩ := textRun_cover hw.wf c2 (by omega) a1 ht hct
            rw [hkey]; exact m3
          · have := (hw.tokAt ht).1
            have := hw.offAt_mono (show s2.cur ≤ i by omega)
            have := cov_tokBodyStart_ge t
            omega
        · show t.stop ≤ (buildText (offAt ts s3.cur) valT).span.stop
          by_cases a1 : i < s3.cur
          · have := (hw.tokAt ht).2
            have := hw.offAt_mono (show i + 1 ≤ s3.cur by omega)
            omega
          · obtain ⟨-, -, -, m4⟩ := textRun_cover hw.wf g3.le (by omega) hi ht hct
            rw [hv]; exact m4
      have fin : ∀ s' : BP α, Sat (pure (some (Ev.metadata (α := α) (buildText (offAt ts s1.cur) keyT)
          (buildText (offAt ts s3.cur) valT))) : P α (Option (Ev α))) s'
          (fun r _ => ∀ ev, r = some ev → EvCovers cs ts ev) := by
        intro s'
        refine Sat.pure ?_
        intro ev hev
        simp only [Option.some.injEq] at hev
        subst hev
        exact key
      split
      · refine Sat.bind (Sat.perrE ?_)
        exact fin _
      · split
        · refine Sat.bind (Sat.pwarnE ?_)
          exact fin _
        · exact fin _

/-- the finer statement for a metadata line: the content tokens before the first `:` lie inside the
    span of the KEY text, those after it inside the span of the VALUE text; the key ends before the
    value starts -/
def MetaCovers (cs : CharSpec) (ts : List Tok) (ev : Ev α) : Prop :=
  ∃ (key value : Text) (ci : Nat) (ct : Tok), ev = .metadata key value ∧ ts[ci]? = some ct ∧ ct.kind = .colon ∧
    (∀ (i : Nat) (t : Tok), i < ci → ts[i]? = some t → t.kind ≠ .colon) ∧
    key.span.stop ≤ ct.start ∧ ct.stop ≤ value.span.start ∧
    ∀ (i : Nat) (t : Tok), ts[i]? = some t → Wordy cs t →
      (i < ci → key.span.start ≤ tokBodyStart t ∧ t.stop ≤ key.span.stop) ∧
      (ci < i → value.span.start ≤ tokBodyStart t ∧ t.stop ≤ value.span.stop)

theorem metadataEntry_coverFine (hw : WFI off w ts) (h : G ts e s) (h0 : s.cur = 0) :
    Sat (metadataEntry (α := α)) s (fun r _ => ∀ ev, r = some ev → MetaCovers cs ts ev) := by
  unfold metadataEntry
  refine Sat.bind (Sat.mono (consumeK_sat _ h) ?_)
  rintro r1 s1 ⟨g1, h1⟩
  cases r1 with
  | none => exact Sat.pure (fun ev hev => by cases hev)
  | some m =>
    obtain ⟨hm, hmk, c1⟩ := h1
    refine Sat.bind (currentOffset_sat g1 ?_)
    refine Sat.bind (Sat.mono (untilK_sat _ g1) ?_)
    rintro r2 s2 ⟨g2, h2⟩
    cases r2 with
    | none =>
      unfold bpSpan
      refine Sat.bind (Sat.bind (Sat.get ?_))
      refine tokensSpanP_sat (by rw [g2.toks]; exact hw.ne) ?_
      refine Sat.bind (Sat.pwarnE ?_)
      exact Sat.pure (fun ev hev => by cases hev)
    | some keyT =>
      obtain ⟨c2, hkey, ⟨c, hcl, hck⟩, hnocolon⟩ := h2
      have hr : RunIn off w (offAt ts s1.cur) keyT := by rw [hkey]; exact hw.slice c2
      refine Sat.bind (bpText_sat hr.run ?_)
      refine Sat.bind (Sat.mono (bump_sat g2 hcl (by simpa using hck)) ?_)
      rintro _ s3 ⟨-, g3, c3⟩
      refine Sat.bind (currentOffset_sat g3 ?_)
      refine Sat.bind (Sat.mono (consumeRest_sat g3) ?_)
      rintro valT s4 ⟨g4, c4, hv⟩
      have hr2 : RunIn off w (offAt ts s3.cur) valT := by rw [hv]; exact hw.slice g3.le
      refine Sat.bind (bpText_sat hr2.run ?_)
      refine Sat.bind (Sat.get ?_)
      dsimp only
      have key : MetaCovers cs ts (Ev.metadata (α := α) (buildText (offAt ts s1.cur) keyT)
          (buildText (offAt ts s3.cur) valT)) := by
        have hrg := hr.text_range
        have hrg2 := hr2.text_range
        have e1 : lastStop (offAt ts s1.cur) keyT = offAt ts s2.cur := by rw [hkey]; exact offAt_slice c2
        rw [e1] at hrg
        have hck' : c.kind = .colon := by simpa using hck
        refine ⟨_, _, s2.cur, c, rfl, hcl, hck', ?_, ?_, ?_, ?_⟩
        · intro i t hi ht hk
          by_cases a0 : i < s1.cur
          · have : i = s.cur := by omega
            subst this
            rw [hm] at ht
            simp only [Option.some.injEq] at ht
            subst ht
            rw [hmk] at hk; cases hk
          · have := hnocolon t (by rw [hkey]; exact cover_mem_slice (by omega) hi ht)
            rw [hk] at this; simp at this
        · rw [(hw.tokAt hcl).1]; exact hrg.2
        · rw [(hw.tokAt hcl).2, ← c3]; exact hrg2.1
        · intro i t ht hct
          have hi : i < ts.length := getElem?_lt ht
          refine ⟨fun a1 => ?_, fun a1 => ?_⟩
          · have a0 : ¬ i < s1.cur := by
              intro a0
              have : i = s.cur := by omega
              subst this
              rw [hm] at ht
              simp only [Option.some.injEq] at ht
              subst ht
              exact hct.2.2.2.1 hmk
            obtain ⟨-, -, m3, m4⟩ := textRun_cover hw.wf c2 (by omega) a1 ht hct
            rw [hkey]; exact ⟨m3, m4⟩
          · obtain ⟨-, -, m3, m4⟩ := textRun_cover hw.wf g3.le (by omega) hi ht hct
            rw [hv]; exact ⟨m3, m4⟩
      have fin : ∀ s' : BP α, Sat (pure (some (Ev.metadata (α := α) (buildText (offAt ts s1.cur) keyT)
          (buildText (offAt ts s3.cur) valT))) : P α (Option (Ev α))) s'
          (fun r _ => ∀ ev, r = some ev → MetaCovers cs ts ev) := by
        intro s'
        refine Sat.pure ?_
        intro ev hev
        simp only [Option.some.injEq] at hev
        subst hev
        exact key
      split
      · refine Sat.bind (Sat.perrE ?_)
        exact fin _
      · split
        · refine Sat.bind (Sat.pwarnE ?_)
          exact fin _
        · exact fin _

/-! ### blocks -/

theorem parseMultilineBlock_coverAll (hw : WFI off w ts) (hz : Boundary off w 0)
    (h : GE (CovQ (Wordy cs) K ts s.cur) ts e s) (hcs : s.cs = cs) :
    Sat (parseMultilineBlock (α := α)) s
      (fun _ s' => GE (CovQ (Wordy cs) K ts ts.length) ts e s' ∧ s'.cur = ts.length) := by
  unfold parseMultilineBlock
  refine Sat.bind (allToks_sat h.g ?_)
  split
  · rename_i hall
    refine Sat.bind (Sat.mono (consumeRest_ge h) ?_)
    rintro _ s1 ⟨g1, c1, -⟩
    refine Sat.pure ⟨g1.covAdv ?_, c1⟩
    intro i _ _ t ht hct
    rw [List.all_eq_true] at hall
    have := hall t (List.mem_of_getElem? ht)
    rw [hct.notEmptyTok] at this; cases this
  · refine Sat.bind (peekK_sat h.g ?_)
    split
    · exact parseTextBlock_coverAll hw h hcs
    · exact parseStep_coverAll hw hz (fun t ht hc => hc.hasBody (hw.wf.run.2 t ht)) h

theorem parseBlock_coverAll (oldStyle : Bool) (hw : WFI off w ts) (hz : Boundary off w 0)
    (h : GE (CovQ (Wordy cs) K ts 0) ts e s) (h0 : s.cur = 0) (hcs : s.cs = cs) :
    Sat (parseBlock (α := α) oldStyle) s
      (fun _ s' => GE (CovQ (Wordy cs) K ts ts.length) ts e s' ∧ s'.cur = ts.length) := by
  have hc : Ctx off w (CovQ (α := α) (Wordy cs) K ts 0) ts := covCtx hw 0
  unfold parseBlock
  apply Sat.bind
  apply Sat.mono (Q := fun r s' => GE (CovQ (Wordy cs) K ts 0) ts e s' ∧ s'.cs = cs ∧
    match r with
    | none => s'.cur = 0
    | some ev => s'.cur = ts.length ∧ EvCovers cs ts ev)
  · refine Sat.bind (peekK_sat h.g ?_)
    split
    · apply withRecover_sat
      refine Sat.bind (Sat.mono (((metadataEntry_ev hc h).covBoth
        (metadataEntry_coverAll (cs := cs) hw h.g h0)).covWithCs metadataEntry_indA) ?_)
      rintro r1 s1 ⟨⟨⟨g1, h1, -⟩, hcv⟩, cs1⟩
      have hcs1 : s1.cs = cs := by rw [cs1, hcs]
      split
      · refine Sat.bind (Sat.get ?_)
        refine Sat.bind (hasExt_sat g1.g ?_)
        split
        · exact Sat.pure ⟨g1, hcs1, h1 rfl, hcv _ rfl⟩
        · exact Sat.pure ⟨g1.setCur h.le, hcs1, h0⟩
      · exact Sat.pure ⟨g1.setCur h.le, hcs1, h0⟩
    · apply withRecover_sat
      refine Sat.mono (((sectionP_ev hc h).covBoth
        (sectionP_coverAll (cs := cs) hw h.g h0 hcs)).covWithCs sectionP_indA) ?_
      rintro r1 s1 ⟨⟨⟨g1, h1, -⟩, hcv⟩, cs1⟩
      have hcs1 : s1.cs = cs := by rw [cs1, hcs]
      cases r1 with
      | none => exact ⟨g1.setCur h.le, hcs1, h0⟩
      | some ev => exact ⟨g1, hcs1, h1 rfl, hcv ev rfl⟩
    · exact Sat.pure ⟨h, hcs, h0⟩
  rintro r s1 ⟨g1, cs1, h1⟩
  cases r with
  | some ev =>
    obtain ⟨c1, hcv⟩ := h1
    exact Sat.pushEv ⟨g1.push (g1.evs.pushCover ev (fun i _ _ t ht hct => hcv i t ht hct)), c1⟩
  | none =>
    dsimp only at h1
    exact parseMultilineBlock_coverAll hw hz (by rw [h1]; exact g1) cs1

/-- **one block, any shape**: what was covered stays covered, and every content token of the block
    is covered afterwards -/
theorem runBlock_coverAll (cs : CharSpec) (ext : Ext) (oldStyle : Bool) (blk : List Tok) (evs : Array (Ev α))
    (hw : WFI off w blk) (hz : Boundary off w 0) (hK : ∀ t, K t → CoveredBy evs t) :
    (∀ t, K t → CoveredBy (runBlock cs ext oldStyle blk evs none).1 t) ∧
    ∀ t ∈ blk, Wordy cs t → CoveredBy (runBlock cs ext oldStyle blk evs none).1 t := by
  have g0 : GE (CovQ (Wordy cs) K blk 0) blk ext (⟨blk, 0, ext, cs, evs, none⟩ : BP α) :=
    ⟨⟨rfl, rfl, rfl, Nat.zero_le _⟩, hK, fun i hi => absurd hi (Nat.not_lt_zero _)⟩
  have hne : blk.isEmpty = false := by
    have := hw.ne
    cases blk <;> simp_all
  have key : Sat (do
      if blk.isEmpty then panicWith "BlockParser::new: empty tokens"
      parseBlock (α := α) oldStyle
      let s ← get
      if s.cur ≠ s.toks.length then panicWith "Block tokens not parsed") ⟨blk, 0, ext, cs, evs, none⟩
      (fun _ s' => CovQ (Wordy cs) K blk blk.length s'.evs) := by
    simp only [hne, Bool.false_eq_true, if_false]
    refine Sat.bind (Sat.mono (parseBlock_coverAll oldStyle hw hz g0 rfl rfl) ?_)
    rintro _ s1 ⟨g1, c1⟩
    refine Sat.bind (Sat.get ?_)
    have : s1.cur = s1.toks.length := by rw [g1.g.toks]; exact c1
    simp only [this, ne_eq, not_true_eq_false, if_false]
    exact Sat.pure g1.evs
  have key' : CovQ (Wordy cs) K blk blk.length (runBlock cs ext oldStyle blk evs none).1 := key
  refine ⟨key'.1, fun t ht hct => ?_⟩
  obtain ⟨i, hi, hget⟩ := List.mem_iff_getElem.1 ht
  exact key'.2 i hi t (by rw [List.getElem?_eq_getElem hi, hget]) hct

/-- the same from `WF` alone (no surrounding text needed): pad the block's own characters with
    `baseOff` one-byte characters -/
theorem cov_utf8Len_replicate_a (n : Nat) : utf8Len (List.replicate n 'a') = n := by
  induction n with
  | zero => rfl
  | succ n ih =>
    rw [List.replicate_succ, utf8Len_cons, ih]
    have : 'a'.utf8Size = 1 := by decide
    omega

theorem cov_wf_wfi {b : List Tok} (hw : WF b) :
    WFI 0 (List.replicate (baseOff b) 'a' ++ b.flatMap (·.text)) b :=
  ⟨hw.ne, ⟨hw.run, ⟨List.replicate (baseOff b) 'a', [], by simp, by simp [cov_utf8Len_replicate_a]⟩⟩⟩

theorem runBlock_coverAll_wf (cs : CharSpec) (ext : Ext) (oldStyle : Bool) (blk : List Tok)
    (evs : Array (Ev α)) (hw : WF blk) :
    ∀ t ∈ blk, Wordy cs t → CoveredBy (runBlock cs ext oldStyle blk evs none).1 t :=
  (runBlock_coverAll (K := fun _ => False) cs ext oldStyle blk evs (cov_wf_wfi hw) Boundary.first
    (fun _ h => h.elim)).2

/-- **step blocks, components included, every token with a body**: a block of adjacent tokens whose
    first token is none of `>>`, `=`, `>` and which is not blank is parsed as a step whose events
    cover every token that is not a comment — words, numbers, punctuation, whitespace, line breaks,
    the markers and braces of components (the generalisation of `runBlock_step_cover` to blocks
    with `@ # ~`) -/
theorem runBlock_step_coverB (cs : CharSpec) (ext : Ext) (oldStyle : Bool) (b : List Tok) (evs : Array (Ev α))
    (hw : WF b)
    (hhead : ∀ t, b.head? = some t → t.kind ≠ .metaStart ∧ t.kind ≠ .eq ∧ t.kind ≠ .textStep)
    (hnb : b.all (fun t => isEmptyTok t.kind) = false) :
    ∀ t ∈ b, HasBody t → CoveredBy (runBlock cs ext oldStyle b evs none).1 t := by
  have hwi := cov_wf_wfi hw
  have hz : Boundary 0 (List.replicate (baseOff b) 'a' ++ b.flatMap (·.text)) 0 := Boundary.first
  have g0 : GE (CovQ HasBody (fun _ => False) b 0) b ext (⟨b, 0, ext, cs, evs, none⟩ : BP α) :=
    ⟨⟨rfl, rfl, rfl, Nat.zero_le _⟩, fun _ h => h.elim, fun i hi => absurd hi (Nat.not_lt_zero _)⟩
  have hne : b.isEmpty = false := by
    have := hw.ne
    cases b <;> simp_all
  obtain ⟨t0, rest, rfl⟩ : ∃ t0 rest, b = t0 :: rest := by
    cases b with
    | nil => simp at hne
    | cons t0 rest => exact ⟨t0, rest, rfl⟩
  obtain ⟨k1, k2, k3⟩ := hhead t0 rfl
  have key : Sat (do
      if (t0 :: rest).isEmpty then panicWith "BlockParser::new: empty tokens"
      parseBlock (α := α) oldStyle
      let s ← get
      if s.cur ≠ s.toks.length then panicWith "Block tokens not parsed") ⟨t0 :: rest, 0, ext, cs, evs, none⟩
      (fun _ s' => CovQ HasBody (fun _ => False) (t0 :: rest) (t0 :: rest).length s'.evs) := by
    simp only [hne, Bool.false_eq_true, if_false]
    refine Sat.bind ?_
    apply Sat.mono (Q := fun _ s' => GE (CovQ HasBody (fun _ => False) (t0 :: rest) (t0 :: rest).length)
      (t0 :: rest) ext s' ∧ s'.cur = (t0 :: rest).length)
    · unfold parseBlock
      apply Sat.bind
      apply Sat.mono (Q := fun r s' => r = none ∧ s' = (⟨t0 :: rest, 0, ext, cs, evs, none⟩ : BP α))
      · refine Sat.bind (peekK_sat g0.g ?_)
        simp only [List.getElem?_cons_zero, Option.map_some]
        split
        · rename_i heq; simp only [Option.some.injEq] at heq; exact absurd heq k1
        · rename_i heq; simp only [Option.some.injEq] at heq; exact absurd heq k2
        · exact Sat.pure ⟨rfl, rfl⟩
      rintro r s1 ⟨rfl, rfl⟩
      dsimp only
      unfold parseMultilineBlock
      refine Sat.bind (allToks_sat g0.g ?_)
      rw [hnb]
      simp only [Bool.false_eq_true, if_false]
      refine Sat.bind (peekK_sat g0.g ?_)
      simp only [List.getElem?_cons_zero, Option.map_some]
      split
      · rename_i heq
        have : t0.kind = .textStep := by simpa using heq
        exact absurd this k3
      · exact parseStep_coverAll hwi hz (fun _ _ h => h) g0
    · rintro _ s1 ⟨g1, c1⟩
      refine Sat.bind (Sat.get ?_)
      have : s1.cur = s1.toks.length := by rw [g1.g.toks]; exact c1
      simp only [this, ne_eq, not_true_eq_false, if_false]
      exact Sat.pure g1.evs
  have key' : CovQ HasBody (fun _ => False) (t0 :: rest) (t0 :: rest).length
      (runBlock cs ext oldStyle (t0 :: rest) evs none).1 := key
  intro t ht hb
  obtain ⟨i, hi, hget⟩ := List.mem_iff_getElem.1 ht
  exact key'.2 i hi t (by rw [List.getElem?_eq_getElem hi, hget]) hb

/-! ### whole inputs -/

theorem foldl_runBlock_coverAll (cs : CharSpec) (ext : Ext) (oldStyle : Bool) (blocks : List (List Tok))
    (K : Tok → Prop) (acc : Array (Ev α) × Option String) {b : Nat} (hz : Boundary off w 0)
    (hbl : BlocksIn off w b blocks) (hp : acc.2 = none) (hK : ∀ t, K t → CoveredBy acc.1 t) :
    (∀ t, K t → CoveredBy
      (blocks.foldl (fun acc blk => runBlock (α := α) cs ext oldStyle blk acc.1 acc.2) acc).1 t) ∧
    ∀ blk ∈ blocks, ∀ t ∈ blk, Wordy cs t → CoveredBy
      (blocks.foldl (fun acc blk => runBlock (α := α) cs ext oldStyle blk acc.1 acc.2) acc).1 t := by
  induction blocks generalizing K acc b with
  | nil => exact ⟨hK, fun blk hb => by cases hb⟩
  | cons blk bs ih =>
    rw [List.foldl_cons]
    obtain ⟨hw, hb, hrest⟩ := hbl
    have h1 := runBlock_no_panic (α := α) cs ext oldStyle blk acc.1 hw.wf
    have hcov := runBlock_coverAll (K := K) cs ext oldStyle blk acc.1 hw hz hK
    obtain ⟨k1, k2⟩ := ih (fun t => K t ∨ (t ∈ blk ∧ Wordy cs t))
      (runBlock (α := α) cs ext oldStyle blk acc.1 acc.2) hrest (by rw [hp]; exact h1)
      (by
        rw [hp]
        rintro t (ht | ⟨ht, hct⟩)
        · exact hcov.1 t ht
        · exact hcov.2 t ht hct)
    refine ⟨fun t ht => k1 t (Or.inl ht), ?_⟩
    intro blk' hb' t ht hct
    simp only [List.mem_cons] at hb'
    rcases hb' with rfl | hb'
    · exact k1 t (Or.inr ⟨ht, hct⟩)
    · exact k2 blk' hb' t ht hct

/-- the token stream `PullParser` splits into blocks: the lexed input, or the lexed body after the
    front matter (at its byte offset) -/
def bodyToks (cs : CharSpec) (input : List Char) : List Tok :=
  match parseFrontmatter cs input with
  | some fm => lexFrom cs fm.cookOffset fm.cookText
  | none => lex cs input

theorem cov_wordy_in_block {cs : CharSpec} (ts : List Tok) {t : Tok} (ht : t ∈ ts) (hct : Wordy cs t) :
    ∃ b ∈ allBlocks (ts.length + 1) ts, t ∈ b := by
  have h := blocks_all_drops (ts.length + 1) ts (by omega)
  false_or_by_contra
  rename_i hc
  have : t ∉ (allBlocks (ts.length + 1) ts).flatten := by
    intro hm
    obtain ⟨b, hb, htb⟩ := List.mem_flatten.1 hm
    exact hc ⟨b, hb, htb⟩
  have := blocks_drops_mem h t ht this
  rw [hct.notEmptyTok] at this; cases this

/-- **the whole input**: every content token of the body is covered by an event of the pull parser -/
theorem pullEvents_coverAll (cs : CharSpec) (ext : Ext) (input : List Char) :
    ∀ t ∈ bodyToks cs input, Wordy cs t → CoveredBy (pullEvents (α := α) cs ext input).1 t := by
  intro t ht hct
  have hz : Boundary 0 input 0 := Boundary.first
  have hfm := frontMatterOffsetsOK cs input
  unfold pullEvents
  unfold bodyToks at ht
  cases hp : parseFrontmatter cs input with
  | none =>
    rw [hp] at ht
    simp only at ht ⊢
    obtain ⟨b, hb, htb⟩ := cov_wordy_in_block _ ht hct
    have hbl : BlocksIn 0 input 0 (allBlocks ((lex cs input).length + 1) (lex cs input)) := by
      apply allBlocks_blocksIn _ _ 0 _ (Nat.le_refl _)
      unfold lex
      exact ⟨⟨lexFrom_chain cs 0 input, lexFrom_escapedOK cs 0 input⟩,
        ⟨[], [], by simp [lexFrom_tile], by simp [utf8Len]⟩⟩
    exact (foldl_runBlock_coverAll cs ext true _ (fun _ => False) (#[], none) hz hbl rfl
      (fun _ h => h.elim)).2 b hb t htb hct
  | some fm =>
    rw [hp] at ht
    simp only at ht ⊢
    obtain ⟨⟨pre, h1, h2⟩, -⟩ := hfm fm hp
    obtain ⟨b, hb, htb⟩ := cov_wordy_in_block _ ht hct
    have hbl : BlocksIn 0 input 0 (allBlocks ((lexFrom cs fm.cookOffset fm.cookText).length + 1)
        (lexFrom cs fm.cookOffset fm.cookText)) := by
      apply allBlocks_blocksIn _ _ fm.cookOffset _ (Nat.zero_le _)
      exact ⟨⟨lexFrom_chain cs _ _, lexFrom_escapedOK cs _ _⟩,
        ⟨pre, [], by simp [lexFrom_tile, h1], by simp [h2]⟩⟩
    exact (foldl_runBlock_coverAll cs ext false _ (fun _ => False) (_, none) hz hbl rfl
      (fun _ h => h.elim)).2 b hb t htb hct

/-! ### letters and digits -/

/-- what the property needs of the character tables: a letter or digit (`char::is_alphanumeric`)
    is not white space (neither `char::is_whitespace` nor the lexer's whitespace class) and is none
    of the characters `>`, `=`, backslash, LF, CR, `-`.  True of the Unicode tables of the
    implementation. -/
structure AlnumSpec (cs : CharSpec) : Prop where
  notWs : ∀ c, cs.alnum c = true → cs.uws c = false ∧ cs.ws c = false
  notSyntax : ∀ c, cs.alnum c = true → c ≠ '>' ∧ c ≠ '=' ∧ c ≠ '\\' ∧ c ≠ '\n' ∧ c ≠ '\r' ∧ c ≠ '-'

theorem cov_singleKind_eq_char {c : Char} (h : singleKind c = some .eq) : c = '=' := by
  unfold singleKind at h
  cases hf : singleTable.find? (fun p => p.1 == c) with
  | none => rw [hf] at h; simp at h
  | some q =>
    rw [hf] at h
    simp only [Option.map_some, Option.some.injEq] at h
    have hm := List.mem_of_find?_eq_some hf
    have hq := List.find?_some hf
    have hc : q.1 = c := by simpa using hq
    have tbl : ∀ q ∈ singleTable, q.2 = TK.eq → q.1 = '=' := by decide
    rw [← hc]; exact tbl q hm h

/-- a lexed token that is not a comment and contains a letter or digit is a content token -/
theorem cov_wordy_of_alnum {cs : CharSpec} (hs : AlnumSpec cs) {t : Tok} {nx : Option Char}
    (hsp : spellOK cs t.kind t.text nx = true) (hlc : t.kind ≠ .lineComment) (hbc : t.kind ≠ .blockComment)
    {c : Char} (hc : c ∈ t.text) (ha : cs.alnum c = true) : Wordy cs t := by
  have hu := (hs.notWs c ha).1
  have hws := (hs.notWs c ha).2
  obtain ⟨n1, n2, n3, n4, n5, -⟩ := hs.notSyntax c ha
  have generic : (t.kind ≠ .newline ∧ t.kind ≠ .escaped ∧ t.kind ≠ .ws ∧ t.kind ≠ .metaStart ∧
      t.kind ≠ .eq ∧ t.kind ≠ .textStep) → Wordy cs t := by
    rintro ⟨h1, h2, h3, h4, h5, h6⟩
    refine ⟨⟨c, ?_, hu⟩, h1, h3, h4, h5, h6⟩
    unfold vis
    split <;> first | contradiction | exact hc
  cases htxt : t.text with
  | nil => rw [htxt] at hc; cases hc
  | cons x r =>
    rw [htxt] at hsp hc
    by_cases k1 : t.kind = .newline
    · exfalso
      rw [k1] at hsp
      simp only [spellOK, Bool.or_eq_true, Bool.and_eq_true, beq_iff_eq, List.isEmpty_iff] at hsp
      rcases hsp with ⟨rfl, rfl⟩ | ⟨rfl, rfl⟩
      · simp at hc; exact n4 hc
      · simp at hc; rcases hc with hc | hc
        · exact n5 hc
        · exact n4 hc
    by_cases k2 : t.kind = .escaped
    · rw [k2] at hsp
      simp only [spellOK, Bool.and_eq_true, beq_iff_eq] at hsp
      obtain ⟨rfl, -⟩ := hsp
      have hcr : c ∈ r := by
        simp only [List.mem_cons] at hc
        rcases hc with hc | hc
        · exact absurd hc n3
        · exact hc
      refine ⟨⟨c, ?_, hu⟩, k1, by simp [k2], by simp [k2], by simp [k2], by simp [k2]⟩
      unfold vis
      rw [k2, htxt]
      exact hcr
    by_cases k3 : t.kind = .ws
    · exfalso
      rw [k3] at hsp
      simp only [spellOK, Bool.and_eq_true] at hsp
      obtain ⟨⟨⟨-, hx⟩, hr⟩, -⟩ := hsp
      simp only [List.mem_cons] at hc
      rcases hc with rfl | hc
      · rw [hws] at hx; cases hx
      · rw [List.all_eq_true] at hr
        have := hr c hc
        rw [hws] at this; cases this
    by_cases k4 : t.kind = .metaStart
    · exfalso
      rw [k4] at hsp
      simp only [spellOK, Bool.and_eq_true, beq_iff_eq] at hsp
      obtain ⟨rfl, rfl⟩ := hsp
      simp at hc
      exact n1 hc
    by_cases k5 : t.kind = .eq
    · exfalso
      rw [k5] at hsp
      simp only [spellOK, Bool.and_eq_true, beq_iff_eq, List.isEmpty_iff] at hsp
      obtain ⟨rfl, hk⟩ := hsp
      have := cov_singleKind_eq_char hk
      simp at hc
      exact n2 (hc.trans this)
    by_cases k6 : t.kind = .textStep
    · exfalso
      rw [k6] at hsp
      simp only [spellOK, Bool.and_eq_true, beq_iff_eq, List.isEmpty_iff] at hsp
      obtain ⟨⟨rfl, rfl⟩, -⟩ := hsp
      simp at hc
      exact n1 hc
    · rw [← htxt] at hc
      exact generic ⟨k1, k2, k3, k4, k5, k6⟩

/-- **letters and digits of the body**: every token of the token stream that is not a comment and
    contains a letter or digit is covered by an event -/
theorem pullEvents_alnum_covered (cs : CharSpec) (hs : AlnumSpec cs) (ext : Ext) (input : List Char)
    (t : Tok) (ht : t ∈ bodyToks cs input) (hlc : t.kind ≠ .lineComment) (hbc : t.kind ≠ .blockComment)
    (c : Char) (hc : c ∈ t.text) (ha : cs.alnum c = true) :
    CoveredBy (pullEvents (α := α) cs ext input).1 t := by
  apply pullEvents_coverAll cs ext input t ht
  have hwsp : WellSpelled cs (bodyToks cs input) := by
    unfold bodyToks
    split
    · exact lexFrom_wellSpelled cs _ _
    · exact lexFrom_wellSpelled cs _ _
  obtain ⟨nx, hsp⟩ := wellSpelled_mem hwsp ht
  exact cov_wordy_of_alnum hs hsp hlc hbc hc ha

end Cook
