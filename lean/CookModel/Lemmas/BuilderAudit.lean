import CookModel.Lemmas.BuilderFinish
import CookModel.Lemmas.BuilderDeclared
/- C16 — lemmas added by the clause audit (notes/audit-C16.md): every extend block (not only the last one) is applied
   to a consistent state; units declared twice are rejected whatever follows; what the declared units keep through the
   extend blocks; the fraction tables of the converter; the members of a best list. -/
namespace Cook.Bld
open Cook

/-! ## Every extend block -/

/-- splitting the fold of `apply_extend_groups` at any block: the state before the block is consistent -/
theorem audit_applyExtendGroups_split {α : Type} [Arith α] (si : SIConf) (pre : List (Extend α)) (g : Extend α)
    (post : List (Extend α)) (c c' : Core α) (hc : Ready c) (hsi : SIInv si c.units)
    (h : applyExtendGroups si (pre ++ g :: post) c = .ok c') :
    ∃ c0 c1, Ready c0 ∧ SIInv si c0.units ∧ applyExtendGroups si pre c = .ok c0 ∧ applyExtendGroup si c0 g = .ok c1 ∧
      Ready c1 ∧ SIInv si c1.units ∧ applyExtendGroups si post c1 = .ok c' := by
  induction pre generalizing c with
  | nil =>
    simp only [List.nil_append, applyExtendGroups] at h
    split at h
    · cases h
    · rename_i c1 hc1
      have hg := applyExtendGroup_good si c g hc
      rw [hc1] at hg
      exact ⟨c, c1, hc, hsi, rfl, hc1, hg, applyExtendGroup_si si c c1 g hc hsi hc1, h⟩
  | cons g0 pre ih =>
    simp only [List.cons_append, applyExtendGroups] at h
    split at h
    · cases h
    · rename_i c0 hc0
      have hg := applyExtendGroup_good si c g0 hc
      rw [hc0] at hg
      obtain ⟨d0, d1, h1, h2, h3, h4, h5, h6, h7⟩ := ih c0 hg (applyExtendGroup_si si c c0 g0 hc hsi hc0) h
      exact ⟨d0, d1, h1, h2, by simp only [applyExtendGroups, hc0]; exact h3, h4, h5, h6, h7⟩

/-- the pieces of `buildCore`: layers added, SI expansion, then the blocks of all layers in layer order -/
theorem audit_buildCore_parts {α : Type} [Arith α] (files : List (UnitsFile α)) (b : Builder α) (c : Core α)
    (h : buildCore files = .ok (b, c)) :
    addFiles files Builder.empty = .ok b ∧ BOK b ∧ b.core.units = declared files ∧
    ∃ ce, expandAll b.si b.core = .ok ce ∧ Ready ce ∧ SIInv b.si ce.units ∧
      b.extend = files.filterMap (·.extend) ∧ applyExtendGroups b.si b.extend ce = .ok c := by
  unfold buildCore at h
  split at h
  · cases h
  · rename_i b0 hb0
    split at h
    · cases h
    · rename_i c1 hc1
      cases h
      have hbok := (addFiles_good files Builder.empty BOK.empty).of_ok hb0
      have hunits : b.core.units = declared files := by rw [addFiles_units hb0]; simp [Builder.empty]
      obtain ⟨hext, _⟩ := addFiles_settings hb0
      refine ⟨hb0, hbok, hunits, ?_⟩
      unfold finishCore at hc1
      split at hc1
      · cases hc1
      · rename_i ce hce
        exact ⟨ce, hce, (expandAll_good b.si b.core hbok.1).of_ok hce, expandAll_si b.si b.core ce hbok.1 hce,
          by rw [hext]; simp [Builder.empty], hc1⟩

/-! ## Units declared twice -/

/-- two declared units that share a key cannot both be added: `add_units_file` fails, before `finish` is reached -/
theorem audit_declared_no_shared_key {α : Type} (files : List (UnitsFile α)) (b : Builder α)
    (h : addFiles files Builder.empty = .ok b) (i j : Nat) (x y : UnitB α) (k : Key)
    (hx : (declared files)[i]? = some x) (hy : (declared files)[j]? = some y) (hkx : k ∈ x.unit.keys) (hky : k ∈ y.unit.keys) :
    i = j := by
  have hbok := (addFiles_good files Builder.empty BOK.empty).of_ok h
  have hunits : b.core.units = declared files := by rw [addFiles_units h]; simp [Builder.empty]
  rw [← hunits] at hx hy
  exact hbok.1.1.no_shared_key hx hy hkx hky

/-- what every declared unit satisfies once it is added: its keys are pairwise distinct, none is blank, there is one -/
theorem audit_addUnit_keys {α : Type} {c : Core α} {u : UnitB α} {r : Core α × Nat} (h : c.addUnit u = .ok r) :
    u.unit.keys.Nodup ∧ (∀ k ∈ u.unit.keys, isBlankKey k = false) ∧ u.unit.keys ≠ [] := by
  obtain ⟨_, _, hidx⟩ := addUnit_ok h
  obtain ⟨_, _, h3, h4, h5⟩ := indexAddUnit_ok hidx
  exact ⟨h3, h4, h5⟩

def KeysOK {α : Type} (u : UnitB α) : Prop :=
  u.unit.keys.Nodup ∧ (∀ k ∈ u.unit.keys, isBlankKey k = false) ∧ u.unit.keys ≠ []

theorem audit_addUnitsList_keys {α : Type} (q : PQ) (sys : Option Sys) (es : List (UnitEntry α)) (c c' : Core α)
    (h : addUnitsList q sys es c = .ok c') : ∀ e ∈ es, KeysOK (mkUnitB q sys e) := by
  induction es generalizing c with
  | nil => simp
  | cons e es ih =>
    unfold addUnitsList at h
    split at h
    · cases h
    · rename_i r hr
      intro e' he'
      rcases List.mem_cons.mp he' with rfl | he'
      · exact audit_addUnit_keys hr
      · exact ih r.1 h e' he'

theorem audit_addGroupUnits_keys {α : Type} (q : PQ) (d : Option (UnitsDecl α)) (c c' : Core α)
    (h : addGroupUnits q d c = .ok c') : ∀ x ∈ declGroupUnits q d, KeysOK x := by
  unfold addGroupUnits at h
  split at h
  · simp [declGroupUnits]
  · intro x hx
    simp only [declGroupUnits, List.mem_map] at hx
    obtain ⟨e, he, rfl⟩ := hx
    exact audit_addUnitsList_keys q none _ c c' h e he
  · split at h
    · cases h
    · rename_i c1 h1
      split at h
      · cases h
      · rename_i c2 h2
        intro x hx
        simp only [declGroupUnits, List.mem_append, List.mem_map] at hx
        rcases hx with (⟨e, he, rfl⟩ | ⟨e, he, rfl⟩) | ⟨e, he, rfl⟩
        · exact audit_addUnitsList_keys q _ _ c c1 h1 e he
        · exact audit_addUnitsList_keys q _ _ c1 c2 h2 e he
        · exact audit_addUnitsList_keys q _ _ c2 c' h e he

theorem audit_addGroups_keys {α : Type} (gs : List (QuantityGroup α)) (b b' : Builder α) (h : addGroups gs b = .ok b') :
    ∀ x ∈ gs.flatMap (fun g => declGroupUnits g.quantity g.units), KeysOK x := by
  induction gs generalizing b with
  | nil => simp
  | cons g gs ih =>
    unfold addGroups at h
    split at h
    · cases h
    · rename_i b1 hb1
      intro x hx
      simp only [List.flatMap_cons, List.mem_append] at hx
      rcases hx with hx | hx
      · unfold addGroup at hb1
        split at hb1
        · cases hb1
        · rename_i c hc
          exact audit_addGroupUnits_keys g.quantity g.units b.core c hc x hx
      · exact ih b1 h x hx

/-- every declared unit of a stack of layers that `add_units_file` accepts has a key, no blank key and no key twice -/
theorem audit_addFiles_keys {α : Type} (fs : List (UnitsFile α)) (b b' : Builder α) (h : addFiles fs b = .ok b') :
    ∀ x ∈ declared fs, KeysOK x := by
  induction fs generalizing b with
  | nil => simp [declared]
  | cons f fs ih =>
    unfold addFiles at h
    split at h
    · cases h
    · rename_i b1 hb1
      intro x hx
      simp only [declared, List.flatMap_cons, List.mem_append] at hx
      rcases hx with hx | hx
      · unfold addUnitsFile at hb1
        split at hb1
        · cases hb1
        · rename_i b0 hb0
          exact audit_addGroups_keys f.quantity b b0 hb0 x hx
      · exact ih b1 h x hx

/-! ## What a declared unit keeps through SI expansion and extend blocks -/

/-- quantity, system and the "is an SI expansion" flag -/
def SameKind {α : Type} (a b : UnitB α) : Prop :=
  a.unit.quantity = b.unit.quantity ∧ a.unit.system = b.unit.system ∧ a.isExpanded = b.isExpanded

theorem audit_applyExtendGroup_kind {α : Type} [Arith α] (si : SIConf) (c c' : Core α) (g : Extend α) (hc : Ready c)
    (h : applyExtendGroup si c g = .ok c') (j : Nat) (uj : UnitB α) (hj : c.units[j]? = some uj) (hne : uj.isExpanded = false) :
    ∃ uj', c'.units[j]? = some uj' ∧ SameKind uj' uj := by
  obtain ⟨_, s1, s2⟩ := applyExtendGroup_spec' si c c' g hc h
  by_cases hex : ∃ ke, ke ∈ g.units ∧ idxGet c.index ke.1 = some j
  · obtain ⟨ke, hke, hid⟩ := hex
    obtain ⟨id, u, u', h1, h2, h3, _, _, h6⟩ := s1 ke hke
    rw [hid] at h1; cases h1
    rw [hj] at h2; cases h2
    refine ⟨u', h3, ?_⟩
    rw [h6 hne]
    exact ⟨rfl, rfl, rfl⟩
  · obtain ⟨uj', h1, _, _, h4⟩ := s2 j uj (fun ke hke e => hex ⟨ke, hke, e⟩) hj
    exact ⟨uj', h1, by rw [h4 hne]; exact ⟨rfl, rfl, rfl⟩⟩

theorem audit_applyExtendGroups_kind {α : Type} [Arith α] (si : SIConf) (gs : List (Extend α)) (c c' : Core α) (hc : Ready c)
    (h : applyExtendGroups si gs c = .ok c') (j : Nat) (uj : UnitB α) (hj : c.units[j]? = some uj) (hne : uj.isExpanded = false) :
    ∃ uj', c'.units[j]? = some uj' ∧ SameKind uj' uj := by
  induction gs generalizing c uj with
  | nil => simp [applyExtendGroups] at h; subst h; exact ⟨uj, hj, rfl, rfl, rfl⟩
  | cons g gs ih =>
    unfold applyExtendGroups at h
    have hg := applyExtendGroup_good si c g hc
    split at h
    · cases h
    · rename_i c1 hc1; rw [hc1] at hg
      obtain ⟨u1, h1, k1⟩ := audit_applyExtendGroup_kind si c c1 g hc hc1 j uj hj hne
      obtain ⟨u2, h2, k2⟩ := ih c1 hg h u1 h1 (by rw [k1.2.2]; exact hne)
      exact ⟨u2, h2, k2.1.trans k1.1, k2.2.1.trans k1.2.1, k2.2.2.trans k1.2.2⟩

/-- a unit that no block addresses (by any of the keys it has when the block is applied) and that is not an SI
    expansion is, unchanged, in the result -/
theorem audit_applyExtendGroups_untouched {α : Type} [Arith α] (si : SIConf) (gs : List (Extend α)) (c c' : Core α) (hc : Ready c)
    (h : applyExtendGroups si gs c = .ok c') (j : Nat) (uj : UnitB α) (hj : c.units[j]? = some uj) (hne : uj.isExpanded = false)
    (hfree : ∀ g ∈ gs, ∀ ke ∈ g.units, ke.1 ∉ uj.unit.keys) : c'.units[j]? = some uj := by
  induction gs generalizing c with
  | nil => simp [applyExtendGroups] at h; subst h; exact hj
  | cons g gs ih =>
    unfold applyExtendGroups at h
    have hg := applyExtendGroup_good si c g hc
    split at h
    · cases h
    · rename_i c1 hc1; rw [hc1] at hg
      obtain ⟨_, _, s2⟩ := applyExtendGroup_spec' si c c1 g hc hc1
      have hnot : ∀ ke, ke ∈ g.units → idxGet c.index ke.1 ≠ some j := by
        intro ke hke e
        obtain ⟨_, u, hu, hk⟩ := hc.1.sound _ _ e
        rw [hj] at hu; cases hu
        exact hfree g (by simp) ke hke hk
      obtain ⟨uj', h1, _, _, h4⟩ := s2 j uj hnot hj
      rw [h4 hne] at h1
      exact ih c1 hg h h1 (fun g' hg' => hfree g' (by simp [hg']))

/-- quantity / system / flags of a declared unit survive the expansion loop -/
theorem audit_expandAll_kind {α : Type} [Arith α] (si : SIConf) (c ce : Core α) (hc : CoreOK c) (h : expandAll si c = .ok ce)
    (j : Nat) (x : UnitB α) (hj : c.units[j]? = some x) :
    ∃ y, ce.units[j]? = some y ∧ y.unit = x.unit ∧ y.isExpanded = x.isExpanded := by
  unfold expandAll at h
  rw [List.range_eq_range'] at h
  have h0 : ExpState c.units.length 0 c := by
    refine ⟨hc.1, Nat.le_refl _, ?_, ?_, ?_⟩
    · intro id u h; omega
    · intro id u _ _ h; exact hc.2 id u h
    · intro id u hge h; have := lt_of_getElem?_some h; omega
  obtain ⟨y, hy, e⟩ := expandLoop_unitfield si _ _ 0 (by omega) c ce h0 h c.units (fun i x hx => ⟨x, hx, rfl⟩) j x hj
  obtain ⟨y', hy', _, e'⟩ := expandLoop_flags si _ _ 0 (by omega) c ce h0 h c.units (FlagsFrom.refl _) j x hj
  rw [hy] at hy'; cases hy'
  exact ⟨y, hy, e, e'⟩

/-! ## Fractions -/

theorem audit_package_fractions {α : Type} [Arith α] (b : Builder α) (c : Core α) (conv : Converter α)
    (h : package b c = .ok conv) : buildFractions c b.fractions = .ok conv.fractions := by
  unfold package at h
  split at h
  · cases h
  · split at h
    · cases h
    · rename_i fr hfr; cases h; exact hfr

theorem audit_build_fractions {α : Type} [Arith α] (files : List (UnitsFile α)) (conv : Converter α) (h : build files = .ok conv) :
    ∃ b c, buildCore files = .ok (b, c) ∧ buildFractions c b.fractions = .ok conv.fractions := by
  unfold build at h
  unfold buildCore
  split at h
  · cases h
  · rename_i b hb
    unfold finish at h
    split at h
    · cases h
    · rename_i c hc
      exact ⟨b, c, by first | rfl | simp only [hb, hc], audit_package_fractions b c conv h⟩

/-- the entries of one layer's `unit` table, applied in iteration order: an id is in the result iff it was there or a key
    of the layer resolves to it; every key of the layer resolves -/
theorem audit_unitLayer_spec {α : Type} [Arith α] (c : Core α) (inh : Unit α → Option (FracH α))
    (l : List (Key × FracW α)) (m m' : List (Nat × FracCfg α)) (h : unitLayer c inh l m = .ok m') :
    (∀ kw ∈ l, ∃ id u, idxGet c.index kw.1 = some id ∧ c.units[id]? = some u) ∧
    (∀ id, (mapGet m' id).isSome = true ↔ ((mapGet m id).isSome = true ∨ ∃ kw ∈ l, idxGet c.index kw.1 = some id)) := by
  induction l generalizing m with
  | nil => simp [unitLayer] at h; subst h; simp
  | cons kw rest ih =>
    unfold unitLayer at h
    split at h
    · cases h
    · rename_i id hid
      split at h
      · cases h
      · rename_i u hu
        obtain ⟨i1, i2⟩ := ih _ h
        refine ⟨?_, ?_⟩
        · intro kw' hkw'
          rcases List.mem_cons.mp hkw' with rfl | hkw'
          · exact ⟨id, u, hid, hu⟩
          · exact i1 kw' hkw'
        · intro id'
          rw [i2 id', mapGet_mapInsert]
          constructor
          · rintro (h1 | ⟨kw', hkw', e⟩)
            · split at h1
              · rename_i e; subst e; exact Or.inr ⟨kw, by simp, hid⟩
              · exact Or.inl h1
            · exact Or.inr ⟨kw', by simp [hkw'], e⟩
          · rintro (h1 | ⟨kw', hkw', e⟩)
            · left; split
              · rfl
              · exact h1
            · rcases List.mem_cons.mp hkw' with rfl | hkw'
              · left; rw [hid] at e; cases e; simp
              · exact Or.inr ⟨kw', hkw', e⟩

theorem audit_unitLayers_spec {α : Type} [Arith α] (c : Core α) (inh : Unit α → Option (FracH α))
    (fs : List (FractionsDecl α)) (m m' : List (Nat × FracCfg α)) (h : unitLayers c inh fs m = .ok m') :
    (∀ f ∈ fs, ∀ kw ∈ f.unit, ∃ id u, idxGet c.index kw.1 = some id ∧ c.units[id]? = some u) ∧
    (∀ id, (mapGet m' id).isSome = true ↔
      ((mapGet m id).isSome = true ∨ ∃ f ∈ fs, ∃ kw ∈ f.unit, idxGet c.index kw.1 = some id)) := by
  induction fs generalizing m with
  | nil => simp [unitLayers] at h; subst h; simp
  | cons f fs ih =>
    unfold unitLayers at h
    split at h
    · cases h
    · rename_i m1 hm1
      obtain ⟨a1, a2⟩ := audit_unitLayer_spec c inh f.unit m m1 hm1
      obtain ⟨b1, b2⟩ := ih m1 h
      refine ⟨?_, ?_⟩
      · intro f' hf'
        rcases List.mem_cons.mp hf' with rfl | hf'
        · exact a1
        · exact b1 f' hf'
      · intro id
        rw [b2 id, a2 id]
        constructor
        · rintro ((h1 | ⟨kw, hkw, e⟩) | ⟨f', hf', kw, hkw, e⟩)
          · exact Or.inl h1
          · exact Or.inr ⟨f, by simp, kw, hkw, e⟩
          · exact Or.inr ⟨f', by simp [hf'], kw, hkw, e⟩
        · rintro (h1 | ⟨f', hf', kw, hkw, e⟩)
          · exact Or.inl (Or.inl h1)
          · rcases List.mem_cons.mp hf' with rfl | hf'
            · exact Or.inl (Or.inr ⟨kw, hkw, e⟩)
            · exact Or.inr ⟨f', hf', kw, hkw, e⟩

/-- `build_fractions_config` spelled out -/
theorem audit_buildFractions_spec {α : Type} [Arith α] (c : Core α) (layers : List (FractionsDecl α)) (fr : Fractions α)
    (h : buildFractions c layers = .ok fr) :
    fr.all = (lastLayer (·.all) layers none).map FracH.define ∧
    fr.metric = (lastLayer (·.metric) layers none).map FracH.define ∧
    fr.imperial = (lastLayer (·.imperial) layers none).map FracH.define ∧
    (∀ q, fr.quantity q = (quantityLayers layers (fun _ => none) q).map FracH.define) ∧
    (∀ f ∈ layers, ∀ kw ∈ f.unit, ∃ id u, idxGet c.index kw.1 = some id ∧ c.units[id]? = some u) ∧
    (∀ id, (mapGet fr.unit id).isSome = true ↔ ∃ f ∈ layers, ∃ kw ∈ f.unit, idxGet c.index kw.1 = some id) := by
  unfold buildFractions at h
  simp only at h
  split at h
  · cases h
  · rename_i unit hunit
    cases h
    obtain ⟨a1, a2⟩ := audit_unitLayers_spec c _ layers [] unit hunit
    refine ⟨rfl, rfl, rfl, fun _ => rfl, a1, ?_⟩
    intro id
    rw [a2 id]
    simp [mapGet]

end Cook.Bld
