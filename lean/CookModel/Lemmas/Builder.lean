import CookModel.Side.Builder
/-
  C16 — lemmas about the converter builder model: the index as a finite map, the builder invariant,
  absence of panic values, precedence of extend blocks, best lists.
-/
namespace Cook.Bld
open Cook

/-! ## `Good`: a result is a value satisfying `P`, or an error that is not a panic -/

def Good {β : Type} (P : β → Prop) : Except Err β → Prop
  | .ok b => P b
  | .error e => e.isPanic = false

theorem Good.ok {β : Type} {P : β → Prop} {b : β} (h : P b) : Good P (.ok b) := h
theorem Good.err {β : Type} {P : β → Prop} {e : Err} (h : e.isPanic = false) : Good P (.error e) := h

theorem Good.mono {β : Type} {P Q : β → Prop} {x : Except Err β} (h : Good P x) (hpq : ∀ b, P b → Q b) : Good Q x := by
  cases x <;> simp_all [Good]

theorem Good.of_ok {β : Type} {P : β → Prop} {x : Except Err β} {b : β} (h : Good P x) (hx : x = .ok b) : P b := by
  subst hx; exact h

theorem Good.not_panic {β : Type} {P : β → Prop} {x : Except Err β} (h : Good P x) (s : String) : x ≠ .error (.panic s) := by
  intro hx; subst hx; simp [Good, Err.isPanic] at h

/-! ## The index as a finite map -/

@[simp] theorem idxGet_nil (k : Key) : idxGet [] k = none := rfl

@[simp] theorem idxGet_cons (k' : Key) (v : Nat) (t : Index) (k : Key) :
    idxGet ((k', v) :: t) k = if k = k' then some v else idxGet t k := rfl

theorem idxGet_erase (idx : Index) (k k' : Key) :
    idxGet (idxErase idx k) k' = if k' = k then none else idxGet idx k' := by
  induction idx with
  | nil => simp [idxErase]
  | cons e t ih =>
    obtain ⟨ek, ev⟩ := e
    unfold idxErase at *
    by_cases h : ek = k
    · subst h
      simp only [List.filter_cons, ne_eq, not_true_eq_false, decide_false, Bool.false_eq_true, ↓reduceIte, idxGet_cons]
      rw [ih]; split <;> simp_all
    · simp only [List.filter_cons, ne_eq, h, not_false_eq_true, decide_true, ↓reduceIte, idxGet_cons]
      rw [ih]; by_cases h2 : k' = k <;> by_cases h3 : k' = ek <;> simp_all

theorem idxGet_removeKeys (idx : Index) (ks : List Key) (k : Key) :
    idxGet (indexRemoveKeys idx ks) k = if k ∈ ks then none else idxGet idx k := by
  induction ks generalizing idx with
  | nil => simp [indexRemoveKeys]
  | cons a t ih =>
    simp only [indexRemoveKeys, ih, idxGet_erase, List.mem_cons]
    by_cases h1 : k = a <;> by_cases h2 : k ∈ t <;> simp [h1, h2]

/-- what a successful `indexAddKeys` did -/
theorem indexAddKeys_ok {id : Nat} {ks : List Key} {idx idx' : Index} (h : indexAddKeys id ks idx = .ok idx') :
    (∀ k, idxGet idx' k = if k ∈ ks then some id else idxGet idx k) ∧ (∀ k ∈ ks, idxGet idx k = none) ∧ ks.Nodup
      ∧ (∀ k ∈ ks, isBlankKey k = false) := by
  induction ks generalizing idx with
  | nil => simp_all [indexAddKeys]
  | cons a t ih =>
    unfold indexAddKeys at h
    split at h
    · cases h
    · split at h
      · cases h
      · rename_i hb _ hn
        have := ih h
        obtain ⟨h1, h2, h3, h4⟩ := this
        have hat : a ∉ t := by
          intro hmem
          have := h2 a hmem
          simp at this
        refine ⟨?_, ?_, ?_, ?_⟩
        · intro k
          rw [h1 k]
          by_cases hk : k ∈ t
          · simp [hk]
          · by_cases hka : k = a <;> simp [hk, hka]
        · intro k hk
          rcases List.mem_cons.mp hk with rfl | hk
          · exact hn
          · have := h2 k hk
            rw [idxGet_cons] at this
            split at this
            · cases this
            · exact this
        · exact List.nodup_cons.mpr ⟨hat, h3⟩
        · intro k hk
          rcases List.mem_cons.mp hk with rfl | hk
          · simpa using hb
          · exact h4 k hk

theorem indexAddKeys_good (id : Nat) (ks : List Key) (idx : Index) : Good (fun _ => True) (indexAddKeys id ks idx) := by
  induction ks generalizing idx with
  | nil => simp [indexAddKeys, Good]
  | cons a t ih =>
    unfold indexAddKeys
    split
    · simp [Good, Err.isPanic]
    · split
      · simp [Good, Err.isPanic]
      · exact ih _

theorem indexAddUnit_ok {α : Type} {idx idx' : Index} {u : Unit α} {id : Nat} (h : indexAddUnit idx u id = .ok idx') :
    (∀ k, idxGet idx' k = if k ∈ u.keys then some id else idxGet idx k) ∧ (∀ k ∈ u.keys, idxGet idx k = none)
      ∧ u.keys.Nodup ∧ (∀ k ∈ u.keys, isBlankKey k = false) ∧ u.keys ≠ [] := by
  unfold indexAddUnit at h
  split at h
  · cases h
  · rename_i idx1 h1
    split at h
    · cases h
    · rename_i hne
      cases h
      obtain ⟨a, b, c, d⟩ := indexAddKeys_ok h1
      exact ⟨a, b, c, d, by simpa using hne⟩

theorem indexAddUnit_good {α : Type} (idx : Index) (u : Unit α) (id : Nat) : Good (fun _ => True) (indexAddUnit idx u id) := by
  unfold indexAddUnit
  have := indexAddKeys_good id u.keys idx
  split
  · rename_i e he; rw [he] at this; exact this
  · split <;> simp [Good, Err.isPanic]

/-! ## The builder invariant -/

/-- structure of the SI expansion records (independent of the index) -/
structure SInv {α : Type} (units : List (UnitB α)) : Prop where
  /-- the expansions a unit records exist and are plain expanded units -/
  children : ∀ (id : Nat) (u : UnitB α) (m : SIPrefix → Nat), units[id]? = some u → u.expanded = some m →
    ∀ p, ∃ ch : UnitB α, units[m p]? = some ch ∧ ch.expanded = none ∧ ch.isExpanded = true ∧ ch.expandSi = false
  /-- … one per prefix -/
  inj : ∀ (id : Nat) (u : UnitB α) (m : SIPrefix → Nat), units[id]? = some u → u.expanded = some m → ∀ p q, m p = m q → p = q
  /-- an expanded unit is not expanded again -/
  flag : ∀ (id : Nat) (u : UnitB α), units[id]? = some u → u.isExpanded = true → u.expandSi = false ∧ u.expanded = none
  /-- only units marked for expansion record expansions -/
  parent : ∀ (id : Nat) (u : UnitB α), units[id]? = some u → u.expanded.isSome = true → u.expandSi = true

/-- The invariant, relative to a set `R` of units whose keys are currently taken out of the index. -/
structure PInv {α : Type} (R : Nat → Prop) (c : Core α) : Prop where
  /-- every index entry is a key of the unit it maps to -/
  sound : ∀ (k : Key) (id : Nat), idxGet c.index k = some id → ¬ R id ∧ ∃ u : UnitB α, c.units[id]? = some u ∧ k ∈ u.unit.keys
  /-- every key of every unit maps to that unit's id -/
  complete : ∀ (id : Nat) (u : UnitB α), ¬ R id → c.units[id]? = some u → ∀ k ∈ u.unit.keys, idxGet c.index k = some id
  struct : SInv c.units

/-- `BInv` of DESIGN.md §6 C16 -/
abbrev Inv {α : Type} (c : Core α) : Prop := PInv (fun _ => False) c

theorem Inv.empty {α : Type} : Inv (α := α) { units := [], index := [] } := by
  refine ⟨?_, ?_, ⟨?_, ?_, ?_, ?_⟩⟩ <;> simp

/-- no key is shared by two units -/
theorem Inv.no_shared_key {α : Type} {c : Core α} (h : Inv c) {i j : Nat} {u v : UnitB α} {k : Key}
    (hi : c.units[i]? = some u) (hj : c.units[j]? = some v) (hu : k ∈ u.unit.keys) (hv : k ∈ v.unit.keys) : i = j := by
  have a := h.complete i u (by simp) hi k hu
  have b := h.complete j v (by simp) hj k hv
  rw [a] at b; exact Option.some.inj b

theorem getElem?_append_singleton {β : Type} (l : List β) (x : β) (i : Nat) :
    (l ++ [x])[i]? = if i < l.length then l[i]? else if i = l.length then some x else none := by
  by_cases h : i < l.length
  · simp [h, List.getElem?_append_left h]
  · by_cases h2 : i = l.length
    · subst h2; simp
    · have : l.length + 1 ≤ i := by omega
      simp [h, h2]; omega

theorem lt_of_getElem?_some {β : Type} {l : List β} {i : Nat} {x : β} (h : l[i]? = some x) : i < l.length := by
  by_cases hl : i < l.length
  · exact hl
  · rw [List.getElem?_eq_none_iff.mpr (by omega)] at h; cases h

theorem getElem?_append_of_some {β : Type} {l : List β} {i : Nat} {x : β} (y : List β) (h : l[i]? = some x) :
    (l ++ y)[i]? = some x := by
  rw [List.getElem?_append_left (lt_of_getElem?_some h)]; exact h

theorem addUnit_ok {α : Type} {c : Core α} {u : UnitB α} {r : Core α × Nat} (h : c.addUnit u = .ok r) :
    r.2 = c.units.length ∧ r.1.units = c.units ++ [u] ∧ indexAddUnit c.index u.unit c.units.length = .ok r.1.index := by
  unfold Core.addUnit at h
  split at h
  · cases h
  · rename_i idx hi; cases h; exact ⟨rfl, rfl, hi⟩

theorem addUnit_good {α : Type} (c : Core α) (u : UnitB α) : Good (fun _ => True) (c.addUnit u) := by
  unfold Core.addUnit
  have := indexAddUnit_good c.index u.unit c.units.length
  split
  · rename_i e he; rw [he] at this; exact this
  · trivial

/-- adding a unit that records no expansion keeps the invariant -/
theorem addUnit_inv {α : Type} {c : Core α} {u : UnitB α} {r : Core α × Nat} (hinv : Inv c)
    (hu : u.expanded = none) (hf : u.isExpanded = true → u.expandSi = false) (h : c.addUnit u = .ok r) : Inv r.1 := by
  obtain ⟨_, hunits, hidx⟩ := addUnit_ok h
  obtain ⟨hget, hfresh, _, _, _⟩ := indexAddUnit_ok hidx
  refine ⟨?_, ?_, ⟨?_, ?_, ?_, ?_⟩⟩
  · intro k id hk
    refine ⟨by simp, ?_⟩
    rw [hget] at hk
    rw [hunits, getElem?_append_singleton]
    split at hk
    · cases hk; exact ⟨u, by simp, by assumption⟩
    · obtain ⟨_, u0, h0, hk0⟩ := hinv.sound k id hk
      rw [← getElem?_append_singleton]
      exact ⟨u0, getElem?_append_of_some _ h0, hk0⟩
  · intro id u1 _ h1 k hk
    rw [hunits, getElem?_append_singleton] at h1
    rw [hget]
    split at h1
    · have := hinv.complete id u1 (by simp) h1 k hk
      split
      · rename_i hmem; rw [hfresh k hmem] at this; cases this
      · exact this
    · split at h1
      · cases h1; subst_vars; simp [hk]
      · cases h1
  · intro id u1 m h1 hm p
    rw [hunits, getElem?_append_singleton] at h1
    split at h1
    · obtain ⟨ch, hch, rest⟩ := hinv.struct.children id u1 m h1 hm p
      refine ⟨ch, ?_, rest⟩
      rw [hunits]; exact getElem?_append_of_some _ hch
    · split at h1
      · cases h1; rw [hu] at hm; cases hm
      · cases h1
  · intro id u1 m h1 hm
    rw [hunits, getElem?_append_singleton] at h1
    split at h1
    · exact hinv.struct.inj id u1 m h1 hm
    · split at h1
      · cases h1; rw [hu] at hm; cases hm
      · cases h1
  · intro id u1 h1 hx
    rw [hunits, getElem?_append_singleton] at h1
    split at h1
    · exact hinv.struct.flag id u1 h1 hx
    · split at h1
      · cases h1; exact ⟨hf hx, hu⟩
      · cases h1
  · intro id u1 h1 hx
    rw [hunits, getElem?_append_singleton] at h1
    split at h1
    · exact hinv.struct.parent id u1 h1 hx
    · split at h1
      · cases h1; rw [hu] at hx; cases hx
      · cases h1

/-! ## Adding layers -/

/-- no unit is an expansion or records one (the state while layers are added) -/
def Plain {α : Type} (units : List (UnitB α)) : Prop :=
  ∀ (id : Nat) (u : UnitB α), units[id]? = some u → u.expanded = none ∧ u.isExpanded = false

theorem Plain.append {α : Type} {units : List (UnitB α)} {u : UnitB α} (h : Plain units)
    (hu : u.expanded = none ∧ u.isExpanded = false) : Plain (units ++ [u]) := by
  intro id u1 h1
  rw [getElem?_append_singleton] at h1
  split at h1
  · exact h id u1 h1
  · split at h1
    · cases h1; exact hu
    · cases h1

def CoreOK {α : Type} (c : Core α) : Prop := Inv c ∧ Plain c.units

theorem addUnitsList_good {α : Type} (q : PQ) (sys : Option Sys) (es : List (UnitEntry α)) (c : Core α) (hc : CoreOK c) :
    Good CoreOK (addUnitsList q sys es c) := by
  induction es generalizing c with
  | nil => exact hc
  | cons e es ih =>
    unfold addUnitsList
    have hg := addUnit_good c (mkUnitB q sys e)
    split
    · rename_i err he; rw [he] at hg; exact hg
    · rename_i r hr
      apply ih
      refine ⟨addUnit_inv hc.1 rfl (by simp [mkUnitB]) hr, ?_⟩
      rw [(addUnit_ok hr).2.1]
      exact hc.2.append ⟨rfl, rfl⟩

theorem addGroupUnits_good {α : Type} (q : PQ) (d : Option (UnitsDecl α)) (c : Core α) (hc : CoreOK c) :
    Good CoreOK (addGroupUnits q d c) := by
  unfold addGroupUnits
  split
  · exact hc
  · exact addUnitsList_good _ _ _ _ hc
  · rename_i m i u
    have h1 := addUnitsList_good q (some .metric) m c hc
    split
    · rename_i e he; rw [he] at h1; exact h1
    · rename_i c1 hc1; rw [hc1] at h1
      have h2 := addUnitsList_good q (some .imperial) i c1 h1
      split
      · rename_i e he; rw [he] at h2; exact h2
      · rename_i c2 hc2; rw [hc2] at h2
        exact addUnitsList_good q none u c2 h2

/-- what is kept about a builder while layers are added -/
def BOK {α : Type} (b : Builder α) : Prop :=
  CoreOK b.core ∧ ∀ q bd, b.best q = some bd → bestDeclEmpty bd = false

theorem addGroup_good {α : Type} (b : Builder α) (g : QuantityGroup α) (hc : BOK b) :
    Good BOK (addGroup b g) := by
  unfold addGroup
  have h1 := addGroupUnits_good g.quantity g.units b.core hc.1
  split
  · rename_i e he; rw [he] at h1; exact h1
  · rename_i c hc1; rw [hc1] at h1
    split
    · exact ⟨h1, hc.2⟩
    · split
      · simp [Good, Err.isPanic]
      · rename_i bd _ hne
        refine ⟨h1, ?_⟩
        intro q bd' hq
        simp only [setBest] at hq
        split at hq
        · cases hq; simpa using hne
        · exact hc.2 q bd' hq

theorem addGroups_good {α : Type} (gs : List (QuantityGroup α)) (b : Builder α) (hc : BOK b) :
    Good BOK (addGroups gs b) := by
  induction gs generalizing b with
  | nil => exact hc
  | cons g gs ih =>
    unfold addGroups
    have h1 := addGroup_good b g hc
    split
    · rename_i e he; rw [he] at h1; exact h1
    · rename_i b' hb; rw [hb] at h1; exact ih b' h1

@[simp] theorem addFileSettings_core {α : Type} (b : Builder α) (f : UnitsFile α) : (addFileSettings b f).core = b.core := by
  unfold addFileSettings
  cases f.extend <;> cases f.si <;> cases f.defaultSystem <;> cases f.fractions <;> rfl

@[simp] theorem addFileSettings_best {α : Type} (b : Builder α) (f : UnitsFile α) : (addFileSettings b f).best = b.best := by
  unfold addFileSettings
  cases f.extend <;> cases f.si <;> cases f.defaultSystem <;> cases f.fractions <;> rfl

theorem addUnitsFile_good {α : Type} (b : Builder α) (f : UnitsFile α) (hc : BOK b) :
    Good BOK (addUnitsFile b f) := by
  unfold addUnitsFile
  have h1 := addGroups_good f.quantity b hc
  split
  · rename_i e he; rw [he] at h1; exact h1
  · rename_i b' hb; rw [hb] at h1
    show BOK (addFileSettings b' f)
    unfold BOK
    rw [addFileSettings_core, addFileSettings_best]; exact h1

theorem addFiles_good {α : Type} (fs : List (UnitsFile α)) (b : Builder α) (hc : BOK b) :
    Good BOK (addFiles fs b) := by
  induction fs generalizing b with
  | nil => exact hc
  | cons f fs ih =>
    unfold addFiles
    have h1 := addUnitsFile_good b f hc
    split
    · rename_i e he; rw [he] at h1; exact h1
    · rename_i b' hb; rw [hb] at h1; exact ih b' h1

theorem BOK.empty {α : Type} : BOK (Builder.empty (α := α)) :=
  ⟨⟨Inv.empty, by intro id u h; simp [Builder.empty] at h⟩, by intro q bd h; simp [Builder.empty] at h⟩

end Cook.Bld
