import CookModel.Lemmas.LooseStep
/-
  C17, wave 7 (tag `w7t`): the blank material INSIDE components (the pads of the round-trip grammar:
  between the tokens of a number `1 [- c -] 1/2`, `1 / 2`, around the `-` of a range, at both ends of a
  value, behind `%`, behind a name, around `|`, inside empty braces, inside an intermediate-reference
  group) does not reach the recipe.

  The abstract description of the recipe of a round-trip document (`absDocSecs`, `absDocSegs`,
  `absDocMeta`, `absDocServings`) never looks at a pad, so two well-formed documents with the same
  blocks up to ALL pads (`DocItem.bare`) have the same recipe.
-/
set_option linter.unusedSectionVars false
set_option linter.unusedSimpArgs false
set_option linter.unusedVariables false
namespace Cook

variable {α : Type} [Arith α]

/-- a segment without its blank padding -/
def SegX.bare : SegX → SegX
  | .text l => .text l
  | .ingredient c _ => .ingredient c {}
  | .cookware c _ => .cookware c {}
  | .timer c _ => .timer c {}
  | .ingredient1 c => .ingredient1 c
  | .cookware1 c => .cookware1 c
  | .ingredientI pre post i _ c _ => .ingredientI pre post i {} c {}

/-- a block without any blank padding: that of its section / `>>` line and that of every component of
    a step (text runs, names, values, units, notes, paragraph lines are kept as they are) -/
def DocItem.bare : DocItem → DocItem
  | .step segs => .step (segs.map SegX.bare)
  | .sectionLine name _ => .sectionLine name {}
  | .metaLine k v _ => .metaLine k v {}
  | .para lines => .para lines

theorem w7t_ingr_bare (l : List SegX) : (l.map SegX.bare).filterMap SegX.ingr? = l.filterMap SegX.ingr? := by
  induction l with
  | nil => rfl
  | cons s r ih => cases s <;> simp [SegX.bare, SegX.ingr?, List.filterMap_cons, ih]

theorem w7t_cw_bare (l : List SegX) : (l.map SegX.bare).filterMap SegX.cw? = l.filterMap SegX.cw? := by
  induction l with
  | nil => rfl
  | cons s r ih => cases s <;> simp [SegX.bare, SegX.cw?, List.filterMap_cons, ih]

theorem w7t_timer_bare (l : List SegX) : (l.map SegX.bare).filterMap SegX.timer? = l.filterMap SegX.timer? := by
  induction l with
  | nil => rfl
  | cons s r ih => cases s <;> simp [SegX.bare, SegX.timer?, List.filterMap_cons, ih]

theorem w7t_toItem_bare (before : List SegX) (s : SegX) :
    s.bare.toItem (before.map SegX.bare) = s.toItem before := by
  cases s <;> simp only [SegX.bare, SegX.toItem, w7t_ingr_bare, w7t_cw_bare, w7t_timer_bare]

theorem w7t_items_bare : ∀ (segs before : List SegX),
    absItemsFrom (before.map SegX.bare) (segs.map SegX.bare) = absItemsFrom before segs := by
  intro segs
  induction segs with
  | nil => intro before; rfl
  | cons s r ih =>
    intro before
    simp only [List.map_cons, absItemsFrom, w7t_toItem_bare]
    have := ih (before ++ [s])
    simp only [List.map_append, List.map_cons, List.map_nil] at this
    rw [this]

theorem w7t_absDocSecs_bare : ∀ (items : List DocItem) (b : List SegX) (cur : Section) (n : Nat),
    absDocSecs (b.map SegX.bare) cur n (items.map DocItem.bare) = absDocSecs b cur n items := by
  intro items
  induction items with
  | nil => intro b cur n; rfl
  | cons d r ih =>
    intro b cur n
    cases d with
    | step segs =>
      simp only [List.map_cons, DocItem.bare, absDocSecs, w7t_items_bare]
      have := ih (b ++ segs) ⟨cur.name, cur.content ++ [.step ⟨absItemsFrom b segs, n⟩]⟩ (n + 1)
      simp only [List.map_append] at this
      rw [this]
    | sectionLine name p => simp only [List.map_cons, DocItem.bare, absDocSecs, ih]
    | metaLine k v p => simp only [List.map_cons, DocItem.bare, absDocSecs, ih]
    | para lines => simp only [List.map_cons, DocItem.bare, absDocSecs, ih]

theorem w7t_absDocSegs_bare (items : List DocItem) :
    absDocSegs (items.map DocItem.bare) = (absDocSegs items).map SegX.bare := by
  induction items with
  | nil => rfl
  | cons d r ih => cases d <;> simp only [List.map_cons, DocItem.bare, absDocSegs, ih, List.map_append]

theorem w7t_absDocMeta_bare : ∀ (items : List DocItem) (m : List (Str × Str)),
    absDocMeta m (items.map DocItem.bare) = absDocMeta m items := by
  intro items
  induction items with
  | nil => intro m; rfl
  | cons d r ih => intro m; cases d <;> simp only [List.map_cons, DocItem.bare, absDocMeta, ih]

theorem w7t_absDocServings_bare (env : Env) : ∀ (items : List DocItem) (sv : Option (List Nat)),
    absDocServings env sv (items.map DocItem.bare) = absDocServings env sv items := by
  intro items
  induction items with
  | nil => intro sv; rfl
  | cons d r ih => intro sv; cases d <;> simp only [List.map_cons, DocItem.bare, absDocServings, ih]

theorem w7t_isMeta_bare (items : List DocItem) :
    ((items.map DocItem.bare).filter DocItem.isMeta).length = (items.filter DocItem.isMeta).length := by
  induction items with
  | nil => rfl
  | cons d r ih => cases d <;> simp [List.filter_cons, DocItem.bare, DocItem.isMeta, ih]

/-- what the tables read of the segments is pad-free -/
theorem w7t_tables_bare {items' items : List DocItem} (h : items'.map DocItem.bare = items.map DocItem.bare) :
    (absDocSegs items').filterMap SegX.ingr? = (absDocSegs items).filterMap SegX.ingr? ∧
    (absDocSegs items').filterMap SegX.cw? = (absDocSegs items).filterMap SegX.cw? ∧
    (absDocSegs items').filterMap SegX.timer? = (absDocSegs items).filterMap SegX.timer? := by
  have e := congrArg absDocSegs h
  rw [w7t_absDocSegs_bare, w7t_absDocSegs_bare] at e
  refine ⟨?_, ?_, ?_⟩
  · rw [← w7t_ingr_bare, e, w7t_ingr_bare]
  · rw [← w7t_cw_bare, e, w7t_cw_bare]
  · rw [← w7t_timer_bare, e, w7t_timer_bare]

/-- **Two well-formed documents with the same blocks up to blank padding: equal recipes.** -/
theorem w7t_doc_pads_same (env : Env) (pre' pre : List Tok) (doc' doc : List (DocItem × List Tok))
    (h' : DocWF α env pre' doc') (h : DocWF α env pre doc)
    (hb : (doc'.map (·.1)).map DocItem.bare = (doc.map (·.1)).map DocItem.bare) :
    ∃ c' c : Col α,
      parseRecipe env (render (pre' ++ docSpec doc')) = ⟨some c', c'.diags, none⟩ ∧
      parseRecipe env (render (pre ++ docSpec doc)) = ⟨some c, c.diags, none⟩ ∧
      c'.sections = c.sections ∧ c'.ingredients.toList = c.ingredients.toList ∧
      c'.cookware.toList = c.cookware.toList ∧ c'.timers.toList = c.timers.toList ∧ c'.metaMap = c.metaMap ∧
      c'.inlineQ = c.inlineQ ∧ c'.frontMatter = c.frontMatter ∧ c'.servings = c.servings ∧
      c'.diags.toList.map (fun d => (d.sev, d.stage, d.kind, d.labels.length)) =
        c.diags.toList.map (fun d => (d.sev, d.stage, d.kind, d.labels.length)) := by
  obtain ⟨c', sp', p', s', i', w', t', m', d', n', q', f'⟩ :=
    rtx_parseRecipe_doc (α := α) env pre' doc' h'.hpre h'.ok h'.simple h'.plain h'.ext h'.seps h'.spelled h'.noFront
  obtain ⟨c, sp, p, s, i, w, t, m, d, n, q, f⟩ :=
    rtx_parseRecipe_doc (α := α) env pre doc h.hpre h.ok h.simple h.plain h.ext h.seps h.spelled h.noFront
  have v' : c'.servings = absDocServings env none (doc'.map (·.1)) :=
    bl17_parseRecipe_doc_servings env pre' doc' h'.hpre h'.ok h'.simple h'.plain h'.ext h'.seps h'.spelled h'.noFront c'
      (by rw [p'])
  have v : c.servings = absDocServings env none (doc.map (·.1)) :=
    bl17_parseRecipe_doc_servings env pre doc h.hpre h.ok h.simple h.plain h.ext h.seps h.spelled h.noFront c (by rw [p])
  obtain ⟨ti, tw, tt⟩ := w7t_tables_bare hb
  have es : absDocSecs [] ⟨none, []⟩ 1 (doc'.map (·.1)) = absDocSecs [] ⟨none, []⟩ 1 (doc.map (·.1)) := by
    have a := w7t_absDocSecs_bare (doc'.map (·.1)) [] ⟨none, []⟩ 1
    have b := w7t_absDocSecs_bare (doc.map (·.1)) [] ⟨none, []⟩ 1
    simp only [List.map_nil] at a b
    rw [← a, hb, b]
  have em : absDocMeta [] (doc'.map (·.1)) = absDocMeta [] (doc.map (·.1)) := by
    rw [← w7t_absDocMeta_bare, hb, w7t_absDocMeta_bare]
  have en : ((doc'.map (·.1)).filter DocItem.isMeta).length = ((doc.map (·.1)).filter DocItem.isMeta).length := by
    rw [← w7t_isMeta_bare, hb, w7t_isMeta_bare]
  have ev : absDocServings env none (doc'.map (·.1)) = absDocServings env none (doc.map (·.1)) := by
    rw [← w7t_absDocServings_bare, hb, w7t_absDocServings_bare]
  refine ⟨c', c, p', p, by rw [s', s, es], by rw [i', i, ti], by rw [w', w, tw], by rw [t', t, tt], by rw [m', m, em],
    by rw [q', q], by rw [f', f], by rw [v', v, ev], ?_⟩
  have hl : sp'.length = sp.length := by rw [n', n, en]
  rw [d', d]
  unfold deprecation
  cases sp' with
  | nil =>
    cases sp with
    | nil => rfl
    | cons _ _ => simp at hl
  | cons a r =>
    cases sp with
    | nil => simp at hl
    | cons b r2 => simpa using hl

end Cook
