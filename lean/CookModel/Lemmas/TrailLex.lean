import CookModel.Lemmas.SimBlankLines
/-
  C17, lexer level of the three "insertion" transformations: a trailing comment (` -- text` in front
  of a line end), trailing blanks, a block comment between two words.  The token stream of the
  transformed source is the token stream of the original with whitespace / comment tokens inserted
  (or the last whitespace token of the line widened) and everything behind shifted.

  The tool is the restart law of the lexer: if the last token of `lex u` is still spelled as the
  lexer spells it when the next character is the first one of `v`, then
  `lex (u ++ v) = lex u ++ lex v` (shifted).  `lexFrom_append_nl` is the instance "last token is a
  newline".
-/
set_option linter.unusedSectionVars false
set_option linter.unusedVariables false
set_option linter.unusedSimpArgs false
namespace Cook

/-- what the three laws need of the character table (true of the real table and of the toy one):
    the blank is lexer white space and not a word character; `-` and `[` are not white space -/
structure TrailSpec (cs : CharSpec) : Prop where
  ws_sp : cs.ws ' ' = true
  ws_minus : cs.ws '-' = false
  ws_lbrack : cs.ws '[' = false
  word_sp : cs.wordChar ' ' = false

/-- `wellSpelled (T ++ X)` reads `X` only through the first character it renders -/
theorem trail_wellSpelled_replace (cs : CharSpec) (T X Y : List Tok) (h : WellSpelled cs (T ++ X))
    (hh : (render X).head? = (render Y).head?) (hY : WellSpelled cs Y) : WellSpelled cs (T ++ Y) := by
  induction T with
  | nil => exact hY
  | cons t T ih =>
    simp only [List.cons_append, WellSpelled, wellSpelled, Bool.and_eq_true] at h ⊢
    refine ⟨?_, ih h.2⟩
    have e : (render (T ++ Y)).head? = (render (T ++ X)).head? := by
      simp only [render_append, List.head?_append, hh]
    rw [e]
    exact h.1

theorem trail_wellSpelled_last (cs : CharSpec) (T : List Tok) (l : Tok) (h : WellSpelled cs (T ++ [l])) :
    spellOK cs l.kind l.text none = true := by
  induction T with
  | nil => simpa [WellSpelled, wellSpelled, render] using h
  | cons t T ih =>
    simp only [List.cons_append, WellSpelled, wellSpelled, Bool.and_eq_true] at h
    exact ih h.2

theorem trail_wellSpelled_prefix (cs : CharSpec) (T X : List Tok) (h : WellSpelled cs (T ++ X)) : WellSpelled cs X := by
  induction T with
  | nil => exact h
  | cons t T ih =>
    simp only [List.cons_append, WellSpelled, wellSpelled, Bool.and_eq_true] at h
    exact ih h.2

/-- the last token of a stream is still a token when `next` follows -/
def EndOK (cs : CharSpec) (next : Option Char) (ts : List Tok) : Prop :=
  ∀ l, ts.getLast? = some l → spellOK cs l.kind l.text next = true

/-- one token read off the front of a text -/
theorem trail_lexFrom_tok (cs : CharSpec) (off : Nat) (k : TK) (text w : List Char)
    (h : spellOK cs k text w.head? = true) :
    lexFrom cs off (text ++ w) = ⟨k, text, off⟩ :: lexFrom cs (off + utf8Len text) w := by
  cases text with
  | nil => simp [spellOK] at h
  | cons c r =>
    have h1 := lexOne_of_spellOK cs k c r w h
    rw [List.cons_append, lexFrom_cons, h1]
    simp

/-- **the lexer restarts wherever the last token is complete** -/
theorem trail_lexFrom_append (cs : CharSpec) (o : Nat) (u v : List Char) (h : EndOK cs v.head? (lexFrom cs o u)) :
    lexFrom cs o (u ++ v) = lexFrom cs o u ++ lexFrom cs (o + utf8Len u) v := by
  rcases List.eq_nil_or_concat (lexFrom cs o u) with h0 | ⟨T, l, hT⟩
  · have hu : u = [] := by
      have := lexFrom_tile cs o u
      rw [h0] at this
      simpa using this.symm
    subst hu
    simp [lexFrom, utf8Len]
  · have hT' : lexFrom cs o u = T ++ [l] := by simpa using hT
    have hl : spellOK cs l.kind l.text v.head? = true := h l (by rw [hT']; simp)
    have hws : WellSpelled cs (lexFrom cs o u ++ lexFrom cs (o + utf8Len u) v) := by
      rw [hT', List.append_assoc]
      apply trail_wellSpelled_replace cs T [l] ([l] ++ lexFrom cs (o + utf8Len u) v)
        (hT' ▸ lexFrom_wellSpelled cs o u)
      · have hne := spellOK_nonempty hl
        cases ht : l.text with
        | nil => exact absurd ht hne
        | cons c r => simp [render, ht]
      · simp only [List.singleton_append, WellSpelled, wellSpelled, Bool.and_eq_true]
        refine ⟨?_, lexFrom_wellSpelled cs _ v⟩
        simp only [render, lexFrom_tile]
        exact hl
    have hch : Chain o (lexFrom cs o u ++ lexFrom cs (o + utf8Len u) v) := by
      rw [blocks_chain_append]
      refine ⟨lexFrom_chain cs o u, ?_⟩
      rw [lexFrom_tile]
      exact lexFrom_chain cs _ v
    have hr : render (lexFrom cs o u ++ lexFrom cs (o + utf8Len u) v) = u ++ v := by
      rw [render_append]
      unfold render
      rw [lexFrom_tile, lexFrom_tile]
    have := lexFrom_render_chain cs o _ hws hch
    rw [hr] at this
    exact this

theorem trail_fallsThrough_space (look : Option Char) : fallsThrough ' ' look = true := by
  simp [fallsThrough, isAsciiDigit, singleKind, singleTable]

theorem trail_fallsThrough_look {c : Char} {look : Option Char} (h : fallsThrough c look = true) :
    fallsThrough c (some ' ') = true := by
  simp only [fallsThrough, Bool.and_eq_true, bne_iff_ne, ne_eq, Bool.not_eq_true', Option.isNone_iff_eq_none] at h ⊢
  obtain ⟨⟨⟨⟨⟨⟨⟨h1, h2⟩, h3⟩, h4⟩, h5⟩, h6⟩, _⟩, _⟩ := h
  refine ⟨⟨⟨⟨⟨⟨⟨h1, h2⟩, h3⟩, h4⟩, h5⟩, h6⟩, ?_⟩, ?_⟩ <;> simp

/-- a run of blanks is a whitespace token in front of anything that is not white space -/
theorem trail_spellOK_blanks (cs : CharSpec) (hs : cs.ws ' ' = true) (sp : List Char) (hne : sp ≠ [])
    (hsp : ∀ c ∈ sp, c = ' ') (next : Option Char) (hn : next.any cs.ws = false) :
    spellOK cs .ws sp next = true := by
  cases sp with
  | nil => exact absurd rfl hne
  | cons c r =>
    have hc : c = ' ' := hsp c (by simp)
    subst hc
    apply spellOK_ws_intro cs (trail_fallsThrough_space _) hs _ hn
    rw [List.all_eq_true]
    intro x hx
    rw [hsp x (by simp [hx])]
    exact hs

/-- the spelling of a line comment: `--`, then anything without a line feed, in front of a line
    feed or the end of input -/
theorem trail_spellOK_lineComment (cs : CharSpec) (c : List Char) (hc : '\n' ∉ c) (next : Option Char)
    (hn : next = none ∨ next = some '\n') : spellOK cs .lineComment ('-' :: '-' :: c) next = true := by
  apply spellOK_lineComment_intro cs rfl _ hn
  simp only [List.all_cons, List.all_eq_true, Bool.and_eq_true, decide_eq_true_eq]
  refine ⟨by decide, fun x hx => ?_⟩
  intro hxe
  exact hc (hxe ▸ hx)

/-- the spelling of a closed block comment: `[-`, a body that ends in `-]` and contains no earlier `-]` -/
theorem trail_spellOK_blockComment (cs : CharSpec) (body : List Char) (h1 : blockScan body = body.length)
    (h2 : ['-', ']'] <:+ body) (next : Option Char) :
    spellOK cs .blockComment ('[' :: '-' :: body) next = true := by
  simp only [spellOK, Bool.and_eq_true, beq_iff_eq, Bool.or_eq_true, List.isSuffixOf_iff_suffix,
    List.head?_cons, List.tail_cons]
  exact ⟨⟨⟨trivial, trivial⟩, h1⟩, Or.inl h2⟩

/-- **which line ends are token boundaries in front of a blank**: a token that ended the input is
    still a token when a blank follows, unless it is white space or a line comment (they grow), an
    unterminated block comment, or a lone backslash (it escapes the blank). -/
theorem trail_spellOK_space (cs : CharSpec) (hw : cs.wordChar ' ' = false) {k : TK} {text : List Char}
    (h : spellOK cs k text none = true) (hk : k ≠ .ws) (hlc : k ≠ .lineComment)
    (hbc : k = .blockComment → ['-', ']'] <:+ text.tail.tail) (hesc : k = .escaped → text.length = 2) :
    spellOK cs k text (some ' ') = true := by
  cases text with
  | nil => simp [spellOK] at h
  | cons c r =>
    cases k
    case ws => exact absurd rfl hk
    case lineComment => exact absurd rfl hlc
    case escaped =>
      have := hesc rfl
      simp only [spellOK, Bool.and_eq_true, beq_iff_eq, Bool.or_eq_true] at h ⊢
      refine ⟨h.1, Or.inl ?_⟩
      simpa using this
    case blockComment =>
      have := hbc rfl
      simp only [spellOK, Bool.and_eq_true, beq_iff_eq, Bool.or_eq_true, List.isSuffixOf_iff_suffix] at h ⊢
      refine ⟨h.1, Or.inl ?_⟩
      cases r with
      | nil => simp at h
      | cons d r => simpa using this
    case word =>
      simp only [spellOK, Bool.and_eq_true, Bool.not_eq_true'] at h ⊢
      obtain ⟨⟨⟨⟨h1, h2⟩, h3⟩, h4⟩, _⟩ := h
      refine ⟨⟨⟨⟨?_, h2⟩, h3⟩, h4⟩, by simpa using hw⟩
      cases r with
      | nil => simpa using trail_fallsThrough_look h1
      | cons d r => simpa using h1
    case punct =>
      simp only [spellOK, Bool.and_eq_true, Bool.not_eq_true', List.isEmpty_iff] at h ⊢
      obtain ⟨⟨⟨h1, h2⟩, h3⟩, h4⟩ := h
      subst h4
      exact ⟨⟨⟨by simpa using trail_fallsThrough_look h1, h2⟩, h3⟩, rfl⟩
    case int =>
      simp only [spellOK, Bool.and_eq_true, Bool.not_eq_true'] at h ⊢
      exact ⟨h.1, by decide⟩
    case zeroInt =>
      simp only [spellOK, Bool.and_eq_true, Bool.not_eq_true'] at h ⊢
      exact ⟨h.1, by decide⟩
    case textStep =>
      simp only [spellOK, Bool.and_eq_true] at h ⊢
      exact ⟨h.1, by decide⟩
    case minus =>
      simp only [spellOK, Bool.and_eq_true] at h ⊢
      exact ⟨h.1, by decide⟩
    all_goals simpa [spellOK] using h

/-- the readable form of `EndOK … (some ' ')`: the text `a` does not end in white space, in a
    line comment, inside a block comment or in a lone backslash -/
def CleanEnd (ts : List Tok) : Prop :=
  ∀ l, ts.getLast? = some l → l.kind ≠ .ws ∧ l.kind ≠ .lineComment ∧
    (l.kind = .blockComment → ['-', ']'] <:+ l.text.tail.tail) ∧ (l.kind = .escaped → l.text.length = 2)

theorem trail_endOK_space (cs : CharSpec) (hw : cs.wordChar ' ' = false) (o : Nat) (a : List Char)
    (h : CleanEnd (lexFrom cs o a)) : EndOK cs (some ' ') (lexFrom cs o a) := by
  intro l hl
  obtain ⟨h1, h2, h3, h4⟩ := h l hl
  have hws := lexFrom_wellSpelled cs o a
  obtain ⟨T, hT⟩ : ∃ T, lexFrom cs o a = T ++ [l] := by
    rcases List.eq_nil_or_concat (lexFrom cs o a) with h0 | ⟨T, l', hT⟩
    · rw [h0] at hl; simp at hl
    · refine ⟨T, ?_⟩
      have : lexFrom cs o a = T ++ [l'] := by simpa using hT
      rw [this] at hl ⊢
      simp at hl
      rw [hl]
  rw [hT] at hws
  exact trail_spellOK_space cs hw (trail_wellSpelled_last cs T l hws) h1 h2 h3 h4

/-! ### the three source-level laws -/

/-- **Trailing comment.**  `a` = the source up to the end of a line, `v` = the rest (empty, or
    starting with the line feed), `sp` = one or more blanks, `c` = the comment text.  If the last
    token of `a` is complete in front of a blank (`EndOK`, see `trail_endOK_space`), then the token stream of
    `a sp --c v` is: the tokens of `a`, a whitespace token `sp`, a line-comment token `--c`, the
    tokens of `v` (lexed at the shifted offset). -/
theorem trail_lex_comment (cs : CharSpec) (hs : TrailSpec cs) (o : Nat) (a sp c v : List Char)
    (hne : sp ≠ []) (hsp : ∀ x ∈ sp, x = ' ') (hc : '\n' ∉ c) (hv : v.head? = none ∨ v.head? = some '\n')
    (hend : EndOK cs (some ' ') (lexFrom cs o a)) :
    lexFrom cs o (a ++ (sp ++ ('-' :: '-' :: c ++ v))) =
      lexFrom cs o a ++ (⟨.ws, sp, o + utf8Len a⟩ :: ⟨.lineComment, '-' :: '-' :: c, o + utf8Len a + utf8Len sp⟩ ::
        lexFrom cs (o + utf8Len a + utf8Len sp + utf8Len ('-' :: '-' :: c)) v) := by
  have hhead : (sp ++ ('-' :: '-' :: c ++ v)).head? = some ' ' := by
    cases sp with
    | nil => exact absurd rfl hne
    | cons x r => simp [hsp x (by simp)]
  rw [trail_lexFrom_append cs o a _ (by rw [hhead]; exact hend)]
  congr 1
  rw [trail_lexFrom_tok cs _ .ws sp _
    (trail_spellOK_blanks cs hs.ws_sp sp hne hsp _ (by simp [hs.ws_minus]))]
  congr 1
  rw [trail_lexFrom_tok cs _ .lineComment ('-' :: '-' :: c) v (trail_spellOK_lineComment cs c hc _ hv)]

/-- **Trailing blanks.**  Same setting; `v` starts with something that is not lexer white space (a
    line feed, say).  The token stream of `a sp v` is: the tokens of `a`, a whitespace token `sp`, the
    tokens of `v` shifted. -/
theorem trail_lex_spaces (cs : CharSpec) (hs : TrailSpec cs) (o : Nat) (a sp v : List Char)
    (hne : sp ≠ []) (hsp : ∀ x ∈ sp, x = ' ') (hv : v.head?.any cs.ws = false)
    (hend : EndOK cs (some ' ') (lexFrom cs o a)) :
    lexFrom cs o (a ++ (sp ++ v)) =
      lexFrom cs o a ++ (⟨.ws, sp, o + utf8Len a⟩ :: lexFrom cs (o + utf8Len a + utf8Len sp) v) := by
  have hhead : (sp ++ v).head? = some ' ' := by
    cases sp with
    | nil => exact absurd rfl hne
    | cons x r => simp [hsp x (by simp)]
  rw [trail_lexFrom_append cs o a _ (by rw [hhead]; exact hend)]
  congr 1
  rw [trail_lexFrom_tok cs _ .ws sp _ (trail_spellOK_blanks cs hs.ws_sp sp hne hsp _ hv)]

/-- **Trailing blanks after white space** (the line already ends in a whitespace token `w`): the
    blanks are merged into that token; everything else is as before. -/
theorem trail_lex_spaces_widen (cs : CharSpec) (hs : TrailSpec cs) (o : Nat) (a sp v : List Char)
    (hne : sp ≠ []) (hsp : ∀ x ∈ sp, x = ' ') (hv : v.head?.any cs.ws = false)
    (T : List Tok) (w : Tok) (hT : lexFrom cs o a = T ++ [w]) (hw : w.kind = .ws) :
    lexFrom cs o (a ++ (sp ++ v)) =
      T ++ (⟨.ws, w.text ++ sp, w.start⟩ :: lexFrom cs (o + utf8Len a + utf8Len sp) v) := by
  have hwsa := lexFrom_wellSpelled cs o a
  rw [hT] at hwsa
  have hlast := trail_wellSpelled_last cs T w hwsa
  rw [hw] at hlast
  have hw' : spellOK cs .ws (w.text ++ sp) v.head? = true := by
    cases ht : w.text with
    | nil => rw [ht] at hlast; simp [spellOK] at hlast
    | cons c r =>
      rw [ht] at hlast
      simp only [spellOK, Bool.and_eq_true, Bool.not_eq_true'] at hlast
      obtain ⟨⟨⟨h1, h2⟩, h3⟩, _⟩ := hlast
      have hall : (r ++ sp).all cs.ws = true := by
        rw [List.all_append, h3, Bool.true_and, List.all_eq_true]
        intro x hx
        rw [hsp x hx]; exact hs.ws_sp
      apply spellOK_ws_intro cs _ h2 hall hv
      cases r with
      | nil =>
        cases sp with
        | nil => exact absurd rfl hne
        | cons x sp' =>
          rw [hsp x (by simp)]
          simpa using trail_fallsThrough_look h1
      | cons d r => simpa using h1
  have hws : WellSpelled cs (T ++ (⟨.ws, w.text ++ sp, w.start⟩ :: lexFrom cs (o + utf8Len a + utf8Len sp) v)) := by
    apply trail_wellSpelled_replace cs T [w] _ hwsa
    · have hne' := lexFrom_nonempty cs o a w (by rw [hT]; simp)
      cases ht : w.text with
      | nil => exact absurd ht hne'
      | cons c r => simp [render, ht]
    · simp only [WellSpelled, wellSpelled, Bool.and_eq_true]
      refine ⟨?_, lexFrom_wellSpelled cs _ v⟩
      simp only [render, lexFrom_tile]
      exact hw'
  have hcha := lexFrom_chain cs o a
  rw [hT, blocks_chain_append] at hcha
  have hra : render T ++ w.text = a := by
    have := lexFrom_tile cs o a
    rw [hT] at this
    simpa [render] using this
  have hch : Chain o (T ++ (⟨.ws, w.text ++ sp, w.start⟩ :: lexFrom cs (o + utf8Len a + utf8Len sp) v)) := by
    rw [blocks_chain_append]
    refine ⟨hcha.1, ?_⟩
    obtain ⟨hst, _⟩ := hcha.2
    refine ⟨hst, ?_⟩
    have e : (⟨.ws, w.text ++ sp, w.start⟩ : Tok).stop = o + utf8Len a + utf8Len sp := by
      simp only [Tok.stop, utf8Len_append]
      rw [hst, ← hra, utf8Len_append]
      simp only [render]
      omega
    rw [e]
    exact lexFrom_chain cs _ v
  have hr : render (T ++ (⟨.ws, w.text ++ sp, w.start⟩ :: lexFrom cs (o + utf8Len a + utf8Len sp) v)) = a ++ (sp ++ v) := by
    rw [render_append]
    simp only [render, List.flatMap_cons, lexFrom_tile]
    rw [← hra]
    simp [render]
  have := lexFrom_render_chain cs o _ hws hch
  rw [hr] at this
  exact this

/-- **Block comment between two words.**  Original source `a ␣ b` (one blank between `a` and `b`,
    `b` not starting with white space), transformed source `a ␣ [-body ␣ b` where `body` ends in
    `-]` and contains no earlier `-]`.  Tokens of the original: those of `a`, a whitespace token, those
    of `b`; of the transformed source: those of `a`, whitespace, the block-comment token, whitespace,
    those of `b` shifted. -/
theorem trail_lex_block_comment (cs : CharSpec) (hs : TrailSpec cs) (o : Nat) (a body b : List Char)
    (h1 : blockScan body = body.length) (h2 : ['-', ']'] <:+ body) (hb : b.head?.any cs.ws = false)
    (hend : EndOK cs (some ' ') (lexFrom cs o a)) :
    lexFrom cs o (a ++ (' ' :: b)) =
      lexFrom cs o a ++ (⟨.ws, [' '], o + utf8Len a⟩ :: lexFrom cs (o + utf8Len a + 1) b) ∧
    lexFrom cs o (a ++ (' ' :: ('[' :: '-' :: body ++ ' ' :: b))) =
      lexFrom cs o a ++ (⟨.ws, [' '], o + utf8Len a⟩ :: ⟨.blockComment, '[' :: '-' :: body, o + utf8Len a + 1⟩ ::
        ⟨.ws, [' '], o + utf8Len a + 1 + utf8Len ('[' :: '-' :: body)⟩ ::
        lexFrom cs (o + utf8Len a + 1 + utf8Len ('[' :: '-' :: body) + 1) b) := by
  have hblank : ∀ next : Option Char, next.any cs.ws = false → spellOK cs .ws [' '] next = true :=
    fun next hn => trail_spellOK_blanks cs hs.ws_sp [' '] (by simp) (by simp) next hn
  have hone : utf8Len [' '] = 1 := by decide
  constructor
  · rw [trail_lexFrom_append cs o a _ (by simpa using hend)]
    congr 1
    have := trail_lexFrom_tok cs (o + utf8Len a) .ws [' '] b (hblank _ hb)
    rw [hone] at this
    exact this
  · rw [trail_lexFrom_append cs o a _ (by simpa using hend)]
    congr 1
    have e1 := trail_lexFrom_tok cs (o + utf8Len a) .ws [' '] ('[' :: '-' :: body ++ ' ' :: b)
      (hblank _ (by simp [hs.ws_lbrack]))
    rw [hone] at e1
    rw [show ' ' :: ('[' :: '-' :: body ++ ' ' :: b) = [' '] ++ ('[' :: '-' :: body ++ ' ' :: b) from rfl, e1]
    congr 1
    rw [trail_lexFrom_tok cs _ .blockComment ('[' :: '-' :: body) (' ' :: b)
      (trail_spellOK_blockComment cs body h1 h2 _)]
    congr 1
    have e3 := trail_lexFrom_tok cs (o + utf8Len a + 1 + utf8Len ('[' :: '-' :: body)) .ws [' '] b (hblank _ hb)
    rw [hone] at e3
    exact e3

end Cook
