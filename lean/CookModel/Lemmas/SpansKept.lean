import CookModel.Lemmas.CollectorFold
import CookModel.Lemmas.AstBuild
/-
  The analysis pass and `build_ast` only ever RETAIN payloads of events they were given (C04, derived
  data): for an ARBITRARY predicate `Q : Ev α → Prop` on parser events,

  * every location the collector records (`locIngr`, `locCw` — the `locations` of ingredients and
    cookware) is the payload of an ingredient / cookware event of the stream, so it satisfies `Q` as
    that event when every event of the stream does (`kept_processEvent`, `kept_parseEvents`,
    `kept_parseRecipe`, `kept_parseMetadata`);
  * every node of the AST built by `build_ast` is the payload of an event of the stream
    (`kept_buildAst`, `kept_buildAstOfInput`).

  Every per-event theorem (valid spans, ordered text fragments, derived data) is thereby transferred
  to the locations the analysis keeps and to the AST nodes without a sweep per predicate.

  `KeptAll Q s`  : the invariant of the collector state.
  `KeptK Q m`    : the piece `m` of the fold keeps `KeptAll Q`.
  The sweep copies the structure of `SpOK` / `sp_ok` of SpansAnalysis.lean; the only writes to the two
  fields are the pushes at the end of `ingrBuild` and `cwBuild`.
-/
set_option linter.unusedSectionVars false
set_option linter.unusedSimpArgs false
set_option linter.unusedVariables false
namespace Cook
variable {α : Type} [Arith α]

/-- every location the collector has recorded is the payload of an event satisfying `Q` -/
def KeptAll (Q : Ev α → Prop) (s : Col α) : Prop :=
  (∀ li ∈ s.locIngr.toList, Q (.ingredient li)) ∧ (∀ lc ∈ s.locCw.toList, Q (.cookware lc))

theorem kept_init (Q : Ev α → Prop) : KeptAll Q ({} : Col α) :=
  ⟨fun li h => by simp at h, fun lc h => by simp at h⟩

/-- a change of fields other than the two location tables -/
theorem KeptAll.congr {Q : Ev α → Prop} {s s' : Col α} (h : KeptAll Q s) (h1 : s'.locIngr = s.locIngr)
    (h2 : s'.locCw = s.locCw) : KeptAll Q s' :=
  ⟨by rw [h1]; exact h.1, by rw [h2]; exact h.2⟩

theorem KeptAll.kept_coreEq {Q : Ev α → Prop} {s s' : Col α} (h : KeptAll Q s) (hc : CoreEq s s') : KeptAll Q s' :=
  h.congr hc.2.2.2.2.2.2.1 hc.2.2.2.2.2.2.2.1

theorem KeptAll.kept_pushIngr {Q : Ev α → Prop} {s s' : Col α} (h : KeptAll Q s) (li : Loc (PIngredient α))
    (hli : Q (.ingredient li)) (h1 : s'.locIngr = s.locIngr.push li) (h2 : s'.locCw = s.locCw) : KeptAll Q s' := by
  refine ⟨?_, by rw [h2]; exact h.2⟩
  intro x hx
  rw [h1] at hx
  simp only [Array.toList_push, List.mem_append, List.mem_singleton] at hx
  rcases hx with hx | rfl
  · exact h.1 x hx
  · exact hli

theorem KeptAll.kept_pushCw {Q : Ev α → Prop} {s s' : Col α} (h : KeptAll Q s) (lc : Loc (PCookware α))
    (hlc : Q (.cookware lc)) (h1 : s'.locIngr = s.locIngr) (h2 : s'.locCw = s.locCw.push lc) : KeptAll Q s' := by
  refine ⟨by rw [h1]; exact h.1, ?_⟩
  intro x hx
  rw [h2] at hx
  simp only [Array.toList_push, List.mem_append, List.mem_singleton] at hx
  rcases hx with hx | rfl
  · exact h.2 x hx
  · exact hlc

/-- `m` keeps the invariant `KeptAll Q` -/
structure KeptK (Q : Ev α → Prop) {β : Type} (m : A α β) : Prop where
  out : ∀ s, KeptAll Q s → KeptAll Q (m s).2

theorem KeptK.pure {β : Type} {Q : Ev α → Prop} (a : β) : KeptK Q (Pure.pure a : A α β) := ⟨fun s h => h⟩

theorem KeptK.bind {β γ : Type} {Q : Ev α → Prop} {m : A α β} {f : β → A α γ} (hm : KeptK Q m)
    (hf : ∀ a, KeptK Q (f a)) : KeptK Q (m >>= f) :=
  ⟨fun s h => (hf (m s).1).out (m s).2 (hm.out s h)⟩

/-- reading the state: the continuation may use that the state it is given satisfies the invariant -/
theorem KeptK.bindGet {γ : Type} {Q : Ev α → Prop} {f : Col α → A α γ}
    (hf : ∀ s0, KeptAll Q s0 → KeptK Q (f s0)) : KeptK Q ((get : A α (Col α)) >>= f) :=
  ⟨fun s h => (hf s h).out s h⟩

theorem KeptK.get {Q : Ev α → Prop} : KeptK Q (get : A α (Col α)) := ⟨fun s h => h⟩

theorem KeptK.ite {β : Type} {Q : Ev α → Prop} {c : Prop} [Decidable c] {a b : A α β} (ha : KeptK Q a)
    (hb : KeptK Q b) : KeptK Q (if c then a else b) := by
  split <;> assumption

/-- a piece that leaves the core fields alone (CollectorFold.lean) keeps every `KeptAll Q` -/
theorem kept_of_coreOnly {β : Type} {Q : Ev α → Prop} {m : A α β} (h : CoreOnly m) : KeptK Q m :=
  ⟨fun s hs => hs.kept_coreEq (h.out s)⟩

theorem kept_of_diagOnly {β : Type} {Q : Ev α → Prop} {m : A α β} (h : DiagOnly m) : KeptK Q m :=
  kept_of_coreOnly h.coreOnly

theorem KeptK.apanic {Q : Ev α → Prop} (site : String) : KeptK Q (apanic (α := α) site) :=
  kept_of_diagOnly (DiagOnly.apanic site)

theorem KeptK.aerr {Q : Ev α → Prop} (k : String) (l : List Span) : KeptK Q (aerr (α := α) k l) :=
  ⟨fun s h => h.congr rfl rfl⟩

theorem KeptK.awarn {Q : Ev α → Prop} (k : String) (l : List Span) : KeptK Q (awarn (α := α) k l) :=
  ⟨fun s h => h.congr rfl rfl⟩

theorem KeptK.modify {Q : Ev α → Prop} (f : Col α → Col α) (hf : ∀ s, KeptAll Q s → KeptAll Q (f s)) :
    KeptK Q (modify f : A α PUnit) := ⟨fun s h => hf s h⟩

/-- a `modify` that does not touch the two location tables -/
theorem KeptK.modifyCongr {Q : Ev α → Prop} (f : Col α → Col α)
    (hf : ∀ s, (f s).locIngr = s.locIngr ∧ (f s).locCw = s.locCw) : KeptK Q (_root_.modify f : A α PUnit) :=
  ⟨fun s h => h.congr (hf s).1 (hf s).2⟩

theorem KeptK.set {Q : Ev α → Prop} (s' : Col α) (h : KeptAll Q s') : KeptK Q (set s' : A α PUnit) := ⟨fun _ _ => h⟩

theorem KeptK.forIn {β γ : Type} {Q : Ev α → Prop} (l : List β) (init : γ) (f : β → γ → A α (ForInStep γ))
    (hf : ∀ b c, KeptK Q (f b c)) : KeptK Q (forIn l init f) := by
  induction l generalizing init with
  | nil => simp only [List.forIn_nil]; exact KeptK.pure _
  | cons x xs ih =>
    simp only [List.forIn_cons]
    apply KeptK.bind (hf x init)
    intro r
    cases r with
    | done c => exact KeptK.pure _
    | yield c => exact ih c

syntax "kept_leaf" : tactic
macro_rules | `(tactic| kept_leaf) => `(tactic| first
  | with_reducible exact KeptK.pure _
  | with_reducible exact KeptK.get
  | with_reducible exact KeptK.apanic _
  | with_reducible exact KeptK.aerr _ _
  | with_reducible exact KeptK.awarn _ _
  | ((with_reducible refine KeptK.modifyCongr _ ?_); intro s; exact ⟨rfl, rfl⟩)
  | ((with_reducible refine KeptK.set _ ?_); exact KeptAll.congr ‹KeptAll _ _› rfl rfl)
  | assumption)

/-- decomposes a `KeptK` goal along the `do` block; stops at calls of other pieces and at `modify`s
    that write one of the two tables -/
macro "kept_ok" : tactic => `(tactic|
  repeat' (first
    | kept_leaf
    | with_reducible apply KeptK.bindGet
    | with_reducible apply KeptK.bind
    | with_reducible apply KeptK.ite
    | with_reducible apply KeptK.forIn
    | intro _
    | (show KeptK _ _; dsimp only; show KeptK _ _)
    | (show KeptK _ _; split)))

/-! ### values, quantities, references: diagnostics only -/

theorem valueOf_kept (Q : Ev α → Prop) (env : Env) (v : PQValue α) (b : Bool) : KeptK Q (valueOf env v b) :=
  kept_of_diagOnly (valueOf_diagOnly env v b)

theorem quantityOf_kept (Q : Ev α → Prop) (env : Env) (q : Loc (PQuantity α)) (b : Bool) :
    KeptK Q (quantityOf env q b) := kept_of_diagOnly (quantityOf_diagOnly env q b)

theorem optQuantityOf_kept (Q : Ev α → Prop) (env : Env) (q : Option (Loc (PQuantity α))) (b : Bool) :
    KeptK Q (optQuantityOf env q b) := kept_of_diagOnly (optQuantityOf_diagOnly env q b)

theorem optValueOf_kept (Q : Ev α → Prop) (env : Env) (q : Option (Loc (PQValue α))) :
    KeptK Q (optValueOf env q) := kept_of_diagOnly (optValueOf_diagOnly env q)

theorem resolveReference_kept (Q : Ev α → Prop) (env : Env) (container : String) (inherit : Nat)
    (existing : List (Str × Modifiers)) (name : Str) (mods : Modifiers) (location modLoc : Span) :
    KeptK Q (resolveReference (α := α) env container inherit existing name mods location modLoc) :=
  kept_of_diagOnly (resolveReference_diagOnly env container inherit existing name mods location modLoc)

theorem resolveInterRef_kept (Q : Ev α → Prop) (d : Loc InterData) : KeptK Q (resolveInterRef (α := α) d) :=
  kept_of_diagOnly (resolveInterRef_diagOnly d)

theorem noteReferenceError_kept (Q : Ev α → Prop) (input : Str) (a b : Span) (c : Option Span) :
    KeptK Q (noteReferenceError (α := α) input a b c) := kept_of_diagOnly (noteReferenceError_diagOnly input a b c)

theorem ingrInterChecks_kept (Q : Ev α → Prop) (i : PIngredient α) (igr : Ingredient (ScalableValue α)) :
    KeptK Q (ingrInterChecks i igr) := kept_of_diagOnly (ingrInterChecks_diagOnly i igr)

theorem ingrInter_kept (Q : Ev α → Prop) (i : PIngredient α) (igr : Ingredient (ScalableValue α)) (d : Loc InterData) :
    KeptK Q (ingrInter i igr d) := kept_of_diagOnly (ingrInter_diagOnly i igr d)

theorem ingrUnitChecks_kept (Q : Ev α → Prop) (env : Env) (i : PIngredient α) (newQ : Quantity (ScalableValue α))
    (idxs : List Nat) : KeptK Q (ingrUnitChecks env i newQ idxs) := kept_of_diagOnly (ingrUnitChecks_diagOnly env i newQ idxs)

/-! ### ingredients -/

theorem ingrRefChecks_kept (Q : Ev α → Prop) (env : Env) (input : Str) (li : Loc (PIngredient α))
    (igr : Ingredient (ScalableValue α)) (refTo : Nat) (defn : Ingredient (ScalableValue α))
    (defLoc : Loc (PIngredient α)) : KeptK Q (ingrRefChecks env input li igr refTo defn defLoc) :=
  kept_of_diagOnly (ingrRefChecks_diagOnly env input li igr refTo defn defLoc)

theorem ingrSetReferencedFrom_kept (Q : Ev α → Prop) (refTo newIndex : Nat) (defn : Ingredient (ScalableValue α)) :
    KeptK Q (ingrSetReferencedFrom refTo newIndex defn) := by
  unfold ingrSetReferencedFrom
  kept_ok

theorem ingrRegular_kept (Q : Ev α → Prop) (env : Env) (input : Str) (li : Loc (PIngredient α))
    (igr0 : Ingredient (ScalableValue α)) : KeptK Q (ingrRegular env input li igr0) := by
  have hr : ∀ c n e nm m, KeptK Q (resolveReference (α := α) env c n e nm m li.span li.val.modifiers.span) :=
    fun c n e nm m => resolveReference_kept Q env c n e nm m _ _
  have hs : ∀ a b c, KeptK Q (ingrSetReferencedFrom (α := α) a b c) := fun a b c => ingrSetReferencedFrom_kept Q a b c
  have hc : ∀ a b c d, KeptK Q (ingrRefChecks env input li a b c d) := fun a b c d => ingrRefChecks_kept Q env input li a b c d
  unfold ingrRegular
  kept_ok
  all_goals first
    | exact hr _ _ _ _ _
    | exact hs _ _ _
    | exact hc _ _ _ _

/-- the first of the two writes: the pushed location is the payload of the ingredient event -/
theorem ingrBuild_kept (Q : Ev α → Prop) (env : Env) (input : Str) (li : Loc (PIngredient α))
    (igr0 : Ingredient (ScalableValue α)) (hli : Q (.ingredient li)) : KeptK Q (ingrBuild env input li igr0) := by
  have h1 := ingrRegular_kept Q env input li igr0
  have h2 : ∀ d, KeptK Q (ingrInter li.val igr0 d) := fun d => ingrInter_kept Q li.val igr0 d
  unfold ingrBuild
  apply KeptK.bind
  · split
    · exact h2 _
    · exact h1
  intro igr
  apply KeptK.bind
  · exact KeptK.modify _ (fun s h => h.kept_pushIngr li hli rfl rfl)
  intro _
  kept_ok

theorem ingredientA_kept (Q : Ev α → Prop) (env : Env) (input : Str) (li : Loc (PIngredient α))
    (hli : Q (.ingredient li)) : KeptK Q (ingredientA env input li) := by
  have h1 := optQuantityOf_kept Q env li.val.quantity true
  have h2 : ∀ g, KeptK Q (ingrBuild env input li g) := fun g => ingrBuild_kept Q env input li g hli
  unfold ingredientA
  kept_ok
  all_goals exact h2 _

/-! ### cookware -/

theorem cwRefChecks_kept (Q : Ev α → Prop) (input : Str) (lc : Loc (PCookware α)) (cw : Cookware (ScalableValue α))
    (defn : Cookware (ScalableValue α)) (defLoc : Loc (PCookware α)) :
    KeptK Q (cwRefChecks input lc cw defn defLoc) := kept_of_diagOnly (cwRefChecks_diagOnly input lc cw defn defLoc)

theorem cwSetReferencedFrom_kept (Q : Ev α → Prop) (refTo newIndex : Nat) (defn : Cookware (ScalableValue α)) :
    KeptK Q (cwSetReferencedFrom refTo newIndex defn) := by
  unfold cwSetReferencedFrom
  kept_ok

theorem cwResolve_kept (Q : Ev α → Prop) (env : Env) (input : Str) (lc : Loc (PCookware α))
    (cw0 : Cookware (ScalableValue α)) : KeptK Q (cwResolve env input lc cw0) := by
  have hr : ∀ c n e nm m, KeptK Q (resolveReference (α := α) env c n e nm m lc.span lc.val.modifiers.span) :=
    fun c n e nm m => resolveReference_kept Q env c n e nm m _ _
  have hs : ∀ a b c, KeptK Q (cwSetReferencedFrom (α := α) a b c) := fun a b c => cwSetReferencedFrom_kept Q a b c
  have hc : ∀ a b c, KeptK Q (cwRefChecks input lc a b c) := fun a b c => cwRefChecks_kept Q input lc a b c
  unfold cwResolve
  kept_ok
  all_goals first
    | exact hr _ _ _ _ _
    | exact hs _ _ _
    | exact hc _ _ _

/-- the second of the two writes: the pushed location is the payload of the cookware event -/
theorem cwBuild_kept (Q : Ev α → Prop) (env : Env) (input : Str) (lc : Loc (PCookware α))
    (cw0 : Cookware (ScalableValue α)) (hlc : Q (.cookware lc)) : KeptK Q (cwBuild env input lc cw0) := by
  have h1 := cwResolve_kept Q env input lc cw0
  unfold cwBuild
  apply KeptK.bind h1
  intro cw
  apply KeptK.bind
  · exact KeptK.modify _ (fun s h => h.kept_pushCw lc hlc rfl rfl)
  intro _
  kept_ok

theorem cookwareA_kept (Q : Ev α → Prop) (env : Env) (input : Str) (lc : Loc (PCookware α))
    (hlc : Q (.cookware lc)) : KeptK Q (cookwareA env input lc) := by
  have h1 := optValueOf_kept Q env lc.val.quantity
  have h2 : ∀ g, KeptK Q (cwBuild env input lc g) := fun g => cwBuild_kept Q env input lc g hlc
  unfold cookwareA
  kept_ok
  all_goals exact h2 _

/-! ### timers -/

theorem timerQuantity_kept (Q : Ev α → Prop) (env : Env) (tq : Option (Loc (PQuantity α))) :
    KeptK Q (timerQuantity env tq) := kept_of_diagOnly (timerQuantity_diagOnly env tq)

theorem timerA_kept (Q : Ev α → Prop) (env : Env) (lt : Loc (PTimer α)) : KeptK Q (timerA env lt) := by
  have := timerQuantity_kept Q env lt.val.quantity
  unfold timerA
  kept_ok

/-! ### step and text items -/

theorem inStepTextStep_kept (Q : Ev α → Prop) (env : Env) (t : Text) (items : List Item) :
    KeptK Q (inStepTextStep (α := α) env t items) := by
  unfold inStepTextStep
  kept_ok

theorem inStepText_kept (Q : Ev α → Prop) (env : Env) (t : Text) : KeptK Q (inStepText (α := α) env t) := by
  have h1 : ∀ items, KeptK Q (inStepTextStep (α := α) env t items) := fun items => inStepTextStep_kept Q env t items
  unfold inStepText
  kept_ok
  all_goals exact h1 _

theorem pushItem_kept (Q : Ev α → Prop) (it : Item) : KeptK Q (pushItem (α := α) it) := by
  unfold pushItem
  kept_ok

theorem inStepComponent_kept (Q : Ev α → Prop) (env : Env) (input : Str) (ev : Ev α) (hev : Q ev) :
    KeptK Q (inStepComponent env input ev) := by
  have hp : ∀ it, KeptK Q (pushItem (α := α) it) := fun it => pushItem_kept Q it
  unfold inStepComponent
  cases ev with
  | ingredient i => exact KeptK.bind (ingredientA_kept Q env input i hev) (fun _ => hp _)
  | cookware c => exact KeptK.bind (cookwareA_kept Q env input c hev) (fun _ => hp _)
  | timer t => exact KeptK.bind (timerA_kept Q env t) (fun _ => hp _)
  | _ => exact KeptK.apanic _

theorem inTextComponent_kept (Q : Ev α → Prop) (input : Str) (ev : Ev α) (buf : Str) :
    KeptK Q (inTextComponent input ev buf) := kept_of_coreOnly (inTextComponent_coreOnly input ev buf)

theorem inBlockComponent_kept (Q : Ev α → Prop) (env : Env) (input : Str) (ev : Ev α) (hev : Q ev) :
    KeptK Q (inBlockComponent env input ev) := by
  have h1 := inStepComponent_kept Q env input ev hev
  have h2 : ∀ buf, KeptK Q (inTextComponent input ev buf) := fun buf => inTextComponent_kept Q input ev buf
  unfold inBlockComponent
  kept_ok
  all_goals exact h2 _

/-! ### `>>` metadata, the end of a block, every event -/

theorem metadataA_kept (Q : Ev α → Prop) (env : Env) (key value : Text) : KeptK Q (metadataA (α := α) env key value) :=
  kept_of_coreOnly (metadataA_coreOnly env key value)

theorem endBlock_kept (Q : Ev α → Prop) (kind : BlockKind) : KeptK Q (endBlock (α := α) kind) := by
  unfold endBlock endBlockContent pushContent
  kept_ok

theorem processEvent_kept (Q : Ev α → Prop) (env : Env) (input : Str) (ev : Ev α) (hev : Q ev) :
    KeptK Q (processEvent env input ev) := by
  cases ev with
  | frontMatter t => exact KeptK.modifyCongr _ (fun s => ⟨rfl, rfl⟩)
  | metadata k v => exact metadataA_kept Q env k v
  | «section» name => exact KeptK.modifyCongr _ (fun s => ⟨rfl, rfl⟩)
  | start kind => exact KeptK.modifyCongr _ (fun s => ⟨rfl, rfl⟩)
  | stop kind => exact endBlock_kept Q kind
  | text t => exact inStepText_kept Q env t
  | ingredient i => exact inBlockComponent_kept Q env input _ hev
  | cookware c => exact inBlockComponent_kept Q env input _ hev
  | timer t => exact inBlockComponent_kept Q env input _ hev
  | error d => exact KeptK.pure _
  | warning d => exact KeptK.modifyCongr _ (fun s => ⟨rfl, rfl⟩)

/-- one event: the locations recorded afterwards are those recorded before, plus possibly the payload
    of the event itself -/
theorem kept_processEvent (Q : Ev α → Prop) (env : Env) (input : Str) (ev : Ev α) (s : Col α)
    (hs : KeptAll Q s) (hev : Q ev) : KeptAll Q (processEvent env input ev s).2 :=
  (processEvent_kept Q env input ev hev).out s hs

theorem kept_parseEventsLoop (Q : Ev α → Prop) (env : Env) (input : Str) (evs : List (Ev α)) (s : Col α)
    (hs : KeptAll Q s) (hev : ∀ ev ∈ evs, Q ev) :
    ∀ c, (parseEventsLoop env input evs s).output = some c → KeptAll Q c := by
  induction evs generalizing s with
  | nil =>
    intro c hc
    simp only [parseEventsLoop, Option.some.injEq] at hc
    subst hc
    have h1 : KeptAll Q (if (!s.cur.isEmpty) = true then { s with sections := s.sections ++ [s.cur], cur := ⟨none, []⟩ } else s) := by
      split
      · exact hs.congr rfl rfl
      · exact hs
    generalize (if (!s.cur.isEmpty) = true then { s with sections := s.sections ++ [s.cur], cur := ⟨none, []⟩ } else s) = s1 at h1
    split
    · exact h1.congr rfl rfl
    · exact h1
  | cons ev rest ih =>
    by_cases he : ∃ d0, ev = .error d0
    · obtain ⟨d0, rfl⟩ := he
      intro c hc
      simp only [parseEventsLoop] at hc
      cases hc
    · rw [parseEventsLoop_cons_nonerror env input ev rest s he]
      exact ih _ (kept_processEvent Q env input ev s hs (hev ev List.mem_cons_self))
        (fun e he' => hev e (List.mem_cons_of_mem _ he'))

/-- `parse_events`: every location of the collector it returns is the payload of an event of the
    stream — it satisfies, as that event, whatever all events of the stream satisfy -/
theorem kept_parseEvents (Q : Ev α → Prop) (env : Env) (input : Str) (evs : List (Ev α)) (hev : ∀ ev ∈ evs, Q ev) :
    ∀ c, (parseEvents env input evs).output = some c → KeptAll Q c :=
  kept_parseEventsLoop Q env input evs {} (kept_init Q) hev

/-- `CooklangParser::parse` -/
theorem kept_parseRecipe (Q : Ev α → Prop) (env : Env) (input : Str)
    (hev : ∀ ev ∈ (pullEvents (α := α) env.cs env.ext input).1.toList, Q ev) :
    ∀ c, (parseRecipe (α := α) env input).output = some c → KeptAll Q c :=
  kept_parseEvents Q env input _ hev

/-- `CooklangParser::parse_metadata` -/
theorem kept_parseMetadata (Q : Ev α → Prop) (env : Env) (input : Str)
    (hev : ∀ ev ∈ (pullMetaEvents (α := α) env.cs env.ext input).1.toList, Q ev) :
    ∀ c, (parseMetadata (α := α) env input).output = some c → KeptAll Q c :=
  kept_parseEvents Q env input _ hev

/-! ### the AST -/

/-- AST: a block satisfies `Q` as the event(s) it was made from -/
def KeptAstBlock (Q : Ev α → Prop) : AstBlock α → Prop
  | .frontMatter t => Q (.frontMatter t)
  | .metadata k v => Q (.metadata k v)
  | .«section» n => Q (.«section» n)
  | .step items => ∀ it ∈ items, Q it.toEv
  | .textBlock ts => ∀ t ∈ ts, Q (.text t)

/-- the invariant of the fold of `build_ast`: the blocks built so far and the items of the open block -/
structure KeptAst (Q : Ev α → Prop) (s : AstState α) : Prop where
  blocks : ∀ b ∈ s.blocks, KeptAstBlock Q b
  items : ∀ it ∈ s.items, Q it.toEv

theorem kept_astTexts {Q : Ev α → Prop} (items : List (AstItem α)) (ts : List Text)
    (h : astTexts items = some ts) (hi : ∀ it ∈ items, Q it.toEv) : ∀ t ∈ ts, Q (.text t) := by
  induction items generalizing ts with
  | nil => simp only [astTexts, Option.some.injEq] at h; subst h; intro t ht; cases ht
  | cons a rest ih =>
    cases a with
    | text x =>
      simp only [astTexts] at h
      split at h
      · rename_i ts' hts'
        simp only [Option.some.injEq] at h; subst h
        intro t ht
        simp only [List.mem_cons] at ht
        rcases ht with rfl | ht
        · exact hi (.text t) (List.mem_cons_self ..)
        · exact ih ts' hts' (fun it hit => hi it (List.mem_cons_of_mem _ hit)) t ht
      · cases h
    | ingredient i => simp [astTexts] at h
    | cookware i => simp [astTexts] at h
    | timer i => simp [astTexts] at h

theorem KeptAst.kept_pushBlock {Q : Ev α → Prop} {s : AstState α} (h : KeptAst Q s) (b : AstBlock α)
    (hb : KeptAstBlock Q b) : ∀ x ∈ s.blocks ++ [b], KeptAstBlock Q x := by
  intro x hx
  simp only [List.mem_append, List.mem_singleton] at hx
  rcases hx with hx | rfl
  · exact h.blocks x hx
  · exact hb

theorem KeptAst.kept_pushItem {Q : Ev α → Prop} {s : AstState α} (h : KeptAst Q s) (it : AstItem α)
    (hb : Q it.toEv) : ∀ x ∈ s.items ++ [it], Q x.toEv := by
  intro x hx
  simp only [List.mem_append, List.mem_singleton] at hx
  rcases hx with hx | rfl
  · exact h.items x hx
  · exact hb

theorem kept_astStep {Q : Ev α → Prop} (s : AstState α) (ev : Ev α) (h : KeptAst Q s) (hev : Q ev) :
    KeptAst Q (astStep s ev) := by
  have nil_items : ∀ it ∈ ([] : List (AstItem α)), Q it.toEv := fun it hit => by cases hit
  cases ev with
  | frontMatter t => exact ⟨h.kept_pushBlock _ hev, h.items⟩
  | metadata k v => exact ⟨h.kept_pushBlock _ hev, h.items⟩
  | «section» n => exact ⟨h.kept_pushBlock _ hev, h.items⟩
  | start k => exact ⟨h.blocks, nil_items⟩
  | stop k =>
    cases k with
    | step =>
      simp only [astStep]
      split
      · exact h
      · exact ⟨h.kept_pushBlock (.step s.items) h.items, nil_items⟩
    | text =>
      simp only [astStep]
      split
      · rename_i ts hts
        exact ⟨h.kept_pushBlock (.textBlock ts) (kept_astTexts s.items ts hts h.items), nil_items⟩
      · exact ⟨h.blocks, nil_items⟩
  | text t => exact ⟨h.blocks, h.kept_pushItem (.text t) hev⟩
  | ingredient i => exact ⟨h.blocks, h.kept_pushItem (.ingredient i) hev⟩
  | cookware i => exact ⟨h.blocks, h.kept_pushItem (.cookware i) hev⟩
  | timer i => exact ⟨h.blocks, h.kept_pushItem (.timer i) hev⟩
  | error d => exact ⟨h.blocks, h.items⟩
  | warning d => exact ⟨h.blocks, h.items⟩

theorem kept_astFold {Q : Ev α → Prop} (evs : List (Ev α)) (s : AstState α) (h : KeptAst Q s)
    (hev : ∀ ev ∈ evs, Q ev) : KeptAst Q (evs.foldl astStep s) := by
  induction evs generalizing s with
  | nil => exact h
  | cons ev rest ih =>
    exact ih (astStep s ev) (kept_astStep s ev h (hev ev (List.mem_cons_self ..)))
      (fun e he => hev e (List.mem_cons_of_mem _ he))

/-- `build_ast`: every block of the AST is made of payloads of events of the stream — it satisfies, as
    those events, whatever all events of the stream satisfy -/
theorem kept_buildAst (Q : Ev α → Prop) (evs : List (Ev α)) (hev : ∀ ev ∈ evs, Q ev) :
    ∀ b ∈ (buildAst evs).blocks, KeptAstBlock Q b :=
  (kept_astFold evs {} ⟨fun b hb => (by cases hb), fun b hb => (by cases hb)⟩ hev).blocks

/-- `build_ast(PullParser::new(input, extensions))` -/
theorem kept_buildAstOfInput (Q : Ev α → Prop) (cs : CharSpec) (ext : Ext) (s : List Char)
    (hev : ∀ ev ∈ (pullEvents (α := α) cs ext s).1.toList, Q ev) :
    ∀ b ∈ (buildAstOfInput (α := α) cs ext s).blocks, KeptAstBlock Q b :=
  kept_buildAst Q _ hev

/-! ### the statements are not vacuous -/

/-- `KeptAll` says exactly `Q` of the recorded location -/
example (Q : Ev α → Prop) (li : Loc (PIngredient α)) :
    KeptAll Q ({ locIngr := #[li] } : Col α) ↔ Q (.ingredient li) := by
  constructor
  · intro h; exact h.1 li (by simp)
  · intro h
    refine ⟨?_, fun lc hlc => by simp at hlc⟩
    intro x hx
    simp only [List.mem_singleton] at hx
    subst hx; exact h

/-- … and of the recorded cookware location -/
example (Q : Ev α → Prop) (lc : Loc (PCookware α)) :
    KeptAll Q ({ locCw := #[lc] } : Col α) ↔ Q (.cookware lc) := by
  constructor
  · intro h; exact h.2 lc (by simp)
  · intro h
    refine ⟨fun li hli => by simp at hli, ?_⟩
    intro x hx
    simp only [List.mem_singleton] at hx
    subst hx; exact h

/-- a predicate that is false of some events is not kept for free: `KeptAll (fun _ => False)` fails as
    soon as a location is recorded -/
example (li : Loc (PIngredient α)) : ¬ KeptAll (fun _ => False) ({ locIngr := #[li] } : Col α) :=
  fun h => h.1 li (by simp)

/-- `kept_buildAst` on a tiny stream: a step with one text; with `Q ev := ev is the text t or a bracket`,
    the one block of the AST is the step whose single item is that text -/
example (t : Text) :
    (buildAst (α := α) [.start .step, .text t, .stop .step]).blocks = [.step [.text t]] ∧
    ∀ b ∈ (buildAst (α := α) [.start .step, .text t, .stop .step]).blocks,
      KeptAstBlock (fun ev => ∀ t', ev = .text t' → t' = t) b := by
  refine ⟨rfl, kept_buildAst _ _ ?_⟩
  intro ev hev t' ht'
  simp only [List.mem_cons, List.not_mem_nil, or_false] at hev
  rcases hev with rfl | rfl | rfl
  · cases ht'
  · cases ht'; rfl
  · cases ht'

/-- the processing of one ingredient event inside a step records exactly that event's payload -/
example (Q : Ev α → Prop) (env : Env) (input : Str) (li : Loc (PIngredient α)) (hli : Q (.ingredient li)) :
    KeptAll Q (processEvent env input (.ingredient li) ({ block := some (.step []) } : Col α)).2 :=
  kept_processEvent Q env input _ _ (kept_init Q |>.congr rfl rfl) hli

end Cook
