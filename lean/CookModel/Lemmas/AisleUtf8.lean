import CookModel.Side.AisleUtf8
import CookModel.Side.AisleSpec
/- C11 — `from_utf8 (as_bytes s) = Ok s` for the hand-written encoder / decoder (`autf_`). -/
namespace Cook.Aisle

theorem autf_char_range (c : Char) : c.toNat < 0xD800 ∨ (0xDFFF < c.toNat ∧ c.toNat < 0x110000) := by
  exact c.valid

/-- every byte of an encoded scalar value fits in a byte -/
theorem autf_enc_lt (n : Nat) (hn : n < 0x110000) : ∀ b ∈ utf8EncNat n, b < 256 := by
  intro b hb
  unfold utf8EncNat at hb
  repeat' split at hb
  all_goals simp only [List.mem_cons, List.not_mem_nil, or_false] at hb
  all_goals omega

/-- one character decodes back, whatever follows -/
theorem autf_dec_enc_cons (c : Char) (rest : List Nat) :
    utf8DecNat (utf8EncNat c.toNat ++ rest) = (utf8DecNat rest).map (c :: ·) := by
  have hr := autf_char_range c
  generalize hn : c.toNat = n at hr
  have hc : c = Char.ofNat n := by rw [← hn]; exact (Char.ofNat_toNat c).symm
  unfold utf8EncNat
  by_cases h1 : n < 0x80
  · simp only [h1, if_true, List.cons_append, List.nil_append]
    rw [utf8DecNat.eq_def]; simp only [h1, if_true, hc]
  by_cases h2 : n < 0x800
  · simp only [h1, h2, if_true, if_false, List.cons_append, List.nil_append]
    rw [utf8DecNat.eq_def]
    have a1 : ¬ (0xC0 + n / 64 < 0x80) := by omega
    have a2 : 0xC2 ≤ 0xC0 + n / 64 ∧ 0xC0 + n / 64 ≤ 0xDF := by omega
    have a3 : utf8Cont (0x80 + n % 64) = true := by simp [utf8Cont]; omega
    have a4 : (0xC0 + n / 64 - 0xC0) * 64 + (0x80 + n % 64 - 0x80) = n := by omega
    simp only [a1, a2, a3, a4, if_true, if_false, and_self, hc]
  by_cases h3 : n < 0x10000
  · simp only [h1, h2, h3, if_true, if_false, List.cons_append, List.nil_append]
    rw [utf8DecNat.eq_def]
    have a1 : ¬ (0xE0 + n / 4096 < 0x80) := by omega
    have a2 : ¬ (0xC2 ≤ 0xE0 + n / 4096 ∧ 0xE0 + n / 4096 ≤ 0xDF) := by omega
    have a2' : 0xE0 ≤ 0xE0 + n / 4096 ∧ 0xE0 + n / 4096 ≤ 0xEF := by omega
    have a3 : utf8Second3 (0xE0 + n / 4096) (0x80 + n / 64 % 64) = true := by
      unfold utf8Second3 utf8Cont
      repeat' split
      all_goals simp only [Bool.and_eq_true, decide_eq_true_eq]
      all_goals omega
    have a3' : utf8Cont (0x80 + n % 64) = true := by simp [utf8Cont]; omega
    have a4 : (0xE0 + n / 4096 - 0xE0) * 4096 + (0x80 + n / 64 % 64 - 0x80) * 64 + (0x80 + n % 64 - 0x80) = n := by
      omega
    simp only [a1, a2, a2', a3, a3', a4, if_true, if_false, and_self, Bool.and_self, hc]
  · simp only [h1, h2, h3, if_false, List.cons_append, List.nil_append]
    rw [utf8DecNat.eq_def]
    have a1 : ¬ (0xF0 + n / 262144 < 0x80) := by omega
    have a2 : ¬ (0xC2 ≤ 0xF0 + n / 262144 ∧ 0xF0 + n / 262144 ≤ 0xDF) := by omega
    have a2' : ¬ (0xE0 ≤ 0xF0 + n / 262144 ∧ 0xF0 + n / 262144 ≤ 0xEF) := by omega
    have a2'' : 0xF0 ≤ 0xF0 + n / 262144 ∧ 0xF0 + n / 262144 ≤ 0xF4 := by omega
    have a3 : utf8Second4 (0xF0 + n / 262144) (0x80 + n / 4096 % 64) = true := by
      unfold utf8Second4 utf8Cont
      repeat' split
      all_goals simp only [Bool.and_eq_true, decide_eq_true_eq]
      all_goals omega
    have a3' : utf8Cont (0x80 + n / 64 % 64) = true := by simp [utf8Cont]; omega
    have a3'' : utf8Cont (0x80 + n % 64) = true := by simp [utf8Cont]; omega
    have a4 : (0xF0 + n / 262144 - 0xF0) * 262144 + (0x80 + n / 4096 % 64 - 0x80) * 4096
        + (0x80 + n / 64 % 64 - 0x80) * 64 + (0x80 + n % 64 - 0x80) = n := by omega
    simp only [a1, a2, a2', a2'', a3, a3', a3'', a4, if_true, if_false, and_self, Bool.and_self, hc]

theorem autf_decNat_encNat (s : List Char) : utf8DecNat (s.flatMap fun c => utf8EncNat c.toNat) = some s := by
  induction s with
  | nil => simp [utf8DecNat]
  | cons c s ih => rw [List.flatMap_cons, autf_dec_enc_cons, ih]; rfl

theorem autf_toNat_ofNat_map (l : List Nat) (h : ∀ b ∈ l, b < 256) : (l.map UInt8.ofNat).map UInt8.toNat = l := by
  induction l with
  | nil => rfl
  | cons b l ih =>
    have hb : b < 256 := h b (by simp)
    simp only [List.map_cons, List.map_map] at ih ⊢
    rw [ih (fun x hx => h x (by simp [hx]))]
    simp [UInt8.toNat_ofNat', Nat.mod_eq_of_lt hb]

/-- `from_utf8 (s.as_bytes()) = Ok(s)` -/
theorem autf_decode_encode (s : List Char) : utf8Decode (utf8Encode s) = some s := by
  unfold utf8Decode utf8Encode
  rw [autf_toNat_ofNat_map, autf_decNat_encNat]
  intro b hb
  obtain ⟨c, -, hc⟩ := List.mem_flatMap.mp hb
  refine autf_enc_lt c.toNat ?_ b hc
  have := autf_char_range c; omega

/-- the hand-written encoder is the core one (`String.utf8EncodeChar`, used by `utf8` of Side/AisleSink.lean) -/
theorem autf_encChar_eq (c : Char) : String.utf8EncodeChar c = (utf8EncNat c.toNat).map UInt8.ofNat := by
  have hr : c.val.toNat < 0xD800 ∨ (0xDFFF < c.val.toNat ∧ c.val.toNat < 0x110000) := autf_char_range c
  unfold String.utf8EncodeChar utf8EncNat Char.toNat
  simp only
  generalize c.val.toNat = n at hr ⊢
  by_cases h1 : n < 0x80
  · have : n ≤ 0x7f := by omega
    simp only [h1, this, if_true, List.map_cons, List.map_nil]
  by_cases h2 : n < 0x800
  · have b1 : ¬ n ≤ 0x7f := by omega
    have b2 : n ≤ 0x7ff := by omega
    have e1 : n / 64 % 0x20 + 0xc0 = 0xC0 + n / 64 := by omega
    have e2 : n % 0x40 + 0x80 = 0x80 + n % 64 := by omega
    simp only [h1, h2, b1, b2, e1, e2, if_true, if_false, List.map_cons, List.map_nil]
  by_cases h3 : n < 0x10000
  · have b1 : ¬ n ≤ 0x7f := by omega
    have b2 : ¬ n ≤ 0x7ff := by omega
    have b3 : n ≤ 0xffff := by omega
    have e1 : n / 4096 % 0x10 + 0xe0 = 0xE0 + n / 4096 := by omega
    have e2 : n / 64 % 0x40 + 0x80 = 0x80 + n / 64 % 64 := by omega
    have e3 : n % 0x40 + 0x80 = 0x80 + n % 64 := by omega
    simp only [h1, h2, h3, b1, b2, b3, e1, e2, e3, if_true, if_false, List.map_cons, List.map_nil]
  · have b1 : ¬ n ≤ 0x7f := by omega
    have b2 : ¬ n ≤ 0x7ff := by omega
    have b3 : ¬ n ≤ 0xffff := by omega
    have e0 : n / 262144 % 0x08 + 0xf0 = 0xF0 + n / 262144 := by omega
    have e1 : n / 4096 % 0x40 + 0x80 = 0x80 + n / 4096 % 64 := by omega
    have e2 : n / 64 % 0x40 + 0x80 = 0x80 + n / 64 % 64 := by omega
    have e3 : n % 0x40 + 0x80 = 0x80 + n % 64 := by omega
    simp only [h1, h2, h3, b1, b2, b3, e0, e1, e2, e3, if_false, List.map_cons, List.map_nil]

/-- `utf8` (the bytes the sink theorems speak about) is `utf8Encode` -/
theorem autf_utf8_eq (s : List Char) : utf8 s = utf8Encode s := by
  unfold utf8 utf8Encode
  induction s with
  | nil => rfl
  | cons c s ih => simp only [List.flatMap_cons, List.map_append, ih, autf_encChar_eq]

/-! ### the converse: the decoder accepts only the encodings -/

theorem autf_toNat_ofNat (n : Nat) (h : n < 0xD800 ∨ (0xDFFF < n ∧ n < 0x110000)) : (Char.ofNat n).toNat = n := by
  have hv : n.isValidChar := h
  unfold Char.ofNat
  rw [dif_pos hv]
  unfold Char.ofNatAux Char.toNat
  have : n < UInt32.size := by unfold UInt32.size; omega
  simp [UInt32.toNat_ofNatLT]

theorem autf_w1 (b0 : Nat) (h : b0 < 0x80) : utf8EncNat (Char.ofNat b0).toNat = [b0] := by
  rw [autf_toNat_ofNat b0 (by omega)]; simp [utf8EncNat, h]

theorem autf_w2 (b0 b1 : Nat) (h0 : 0xC2 ≤ b0 ∧ b0 ≤ 0xDF) (h1 : utf8Cont b1 = true) :
    utf8EncNat (Char.ofNat ((b0 - 0xC0) * 64 + (b1 - 0x80))).toNat = [b0, b1] := by
  simp only [utf8Cont, Bool.and_eq_true, decide_eq_true_eq] at h1
  rw [autf_toNat_ofNat _ (by omega)]
  unfold utf8EncNat
  have a1 : ¬ ((b0 - 0xC0) * 64 + (b1 - 0x80) < 0x80) := by omega
  have a2 : (b0 - 0xC0) * 64 + (b1 - 0x80) < 0x800 := by omega
  simp only [a1, a2, if_true, if_false, List.cons.injEq, and_true]
  omega

theorem autf_w3 (b0 b1 b2 : Nat) (h0 : 0xE0 ≤ b0 ∧ b0 ≤ 0xEF) (h1 : utf8Second3 b0 b1 = true)
    (h2 : utf8Cont b2 = true) :
    utf8EncNat (Char.ofNat ((b0 - 0xE0) * 4096 + (b1 - 0x80) * 64 + (b2 - 0x80))).toNat = [b0, b1, b2] := by
  simp only [utf8Cont, Bool.and_eq_true, decide_eq_true_eq] at h2
  have h1' : 0x80 ≤ b1 ∧ b1 ≤ 0xBF ∧ (b0 = 0xE0 → 0xA0 ≤ b1) ∧ (b0 = 0xED → b1 ≤ 0x9F) := by
    unfold utf8Second3 utf8Cont at h1
    repeat' split at h1
    all_goals simp only [Bool.and_eq_true, decide_eq_true_eq] at h1
    all_goals omega
  rw [autf_toNat_ofNat _ (by omega)]
  unfold utf8EncNat
  have a1 : ¬ ((b0 - 0xE0) * 4096 + (b1 - 0x80) * 64 + (b2 - 0x80) < 0x80) := by omega
  have a2 : ¬ ((b0 - 0xE0) * 4096 + (b1 - 0x80) * 64 + (b2 - 0x80) < 0x800) := by omega
  have a3 : (b0 - 0xE0) * 4096 + (b1 - 0x80) * 64 + (b2 - 0x80) < 0x10000 := by omega
  simp only [a1, a2, a3, if_true, if_false, List.cons.injEq, and_true]
  omega

theorem autf_w4 (b0 b1 b2 b3 : Nat) (h0 : 0xF0 ≤ b0 ∧ b0 ≤ 0xF4) (h1 : utf8Second4 b0 b1 = true)
    (h2 : utf8Cont b2 = true) (h3 : utf8Cont b3 = true) :
    utf8EncNat (Char.ofNat ((b0 - 0xF0) * 262144 + (b1 - 0x80) * 4096 + (b2 - 0x80) * 64 + (b3 - 0x80))).toNat
      = [b0, b1, b2, b3] := by
  simp only [utf8Cont, Bool.and_eq_true, decide_eq_true_eq] at h2 h3
  have h1' : 0x80 ≤ b1 ∧ b1 ≤ 0xBF ∧ (b0 = 0xF0 → 0x90 ≤ b1) ∧ (b0 = 0xF4 → b1 ≤ 0x8F) := by
    unfold utf8Second4 utf8Cont at h1
    repeat' split at h1
    all_goals simp only [Bool.and_eq_true, decide_eq_true_eq] at h1
    all_goals omega
  rw [autf_toNat_ofNat _ (by omega)]
  unfold utf8EncNat
  have a1 : ¬ ((b0 - 0xF0) * 262144 + (b1 - 0x80) * 4096 + (b2 - 0x80) * 64 + (b3 - 0x80) < 0x80) := by omega
  have a2 : ¬ ((b0 - 0xF0) * 262144 + (b1 - 0x80) * 4096 + (b2 - 0x80) * 64 + (b3 - 0x80) < 0x800) := by omega
  have a3 : ¬ ((b0 - 0xF0) * 262144 + (b1 - 0x80) * 4096 + (b2 - 0x80) * 64 + (b3 - 0x80) < 0x10000) := by omega
  simp only [a1, a2, a3, if_false, List.cons.injEq, and_true]
  omega

/-- whatever the decoder accepts is the encoding of what it returns -/
theorem autf_decNat_sound (l : List Nat) (s : List Char) (h : utf8DecNat l = some s) :
    l = s.flatMap fun c => utf8EncNat c.toNat := by
  fun_induction utf8DecNat l generalizing s
  case case1 => cases h; rfl
  case case2 b0 r hb ih =>
    obtain ⟨s', hs', rfl⟩ := Option.map_eq_some_iff.mp h
    rw [List.flatMap_cons, autf_w1 b0 hb, ← ih s' hs']; rfl
  case case3 b0 _ h0 b1 r h1 ih =>
    obtain ⟨s', hs', rfl⟩ := Option.map_eq_some_iff.mp h
    rw [List.flatMap_cons, autf_w2 b0 b1 h0 h1, ← ih s' hs']; rfl
  case case6 b0 _ _ h0 b1 b2 r h1 ih =>
    obtain ⟨s', hs', rfl⟩ := Option.map_eq_some_iff.mp h
    simp only [Bool.and_eq_true] at h1
    rw [List.flatMap_cons, autf_w3 b0 b1 b2 h0 h1.1 h1.2, ← ih s' hs']; rfl
  case case9 b0 _ _ _ h0 b1 b2 b3 r h1 ih =>
    obtain ⟨s', hs', rfl⟩ := Option.map_eq_some_iff.mp h
    simp only [Bool.and_eq_true] at h1
    rw [List.flatMap_cons, autf_w4 b0 b1 b2 b3 h0 h1.1.1 h1.1.2 h1.2, ← ih s' hs']; rfl
  all_goals cases h

theorem autf_ofNat_toNat_map (l : List UInt8) : (l.map UInt8.toNat).map UInt8.ofNat = l := by
  induction l with
  | nil => rfl
  | cons b l ih => simp only [List.map_cons, ih, UInt8.ofNat_toNat]

/-- `from_utf8(bs) = Ok(s)` only if `bs` is `s.as_bytes()` -/
theorem autf_decode_sound (bs : List UInt8) (s : List Char) (h : utf8Decode bs = some s) : bs = utf8Encode s := by
  unfold utf8Decode at h
  unfold utf8Encode
  rw [← autf_decNat_sound _ s h, autf_ofNat_toNat_map]

theorem autf_decode_iff (bs : List UInt8) (s : List Char) : utf8Decode bs = some s ↔ bs = utf8Encode s :=
  ⟨autf_decode_sound bs s, fun h => h ▸ autf_decode_encode s⟩

/-! ### byte offsets: the model's spans (`utf8Len`) are offsets into `utf8Encode` of the input -/

theorem autf_encode_append (a b : List Char) : utf8Encode (a ++ b) = utf8Encode a ++ utf8Encode b := by
  simp [utf8Encode]

theorem autf_length_encode (s : List Char) : (utf8Encode s).length = utf8Len s := by
  induction s with
  | nil => rfl
  | cons c s ih =>
    have h1 : utf8Encode (c :: s) = utf8Encode [c] ++ utf8Encode s := autf_encode_append [c] s
    have h2 : utf8Encode [c] = String.utf8EncodeChar c := by
      rw [autf_encChar_eq]; simp [utf8Encode]
    rw [h1, List.length_append, ih, h2, String.length_utf8EncodeChar]; rfl

/-- the bytes between the two ends of the span of an occurrence of `text` are the encoding of `text` -/
theorem autf_spanOf_bytes (input : List Char) (sp : Span) (text : List Char) (h : SpanOf input sp text) :
    ((utf8Encode input).drop sp.start).take (sp.stop - sp.start) = utf8Encode text := by
  obtain ⟨pre, post, rfl, h1, h2⟩ := h
  rw [autf_encode_append, autf_encode_append, h1, h2, ← autf_length_encode pre, ← autf_length_encode text,
    List.append_assoc, List.drop_left, Nat.add_sub_cancel_left, List.take_left]

end Cook.Aisle
