import CookModel.Side.AisleUtf8
/- C11 — `from_utf8 (as_bytes s) = Ok s` for the hand-written encoder / decoder (`autf_`). -/
namespace Cook.Aisle

theorem autf_char_range (c : Char) : c.toNat < 0xD800 ∨ (0xDFFF < c.toNat ∧ c.toNat < 0x110000) := by
  exact c.valid

/-- every byte of an encoded scalar value fits in a byte -/
theorem autf_enc_lt (n : Nat) (hn : n < 0x110000) : ∀ b ∈ utf8EncNat n, b < 256 := by
  intro b hb
  unfold utf8EncNat at hb
  repeat' split at hb
  all_goals simp only [List.mem_cons, List.not_mem_nil, or_false] at hb
  all_goals omega

/-- one character decodes back, whatever follows -/
theorem autf_dec_enc_cons (c : Char) (rest : List Nat) :
    utf8DecNat (utf8EncNat c.toNat ++ rest) = (utf8DecNat rest).map (c :: ·) := by
  have hr := autf_char_range c
  generalize hn : c.toNat = n at hr
  have hc : c = Char.ofNat n := by rw [← hn]; exact (Char.ofNat_toNat c).symm
  unfold utf8EncNat
  by_cases h1 : n < 0x80
  · simp only [h1, if_true, List.cons_append, List.nil_append]
    rw [utf8DecNat.eq_def]; simp only [h1, if_true, hc]
  by_cases h2 : n < 0x800
  · simp only [h1, h2, if_true, if_false, List.cons_append, List.nil_append]
    rw [utf8DecNat.eq_def]
    have a1 : ¬ (0xC0 + n / 64 < 0x80) := by omega
    have a2 : 0xC2 ≤ 0xC0 + n / 64 ∧ 0xC0 + n / 64 ≤ 0xDF := by omega
    have a3 : utf8Cont (0x80 + n % 64) = true := by simp [utf8Cont]; omega
    have a4 : (0xC0 + n / 64 - 0xC0) * 64 + (0x80 + n % 64 - 0x80) = n := by omega
    simp only [a1, a2, a3, a4, if_true, if_false, and_self, hc]
  by_cases h3 : n < 0x10000
  · simp only [h1, h2, h3, if_true, if_false, List.cons_append, List.nil_append]
    rw [utf8DecNat.eq_def]
    have a1 : ¬ (0xE0 + n / 4096 < 0x80) := by omega
    have a2 : ¬ (0xC2 ≤ 0xE0 + n / 4096 ∧ 0xE0 + n / 4096 ≤ 0xDF) := by omega
    have a2' : 0xE0 ≤ 0xE0 + n / 4096 ∧ 0xE0 + n / 4096 ≤ 0xEF := by omega
    have a3 : utf8Second3 (0xE0 + n / 4096) (0x80 + n / 64 % 64) = true := by
      unfold utf8Second3 utf8Cont
      repeat' split
      all_goals simp only [Bool.and_eq_true, decide_eq_true_eq]
      all_goals omega
    have a3' : utf8Cont (0x80 + n % 64) = true := by simp [utf8Cont]; omega
    have a4 : (0xE0 + n / 4096 - 0xE0) * 4096 + (0x80 + n / 64 % 64 - 0x80) * 64 + (0x80 + n % 64 - 0x80) = n := by
      omega
    simp only [a1, a2, a2', a3, a3', a4, if_true, if_false, and_self, Bool.and_self, hc]
  · simp only [h1, h2, h3, if_false, List.cons_append, List.nil_append]
    rw [utf8DecNat.eq_def]
    have a1 : ¬ (0xF0 + n / 262144 < 0x80) := by omega
    have a2 : ¬ (0xC2 ≤ 0xF0 + n / 262144 ∧ 0xF0 + n / 262144 ≤ 0xDF) := by omega
    have a2' : ¬ (0xE0 ≤ 0xF0 + n / 262144 ∧ 0xF0 + n / 262144 ≤ 0xEF) := by omega
    have a2'' : 0xF0 ≤ 0xF0 + n / 262144 ∧ 0xF0 + n / 262144 ≤ 0xF4 := by omega
    have a3 : utf8Second4 (0xF0 + n / 262144) (0x80 + n / 4096 % 64) = true := by
      unfold utf8Second4 utf8Cont
      repeat' split
      all_goals simp only [Bool.and_eq_true, decide_eq_true_eq]
      all_goals omega
    have a3' : utf8Cont (0x80 + n / 64 % 64) = true := by simp [utf8Cont]; omega
    have a3'' : utf8Cont (0x80 + n % 64) = true := by simp [utf8Cont]; omega
    have a4 : (0xF0 + n / 262144 - 0xF0) * 262144 + (0x80 + n / 4096 % 64 - 0x80) * 4096
        + (0x80 + n / 64 % 64 - 0x80) * 64 + (0x80 + n % 64 - 0x80) = n := by omega
    simp only [a1, a2, a2', a2'', a3, a3', a3'', a4, if_true, if_false, and_self, Bool.and_self, hc]

theorem autf_decNat_encNat (s : List Char) : utf8DecNat (s.flatMap fun c => utf8EncNat c.toNat) = some s := by
  induction s with
  | nil => simp [utf8DecNat]
  | cons c s ih => rw [List.flatMap_cons, autf_dec_enc_cons, ih]; rfl

theorem autf_toNat_ofNat_map (l : List Nat) (h : ∀ b ∈ l, b < 256) : (l.map UInt8.ofNat).map UInt8.toNat = l := by
  induction l with
  | nil => rfl
  | cons b l ih =>
    have hb : b < 256 := h b (by simp)
    simp only [List.map_cons, List.map_map] at ih ⊢
    rw [ih (fun x hx => h x (by simp [hx]))]
    simp [UInt8.toNat_ofNat', Nat.mod_eq_of_lt hb]

/-- `from_utf8 (s.as_bytes()) = Ok(s)` -/
theorem autf_decode_encode (s : List Char) : utf8Decode (utf8Encode s) = some s := by
  unfold utf8Decode utf8Encode
  rw [autf_toNat_ofNat_map, autf_decNat_encNat]
  intro b hb
  obtain ⟨c, -, hc⟩ := List.mem_flatMap.mp hb
  refine autf_enc_lt c.toNat ?_ b hc
  have := autf_char_range c; omega

/-- the hand-written encoder is the core one (`String.utf8EncodeChar`, used by `utf8` of Side/AisleSink.lean) -/
theorem autf_encChar_eq (c : Char) : String.utf8EncodeChar c = (utf8EncNat c.toNat).map UInt8.ofNat := by
  have hr : c.val.toNat < 0xD800 ∨ (0xDFFF < c.val.toNat ∧ c.val.toNat < 0x110000) := autf_char_range c
  unfold String.utf8EncodeChar utf8EncNat Char.toNat
  simp only
  generalize c.val.toNat = n at hr ⊢
  by_cases h1 : n < 0x80
  · have : n ≤ 0x7f := by omega
    simp only [h1, this, if_true, List.map_cons, List.map_nil]
  by_cases h2 : n < 0x800
  · have b1 : ¬ n ≤ 0x7f := by omega
    have b2 : n ≤ 0x7ff := by omega
    have e1 : n / 64 % 0x20 + 0xc0 = 0xC0 + n / 64 := by omega
    have e2 : n % 0x40 + 0x80 = 0x80 + n % 64 := by omega
    simp only [h1, h2, b1, b2, e1, e2, if_true, if_false, List.map_cons, List.map_nil]
  by_cases h3 : n < 0x10000
  · have b1 : ¬ n ≤ 0x7f := by omega
    have b2 : ¬ n ≤ 0x7ff := by omega
    have b3 : n ≤ 0xffff := by omega
    have e1 : n / 4096 % 0x10 + 0xe0 = 0xE0 + n / 4096 := by omega
    have e2 : n / 64 % 0x40 + 0x80 = 0x80 + n / 64 % 64 := by omega
    have e3 : n % 0x40 + 0x80 = 0x80 + n % 64 := by omega
    simp only [h1, h2, h3, b1, b2, b3, e1, e2, e3, if_true, if_false, List.map_cons, List.map_nil]
  · have b1 : ¬ n ≤ 0x7f := by omega
    have b2 : ¬ n ≤ 0x7ff := by omega
    have b3 : ¬ n ≤ 0xffff := by omega
    have e0 : n / 262144 % 0x08 + 0xf0 = 0xF0 + n / 262144 := by omega
    have e1 : n / 4096 % 0x40 + 0x80 = 0x80 + n / 4096 % 64 := by omega
    have e2 : n / 64 % 0x40 + 0x80 = 0x80 + n / 64 % 64 := by omega
    have e3 : n % 0x40 + 0x80 = 0x80 + n % 64 := by omega
    simp only [h1, h2, h3, b1, b2, b3, e0, e1, e2, e3, if_false, List.map_cons, List.map_nil]

/-- `utf8` (the bytes the sink theorems speak about) is `utf8Encode` -/
theorem autf_utf8_eq (s : List Char) : utf8 s = utf8Encode s := by
  unfold utf8 utf8Encode
  induction s with
  | nil => rfl
  | cons c s ih => simp only [List.flatMap_cons, List.map_append, ih, autf_encChar_eq]

end Cook.Aisle
