import CookModel.Lemmas.Cover
import CookModel.Lemmas.SpansEv
/-
  C05 at event level, text-only steps: every token of the block that is not a comment lies inside
  the span of a `Text` event pushed by `parse_step` (Hoare layer of `ParserWp`/`SpansEv` with the
  queue predicate "the tokens before the cursor are covered").
-/
set_option linter.unusedSectionVars false
set_option linter.unusedSimpArgs false
set_option linter.unusedVariables false
namespace Cook

variable {α : Type} [Arith α]

/-- the token (its body) lies inside the source span of some queued content event -/
def CoveredBy (evs : Array (Ev α)) (t : Tok) : Prop :=
  ∃ ev ∈ evs.toList, ∃ sp, ev.srcSpan = some sp ∧ sp.start ≤ tokBodyStart t ∧ t.stop ≤ sp.stop

/-- all tokens with a body before position `n` of the block are covered -/
def CovUpTo (ts : List Tok) (n : Nat) (evs : Array (Ev α)) : Prop :=
  ∀ i, i < n → ∀ t, ts[i]? = some t → HasBody t → CoveredBy evs t

theorem CoveredBy.push {evs : Array (Ev α)} {t : Tok} (h : CoveredBy evs t) (ev : Ev α) : CoveredBy (evs.push ev) t := by
  obtain ⟨e, he, sp, h1, h2⟩ := h
  exact ⟨e, by simp [he], sp, h1, h2⟩

theorem CovUpTo.push {ts : List Tok} {n : Nat} {evs : Array (Ev α)} (h : CovUpTo ts n evs) (ev : Ev α) :
    CovUpTo ts n (evs.push ev) := fun i hi t ht hb => (h i hi t ht hb).push ev

/-- no component marker (`@ # ~`) among the tokens -/
def NoMarkerTok (ts : List Tok) : Prop := ∀ t ∈ ts, isMarker t.kind = false

theorem cover_mem_slice {ts : List Tok} {c j i : Nat} {t : Tok} (h1 : c ≤ i) (h2 : i < j) (ht : ts[i]? = some t) :
    t ∈ slice ts c j := by
  unfold slice
  have hi : i < ts.length := getElem?_lt ht
  have : ((ts.take j).drop c)[i - c]? = some t := by
    rw [List.getElem?_drop, List.getElem?_take]
    have e : c + (i - c) = i := by omega
    rw [e, if_pos h2]; exact ht
  exact List.mem_of_getElem? this

section
variable {ts : List Tok} {e : Ext} {s : BP α}

/-- one iteration of `parse_step` on a block without markers: the tokens it consumes are covered -/
theorem stepOne_cover (hw : WF ts) (hnm : NoMarkerTok ts) (h : GE (CovUpTo ts s.cur) ts e s)
    (hlt : s.cur < ts.length) :
    Sat (stepOne (α := α)) s (fun _ s' => GE (CovUpTo ts s'.cur) ts e s' ∧ s.cur < s'.cur) := by
  unfold stepOne
  apply Sat.bind
  apply Sat.mono (Q := fun r s' => r = none ∧ s' = s)
  · refine Sat.bind (peekK_sat h.g ?_)
    have hget : ts[s.cur]? = some ts[s.cur] := List.getElem?_eq_getElem hlt
    have hk := hnm ts[s.cur] (List.getElem_mem hlt)
    rw [hget]
    simp only [Option.map_some]
    split
    · rename_i heq; simp only [Option.some.injEq] at heq; rw [heq] at hk; cases hk
    · rename_i heq; simp only [Option.some.injEq] at heq; rw [heq] at hk; cases hk
    · rename_i heq; simp only [Option.some.injEq] at heq; rw [heq] at hk; cases hk
    · exact Sat.pure ⟨rfl, rfl⟩
  rintro r s1 ⟨rfl, rfl⟩
  dsimp only
  refine Sat.bind (currentOffset_sat h.g ?_)
  refine Sat.bind (Sat.getCur ?_)
  have hget : ts[s1.cur]? = some ts[s1.cur] := List.getElem?_eq_getElem hlt
  refine Sat.bind (Sat.mono (bumpAny_ge h hget) ?_)
  rintro _ s2 ⟨-, g2, c2⟩
  refine Sat.bind (Sat.mono (consumeWhile_ge _ g2) ?_)
  rintro _ s3 ⟨g3, c3, -, -, -⟩
  refine Sat.bind (Sat.get ?_)
  try dsimp only
  have hle : s1.cur ≤ s3.cur := by omega
  have hr : RunAt (offAt ts s1.cur) ((s3.toks.take s3.cur).drop s1.cur) := by
    rw [g3.g.toks]; exact slice_runAt hw.run hle
  refine Sat.bind (bpText_sat hr ?_)
  have hcov := cov_buildText_span (offAt ts s1.cur) ((s3.toks.take s3.cur).drop s1.cur) hr.1 hr.2
  have hmem : ∀ i, s1.cur ≤ i → i < s3.cur → ∀ t, ts[i]? = some t → t ∈ (s3.toks.take s3.cur).drop s1.cur := by
    intro i h1 h2 t ht
    rw [g3.g.toks]; exact cover_mem_slice h1 h2 ht
  split
  · refine Sat.pushEv ⟨g3.push ?_, by show s1.cur < s3.cur; omega⟩
    intro i hi t ht hb
    rcases Nat.lt_or_ge i s1.cur with h' | h'
    · exact (g3.evs i h' t ht hb).push _
    · obtain ⟨k1, k2, -⟩ := hcov t (hmem i h' hi t ht) hb
      exact ⟨.text (buildText (offAt ts s1.cur) ((s3.toks.take s3.cur).drop s1.cur)), by simp, _, rfl, k1, k2⟩
  · rename_i hemp
    refine Sat.pure ⟨g3.mono (fun hi => ?_), by omega⟩
    intro i hi' t ht hb
    rcases Nat.lt_or_ge i s1.cur with h' | h'
    · exact hi i h' t ht hb
    · exfalso
      obtain ⟨-, -, k3⟩ := hcov t (hmem i h' hi' t ht) hb
      apply hemp
      cases hf : (buildText (offAt ts s1.cur) ((s3.toks.take s3.cur).drop s1.cur)).frags with
      | nil => exact absurd hf k3
      | cons _ _ => simp

theorem stepLoop_cover (hw : WF ts) (hnm : NoMarkerTok ts) (fuel : Nat) (h : GE (CovUpTo ts s.cur) ts e s)
    (hf : ts.length - s.cur ≤ fuel) :
    Sat (stepLoop (α := α) fuel) s (fun _ s' => GE (CovUpTo ts ts.length) ts e s' ∧ s'.cur = ts.length) := by
  have hle := h.le
  induction fuel generalizing s with
  | zero =>
    unfold stepLoop
    refine Sat.bind (restToks_sat h.g ?_)
    have : ts.drop s.cur = [] := List.drop_eq_nil_of_le (by omega)
    rw [this]
    have e1 : s.cur = ts.length := by omega
    exact Sat.pure ⟨by rw [← e1]; exact h, e1⟩
  | succ fuel ih =>
    unfold stepLoop
    refine Sat.bind (restToks_sat h.g ?_)
    split
    · rename_i hemp
      have := drop_isEmpty_true hemp
      have e1 : s.cur = ts.length := by omega
      exact Sat.pure ⟨by rw [← e1]; exact h, e1⟩
    · rename_i hemp
      have hlt := drop_isEmpty_false (by simpa using hemp)
      refine Sat.bind (Sat.mono (stepOne_cover hw hnm h hlt) ?_)
      rintro _ s1 ⟨g1, c1⟩
      exact ih g1 (by omega) g1.le

theorem parseStep_cover (hw : WF ts) (hnm : NoMarkerTok ts) (h : GE (CovUpTo ts s.cur) ts e s) :
    Sat (parseStep (α := α)) s (fun _ s' => GE (CovUpTo ts ts.length) ts e s' ∧ s'.cur = ts.length) := by
  unfold parseStep
  refine Sat.bind (Sat.pushEv ?_)
  have g1 : GE (CovUpTo ts s.cur) ts e { s with evs := s.evs.push (.start .step) } := h.push (h.evs.push _)
  refine Sat.bind (restToks_sat g1.g ?_)
  refine Sat.bind (Sat.mono (stepLoop_cover hw hnm _ g1 (by simp)) ?_)
  rintro _ s2 ⟨g2, c2⟩
  exact Sat.pushEv ⟨g2.push (g2.evs.push _), c2⟩

end

/-- **text-only step blocks**: a block of adjacent tokens without component markers whose first
    token is none of `>>`, `=`, `>` and which is not blank is parsed as a step whose `Text` events
    cover every token that is not a comment -/
theorem runBlock_step_cover (cs : CharSpec) (ext : Ext) (oldStyle : Bool) (b : List Tok) (evs : Array (Ev α))
    (hw : WF b) (hnm : NoMarkerTok b)
    (hhead : ∀ t, b.head? = some t → t.kind ≠ .metaStart ∧ t.kind ≠ .eq ∧ t.kind ≠ .textStep)
    (hnb : b.all (fun t => isEmptyTok t.kind) = false) :
    ∀ t ∈ b, HasBody t → CoveredBy (runBlock cs ext oldStyle b evs none).1 t := by
  have g0 : GE (CovUpTo b 0) b ext (⟨b, 0, ext, cs, evs, none⟩ : BP α) :=
    ⟨⟨rfl, rfl, rfl, Nat.zero_le _⟩, fun i hi => absurd hi (Nat.not_lt_zero _)⟩
  have hne : b.isEmpty = false := by
    have := hw.ne
    cases b <;> simp_all
  obtain ⟨t0, rest, rfl⟩ : ∃ t0 rest, b = t0 :: rest := by
    cases b with
    | nil => simp at hne
    | cons t0 rest => exact ⟨t0, rest, rfl⟩
  obtain ⟨k1, k2, k3⟩ := hhead t0 rfl
  have key : Sat (do
      if (t0 :: rest).isEmpty then panicWith "BlockParser::new: empty tokens"
      parseBlock (α := α) oldStyle
      let s ← get
      if s.cur ≠ s.toks.length then panicWith "Block tokens not parsed") ⟨t0 :: rest, 0, ext, cs, evs, none⟩
      (fun _ s' => CovUpTo (t0 :: rest) (t0 :: rest).length s'.evs) := by
    simp only [hne, Bool.false_eq_true, if_false]
    refine Sat.bind ?_
    apply Sat.mono (Q := fun _ s' => GE (CovUpTo (t0 :: rest) (t0 :: rest).length) (t0 :: rest) ext s' ∧
      s'.cur = (t0 :: rest).length)
    · unfold parseBlock
      apply Sat.bind
      apply Sat.mono (Q := fun r s' => r = none ∧ s' = (⟨t0 :: rest, 0, ext, cs, evs, none⟩ : BP α))
      · refine Sat.bind (peekK_sat g0.g ?_)
        simp only [List.getElem?_cons_zero, Option.map_some]
        split
        · rename_i heq; simp only [Option.some.injEq] at heq; exact absurd heq k1
        · rename_i heq; simp only [Option.some.injEq] at heq; exact absurd heq k2
        · exact Sat.pure ⟨rfl, rfl⟩
      rintro r s1 ⟨rfl, rfl⟩
      dsimp only
      unfold parseMultilineBlock
      refine Sat.bind (allToks_sat g0.g ?_)
      rw [hnb]
      simp only [Bool.false_eq_true, if_false]
      refine Sat.bind (peekK_sat g0.g ?_)
      simp only [List.getElem?_cons_zero, Option.map_some]
      split
      · rename_i heq
        have : t0.kind = .textStep := by simpa using heq
        exact absurd this k3
      · exact parseStep_cover hw hnm g0
    · rintro _ s1 ⟨g1, c1⟩
      refine Sat.bind (Sat.get ?_)
      have : s1.cur = s1.toks.length := by rw [g1.g.toks]; exact c1
      simp only [this, ne_eq, not_true_eq_false, if_false]
      exact Sat.pure g1.evs
  intro t ht hb
  obtain ⟨i, hi, hget⟩ := List.mem_iff_getElem.1 ht
  exact key i hi t (by rw [List.getElem?_eq_getElem hi, hget]) hb

end Cook
