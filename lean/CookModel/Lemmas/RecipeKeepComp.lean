import CookModel.Lemmas.RecipeKeep
/-
  C05 through the analysis, wave 6: the components.  An ingredient / cookware event analysed inside a step
  block (define mode not `text`) pushes one entry on its table; the entry carries `text_trimmed` of the
  name (for an ingredient whose name looks like a relative path `parse_reference` splits it: the last path
  component is the name, the ones before it are `reference.components`; see `rkc_parseReference_path`), of
  the alias and of the note, the unit text and the value; every later event changes at most the `relation`
  of the entry (`set_referenced_from`).  Specification-side vocabulary only (`IngrKeeps`, `CwKeeps`).
-/
set_option linter.unusedSectionVars false
set_option linter.unusedSimpArgs false
set_option linter.unusedVariables false
namespace Cook
variable {α : Type} [Arith α]

/-- the table entry `x` carries what the ingredient event `i` carries: the name (`text_trimmed`; when it looks
    like a relative path, `parse_reference` keeps its last component as the name and the whole split as
    `reference`), the alias, the note, the unit text and the value -/
structure IngrKeeps (env : Env) (i : PIngredient α) (x : Ingredient (ScalableValue α)) : Prop where
  name : x.name = (match parseReference (i.name.trimmed env.cs) with
    | some r => r.name
    | none => i.name.trimmed env.cs)
  reference : x.reference = parseReference (i.name.trimmed env.cs)
  alias : x.alias = i.alias.map (·.trimmed env.cs)
  note : x.note = i.note.map (·.trimmed env.cs)
  quantity : x.quantity.map (fun q => (q.value.val, q.unit)) =
    i.quantity.map (fun q => (q.val.value.value.val, q.val.unit.map (·.trimmed env.cs)))

/-- the table entry `x` carries what the cookware event `c` carries -/
structure CwKeeps (env : Env) (c : PCookware α) (x : Cookware (ScalableValue α)) : Prop where
  name : x.name = c.name.trimmed env.cs
  alias : x.alias = c.alias.map (·.trimmed env.cs)
  note : x.note = c.note.map (·.trimmed env.cs)
  quantity : x.quantity.map (·.val) = c.quantity.map (·.val.value.val)

theorem IngrKeeps.rel {env : Env} {i : PIngredient α} {x : Ingredient (ScalableValue α)} (h : IngrKeeps env i x)
    (rel : IngredientRelation) : IngrKeeps env i { x with relation := rel } :=
  ⟨h.name, h.reference, h.alias, h.note, h.quantity⟩

theorem IngrKeeps.mods {env : Env} {i : PIngredient α} {x : Ingredient (ScalableValue α)} (h : IngrKeeps env i x)
    (rel : IngredientRelation) (m : Modifiers) : IngrKeeps env i { x with relation := rel, modifiers := m } :=
  ⟨h.name, h.reference, h.alias, h.note, h.quantity⟩

theorem CwKeeps.rel {env : Env} {c : PCookware α} {x : Cookware (ScalableValue α)} (h : CwKeeps env c x)
    (rel : ComponentRelation) (m : Modifiers) : CwKeeps env c { x with relation := rel, modifiers := m } :=
  ⟨h.name, h.alias, h.note, h.quantity⟩

/-! ### values -/

theorem rkc_valueOf_val (env : Env) (v : PQValue α) (b : Bool) (s : Col α) :
    (valueOf env v b s).1.val = v.value.val := by
  unfold valueOf
  simp +instances only [A_bind, A_get, A_ite, A_modify, A_pure, awarn]
  repeat' split
  all_goals rfl

theorem rkc_optQuantityOf (env : Env) (q : Option (Loc (PQuantity α))) (b : Bool) (s : Col α) :
    (optQuantityOf env q b s).1.map (fun q => (q.value.val, q.unit)) =
      q.map (fun q => (q.val.value.value.val, q.val.unit.map (·.trimmed env.cs))) := by
  cases q with
  | none => rfl
  | some q =>
    simp only [optQuantityOf, quantityOf, A_bind, A_pure, Option.map_some, rkc_valueOf_val]

theorem rkc_optValueOf (env : Env) (q : Option (Loc (PQValue α))) (s : Col α) :
    (optValueOf env q s).1.map (·.val) = q.map (·.val.value.val) := by
  cases q with
  | none => rfl
  | some q =>
    simp only [optValueOf, A_bind, A_pure, Option.map_some, rkc_valueOf_val]

/-! ### what the new entry is -/

theorem rkc_ingrRegular_data (env : Env) (input : Str) (li : Loc (PIngredient α))
    (igr0 : Ingredient (ScalableValue α)) (s : Col α) :
    ∃ rel m, (ingrRegular env input li igr0 s).1 = { igr0 with relation := rel, modifiers := m } := by
  unfold ingrRegular
  simp +instances only [A_bind, A_get]
  generalize resolveReference (α := α) env "ingredient"
    (Modifiers.HIDDEN ||| Modifiers.OPT ||| Modifiers.RECIPE) (s.ingredients.toList.map (fun x => (x.name, x.modifiers)))
    igr0.name igr0.modifiers li.span li.val.modifiers.span s = rr
  cases ho : rr.1.2 with
  | none => exact ⟨igr0.relation, rr.1.1, rfl⟩
  | some o =>
    simp +instances only [A_bind, A_get, A_pure]
    cases h1 : rr.2.ingredients[o.refTo]? <;> cases h2 : rr.2.locIngr[o.refTo]? <;>
      simp +instances only [A_bind, A_pure] <;> exact ⟨_, _, rfl⟩

theorem rkc_cwResolve_data (env : Env) (input : Str) (lc : Loc (PCookware α))
    (cw0 : Cookware (ScalableValue α)) (s : Col α) :
    ∃ rel m, (cwResolve env input lc cw0 s).1 = { cw0 with relation := rel, modifiers := m } := by
  unfold cwResolve
  simp +instances only [A_bind, A_get]
  generalize resolveReference (α := α) env "cookware item"
    (Modifiers.HIDDEN ||| Modifiers.OPT) (s.cookware.toList.map (fun x => (x.name, x.modifiers)))
    cw0.name cw0.modifiers lc.span lc.val.modifiers.span s = rr
  cases ho : rr.1.2 with
  | none => exact ⟨cw0.relation, rr.1.1, rfl⟩
  | some o =>
    simp +instances only [A_bind, A_get, A_pure]
    cases h1 : rr.2.cookware[o.refTo]? <;> cases h2 : rr.2.locCw[o.refTo]? <;>
      simp +instances only [A_bind, A_pure] <;> exact ⟨_, _, rfl⟩

/-- the entry `ingrBuild` pushes is `igr0` up to its relation and modifiers -/
theorem rkc_ingrBuild_pushed (env : Env) (input : Str) (li : Loc (PIngredient α))
    (igr0 : Ingredient (ScalableValue α)) (s : Col α) :
    ∃ (ings : Array (Ingredient (ScalableValue α))) (rel : IngredientRelation) (m : Modifiers),
      (ingrBuild env input li igr0 s).2.ingredients =
        ings.push { igr0 with relation := rel, modifiers := m } := by
  have hpush : (ingrBuild env input li igr0 s).2.ingredients =
      ((match li.val.inter with
        | some d => ingrInter li.val igr0 d
        | none => ingrRegular env input li igr0) s).2.ingredients.push
      ((match li.val.inter with
        | some d => ingrInter li.val igr0 d
        | none => ingrRegular env input li igr0) s).1 := by
    unfold ingrBuild
    rfl
  rw [hpush]
  cases hd : li.val.inter with
  | some d =>
    simp only []
    rcases ingrInter_val li.val igr0 d s with hv | ⟨rel, _, hv⟩
    · exact ⟨_, igr0.relation, igr0.modifiers, by rw [hv]⟩
    · exact ⟨_, rel, igr0.modifiers, by rw [hv]⟩
  | none =>
    simp only []
    obtain ⟨rel, m, hv⟩ := rkc_ingrRegular_data env input li igr0 s
    exact ⟨_, rel, m, by rw [hv]⟩

theorem rkc_cwBuild_pushed (env : Env) (input : Str) (lc : Loc (PCookware α))
    (cw0 : Cookware (ScalableValue α)) (s : Col α) :
    ∃ (cws : Array (Cookware (ScalableValue α))) (rel : ComponentRelation) (m : Modifiers),
      (cwBuild env input lc cw0 s).2.cookware =
        cws.push { cw0 with relation := rel, modifiers := m } := by
  have hpush : (cwBuild env input lc cw0 s).2.cookware =
      (cwResolve env input lc cw0 s).2.cookware.push (cwResolve env input lc cw0 s).1 := by
    unfold cwBuild
    rfl
  rw [hpush]
  obtain ⟨rel, m, hv⟩ := rkc_cwResolve_data env input lc cw0 s
  exact ⟨_, rel, m, by rw [hv]⟩

/-- the entry `ingredientA` pushes carries what the event carries -/
theorem rkc_ingredientA_pushed (env : Env) (input : Str) (li : Loc (PIngredient α)) (s : Col α) :
    ∃ (ings : Array (Ingredient (ScalableValue α))) (x : Ingredient (ScalableValue α)),
      (ingredientA env input li s).2.ingredients = ings.push x ∧ IngrKeeps env li.val x := by
  unfold ingredientA
  simp +instances only [A_bind, A_get]
  obtain ⟨ings, rel, m, h⟩ := rkc_ingrBuild_pushed env input li
    ⟨(match parseReference (li.val.name.trimmed env.cs) with
        | some r => r.name
        | none => li.val.name.trimmed env.cs),
      li.val.alias.map (·.trimmed env.cs), (optQuantityOf env li.val.quantity true s).1,
      li.val.note.map (·.trimmed env.cs), parseReference (li.val.name.trimmed env.cs),
      ⟨.definition [] ((optQuantityOf env li.val.quantity true s).2.defineMode != .components), none⟩,
      li.val.modifiers.val⟩ (optQuantityOf env li.val.quantity true s).2
  refine ⟨ings, _, h, ?_⟩
  exact ⟨rfl, rfl, rfl, rfl, rkc_optQuantityOf env li.val.quantity true s⟩

theorem rkc_cookwareA_pushed (env : Env) (input : Str) (lc : Loc (PCookware α)) (s : Col α) :
    ∃ (cws : Array (Cookware (ScalableValue α))) (x : Cookware (ScalableValue α)),
      (cookwareA env input lc s).2.cookware = cws.push x ∧ CwKeeps env lc.val x := by
  unfold cookwareA
  simp +instances only [A_bind, A_get]
  obtain ⟨cws, rel, m, h⟩ := rkc_cwBuild_pushed env input lc
    ⟨lc.val.name.trimmed env.cs, lc.val.alias.map (·.trimmed env.cs), (optValueOf env lc.val.quantity s).1,
      lc.val.note.map (·.trimmed env.cs),
      .definition [] ((optValueOf env lc.val.quantity s).2.defineMode != .components),
      lc.val.modifiers.val⟩ (optValueOf env lc.val.quantity s).2
  refine ⟨cws, _, h, ?_⟩
  exact ⟨rfl, rfl, rfl, rkc_optValueOf env lc.val.quantity s⟩

/-! ### later events change at most the relation -/

theorem rkc_ingr_eta (x : Ingredient (ScalableValue α)) : { x with relation := x.relation } = x := by
  cases x; rfl

theorem rkc_cw_eta (x : Cookware (ScalableValue α)) : { x with relation := x.relation } = x := by
  cases x; rfl

theorem rkc_ingrStep_get {env : Env} {s : Col α} {ings : Array (Ingredient (ScalableValue α))}
    {igr : Ingredient (ScalableValue α)} (hstep : IngrStep env s ings igr) (j : Nat)
    (x : Ingredient (ScalableValue α)) (hx : s.ingredients[j]? = some x) :
    ∃ rel, ings[j]? = some { x with relation := rel } := by
  rcases hstep with ⟨he, _⟩ | ⟨he, _⟩ | ⟨t, defn, rf, b, h1, h2, h3, h4, h5, h6, he⟩
  · exact ⟨x.relation, by rw [he, hx, rkc_ingr_eta x]⟩
  · exact ⟨x.relation, by rw [he, hx, rkc_ingr_eta x]⟩
  · rw [he, Array.getElem?_setIfInBounds]
    have hlt : j < s.ingredients.size := lt_size_of_getElem? hx
    split
    · rename_i htj
      subst htj
      rw [h1] at hx
      cases hx
      exact ⟨_, by rw [if_pos hlt]⟩
    · exact ⟨x.relation, by rw [hx, rkc_ingr_eta x]⟩

theorem rkc_cwStep_get {env : Env} {s : Col α} {cws : Array (Cookware (ScalableValue α))}
    {cw : Cookware (ScalableValue α)} (hstep : CwStep env s cws cw) (j : Nat)
    (x : Cookware (ScalableValue α)) (hx : s.cookware[j]? = some x) :
    ∃ rel, cws[j]? = some { x with relation := rel } := by
  rcases hstep with ⟨he, _⟩ | ⟨t, defn, rf, b, h1, h2, h3, h4, h5, h6, he⟩
  · exact ⟨x.relation, by rw [he, hx, rkc_cw_eta x]⟩
  · rw [he, Array.getElem?_setIfInBounds]
    have hlt : j < s.cookware.size := lt_size_of_getElem? hx
    split
    · rename_i htj
      subst htj
      rw [h1] at hx
      cases hx
      exact ⟨_, by rw [if_pos hlt]⟩
    · exact ⟨x.relation, by rw [hx, rkc_cw_eta x]⟩

/-- every event keeps the entries of the two tables up to their relation -/
theorem rkc_event_keeps (env : Env) (input : Str) (ev : Ev α) (s : Col α) (hi : Inv env s) (hev : EvOK ev) :
    (∀ (j : Nat) (x : Ingredient (ScalableValue α)), s.ingredients[j]? = some x →
      ∃ rel, (processEvent env input ev s).2.ingredients[j]? = some { x with relation := rel }) ∧
    (∀ (j : Nat) (x : Cookware (ScalableValue α)), s.cookware[j]? = some x →
      ∃ rel, (processEvent env input ev s).2.cookware[j]? = some { x with relation := rel }) := by
  have hst := last_processEvent env input ev s hi hev
  refine ⟨fun j x hx => ?_, fun j x hx => ?_⟩
  · rcases hst.ingr with he | ⟨ings, igr, he, hsz, hstep, -⟩
    · exact ⟨x.relation, by rw [he, hx, rkc_ingr_eta x]⟩
    · obtain ⟨rel, hr⟩ := rkc_ingrStep_get hstep j x hx
      have hlt : j < ings.size := lt_size_of_getElem? hr
      exact ⟨rel, by rw [he, Array.getElem?_push, if_neg (by omega), hr]⟩
  · rcases hst.cw with he | ⟨cws, cw, he, hsz, hstep, -⟩
    · exact ⟨x.relation, by rw [he, hx, rkc_cw_eta x]⟩
    · obtain ⟨rel, hr⟩ := rkc_cwStep_get hstep j x hx
      have hlt : j < cws.size := lt_size_of_getElem? hr
      exact ⟨rel, by rw [he, Array.getElem?_push, if_neg (by omega), hr]⟩

/-! ### the event itself -/

/-- a component event is analysed inside a step block; unless the define mode is `text` the block is
    buffered as items -/
theorem rkc_step_block {env : Env} {input : Str} {ev : Ev α} {s : Col α} {o o' : Option BlockKind}
    (hat : RkAt env input ev s o o')
    (hcomp : (∃ i, ev = .ingredient i) ∨ (∃ c, ev = .cookware c) ∨ (∃ t, ev = .timer t))
    (hm : s.defineMode ≠ .text) : ∃ items, s.block = some (.step items) := by
  have ho : o = some .step := by
    have hw := hat.wb
    rcases hcomp with ⟨i, rfl⟩ | ⟨c, rfl⟩ | ⟨t, rfl⟩ <;> simp only [wbStep] at hw <;>
      (split at hw <;> first | assumption | cases hw)
  subst ho
  rcases hat.rel with ⟨items, h1, -⟩ | ⟨t, -, h2⟩
  · exact ⟨items, h1⟩
  · rcases h2 with h2 | h2
    · cases h2
    · exact absurd h2 hm

/-- an ingredient event (define mode not `text`) puts an entry that carries its content at the end of the
    ingredient table -/
theorem rkc_ingredient_enters (env : Env) (input : Str) (li : Loc (PIngredient α)) (s : Col α)
    (o o' : Option BlockKind) (hat : RkAt env input (.ingredient li) s o o') (hm : s.defineMode ≠ .text) :
    ∃ x, (processEvent env input (.ingredient li) s).2.ingredients[s.ingredients.size]? = some x ∧
      IngrKeeps env li.val x := by
  obtain ⟨items, hb⟩ := rkc_step_block hat (Or.inl ⟨li, rfl⟩) hm
  obtain ⟨dg, p, ings, igr, e1, hsz, -⟩ :=
    ingredientA_spec env input li s hat.np.inv.locI hat.np.inv.itab.nonREF_def hat.ok.1
  obtain ⟨ings', x, e2, hk⟩ := rkc_ingredientA_pushed env input li s
  have hblk : (ingredientA env input li s).2.block = s.block := by rw [e1]
  have e3 : ings'.push x = ings.push igr := by rw [← e2, e1]
  obtain ⟨e4, e5⟩ := Array.push_eq_push.1 e3
  refine ⟨igr, ?_, e4 ▸ hk⟩
  simp only [processEvent]
  unfold inBlockComponent
  simp +instances only [A_bind, A_get, hb]
  unfold inStepComponent
  simp only [A_bind]
  rw [pushItem_step' _ items s (ingredientA env input li s).2 hblk hb, e1]
  simp only []
  rw [← hsz]
  simp

theorem rkc_cookware_enters (env : Env) (input : Str) (lc : Loc (PCookware α)) (s : Col α)
    (o o' : Option BlockKind) (hat : RkAt env input (.cookware lc) s o o') (hm : s.defineMode ≠ .text) :
    ∃ x, (processEvent env input (.cookware lc) s).2.cookware[s.cookware.size]? = some x ∧
      CwKeeps env lc.val x := by
  obtain ⟨items, hb⟩ := rkc_step_block hat (Or.inr (Or.inl ⟨lc, rfl⟩)) hm
  obtain ⟨dg, p, cws, cw, e1, hsz, -⟩ :=
    cookwareA_spec env input lc s hat.np.inv.locC hat.np.inv.ctab.nonREF_def
  obtain ⟨cws', x, e2, hk⟩ := rkc_cookwareA_pushed env input lc s
  have hblk : (cookwareA env input lc s).2.block = s.block := by rw [e1]
  have e3 : cws'.push x = cws.push cw := by rw [← e2, e1]
  obtain ⟨e4, e5⟩ := Array.push_eq_push.1 e3
  refine ⟨cw, ?_, e4 ▸ hk⟩
  simp only [processEvent]
  unfold inBlockComponent
  simp +instances only [A_bind, A_get, hb]
  unfold inStepComponent
  simp only [A_bind]
  rw [pushItem_step' _ items s (cookwareA env input lc s).2 hblk hb, e1]
  simp only []
  rw [← hsz]
  simp

/-! ### `parse` -/

/-- **`parse`: the ingredient table carries what every ingredient event carries** -/
theorem rkc_parse_ingredient (env : Env) (input : Str) (c : Col α)
    (hout : (parseRecipe (α := α) env input).output = some c) (pre post : List (Ev α)) (li : Loc (PIngredient α))
    (hsplit : (pullEvents (α := α) env.cs env.ext input).1.toList = pre ++ Ev.ingredient li :: post)
    (hm : (collectorAfter env input pre ({} : Col α)).defineMode ≠ .text) :
    ∃ x, c.ingredients[(collectorAfter env input pre ({} : Col α)).ingredients.size]? = some x ∧
      IngrKeeps env li.val x := by
  obtain ⟨o1, o1', hat, hw, hev, hsp, hrest⟩ := rk_parse_reach env input c hout pre post _ hsplit
  obtain ⟨hnp', hb'⟩ := hat.next
  obtain ⟨sF, hK, -, -, hfin⟩ := rk_fold_pres env input
    (fun s => ∃ x, s.ingredients[(collectorAfter env input pre ({} : Col α)).ingredients.size]? = some x ∧
      IngrKeeps env li.val x) post
    (fun ev hmem s o o' hat' hk => by
      obtain ⟨x, hx, hkx⟩ := hk
      obtain ⟨rel, hr⟩ := (rkc_event_keeps env input ev s hat'.np.inv hat'.ok.evOK).1 _ x hx
      exact ⟨_, hr, hkx.rel rel⟩)
    _ o1' hnp' hb' hw hev hsp c hrest (rkc_ingredient_enters env input li _ o1 o1' hat hm)
  rw [(rk_final env input sF c hfin).1]
  exact hK

/-- **`parse`: the cookware table carries what every cookware event carries** -/
theorem rkc_parse_cookware (env : Env) (input : Str) (c : Col α)
    (hout : (parseRecipe (α := α) env input).output = some c) (pre post : List (Ev α)) (lc : Loc (PCookware α))
    (hsplit : (pullEvents (α := α) env.cs env.ext input).1.toList = pre ++ Ev.cookware lc :: post)
    (hm : (collectorAfter env input pre ({} : Col α)).defineMode ≠ .text) :
    ∃ x, c.cookware[(collectorAfter env input pre ({} : Col α)).cookware.size]? = some x ∧
      CwKeeps env lc.val x := by
  obtain ⟨o1, o1', hat, hw, hev, hsp, hrest⟩ := rk_parse_reach env input c hout pre post _ hsplit
  obtain ⟨hnp', hb'⟩ := hat.next
  obtain ⟨sF, hK, -, -, hfin⟩ := rk_fold_pres env input
    (fun s => ∃ x, s.cookware[(collectorAfter env input pre ({} : Col α)).cookware.size]? = some x ∧
      CwKeeps env lc.val x) post
    (fun ev hmem s o o' hat' hk => by
      obtain ⟨x, hx, hkx⟩ := hk
      obtain ⟨rel, hr⟩ := (rkc_event_keeps env input ev s hat'.np.inv hat'.ok.evOK).2 _ x hx
      exact ⟨_, hr, ⟨hkx.name, hkx.alias, hkx.note, hkx.quantity⟩⟩)
    _ o1' hnp' hb' hw hev hsp c hrest (rkc_cookware_enters env input lc _ o1 o1' hat hm)
  rw [(rk_final env input sF c hfin).2.1]
  exact hK

/-! ### timers -/

/-- the table entry `x` carries what the timer event `t` carries: the name, the unit text and the value -/
structure TimerKeeps (env : Env) (t : PTimer α) (x : Timer (ScalableValue α)) : Prop where
  name : x.name = t.name.map (·.trimmed env.cs)
  quantity : x.quantity.map (fun q => (q.value.val, q.unit)) =
    t.quantity.map (fun q => (q.val.value.value.val, q.val.unit.map (·.trimmed env.cs)))

theorem rkc_timerQuantity (env : Env) (q : Option (Loc (PQuantity α))) (s : Col α) :
    (timerQuantity env q s).1.map (fun q => (q.value.val, q.unit)) =
      q.map (fun q => (q.val.value.value.val, q.val.unit.map (·.trimmed env.cs))) := by
  cases q with
  | none => rfl
  | some q =>
    simp only [timerQuantity, quantityOf, A_bind, A_pure, Option.map_some, rkc_valueOf_val]

/-- `timerA` pushes an entry that carries what the event carries -/
theorem rkc_timerA_pushed (env : Env) (lt : Loc (PTimer α)) (s : Col α) :
    ∃ dg p tm, timerA env lt s = (s.timers.size, { s with diags := dg, panic := p, timers := s.timers.push tm }) ∧
      TimerKeeps env lt.val tm := by
  unfold timerA
  simp +instances only [A_bind, A_get, A_pure, A_modify]
  obtain ⟨d0, p0, h0⟩ := (timerQuantity_diagOnly env lt.val.quantity).out s
  refine ⟨d0, p0, ⟨lt.val.name.map (·.trimmed env.cs), (timerQuantity env lt.val.quantity s).1⟩, ?_, ?_⟩
  · rw [h0]; simp only [Array.size_push, Nat.add_sub_cancel]
  · exact ⟨rfl, rkc_timerQuantity env lt.val.quantity s⟩

theorem rkc_endBlock_timers (k : BlockKind) (s : Col α) : (endBlock k s).2.timers = s.timers := by
  unfold endBlock
  simp +instances only [A_bind, A_modify]
  obtain ⟨d, p, h⟩ := (endBlockContent_diagOnly k).out s
  rw [h]
  cases (endBlockContent k s).1 with
  | none => rfl
  | some c =>
    simp only []
    unfold pushContent
    simp +instances only [A_bind, A_get, A_ite, A_modify, A_pure]
    split <;> rfl

theorem rkc_inStepText_timers (env : Env) (t : Text) (s : Col α) : (inStepText env t s).2.timers = s.timers := by
  unfold inStepText
  simp +instances only [A_bind, A_get]
  cases hb : s.block with
  | none => simp only []; exact ((DiagOnly.apanic _).coreOnly.out s).2.2.2.2.1
  | some buf =>
    cases buf with
    | text b => rfl
    | step items =>
      simp only []
      unfold inStepTextStep
      simp +instances only [A_bind, A_get, A_ite, A_modify, A_pure, awarn]
      repeat' split
      all_goals rfl

/-- every event keeps the entries of the timer table -/
theorem rkc_event_timers (env : Env) (input : Str) (ev : Ev α) (s : Col α) (hi : Inv env s) (hev : EvOK ev) :
    (processEvent env input ev s).2.timers = s.timers ∨
    ∃ tm, (processEvent env input ev s).2.timers = s.timers.push tm := by
  have hcomp : ∀ e : Ev α, ((∃ i, e = .ingredient i) ∨ (∃ c, e = .cookware c) ∨ (∃ t, e = .timer t)) → EvOK e →
      ((inBlockComponent env input e s).2.timers = s.timers ∨
        ∃ tm, (inBlockComponent env input e s).2.timers = s.timers.push tm) := by
    intro e he hok
    unfold inBlockComponent
    simp +instances only [A_bind, A_get]
    cases hb : s.block with
    | none => simp only []; exact Or.inl ((DiagOnly.apanic _).coreOnly.out s).2.2.2.2.1
    | some buf =>
      cases buf with
      | text b => simp only []; exact Or.inl ((inTextComponent_coreOnly input e b).out s).2.2.2.2.1
      | step items =>
        simp only []
        unfold inStepComponent
        rcases he with ⟨li, rfl⟩ | ⟨lc, rfl⟩ | ⟨lt, rfl⟩
        · simp only [A_bind]
          obtain ⟨dg, p, ings, igr, e1, -, -⟩ := ingredientA_spec env input li s hi.locI hi.itab.nonREF_def hok
          have hblk : (ingredientA env input li s).2.block = s.block := by rw [e1]
          rw [pushItem_step' _ items s (ingredientA env input li s).2 hblk hb, e1]
          exact Or.inl rfl
        · simp only [A_bind]
          obtain ⟨dg, p, cws, cw, e1, -, -⟩ := cookwareA_spec env input lc s hi.locC hi.ctab.nonREF_def
          have hblk : (cookwareA env input lc s).2.block = s.block := by rw [e1]
          rw [pushItem_step' _ items s (cookwareA env input lc s).2 hblk hb, e1]
          exact Or.inl rfl
        · simp only [A_bind]
          obtain ⟨dg, p, tm, e1, -⟩ := rkc_timerA_pushed env lt s
          have hblk : (timerA env lt s).2.block = s.block := by rw [e1]
          rw [pushItem_step' _ items s (timerA env lt s).2 hblk hb, e1]
          exact Or.inr ⟨tm, rfl⟩
  cases ev with
  | frontMatter t => exact Or.inl rfl
  | «section» name => exact Or.inl rfl
  | start kind => exact Or.inl rfl
  | error d => exact Or.inl rfl
  | warning d => exact Or.inl rfl
  | metadata k v => exact Or.inl ((metadataA_coreOnly env k v).out s).2.2.2.2.1
  | stop kind => exact Or.inl (rkc_endBlock_timers kind s)
  | text t => exact Or.inl (rkc_inStepText_timers env t s)
  | ingredient i => exact hcomp _ (Or.inl ⟨i, rfl⟩) hev
  | cookware c => exact hcomp _ (Or.inr (Or.inl ⟨c, rfl⟩)) hev
  | timer t => exact hcomp _ (Or.inr (Or.inr ⟨t, rfl⟩)) hev

theorem rkc_timer_enters (env : Env) (input : Str) (lt : Loc (PTimer α)) (s : Col α)
    (o o' : Option BlockKind) (hat : RkAt env input (.timer lt) s o o') (hm : s.defineMode ≠ .text) :
    ∃ x, (processEvent env input (.timer lt) s).2.timers[s.timers.size]? = some x ∧ TimerKeeps env lt.val x := by
  obtain ⟨items, hb⟩ := rkc_step_block hat (Or.inr (Or.inr ⟨lt, rfl⟩)) hm
  obtain ⟨dg, p, tm, e1, hk⟩ := rkc_timerA_pushed env lt s
  have hblk : (timerA env lt s).2.block = s.block := by rw [e1]
  refine ⟨tm, ?_, hk⟩
  simp only [processEvent]
  unfold inBlockComponent
  simp +instances only [A_bind, A_get, hb]
  unfold inStepComponent
  simp only [A_bind]
  rw [pushItem_step' _ items s (timerA env lt s).2 hblk hb, e1]
  simp

/-- **`parse`: the timer table carries what every timer event carries** -/
theorem rkc_parse_timer (env : Env) (input : Str) (c : Col α)
    (hout : (parseRecipe (α := α) env input).output = some c) (pre post : List (Ev α)) (lt : Loc (PTimer α))
    (hsplit : (pullEvents (α := α) env.cs env.ext input).1.toList = pre ++ Ev.timer lt :: post)
    (hm : (collectorAfter env input pre ({} : Col α)).defineMode ≠ .text) :
    ∃ x, c.timers[(collectorAfter env input pre ({} : Col α)).timers.size]? = some x ∧
      TimerKeeps env lt.val x := by
  obtain ⟨o1, o1', hat, hw, hev, hsp, hrest⟩ := rk_parse_reach env input c hout pre post _ hsplit
  obtain ⟨hnp', hb'⟩ := hat.next
  obtain ⟨sF, hK, -, -, hfin⟩ := rk_fold_pres env input
    (fun s => ∃ x, s.timers[(collectorAfter env input pre ({} : Col α)).timers.size]? = some x ∧
      TimerKeeps env lt.val x) post
    (fun ev hmem s o o' hat' hk => by
      obtain ⟨x, hx, hkx⟩ := hk
      refine ⟨x, ?_, hkx⟩
      have hlt := lt_size_of_getElem? hx
      rcases rkc_event_timers env input ev s hat'.np.inv hat'.ok.evOK with h | ⟨tm, h⟩
      · rw [h]; exact hx
      · rw [h, Array.getElem?_push, if_neg (by omega)]; exact hx)
    _ o1' hnp' hb' hw hev hsp c hrest (rkc_timer_enters env input lt _ o1 o1' hat hm)
  rw [(rk_final env input sF c hfin).2.2.1]
  exact hK

/-! ### `parse_reference` -/

theorem rkc_splitOnChar_ne (c : Char) (l : Str) : splitOnChar c l ≠ [] := by
  cases l with
  | nil => simp [splitOnChar]
  | cons x xs =>
    unfold splitOnChar
    split
    · simp
    · split <;> simp

theorem rkc_splitOnChar_sep (c : Char) (l : Str) : splitOnChar c (c :: l) = [] :: splitOnChar c l := by
  conv => lhs; unfold splitOnChar
  cases h : splitOnChar c l with
  | nil => exact absurd h (rkc_splitOnChar_ne c l)
  | cons p ps => simp

theorem rkc_splitOnChar_other (c x : Char) (l : Str) (hx : x ≠ c) :
    ∃ p ps, splitOnChar c l = p :: ps ∧ splitOnChar c (x :: l) = (x :: p) :: ps := by
  cases h : splitOnChar c l with
  | nil => exact absurd h (rkc_splitOnChar_ne c l)
  | cons p ps =>
    refine ⟨p, ps, rfl, ?_⟩
    conv => lhs; unfold splitOnChar
    rw [h]
    simp [hx]

/-- **what `parse_reference` keeps**: when the (trimmed) name starts with `./`, `../`, `.\\` or `..\\`, every
    backslash is read as `/`, the path is split at `/`; the first piece (`.` or `..`, no letter or digit) is
    left out, the last piece is the name, the pieces between are `reference.components`, in order -/
theorem rkc_parseReference_path (name : Str) (r : RecipeReference) (h : parseReference name = some r) :
    ∃ first, splitOnChar '/' (name.map (fun c => if c = '\\' then '/' else c)) =
        first :: (r.components ++ [r.name]) ∧ (first = ['.'] ∨ first = ['.', '.']) := by
  unfold parseReference at h
  split at h
  · rename_i hc
    simp only [Option.some.injEq] at h
    subst h
    simp only []
    have key : ∃ first rest, name.map (fun c => if c = '\\' then '/' else c) = first ++ '/' :: rest ∧
        (first = ['.'] ∨ first = ['.', '.']) := by
      simp only [startsWith, Bool.or_eq_true] at hc
      rcases hc with ((hc | hc) | hc) | hc <;>
        (obtain ⟨t, rfl⟩ := List.isPrefixOf_iff_prefix.1 hc)
      · exact ⟨['.'], t.map (fun c => if c = '\\' then '/' else c), by simp, Or.inl rfl⟩
      · exact ⟨['.', '.'], t.map (fun c => if c = '\\' then '/' else c), by simp, Or.inr rfl⟩
      · exact ⟨['.'], t.map (fun c => if c = '\\' then '/' else c), by simp, Or.inl rfl⟩
      · exact ⟨['.', '.'], t.map (fun c => if c = '\\' then '/' else c), by simp, Or.inr rfl⟩
    obtain ⟨first, rest, hp, hf⟩ := key
    rw [hp]
    have hsplit : splitOnChar '/' (first ++ '/' :: rest) = first :: splitOnChar '/' rest := by
      rcases hf with rfl | rfl
      · obtain ⟨p, ps, e1, e2⟩ := rkc_splitOnChar_other '/' '.' ('/' :: rest) (by decide)
        rw [rkc_splitOnChar_sep] at e1
        simp only [List.cons.injEq] at e1
        show splitOnChar '/' ('.' :: '/' :: rest) = _
        rw [e2, ← e1.1, ← e1.2]
      · obtain ⟨p, ps, e1, e2⟩ := rkc_splitOnChar_other '/' '.' ('/' :: rest) (by decide)
        rw [rkc_splitOnChar_sep] at e1
        simp only [List.cons.injEq] at e1
        obtain ⟨p', ps', e1', e2'⟩ := rkc_splitOnChar_other '/' '.' ('.' :: '/' :: rest) (by decide)
        show splitOnChar '/' ('.' :: '.' :: '/' :: rest) = _
        rw [e2', ] 
        rw [e2] at e1'
        simp only [List.cons.injEq] at e1'
        rw [← e1'.1, ← e1'.2, ← e1.1, ← e1.2]
    rw [hsplit]
    refine ⟨first, ?_, hf⟩
    simp only [List.drop_succ_cons, List.drop_zero]
    have hne := rkc_splitOnChar_ne '/' rest
    congr 1
    rw [List.getLast?_eq_some_getLast hne]
    simp only [Option.getD_some]
    exact (List.dropLast_concat_getLast hne).symm
  · cases h
end Cook
