import CookModel.Lemmas.AisleText
/-
  A successful `parse` returns exactly the right-fold grouping (`groupR`) of the classified
  lines: categories in file order, each with the ingredient lines that follow it, names
  being the trimmed `|`-separated pieces; and there is no ingredient line before the first
  category.
-/
namespace Cook.Aisle

theorem line_chars (raw : Slice) :
    (trim (stripComment raw)).chars = trimChars (stripCommentChars raw.chars) := by
  rw [trim_chars]; rfl

/-- the effect of one successful iteration on (`categories`, `current_category`) -/
def StepShape (st st' : St) : LineKind → Prop
  | .blank => st'.cats = st.cats ∧ st'.cur = st.cur
  | .cat n => st'.cats = pushCur st ∧ st'.cur = some ⟨n, []⟩
  | .igr ns => ∃ c, st.cur = some c ∧ st'.cats = st.cats ∧ st'.cur = some ⟨c.name, c.ingredients ++ [⟨ns⟩]⟩

theorem catLine_shape {inLen : Nat} {st st' : St} {line : Slice} (h : catLine inLen st line = .ok st') :
    st'.cats = pushCur st ∧ st'.cur = some ⟨innerChars line.chars, []⟩ := by
  unfold catLine at h
  split at h
  · cases h
  · split at h
    · cases hc : calcSpan inLen (inner line) <;> simp [hc, Except.bind] at h
    · split at h
      · rename_i other _
        cases hc : calcSpan inLen other <;> simp [hc, Except.bind] at h
        cases hc2 : calcSpan inLen (inner line) <;> simp [hc2] at h
      · cases h; exact ⟨rfl, rfl⟩

theorem igrLine_shape {inLen : Nat} {st st' : St} {line : Slice} (h : igrLine inLen st line = .ok st') :
    ∃ c, st.cur = some c ∧ st'.cats = st.cats ∧
      st'.cur = some ⟨c.name, c.ingredients ++ [⟨(pieces '|' line.chars).map trimChars⟩]⟩ := by
  unfold igrLine at h
  split at h
  · cases h
  · split at h
    · rename_i cat hcat; cases h; exact ⟨cat, hcat, rfl, rfl⟩
    · cases hc : calcSpan inLen line <;> simp [hc, Except.bind] at h

theorem stepLine_shape {inLen : Nat} {st st' : St} {raw : Slice} (h : stepLine inLen st raw = .ok st') :
    StepShape st st' (classify raw.chars) := by
  unfold stepLine at h
  unfold classify
  rw [line_chars] at h
  split at h
  · rename_i hc
    rw [if_pos hc]
    have := catLine_shape h
    rwa [line_chars] at this
  · rename_i hc
    rw [if_neg hc]
    split at h
    · rename_i hne
      rw [if_neg (by simpa using hne)]
      have := igrLine_shape h
      rwa [line_chars] at this
    · rename_i hne
      rw [if_pos (by simpa using hne)]
      cases h; exact ⟨rfl, rfl⟩

theorem parseLines_shape {inLen : Nat} (ls : List Slice) (st st' : St)
    (h : parseLines inLen st ls = .ok st') :
    (st.cur = none → (groupR (ls.map (classify ·.chars))).1 = [] ∧
        pushCur st' = st.cats ++ (groupR (ls.map (classify ·.chars))).2) ∧
    (∀ c, st.cur = some c →
        pushCur st' = st.cats ++ ⟨c.name, c.ingredients ++ (groupR (ls.map (classify ·.chars))).1⟩ ::
          (groupR (ls.map (classify ·.chars))).2) := by
  induction ls generalizing st with
  | nil =>
    simp only [parseLines] at h; cases h
    refine ⟨fun hn => by simp [groupR, pushCur, hn], fun c hc => by simp [groupR, pushCur, hc]⟩
  | cons l ls ih =>
    unfold parseLines at h
    split at h
    · cases h
    · rename_i st1 h1
      have hs := stepLine_shape h1
      have := ih st1 h
      simp only [List.map_cons]
      cases hk : classify l.chars with
      | blank =>
        rw [hk] at hs; obtain ⟨e1, e2⟩ := hs
        simp only [groupR]
        rw [e1, e2] at this; exact this
      | cat n =>
        rw [hk] at hs; obtain ⟨e1, e2⟩ := hs
        have h2 := this.2 _ e2
        rw [e1] at h2
        constructor
        · intro hn; simpa [groupR, pushCur, hn] using h2
        · intro c hc; simpa [groupR, pushCur, hc] using h2
      | igr ns =>
        rw [hk] at hs; obtain ⟨c, e0, e1, e2⟩ := hs
        have h2 := this.2 _ e2
        rw [e1] at h2
        constructor
        · intro hn; rw [hn] at e0; cases e0
        · intro c' hc
          rw [e0] at hc; cases hc
          simpa [groupR] using h2

theorem parse_shape (input : List Char) (c : Conf) (h : parse input = .ok c) :
    c.categories = (groupR ((lineTexts input).map classify)).2 ∧
    (groupR ((lineTexts input).map classify)).1 = [] := by
  unfold parse at h
  split at h
  · cases h
  · rename_i st hst
    cases h
    have := (parseLines_shape _ _ _ hst).1 rfl
    simp only [lineTexts, List.map_map]
    simpa [St.init, Function.comp_def] using this.symm

end Cook.Aisle
