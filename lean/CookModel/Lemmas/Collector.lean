import CookModel.Analysis.Collector
namespace Cook
variable {α : Type} [Arith α]

theorem stepIndices_spec (content : List Content) (i : Nat) (h : i ∈ stepIndices content) :
    i < content.length ∧ ∃ st, content[i]? = some (.step st) := by
  unfold stepIndices at h
  simp only [List.mem_filter, List.mem_range] at h
  refine ⟨h.1, ?_⟩
  have h2 := h.2
  cases hc : content[i]? with
  | none => rw [hc] at h2; simp at h2
  | some c =>
    cases c with
    | step st => exact ⟨st, rfl⟩
    | text t => rw [hc] at h2; simp [Content.isStep] at h2

theorem getElem?_mem' {β} (l : List β) (k : Nat) (x : β) (h : l[k]? = some x) : x ∈ l :=
  List.mem_of_getElem? h

/-- an intermediate reference that resolves addresses an existing step of the current section,
    or an already pushed section -/
theorem interRefTarget_inRange (content : List Content) (n : Nat) (d : InterData) (rel : IngredientRelation)
    (h : interRefTarget content n d = .ok rel) :
    (∃ i, rel = ⟨.reference i, some .step⟩ ∧ i < content.length ∧ ∃ st, content[i]? = some (.step st)) ∨
    (∃ i, rel = ⟨.reference i, some .section⟩ ∧ i < n) := by
  unfold interRefTarget at h
  simp only at h
  generalize d.val.toNat = v at h
  split at h
  · cases h
  split at h
  · split at h
    · rename_i i hi
      simp only [Except.ok.injEq] at h
      have hm := stepIndices_spec content i (getElem?_mem' _ _ _ hi)
      exact Or.inl ⟨i, h.symm, hm.1, hm.2⟩
    · cases h
  · split at h
    · rename_i i hi
      simp only [Except.ok.injEq] at h
      have hm := stepIndices_spec content i (by
        have := getElem?_mem' _ _ _ hi
        simpa using this)
      exact Or.inl ⟨i, h.symm, hm.1, hm.2⟩
    · cases h
  · split at h
    · cases h
    · rename_i hlt
      simp only [Except.ok.injEq] at h
      exact Or.inr ⟨_, h.symm, by omega⟩
  · split at h
    · cases h
    · rename_i h1 h2
      simp only [Except.ok.injEq] at h
      refine Or.inr ⟨_, h.symm, ?_⟩
      simp_all
      omega

/-! ### the error short-circuit of `parse_events` -/

theorem parseEventsLoop_cons_nonerror (env : Env) (input : Str) (ev : Ev α) (rest : List (Ev α)) (s : Col α)
    (he : ¬ ∃ d0, ev = .error d0) :
    parseEventsLoop env input (ev :: rest) s = parseEventsLoop env input rest (processEvent env input ev s).2 := by
  cases ev <;> first | rfl | (exfalso; exact he ⟨_, rfl⟩)

theorem parseEventsLoop_error_suppresses (env : Env) (input : Str) (evs : List (Ev α)) (s : Col α)
    (h : ∃ d, Ev.error d ∈ evs) :
    (parseEventsLoop env input evs s).output = none ∧
    ∀ d ∈ (parseEventsLoop env input evs s).diags.toList, d.stage = .parse := by
  induction evs generalizing s with
  | nil => obtain ⟨d, hd⟩ := h; cases hd
  | cons ev rest ih =>
    by_cases he : ∃ d0, ev = .error d0
    · obtain ⟨d0, rfl⟩ := he
      simp only [parseEventsLoop]
      refine ⟨trivial, ?_⟩
      intro d hd
      simp only [Array.toList_filter, List.mem_filter, beq_iff_eq] at hd
      exact hd.2
    · rw [parseEventsLoop_cons_nonerror env input ev rest s he]
      apply ih
      obtain ⟨d, hd⟩ := h
      simp only [List.mem_cons] at hd
      rcases hd with hd | hd
      · exact absurd ⟨d, hd.symm⟩ he
      · exact ⟨d, hd⟩

theorem parseEventsLoop_no_error_output (env : Env) (input : Str) (evs : List (Ev α)) (s : Col α)
    (h : ∀ d, Ev.error d ∉ evs) : (parseEventsLoop env input evs s).output.isSome := by
  induction evs generalizing s with
  | nil => simp [parseEventsLoop]
  | cons ev rest ih =>
    by_cases he : ∃ d0, ev = .error d0
    · obtain ⟨d0, rfl⟩ := he
      exact absurd (List.mem_cons_self) (h d0)
    · rw [parseEventsLoop_cons_nonerror env input ev rest s he]
      apply ih
      intro d hd
      exact h d (List.mem_cons_of_mem _ hd)

end Cook
