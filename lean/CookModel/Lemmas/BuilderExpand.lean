import CookModel.Lemmas.Builder
/- C16 — the SI expansion loop of `finish` keeps the invariant and never panics. -/
namespace Cook.Bld
open Cook

/-- what a unit produced by `expand_si` looks like -/
def IsChild {α : Type} (u : UnitB α) : Prop := u.expanded = none ∧ u.isExpanded = true ∧ u.expandSi = false

theorem expandOne_isChild {α : Type} [Arith α] (u : UnitB α) (pfx sym : SIPrefix → List Key) (p : SIPrefix) :
    IsChild (expandOne u pfx sym p) := ⟨rfl, rfl, rfl⟩

theorem expandSi_ok {α : Type} [Arith α] {u : UnitB α} {si : SIConf} {new : SIPrefix → UnitB α}
    (h : expandSi u si = .ok new) : ∃ pfx sym, si.prefixes = some pfx ∧ si.symbolPrefixes = some sym ∧ new = expandOne u pfx sym := by
  unfold expandSi at h
  split at h
  · cases h
  · split at h
    · rename_i pfx sym hp hs; cases h; exact ⟨pfx, sym, hp, hs, rfl⟩
    · cases h

theorem expandSi_good {α : Type} [Arith α] (u : UnitB α) (si : SIConf) (hu : u.expandSi = true) :
    Good (fun _ => True) (expandSi u si) := by
  unfold expandSi
  simp only [hu, Bool.not_true, Bool.false_eq_true, ↓reduceIte]
  split <;> simp [Good, Err.isPanic]

theorem addExpanded_spec {α : Type} (new : SIPrefix → UnitB α) (hnew : ∀ p, IsChild (new p)) (ps : List SIPrefix)
    (hnd : ps.Nodup) (c : Core α) (m : SIPrefix → Nat) (hinv : Inv c) :
    Good (fun r => Inv r.1 ∧ r.1.units = c.units ++ ps.map new ∧ (∀ p, p ∉ ps → r.2 p = m p)
        ∧ (∀ p, p ∈ ps → c.units.length ≤ r.2 p ∧ r.1.units[r.2 p]? = some (new p))
        ∧ (∀ p q, p ∈ ps → q ∈ ps → r.2 p = r.2 q → p = q))
      (addExpanded new ps c m) := by
  induction ps generalizing c m with
  | nil => simp [addExpanded, Good, hinv]
  | cons p ps ih =>
    unfold addExpanded
    have hg := addUnit_good c (new p)
    split
    · rename_i e he; rw [he] at hg; exact hg
    · rename_i r hr
      obtain ⟨hr2, hru, _⟩ := addUnit_ok hr
      have hinv1 : Inv r.1 := addUnit_inv hinv (hnew p).1 (fun _ => (hnew p).2.2) hr
      have hnd' := List.nodup_cons.mp hnd
      refine (ih hnd'.2 r.1 (setP m p r.2) hinv1).mono ?_
      intro r' ⟨h1, h2, h3, h4, h5⟩
      have hlen : r.1.units.length = c.units.length + 1 := by rw [hru]; simp
      have hp : r'.2 p = c.units.length := by rw [h3 p hnd'.1, setP, hr2]; simp
      have hpget : r'.1.units[c.units.length]? = some (new p) := by
        rw [h2, hru]; apply getElem?_append_of_some; simp
      refine ⟨h1, ?_, ?_, ?_, ?_⟩
      · rw [h2, hru]; simp
      · intro q hq
        have hq' : q ≠ p ∧ q ∉ ps := by simpa using hq
        rw [h3 q hq'.2, setP]; simp [hq'.1]
      · intro q hq
        rcases List.mem_cons.mp hq with rfl | hq
        · rw [hp]; exact ⟨Nat.le_refl _, hpget⟩
        · have := h4 q hq; exact ⟨by omega, this.2⟩
      · intro a b ha hb hab
        rcases List.mem_cons.mp ha with ha1 | ha1 <;> rcases List.mem_cons.mp hb with hb1 | hb1
        · rw [ha1, hb1]
        · have := (h4 b hb1).1; rw [ha1, hp] at hab; omega
        · have := (h4 a ha1).1; rw [hb1, hp] at hab; omega
        · exact h5 a b ha1 hb1 hab

theorem SIPrefix.all_nodup : SIPrefix.all.Nodup := by decide

theorem getElem?_set' {β : Type} (l : List β) (i j : Nat) (x : β) :
    (l.set i x)[j]? = if i = j then (if j < l.length then some x else none) else l[j]? := by
  rw [List.getElem?_set]
  by_cases h : i = j <;> simp [h]

/-- replacing a unit by one with the same keys (and compatible SI records) keeps `PInv` -/
theorem PInv.set_same_keys {α : Type} {R : Nat → Prop} {c : Core α} {id : Nat} {u u' : UnitB α} (h : PInv R c)
    (hu : c.units[id]? = some u) (hk : u'.unit.keys = u.unit.keys) (hs : SInv (c.units.set id u')) :
    PInv R { c with units := c.units.set id u' } := by
  have hlt := lt_of_getElem?_some hu
  refine ⟨?_, ?_, hs⟩
  · intro k i hki
    obtain ⟨hr, u0, h0, hk0⟩ := h.sound k i hki
    refine ⟨hr, ?_⟩
    show ∃ u1, (c.units.set id u')[i]? = some u1 ∧ _
    rw [getElem?_set']
    by_cases hii : id = i
    · subst hii; rw [hu] at h0; cases h0
      exact ⟨u', by simp [hlt], by rw [hk]; exact hk0⟩
    · exact ⟨u0, by simp [hii, h0], hk0⟩
  · intro i u1 hr h1 k hk1
    change (c.units.set id u')[i]? = some u1 at h1
    rw [getElem?_set'] at h1
    by_cases hii : id = i
    · subst hii
      simp [hlt] at h1; subst h1
      exact h.complete id u hr hu k (by rw [← hk]; exact hk1)
    · simp [hii] at h1
      exact h.complete i u1 hr h1 k hk1

/-- state of the expansion loop: ids below `i` are done, ids in `[i, n0)` are still plain, ids from `n0` on are expansions -/
structure ExpState {α : Type} (n0 i : Nat) (c : Core α) : Prop where
  inv : Inv c
  len : n0 ≤ c.units.length
  done : ∀ (id : Nat) (u : UnitB α), id < i → c.units[id]? = some u → u.isExpanded = false ∧ (u.expandSi = true → u.expanded.isSome = true)
  todo : ∀ (id : Nat) (u : UnitB α), i ≤ id → id < n0 → c.units[id]? = some u → u.expanded = none ∧ u.isExpanded = false
  fresh : ∀ (id : Nat) (u : UnitB α), n0 ≤ id → c.units[id]? = some u → IsChild u

theorem expandAt_good {α : Type} [Arith α] (si : SIConf) (n0 i : Nat) (c : Core α) (hs : ExpState n0 i c) (hi : i < n0) :
    Good (ExpState n0 (i + 1)) (expandAt si c i) := by
  unfold expandAt
  have hilt : i < c.units.length := Nat.lt_of_lt_of_le hi hs.len
  split
  · rename_i hnone; rw [List.getElem?_eq_none_iff] at hnone; omega
  · rename_i u hu
    have hplain := hs.todo i u (Nat.le_refl _) hi hu
    split
    · rename_i hex
      have hg := expandSi_good u si hex
      split
      · rename_i e he; rw [he] at hg; exact hg
      · rename_i new hnew
        obtain ⟨pfx, sym, _, _, rfl⟩ := expandSi_ok hnew
        have ha := addExpanded_spec (expandOne u pfx sym) (expandOne_isChild u pfx sym) SIPrefix.all SIPrefix.all_nodup c (fun _ => 0) hs.inv
        split
        · rename_i e he; rw [he] at ha; exact ha
        · rename_i r hr; rw [hr] at ha
          obtain ⟨h1, h2, _, h4, h5⟩ := ha
          have hu' : r.1.units[i]? = some u := by rw [h2]; exact getElem?_append_of_some _ hu
          rw [hu']
          -- the new state
          have hlen' : c.units.length ≤ r.1.units.length := by rw [h2]; simp
          have hget : ∀ j, (r.1.units.set i { u with expanded := some r.2 })[j]? =
              if i = j then some { u with expanded := some r.2 } else r.1.units[j]? := by
            intro j; rw [getElem?_set']
            by_cases hij : i = j
            · subst hij; simp; omega
            · simp [hij]
          have hold : ∀ j x, j < c.units.length → (r.1.units[j]? = some x ↔ c.units[j]? = some x) := by
            intro j x hj; rw [h2, List.getElem?_append_left hj]
          have hnewu : ∀ j x, c.units.length ≤ j → r.1.units[j]? = some x → IsChild x := by
            intro j x hj hx
            rw [h2, List.getElem?_append_right hj] at hx
            simp only [List.getElem?_map, Option.map_eq_some_iff] at hx
            obtain ⟨p, _, rfl⟩ := hx
            exact expandOne_isChild u pfx sym p
          have hsinv : SInv (r.1.units.set i { u with expanded := some r.2 }) := by
            refine ⟨?_, ?_, ?_, ?_⟩
            · intro id u1 m h1' hm p
              rw [hget] at h1'
              by_cases hid : i = id
              · simp [hid] at h1'; subst h1'
                simp at hm; subst hm
                obtain ⟨hge, hch⟩ := h4 p (SIPrefix.mem_all p)
                refine ⟨expandOne u pfx sym p, ?_, expandOne_isChild u pfx sym p⟩
                rw [hget]; have : i ≠ r.2 p := by omega
                simp [this, hch]
              · simp [hid] at h1'
                obtain ⟨ch, hch, hprops⟩ := h1.struct.children id u1 m h1' hm p
                refine ⟨ch, ?_, hprops⟩
                rw [hget]
                by_cases him : i = m p
                · -- the child of another unit cannot be the plain unit i
                  exfalso
                  rw [← him, hu'] at hch; cases hch
                  rw [hplain.2] at hprops; exact absurd hprops.2.1 (by simp)
                · simp [him, hch]
            · intro id u1 m h1' hm p q hpq
              rw [hget] at h1'
              by_cases hid : i = id
              · simp [hid] at h1'; subst h1'
                simp at hm; subst hm
                exact h5 p q (SIPrefix.mem_all p) (SIPrefix.mem_all q) hpq
              · simp [hid] at h1'
                exact h1.struct.inj id u1 m h1' hm p q hpq
            · intro id u1 h1' hx
              rw [hget] at h1'
              by_cases hid : i = id
              · simp [hid] at h1'; subst h1'
                simp at hx; rw [hplain.2] at hx; cases hx
              · simp [hid] at h1'
                exact h1.struct.flag id u1 h1' hx
            · intro id u1 h1' hx
              rw [hget] at h1'
              by_cases hid : i = id
              · simp [hid] at h1'; subst h1'; exact hex
              · simp [hid] at h1'
                exact h1.struct.parent id u1 h1' hx
          have hinv' : Inv { r.1 with units := r.1.units.set i { u with expanded := some r.2 } } :=
            PInv.set_same_keys h1 hu' rfl hsinv
          refine ⟨hinv', ?_, ?_, ?_, ?_⟩
          · show n0 ≤ (r.1.units.set i _).length
            simp; exact Nat.le_trans hs.len hlen'
          · intro id u1 hid h1'
            change (r.1.units.set i _)[id]? = some u1 at h1'
            rw [hget] at h1'
            by_cases hii : i = id
            · simp [hii] at h1'; subst h1'; simp [hplain.2]
            · simp [hii] at h1'
              have hidlt : id < c.units.length := by omega
              exact hs.done id u1 (by omega) ((hold id u1 hidlt).mp h1')
          · intro id u1 hge hlt h1'
            change (r.1.units.set i _)[id]? = some u1 at h1'
            rw [hget] at h1'
            have hii : i ≠ id := by omega
            simp [hii] at h1'
            have hidlt : id < c.units.length := by have := hs.len; omega
            exact hs.todo id u1 (by omega) hlt ((hold id u1 hidlt).mp h1')
          · intro id u1 hge h1'
            change (r.1.units.set i _)[id]? = some u1 at h1'
            rw [hget] at h1'
            have hii : i ≠ id := by omega
            simp [hii] at h1'
            by_cases hidlt : id < c.units.length
            · exact hs.fresh id u1 hge ((hold id u1 hidlt).mp h1')
            · exact hnewu id u1 (by omega) h1'
    · rename_i hex
      refine ⟨hs.inv, hs.len, ?_, ?_, hs.fresh⟩
      · intro id u1 hid h1
        by_cases hii : id = i
        · subst hii; rw [hu] at h1; cases h1
          exact ⟨hplain.2, fun h => absurd h hex⟩
        · exact hs.done id u1 (by omega) h1
      · intro id u1 hge hlt h1
        exact hs.todo id u1 (by omega) hlt h1

end Cook.Bld

namespace Cook.Bld

/-- every unit marked for SI expansion records its expansions (the state after the expansion loop) -/
def AllExpanded {α : Type} (units : List (UnitB α)) : Prop :=
  ∀ (id : Nat) (u : UnitB α), units[id]? = some u → u.expandSi = true → u.expanded.isSome = true

/-- the state `apply_extend_groups` and the rest of `finish` work on -/
def Ready {α : Type} (c : Core α) : Prop := Inv c ∧ AllExpanded c.units

theorem expandLoop_good {α : Type} [Arith α] (si : SIConf) (n0 : Nat) (k i : Nat) (hik : i + k = n0) (c : Core α)
    (hs : ExpState n0 i c) : Good (ExpState n0 n0) (expandLoop si (List.range' i k) c) := by
  induction k generalizing i c with
  | zero => simp at hik; subst hik; simpa [expandLoop, Good] using hs
  | succ k ih =>
    rw [List.range'_succ]
    unfold expandLoop
    have h1 := expandAt_good si n0 i c hs (by omega)
    split
    · rename_i e he; rw [he] at h1; exact h1
    · rename_i c' hc'; rw [hc'] at h1
      exact ih (i + 1) (by omega) c' h1

theorem expandAll_good {α : Type} [Arith α] (si : SIConf) (c : Core α) (hc : CoreOK c) : Good Ready (expandAll si c) := by
  unfold expandAll
  rw [List.range_eq_range']
  have h0 : ExpState c.units.length 0 c := by
    refine ⟨hc.1, Nat.le_refl _, ?_, ?_, ?_⟩
    · intro id u h; omega
    · intro id u _ _ h; exact hc.2 id u h
    · intro id u hge h; have := lt_of_getElem?_some h; omega
  refine (expandLoop_good si c.units.length c.units.length 0 (by omega) c h0).mono ?_
  intro c' hs
  refine ⟨hs.inv, ?_⟩
  intro id u hu hex
  by_cases hid : id < c.units.length
  · exact (hs.done id u hid hu).2 hex
  · have := (hs.fresh id u (by omega) hu).2.2; rw [this] at hex; cases hex

end Cook.Bld
