import CookModel.Lemmas.MetaParseDiagsReport
/-
  C14 with front matter, diagnostics: the report of the metadata-only analysis is empty; the
  metadata diagnostics of the full report are `config-*` ones only, and there are none without the
  MODES extension.  Also: a structurally recursive twin of the lexer (`lexFuel`) so that whole
  inputs can be evaluated in examples.
-/
set_option linter.unusedSectionVars false
namespace Cook
variable {α : Type} [Arith α]

/-- the kinds of the analysis diagnostics about `[config]` entries -/
def cfgKind (k : String) : Bool := k == "config-invalid-value" || k == "config-unknown-key"

/-- an analysis-stage diagnostic about a `[config]` entry -/
def Diag.isCfg (d : Diag) : Bool := d.stage == .analysis && cfgKind d.kind

theorem metaKind_split (k : String) : metaKind k = (cfgKind k || stdKind k) := by
  unfold metaKind cfgKind stdKind
  simp only [Bool.or_assoc]

theorem isMeta_split (d : Diag) : d.isMeta = (d.isCfg || d.isStdMeta) := by
  unfold Diag.isMeta Diag.isCfg Diag.isStdMeta
  rw [metaKind_split]
  cases (d.stage == Stage.analysis) <;> simp

/-- WITH front matter the report of `parse_metadata` has no diagnostic at all (from the model's side:
    what `serde_yaml` and the std-key checks say about the YAML content is outside the model) -/
theorem front_meta_report (env : Env) (input : Str) (fm : FrontMatter)
    (h : parseFrontmatter env.cs input = some fm) :
    (parseMetadata (α := α) env input).diags = #[] ∧ (parseMetadata (α := α) env input).panic = none := by
  unfold parseMetadata pullMetaEvents
  simp only [h]
  exact ⟨rfl, rfl⟩

/-- WITH front matter every metadata diagnostic of the full report is a `config-*` one -/
theorem front_full_meta_is_cfg (env : Env) (input : Str) (fm : FrontMatter)
    (h : parseFrontmatter env.cs input = some fm) (r1 : Col α)
    (h1 : (parseRecipe (α := α) env input).output = some r1) :
    r1.diags.toList.filter Diag.isMeta = r1.diags.toList.filter Diag.isCfg := by
  have hs : r1.diags.toList.filter Diag.isStdMeta = [] :=
    congrArg Prod.snd (analysis_front_full_sd env input fm h r1 h1)
  apply List.filter_congr
  intro d hd
  rw [isMeta_split]
  have : d.isStdMeta = false := by
    cases hq : d.isStdMeta with
    | false => rfl
    | true =>
      have : d ∈ r1.diags.toList.filter Diag.isStdMeta := List.mem_filter.2 ⟨hd, hq⟩
      rw [hs] at this
      cases this
  rw [this, Bool.or_false]

/-- WITH front matter the output of the metadata-only analysis carries no diagnostic -/
theorem front_meta_output_diags (env : Env) (input : Str) (fm : FrontMatter)
    (h : parseFrontmatter env.cs input = some fm) (r2 : Col α)
    (h2 : (parseMetadata (α := α) env input).output = some r2) : r2.diags = #[] := by
  unfold parseMetadata at h2
  simp only [mfront_pullMetaEvents env.cs env.ext input fm h] at h2
  cases h2
  rfl

/-- WITH front matter and WITHOUT the MODES extension the full report has no metadata diagnostic -/
theorem front_full_no_modes (env : Env) (input : Str) (fm : FrontMatter)
    (h : parseFrontmatter env.cs input = some fm) (hm : env.ext.has Gen.EXT_MODES = false) (r1 : Col α)
    (h1 : (parseRecipe (α := α) env input).output = some r1) :
    r1.diags.toList.filter Diag.isMeta = [] := by
  obtain ⟨L, eL, hL⟩ := mfront_pullEvents (α := α) env.cs env.ext input fm h
  have hnil : L = [] := by
    cases L with
    | nil => rfl
    | cons ev L' =>
      obtain ⟨_, _, _, _, hx⟩ := hL ev (List.mem_cons_self ..)
      rw [hm] at hx
      cases hx
  subst hnil
  obtain ⟨r2, h2, _⟩ := analysis_front_meta (α := α) env input fm h
  have hk : (pullEvents (α := α) env.cs env.ext input).1.toList.filter Ev.isKey =
      (pullMetaEvents (α := α) env.cs env.ext input).1.toList.filter Ev.isKey := by
    unfold metaOf at eL
    rw [eL, mfront_pullMetaEvents env.cs env.ext input fm h]
    rfl
  have e : r1.md = r2.md := by
    unfold parseRecipe at h1
    unfold parseMetadata at h2
    simp only at h1 h2
    exact events_agree_md env input _ _ hk (pullEvents_warnOK env.cs env.ext input)
      (pullMetaEvents_warnOK env.cs env.ext input) r1 r2 h1 h2
  have e2 : r2.diags = #[] := front_meta_output_diags env input fm h r2 h2
  have := congrArg MD.ds e
  simp only [Col.md] at this
  rw [this, e2]
  rfl

/-! ### a structurally recursive twin of the lexer -/

/-- `lexFrom` with fuel (structural recursion, so that it reduces on concrete inputs) -/
def lexFuel (cs : CharSpec) : Nat → Nat → List Char → List Tok
  | 0, _, _ => []
  | _ + 1, _, [] => []
  | f + 1, off, c :: rest =>
    ⟨(lexOne cs c rest).1, c :: rest.take (lexOne cs c rest).2, off⟩ ::
      lexFuel cs f (off + utf8Len (c :: rest.take (lexOne cs c rest).2)) (rest.drop (lexOne cs c rest).2)

theorem lexFrom_eq_fuel (cs : CharSpec) : ∀ (f off : Nat) (s : List Char), s.length ≤ f →
    lexFrom cs off s = lexFuel cs f off s := by
  intro f
  induction f with
  | zero =>
    intro off s hs
    cases s with
    | nil => rw [lexFrom]; rfl
    | cons c r => simp at hs
  | succ n ih =>
    intro off s hs
    cases s with
    | nil => rw [lexFrom]; rfl
    | cons c r =>
      rw [lexFrom]
      simp only [lexFuel]
      congr 1
      apply ih
      simp only [List.length_cons, List.length_drop] at hs ⊢
      omega

theorem lex_eq_fuel (cs : CharSpec) (s : List Char) : lex cs s = lexFuel cs s.length 0 s :=
  lexFrom_eq_fuel cs _ _ _ (Nat.le_refl _)

end Cook
