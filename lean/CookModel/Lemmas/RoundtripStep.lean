import CookModel.Lemmas.RoundtripComp
/-
  C01, step layer: `parse_step` on a concatenation of text runs and component spellings emits one
  event per segment, in order, and no diagnostic.
-/
set_option linter.unusedSectionVars false
set_option linter.unusedSimpArgs false
set_option linter.unusedVariables false
namespace Cook

variable {α : Type} [Arith α]

/-- a segment of a step: a text run, or a component spelled as in the component layer -/
inductive Seg where
  | text (l : List Tok)
  | ingredient (c : AComp) (p : CPad)
  | cookware (c : AComp) (p : CPad)

def Seg.spell : Seg → List Tok
  | .text l => l
  | .ingredient c p => spellIngredient c p
  | .cookware c p => spellCookware c p

/-- a segment on its own: a text run is non-empty, has no marker `@ # ~` and shows at least one
    character; a component satisfies the side conditions of the component layer -/
def Seg.ok (cs : CharSpec) (e : Ext) : Seg → Bool
  | .text l => !l.isEmpty && l.all (fun t => !isMarker t.kind) && !(l.flatMap vis).isEmpty
  | .ingredient c p => c.wf cs e && p.ok cs
  | .cookware c p => c.wfCookware cs e && p.ok cs

/-- a segment and what follows it: two text runs do not touch (they would be one run); a
    component without note is not followed by `(` -/
def Seg.followOK : Seg → List Seg → Bool
  | .text _, .text _ :: _ => false
  | .text _, _ => true
  | .ingredient c _, rest => restOK c (rest.flatMap Seg.spell)
  | .cookware c _, rest => restOK c (rest.flatMap Seg.spell)

def segsOK (cs : CharSpec) (e : Ext) : List Seg → Bool
  | [] => true
  | seg :: rest => seg.ok cs e && seg.followOK rest && segsOK cs e rest

/-- the event a segment must produce -/
def SegEv (cs : CharSpec) : Seg → Ev α → Prop
  | .text l, .text t => t.text = l.flatMap vis
  | .ingredient c _, .ingredient i => IngrMatches cs c i.val
  | .cookware c _, .cookware i => CwMatches cs c i.val
  | _, _ => False

/-- one event per segment, in order -/
inductive SegsEvs (cs : CharSpec) : List Seg → List (Ev α) → Prop
  | nil : SegsEvs cs [] []
  | cons {seg : Seg} {ev : Ev α} {segs : List Seg} {evs : List (Ev α)} :
      SegEv cs seg ev → SegsEvs cs segs evs → SegsEvs cs (seg :: segs) (ev :: evs)

theorem pushEv_run (ev : Ev α) (s : BP α) : pushEv ev s = ((), { s with evs := s.evs.push ev }) := rfl

theorem text_frags_ne (t : Text) (h : t.text ≠ []) : t.frags.isEmpty = false := by
  cases hf : t.frags with
  | nil => exfalso; apply h; simp [Text.text, hf]
  | cons _ _ => rfl

/-- one iteration of the step loop on a text run -/
theorem stepOne_text (s : BP α) (A : List Tok) (t0 : Tok) (tl C : List Tok) (ht : s.toks = A ++ (t0 :: tl ++ C))
    (hc : s.cur = A.length) (h0 : isMarker t0.kind = false) (hl : ∀ t ∈ tl, isMarker t.kind = false)
    (hC : ∀ t, C.head? = some t → isMarker t.kind = true) (hvis : (t0 :: tl).flatMap vis ≠ [])
    (hrun : RunAt (baseOff s.toks) s.toks) :
    ∃ t : Text, stepOne s = ((), { s with cur := A.length + (t0 :: tl).length, evs := s.evs.push (.text t) }) ∧
      t.text = (t0 :: tl).flatMap vis := by
  have e1 : s.toks = A ++ t0 :: (tl ++ C) := by rw [ht]; simp
  have h1 := peekK_split s A (t0 :: (tl ++ C)) e1 hc
  have h2 := bumpAny_split s A t0 (tl ++ C) e1 hc
  have h3 := consumeWhile_split (fun k => !isMarker k) ({ s with cur := A.length + 1 } : BP α) (A ++ [t0]) tl C
    (by rw [e1]; simp) (by simp) (by intro t ht'; simp [hl t ht']) (by intro t ht'; simp [hC t ht'])
  have hr : RunAt (offAt s.toks A.length) (t0 :: tl) := rt_runAt_mid hrun A (t0 :: tl) C ht
  have hslice : (s.toks.take ((A ++ [t0]).length + tl.length)).drop A.length = t0 :: tl := by
    rw [e1, show A ++ t0 :: (tl ++ C) = (A ++ [t0] ++ tl) ++ C by simp, List.take_left' (by lenarith)]
    rw [show A ++ [t0] ++ tl = A ++ (t0 :: tl) by simp, List.drop_left]
  have hfr := text_frags_ne (buildText (offAt s.toks A.length) (t0 :: tl)) (by rw [buildText_text]; exact hvis)
  refine ⟨buildText (offAt s.toks A.length) (t0 :: tl), ?_, buildText_text _ _⟩
  unfold stepOne
  simp only [bind, StateT.bind, h1, List.head?_cons, Option.map_some]
  have hlen : (A ++ [t0]).length + tl.length = A.length + (t0 :: tl).length := by lenarith
  rw [hlen] at h3 hslice
  cases hk : t0.kind <;> simp [isMarker, hk] at h0 <;>
    simp only [bind, pure, StateT.pure, StateT.bind, currentOffset_run, getCur, get, getThe, MonadStateOf.get, StateT.get,
      hc, h2, h3, hslice, bpText_run hr, hfr, Bool.not_false, if_true, pushEv_run]

theorem comp_head {marker : Tok} {c : AComp} {p : CPad} {ts : List Tok} (hs : Spells ts (spellComp marker c p)) :
    ∃ tm r, ts = tm :: r ∧ tm.kind = marker.kind := by
  obtain ⟨tm, mt, nm, n1, al, tob, Q, tcb, nt, rfl, htmk, -⟩ := rt_comp_decomp hs
  exact ⟨tm, _, rfl, htmk⟩

theorem stepOne_ingredient (c : AComp) (p : CPad) (s : BP α) (hwf : c.wf s.cs s.ext = true) (hp : p.ok s.cs = true)
    (A ts rest : List Tok) (hs : Spells ts (spellIngredient c p)) (ht : s.toks = A ++ (ts ++ rest))
    (hc : s.cur = A.length) (hrest : restOK c rest = true) (hrun : RunAt (baseOff s.toks) s.toks) :
    ∃ i : Loc (PIngredient α),
      stepOne s = ((), { s with cur := A.length + ts.length, evs := s.evs.push (.ingredient i) }) ∧
      IngrMatches s.cs c i.val := by
  obtain ⟨ing, hrunI, hm⟩ := rt_ingredientP c p s hwf hp A ts rest hs ht hc hrest hrun
  obtain ⟨tm, r, hts, htmk⟩ := comp_head hs
  have h1 := peekK_split s A (ts ++ rest) ht hc
  refine ⟨⟨ing, ⟨offAt s.toks A.length, offAt s.toks (A.length + ts.length)⟩⟩, ?_, hm⟩
  unfold stepOne
  simp only [bind, StateT.bind, h1, hts, List.cons_append, List.head?_cons, Option.map_some, htmk, tk,
    withRecover_run, hrunI, Option.isNone_some, Bool.false_eq_true, if_false, pushEv_run]

theorem stepOne_cookware (c : AComp) (p : CPad) (s : BP α) (hwf : c.wfCookware s.cs s.ext = true)
    (hp : p.ok s.cs = true)
    (A ts rest : List Tok) (hs : Spells ts (spellCookware c p)) (ht : s.toks = A ++ (ts ++ rest))
    (hc : s.cur = A.length) (hrest : restOK c rest = true) (hrun : RunAt (baseOff s.toks) s.toks) :
    ∃ i : Loc (PCookware α),
      stepOne s = ((), { s with cur := A.length + ts.length, evs := s.evs.push (.cookware i) }) ∧
      CwMatches s.cs c i.val := by
  obtain ⟨cw, hrunI, hm⟩ := rt_cookwareP c p s hwf hp A ts rest hs ht hc hrest hrun
  obtain ⟨tm, r, hts, htmk⟩ := comp_head hs
  have h1 := peekK_split s A (ts ++ rest) ht hc
  refine ⟨⟨cw, ⟨offAt s.toks A.length, offAt s.toks (A.length + ts.length)⟩⟩, ?_, hm⟩
  unfold stepOne
  simp only [bind, StateT.bind, h1, hts, List.cons_append, List.head?_cons, Option.map_some, htmk, tk,
    withRecover_run, hrunI, Option.isNone_some, Bool.false_eq_true, if_false, pushEv_run]

theorem restOK_transfer {c : AComp} {rest trest : List Tok} (hs : Spells trest rest) (h : restOK c rest = true) :
    restOK c trest = true := by
  unfold restOK at *
  cases hn : c.note.isSome with
  | true => simp
  | false =>
    simp only [hn, Bool.false_or] at h ⊢
    have hk := hs.head_kind
    cases hr : rest.head? with
    | none =>
      rw [hr] at hk
      cases ht : trest.head? with
      | none => rfl
      | some t => rw [ht] at hk; simp at hk
    | some u =>
      rw [hr] at hk h
      cases ht : trest.head? with
      | none => rfl
      | some t =>
        rw [ht] at hk
        simp only [Option.map_some, Option.some.injEq] at hk
        simp only [Option.all_some, bne_iff_ne, ne_eq] at h ⊢
        rw [hk]; exact h

theorem restToks_run (s : BP α) : restToks s = (s.toks.drop s.cur, s) := rfl

/-- the step loop over a list of segments: one event per segment, in order, nothing else -/
theorem stepLoop_segs : ∀ (segs : List Seg) (fuel : Nat) (s : BP α) (A tsegs : List Tok),
    Spells tsegs (segs.flatMap Seg.spell) → s.toks = A ++ tsegs → s.cur = A.length →
    RunAt (baseOff s.toks) s.toks → segsOK s.cs s.ext segs = true → tsegs.length ≤ fuel →
    ∃ (evs : List (Ev α)) (arr : Array (Ev α)),
      stepLoop fuel s = ((), { s with cur := A.length + tsegs.length, evs := arr }) ∧
      arr.toList = s.evs.toList ++ evs ∧ SegsEvs s.cs segs evs := by
  intro segs
  induction segs with
  | nil =>
    intro fuel s A tsegs hs ht hc hrun hok hf
    simp only [List.flatMap_nil] at hs
    have := hs.nil_inv; subst this
    have hd : s.toks.drop s.cur = [] := by rw [ht, hc]; simp
    refine ⟨[], s.evs, ?_, by simp, SegsEvs.nil⟩
    cases fuel with
    | zero =>
      unfold stepLoop
      simp only [bind, StateT.bind, restToks_run, hd, List.isEmpty_nil, Bool.not_true, Bool.false_eq_true, if_false,
        List.length_nil, Nat.add_zero, ← hc]
      rfl
    | succ f =>
      unfold stepLoop
      simp only [bind, StateT.bind, restToks_run, hd, List.isEmpty_nil, if_true, List.length_nil, Nat.add_zero, ← hc]
      rfl
  | cons seg rest ih =>
    intro fuel s A tsegs hs ht hc hrun hok hf
    simp only [List.flatMap_cons] at hs
    obtain ⟨tseg, trest, rfl, hseg, hrest⟩ := hs.append_inv
    simp only [segsOK, Bool.and_eq_true] at hok
    obtain ⟨⟨hsok, hfol⟩, hrok⟩ := hok
    -- one step, then the rest
    have key : ∀ (ev : Ev α), tseg ≠ [] →
        stepOne s = ((), { s with cur := A.length + tseg.length, evs := s.evs.push ev }) → SegEv s.cs seg ev →
        ∃ (evs : List (Ev α)) (arr : Array (Ev α)),
          stepLoop fuel s = ((), { s with cur := A.length + (tseg ++ trest).length, evs := arr }) ∧
          arr.toList = s.evs.toList ++ evs ∧ SegsEvs s.cs (seg :: rest) evs := by
      intro ev hne hstep hev
      have hpos : 0 < tseg.length := List.length_pos_iff.mpr hne
      obtain ⟨f, rfl⟩ : ∃ f, fuel = f + 1 := by
        cases tseg with
        | nil => exact absurd rfl hne
        | cons t r => exact ⟨fuel - 1, by simp at hf; omega⟩
      obtain ⟨evs', arr', hl, harr, hall⟩ := ih f ({ s with cur := A.length + tseg.length, evs := s.evs.push ev } : BP α)
        (A ++ tseg) trest hrest (by simp [ht]) (by simp) hrun hrok
        (by simp only [List.length_append] at hf; omega)
      refine ⟨ev :: evs', arr', ?_, by rw [harr]; simp, SegsEvs.cons hev hall⟩
      have hd : (s.toks.drop s.cur).isEmpty = false := by
        rw [ht, hc, List.drop_left]
        cases tseg with
        | nil => exact absurd rfl hne
        | cons t r => rfl
      unfold stepLoop
      simp only [bind, StateT.bind, restToks_run, hd, Bool.false_eq_true, if_false, hstep, hl]
      congr 2
      simp only [List.length_append]; omega
    cases seg with
    | text l =>
      simp only [Seg.ok, Bool.and_eq_true, Bool.not_eq_true', List.isEmpty_eq_false_iff, List.all_eq_true] at hsok
      obtain ⟨⟨hlne, hlm⟩, hlv⟩ := hsok
      simp only [Seg.spell] at hseg
      cases tseg with
      | nil => have := hseg.length; simp at this; exact absurd (List.length_eq_zero_iff.mp this.symm) hlne
      | cons t0 tl =>
        have hnm : ∀ t ∈ t0 :: tl, isMarker t.kind = false := by
          intro t ht'
          obtain ⟨u, hu, hk, -⟩ := hseg.mem ht'
          rw [hk]; simpa using hlm u hu
        have hC : ∀ t, trest.head? = some t → isMarker t.kind = true := by
          intro t ht'
          cases rest with
          | nil => simp only [List.flatMap_nil] at hrest; rw [hrest.nil_inv] at ht'; simp at ht'
          | cons sg rest' =>
            simp only [List.flatMap_cons] at hrest
            obtain ⟨tsg, r', rfl, hsg, -⟩ := hrest.append_inv
            cases sg with
            | text _ => simp [Seg.followOK] at hfol
            | ingredient c p =>
              obtain ⟨tm, r, rfl, hk⟩ := comp_head hsg
              simp at ht'; subst ht'; rw [hk]; rfl
            | cookware c p =>
              obtain ⟨tm, r, rfl, hk⟩ := comp_head hsg
              simp at ht'; subst ht'; rw [hk]; rfl
        have hvis : (t0 :: tl).flatMap vis ≠ [] := by
          rw [hseg.vis_eq]; intro h0; rw [h0] at hlv; simp at hlv
        obtain ⟨t, hstep, htx⟩ := stepOne_text s A t0 tl trest ht hc (hnm t0 (by simp))
          (fun x hx => hnm x (by simp [hx])) hC hvis hrun
        exact key (.text t) (by simp) hstep (by simp only [SegEv]; rw [htx, hseg.vis_eq])
    | ingredient c p =>
      simp only [Seg.ok, Bool.and_eq_true] at hsok
      simp only [Seg.spell] at hseg
      simp only [Seg.followOK] at hfol
      obtain ⟨i, hstep, hm⟩ := stepOne_ingredient c p s hsok.1 hsok.2 A tseg trest hseg ht hc
        (restOK_transfer hrest hfol) hrun
      obtain ⟨tm, r, hts, -⟩ := comp_head hseg
      exact key (.ingredient i) (by rw [hts]; simp) hstep hm
    | cookware c p =>
      simp only [Seg.ok, Bool.and_eq_true] at hsok
      simp only [Seg.spell] at hseg
      simp only [Seg.followOK] at hfol
      obtain ⟨i, hstep, hm⟩ := stepOne_cookware c p s hsok.1 hsok.2 A tseg trest hseg ht hc
        (restOK_transfer hrest hfol) hrun
      obtain ⟨tm, r, hts, -⟩ := comp_head hseg
      exact key (.cookware i) (by rw [hts]; simp) hstep hm

theorem rt_parseStep (segs : List Seg) (s : BP α) (ts : List Tok) (hs : Spells ts (segs.flatMap Seg.spell))
    (ht : s.toks = ts) (hc : s.cur = 0) (hrun : RunAt (baseOff ts) ts) (hok : segsOK s.cs s.ext segs = true) :
    ∃ (evs : List (Ev α)) (arr : Array (Ev α)),
      parseStep s = ((), { s with cur := ts.length, evs := arr }) ∧
      arr.toList = s.evs.toList ++ [.start .step] ++ evs ++ [.stop .step] ∧ SegsEvs s.cs segs evs := by
  subst ht
  obtain ⟨evs, arr, hl, harr, hall⟩ := stepLoop_segs segs s.toks.length
    ({ s with evs := s.evs.push (.start .step) } : BP α) [] s.toks hs (by simp) (by simpa using hc) hrun hok
    (Nat.le_refl _)
  refine ⟨evs, arr.push (.stop .step), ?_, by simp [harr], hall⟩
  unfold parseStep
  have hd : (s.toks.drop s.cur).length = s.toks.length := by rw [hc]; simp
  simp only [bind, StateT.bind, pushEv_run, restToks_run, hd, hl]
  simp

end Cook
