import CookModel.Lemmas.RoundtripComp
/-
  C01, step layer: `parse_step` on a concatenation of text runs and component spellings emits one
  event per segment, in order, and no diagnostic.
-/
set_option linter.unusedSectionVars false
set_option linter.unusedSimpArgs false
set_option linter.unusedVariables false
namespace Cook

variable {α : Type} [Arith α]

/-- a segment of a step: a text run, or a component spelled as in the component layer -/
inductive Seg where
  | text (l : List Tok)
  | ingredient (c : AComp) (p : CPad)
  | cookware (c : AComp) (p : CPad)

def Seg.spell : Seg → List Tok
  | .text l => l
  | .ingredient c p => spellIngredient c p
  | .cookware c p => spellCookware c p

/-- a segment on its own: a text run is non-empty, has no marker `@ # ~` and shows at least one
    character; a component satisfies the side conditions of the component layer -/
def Seg.ok (cs : CharSpec) (e : Ext) : Seg → Bool
  | .text l => !l.isEmpty && l.all (fun t => !isMarker t.kind) && !(l.flatMap vis).isEmpty
  | .ingredient c p => c.wf cs e && p.ok cs
  | .cookware c p => c.wfCookware cs e && p.ok cs

/-- a segment and what follows it: two text runs do not touch (they would be one run); a
    component without note is not followed by `(` -/
def Seg.followOK : Seg → List Seg → Bool
  | .text _, .text _ :: _ => false
  | .text _, _ => true
  | .ingredient c _, rest => restOK c (rest.flatMap Seg.spell)
  | .cookware c _, rest => restOK c (rest.flatMap Seg.spell)

def segsOK (cs : CharSpec) (e : Ext) : List Seg → Bool
  | [] => true
  | seg :: rest => seg.ok cs e && seg.followOK rest && segsOK cs e rest

/-- the event a segment must produce -/
def SegEv (cs : CharSpec) : Seg → Ev α → Prop
  | .text l, .text t => t.text = l.flatMap vis
  | .ingredient c _, .ingredient i => IngrMatches cs c i.val
  | .cookware c _, .cookware i => CwMatches cs c i.val
  | _, _ => False

theorem pushEv_run (ev : Ev α) (s : BP α) : pushEv ev s = ((), { s with evs := s.evs.push ev }) := rfl

theorem text_frags_ne (t : Text) (h : t.text ≠ []) : t.frags.isEmpty = false := by
  cases hf : t.frags with
  | nil => exfalso; apply h; simp [Text.text, hf]
  | cons _ _ => rfl

/-- one iteration of the step loop on a text run -/
theorem stepOne_text (s : BP α) (A : List Tok) (t0 : Tok) (tl C : List Tok) (ht : s.toks = A ++ (t0 :: tl ++ C))
    (hc : s.cur = A.length) (h0 : isMarker t0.kind = false) (hl : ∀ t ∈ tl, isMarker t.kind = false)
    (hC : ∀ t, C.head? = some t → isMarker t.kind = true) (hvis : (t0 :: tl).flatMap vis ≠ [])
    (hrun : RunAt (baseOff s.toks) s.toks) :
    ∃ t : Text, stepOne s = ((), { s with cur := A.length + (t0 :: tl).length, evs := s.evs.push (.text t) }) ∧
      t.text = (t0 :: tl).flatMap vis := by
  have e1 : s.toks = A ++ t0 :: (tl ++ C) := by rw [ht]; simp
  have h1 := peekK_split s A (t0 :: (tl ++ C)) e1 hc
  have h2 := bumpAny_split s A t0 (tl ++ C) e1 hc
  have h3 := consumeWhile_split (fun k => !isMarker k) ({ s with cur := A.length + 1 } : BP α) (A ++ [t0]) tl C
    (by rw [e1]; simp) (by simp) (by intro t ht'; simp [hl t ht']) (by intro t ht'; simp [hC t ht'])
  have hr : RunAt (offAt s.toks A.length) (t0 :: tl) := rt_runAt_mid hrun A (t0 :: tl) C ht
  have hslice : (s.toks.take ((A ++ [t0]).length + tl.length)).drop A.length = t0 :: tl := by
    rw [e1, show A ++ t0 :: (tl ++ C) = (A ++ [t0] ++ tl) ++ C by simp, List.take_left' (by lenarith)]
    rw [show A ++ [t0] ++ tl = A ++ (t0 :: tl) by simp, List.drop_left]
  have hfr := text_frags_ne (buildText (offAt s.toks A.length) (t0 :: tl)) (by rw [buildText_text]; exact hvis)
  refine ⟨buildText (offAt s.toks A.length) (t0 :: tl), ?_, buildText_text _ _⟩
  unfold stepOne
  simp only [bind, StateT.bind, h1, List.head?_cons, Option.map_some]
  have hlen : (A ++ [t0]).length + tl.length = A.length + (t0 :: tl).length := by lenarith
  rw [hlen] at h3 hslice
  cases hk : t0.kind <;> simp [isMarker, hk] at h0 <;>
    simp only [bind, pure, StateT.pure, StateT.bind, currentOffset_run, getCur, get, getThe, MonadStateOf.get, StateT.get,
      hc, h2, h3, hslice, bpText_run hr, hfr, Bool.not_false, if_true, pushEv_run]

theorem comp_head {marker : Tok} {c : AComp} {p : CPad} {ts : List Tok} (hs : Spells ts (spellComp marker c p)) :
    ∃ tm r, ts = tm :: r ∧ tm.kind = marker.kind := by
  obtain ⟨tm, mt, nm, n1, al, tob, Q, tcb, nt, rfl, htmk, -⟩ := rt_comp_decomp hs
  exact ⟨tm, _, rfl, htmk⟩

theorem stepOne_ingredient (c : AComp) (p : CPad) (s : BP α) (hwf : c.wf s.cs s.ext = true) (hp : p.ok s.cs = true)
    (A ts rest : List Tok) (hs : Spells ts (spellIngredient c p)) (ht : s.toks = A ++ (ts ++ rest))
    (hc : s.cur = A.length) (hrest : restOK c rest = true) (hrun : RunAt (baseOff s.toks) s.toks) :
    ∃ i : Loc (PIngredient α),
      stepOne s = ((), { s with cur := A.length + ts.length, evs := s.evs.push (.ingredient i) }) ∧
      IngrMatches s.cs c i.val := by
  obtain ⟨ing, hrunI, hm⟩ := rt_ingredientP c p s hwf hp A ts rest hs ht hc hrest hrun
  obtain ⟨tm, r, hts, htmk⟩ := comp_head hs
  have h1 := peekK_split s A (ts ++ rest) ht hc
  refine ⟨⟨ing, ⟨offAt s.toks A.length, offAt s.toks (A.length + ts.length)⟩⟩, ?_, hm⟩
  unfold stepOne
  simp only [bind, StateT.bind, h1, hts, List.cons_append, List.head?_cons, Option.map_some, htmk, tk,
    withRecover_run, hrunI, Option.isNone_some, Bool.false_eq_true, if_false, pushEv_run]

theorem stepOne_cookware (c : AComp) (p : CPad) (s : BP α) (hwf : c.wfCookware s.cs s.ext = true)
    (hp : p.ok s.cs = true)
    (A ts rest : List Tok) (hs : Spells ts (spellCookware c p)) (ht : s.toks = A ++ (ts ++ rest))
    (hc : s.cur = A.length) (hrest : restOK c rest = true) (hrun : RunAt (baseOff s.toks) s.toks) :
    ∃ i : Loc (PCookware α),
      stepOne s = ((), { s with cur := A.length + ts.length, evs := s.evs.push (.cookware i) }) ∧
      CwMatches s.cs c i.val := by
  obtain ⟨cw, hrunI, hm⟩ := rt_cookwareP c p s hwf hp A ts rest hs ht hc hrest hrun
  obtain ⟨tm, r, hts, htmk⟩ := comp_head hs
  have h1 := peekK_split s A (ts ++ rest) ht hc
  refine ⟨⟨cw, ⟨offAt s.toks A.length, offAt s.toks (A.length + ts.length)⟩⟩, ?_, hm⟩
  unfold stepOne
  simp only [bind, StateT.bind, h1, hts, List.cons_append, List.head?_cons, Option.map_some, htmk, tk,
    withRecover_run, hrunI, Option.isNone_some, Bool.false_eq_true, if_false, pushEv_run]

end Cook
