import CookModel.Lemmas.StdMetaLists
/-
  `parse_common_time_format` (as repaired: checked arithmetic) against `Spec.HhMm`:
      commonTime s = some k  ↔  HhMm s k ∧ k < 2^32.
-/
namespace Cook.SM
open Cook Spec Gen.SM

/-! ### split_inclusive -/

theorem splitIncl_nosep {p : Char → Bool} {a : Str} (ha : NoneSat p a) (hne : a ≠ []) : splitIncl p a = [a] := by
  induction a with
  | nil => exact absurd rfl hne
  | cons d ds ih =>
    have hd : p d = false := ha d (by simp)
    cases ds with
    | nil => simp [splitIncl, hd]
    | cons e es =>
      have := ih (fun c hc => ha c (by simp [hc])) (by simp)
      simp only [splitIncl, hd] at this ⊢
      simp [this]

theorem splitIncl_append_sep {p : Char → Bool} {a : Str} {c : Char} {r : Str} (ha : NoneSat p a)
    (hc : p c = true) : splitIncl p (a ++ c :: r) = (a ++ [c]) :: splitIncl p r := by
  induction a with
  | nil => simp [splitIncl, hc]
  | cons d ds ih =>
    have hd : p d = false := ha d (by simp)
    have := ih (fun e he => ha e (by simp [he]))
    simp only [List.cons_append, splitIncl, hd, this]
    simp

theorem splitIncl_eq_nil {p : Char → Bool} {s : Str} : splitIncl p s = [] ↔ s = [] := by
  cases s with
  | nil => simp [splitIncl]
  | cons c cs =>
    simp only [splitIncl]
    split
    · simp
    · split <;> simp

/-- a text is empty, free of separators, or starts with a separator-free part followed by a separator -/
theorem sep_shape (p : Char → Bool) (s : Str) :
    s = [] ∨ (s ≠ [] ∧ NoneSat p s) ∨ ∃ a c r, s = a ++ c :: r ∧ NoneSat p a ∧ p c = true := by
  have hs : s.takeWhile (fun c => !p c) ++ s.dropWhile (fun c => !p c) = s := List.takeWhile_append_dropWhile
  have ha : NoneSat p (s.takeWhile (fun c => !p c)) := by
    intro c hc
    have := takeWhile_all (p := fun c => !p c) s c hc
    simpa using this
  rcases dropWhile_stops (p := fun c => !p c) s with h | ⟨c, r, h, hc⟩
  · rw [h, List.append_nil] at hs
    by_cases h0 : s = []
    · exact Or.inl h0
    · right; left; exact ⟨h0, hs ▸ ha⟩
  · right; right
    exact ⟨_, c, r, by rw [← h]; exact hs.symm, ha, by simpa using hc⟩

/-! ### the loop on the possible pieces -/

theorem isHM_iff (c : Char) : isHM c = true ↔ c = 'h' ∨ c = 'm' := by
  show (decide (c = H_SEP) || decide (c = M_SEP)) = true ↔ _
  rw [Bool.or_eq_true, decide_eq_true_eq, decide_eq_true_eq]
  exact Iff.rfl

theorem endsWith_snoc (c d : Char) (a : Str) : endsWith c (a ++ [d]) = (d == c) := by
  simp [endsWith]

theorem endsWith_nosep {a : Str} {c : Char} (ha : NoneSat isHM a) (hc : isHM c = true) : endsWith c a = false := by
  cases h : endsWith c a with
  | false => rfl
  | true =>
    obtain ⟨r, rfl⟩ := endsWith_iff.mp h
    have := ha c (by simp)
    rw [hc] at this; exact absurd this (by simp)

theorem commonLoop_nosep {a : Str} (ha : NoneSat isHM a) (hf : Bool) (tot : Nat) (rest : List Str) :
    commonLoop hf tot (a :: rest) = none := by
  have h1 : endsWith H_SEP a = false := endsWith_nosep ha (by decide)
  have h2 : endsWith M_SEP a = false := endsWith_nosep ha (by decide)
  simp [commonLoop, h1, h2]

theorem commonLoop_h_first (a : Str) (tot : Nat) (rest : List Str) :
    commonLoop false tot ((a ++ ['h']) :: rest) =
      match parseU32 a with
      | none => none
      | some h => match checkedMul h 60 with
        | none => none
        | some hm => match checkedAdd tot hm with
          | none => none
          | some t => commonLoop true t rest := by
  have h1 : endsWith H_SEP (a ++ ['h']) = true := by rw [endsWith_snoc]; decide
  simp only [commonLoop, h1, Bool.not_false, Bool.and_self, if_true, List.dropLast_concat, HOUR_MINUTES]
  rfl

theorem commonLoop_h_second (a : Str) (tot : Nat) (rest : List Str) :
    commonLoop true tot ((a ++ ['h']) :: rest) = none := by
  have h2 : endsWith M_SEP (a ++ ['h']) = false := by rw [endsWith_snoc]; decide
  simp [commonLoop, h2]

theorem commonLoop_m (hf : Bool) (a : Str) (tot : Nat) (rest : List Str) :
    commonLoop hf tot ((a ++ ['m']) :: rest) =
      match parseU32 a with
      | none => none
      | some m => match checkedAdd tot m with
        | none => none
        | some t => if rest.isEmpty then some t else none := by
  have h1 : endsWith H_SEP (a ++ ['m']) = false := by rw [endsWith_snoc]; decide
  have h2 : endsWith M_SEP (a ++ ['m']) = true := by rw [endsWith_snoc]; decide
  simp only [commonLoop, h1, h2, Bool.false_and, Bool.false_eq_true, if_false, if_true, List.dropLast_concat]
  rfl

/-! ### arithmetic -/

theorem checkedMul_iff (a b n : Nat) : checkedMul a b = some n ↔ n = a * b ∧ n < u32Bound := by
  have hm : u32Max = 4294967295 := rfl
  have hb : u32Bound = 4294967296 := rfl
  unfold checkedMul
  by_cases h : a * b ≤ u32Max
  · simp only [h, if_true, Option.some.injEq]
    constructor
    · rintro rfl; exact ⟨rfl, by omega⟩
    · rintro ⟨rfl, -⟩; rfl
  · simp only [h, if_false]
    constructor
    · intro h2; exact absurd h2 (by simp)
    · rintro ⟨rfl, h2⟩; omega

theorem checkedAdd_iff (a b n : Nat) : checkedAdd a b = some n ↔ n = a + b ∧ n < u32Bound := by
  have hm : u32Max = 4294967295 := rfl
  have hb : u32Bound = 4294967296 := rfl
  unfold checkedAdd
  by_cases h : a + b ≤ u32Max
  · simp only [h, if_true, Option.some.injEq]
    constructor
    · rintro rfl; exact ⟨rfl, by omega⟩
    · rintro ⟨rfl, -⟩; rfl
  · simp only [h, if_false]
    constructor
    · intro h2; exact absurd h2 (by simp)
    · rintro ⟨rfl, h2⟩; omega

theorem natLit_noHM {a : Str} {x : Nat} (h : NatLit a x) : NoneSat isHM a := by
  obtain ⟨ds, -, hd, hs, -⟩ := h
  have hdig : ∀ c ∈ ds, isHM c = false := by
    intro c hc
    have := hd c hc
    cases hh : isHM c with
    | false => rfl
    | true =>
      rcases (isHM_iff c).mp hh with rfl | rfl <;> (revert this; decide)
  intro c hc
  rcases hs with rfl | rfl
  · exact hdig c hc
  · simp at hc
    rcases hc with rfl | hc
    · decide
    · exact hdig c hc

/-- the value of the `h` part alone, as the loop computes it -/
theorem hours_step (a : Str) (tot : Nat) (t : Nat) :
    (match parseU32 a with
      | none => none
      | some h => match checkedMul h 60 with
        | none => none
        | some hm => checkedAdd tot hm) = some t ↔ ∃ x, NatLit a x ∧ t = tot + 60 * x ∧ t < u32Bound := by
  have hb : u32Bound = 4294967296 := rfl
  constructor
  · intro h
    cases hp : parseU32 a with
    | none => rw [hp] at h; exact absurd h (by simp)
    | some x =>
      rw [hp] at h
      simp only at h
      cases hm : checkedMul x 60 with
      | none => rw [hm] at h; exact absurd h (by simp)
      | some y =>
        rw [hm] at h
        simp only at h
        obtain ⟨rfl, -⟩ := (checkedMul_iff _ _ _).mp hm
        obtain ⟨rfl, hlt⟩ := (checkedAdd_iff _ _ _).mp h
        exact ⟨x, ((parseU32_iff _ _).mp hp).1, by omega, hlt⟩
  · rintro ⟨x, hx, rfl, hlt⟩
    have h1 : parseU32 a = some x := (parseU32_iff _ _).mpr ⟨hx, by omega⟩
    have h2 : checkedMul x 60 = some (x * 60) := (checkedMul_iff _ _ _).mpr ⟨rfl, by omega⟩
    rw [h1]; simp only
    rw [h2]; simp only
    exact (checkedAdd_iff _ _ _).mpr ⟨by omega, hlt⟩

theorem minutes_step (a : Str) (tot : Nat) (t : Nat) :
    (match parseU32 a with
      | none => none
      | some m => checkedAdd tot m) = some t ↔ ∃ y, NatLit a y ∧ t = tot + y ∧ t < u32Bound := by
  have hb : u32Bound = 4294967296 := rfl
  constructor
  · intro h
    cases hp : parseU32 a with
    | none => rw [hp] at h; exact absurd h (by simp)
    | some y =>
      rw [hp] at h
      simp only at h
      obtain ⟨rfl, hlt⟩ := (checkedAdd_iff _ _ _).mp h
      exact ⟨y, ((parseU32_iff _ _).mp hp).1, rfl, hlt⟩
  · rintro ⟨y, hy, rfl, hlt⟩
    have h1 : parseU32 a = some y := (parseU32_iff _ _).mpr ⟨hy, by omega⟩
    rw [h1]; simp only
    exact (checkedAdd_iff _ _ _).mpr ⟨rfl, hlt⟩

/-! ### the three accepted shapes -/

theorem commonTime_h {a : Str} {x : Nat} (ha : NatLit a x) (hlt : 60 * x < u32Bound) :
    commonTime (a ++ ['h']) = some (60 * x) := by
  have hs : splitIncl isHM (a ++ ['h']) = [a ++ ['h']] := by
    have := splitIncl_append_sep (p := isHM) (c := 'h') (r := []) (natLit_noHM ha) (by decide)
    simpa [splitIncl] using this
  have hne : (a ++ ['h']).isEmpty = false := by simp
  unfold commonTime
  rw [hne, hs, commonLoop_h_first]
  have := (hours_step a 0 (60 * x)).mpr ⟨x, ha, by omega, hlt⟩
  cases hp : parseU32 a with
  | none => rw [hp] at this; exact absurd this (by simp)
  | some h =>
    rw [hp] at this; simp only at this ⊢
    cases hm : checkedMul h 60 with
    | none => rw [hm] at this; exact absurd this (by simp)
    | some y =>
      rw [hm] at this; simp only at this ⊢
      rw [this]; simp [commonLoop]

theorem commonTime_m {b : Str} {y : Nat} (hb : NatLit b y) (hlt : y < u32Bound) :
    commonTime (b ++ ['m']) = some y := by
  have hs : splitIncl isHM (b ++ ['m']) = [b ++ ['m']] := by
    have := splitIncl_append_sep (p := isHM) (c := 'm') (r := []) (natLit_noHM hb) (by decide)
    simpa [splitIncl] using this
  have hne : (b ++ ['m']).isEmpty = false := by simp
  unfold commonTime
  rw [hne, hs, commonLoop_m]
  have := (minutes_step b 0 y).mpr ⟨y, hb, by omega, hlt⟩
  cases hp : parseU32 b with
  | none => rw [hp] at this; exact absurd this (by simp)
  | some m =>
    rw [hp] at this; simp only at this ⊢
    rw [this]; simp

theorem commonTime_hm {a b : Str} {x y : Nat} (ha : NatLit a x) (hb : NatLit b y) (hlt : 60 * x + y < u32Bound) :
    commonTime (a ++ ['h'] ++ b ++ ['m']) = some (60 * x + y) := by
  have hs : splitIncl isHM (a ++ ['h'] ++ b ++ ['m']) = [a ++ ['h'], b ++ ['m']] := by
    have h1 := splitIncl_append_sep (p := isHM) (c := 'h') (r := b ++ ['m']) (natLit_noHM ha) (by decide)
    have h2 := splitIncl_append_sep (p := isHM) (c := 'm') (r := []) (natLit_noHM hb) (by decide)
    have : a ++ ['h'] ++ b ++ ['m'] = a ++ 'h' :: (b ++ ['m']) := by simp
    rw [this, h1, h2]; simp [splitIncl]
  have hne : (a ++ ['h'] ++ b ++ ['m']).isEmpty = false := by simp
  unfold commonTime
  rw [hne, hs, commonLoop_h_first]
  have h1 := (hours_step a 0 (60 * x)).mpr ⟨x, ha, by omega, by omega⟩
  have h2 := (minutes_step b (60 * x) (60 * x + y)).mpr ⟨y, hb, rfl, hlt⟩
  cases hp : parseU32 a with
  | none => rw [hp] at h1; exact absurd h1 (by simp)
  | some h =>
    rw [hp] at h1; simp only at h1 ⊢
    cases hm : checkedMul h 60 with
    | none => rw [hm] at h1; exact absurd h1 (by simp)
    | some z =>
      rw [hm] at h1; simp only at h1 ⊢
      rw [h1]; simp only
      rw [commonLoop_m]
      cases hq : parseU32 b with
      | none => rw [hq] at h2; exact absurd h2 (by simp)
      | some m =>
        rw [hq] at h2; simp only at h2 ⊢
        rw [h2]; simp

theorem commonTime_complete {s : Str} {k : Nat} (h : HhMm s k) (hlt : k < u32Bound) : commonTime s = some k := by
  cases h with
  | h ha => exact commonTime_h ha hlt
  | m hb => exact commonTime_m hb hlt
  | hm ha hb => exact commonTime_hm ha hb hlt

/-- the second piece, after an `h` piece -/
theorem second_piece {r1 : Str} {t k : Nat} (h : commonLoop true t (splitIncl isHM r1) = some k) :
    (r1 = [] ∧ k = t) ∨ ∃ b y, r1 = b ++ ['m'] ∧ NatLit b y ∧ k = t + y ∧ k < u32Bound := by
  rcases sep_shape isHM r1 with rfl | ⟨hne, hns⟩ | ⟨a2, c2, r2, rfl, ha2, hc2⟩
  · left; simp [splitIncl, commonLoop] at h; exact ⟨rfl, h.symm⟩
  · rw [splitIncl_nosep hns hne, commonLoop_nosep hns] at h; exact absurd h (by simp)
  · rw [splitIncl_append_sep ha2 hc2] at h
    rcases (isHM_iff c2).mp hc2 with rfl | rfl
    · rw [commonLoop_h_second] at h; exact absurd h (by simp)
    · rw [commonLoop_m] at h
      right
      cases hp : parseU32 a2 with
      | none => rw [hp] at h; exact absurd h (by simp)
      | some m =>
        cases hca : checkedAdd t m with
        | none => rw [hp] at h; simp only [hca] at h; exact absurd h (by simp)
        | some t' =>
          have hstep := (minutes_step a2 t t').mp (by rw [hp]; exact hca)
          rw [hp] at h; simp only [hca] at h
          split at h
          · rename_i hemp
            simp only [Option.some.injEq] at h
            subst h
            have hr2 : r2 = [] := splitIncl_eq_nil.mp (by simpa using hemp)
            subst hr2
            obtain ⟨y, hy, rfl, hlt⟩ := hstep
            exact ⟨a2, y, rfl, hy, rfl, hlt⟩
          · exact absurd h (by simp)

theorem commonTime_sound {s : Str} {k : Nat} (h : commonTime s = some k) : HhMm s k ∧ k < u32Bound := by
  unfold commonTime at h
  split at h
  · exact absurd h (by simp)
  · rename_i hne
    rcases sep_shape isHM s with rfl | ⟨-, hns⟩ | ⟨a, c, r, rfl, ha, hc⟩
    · simp at hne
    · rw [splitIncl_nosep hns (by intro h0; subst h0; simp at hne), commonLoop_nosep hns] at h
      exact absurd h (by simp)
    · rw [splitIncl_append_sep ha hc] at h
      rcases (isHM_iff c).mp hc with rfl | rfl
      · rw [commonLoop_h_first] at h
        cases hp : parseU32 a with
        | none => rw [hp] at h; exact absurd h (by simp)
        | some x =>
          cases hm : checkedMul x 60 with
          | none => rw [hp] at h; simp only [hm] at h; exact absurd h (by simp)
          | some z =>
            cases hca : checkedAdd 0 z with
            | none => rw [hp] at h; simp only [hm, hca] at h; exact absurd h (by simp)
            | some t =>
              have hstep := (hours_step a 0 t).mp (by rw [hp]; simp only [hm]; exact hca)
              rw [hp] at h; simp only [hm, hca] at h
              obtain ⟨x', hx', ht, hlt⟩ := hstep
              rcases second_piece h with ⟨rfl, rfl⟩ | ⟨b, y, rfl, hb, rfl, hlt2⟩
              · subst ht
                refine ⟨?_, hlt⟩
                have := HhMm.h hx'
                simpa using this
              · subst ht
                refine ⟨?_, hlt2⟩
                have := HhMm.hm hx' hb
                simpa using this
      · rw [commonLoop_m] at h
        cases hp : parseU32 a with
        | none => rw [hp] at h; exact absurd h (by simp)
        | some m =>
          cases hca : checkedAdd 0 m with
          | none => rw [hp] at h; simp only [hca] at h; exact absurd h (by simp)
          | some t =>
            have hstep := (minutes_step a 0 t).mp (by rw [hp]; exact hca)
            rw [hp] at h; simp only [hca] at h
            split at h
            · rename_i hemp
              simp only [Option.some.injEq] at h
              subst h
              have hr : r = [] := splitIncl_eq_nil.mp (by simpa using hemp)
              subst hr
              obtain ⟨y, hy, rfl, hlt⟩ := hstep
              refine ⟨?_, hlt⟩
              have := HhMm.m hy
              simpa using this
            · exact absurd h (by simp)

/-- `parse_common_time_format` reads exactly the compact forms whose value a `u32` holds -/
theorem commonTime_iff (s : Str) (k : Nat) : commonTime s = some k ↔ HhMm s k ∧ k < u32Bound :=
  ⟨commonTime_sound, fun h => commonTime_complete h.1 h.2⟩

/-- the compact reading of a text is unique -/
theorem hhMm_unique {s : Str} {k k' : Nat} (h : HhMm s k) (h' : HhMm s k') : k = k' := by
  -- through the unbounded variant of the loop: both are the value computed on the same pieces
  have key : ∀ {s k}, HhMm s k → ∀ a c r, s = a ++ c :: r → NoneSat isHM a → isHM c = true →
      (c = 'h' ∧ ∃ x, NatLit a x ∧ ((r = [] ∧ k = 60 * x) ∨ ∃ b y, r = b ++ ['m'] ∧ NatLit b y ∧ k = 60 * x + y))
      ∨ (c = 'm' ∧ r = [] ∧ NatLit a k) := by
    intro s k h a c r hs ha hc
    have split_eq : ∀ {a a' : Str} {c c' : Char} {r r' : Str}, a ++ c :: r = a' ++ c' :: r' → NoneSat isHM a →
        NoneSat isHM a' → isHM c = true → isHM c' = true → a = a' ∧ c = c' ∧ r = r' := by
      intro a a' c c' r r' he ha ha' hc hc'
      have h1 : splitOnce isHM (a ++ c :: r) = some (a, r) := splitOnce_some.mpr ⟨c, rfl, hc, ha⟩
      have h2 : splitOnce isHM (a' ++ c' :: r') = some (a', r') := splitOnce_some.mpr ⟨c', rfl, hc', ha'⟩
      rw [he, h2] at h1
      simp at h1
      obtain ⟨rfl, rfl⟩ := h1
      simp at he
      exact ⟨rfl, he, rfl⟩
    cases h with
    | h hx =>
      rename_i a0 x
      have := split_eq (a := a0) (c := 'h') (r := []) (by simpa using hs) (natLit_noHM hx) ha (by decide) hc
      obtain ⟨rfl, rfl, rfl⟩ := this
      exact Or.inl ⟨rfl, x, hx, Or.inl ⟨rfl, rfl⟩⟩
    | m hy =>
      rename_i b0
      have := split_eq (a := b0) (c := 'm') (r := []) (by simpa using hs) (natLit_noHM hy) ha (by decide) hc
      obtain ⟨rfl, rfl, rfl⟩ := this
      exact Or.inr ⟨rfl, rfl, hy⟩
    | hm hx hy =>
      rename_i a0 b0 x y
      have := split_eq (a := a0) (c := 'h') (r := b0 ++ ['m']) (by simpa using hs) (natLit_noHM hx) ha (by decide) hc
      obtain ⟨rfl, rfl, rfl⟩ := this
      exact Or.inl ⟨rfl, x, hx, Or.inr ⟨b0, y, rfl, hy, rfl⟩⟩
  have natLit_unique : ∀ {a : Str} {x x' : Nat}, NatLit a x → NatLit a x' → x = x' := by
    intro a x x' h1 h2
    have e1 := (parseNatLit_iff a x).mpr h1
    have e2 := (parseNatLit_iff a x').mpr h2
    rw [e1] at e2; simpa using e2
  -- decompose s once, from h
  have hdecomp : ∃ a c r, s = a ++ c :: r ∧ NoneSat isHM a ∧ isHM c = true := by
    cases h with
    | h hx => exact ⟨_, 'h', [], rfl, natLit_noHM hx, by decide⟩
    | m hy => exact ⟨_, 'm', [], rfl, natLit_noHM hy, by decide⟩
    | hm hx hy => rename_i a0 b0 x0 y0; exact ⟨a0, 'h', b0 ++ ['m'], by simp, natLit_noHM hx, by decide⟩
  obtain ⟨a, c, r, hs, ha, hc⟩ := hdecomp
  rcases key h a c r hs ha hc with ⟨rfl, x, hx, hk⟩ | ⟨rfl, rfl, hk⟩
  · rcases key h' a 'h' r hs ha hc with ⟨-, x', hx', hk'⟩ | ⟨hcm, -, -⟩
    · have := natLit_unique hx hx'; subst this
      rcases hk with ⟨rfl, rfl⟩ | ⟨b, y, rfl, hb, rfl⟩
      · rcases hk' with ⟨-, rfl⟩ | ⟨b', y', hr, -, -⟩
        · rfl
        · simp at hr
      · rcases hk' with ⟨hr, -⟩ | ⟨b', y', hr, hb', rfl⟩
        · simp at hr
        · have : b = b' := by simpa using hr
          subst this
          have := natLit_unique hb hb'; subst this; rfl
    · exact absurd hcm (by decide)
  · rcases key h' a 'm' [] hs ha hc with ⟨hcm, -⟩ | ⟨-, -, hk'⟩
    · exact absurd hcm (by decide)
    · exact natLit_unique hk hk'

end Cook.SM
