import CookModel.Lemmas.ScaleMore
import CookModel.Lemmas.CollectorShape
/-
  The whole-run invariant behind "a parsed recipe never scales to `Error`" (audit of C08): in every
  state of the analysis model, a `Linear` ingredient value is not text and the values of cookware and
  timers are `Fixed`.  Names carry the prefix `sa_`.
-/
set_option linter.unusedSectionVars false
set_option linter.unusedSimpArgs false
set_option linter.unusedVariables false
namespace Cook
variable {α : Type} [Arith α]

theorem sa_mkScalable_linear {b l : Bool} {v w : Value α} (h : mkScalable b l v = .linear w) :
    w.isText = false := by
  unfold mkScalable at h
  split at h
  · rename_i hc
    simp only [Bool.and_eq_true, Bool.not_eq_true'] at hc
    cases h
    exact hc.1.2
  · cases h

theorem sa_quantityOf_value (env : Env) (q : Loc (PQuantity α)) (b : Bool) (s : Col α) :
    (quantityOf env q b s).1.value =
      mkScalable b q.val.value.lock.isSome q.val.value.value.val := by
  have : (quantityOf env q b s).1.value = (valueOf env q.val.value b s).1 := by
    simp only [quantityOf, bind, StateT.bind, pure, StateT.pure]
    cases valueOf env q.val.value b s; rfl
  rw [this, scm_valueOf_eq]

theorem sa_optQuantityOf_ok (env : Env) (q : Option (Loc (PQuantity α))) (s : Col α)
    (qq : Quantity (ScalableValue α)) (h : (optQuantityOf env q true s).1 = some qq) (w : Value α)
    (hw : qq.value = .linear w) : w.isText = false := by
  cases q with
  | none => simp [optQuantityOf, pure, StateT.pure] at h
  | some q =>
    have : (optQuantityOf env (some q) true s).1 = some (quantityOf env q true s).1 := by
      simp only [optQuantityOf, bind, StateT.bind, pure, StateT.pure]
      cases quantityOf env q true s; rfl
    rw [this] at h
    cases h
    rw [sa_quantityOf_value] at hw
    exact sa_mkScalable_linear hw

theorem sa_optValueOf_fixed (env : Env) (q : Option (Loc (PQValue α))) (s : Col α)
    (sv : ScalableValue α) (h : (optValueOf env q s).1 = some sv) : ∃ v, sv = .fixed v := by
  cases q with
  | none => simp [optValueOf, pure, StateT.pure] at h
  | some q =>
    have : (optValueOf env (some q) s).1 = some (valueOf env q.val false s).1 := by
      simp only [optValueOf, bind, StateT.bind, pure, StateT.pure]
      cases valueOf env q.val false s; rfl
    rw [this, scm_valueOf_eq, scm_mkScalable_not_ingredient] at h
    cases h
    exact ⟨_, rfl⟩

theorem sa_timerQuantity_fixed (env : Env) (tq : Option (Loc (PQuantity α))) (s : Col α)
    (r : Quantity (ScalableValue α)) (h : (timerQuantity env tq s).1 = some r) :
    ∃ v, r.value = .fixed v := by
  cases tq with
  | none => simp [timerQuantity, pure, StateT.pure] at h
  | some q =>
    have : (timerQuantity env (some q) s).1 = some (quantityOf env q false s).1 := by
      simp only [timerQuantity, A_bind, A_pure]
    rw [this] at h
    cases h
    rw [sa_quantityOf_value, scm_mkScalable_not_ingredient]
    exact ⟨_, rfl⟩

/-! ### the handlers keep the quantity they were given -/

theorem sa_ingrRegular_quantity (env : Env) (input : Str) (li : Loc (PIngredient α))
    (igr0 : Ingredient (ScalableValue α)) (s : Col α) :
    (ingrRegular env input li igr0 s).1.quantity = igr0.quantity := by
  unfold ingrRegular
  simp +instances only [A_bind, A_get]
  generalize resolveReference (α := α) env "ingredient"
    (Modifiers.HIDDEN ||| Modifiers.OPT ||| Modifiers.RECIPE) (s.ingredients.toList.map (fun x => (x.name, x.modifiers)))
    igr0.name igr0.modifiers li.span li.val.modifiers.span s = rr
  cases ho : rr.1.2 with
  | none => simp only [A_pure]
  | some o =>
    simp +instances only [A_bind, A_get]
    cases rr.snd.ingredients[o.refTo]? <;> cases rr.snd.locIngr[o.refTo]? <;> rfl

theorem sa_ingrInter_quantity (i : PIngredient α) (igr : Ingredient (ScalableValue α))
    (d : Loc InterData) (s : Col α) : (ingrInter i igr d s).1.quantity = igr.quantity := by
  rcases ingrInter_val i igr d s with h | ⟨rel, _, h⟩ <;> rw [h]

theorem sa_ingrBuild_quantity (env : Env) (input : Str) (li : Loc (PIngredient α))
    (igr0 : Ingredient (ScalableValue α)) (s : Col α) (ings : Array (Ingredient (ScalableValue α)))
    (igr : Ingredient (ScalableValue α))
    (h : (ingrBuild env input li igr0 s).2.ingredients = ings.push igr) :
    igr.quantity = igr0.quantity := by
  unfold ingrBuild at h
  simp +instances only [A_bind, A_get, A_pure, A_modify] at h
  cases hi : li.val.inter with
  | some d =>
    simp only [hi] at h
    obtain ⟨h1, _⟩ := Array.push_eq_push.mp h
    rw [← h1]
    exact sa_ingrInter_quantity li.val igr0 d s
  | none =>
    simp only [hi] at h
    obtain ⟨h1, _⟩ := Array.push_eq_push.mp h
    rw [← h1]
    exact sa_ingrRegular_quantity env input li igr0 s

theorem sa_ingredientA_quantity (env : Env) (input : Str) (li : Loc (PIngredient α)) (s : Col α)
    (ings : Array (Ingredient (ScalableValue α))) (igr : Ingredient (ScalableValue α))
    (h : (ingredientA env input li s).2.ingredients = ings.push igr) :
    igr.quantity = (optQuantityOf env li.val.quantity true s).1 := by
  unfold ingredientA at h
  simp +instances only [A_bind, A_get] at h
  exact sa_ingrBuild_quantity env input li _ _ ings igr h

theorem sa_cwResolve_quantity (env : Env) (input : Str) (lc : Loc (PCookware α))
    (cw0 : Cookware (ScalableValue α)) (s : Col α) :
    (cwResolve env input lc cw0 s).1.quantity = cw0.quantity := by
  unfold cwResolve
  simp +instances only [A_bind, A_get]
  generalize resolveReference (α := α) env "cookware item"
    (Modifiers.HIDDEN ||| Modifiers.OPT) (s.cookware.toList.map (fun x => (x.name, x.modifiers)))
    cw0.name cw0.modifiers lc.span lc.val.modifiers.span s = rr
  cases ho : rr.1.2 with
  | none => simp only [A_pure]
  | some o =>
    simp +instances only [A_bind, A_get]
    cases rr.snd.cookware[o.refTo]? <;> cases rr.snd.locCw[o.refTo]? <;> rfl

theorem sa_cwBuild_quantity (env : Env) (input : Str) (lc : Loc (PCookware α))
    (cw0 : Cookware (ScalableValue α)) (s : Col α) (cws : Array (Cookware (ScalableValue α)))
    (cw : Cookware (ScalableValue α)) (h : (cwBuild env input lc cw0 s).2.cookware = cws.push cw) :
    cw.quantity = cw0.quantity := by
  unfold cwBuild at h
  simp +instances only [A_bind, A_get, A_pure, A_modify] at h
  obtain ⟨h1, _⟩ := Array.push_eq_push.mp h
  rw [← h1]
  exact sa_cwResolve_quantity env input lc cw0 s

theorem sa_cookwareA_quantity (env : Env) (input : Str) (lc : Loc (PCookware α)) (s : Col α)
    (cws : Array (Cookware (ScalableValue α))) (cw : Cookware (ScalableValue α))
    (h : (cookwareA env input lc s).2.cookware = cws.push cw) :
    cw.quantity = (optValueOf env lc.val.quantity s).1 := by
  unfold cookwareA at h
  simp +instances only [A_bind, A_get] at h
  exact sa_cwBuild_quantity env input lc _ _ cws cw h

theorem sa_timerA_quantity (env : Env) (lt : Loc (PTimer α)) (s : Col α) (tm : Timer (ScalableValue α))
    (h : (timerA env lt s).2.timers = s.timers.push tm) :
    tm.quantity = (timerQuantity env lt.val.quantity s).1 := by
  unfold timerA at h
  simp +instances only [A_bind, A_get, A_pure, A_modify] at h
  obtain ⟨d0, p0, h0⟩ := (timerQuantity_diagOnly env lt.val.quantity).out s
  rw [h0] at h
  obtain ⟨h1, _⟩ := Array.push_eq_push.mp h
  rw [← h1]

/-! ### a frame for the timer table -/

/-- the piece `m` leaves the three component tables alone -/
structure TFs {β : Type} (m : A α β) : Prop where
  out : ∀ s, (m s).2.ingredients = s.ingredients ∧ (m s).2.cookware = s.cookware ∧ (m s).2.timers = s.timers

theorem TFs.pure {β : Type} (a : β) : TFs (α := α) (Pure.pure a : A α β) := ⟨fun s => ⟨rfl, rfl, rfl⟩⟩
theorem TFs.get : TFs (α := α) (get : A α (Col α)) := ⟨fun s => ⟨rfl, rfl, rfl⟩⟩

theorem TFs.bind {β γ : Type} {m : A α β} {f : β → A α γ} (hm : TFs m) (hf : ∀ a, TFs (f a)) :
    TFs (m >>= f) := by
  constructor
  intro s
  obtain ⟨a1, a2, a3⟩ := hm.out s
  obtain ⟨b1, b2, b3⟩ := (hf (m s).1).out (m s).2
  exact ⟨b1.trans a1, b2.trans a2, b3.trans a3⟩

theorem TFs.ite {β : Type} {c : Prop} [Decidable c] {a b : A α β} (ha : TFs a) (hb : TFs b) :
    TFs (if c then a else b) := by
  split <;> assumption

theorem TFs.modify (f : Col α → Col α)
    (hf : ∀ s, (f s).ingredients = s.ingredients ∧ (f s).cookware = s.cookware ∧ (f s).timers = s.timers) :
    TFs (modify f : A α PUnit) := ⟨hf⟩

theorem TFs.apanic (site : String) : TFs (α := α) (apanic site) := by
  unfold Cook.apanic
  refine TFs.modify _ (fun s => ?_)
  split <;> exact ⟨rfl, rfl, rfl⟩

theorem TFs.aerr (k : String) (l : List Span) : TFs (α := α) (aerr k l) := ⟨fun s => ⟨rfl, rfl, rfl⟩⟩
theorem TFs.awarn (k : String) (l : List Span) : TFs (α := α) (awarn k l) := ⟨fun s => ⟨rfl, rfl, rfl⟩⟩

theorem TFs.of_coreOnly {β : Type} {m : A α β} (h : CoreOnly m) : TFs m := by
  constructor
  intro s
  obtain ⟨_, _, h3, h4, h5, _⟩ := h.out s
  exact ⟨h3, h4, h5⟩

syntax "tfs_leaf" : tactic
macro_rules | `(tactic| tfs_leaf) => `(tactic| first
  | with_reducible exact TFs.pure _
  | with_reducible exact TFs.get
  | with_reducible exact TFs.apanic _
  | with_reducible exact TFs.aerr _ _
  | with_reducible exact TFs.awarn _ _
  | ((with_reducible apply TFs.modify); intro s; exact ⟨rfl, rfl, rfl⟩)
  | assumption)

macro "tf_ok" : tactic => `(tactic|
  repeat' (first
    | tfs_leaf
    | with_reducible apply TFs.bind
    | with_reducible apply TFs.ite
    | intro _
    | (show TFs _; dsimp only; show TFs _)
    | (show TFs _; split)))

theorem sa_inStepTextStep_tf (env : Env) (t : Text) (items : List Item) :
    TFs (inStepTextStep (α := α) env t items) := by
  unfold inStepTextStep; tf_ok
macro_rules | `(tactic| tfs_leaf) => `(tactic| with_reducible exact sa_inStepTextStep_tf ..)

theorem sa_inStepText_tf (env : Env) (t : Text) : TFs (inStepText (α := α) env t) := by
  unfold inStepText; tf_ok

theorem sa_endBlock_tf (kind : BlockKind) : TFs (endBlock (α := α) kind) := by
  unfold endBlock endBlockContent pushContent; tf_ok

/-! ### the invariant -/

/-- every `Linear` ingredient value is a number or a range; cookware and timer values are `Fixed` -/
structure QtyInv (s : Col α) : Prop where
  ingr : ∀ (k : Nat) (ig : Ingredient (ScalableValue α)), s.ingredients[k]? = some ig →
    ∀ q, ig.quantity = some q → ∀ v, q.value = .linear v → v.isText = false
  cw : ∀ (k : Nat) (c : Cookware (ScalableValue α)), s.cookware[k]? = some c →
    ∀ sv, c.quantity = some sv → ∃ v, sv = .fixed v
  tm : ∀ (k : Nat) (t : Timer (ScalableValue α)), s.timers[k]? = some t →
    ∀ q, t.quantity = some q → ∃ v, q.value = .fixed v

theorem QtyInv.init : QtyInv (α := α) {} :=
  ⟨fun k ig h => by simp at h, fun k c h => by simp at h, fun k t h => by simp at h⟩

theorem QtyInv.congr {s s' : Col α} (h : QtyInv s) (hi : s'.ingredients = s.ingredients)
    (hc : s'.cookware = s.cookware) (ht : s'.timers = s.timers) : QtyInv s' :=
  ⟨by rw [hi]; exact h.ingr, by rw [hc]; exact h.cw, by rw [ht]; exact h.tm⟩

theorem QtyInv.of_tf {β : Type} {m : A α β} (hf : TFs m) {s : Col α} (h : QtyInv s) : QtyInv (m s).2 :=
  h.congr (hf.out s).1 (hf.out s).2.1 (hf.out s).2.2

/-- the back-link update of `ingredientA` keeps the quantities of the old entries -/
theorem sa_ingrStep_keeps {env : Env} {s : Col α} {ings : Array (Ingredient (ScalableValue α))}
    {igr : Ingredient (ScalableValue α)} (hstep : IngrStep env s ings igr) (h : QtyInv s)
    (k : Nat) (ig : Ingredient (ScalableValue α)) (hk : ings[k]? = some ig) :
    ∀ q, ig.quantity = some q → ∀ v, q.value = .linear v → v.isText = false := by
  rcases hstep with ⟨he, _⟩ | ⟨he, _⟩ | ⟨t, defn, rf, b, h1, h2, h3, h4, h5, h6, he⟩
  · rw [he] at hk; exact h.ingr k ig hk
  · rw [he] at hk; exact h.ingr k ig hk
  · rw [he, Array.getElem?_setIfInBounds] at hk
    split at hk
    · split at hk
      · cases hk; exact h.ingr t defn h1
      · cases hk
    · exact h.ingr k ig hk

theorem sa_cwStep_keeps {env : Env} {s : Col α} {cws : Array (Cookware (ScalableValue α))}
    {cw : Cookware (ScalableValue α)} (hstep : CwStep env s cws cw) (h : QtyInv s)
    (k : Nat) (c : Cookware (ScalableValue α)) (hk : cws[k]? = some c) :
    ∀ sv, c.quantity = some sv → ∃ v, sv = .fixed v := by
  rcases hstep with ⟨he, _⟩ | ⟨t, defn, rf, b, h1, h2, h3, h4, h5, h6, he⟩
  · rw [he] at hk; exact h.cw k c hk
  · rw [he, Array.getElem?_setIfInBounds] at hk
    split at hk
    · split at hk
      · cases hk; exact h.cw t defn h1
      · cases hk
    · exact h.cw k c hk

theorem sa_inStepComponent_qty (env : Env) (input : Str) (ev : Ev α) (items : List Item) (s : Col α)
    (hi : Inv env s) (hq : QtyInv s) (hb : s.block = some (.step items)) (hev : EvOK ev) :
    QtyInv (inStepComponent env input ev s).2 := by
  unfold inStepComponent
  have hpanic : QtyInv (apanic "Unexpected event in step" s).2 := QtyInv.of_tf (TFs.apanic _) hq
  cases ev with
  | ingredient li =>
    simp only [A_bind]
    obtain ⟨dg, p, ings, igr, h1, h2, h3⟩ := ingredientA_spec env input li s hi.locI hi.itab.nonREF_def hev
    have hblk : (ingredientA env input li s).2.block = s.block := by rw [h1]
    have hqty := sa_ingredientA_quantity env input li s ings igr (by rw [h1])
    rw [pushItem_step' _ items s (ingredientA env input li s).2 hblk hb]
    rw [h1]
    simp only []
    refine ⟨?_, hq.cw, hq.tm⟩
    intro k ig hk
    rw [Array.getElem?_push] at hk
    split at hk
    · cases hk
      intro q hqq v hv
      rw [hqty] at hqq
      exact sa_optQuantityOf_ok env _ s q hqq v hv
    · exact sa_ingrStep_keeps h3 hq k ig hk
  | cookware lc =>
    simp only [A_bind]
    obtain ⟨dg, p, cws, cw, h1, h2, h3⟩ := cookwareA_spec env input lc s hi.locC hi.ctab.nonREF_def
    have hblk : (cookwareA env input lc s).2.block = s.block := by rw [h1]
    have hqty := sa_cookwareA_quantity env input lc s cws cw (by rw [h1])
    rw [pushItem_step' _ items s (cookwareA env input lc s).2 hblk hb]
    rw [h1]
    simp only []
    refine ⟨hq.ingr, ?_, hq.tm⟩
    intro k c hk
    rw [Array.getElem?_push] at hk
    split at hk
    · cases hk
      intro sv hsv
      rw [hqty] at hsv
      exact sa_optValueOf_fixed env _ s sv hsv
    · exact sa_cwStep_keeps h3 hq k c hk
  | timer lt =>
    simp only [A_bind]
    obtain ⟨dg, p, tm, h1, h2, h3⟩ := timerA_spec env lt s
    have hblk : (timerA env lt s).2.block = s.block := by rw [h1]
    have hqty := sa_timerA_quantity env lt s tm (by rw [h1])
    rw [pushItem_step' _ items s (timerA env lt s).2 hblk hb]
    rw [h1]
    simp only []
    refine ⟨hq.ingr, hq.cw, ?_⟩
    intro k t hk
    rw [Array.getElem?_push] at hk
    split at hk
    · cases hk
      intro q hqq
      rw [hqty] at hqq
      exact sa_timerQuantity_fixed env _ s q hqq
    · exact hq.tm k t hk
  | frontMatter _ => exact hpanic
  | metadata _ _ => exact hpanic
  | «section» _ => exact hpanic
  | start _ => exact hpanic
  | stop _ => exact hpanic
  | text _ => exact hpanic
  | error _ => exact hpanic
  | warning _ => exact hpanic

theorem sa_inBlockComponent_qty (env : Env) (input : Str) (ev : Ev α) (s : Col α) (hi : Inv env s)
    (hq : QtyInv s) (hev : EvOK ev) : QtyInv (inBlockComponent env input ev s).2 := by
  unfold inBlockComponent
  simp +instances only [A_bind, A_get]
  cases hb : s.block with
  | none => simp only []; exact QtyInv.of_tf (TFs.apanic _) hq
  | some buf =>
    cases buf with
    | step items => simp only []; exact sa_inStepComponent_qty env input ev items s hi hq hb hev
    | text b => simp only []; exact QtyInv.of_tf (TFs.of_coreOnly (inTextComponent_coreOnly input ev b)) hq

theorem sa_processEvent_qty (env : Env) (input : Str) (ev : Ev α) (s : Col α) (hi : Inv env s)
    (hq : QtyInv s) (hev : EvOK ev) : QtyInv (processEvent env input ev s).2 := by
  cases ev with
  | frontMatter t => simp only [processEvent, A_modify]; exact hq.congr rfl rfl rfl
  | metadata k v =>
    simp only [processEvent]; exact QtyInv.of_tf (TFs.of_coreOnly (metadataA_coreOnly env k v)) hq
  | «section» name => simp only [processEvent, A_modify]; exact hq.congr rfl rfl rfl
  | start kind => simp only [processEvent, A_modify]; exact hq.congr rfl rfl rfl
  | stop kind => simp only [processEvent]; exact QtyInv.of_tf (sa_endBlock_tf kind) hq
  | text t => simp only [processEvent]; exact QtyInv.of_tf (sa_inStepText_tf env t) hq
  | ingredient i => simp only [processEvent]; exact sa_inBlockComponent_qty env input _ s hi hq hev
  | cookware c => simp only [processEvent]; exact sa_inBlockComponent_qty env input _ s hi hq hev
  | timer t => simp only [processEvent]; exact sa_inBlockComponent_qty env input _ s hi hq hev
  | error d => exact hq
  | warning d => simp only [processEvent, A_modify]; exact hq.congr rfl rfl rfl

/-- the returned collector satisfies `QtyInv` -/
theorem sa_parseEventsLoop_qty (env : Env) (input : Str) (evs : List (Ev α)) (s c : Col α)
    (hi : Inv env s) (hq : QtyInv s) (hev : ∀ ev ∈ evs, EvOK ev)
    (hc : (parseEventsLoop env input evs s).output = some c) : QtyInv c := by
  induction evs generalizing s with
  | nil =>
    simp only [parseEventsLoop, Option.some.injEq] at hc
    subst hc
    refine ⟨?_, ?_, ?_⟩
    · split <;> split <;> exact hq.ingr
    · split <;> split <;> exact hq.cw
    · split <;> split <;> exact hq.tm
  | cons ev rest ih =>
    by_cases he : ∃ d0, ev = .error d0
    · obtain ⟨d0, rfl⟩ := he
      simp only [parseEventsLoop] at hc
      cases hc
    · rw [parseEventsLoop_cons_nonerror env input ev rest s he] at hc
      exact ih _ (processEvent_inv env input ev s hi (hev ev List.mem_cons_self))
        (sa_processEvent_qty env input ev s hi hq (hev ev List.mem_cons_self))
        (fun e he' => hev e (List.mem_cons_of_mem _ he')) hc

end Cook
