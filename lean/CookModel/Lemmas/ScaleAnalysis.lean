import CookModel.Lemmas.ScaleMore
import CookModel.Lemmas.CollectorShape
/-
  The whole-run invariant behind "a parsed recipe never scales to `Error`" (audit of C08): in every
  state of the analysis model, a `Linear` ingredient value is not text and the values of cookware and
  timers are `Fixed`.  Names carry the prefix `sa_`.
-/
set_option linter.unusedSectionVars false
set_option linter.unusedSimpArgs false
set_option linter.unusedVariables false
namespace Cook
variable {α : Type} [Arith α]

theorem sa_mkScalable_linear {b l : Bool} {v w : Value α} (h : mkScalable b l v = .linear w) :
    w.isText = false := by
  unfold mkScalable at h
  split at h
  · rename_i hc
    simp only [Bool.and_eq_true, Bool.not_eq_true'] at hc
    cases h
    exact hc.1.2
  · cases h

theorem sa_quantityOf_value (env : Env) (q : Loc (PQuantity α)) (b : Bool) (s : Col α) :
    (quantityOf env q b s).1.value =
      mkScalable b q.val.value.lock.isSome q.val.value.value.val := by
  have : (quantityOf env q b s).1.value = (valueOf env q.val.value b s).1 := by
    simp only [quantityOf, bind, StateT.bind, pure, StateT.pure]
    cases valueOf env q.val.value b s; rfl
  rw [this, scm_valueOf_eq]

theorem sa_optQuantityOf_ok (env : Env) (q : Option (Loc (PQuantity α))) (s : Col α)
    (qq : Quantity (ScalableValue α)) (h : (optQuantityOf env q true s).1 = some qq) (w : Value α)
    (hw : qq.value = .linear w) : w.isText = false := by
  cases q with
  | none => simp [optQuantityOf, pure, StateT.pure] at h
  | some q =>
    have : (optQuantityOf env (some q) true s).1 = some (quantityOf env q true s).1 := by
      simp only [optQuantityOf, bind, StateT.bind, pure, StateT.pure]
      cases quantityOf env q true s; rfl
    rw [this] at h
    cases h
    rw [sa_quantityOf_value] at hw
    exact sa_mkScalable_linear hw

theorem sa_optValueOf_fixed (env : Env) (q : Option (Loc (PQValue α))) (s : Col α)
    (sv : ScalableValue α) (h : (optValueOf env q s).1 = some sv) : ∃ v, sv = .fixed v := by
  cases q with
  | none => simp [optValueOf, pure, StateT.pure] at h
  | some q =>
    have : (optValueOf env (some q) s).1 = some (valueOf env q.val false s).1 := by
      simp only [optValueOf, bind, StateT.bind, pure, StateT.pure]
      cases valueOf env q.val false s; rfl
    rw [this, scm_valueOf_eq, scm_mkScalable_not_ingredient] at h
    cases h
    exact ⟨_, rfl⟩

theorem sa_timerQuantity_fixed (env : Env) (tq : Option (Loc (PQuantity α))) (s : Col α)
    (r : Quantity (ScalableValue α)) (h : (timerQuantity env tq s).1 = some r) :
    ∃ v, r.value = .fixed v := by
  cases tq with
  | none => simp [timerQuantity, pure, StateT.pure] at h
  | some q =>
    have : (timerQuantity env (some q) s).1 = some (quantityOf env q false s).1 := by
      simp only [timerQuantity, A_bind, A_pure]
    rw [this] at h
    cases h
    rw [sa_quantityOf_value, scm_mkScalable_not_ingredient]
    exact ⟨_, rfl⟩

/-! ### the handlers keep the quantity they were given -/

theorem sa_ingrRegular_quantity (env : Env) (input : Str) (li : Loc (PIngredient α))
    (igr0 : Ingredient (ScalableValue α)) (s : Col α) :
    (ingrRegular env input li igr0 s).1.quantity = igr0.quantity := by
  unfold ingrRegular
  simp +instances only [A_bind, A_get]
  generalize resolveReference (α := α) env "ingredient"
    (Modifiers.HIDDEN ||| Modifiers.OPT ||| Modifiers.RECIPE) (s.ingredients.toList.map (fun x => (x.name, x.modifiers)))
    igr0.name igr0.modifiers li.span li.val.modifiers.span s = rr
  cases ho : rr.1.2 with
  | none => simp only [A_pure]
  | some o =>
    simp +instances only [A_bind, A_get]
    cases rr.snd.ingredients[o.refTo]? <;> cases rr.snd.locIngr[o.refTo]? <;> rfl

theorem sa_ingrInter_quantity (i : PIngredient α) (igr : Ingredient (ScalableValue α))
    (d : Loc InterData) (s : Col α) : (ingrInter i igr d s).1.quantity = igr.quantity := by
  rcases ingrInter_val i igr d s with h | ⟨rel, _, h⟩ <;> rw [h]

theorem sa_ingrBuild_quantity (env : Env) (input : Str) (li : Loc (PIngredient α))
    (igr0 : Ingredient (ScalableValue α)) (s : Col α) (ings : Array (Ingredient (ScalableValue α)))
    (igr : Ingredient (ScalableValue α))
    (h : (ingrBuild env input li igr0 s).2.ingredients = ings.push igr) :
    igr.quantity = igr0.quantity := by
  unfold ingrBuild at h
  simp +instances only [A_bind, A_get, A_pure, A_modify] at h
  cases hi : li.val.inter with
  | some d =>
    simp only [hi] at h
    obtain ⟨h1, _⟩ := Array.push_eq_push.mp h
    rw [← h1]
    exact sa_ingrInter_quantity li.val igr0 d s
  | none =>
    simp only [hi] at h
    obtain ⟨h1, _⟩ := Array.push_eq_push.mp h
    rw [← h1]
    exact sa_ingrRegular_quantity env input li igr0 s

theorem sa_ingredientA_quantity (env : Env) (input : Str) (li : Loc (PIngredient α)) (s : Col α)
    (ings : Array (Ingredient (ScalableValue α))) (igr : Ingredient (ScalableValue α))
    (h : (ingredientA env input li s).2.ingredients = ings.push igr) :
    igr.quantity = (optQuantityOf env li.val.quantity true s).1 := by
  unfold ingredientA at h
  simp +instances only [A_bind, A_get] at h
  exact sa_ingrBuild_quantity env input li _ _ ings igr h

theorem sa_cwResolve_quantity (env : Env) (input : Str) (lc : Loc (PCookware α))
    (cw0 : Cookware (ScalableValue α)) (s : Col α) :
    (cwResolve env input lc cw0 s).1.quantity = cw0.quantity := by
  unfold cwResolve
  simp +instances only [A_bind, A_get]
  generalize resolveReference (α := α) env "cookware item"
    (Modifiers.HIDDEN ||| Modifiers.OPT) (s.cookware.toList.map (fun x => (x.name, x.modifiers)))
    cw0.name cw0.modifiers lc.span lc.val.modifiers.span s = rr
  cases ho : rr.1.2 with
  | none => simp only [A_pure]
  | some o =>
    simp +instances only [A_bind, A_get]
    cases rr.snd.cookware[o.refTo]? <;> cases rr.snd.locCw[o.refTo]? <;> rfl

theorem sa_cwBuild_quantity (env : Env) (input : Str) (lc : Loc (PCookware α))
    (cw0 : Cookware (ScalableValue α)) (s : Col α) (cws : Array (Cookware (ScalableValue α)))
    (cw : Cookware (ScalableValue α)) (h : (cwBuild env input lc cw0 s).2.cookware = cws.push cw) :
    cw.quantity = cw0.quantity := by
  unfold cwBuild at h
  simp +instances only [A_bind, A_get, A_pure, A_modify] at h
  obtain ⟨h1, _⟩ := Array.push_eq_push.mp h
  rw [← h1]
  exact sa_cwResolve_quantity env input lc cw0 s

theorem sa_cookwareA_quantity (env : Env) (input : Str) (lc : Loc (PCookware α)) (s : Col α)
    (cws : Array (Cookware (ScalableValue α))) (cw : Cookware (ScalableValue α))
    (h : (cookwareA env input lc s).2.cookware = cws.push cw) :
    cw.quantity = (optValueOf env lc.val.quantity s).1 := by
  unfold cookwareA at h
  simp +instances only [A_bind, A_get] at h
  exact sa_cwBuild_quantity env input lc _ _ cws cw h

theorem sa_timerA_quantity (env : Env) (lt : Loc (PTimer α)) (s : Col α) (tm : Timer (ScalableValue α))
    (h : (timerA env lt s).2.timers = s.timers.push tm) :
    tm.quantity = (timerQuantity env lt.val.quantity s).1 := by
  unfold timerA at h
  simp +instances only [A_bind, A_get, A_pure, A_modify] at h
  obtain ⟨d0, p0, h0⟩ := (timerQuantity_diagOnly env lt.val.quantity).out s
  rw [h0] at h
  obtain ⟨h1, _⟩ := Array.push_eq_push.mp h
  rw [← h1]

end Cook
