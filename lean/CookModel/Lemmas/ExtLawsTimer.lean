import CookModel.Lemmas.ExtLawsStep
/-
  C02, the converse clause for TIMER_REQUIRES_TIME: what `timer` returns for a timer without a
  quantity, with the flag off (accepted, no event pushed) and on (the error
  `timer-missing-quantity` and a recovered quantity), for every name.
-/
set_option linter.unusedSectionVars false
set_option linter.unusedSimpArgs false
set_option linter.unusedVariables false
namespace Cook

variable {α : Type} [Arith α]

/-- no `(` ahead: `check_note` of a timer finds nothing and leaves the state alone -/
theorem checkNoteTimer_noop (s : BP α) (h : ∀ t, s.toks[s.cur]? = some t → t.kind ≠ .openParen) :
    checkNoteTimer s = ((), s) := by
  unfold checkNoteTimer
  rw [P_bind_run, withRecover_run_ext, P_bind_run, consumeK_run]
  cases ht : s.toks[s.cur]? with
  | none => rfl
  | some t =>
    have := h t ht
    simp only [this, if_false]
    rfl

theorem bpText_run_ok (off : Nat) (toks : List Tok) (s : BP α) (h : (buildText off toks).bad = false) :
    bpText off toks s = (buildText off toks, s) := by
  unfold bpText
  simp only [h, Bool.false_eq_true, if_false]
  rfl


/-- the error `timer` reports for a missing quantity under TIMER_REQUIRES_TIME -/
def timerMissingQuantity (close : Option Span) (name : Text) : Ev α :=
  .error ⟨.error, .parse, "timer-missing-quantity", [close.getD (Span.pos name.span.stop)]⟩

/-- `timer` on `~`, no modifier character, a body `name` / `name{}` without quantity (what
    `comp_body` returned), no `|` in the name, no `(` after it, a non-blank name -/
theorem timerP_noQuantity (s : BP α) (t : Tok) (ht : s.toks[s.cur]? = some t) (hk : t.kind = .tilde)
    (hmod : ∀ t', s.toks[s.cur + 1]? = some t' → isModStart t'.kind = false)
    (name : List Tok) (close : Option Span) (c2 : Nat)
    (hb : compBody ({ s with cur := s.cur + 1 } : BP α) = (some ⟨name, close, none⟩, { s with cur := c2 }))
    (hor : name.any (fun t => t.kind == .or) = false)
    (hnote : ∀ t', s.toks[c2]? = some t' → t'.kind ≠ .openParen)
    (hbad : (buildText (offAt s.toks (s.cur + 1)) name).bad = false)
    (hname : (buildText (offAt s.toks (s.cur + 1)) name).isTextEmpty s.cs = false) :
    timerP s =
      if s.ext.has Gen.EXT_TIMER_REQUIRES_TIME then
        (some (.timer ⟨⟨some (buildText (offAt s.toks (s.cur + 1)) name), some recoverPQuantity⟩,
            ⟨offAt s.toks s.cur, offAt s.toks c2⟩⟩),
         { s with cur := c2,
                  evs := s.evs.push (timerMissingQuantity close (buildText (offAt s.toks (s.cur + 1)) name)) })
      else
        (some (.timer ⟨⟨some (buildText (offAt s.toks (s.cur + 1)) name), none⟩,
            ⟨offAt s.toks s.cur, offAt s.toks c2⟩⟩), { s with cur := c2 }) := by
  have hf := findIdx_none_of_any_false hor
  unfold timerP
  rw [P_bind_run, currentOffset_run]
  dsimp only
  rw [P_bind_run, consumeK_run, ht]
  simp only [hk, if_true]
  rw [P_bind_run, modifiersP_noop _ hmod]
  dsimp only
  rw [P_bind_run, currentOffset_run]
  dsimp only
  rw [P_bind_run, hb]
  dsimp only
  rw [P_bind_run, currentOffset_run]
  dsimp only
  have hx : ∀ (f : Nat) (s' : BP α), hasExt f s' = (s'.ext.has f, s') := fun _ _ => rfl
  have hg : ∀ s' : BP α, (get : P α (BP α)) s' = (s', s') := fun _ => rfl
  have hpure : ∀ {β : Type} (a : β) (s' : BP α), (pure a : P α β) s' = (a, s') := fun _ _ => rfl
  have hcn := checkNoteTimer_noop ({ s with cur := c2 } : BP α) hnote
  have hbt := fun s' : BP α => bpText_run_ok (offAt s.toks (s.cur + 1)) name s' hbad
  simp only [List.isEmpty_nil, Bool.not_true, Bool.false_eq_true, if_false, P_bind_run, hx, hf, hcn, hbt, hg,
    hpure, hname, ite_self, Option.isNone_none, Bool.true_and, Option.isNone_some, Bool.and_false]
  cases s.ext.has Gen.EXT_TIMER_REQUIRES_TIME
  · rfl
  · rfl


/-! ### the short form `~name` -/

/-- no long form ahead: `comp_body`'s first attempt returns `None` and restores the cursor -/
theorem compBodyLong_none_ext (s : BP α) (h : longBody s.rest = none) : compBodyLong s = (none, s) := by
  have h1 := compBodyLong_fst s
  rw [h] at h1
  have hn : (compBodyLong s).1 = none := by
    cases hc : (compBodyLong s).1 with
    | none => rfl
    | some b => rw [hc] at h1; cases h1
  unfold compBodyLong at hn ⊢
  rw [withRecover_fst] at hn
  rw [withRecover_run_ext, hn]
  simp only [Option.isNone_none, if_true]
  congr 1
  revert hn
  rw [P_bind_run, untilK_run]
  cases hf : (s.toks.drop s.cur).findIdx? (fun t => t.kind == .openBrace || isMarker t.kind) with
  | none => intro _; rfl
  | some p =>
    dsimp only
    rw [P_bind_run, consumeK_run]
    dsimp only
    cases ht : s.toks[s.cur + p]? with
    | none => intro _; rfl
    | some t =>
      by_cases hk : t.kind = .openBrace
      · simp only [hk, if_true]
        rw [P_bind_run, untilK_run]
        dsimp only
        cases hf2 : (s.toks.drop (s.cur + p + 1)).findIdx? (fun t => t.kind == .closeBrace) with
        | none => intro _; rfl
        | some p2 =>
          dsimp only
          intro hn
          exact absurd hn (by
            rw [P_bind_run]
            intro h'
            cases h')
      · simp only [hk, if_false]
        intro _; rfl

theorem consumeWhile_takeWhile (f : TK → Bool) (s : BP α) :
    consumeWhile f s = (s.rest.takeWhile (fun t => f t.kind),
      { s with cur := s.cur + (s.rest.takeWhile (fun t => f t.kind)).length }) := by
  rw [consumeWhile_run]
  dsimp only
  have h1 := (take_findIdx_not (fun t => f t.kind) (s.toks.drop s.cur)).1
  have hle : ((s.toks.drop s.cur).findIdx? (fun t => !f t.kind)).getD (s.toks.drop s.cur).length ≤
      (s.toks.drop s.cur).length := by
    cases hf : (s.toks.drop s.cur).findIdx? (fun t => !f t.kind) with
    | none => exact Nat.le_refl _
    | some n =>
      rw [List.findIdx?_eq_some_iff_getElem] at hf
      obtain ⟨hlt, -⟩ := hf
      exact Nat.le_of_lt hlt
  have hlen := congrArg List.length h1
  rw [List.length_take, Nat.min_eq_left hle] at hlen
  unfold BP.rest
  rw [← h1, List.length_take, Nat.min_eq_left hle]

/-- … and the second attempt returns the run of word/number tokens -/
theorem compBody_short_ext (s : BP α) (h : longBody s.rest = none)
    (hne : s.rest.takeWhile (fun t => isShortTok t.kind) ≠ []) :
    compBody s = (some ⟨s.rest.takeWhile (fun t => isShortTok t.kind), none, none⟩,
      { s with cur := s.cur + (s.rest.takeWhile (fun t => isShortTok t.kind)).length }) := by
  unfold compBody
  rw [P_bind_run, compBodyLong_none_ext s h]
  dsimp only
  unfold compBodyShort
  rw [withRecover_run_ext, P_bind_run, consumeWhile_takeWhile]
  dsimp only
  have he : (s.rest.takeWhile (fun t => t.kind == .word || t.kind == .int || t.kind == .zeroInt)).isEmpty = false := by
    cases hx : s.rest.takeWhile (fun t => t.kind == .word || t.kind == .int || t.kind == .zeroInt) with
    | nil => exact absurd hx hne
    | cons a l => rfl
  simp only [he, Bool.false_eq_true, if_false]
  rfl


theorem isShortTok_not_modStart {k : TK} (h : isShortTok k = true) : isModStart k = false := by
  revert h; cases k <;> decide

theorem isShortTok_not_or {k : TK} (h : isShortTok k = true) : (k == .or) = false := by
  revert h; cases k <;> decide

/-- the name tokens of the short form `~name` that starts at the cursor -/
def shortName (s : BP α) : List Tok := (s.toks.drop (s.cur + 1)).takeWhile (fun t => isShortTok t.kind)

/-- `timer` on `~name` (word/number tokens, no `{` before the next marker, no `(` after the name,
    a non-blank name): the event, the cursor, and the queue, with and without TIMER_REQUIRES_TIME -/
theorem timerP_short (s : BP α) (t : Tok) (ht : s.toks[s.cur]? = some t) (hk : t.kind = .tilde)
    (hl : longBody (s.toks.drop (s.cur + 1)) = none) (hne : shortName s ≠ [])
    (hnote : ∀ t', s.toks[s.cur + 1 + (shortName s).length]? = some t' → t'.kind ≠ .openParen)
    (hbad : (buildText (offAt s.toks (s.cur + 1)) (shortName s)).bad = false)
    (hname : (buildText (offAt s.toks (s.cur + 1)) (shortName s)).isTextEmpty s.cs = false) :
    timerP s =
      if s.ext.has Gen.EXT_TIMER_REQUIRES_TIME then
        (some (.timer ⟨⟨some (buildText (offAt s.toks (s.cur + 1)) (shortName s)), some recoverPQuantity⟩,
            ⟨offAt s.toks s.cur, offAt s.toks (s.cur + 1 + (shortName s).length)⟩⟩),
         { s with cur := s.cur + 1 + (shortName s).length,
                  evs := s.evs.push (timerMissingQuantity none (buildText (offAt s.toks (s.cur + 1)) (shortName s))) })
      else
        (some (.timer ⟨⟨some (buildText (offAt s.toks (s.cur + 1)) (shortName s)), none⟩,
            ⟨offAt s.toks s.cur, offAt s.toks (s.cur + 1 + (shortName s).length)⟩⟩),
         { s with cur := s.cur + 1 + (shortName s).length }) := by
  have hall : ∀ x ∈ shortName s, isShortTok x.kind = true := by
    intro x hx
    have := List.all_takeWhile (l := s.toks.drop (s.cur + 1)) (p := fun t => isShortTok t.kind)
    exact List.all_eq_true.mp this x hx
  refine timerP_noQuantity s t ht hk ?_ (shortName s) none _ ?_ ?_ hnote hbad hname
  · intro t' ht'
    apply isShortTok_not_modStart
    have hh : (s.toks.drop (s.cur + 1)).head? = some t' := by rw [List.head?_drop]; exact ht'
    cases hd : s.toks.drop (s.cur + 1) with
    | nil => rw [hd] at hh; cases hh
    | cons a r =>
      rw [hd] at hh
      simp only [List.head?_cons, Option.some.injEq] at hh
      subst hh
      by_cases hp : isShortTok a.kind = true
      · exact hp
      · exfalso
        apply hne
        unfold shortName
        rw [hd, List.takeWhile_cons]
        simp only [hp, Bool.false_eq_true, if_false]
  · exact compBody_short_ext ({ s with cur := s.cur + 1 } : BP α) hl hne
  · rw [List.any_eq_false]
    intro x hx
    have := isShortTok_not_or (hall x hx)
    simp only [this, Bool.false_eq_true, not_false_eq_true]

end Cook
