import CookModel.Lemmas.DiagAnalysisMore
/-
  C07, analysis: the checks of a resolved ingredient / cookware reference against its definition
  (`ingrRefChecks`, `cwRefChecks`): note on a reference, quantity on a reference whose definition has
  one, text value against numeric value.  `DG m`: `m` only appends diagnostics.
-/
namespace Cook
variable {α : Type} [Arith α]
set_option linter.unusedSectionVars false
set_option linter.unusedSimpArgs false
set_option linter.unusedVariables false

/-- `m` only appends to the diagnostics -/
structure DG {β : Type} (m : A α β) : Prop where
  out : ∀ s, ∃ l, (m s).2.diags.toList = s.diags.toList ++ l

theorem DG.pure {β : Type} (a : β) : DG (α := α) (Pure.pure a : A α β) := ⟨fun s => ⟨[], by simp [A_pure]⟩⟩

theorem DG.bind {β γ : Type} {m : A α β} {f : β → A α γ} (hm : DG m) (hf : ∀ a, DG (f a)) : DG (m >>= f) := by
  constructor
  intro s
  obtain ⟨l1, h1⟩ := hm.out s
  obtain ⟨l2, h2⟩ := (hf (m s).1).out (m s).2
  exact ⟨l1 ++ l2, by rw [A_bind, h2, h1, List.append_assoc]⟩

theorem DG.get : DG (α := α) (get : A α (Col α)) := ⟨fun s => ⟨[], by simp [A_get]⟩⟩
theorem DG.aerr (k : String) (l : List Span) : DG (α := α) (aerr k l) :=
  ⟨fun s => ⟨[⟨.error, .analysis, k, l⟩], by simp [Cook.aerr, A_modify]⟩⟩
theorem DG.awarn (k : String) (l : List Span) : DG (α := α) (awarn k l) :=
  ⟨fun s => ⟨[⟨.warning, .analysis, k, l⟩], by simp [Cook.awarn, A_modify]⟩⟩
theorem DG.apanic (site : String) : DG (α := α) (apanic site) := by
  constructor
  intro s
  refine ⟨[], ?_⟩
  unfold Cook.apanic
  rw [A_modify]
  split <;> simp
theorem DG.ite {β : Type} {c : Prop} [Decidable c] {a b : A α β} (ha : DG a) (hb : DG b) :
    DG (if c then a else b) := by split <;> assumption
theorem DG.forIn {β γ : Type} (l : List β) (init : γ) (f : β → γ → A α (ForInStep γ))
    (hf : ∀ b c, DG (f b c)) : DG (forIn l init f) := by
  induction l generalizing init with
  | nil => simp only [List.forIn_nil]; exact DG.pure _
  | cons x xs ih =>
    simp only [List.forIn_cons]
    apply DG.bind (hf x init)
    intro r
    cases r with
    | done c => exact DG.pure _
    | yield c => exact ih c

theorem DG.mem {β : Type} {m : A α β} (h : DG m) {s : Col α} {d : Diag} (hd : d ∈ s.diags.toList) :
    d ∈ (m s).2.diags.toList := by
  obtain ⟨l, hl⟩ := h.out s
  rw [hl]; simp [hd]

syntax "dg_leaf" : tactic
macro_rules | `(tactic| dg_leaf) => `(tactic| exact DG.pure _)
macro_rules | `(tactic| dg_leaf) => `(tactic| exact DG.get)
macro_rules | `(tactic| dg_leaf) => `(tactic| exact DG.apanic _)
macro_rules | `(tactic| dg_leaf) => `(tactic| exact DG.aerr _ _)
macro_rules | `(tactic| dg_leaf) => `(tactic| exact DG.awarn _ _)
macro_rules | `(tactic| dg_leaf) => `(tactic| assumption)

macro "dg_auto" : tactic => `(tactic|
  repeat (first
    | dg_leaf
    | apply DG.bind
    | apply DG.ite
    | apply DG.forIn
    | intro _
    | dsimp only
    | split))

theorem DG.noteReferenceError (input : Str) (a b : Span) (c : Option Span) :
    DG (noteReferenceError (α := α) input a b c) := by
  unfold Cook.noteReferenceError; dg_auto
macro_rules | `(tactic| dg_leaf) => `(tactic| exact DG.noteReferenceError ..)

theorem DG.ingrUnitChecks (env : Env) (i : PIngredient α) (q : Quantity (ScalableValue α)) (idxs : List Nat) :
    DG (ingrUnitChecks env i q idxs) := by
  unfold Cook.ingrUnitChecks; dg_auto
macro_rules | `(tactic| dg_leaf) => `(tactic| exact DG.ingrUnitChecks ..)

/-! ### the checks of an ingredient reference, cut into its five parts -/

section parts
variable (env : Env) (input : Str) (li : Loc (PIngredient α)) (igr : Ingredient (ScalableValue α))
  (refTo : Nat) (defn : Ingredient (ScalableValue α)) (defLoc : Loc (PIngredient α))

def irc1 : A α Unit := do
  if !(!defn.relation.relation.isReference) then apanic "definition is a reference"
  if env.ext.has Gen.EXT_ADVANCED_UNITS then
    match igr.quantity with
    | some newQ => ingrUnitChecks env li.val newQ (refTo :: defn.relation.relation.referencedFrom)
    | none => pure ()

def ircNote : A α Unit :=
  match li.val.note with
  | some n => noteReferenceError input n.span defLoc.span (defLoc.val.note.map (·.span))
  | none => pure ()

def ircDefinedInStep : Bool :=
  match defn.relation.relation with
  | .definition _ b => b
  | .reference _ => true

def ircQty : A α Unit :=
  if defn.quantity.isSome && igr.quantity.isSome && !ircDefinedInStep defn then
    aerr "conflicting-ref-quantity" [(li.val.quantity.map (·.span)).getD ⟨0, 0⟩, defLoc.span]
  else pure ()

def ircText : A α Unit :=
  match igr.quantity, defn.quantity with
  | some rq, some dq =>
    let refText := rq.value.val.isText
    let defText := dq.value.val.isText
    if refText != defText then do
      let rl := (li.val.quantity.map (·.span)).getD ⟨0, 0⟩
      let dl := (defLoc.val.quantity.map (·.span)).getD ⟨0, 0⟩
      if defLoc.val.quantity.isNone then apanic "definition location quantity unwrap"
      if refText then awarn "text-value-in-ref" [rl, dl] else awarn "text-value-in-ref" [dl, rl]
    else pure ()
  | _, _ => pure ()

theorem ingrRefChecks_parts (s : Col α) :
    ingrRefChecks env input li igr refTo defn defLoc s =
      (irc1 env li igr refTo defn >>= fun _ => ircNote input li defLoc >>= fun _ =>
        ircQty li igr defn defLoc >>= fun _ => ircText li igr defn defLoc) s := by
  unfold ingrRefChecks irc1 ircNote ircQty ircText ircDefinedInStep
  rcases hrel : defn.relation.relation with ⟨rf, b⟩ | t <;>
    cases h2 : env.ext.has Gen.EXT_ADVANCED_UNITS <;>
    cases h3 : igr.quantity <;> cases h4 : li.val.note <;>
    cases h5 : defn.quantity.isSome <;> (try cases b) <;>
    simp [bind, StateT.bind, pure, StateT.pure, hrel, h2, h3, h4, h5, ComponentRelation.isReference] <;> rfl

theorem DG.irc1 : DG (irc1 (α := α) env li igr refTo defn) := by unfold Cook.irc1; dg_auto
theorem DG.ircNote : DG (ircNote (α := α) input li defLoc) := by unfold Cook.ircNote; dg_auto
theorem DG.ircQty : DG (ircQty (α := α) li igr defn defLoc) := by unfold Cook.ircQty; dg_auto
theorem DG.ircText : DG (ircText (α := α) li igr defn defLoc) := by unfold Cook.ircText; dg_auto

end parts

theorem mem_push_self (a : Array Diag) (d : Diag) : d ∈ (a.push d).toList := by simp

/-- what the checks of a resolved ingredient reference report -/
theorem ingrRefChecks_reports (env : Env) (input : Str) (li : Loc (PIngredient α))
    (igr : Ingredient (ScalableValue α)) (refTo : Nat) (defn : Ingredient (ScalableValue α))
    (defLoc : Loc (PIngredient α)) (s : Col α) :
    (∃ l, (ingrRefChecks env input li igr refTo defn defLoc s).2.diags.toList = s.diags.toList ++ l) ∧
    (∀ n, li.val.note = some n →
      adiag .error "note-in-reference" [noteRefSpan input n.span,
        (defLoc.val.note.map (·.span)).getD (Span.pos defLoc.span.stop)] ∈
        (ingrRefChecks env input li igr refTo defn defLoc s).2.diags.toList) ∧
    (defn.quantity.isSome = true → igr.quantity.isSome = true → ircDefinedInStep defn = false →
      adiag .error "conflicting-ref-quantity" [(li.val.quantity.map (·.span)).getD ⟨0, 0⟩, defLoc.span] ∈
        (ingrRefChecks env input li igr refTo defn defLoc s).2.diags.toList) := by
  have hparts := ingrRefChecks_parts env input li igr refTo defn defLoc s
  have d1 := DG.irc1 (α := α) env li igr refTo defn
  have d2 := DG.ircNote (α := α) input li defLoc
  have d3 := DG.ircQty (α := α) li igr defn defLoc
  have d4 := DG.ircText (α := α) li igr defn defLoc
  rw [hparts]
  refine ⟨(DG.bind d1 (fun _ => DG.bind d2 (fun _ => DG.bind d3 (fun _ => d4)))).out s, ?_, ?_⟩
  · intro n hn
    simp only [A_bind]
    refine d4.mem (d3.mem ?_)
    have e : ircNote (α := α) input li defLoc = noteReferenceError input n.span defLoc.span
        (defLoc.val.note.map (·.span)) := by unfold ircNote; rw [hn]
    rw [e, noteReferenceError_run]
    exact mem_push_self _ _
  · intro h1 h2 h3
    simp only [A_bind]
    refine d4.mem ?_
    have e : ircQty (α := α) li igr defn defLoc =
        aerr "conflicting-ref-quantity" [(li.val.quantity.map (·.span)).getD ⟨0, 0⟩, defLoc.span] := by
      unfold ircQty; simp [h1, h2, h3]
    rw [e]
    exact mem_push_self _ _

/-- text value against numeric value (reference vs definition): the warning, labelled text side first -/
theorem ingrRefChecks_text (env : Env) (input : Str) (li : Loc (PIngredient α))
    (igr : Ingredient (ScalableValue α)) (refTo : Nat) (defn : Ingredient (ScalableValue α))
    (defLoc : Loc (PIngredient α)) (s : Col α) (rq dq : Quantity (ScalableValue α))
    (hr : igr.quantity = some rq) (hd : defn.quantity = some dq)
    (hne : rq.value.val.isText ≠ dq.value.val.isText) :
    adiag .warning "text-value-in-ref"
      (if rq.value.val.isText then
        [(li.val.quantity.map (·.span)).getD ⟨0, 0⟩, (defLoc.val.quantity.map (·.span)).getD ⟨0, 0⟩]
       else [(defLoc.val.quantity.map (·.span)).getD ⟨0, 0⟩, (li.val.quantity.map (·.span)).getD ⟨0, 0⟩]) ∈
      (ingrRefChecks env input li igr refTo defn defLoc s).2.diags.toList := by
  rw [ingrRefChecks_parts]
  simp only [A_bind]
  generalize (ircQty (α := α) li igr defn defLoc _).2 = s3
  have hb : (rq.value.val.isText != dq.value.val.isText) = true := by simpa using hne
  unfold ircText
  rw [hr, hd]
  simp only [hb, if_true]
  cases hq : defLoc.val.quantity.isNone <;> cases ht : rq.value.val.isText <;>
    simp [A_bind, A_pure, A_ite, awarn, A_modify, apanic, adiag, hq, ht, bind, StateT.bind, pure, StateT.pure,
      modify, modifyGet, MonadStateOf.modifyGet, StateT.modifyGet]

/-! ### the checks of a cookware reference -/

section cwparts
variable (input : Str) (lc : Loc (PCookware α)) (cw : Cookware (ScalableValue α))
  (defn : Cookware (ScalableValue α)) (defLoc : Loc (PCookware α))

def crc1 : A α Unit := if defn.relation.isReference then apanic "definition is a reference" else pure ()

def crcNote : A α Unit :=
  match lc.val.note with
  | some n => noteReferenceError input n.span defLoc.span (defLoc.val.note.map (·.span))
  | none => pure ()

def crcDefinedInStep : Bool :=
  match defn.relation with
  | .definition _ b => b
  | .reference _ => true

def crcQty : A α Unit :=
  if defn.quantity.isSome && cw.quantity.isSome && !crcDefinedInStep defn then
    aerr "conflicting-ref-quantity" [(lc.val.quantity.map (·.span)).getD ⟨0, 0⟩, defLoc.span]
  else pure ()

def crcText : A α Unit :=
  match cw.quantity, defn.quantity with
  | some rq, some dq =>
    let refText := rq.val.isText
    let defText := dq.val.isText
    if refText != defText then do
      let rl := (lc.val.quantity.map (·.span)).getD ⟨0, 0⟩
      let dl := (defLoc.val.quantity.map (·.span)).getD ⟨0, 0⟩
      if defLoc.val.quantity.isNone then apanic "definition location quantity unwrap"
      if refText then awarn "text-value-in-ref" [rl, dl] else awarn "text-value-in-ref" [dl, rl]
    else pure ()
  | _, _ => pure ()

theorem cwRefChecks_parts (s : Col α) :
    cwRefChecks input lc cw defn defLoc s =
      (crc1 defn >>= fun _ => crcNote input lc defLoc >>= fun _ =>
        crcQty lc cw defn defLoc >>= fun _ => crcText lc cw defn defLoc) s := by
  unfold cwRefChecks crc1 crcNote crcQty crcText crcDefinedInStep
  rcases hrel : defn.relation with ⟨rf, b⟩ | t <;>
    cases h3 : cw.quantity <;> cases h4 : lc.val.note <;>
    cases h5 : defn.quantity.isSome <;> (try cases b) <;>
    simp [bind, StateT.bind, pure, StateT.pure, hrel, h3, h4, h5, ComponentRelation.isReference] <;> rfl

theorem DG.crc1 : DG (crc1 (α := α) defn) := by unfold Cook.crc1; dg_auto
theorem DG.crcNote : DG (crcNote (α := α) input lc defLoc) := by unfold Cook.crcNote; dg_auto
theorem DG.crcQty : DG (crcQty (α := α) lc cw defn defLoc) := by unfold Cook.crcQty; dg_auto
theorem DG.crcText : DG (crcText (α := α) lc cw defn defLoc) := by unfold Cook.crcText; dg_auto

end cwparts

/-- what the checks of a resolved cookware reference report -/
theorem cwRefChecks_reports (input : Str) (lc : Loc (PCookware α)) (cw : Cookware (ScalableValue α))
    (defn : Cookware (ScalableValue α)) (defLoc : Loc (PCookware α)) (s : Col α) :
    (∃ l, (cwRefChecks input lc cw defn defLoc s).2.diags.toList = s.diags.toList ++ l) ∧
    (∀ n, lc.val.note = some n →
      adiag .error "note-in-reference" [noteRefSpan input n.span,
        (defLoc.val.note.map (·.span)).getD (Span.pos defLoc.span.stop)] ∈
        (cwRefChecks input lc cw defn defLoc s).2.diags.toList) ∧
    (defn.quantity.isSome = true → cw.quantity.isSome = true → crcDefinedInStep defn = false →
      adiag .error "conflicting-ref-quantity" [(lc.val.quantity.map (·.span)).getD ⟨0, 0⟩, defLoc.span] ∈
        (cwRefChecks input lc cw defn defLoc s).2.diags.toList) := by
  have hparts := cwRefChecks_parts input lc cw defn defLoc s
  have d1 := DG.crc1 (α := α) defn
  have d2 := DG.crcNote (α := α) input lc defLoc
  have d3 := DG.crcQty (α := α) lc cw defn defLoc
  have d4 := DG.crcText (α := α) lc cw defn defLoc
  rw [hparts]
  refine ⟨(DG.bind d1 (fun _ => DG.bind d2 (fun _ => DG.bind d3 (fun _ => d4)))).out s, ?_, ?_⟩
  · intro n hn
    simp only [A_bind]
    refine d4.mem (d3.mem ?_)
    have e : crcNote (α := α) input lc defLoc = noteReferenceError input n.span defLoc.span
        (defLoc.val.note.map (·.span)) := by unfold crcNote; rw [hn]
    rw [e, noteReferenceError_run]
    exact mem_push_self _ _
  · intro h1 h2 h3
    simp only [A_bind]
    refine d4.mem ?_
    have e : crcQty (α := α) lc cw defn defLoc =
        aerr "conflicting-ref-quantity" [(lc.val.quantity.map (·.span)).getD ⟨0, 0⟩, defLoc.span] := by
      unfold crcQty; simp [h1, h2, h3]
    rw [e]
    exact mem_push_self _ _

end Cook
