import CookModel.Lemmas.TextLaws
import CookModel.Lemmas.LexLaws
import CookModel.Lemmas.SimBlankLines
import CookModel.Lemmas.TrailingSpace
import CookModel.Lemmas.RecipeSimStatic
import CookModel.Lemmas.RecipeSimBlank
import CookModel.Lemmas.TrailInst
import CookModel.Lemmas.LooseServings
/-
  C17, audit wave (tag `a17`):

  A. filler tokens (comments, blanks) inside ANY text run that is read through `text_trimmed`
     (component names, aliases, units, notes, text values, metadata keys, section names): the
     trimmed text does not change.  This is the text-level law behind "block comment between two
     words of a name / quantity" and "trailing comment on a line that ends inside a name".
  B. the backslash exclusion of the CRLF law is necessary already for the NUMBER of blocks.
  C. define mode `text`: the analysis copies the source slice of a component — the precise law, and
     a witness that the exclusion `TextModeSliceAt` of the analysis-level theorem is necessary.
  D. the comparison the property states (`SameRecipe`: same validity, recipe equal up to white
     space in step text) is an equivalence relation; every strict result (`ResSim`) and every
     insertion result implies it; hence any finite sequence of the edits preserves the recipe.
-/
set_option linter.unusedSectionVars false
set_option linter.unusedVariables false
set_option linter.unusedSimpArgs false
namespace Cook

/-! ## A. filler inside a trimmed text run -/

/-- a token that shows nothing but blanks: a comment, or a whitespace token of U+0020 -/
def A17Filler (t : Tok) : Prop :=
  (t.kind = .blockComment ∨ t.kind = .lineComment) ∨ (t.kind = .ws ∧ ∀ c ∈ t.text, c = ' ')

theorem a17_filler_vis {F : List Tok} (hF : ∀ t ∈ F, A17Filler t) : ∀ c ∈ F.flatMap vis, c = ' ' := by
  induction F with
  | nil => simp
  | cons t F ih =>
    intro c hc
    simp only [List.flatMap_cons, List.mem_append] at hc
    rcases hc with hc | hc
    · rcases hF t (by simp) with (h | h) | ⟨h, hb⟩
      · simp [vis, h] at hc
      · simp [vis, h] at hc
      · simp only [vis, h] at hc
        exact hb c hc
    · exact ih (fun t ht => hF t (by simp [ht])) c hc

theorem a17_blanks_snoc : ∀ (S : List Char), S ≠ [] → (∀ c ∈ S, c = ' ') →
    ∃ S0, S = S0 ++ [' '] ∧ ∀ c ∈ S0, c = ' ' := by
  intro S
  induction S with
  | nil => intro h; exact absurd rfl h
  | cons a S ih =>
    intro _ hS
    have ha : a = ' ' := hS a (by simp)
    subst ha
    by_cases hS0 : S = []
    · subst hS0; exact ⟨[], rfl, by simp⟩
    · obtain ⟨S0, e, h0⟩ := ih hS0 (fun c hc => hS c (by simp [hc]))
      refine ⟨' ' :: S0, by rw [e]; rfl, ?_⟩
      intro c hc
      rcases List.mem_cons.1 hc with rfl | hc
      · rfl
      · exact h0 c hc

/-- a non-empty run of blanks inside a text reads, after `text_trimmed`, like one blank -/
theorem a17_trimmedOf_run (ws : Char → Bool) (hsp : ws ' ' = true) (A S B : List Char) (hne : S ≠ [])
    (hS : ∀ c ∈ S, c = ' ') : trimmedOf ws (A ++ S ++ B) = trimmedOf ws (A ++ ' ' :: B) := by
  obtain ⟨S0, rfl, h0⟩ := a17_blanks_snoc S hne hS
  have := tsp_trimmedOf_blanks ws hsp A S0 B h0
  simpa [List.append_assoc] using this

/-- blanks added next to a non-empty run of blanks change nothing after `text_trimmed` -/
theorem a17_trimmedOf_widen (ws : Char → Bool) (hsp : ws ' ' = true) (A S T B : List Char) (hne : S ≠ [])
    (hS : ∀ c ∈ S, c = ' ') (hT : ∀ c ∈ T, c = ' ') :
    trimmedOf ws (A ++ S ++ T ++ B) = trimmedOf ws (A ++ S ++ B) := by
  have h1 := a17_trimmedOf_run ws hsp A (S ++ T) B (by simp [hne])
    (by intro c hc; rcases List.mem_append.1 hc with h | h; exact hS c h; exact hT c h)
  have h2 := a17_trimmedOf_run ws hsp A S B hne hS
  simp only [List.append_assoc] at h1 h2 ⊢
  rw [h1, h2]

/-- **Filler behind a blank inside a trimmed run.**  `xs w F ys` against `xs w ys`, `w` a non-empty
    whitespace token of blanks, `F` comments and blanks: the same `text_trimmed`. -/
theorem a17_buildText_filler_after_blank (cs : CharSpec) (hsp : cs.uws ' ' = true) (off off' : Nat)
    (xs F ys : List Tok) (w : Tok) (hw : w.kind = .ws) (hwt : w.text ≠ []) (hwb : ∀ c ∈ w.text, c = ' ')
    (hF : ∀ t ∈ F, A17Filler t) :
    (buildText off' (xs ++ [w] ++ F ++ ys)).trimmed cs = (buildText off (xs ++ [w] ++ ys)).trimmed cs := by
  rw [tsp_trimmed_eq, tsp_trimmed_eq, buildText_text, buildText_text]
  have e1 : vis w = w.text := by simp [vis, hw]
  simp only [List.flatMap_append, List.flatMap_cons, List.flatMap_nil, List.append_nil, e1]
  exact a17_trimmedOf_widen cs.uws hsp _ _ _ _ hwt hwb (a17_filler_vis hF)

/-- **Filler in front of a line break inside a trimmed run.**  `xs F nl ys` against `xs nl ys`: the
    same `text_trimmed` (the line break reads as one blank). -/
theorem a17_buildText_filler_before_newline (cs : CharSpec) (hsp : cs.uws ' ' = true) (off off' : Nat)
    (xs F ys : List Tok) (nl : Tok) (hn : nl.kind = .newline) (hne : nl.text ≠ [])
    (hF : ∀ t ∈ F, A17Filler t) :
    (buildText off' (xs ++ F ++ [nl] ++ ys)).trimmed cs = (buildText off (xs ++ [nl] ++ ys)).trimmed cs := by
  rw [tsp_trimmed_eq, tsp_trimmed_eq, buildText_text, buildText_text]
  have e2 : vis nl = [' '] := by simp [vis, hn, hne]
  simp only [List.flatMap_append, List.flatMap_cons, List.flatMap_nil, List.append_nil, e2]
  have := tsp_trimmedOf_blanks cs.uws hsp (xs.flatMap vis) (F.flatMap vis) (ys.flatMap vis) (a17_filler_vis hF)
  simpa [List.append_assoc] using this

/-- **Filler at the end of a trimmed run** (a trailing comment behind the last word of a metadata
    value, a section name, the last line of a note …): the same `text_trimmed`. -/
theorem a17_buildText_filler_at_end (cs : CharSpec) (hsp : cs.uws ' ' = true) (off off' : Nat)
    (xs F : List Tok) (hF : ∀ t ∈ F, A17Filler t) :
    (buildText off' (xs ++ F)).trimmed cs = (buildText off xs).trimmed cs := by
  rw [tsp_trimmed_eq, tsp_trimmed_eq, buildText_text, buildText_text]
  simp only [List.flatMap_append]
  have hall : (F.flatMap vis).all cs.uws = true := by
    rw [List.all_eq_true]
    intro c hc
    rw [a17_filler_vis hF c hc]; exact hsp
  unfold trimmedOf
  rw [tsp_trim_append cs.uws _ _ hall]

/-! ## B. the backslash exclusion of the CRLF law is necessary -/

/-- `a\⏎⏎b`: the backslash escapes the line feed, the step goes on … -/
theorem a17_bs_lex : lex toyCharSpec ['a', '\\', '\n', '\n', 'b'] =
    [⟨.word, ['a'], 0⟩, ⟨.escaped, ['\\', '\n'], 1⟩, ⟨.newline, ['\n'], 3⟩, ⟨.word, ['b'], 4⟩] := by
  simp [lex, lexFrom_cons, lexOne, singleKind, singleTable, toyCharSpec, isAsciiDigit, lexFrom, utf8Len]
  decide

/-- … after conversion it escapes the carriage return, and the line ends -/
theorem a17_bs_lex_crlf : lex toyCharSpec (crlf ['a', '\\', '\n', '\n', 'b']) =
    [⟨.word, ['a'], 0⟩, ⟨.escaped, ['\\', '\r'], 1⟩, ⟨.newline, ['\n'], 3⟩, ⟨.newline, ['\r', '\n'], 4⟩,
     ⟨.word, ['b'], 6⟩] := by
  simp [lex, lexFrom_cons, lexOne, crlf, crlfAux, singleKind, singleTable, toyCharSpec, isAsciiDigit, lexFrom, utf8Len]
  decide

theorem a17_bs_blocks :
    (blocksOf (lex toyCharSpec ['a', '\\', '\n', '\n', 'b'])).length = 1 ∧
    (blocksOf (lex toyCharSpec (crlf ['a', '\\', '\n', '\n', 'b']))).length = 2 := by
  rw [a17_bs_lex, a17_bs_lex_crlf]
  decide

/-! ## C. define mode `text`: the source slice of a component is copied -/

variable {α : Type} [Arith α]

def Ev.a17Span : Ev α → Span
  | .ingredient i => i.span
  | .cookware c => c.span
  | .timer t => t.span
  | _ => ⟨0, 0⟩

/-- **The precise law of text mode.**  A component event that meets an open text buffer in define
    mode `text` appends exactly the bytes `input[span]` of the SOURCE to the buffer — whatever the
    event carries (name, quantity, …) is not read.  So everything between the marker and the end of
    the component shows up in the recipe text as written: line ends (`\r\n` or `\n`), blanks, and
    comments. -/
theorem a17_text_mode_copies_source (env : Env) (input : Str) (ev : Ev α) (hev : ev.isComp = true) (c : Col α)
    (buf sl : Str) (hb : c.block = some (.text buf)) (hm : c.defineMode = .text)
    (hsl : sliceBytes input ev.a17Span.start ev.a17Span.stop = some sl) :
    (processEvent env input ev c).2.block = some (.text (buf ++ sl)) := by
  cases ev <;> simp only [Ev.isComp] at hev <;> try (exact absurd hev (by decide))
  all_goals
    simp only [Ev.a17Span] at hsl
    simp [processEvent, inBlockComponent, inTextComponent, A_bind, A_get, A_modify, A_pure, hb, hm, hsl, awarn,
      bind, StateT.bind, get, getThe, MonadStateOf.get, StateT.get, modify, modifyGet, MonadStateOf.modifyGet,
      StateT.modifyGet, pure, StateT.pure]

/-- an environment with the MODES extension on (bit 64), toy character table -/
def a17EnvModes : Env := ⟨toyCharSpec, ⟨64⟩, fun _ => none, fun _ _ => .ok, fun c => [c], 0⟩

/-- the timer `~a⏎b{}` as the parser reports it for the LF source … -/
def a17TimerLF : Ev Rat :=
  .timer ⟨⟨some ⟨[⟨['a'], 1, false⟩, ⟨['\n'], 2, true⟩, ⟨['b'], 3, false⟩], 1, false⟩, none⟩, ⟨0, 6⟩⟩
/-- … and for the CRLF source (one byte more) -/
def a17TimerCRLF : Ev Rat :=
  .timer ⟨⟨some ⟨[⟨['a'], 1, false⟩, ⟨['\r', '\n'], 2, true⟩, ⟨['b'], 4, false⟩], 1, false⟩, none⟩, ⟨0, 7⟩⟩
/-- the collector inside a block in define mode `text` -/
def a17TextState : Col Rat := { block := some (.text []), defineMode := .text }

theorem a17_timer_evsim : EvSim toyCharSpec.uws a17TimerCRLF a17TimerLF := by
  unfold a17TimerCRLF a17TimerLF
  apply EvSim.mk_timer
  refine ⟨?_, trivial⟩
  show LRel (FragSim toyCharSpec.uws) _ _
  refine .cons ⟨rfl, fun _ => rfl, fun h => by cases h⟩ (.cons ⟨rfl, fun h => (by cases h), fun _ => ?_⟩
    (.cons ⟨rfl, fun _ => rfl, fun h => by cases h⟩ .nil))
  constructor <;> decide

theorem a17_textState_colsim : ColSim toyCharSpec.uws a17TextState a17TextState :=
  ⟨rfl, rfl, rfl, rfl, rfl, rfl, rfl, rfl, rfl, trivial, rfl, rfl, rfl, rfl, rfl, rfl, .nil, rfl, rfl⟩

theorem a17_slice_crlf : sliceBytes "~a\r\nb{}".toList 0 7 = some "~a\r\nb{}".toList := by
  simp [sliceBytes, sliceBytes.go]; decide
theorem a17_slice_lf : sliceBytes "~a\nb{}".toList 0 6 = some "~a\nb{}".toList := by
  simp [sliceBytes, sliceBytes.go]; decide

/-- **The exclusion of text define mode is necessary** (for the strict statements
    `processEvent_sim` / `parseEvents_sim` / `crlf_parseRecipe_sim`): source `~a⏎b{}` and its CRLF
    conversion, the two timer events the parser reports (related by `EvSim`), the same collector
    state inside a text-mode block: the results are NOT `ColSim`-related — the text buffer holds the
    source slice, `\r\n` against `\n`.  (The difference is white space only, which the property
    allows; a comment inside the component is copied in the same way, see
    `a17_text_mode_copies_source`, and that difference is not white space.) -/
theorem a17_text_mode_exclusion_needed :
    "~a\r\nb{}".toList = crlf "~a\nb{}".toList ∧
    EvSim toyCharSpec.uws a17TimerCRLF a17TimerLF ∧ ColSim toyCharSpec.uws a17TextState a17TextState ∧
    TextModeSliceAt a17TimerLF a17TextState ∧
    (processEvent a17EnvModes "~a\r\nb{}".toList a17TimerCRLF a17TextState).2.block = some (.text "~a\r\nb{}".toList) ∧
    (processEvent a17EnvModes "~a\nb{}".toList a17TimerLF a17TextState).2.block = some (.text "~a\nb{}".toList) ∧
    ¬ ColSim toyCharSpec.uws (processEvent a17EnvModes "~a\r\nb{}".toList a17TimerCRLF a17TextState).2
        (processEvent a17EnvModes "~a\nb{}".toList a17TimerLF a17TextState).2 := by
  have h1 : (processEvent a17EnvModes "~a\r\nb{}".toList a17TimerCRLF a17TextState).2.block =
      some (.text ([] ++ "~a\r\nb{}".toList)) :=
    a17_text_mode_copies_source a17EnvModes _ a17TimerCRLF rfl a17TextState [] "~a\r\nb{}".toList rfl rfl a17_slice_crlf
  have h2 : (processEvent a17EnvModes "~a\nb{}".toList a17TimerLF a17TextState).2.block =
      some (.text ([] ++ "~a\nb{}".toList)) :=
    a17_text_mode_copies_source a17EnvModes _ a17TimerLF rfl a17TextState [] "~a\nb{}".toList rfl rfl a17_slice_lf
  refine ⟨by decide, a17_timer_evsim, a17_textState_colsim, ⟨rfl, [], rfl⟩, h1, h2, fun h => ?_⟩
  have hb := h.block
  rw [h1, h2] at hb
  simp only [List.nil_append, Option.some.injEq, BlockBuf.text.injEq] at hb
  exact absurd hb (by decide)

/-! ## D. the comparison of the property is an equivalence; edits compose -/

section lrelEquiv
variable {β γ : Type}

theorem LRel.a17_symm {R : β → γ → Prop} {R' : γ → β → Prop} (hR : ∀ a b, R a b → R' b a) {l : List β} {m : List γ}
    (h : LRel R l m) : LRel R' m l := by
  induction h with
  | nil => exact .nil
  | cons h1 _ ih => exact .cons (hR _ _ h1) ih

theorem LRel.a17_trans {R : β → β → Prop} (hR : ∀ a b c, R a b → R b c → R a c) {x y z : List β}
    (h1 : LRel R x y) (h2 : LRel R y z) : LRel R x z :=
  (LRel.comp h1 h2).mono (fun a c ⟨b, hab, hbc⟩ => hR a b c hab hbc)

theorem OptRel.a17_symm {A : β → γ → Prop} {A' : γ → β → Prop} (hA : ∀ a b, A a b → A' b a) {a : Option β} {b : Option γ}
    (h : OptRel A a b) : OptRel A' b a := by
  cases a <;> cases b <;> simp only [OptRel] at h ⊢
  exact hA _ _ h

theorem OptRel.a17_trans {A : β → β → Prop} (hA : ∀ a b c, A a b → A b c → A a c) {a b c : Option β}
    (h1 : OptRel A a b) (h2 : OptRel A b c) : OptRel A a c := by
  cases a <;> cases b <;> cases c <;> simp only [OptRel] at h1 h2 ⊢
  exact hA _ _ _ h1 h2

theorem OptRel.a17_mono {A A' : β → γ → Prop} (hA : ∀ a b, A a b → A' a b) {a : Option β} {b : Option γ}
    (h : OptRel A a b) : OptRel A' a b := by
  cases a <;> cases b <;> simp only [OptRel] at h ⊢
  exact hA _ _ h

end lrelEquiv

theorem LooseContent.a17_symm {ws : Char → Bool} {a b : Content} (h : LooseContent ws a b) : LooseContent ws b a := by
  cases a <;> cases b <;> simp only [LooseContent] at h ⊢
  · exact ⟨h.1.symm, h.2.symm⟩
  · exact h.symm

theorem LooseContent.a17_trans {ws : Char → Bool} {a b c : Content} (h1 : LooseContent ws a b) (h2 : LooseContent ws b c) :
    LooseContent ws a c := by
  cases a <;> cases b <;> cases c <;> simp only [LooseContent] at h1 h2 ⊢
  · exact ⟨h1.1.trans h2.1, h1.2.trans h2.2⟩
  · exact h1.trans h2

theorem LooseSection.a17_symm {ws : Char → Bool} {a b : Section} (h : LooseSection ws a b) : LooseSection ws b a :=
  ⟨h.1.symm, LRel.a17_symm (R := LooseContent ws) (R' := LooseContent ws) (fun _ _ => LooseContent.a17_symm) h.2⟩

theorem LooseSection.a17_trans {ws : Char → Bool} {a b c : Section} (h1 : LooseSection ws a b) (h2 : LooseSection ws b c) :
    LooseSection ws a c :=
  ⟨h1.1.trans h2.1, LRel.a17_trans (R := LooseContent ws) (fun _ _ _ => LooseContent.a17_trans) h1.2 h2.2⟩

/-- a text with every `\r\n` read as `\n` (how the front-matter YAML text is compared: the YAML
    parser is outside the model, and YAML reads both line ends alike) -/
def a17StripCR : List Char → List Char
  | [] => []
  | c :: t => if c = '\r' ∧ t.head? = some '\n' then a17StripCR t else c :: a17StripCR t

theorem a17_crlf_head (t : List Char) : (crlf t).head? ≠ some '\n' := by
  cases t with
  | nil => simp
  | cons c t =>
    simp only [crlf, crlfAux]
    split <;> rename_i h
    · simp
    · intro hh
      simp only [List.cons_append, List.nil_append, List.head?_cons, Option.some.injEq] at hh
      exact h ⟨hh, trivial⟩

theorem a17_strip_crlf (y : List Char) : a17StripCR (crlf y) = a17StripCR y := by
  induction y using crlf_induct with
  | nil => rfl
  | lf t ih =>
    rw [crlf_lf]
    simp [a17StripCR, ih]
  | crlf t ih =>
    rw [crlf_crlf]
    simp [a17StripCR, ih]
  | other c t h1 h2 ih =>
    rw [crlf_other c t h1 h2]
    have h3 : ¬ (c = '\r' ∧ (crlf t).head? = some '\n') := fun h => a17_crlf_head t h.2
    simp only [a17StripCR, h2, h3, if_false, ih]

theorem a17_fromStr_text (s : List Char) (o : Nat) : (Text.fromStr s o).text = s := by
  unfold Text.fromStr
  rw [Text.text_appendStr]
  simp [Text.empty, Text.text]

/-- front-matter texts that read the same -/
def A17FmSame (t' t : Text) : Prop := a17StripCR t'.text = a17StripCR t.text

theorem a17_fmSim_same {uws : Char → Bool} {t' t : Text} (h : FmSim uws t' t) : A17FmSame t' t := by
  unfold A17FmSame
  rcases h with h | ⟨y, o', o, rfl, rfl⟩
  · rw [h.text]
  · rw [a17_fromStr_text, a17_fromStr_text, a17_strip_crlf]

variable {α : Type} [Arith α]

/-- what a diagnostic is compared by: severity, stage, kind, number of labels (label positions
    are source positions and shift under every edit) -/
def a17Sig (d : Diag) : Sev × Stage × String × Nat := (d.sev, d.stage, d.kind, d.labels.length)

/-- **The same recipe up to white space in step text**: sections one to one with equal names, as
    many contents, paragraphs equal, steps with equal numbers and items equal up to white space in
    text runs (component items with the same table indices); the ingredient, cookware, timer and
    inline-quantity tables and the `>>` metadata map EQUAL; front matter on both sides or on
    neither, the YAML text equal up to the spelling of line ends. -/
structure SameCol (ws : Char → Bool) (c' c : Col α) : Prop where
  sections : LRel (LooseSection ws) c'.sections c.sections
  ingredients : c'.ingredients.toList = c.ingredients.toList
  cookware : c'.cookware.toList = c.cookware.toList
  timers : c'.timers.toList = c.timers.toList
  inlineQ : c'.inlineQ = c.inlineQ
  metaMap : c'.metaMap = c.metaMap
  frontMatter : OptRel A17FmSame c'.frontMatter c.frontMatter
  /-- wave 5: the servings derived from the metadata -/
  servings : c'.servings = c.servings

/-- **The comparison the property states** for two results of `parse`: a recipe on both sides or
    on neither, the recipes the same up to white space in step text, the reports with diagnostics
    of the same severity, stage and kind in the same order (hence an error in both or in neither:
    the same validity). -/
structure SameRecipe (ws : Char → Bool) (r' r : AnalysisResult α) : Prop where
  output : OptRel (SameCol ws) r'.output r.output
  diags : r'.diags.toList.map a17Sig = r.diags.toList.map a17Sig

theorem SameCol.a17_refl (ws : Char → Bool) (c : Col α) : SameCol ws c c :=
  ⟨LRel.refl_of (LooseSection.refl ws) _, rfl, rfl, rfl, rfl, rfl, OptRel.refl_of (A := A17FmSame) (fun _ => rfl) _, rfl⟩

theorem SameCol.a17_symm {ws : Char → Bool} {a b : Col α} (h : SameCol ws a b) : SameCol ws b a :=
  ⟨LRel.a17_symm (R := LooseSection ws) (R' := LooseSection ws) (fun _ _ => LooseSection.a17_symm) h.sections, h.ingredients.symm, h.cookware.symm, h.timers.symm,
   h.inlineQ.symm, h.metaMap.symm, OptRel.a17_symm (A := A17FmSame) (A' := A17FmSame) (fun _ _ e => Eq.symm e) h.frontMatter,
   h.servings.symm⟩

theorem SameCol.a17_trans {ws : Char → Bool} {a b c : Col α} (h1 : SameCol ws a b) (h2 : SameCol ws b c) : SameCol ws a c :=
  ⟨LRel.a17_trans (R := LooseSection ws) (fun _ _ _ => LooseSection.a17_trans) h1.sections h2.sections, h1.ingredients.trans h2.ingredients,
   h1.cookware.trans h2.cookware, h1.timers.trans h2.timers, h1.inlineQ.trans h2.inlineQ, h1.metaMap.trans h2.metaMap,
   OptRel.a17_trans (A := A17FmSame) (fun _ _ _ e1 e2 => Eq.trans e1 e2) h1.frontMatter h2.frontMatter,
   h1.servings.trans h2.servings⟩

theorem SameRecipe.a17_refl (ws : Char → Bool) (r : AnalysisResult α) : SameRecipe ws r r :=
  ⟨OptRel.refl_of (A := SameCol ws) (SameCol.a17_refl ws) _, rfl⟩

theorem SameRecipe.a17_symm {ws : Char → Bool} {a b : AnalysisResult α} (h : SameRecipe ws a b) : SameRecipe ws b a :=
  ⟨OptRel.a17_symm (A := SameCol ws) (A' := SameCol ws) (fun _ _ => SameCol.a17_symm) h.output, h.diags.symm⟩

theorem SameRecipe.a17_trans {ws : Char → Bool} {a b c : AnalysisResult α} (h1 : SameRecipe ws a b) (h2 : SameRecipe ws b c) :
    SameRecipe ws a c :=
  ⟨OptRel.a17_trans (A := SameCol ws) (fun _ _ _ => SameCol.a17_trans) h1.output h2.output, h1.diags.trans h2.diags⟩

/-- the same validity: a recipe on both sides or on neither, an error-severity diagnostic in both
    reports or in neither, as many diagnostics -/
theorem SameRecipe.a17_valid {ws : Char → Bool} {a b : AnalysisResult α} (h : SameRecipe ws a b) :
    a.output.isSome = b.output.isSome ∧
    a.diags.toList.any (fun d => d.sev == .error) = b.diags.toList.any (fun d => d.sev == .error) ∧
    a.diags.size = b.diags.size := by
  refine ⟨?_, ?_, ?_⟩
  · have := h.output.isNone
    cases h1 : a.output <;> cases h2 : b.output <;> simp [h1, h2] at this ⊢
  · have e : ∀ l : List Diag, l.any (fun d => d.sev == .error) = (l.map a17Sig).any (fun p => p.1 == .error) := by
      intro l; induction l with
      | nil => rfl
      | cons d l ih => simp [a17Sig, ih]
    rw [e, e, h.diags]
  · have := congrArg List.length h.diags
    simpa using this

/-- every strict result implies the comparison of the property -/
theorem a17_colSim_same {uws : Char → Bool} (ws : Char → Bool) {c' c : Col α} (h : ColSim uws c' c) : SameCol ws c' c :=
  ⟨by rw [h.sections]; exact LRel.refl_of (LooseSection.refl ws) _, by rw [h.ingredients], by rw [h.cookware],
   by rw [h.timers], h.inlineQ, h.metaMap, h.frontMatter.a17_mono (fun _ _ => a17_fmSim_same), h.servings⟩

theorem a17_resSim_same {uws : Char → Bool} (ws : Char → Bool) {r' r : AnalysisResult α} (h : ResSim uws r' r) :
    SameRecipe ws r' r :=
  ⟨h.output.a17_mono (fun _ _ => a17_colSim_same ws),
   h.diags.map_eq _ _ (fun a b hab => by obtain ⟨h1, h2, h3, h4⟩ := hab; simp only [a17Sig, h1, h2, h3, h4])⟩

/-- **Any finite sequence of edits.**  If every step of a sequence of sources `s 0, s 1, …, s n`
    preserves the recipe (in the sense of the property), so does the whole sequence. -/
theorem a17_edits_compose (ws : Char → Bool) (env : Env) (s : Nat → Str) (n : Nat)
    (h : ∀ i, i < n → SameRecipe ws (parseRecipe (α := α) env (s (i + 1))) (parseRecipe (α := α) env (s i))) :
    SameRecipe ws (parseRecipe (α := α) env (s n)) (parseRecipe (α := α) env (s 0)) := by
  induction n with
  | zero => exact SameRecipe.a17_refl ws _
  | succ n ih => exact (h n (Nat.lt_succ_self n)).a17_trans (ih (fun i hi => h i (Nat.lt_succ_of_lt hi)))

/-- the insertion theorem for well-formed documents (`trail_recipe_doc`) in the vocabulary of the
    property -/
theorem a17_insertion_same (env : Env) (ws : Char → Bool) (pre' pre : List Tok) (doc' doc : List (DocItem × List Tok))
    (h' : DocWF α env pre' doc') (h : DocWF α env pre doc)
    (hins : LRel (ItemIns ws) (doc'.map (·.1)) (doc.map (·.1))) :
    SameRecipe ws (parseRecipe (α := α) env (render (pre' ++ docSpec doc')))
      (parseRecipe (α := α) env (render (pre ++ docSpec doc))) := by
  obtain ⟨c', c, e', e, hs, hi, hc, ht, hm, hq, hf, hd⟩ := trail_recipe_doc (α := α) env ws pre' pre doc' doc h' h hins
  rw [e', e]
  refine ⟨?_, hd⟩
  show SameCol ws c' c
  exact ⟨hs, hi, hc, ht, hq, hm, by rw [hf]; exact OptRel.refl_of (A := A17FmSame) (fun _ => rfl) _,
    bl17_insertion_servings env ws pre' pre doc' doc h' h hins c' c (by rw [e']) (by rw [e])⟩

end Cook
