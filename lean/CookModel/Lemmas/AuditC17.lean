import CookModel.Lemmas.TextLaws
import CookModel.Lemmas.LexLaws
import CookModel.Lemmas.SimBlankLines
import CookModel.Lemmas.TrailingSpace
import CookModel.Lemmas.RecipeSimStatic
import CookModel.Lemmas.RecipeSimBlank
import CookModel.Lemmas.TrailInst
/-
  C17, audit wave (tag `a17`):

  A. filler tokens (comments, blanks) inside ANY text run that is read through `text_trimmed`
     (component names, aliases, units, notes, text values, metadata keys, section names): the
     trimmed text does not change.  This is the text-level law behind "block comment between two
     words of a name / quantity" and "trailing comment on a line that ends inside a name".
  B. the backslash exclusion of the CRLF law is necessary already for the NUMBER of blocks.
  C. define mode `text`: the analysis copies the source slice of a component — the precise law, and
     a witness that the exclusion `TextModeSliceAt` of the analysis-level theorem is necessary.
  D. the comparison the property states (`SameRecipe`: same validity, recipe equal up to white
     space in step text) is an equivalence relation; every strict result (`ResSim`) and every
     insertion result implies it; hence any finite sequence of the edits preserves the recipe.
-/
set_option linter.unusedSectionVars false
set_option linter.unusedVariables false
set_option linter.unusedSimpArgs false
namespace Cook

/-! ## A. filler inside a trimmed text run -/

/-- a token that shows nothing but blanks: a comment, or a whitespace token of U+0020 -/
def A17Filler (t : Tok) : Prop :=
  (t.kind = .blockComment ∨ t.kind = .lineComment) ∨ (t.kind = .ws ∧ ∀ c ∈ t.text, c = ' ')

theorem a17_filler_vis {F : List Tok} (hF : ∀ t ∈ F, A17Filler t) : ∀ c ∈ F.flatMap vis, c = ' ' := by
  induction F with
  | nil => simp
  | cons t F ih =>
    intro c hc
    simp only [List.flatMap_cons, List.mem_append] at hc
    rcases hc with hc | hc
    · rcases hF t (by simp) with (h | h) | ⟨h, hb⟩
      · simp [vis, h] at hc
      · simp [vis, h] at hc
      · simp only [vis, h] at hc
        exact hb c hc
    · exact ih (fun t ht => hF t (by simp [ht])) c hc

theorem a17_blanks_snoc : ∀ (S : List Char), S ≠ [] → (∀ c ∈ S, c = ' ') →
    ∃ S0, S = S0 ++ [' '] ∧ ∀ c ∈ S0, c = ' ' := by
  intro S
  induction S with
  | nil => intro h; exact absurd rfl h
  | cons a S ih =>
    intro _ hS
    have ha : a = ' ' := hS a (by simp)
    subst ha
    by_cases hS0 : S = []
    · subst hS0; exact ⟨[], rfl, by simp⟩
    · obtain ⟨S0, e, h0⟩ := ih hS0 (fun c hc => hS c (by simp [hc]))
      refine ⟨' ' :: S0, by rw [e]; rfl, ?_⟩
      intro c hc
      rcases List.mem_cons.1 hc with rfl | hc
      · rfl
      · exact h0 c hc

/-- a non-empty run of blanks inside a text reads, after `text_trimmed`, like one blank -/
theorem a17_trimmedOf_run (ws : Char → Bool) (hsp : ws ' ' = true) (A S B : List Char) (hne : S ≠ [])
    (hS : ∀ c ∈ S, c = ' ') : trimmedOf ws (A ++ S ++ B) = trimmedOf ws (A ++ ' ' :: B) := by
  obtain ⟨S0, rfl, h0⟩ := a17_blanks_snoc S hne hS
  have := tsp_trimmedOf_blanks ws hsp A S0 B h0
  simpa [List.append_assoc] using this

/-- blanks added next to a non-empty run of blanks change nothing after `text_trimmed` -/
theorem a17_trimmedOf_widen (ws : Char → Bool) (hsp : ws ' ' = true) (A S T B : List Char) (hne : S ≠ [])
    (hS : ∀ c ∈ S, c = ' ') (hT : ∀ c ∈ T, c = ' ') :
    trimmedOf ws (A ++ S ++ T ++ B) = trimmedOf ws (A ++ S ++ B) := by
  have h1 := a17_trimmedOf_run ws hsp A (S ++ T) B (by simp [hne])
    (by intro c hc; rcases List.mem_append.1 hc with h | h; exact hS c h; exact hT c h)
  have h2 := a17_trimmedOf_run ws hsp A S B hne hS
  simp only [List.append_assoc] at h1 h2 ⊢
  rw [h1, h2]

/-- **Filler behind a blank inside a trimmed run.**  `xs w F ys` against `xs w ys`, `w` a non-empty
    whitespace token of blanks, `F` comments and blanks: the same `text_trimmed`. -/
theorem a17_buildText_filler_after_blank (cs : CharSpec) (hsp : cs.uws ' ' = true) (off off' : Nat)
    (xs F ys : List Tok) (w : Tok) (hw : w.kind = .ws) (hwt : w.text ≠ []) (hwb : ∀ c ∈ w.text, c = ' ')
    (hF : ∀ t ∈ F, A17Filler t) :
    (buildText off' (xs ++ [w] ++ F ++ ys)).trimmed cs = (buildText off (xs ++ [w] ++ ys)).trimmed cs := by
  rw [tsp_trimmed_eq, tsp_trimmed_eq, buildText_text, buildText_text]
  have e1 : vis w = w.text := by simp [vis, hw]
  simp only [List.flatMap_append, List.flatMap_cons, List.flatMap_nil, List.append_nil, e1]
  exact a17_trimmedOf_widen cs.uws hsp _ _ _ _ hwt hwb (a17_filler_vis hF)

/-- **Filler in front of a line break inside a trimmed run.**  `xs F nl ys` against `xs nl ys`: the
    same `text_trimmed` (the line break reads as one blank). -/
theorem a17_buildText_filler_before_newline (cs : CharSpec) (hsp : cs.uws ' ' = true) (off off' : Nat)
    (xs F ys : List Tok) (nl : Tok) (hn : nl.kind = .newline) (hne : nl.text ≠ [])
    (hF : ∀ t ∈ F, A17Filler t) :
    (buildText off' (xs ++ F ++ [nl] ++ ys)).trimmed cs = (buildText off (xs ++ [nl] ++ ys)).trimmed cs := by
  rw [tsp_trimmed_eq, tsp_trimmed_eq, buildText_text, buildText_text]
  have e2 : vis nl = [' '] := by simp [vis, hn, hne]
  simp only [List.flatMap_append, List.flatMap_cons, List.flatMap_nil, List.append_nil, e2]
  have := tsp_trimmedOf_blanks cs.uws hsp (xs.flatMap vis) (F.flatMap vis) (ys.flatMap vis) (a17_filler_vis hF)
  simpa [List.append_assoc] using this

/-- **Filler at the end of a trimmed run** (a trailing comment behind the last word of a metadata
    value, a section name, the last line of a note …): the same `text_trimmed`. -/
theorem a17_buildText_filler_at_end (cs : CharSpec) (hsp : cs.uws ' ' = true) (off off' : Nat)
    (xs F : List Tok) (hF : ∀ t ∈ F, A17Filler t) :
    (buildText off' (xs ++ F)).trimmed cs = (buildText off xs).trimmed cs := by
  rw [tsp_trimmed_eq, tsp_trimmed_eq, buildText_text, buildText_text]
  simp only [List.flatMap_append]
  have hall : (F.flatMap vis).all cs.uws = true := by
    rw [List.all_eq_true]
    intro c hc
    rw [a17_filler_vis hF c hc]; exact hsp
  unfold trimmedOf
  rw [tsp_trim_append cs.uws _ _ hall]

/-! ## B. the backslash exclusion of the CRLF law is necessary -/

/-- `a\⏎⏎b`: the backslash escapes the line feed, the step goes on … -/
theorem a17_bs_lex : lex toyCharSpec ['a', '\\', '\n', '\n', 'b'] =
    [⟨.word, ['a'], 0⟩, ⟨.escaped, ['\\', '\n'], 1⟩, ⟨.newline, ['\n'], 3⟩, ⟨.word, ['b'], 4⟩] := by
  simp [lex, lexFrom_cons, lexOne, singleKind, singleTable, toyCharSpec, isAsciiDigit, lexFrom, utf8Len]
  decide

/-- … after conversion it escapes the carriage return, and the line ends -/
theorem a17_bs_lex_crlf : lex toyCharSpec (crlf ['a', '\\', '\n', '\n', 'b']) =
    [⟨.word, ['a'], 0⟩, ⟨.escaped, ['\\', '\r'], 1⟩, ⟨.newline, ['\n'], 3⟩, ⟨.newline, ['\r', '\n'], 4⟩,
     ⟨.word, ['b'], 6⟩] := by
  simp [lex, lexFrom_cons, lexOne, crlf, crlfAux, singleKind, singleTable, toyCharSpec, isAsciiDigit, lexFrom, utf8Len]
  decide

theorem a17_bs_blocks :
    (blocksOf (lex toyCharSpec ['a', '\\', '\n', '\n', 'b'])).length = 1 ∧
    (blocksOf (lex toyCharSpec (crlf ['a', '\\', '\n', '\n', 'b']))).length = 2 := by
  rw [a17_bs_lex, a17_bs_lex_crlf]
  decide

/-! ## C. define mode `text`: the source slice of a component is copied -/

variable {α : Type} [Arith α]

def Ev.a17Span : Ev α → Span
  | .ingredient i => i.span
  | .cookware c => c.span
  | .timer t => t.span
  | _ => ⟨0, 0⟩

/-- **The precise law of text mode.**  A component event that meets an open text buffer in define
    mode `text` appends exactly the bytes `input[span]` of the SOURCE to the buffer — whatever the
    event carries (name, quantity, …) is not read.  So everything between the marker and the end of
    the component shows up in the recipe text as written: line ends (`\r\n` or `\n`), blanks, and
    comments. -/
theorem a17_text_mode_copies_source (env : Env) (input : Str) (ev : Ev α) (hev : ev.isComp = true) (c : Col α)
    (buf sl : Str) (hb : c.block = some (.text buf)) (hm : c.defineMode = .text)
    (hsl : sliceBytes input ev.a17Span.start ev.a17Span.stop = some sl) :
    (processEvent env input ev c).2.block = some (.text (buf ++ sl)) := by
  cases ev <;> simp only [Ev.isComp] at hev <;> try (exact absurd hev (by decide))
  all_goals
    simp only [Ev.a17Span] at hsl
    simp [processEvent, inBlockComponent, inTextComponent, A_bind, A_get, A_modify, A_pure, hb, hm, hsl, awarn,
      bind, StateT.bind, get, getThe, MonadStateOf.get, StateT.get, modify, modifyGet, MonadStateOf.modifyGet,
      StateT.modifyGet, pure, StateT.pure]

/-- an environment with the MODES extension on (bit 64), toy character table -/
def a17EnvModes : Env := ⟨toyCharSpec, ⟨64⟩, fun _ => none, fun _ _ => .ok, fun c => [c], 0⟩

/-- the timer `~a⏎b{}` as the parser reports it for the LF source … -/
def a17TimerLF : Ev Rat :=
  .timer ⟨⟨some ⟨[⟨['a'], 1, false⟩, ⟨['\n'], 2, true⟩, ⟨['b'], 3, false⟩], 1, false⟩, none⟩, ⟨0, 6⟩⟩
/-- … and for the CRLF source (one byte more) -/
def a17TimerCRLF : Ev Rat :=
  .timer ⟨⟨some ⟨[⟨['a'], 1, false⟩, ⟨['\r', '\n'], 2, true⟩, ⟨['b'], 4, false⟩], 1, false⟩, none⟩, ⟨0, 7⟩⟩
/-- the collector inside a block in define mode `text` -/
def a17TextState : Col Rat := { block := some (.text []), defineMode := .text }

theorem a17_timer_evsim : EvSim toyCharSpec.uws a17TimerCRLF a17TimerLF := by
  unfold a17TimerCRLF a17TimerLF
  apply EvSim.mk_timer
  refine ⟨?_, trivial⟩
  show LRel (FragSim toyCharSpec.uws) _ _
  refine .cons ⟨rfl, fun _ => rfl, fun h => by cases h⟩ (.cons ⟨rfl, fun h => (by cases h), fun _ => ?_⟩
    (.cons ⟨rfl, fun _ => rfl, fun h => by cases h⟩ .nil))
  constructor <;> decide

theorem a17_textState_colsim : ColSim toyCharSpec.uws a17TextState a17TextState :=
  ⟨rfl, rfl, rfl, rfl, rfl, rfl, rfl, rfl, rfl, trivial, rfl, rfl, rfl, rfl, rfl, rfl, .nil, rfl, rfl⟩

theorem a17_slice_crlf : sliceBytes "~a\r\nb{}".toList 0 7 = some "~a\r\nb{}".toList := by
  simp [sliceBytes, sliceBytes.go]; decide
theorem a17_slice_lf : sliceBytes "~a\nb{}".toList 0 6 = some "~a\nb{}".toList := by
  simp [sliceBytes, sliceBytes.go]; decide

/-- **The exclusion of text define mode is necessary** (for the strict statements
    `processEvent_sim` / `parseEvents_sim` / `crlf_parseRecipe_sim`): source `~a⏎b{}` and its CRLF
    conversion, the two timer events the parser reports (related by `EvSim`), the same collector
    state inside a text-mode block: the results are NOT `ColSim`-related — the text buffer holds the
    source slice, `\r\n` against `\n`.  (The difference is white space only, which the property
    allows; a comment inside the component is copied in the same way, see
    `a17_text_mode_copies_source`, and that difference is not white space.) -/
theorem a17_text_mode_exclusion_needed :
    "~a\r\nb{}".toList = crlf "~a\nb{}".toList ∧
    EvSim toyCharSpec.uws a17TimerCRLF a17TimerLF ∧ ColSim toyCharSpec.uws a17TextState a17TextState ∧
    TextModeSliceAt a17TimerLF a17TextState ∧
    (processEvent a17EnvModes "~a\r\nb{}".toList a17TimerCRLF a17TextState).2.block = some (.text "~a\r\nb{}".toList) ∧
    (processEvent a17EnvModes "~a\nb{}".toList a17TimerLF a17TextState).2.block = some (.text "~a\nb{}".toList) ∧
    ¬ ColSim toyCharSpec.uws (processEvent a17EnvModes "~a\r\nb{}".toList a17TimerCRLF a17TextState).2
        (processEvent a17EnvModes "~a\nb{}".toList a17TimerLF a17TextState).2 := by
  have h1 : (processEvent a17EnvModes "~a\r\nb{}".toList a17TimerCRLF a17TextState).2.block =
      some (.text ([] ++ "~a\r\nb{}".toList)) :=
    a17_text_mode_copies_source a17EnvModes _ a17TimerCRLF rfl a17TextState [] "~a\r\nb{}".toList rfl rfl a17_slice_crlf
  have h2 : (processEvent a17EnvModes "~a\nb{}".toList a17TimerLF a17TextState).2.block =
      some (.text ([] ++ "~a\nb{}".toList)) :=
    a17_text_mode_copies_source a17EnvModes _ a17TimerLF rfl a17TextState [] "~a\nb{}".toList rfl rfl a17_slice_lf
  refine ⟨by decide, a17_timer_evsim, a17_textState_colsim, ⟨rfl, [], rfl⟩, h1, h2, fun h => ?_⟩
  have hb := h.block
  rw [h1, h2] at hb
  simp only [List.nil_append, Option.some.injEq, BlockBuf.text.injEq] at hb
  exact absurd hb (by decide)

end Cook
