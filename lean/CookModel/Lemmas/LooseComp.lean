import CookModel.Lemmas.LooseQty
/-
  C17, wave 5 (tag `bl17`): filler inside the name, the alias, the note and the unit of a component,
  through the component parsers (see Lemmas/LooseLeaf.lean for the vocabulary).
-/
set_option linter.unusedSectionVars false
set_option linter.unusedSimpArgs false
set_option linter.unusedVariables false
namespace Cook

variable {α : Type} [Arith α]

/-- the component `cF` is the component `c` with filler inside its name, alias and note -/
structure CompFiller (cF c : AComp) : Prop where
  mods : cF.mods = c.mods
  name : FillerIn cF.name c.name
  alias : OptRel FillerIn cF.alias c.alias
  note : OptRel FillerIn cF.note c.note
  qty : OptRel QtyFiller cF.qty c.qty

theorem CompFiller.refl (c : AComp) : CompFiller c c :=
  ⟨rfl, .same _, OptRel.refl_of (A := FillerIn) (fun l => .same l) _, OptRel.refl_of (A := FillerIn) (fun l => .same l) _,
   OptRel.refl_of (A := QtyFiller) QtyFiller.refl _⟩

theorem bl17Pad_not_or {u : Tok} (h : bl17Pad u) : u.kind ≠ .or := by
  rcases h with h | h
  · rw [h]; decide
  · rw [h.1]; decide

/-- `rt_comp_steps` for the spelling of a component with filler in its name, alias and note -/
theorem bl17_comp_steps (mk : TK) (marker : Tok) (hmarker : marker.kind = mk) (cF c : AComp) (hF : CompFiller cF c)
    (p : CPad) (s : BP α) (hsp : s.cs.uws ' ' = true)
    (hwf : c.wf s.cs s.ext = true) (hp : p.ok s.cs = true)
    (A ts rest : List Tok) (hs : Spells ts (spellComp marker cF p)) (ht : s.toks = A ++ (ts ++ rest))
    (hc : s.cur = A.length) (hrest : restOK c rest = true) (hrun : RunAt (baseOff s.toks) s.toks) :
    ∃ (tm : Tok) (mt nameT Q : List Tok) (tob tcb : Tok) (name : Text) (alias note : Option Text) (c2 c3 : Nat),
      consumeK mk s = (some tm, { s with cur := A.length + 1 }) ∧
      modifiersP ({ s with cur := A.length + 1 } : BP α) = (mt, { s with cur := c2 }) ∧
      compBody ({ s with cur := c2 } : BP α) =
        (some ⟨nameT, some ⟨tob.start, tcb.stop⟩, if Q.any (fun t => !isPadK t) then some Q else none⟩,
          { s with cur := c3 }) ∧
      noteP ({ s with cur := c3 } : BP α) = (note, { s with cur := A.length + ts.length }) ∧
      (∀ container, parseAlias container nameT (offAt s.toks c2) ({ s with cur := A.length + ts.length } : BP α) =
        ((name, alias), { s with cur := A.length + ts.length })) ∧
      name.isTextEmpty s.cs = false ∧ name.trimmed s.cs = leafText c.name ∧
      alias.map (fun t => t.trimmed s.cs) = c.alias.map leafText ∧
      note.map (fun t => t.trimmed s.cs) = c.note.map leafText ∧
      Spells mt (spellMods c.mods) ∧
      Spells Q (match cF.qty with | some q => spellQty q p.q | none => p.e) ∧
      RunAt (baseOff Q) Q ∧
      (Q.any (fun t => !isPadK t) = c.qty.isSome) := by
  simp only [AComp.wf, Bool.and_eq_true] at hwf
  obtain ⟨⟨⟨⟨⟨⟨⟨⟨hname, hmk⟩, hmnd⟩, hmext⟩, hmhead⟩, hnor⟩, halias⟩, hnote⟩, hqty⟩ := hwf
  simp only [CPad.ok, Bool.and_eq_true] at hp
  obtain ⟨⟨⟨⟨hpn1, hpa0⟩, hpa1⟩, hpq⟩, hpe⟩ := hp
  obtain ⟨tm, mt, nm, n1, al, tob, Q, tcb, nt, rfl, htmk, hmt, hnm, hn1, hal, hobk, hQ, hcbk, hnt⟩ := rt_comp_decomp hs
  rw [hF.mods] at hmt
  rw [hmarker] at htmk
  have lf := leafOK_facts hname
  -- the head of the name
  obtain ⟨u, ur, hu, hau⟩ := lf.head
  obtain ⟨ur', hu'⟩ := hF.name.head hu
  have hnm0 := hnm
  rw [hu'] at hnm0
  obtain ⟨hd, nmr, hnmeq, hhdk, -, -⟩ := hnm0.cons_inv
  subst hnmeq
  have hnmk := bl17_leaf_kinds hname hF.name hnm
  have hn1k := pad_kinds hpn1 hn1
  have hhd_nk : nameKind hd.kind = true := by rw [hhdk]; exact (isAtomTok_facts hau).1
  -- kinds of the alias part
  have halk : ∀ t ∈ al, nameKind t.kind = true ∨ t.kind = .ws ∨ t.kind = .blockComment := by
    intro t ht'
    rcases hF.alias.elim with ⟨eF, e⟩ | ⟨aF, a, eF, e, haF⟩
    · rw [eF] at hal; simp only [spellAlias] at hal; rw [hal.nil_inv] at ht'; simp at ht'
    · rw [eF] at hal
      rw [e] at halias
      simp only [Bool.and_eq_true] at halias
      simp only [spellAlias, List.append_assoc, List.cons_append, List.nil_append] at hal
      obtain ⟨tor, r, rfl, hork, -, hal⟩ := hal.cons_inv
      obtain ⟨a0, r, rfl, ha0, hal⟩ := hal.append_inv
      obtain ⟨ta, a1, rfl, hta, ha1⟩ := hal.append_inv
      simp only [List.mem_cons, List.mem_append] at ht'
      rcases ht' with rfl | ht' | ht' | ht'
      · left; rw [hork]; rfl
      · right; exact pad_kinds hpa0 ha0 t ht'
      · exact bl17_leaf_kinds halias.1.2 haF hta t ht'
      · right; exact pad_kinds hpa1 ha1 t ht'
  have hnameTk : ∀ t ∈ hd :: nmr ++ n1 ++ al, (t.kind == .openBrace || isMarker t.kind) = false := by
    intro t ht'
    rcases List.mem_append.mp ht' with ht' | ht'
    · rcases List.mem_append.mp ht' with ht' | ht'
      · exact (nameKind_excl (hnmk t ht')).1
      · exact (nameKind_excl (Or.inr (hn1k t ht'))).1
    · exact (nameKind_excl (halk t ht')).1
  -- the quantity tokens
  have hQfacts : (∀ t ∈ Q, t.kind ≠ .closeBrace) ∧ Q.any (fun t => !isPadK t) = c.qty.isSome := by
    rcases hF.qty.elim with ⟨eF, hcq⟩ | ⟨qF, q, eF, hcq, hqF⟩
    · rw [eF] at hQ
      have := pad_kinds hpe hQ
      refine ⟨fun t ht' => by rcases this t ht' with h' | h' <;> simp [h'], ?_⟩
      simp only [hcq, Option.isSome_none, List.any_eq_false]
      intro t ht'
      rcases this t ht' with h' | h' <;> simp [isPadK, h']
    · rw [eF] at hQ
      rw [hcq] at hqty
      simp only [Bool.and_eq_true] at hqty
      have := bl17_qty_kinds qF q hqF p.q hqty.1.1 hpq Q hQ
      exact ⟨this.1, by simp [this.2, hcq]⟩
  -- the whole token list, in the shapes the primitives want
  have e1 : s.toks = A ++ tm :: (mt ++ hd :: (nmr ++ n1 ++ al ++ tob :: (Q ++ tcb :: (nt ++ rest)))) := by
    rw [ht]; simp
  have h1 := consumeK_split_some mk s A tm _ e1 hc htmk
  -- modifiers
  have hmtk : ∀ m ∈ mt, modKind m.kind = true := by
    intro m hm
    obtain ⟨u', hu', hk', -⟩ := hmt.mem hm
    simp only [spellMods, List.mem_map] at hu'
    obtain ⟨k, hk, rfl⟩ := hu'
    rw [hk']; rw [List.all_eq_true] at hmk; exact hmk k hk
  have h2 : modifiersP ({ s with cur := A.length + 1 } : BP α) = (mt, { s with cur := A.length + 1 + mt.length }) := by
    by_cases hext : s.ext.has Gen.EXT_COMPONENT_MODIFIERS = true
    · have hx : modKind hd.kind = false := by
        simp only [Ext.modifiers, hext, Bool.not_true, Bool.false_or, hu, List.head?_cons, Option.all_some] at hmhead
        rw [hhdk]; simpa using hmhead
      have := modifiersP_on ({ s with cur := A.length + 1 } : BP α) hext (A ++ [tm]) mt hd
        (nmr ++ n1 ++ al ++ tob :: (Q ++ tcb :: (nt ++ rest))) (by rw [e1]; simp) (by simp) hmtk hx
        (nameKind_excl (Or.inl hhd_nk)).2.1
      rw [this]; simp
    · have hext' : s.ext.has Gen.EXT_COMPONENT_MODIFIERS = false := by simpa using hext
      simp only [Ext.modifiers, hext', Bool.or_false, List.isEmpty_iff] at hmext
      rw [hmext] at hmt
      simp only [spellMods, List.map_nil] at hmt
      have := hmt.nil_inv; subst this
      rw [modifiersP_off ({ s with cur := A.length + 1 } : BP α) hext']; rfl
  -- body
  have h3 := compBody_run ({ s with cur := A.length + 1 + mt.length } : BP α) (A ++ tm :: mt)
    (hd :: nmr ++ n1 ++ al) tob Q tcb (nt ++ rest) (by rw [e1]; simp) (by simp; omega) hnameTk hobk hQfacts.1 hcbk
  -- the note
  have hnoteR : ∃ note : Option Text,
      noteP ({ s with cur := (A ++ tm :: mt).length + (hd :: nmr ++ n1 ++ al).length + 1 + Q.length + 1 } : BP α) =
        (note, { s with cur := A.length + (tm :: (mt ++ (hd :: nmr ++ n1 ++ al ++ tob :: (Q ++ tcb :: nt)))).length }) ∧
      note.map (fun t => t.trimmed s.cs) = c.note.map leafText := by
    rcases hF.note.elim with ⟨eF, hcn⟩ | ⟨nF, n, eF, hcn, hnF⟩
    · rw [eF] at hnt
      simp only [spellNote] at hnt
      have := hnt.nil_inv; subst this
      refine ⟨none, ?_, by rw [hcn]; rfl⟩
      have hr : ∀ t, rest.head? = some t → t.kind ≠ .openParen := by
        intro t ht'
        simp only [restOK, hcn, Option.isSome_none, Bool.false_or, ht', Option.all_some, bne_iff_ne] at hrest
        simpa using hrest
      rw [noteP_none _ (A ++ tm :: mt ++ (hd :: nmr ++ n1 ++ al) ++ [tob] ++ Q ++ [tcb]) rest
        (by rw [e1]; simp) (by lenarith) hr]
      congr 2
      lenarith
    · rw [eF] at hnt
      rw [hcn] at hnote
      simp only [spellNote, List.append_assoc, List.cons_append, List.nil_append] at hnt
      obtain ⟨top, r, rfl, hopk, -, hnt⟩ := hnt.cons_inv
      obtain ⟨N, r, rfl, hN, hnt⟩ := hnt.append_inv
      obtain ⟨tcp, rfl, hcpk, -⟩ := hnt.single_inv
      simp only [tk] at hopk hcpk
      have hNk : ∀ t ∈ N, t.kind ≠ .closeParen := by
        intro t ht'
        rcases bl17_leaf_kinds hnote hnF hN t ht' with h' | h' | h'
        · cases hk : t.kind <;> simp [noteKind, nameKind, hk] at h' ⊢
        · simp [h']
        · simp [h']
      have hrN : RunAt top.stop N := by
        have := rt_runAt_mid hrun (A ++ tm :: mt ++ (hd :: nmr ++ n1 ++ al) ++ [tob] ++ Q ++ [tcb] ++ [top]) N
          (tcp :: rest) (by rw [e1]; simp)
        rw [e1] at this
        have e2 : A ++ tm :: (mt ++ hd :: (nmr ++ n1 ++ al ++ tob :: (Q ++ tcb :: (top :: (N ++ [tcp]) ++ rest)))) =
            (A ++ tm :: mt ++ (hd :: nmr ++ n1 ++ al) ++ [tob] ++ Q ++ [tcb]) ++ top :: (N ++ tcp :: rest) := by simp
        rw [e2, List.length_append, List.length_singleton, offAt_after] at this
        exact this
      refine ⟨some (buildText top.stop N), ?_, ?_⟩
      · rw [noteP_some _ (A ++ tm :: mt ++ (hd :: nmr ++ n1 ++ al) ++ [tob] ++ Q ++ [tcb]) top N tcp rest
          (by rw [e1]; simp) (by lenarith) hopk hNk hcpk hrN]
        congr 2
        lenarith
      · have := bl17_leaf_text (cs := s.cs) (allowed := noteKind) (pre := []) (l := n) (lF := nF) (post := []) (ts := N)
          (by simpa using hN) rfl rfl hnote hnF hsp top.stop
        rw [hcn]
        simp [this.1]
  obtain ⟨note, hnoteP, hnoteT⟩ := hnoteR
  -- name and alias
  have hrunName : RunAt (offAt s.toks (A.length + 1 + mt.length)) (hd :: nmr ++ n1 ++ al) := by
    have := rt_runAt_mid hrun (A ++ tm :: mt) (hd :: nmr ++ n1 ++ al) (tob :: (Q ++ tcb :: (nt ++ rest)))
      (by rw [e1]; simp)
    have e2 : (A ++ tm :: mt).length = A.length + 1 + mt.length := by lenarith
    rwa [e2] at this
  have hnoOr : s.ext.has Gen.EXT_COMPONENT_ALIAS = true → ∀ t ∈ hd :: nmr ++ n1, t.kind ≠ .or := by
    intro hext t ht'
    rcases List.mem_append.mp ht' with ht' | ht'
    · obtain ⟨u', hu', hk', -⟩ := hnm.mem ht'
      simp only [Ext.alias, hext, Bool.not_true, Bool.false_or, List.all_eq_true, bne_iff_ne] at hnor
      rw [hk']
      rcases hF.name.mem hu' with h' | h'
      · exact hnor u' h'
      · exact bl17Pad_not_or h'
    · rcases hn1k t ht' with h' | h' <;> simp [h']
  have hnameLeaf := fun off => bl17_leaf_text (cs := s.cs) (allowed := nameKind) (pre := []) (l := c.name)
    (lF := cF.name) (post := p.n1)
    (ts := hd :: nmr ++ n1) (by simpa using hnm.append hn1) rfl hpn1 hname hF.name hsp off
  have haliasR : ∃ (name : Text) (alias : Option Text),
      (∀ container (s' : BP α), s'.ext = s.ext → s'.cs = s.cs →
        parseAlias container (hd :: nmr ++ n1 ++ al) (offAt s.toks (A.length + 1 + mt.length)) s' = ((name, alias), s')) ∧
      name.isTextEmpty s.cs = false ∧ name.trimmed s.cs = leafText c.name ∧
      alias.map (fun t => t.trimmed s.cs) = c.alias.map leafText := by
    rcases hF.alias.elim with ⟨eF, hca⟩ | ⟨aF, a, eF, hca, haF⟩
    · rw [eF] at hal
      simp only [spellAlias] at hal
      have := hal.nil_inv; subst this
      simp only [List.append_nil] at hrunName ⊢
      refine ⟨buildText (offAt s.toks (A.length + 1 + mt.length)) (hd :: nmr ++ n1), none, ?_, (hnameLeaf _).2,
        (hnameLeaf _).1, by rw [hca]; rfl⟩
      intro container s' he hcs
      apply parseAlias_none container _ _ s' hrunName
      by_cases hext : s.ext.has Gen.EXT_COMPONENT_ALIAS = true
      · right; exact hnoOr hext
      · left; rw [he]; simpa using hext
    · rw [eF] at hal
      rw [hca] at halias
      simp only [Bool.and_eq_true] at halias
      obtain ⟨⟨hext, haleaf⟩, hanor⟩ := halias
      simp only [Ext.alias] at hext
      simp only [spellAlias, List.append_assoc, List.cons_append, List.nil_append] at hal
      obtain ⟨tor, aliasT, rfl, hork, -, haT⟩ := hal.cons_inv
      simp only [tk] at hork
      have hsplit := (runAt_append _ _ _).mp hrunName
      have hrA : RunAt tor.stop aliasT := rt_runAt_tail hsplit.2
      have haliasLeaf := bl17_leaf_text (cs := s.cs) (allowed := nameKind) (pre := p.a0) (l := a) (lF := aF) (post := p.a1)
        (ts := aliasT) (by simpa using haT) hpa0 hpa1 haleaf haF hsp tor.stop
      have haTk : ∀ t ∈ aliasT, t.kind ≠ .or := by
        intro t ht'
        obtain ⟨u', hu', hk', -⟩ := haT.mem ht'
        rw [hk']
        simp only [List.mem_append] at hu'
        rcases hu' with hu' | hu' | hu'
        · rcases padOK_padT hpa0 u' hu' with h' | h' <;> simp [h']
        · rcases haF.mem hu' with h' | h'
          · rw [List.all_eq_true] at hanor; simpa using hanor u' h'
          · exact bl17Pad_not_or h'
        · rcases padOK_padT hpa1 u' hu' with h' | h' <;> simp [h']
      refine ⟨buildText (offAt s.toks (A.length + 1 + mt.length)) (hd :: nmr ++ n1),
        some (buildText tor.stop aliasT), ?_, (hnameLeaf _).2, (hnameLeaf _).1, by rw [hca]; simp [haliasLeaf.1]⟩
      intro container s' he hcs
      exact parseAlias_some container (hd :: nmr ++ n1) tor aliasT _ s' (by rw [he]; exact hext) (hnoOr hext) hork
        haTk hsplit.1 hrA (by rw [hcs]; exact haliasLeaf.2)
  obtain ⟨name, alias, hparseAlias, hnameNE, hnameT, haliasT⟩ := haliasR
  have hrunQ : RunAt (baseOff Q) Q :=
    (rt_runAt_mid hrun (A ++ tm :: mt ++ (hd :: nmr ++ n1 ++ al) ++ [tob]) Q (tcb :: (nt ++ rest))
      (by rw [e1]; simp)).base
  refine ⟨tm, mt, hd :: nmr ++ n1 ++ al, Q, tob, tcb, name, alias, note, _, _, h1, h2, h3, hnoteP, ?_, hnameNE, hnameT,
    haliasT, hnoteT, hmt, hQ, hrunQ, hQfacts.2⟩
  intro container
  exact hparseAlias container _ rfl rfl

/-- **`ingredient` with filler inside name / alias / note**: the event matches the clean component -/
theorem bl17_ingredientP (cF c : AComp) (hF : CompFiller cF c) (p : CPad) (s : BP α) (hsp : s.cs.uws ' ' = true)
    (hwf : c.wf s.cs s.ext = true) (hp : p.ok s.cs = true)
    (A ts rest : List Tok) (hs : Spells ts (spellIngredient cF p)) (ht : s.toks = A ++ (ts ++ rest))
    (hc : s.cur = A.length) (hrest : restOK c rest = true) (hrun : RunAt (baseOff s.toks) s.toks) :
    ∃ ing : PIngredient α,
      ingredientP s = (some (.ingredient ⟨ing, ⟨offAt s.toks A.length, offAt s.toks (A.length + ts.length)⟩⟩),
        { s with cur := A.length + ts.length }) ∧ IngrMatches s.cs c ing := by
  obtain ⟨tm, mt, nameT, Q, tob, tcb, name, alias, note, c2, c3, h1, h2, h3, h4, h5, hnameNE, hnameT, haliasT, hnoteT,
    hmt, hQ, hrunQ, hQany⟩ := bl17_comp_steps .at (tk .at ['@']) rfl cF c hF p s hsp hwf hp A ts rest hs ht hc hrest hrun
  have hwf' := hwf
  simp only [AComp.wf, Bool.and_eq_true] at hwf'
  obtain ⟨⟨⟨⟨⟨⟨⟨⟨hname, hmk⟩, hmnd⟩, hmext⟩, hmhead⟩, hnor⟩, halias⟩, hnote⟩, hqty⟩ := hwf'
  simp only [CPad.ok, Bool.and_eq_true] at hp
  obtain ⟨⟨⟨⟨hpn1, hpa0⟩, hpa1⟩, hpq⟩, hpe⟩ := hp
  obtain ⟨mspan, hpm⟩ := parseModifiers_run (α := α) c.mods mt (offAt s.toks (A.length + 1))
    ({ s with cur := A.length + ts.length } : BP α) hmt hmk (by simpa using hmnd)
  have hce := checkEmptyName_run "ingredient" name ({ s with cur := A.length + ts.length } : BP α) hnameNE
  unfold ingredientP
  simp only [bind, StateT.bind, currentOffset_run, h1, h2, h3, h4, h5, hce, hpm, hQany]
  rcases hF.qty.elim with ⟨eF, hcq⟩ | ⟨qF, q, eF, hcq, hqF⟩
  · simp only [hcq, Option.isSome_none, Bool.false_eq_true, if_false, pure, StateT.pure, hc]
    refine ⟨_, rfl, ?_⟩
    refine ⟨hnameT, haliasT, hnoteT, rfl, rfl, ?_⟩
    rw [hcq]; trivial
  · rw [eF] at hQ
    rw [hcq] at hqty
    simp only [Bool.and_eq_true, Bool.or_eq_true, Bool.not_eq_true'] at hqty
    obtain ⟨vspan, lspan, unitT, sep, hpq', hl, hunit, hsep⟩ := bl17_parseQuantity qF q hqF p.q
      ({ s with cur := A.length + ts.length } : BP α) hsp hqty.1.1 hpq
      (by intro hr; rcases hqty.1.2 with h | h; · rw [hr] at h; cases h
          · exact h)
      (by intro ha; rcases hqty.2 with h | h; · rw [ha] at h; cases h
          · exact h)
      Q hQ hrunQ
    simp only [hcq, Option.isSome_some, if_true, StateT.bind, hpq', pure, StateT.pure, hc]
    refine ⟨_, rfl, ?_⟩
    refine ⟨hnameT, haliasT, hnoteT, rfl, rfl, ?_⟩
    rw [hcq]
    exact ⟨rfl, hl, hunit⟩

/-- **`cookware` with filler inside name / alias / note** -/
theorem bl17_cookwareP (cF c : AComp) (hF : CompFiller cF c) (p : CPad) (s : BP α) (hsp : s.cs.uws ' ' = true)
    (hwfc : c.wfCookware s.cs s.ext = true) (hp : p.ok s.cs = true)
    (A ts rest : List Tok) (hs : Spells ts (spellCookware cF p)) (ht : s.toks = A ++ (ts ++ rest))
    (hc : s.cur = A.length) (hrest : restOK c rest = true) (hrun : RunAt (baseOff s.toks) s.toks) :
    ∃ cw : PCookware α,
      cookwareP s = (some (.cookware ⟨cw, ⟨offAt s.toks A.length, offAt s.toks (A.length + ts.length)⟩⟩),
        { s with cur := A.length + ts.length }) ∧ CwMatches s.cs c cw := by
  simp only [AComp.wfCookware, Bool.and_eq_true, Bool.not_eq_true'] at hwfc
  obtain ⟨⟨hwf, hnoat⟩, hnounit⟩ := hwfc
  obtain ⟨tm, mt, nameT, Q, tob, tcb, name, alias, note, c2, c3, h1, h2, h3, h4, h5, hnameNE, hnameT, haliasT, hnoteT,
    hmt, hQ, hrunQ, hQany⟩ := bl17_comp_steps .hash (tk .hash ['#']) rfl cF c hF p s hsp hwf hp A ts rest hs ht hc hrest hrun
  have hwf' := hwf
  simp only [AComp.wf, Bool.and_eq_true] at hwf'
  obtain ⟨⟨⟨⟨⟨⟨⟨⟨hname, hmk⟩, hmnd⟩, hmext⟩, hmhead⟩, hnor⟩, halias⟩, hnote⟩, hqty⟩ := hwf'
  simp only [CPad.ok, Bool.and_eq_true] at hp
  obtain ⟨⟨⟨⟨hpn1, hpa0⟩, hpa1⟩, hpq⟩, hpe⟩ := hp
  obtain ⟨mspan, hpm⟩ := parseModifiers_run (α := α) c.mods mt (offAt s.toks (A.length + 1))
    ({ s with cur := A.length + ts.length } : BP α) hmt hmk (by simpa using hmnd)
  have hce := checkEmptyName_run "cookware" name ({ s with cur := A.length + ts.length } : BP α) hnameNE
  have hrec := modsOf_no_recipe c.mods hmk hnoat
  unfold cookwareP
  simp only [bind, StateT.bind, currentOffset_run, h1, h2, h3, h4, h5, hce, hQany]
  rcases hF.qty.elim with ⟨eF, hcq⟩ | ⟨qF, q, eF, hcq, hqF⟩
  · simp only [hcq, Option.isSome_none, Bool.false_eq_true, if_false, pure, StateT.pure, hpm, hrec, hc]
    refine ⟨_, rfl, ?_⟩
    refine ⟨hnameT, haliasT, hnoteT, rfl, ?_⟩
    rw [hcq]; trivial
  · rw [eF] at hQ
    rw [hcq] at hqty hnounit
    simp only [Bool.and_eq_true, Bool.or_eq_true, Bool.not_eq_true'] at hqty
    obtain ⟨vspan, lspan, unitT, sep, hpq', hl, hunit, hsep⟩ := bl17_parseQuantity qF q hqF p.q
      ({ s with cur := A.length + ts.length } : BP α) hsp hqty.1.1 hpq
      (by intro hr; rcases hqty.1.2 with h | h; · rw [hr] at h; cases h
          · exact h)
      (by intro ha; rcases hqty.2 with h | h; · rw [ha] at h; cases h
          · exact h)
      Q hQ hrunQ
    have hun : unitT = none := by
      have hqn : q.unit = none := by simpa using hnounit
      rw [hqn] at hunit
      cases unitT <;> simp_all
    subst hun
    simp only [hcq, Option.isSome_some, if_true, bind, StateT.bind, hpq', pure, StateT.pure, hpm, hrec,
      Bool.false_eq_true, if_false, hc]
    refine ⟨_, rfl, ?_⟩
    refine ⟨hnameT, haliasT, hnoteT, rfl, ?_⟩
    rw [hcq]
    exact ⟨rfl, hl⟩

/-! ### two events that match the same abstract component are `EvLoose`-related -/

theorem bl17_optTrim_of_eq {cs : CharSpec} {a' a : Option Text} {x : Option (List Char)}
    (h' : a'.map (fun t => t.trimmed cs) = x) (h : a.map (fun t => t.trimmed cs) = x) : OptRel (TrimEq cs) a' a := by
  cases a' <;> cases a <;> cases x <;> simp_all [OptRel, TrimEq]

theorem bl17_qty_loose {cs : CharSpec} {q : Option AQty} {a' a : Option (Loc (PQuantity α))}
    (h' : QtyMatches cs q a') (h : QtyMatches cs q a) : OptRel (LocSim (PQuantityLoose cs)) a' a := by
  cases q <;> cases a' <;> cases a <;> simp only [QtyMatches] at h' h <;> simp only [OptRel]
  rename_i q x' x
  refine ⟨⟨by rw [h'.1, h.1], by rw [h'.2.1, h.2.1]⟩, bl17_optTrim_of_eq h'.2.2 h.2.2⟩

theorem bl17_cwQty_loose {q : Option AQty} {a' a : Option (Loc (PQValue α))}
    (h' : CwQtyMatches q a') (h : CwQtyMatches q a) : OptRel (LocSim PQValueSim) a' a := by
  cases q <;> cases a' <;> cases a <;> simp only [CwQtyMatches] at h' h <;> simp only [OptRel]
  rename_i q x' x
  exact ⟨by rw [h'.1, h.1], by rw [h'.2, h.2]⟩

theorem bl17_ingr_loose {cs : CharSpec} {c : AComp} {i' i : PIngredient α} (h' : IngrMatches cs c i')
    (h : IngrMatches cs c i) : PIngredientLoose cs i' i := by
  obtain ⟨a1, a2, a3, a4, a5, a6⟩ := h'
  obtain ⟨b1, b2, b3, b4, b5, b6⟩ := h
  refine ⟨by rw [a4, b4], by rw [a5, b5]; trivial, by unfold TrimEq; rw [a1, b1], bl17_optTrim_of_eq a2 b2,
    bl17_qty_loose a6 b6, bl17_optTrim_of_eq a3 b3⟩

theorem bl17_cw_loose {cs : CharSpec} {c : AComp} {i' i : PCookware α} (h' : CwMatches cs c i')
    (h : CwMatches cs c i) : PCookwareLoose cs i' i := by
  obtain ⟨a1, a2, a3, a4, a5⟩ := h'
  obtain ⟨b1, b2, b3, b4, b5⟩ := h
  exact ⟨by rw [a4, b4], by unfold TrimEq; rw [a1, b1], bl17_optTrim_of_eq a2 b2, bl17_cwQty_loose a5 b5,
    bl17_optTrim_of_eq a3 b3⟩

theorem bl17_timer_loose {cs : CharSpec} {c : ATimer} {t' t : PTimer α} (h' : TimerMatches cs c t')
    (h : TimerMatches cs c t) : PTimerLoose cs t' t :=
  ⟨bl17_optTrim_of_eq h'.1 h.1, bl17_qty_loose h'.2 h.2⟩

/-- **Ingredient, filler against clean spelling.**  The same parser state shape on both sides
    (`A' … rest'` / `A … rest` are whatever surrounds the component: any offsets, any tokens), the
    spelling of `cF` against the spelling of `c`: the two `ingredient` runs succeed, consume exactly
    the component, and the two events are `EvLoose`-related. -/
theorem bl17_ingredient_filler_loose (cF c : AComp) (hF : CompFiller cF c) (p' p : CPad) (s' s : BP α)
    (hcs : s'.cs = s.cs) (hext : s'.ext = s.ext) (hsp : s.cs.uws ' ' = true)
    (hwf : c.wf s.cs s.ext = true) (hp' : p'.ok s.cs = true) (hp : p.ok s.cs = true)
    (A' ts' rest' A ts rest : List Tok) (hs' : Spells ts' (spellIngredient cF p')) (hs : Spells ts (spellIngredient c p))
    (ht' : s'.toks = A' ++ (ts' ++ rest')) (ht : s.toks = A ++ (ts ++ rest))
    (hc' : s'.cur = A'.length) (hc : s.cur = A.length) (hrest' : restOK c rest' = true) (hrest : restOK c rest = true)
    (hrun' : RunAt (baseOff s'.toks) s'.toks) (hrun : RunAt (baseOff s.toks) s.toks) :
    ∃ ev' ev : Ev α, ingredientP s' = (some ev', { s' with cur := A'.length + ts'.length }) ∧
      ingredientP s = (some ev, { s with cur := A.length + ts.length }) ∧ EvLoose s.cs ev' ev := by
  obtain ⟨i', h1', h2'⟩ := bl17_ingredientP cF c hF p' s' (by rw [hcs]; exact hsp) (by rw [hcs, hext]; exact hwf)
    (by rw [hcs]; exact hp') A' ts' rest' hs' ht' hc' hrest' hrun'
  obtain ⟨i, h1, h2⟩ := rt_ingredientP c p s hwf hp A ts rest hs ht hc hrest hrun
  rw [hcs] at h2'
  exact ⟨_, _, h1', h1, bl17_ingr_loose h2' h2⟩

/-- **Cookware, filler against clean spelling.** -/
theorem bl17_cookware_filler_loose (cF c : AComp) (hF : CompFiller cF c) (p' p : CPad) (s' s : BP α)
    (hcs : s'.cs = s.cs) (hext : s'.ext = s.ext) (hsp : s.cs.uws ' ' = true)
    (hwf : c.wfCookware s.cs s.ext = true) (hp' : p'.ok s.cs = true) (hp : p.ok s.cs = true)
    (A' ts' rest' A ts rest : List Tok) (hs' : Spells ts' (spellCookware cF p')) (hs : Spells ts (spellCookware c p))
    (ht' : s'.toks = A' ++ (ts' ++ rest')) (ht : s.toks = A ++ (ts ++ rest))
    (hc' : s'.cur = A'.length) (hc : s.cur = A.length) (hrest' : restOK c rest' = true) (hrest : restOK c rest = true)
    (hrun' : RunAt (baseOff s'.toks) s'.toks) (hrun : RunAt (baseOff s.toks) s.toks) :
    ∃ ev' ev : Ev α, cookwareP s' = (some ev', { s' with cur := A'.length + ts'.length }) ∧
      cookwareP s = (some ev, { s with cur := A.length + ts.length }) ∧ EvLoose s.cs ev' ev := by
  obtain ⟨i', h1', h2'⟩ := bl17_cookwareP cF c hF p' s' (by rw [hcs]; exact hsp) (by rw [hcs, hext]; exact hwf)
    (by rw [hcs]; exact hp') A' ts' rest' hs' ht' hc' hrest' hrun'
  obtain ⟨i, h1, h2⟩ := rt_cookwareP c p s hwf hp A ts rest hs ht hc hrest hrun
  rw [hcs] at h2'
  exact ⟨_, _, h1', h1, bl17_cw_loose h2' h2⟩

/-! ### timers -/

/-- the timer `cF` is the timer `c` with filler inside its name and the unit of its quantity -/
structure TimerFiller (cF c : ATimer) : Prop where
  name : OptRel FillerIn cF.name c.name
  qty : OptRel QtyFiller cF.qty c.qty

theorem TimerFiller.refl (c : ATimer) : TimerFiller c c :=
  ⟨OptRel.refl_of (A := FillerIn) (fun l => .same l) _, OptRel.refl_of (A := QtyFiller) QtyFiller.refl _⟩

/-- **`timer` with filler inside the name / the unit**: the event matches the clean timer -/
theorem bl17_timerP (cF c : ATimer) (hF : TimerFiller cF c) (p : CPad) (s : BP α) (hsp : s.cs.uws ' ' = true)
    (hwf : c.wf s.cs s.ext = true) (hp : p.ok s.cs = true)
    (A ts rest : List Tok) (hs : Spells ts (spellTimer cF p)) (ht : s.toks = A ++ (ts ++ rest))
    (hc : s.cur = A.length) (hrest : noParenNext rest = true) (hrun : RunAt (baseOff s.toks) s.toks) :
    ∃ tmr : PTimer α,
      timerP s = (some (.timer ⟨tmr, ⟨offAt s.toks A.length, offAt s.toks (A.length + ts.length)⟩⟩),
        { s with cur := A.length + ts.length }) ∧ TimerMatches s.cs c tmr := by
  simp only [ATimer.wf, Bool.and_eq_true] at hwf
  obtain ⟨hname, hqty⟩ := hwf
  simp only [CPad.ok, Bool.and_eq_true] at hp
  obtain ⟨⟨⟨⟨hpn1, hpa0⟩, hpa1⟩, hpq⟩, hpe⟩ := hp
  obtain ⟨tm, nm, n1, tob, Q, tcb, rfl, htmk, hnm, hn1, hobk, hQ, hcbk⟩ := rtt_timer_decomp hs
  have hn1k := pad_kinds hpn1 hn1
  -- kinds of the name tokens
  have hnmk : ∀ t ∈ nm, nameKind t.kind = true ∨ t.kind = .ws ∨ t.kind = .blockComment := by
    intro t ht'
    rcases hF.name.elim with ⟨eF, hcn⟩ | ⟨nF, n, eF, hcn, hnF⟩
    · rw [eF] at hnm; simp only [spellOptLeaf] at hnm; rw [hnm.nil_inv] at ht'; simp at ht'
    · rw [eF] at hnm
      rw [hcn] at hname
      simp only [Bool.and_eq_true] at hname
      exact bl17_leaf_kinds hname.1.1 hnF hnm t ht'
  have hNTk : ∀ t ∈ nm ++ n1, (t.kind == .openBrace || isMarker t.kind) = false ∧ t.kind ≠ .openParen := by
    intro t ht'
    rcases List.mem_append.mp ht' with ht' | ht'
    · exact ⟨(nameKind_excl (hnmk t ht')).1, (nameKind_excl (hnmk t ht')).2.1⟩
    · exact ⟨(nameKind_excl (Or.inr (hn1k t ht'))).1, (nameKind_excl (Or.inr (hn1k t ht'))).2.1⟩
  -- the quantity tokens
  have hQfacts : (∀ t ∈ Q, t.kind ≠ .closeBrace) ∧ Q.any (fun t => !isPadK t) = c.qty.isSome := by
    rcases hF.qty.elim with ⟨eF, hcq⟩ | ⟨qF, q, eF, hcq, hqF⟩
    · rw [eF] at hQ
      have := pad_kinds hpe hQ
      refine ⟨fun t ht' => by rcases this t ht' with h' | h' <;> simp [h'], ?_⟩
      simp only [hcq, Option.isSome_none, List.any_eq_false]
      intro t ht'
      rcases this t ht' with h' | h' <;> simp [isPadK, h']
    · rw [eF] at hQ
      rw [hcq] at hqty
      simp only [Bool.and_eq_true] at hqty
      have := bl17_qty_kinds qF q hqF p.q hqty.1.1 hpq Q hQ
      exact ⟨this.1, by simp [this.2, hcq]⟩
  have e1 : s.toks = A ++ tm :: ((nm ++ n1) ++ tob :: (Q ++ tcb :: rest)) := by rw [ht]; simp
  have h1 := consumeK_split_some .tilde s A tm _ e1 hc htmk
  -- the first token after `~` is not a modifier character
  have hhead : ∃ x R, (nm ++ n1) ++ tob :: (Q ++ tcb :: rest) = x :: R ∧
      (s.ext.has Gen.EXT_COMPONENT_MODIFIERS = true → modKind x.kind = false) ∧ x.kind ≠ .openParen := by
    cases hnmc : nm with
    | nil =>
      cases hn1c : n1 with
      | nil => exact ⟨tob, _, rfl, by intro _; rw [hobk]; rfl, by rw [hobk]; simp⟩
      | cons y ys =>
        refine ⟨y, _, rfl, ?_, ?_⟩
        · intro _; rcases hn1k y (by rw [hn1c]; simp) with h' | h' <;> rw [h'] <;> rfl
        · rcases hn1k y (by rw [hn1c]; simp) with h' | h' <;> rw [h'] <;> simp
    | cons y ys =>
      refine ⟨y, _, rfl, ?_, (hNTk y (by rw [hnmc]; simp)).2⟩
      intro hext
      rcases hF.name.elim with ⟨eF, hcn⟩ | ⟨nF, n, eF, hcn, hnF⟩
      · rw [eF, hnmc] at hnm; simp only [spellOptLeaf] at hnm; exact absurd hnm.nil_inv (by simp)
      · rw [eF, hnmc] at hnm
        rw [hcn] at hname
        simp only [spellOptLeaf] at hnm
        simp only [Bool.and_eq_true] at hname
        obtain ⟨u, ur, hu, hau⟩ := (leafOK_facts hname.1.1).head
        obtain ⟨ur', hu'⟩ := hnF.head hu
        rw [hu'] at hnm
        obtain ⟨hd, nmr, hnmeq, hhdk, -, -⟩ := hnm.cons_inv
        simp only [List.cons.injEq] at hnmeq
        have hmh := hname.1.2
        simp only [Ext.modifiers, hext, Bool.not_true, Bool.false_or, hu, List.head?_cons, Option.all_some] at hmh
        rw [hnmeq.1, hhdk]; simpa using hmh
  obtain ⟨x, R, hxR, hxmod, hxp⟩ := hhead
  have h2 : modifiersP ({ s with cur := A.length + 1 } : BP α) = ([], { s with cur := A.length + 1 }) := by
    by_cases hext : s.ext.has Gen.EXT_COMPONENT_MODIFIERS = true
    · have := modifiersP_on ({ s with cur := A.length + 1 } : BP α) hext (A ++ [tm]) [] x R
        (by rw [e1, hxR]; simp) (by simp) (by intro m hm; simp at hm) (hxmod hext) hxp
      rw [this]; simp
    · have hext' : s.ext.has Gen.EXT_COMPONENT_MODIFIERS = false := by simpa using hext
      exact modifiersP_off ({ s with cur := A.length + 1 } : BP α) hext'
  have h3 := compBody_run ({ s with cur := A.length + 1 } : BP α) (A ++ [tm])
    (nm ++ n1) tob Q tcb rest (by rw [e1]; simp) (by simp) (fun t ht' => (hNTk t ht').1) hobk hQfacts.1 hcbk
  have hlen : (A ++ [tm]).length + (nm ++ n1).length + 1 + Q.length + 1 =
      A.length + (tm :: (nm ++ n1 ++ tob :: (Q ++ [tcb]))).length := by lenarith
  rw [hlen] at h3
  -- no alias separator in the name
  have hnoOr : s.ext.has Gen.EXT_COMPONENT_ALIAS = true → (nm ++ n1).findIdx? (fun t => t.kind == .or) = none := by
    intro hext
    apply rt_findIdx_none
    intro t ht'
    rcases List.mem_append.mp ht' with ht' | ht'
    · rcases hF.name.elim with ⟨eF, hcn⟩ | ⟨nF, n, eF, hcn, hnF⟩
      · rw [eF] at hnm; simp only [spellOptLeaf] at hnm; rw [hnm.nil_inv] at ht'; simp at ht'
      · rw [eF] at hnm
        rw [hcn] at hname
        simp only [spellOptLeaf] at hnm
        simp only [Bool.and_eq_true] at hname
        obtain ⟨u', hu', hk', -⟩ := hnm.mem ht'
        have hno := hname.2
        simp only [Ext.alias, hext, Bool.not_true, Bool.false_or, List.all_eq_true, bne_iff_ne] at hno
        rw [hk']
        rcases hnF.mem hu' with h' | h'
        · simpa using hno u' h'
        · simpa using bl17Pad_not_or h'
    · rcases hn1k t ht' with h' | h' <;> simp [h']
  have h4 := checkNoteTimer_skip ({ s with cur := A.length + (tm :: (nm ++ n1 ++ tob :: (Q ++ [tcb]))).length } : BP α)
    (A ++ tm :: (nm ++ n1 ++ tob :: (Q ++ [tcb]))) rest (by rw [ht]; simp) (by simp)
    (by
      intro t ht'
      simp only [noParenNext, ht', Option.all_some, bne_iff_ne] at hrest
      simpa using hrest)
  -- the name
  have hrunName : RunAt (offAt s.toks (A.length + 1)) (nm ++ n1) := by
    have := rt_runAt_mid hrun (A ++ [tm]) (nm ++ n1) (tob :: (Q ++ tcb :: rest)) (by rw [e1]; simp)
    have e2 : (A ++ [tm]).length = A.length + 1 := by lenarith
    rwa [e2] at this
  have hrunQ : RunAt (baseOff Q) Q :=
    (rt_runAt_mid hrun (A ++ [tm] ++ (nm ++ n1) ++ [tob]) Q (tcb :: rest) (by rw [e1]; simp)).base
  have hnameR : (if (buildText (offAt s.toks (A.length + 1)) (nm ++ n1)).isTextEmpty s.cs then none
        else some (buildText (offAt s.toks (A.length + 1)) (nm ++ n1))).map (fun x => x.trimmed s.cs) =
      c.name.map leafText ∧
      ((buildText (offAt s.toks (A.length + 1)) (nm ++ n1)).isTextEmpty s.cs = c.name.isNone) := by
    rcases hF.name.elim with ⟨eF, hcn⟩ | ⟨nF, n, eF, hcn, hnF⟩
    · rw [eF] at hnm; simp only [spellOptLeaf] at hnm
      have := hnm.nil_inv; subst this
      have := rtt_buildText_pad_empty (cs := s.cs) (offAt s.toks (A.length + 1)) n1 (hn1.padOK_of hpn1)
      simp [this, hcn]
    · rw [eF] at hnm
      rw [hcn] at hname
      simp only [spellOptLeaf] at hnm
      simp only [Bool.and_eq_true] at hname
      have := bl17_leaf_text (cs := s.cs) (allowed := nameKind) (pre := []) (l := n) (lF := nF) (post := p.n1)
        (ts := nm ++ n1) (by simpa using hnm.append hn1) rfl hpn1 hname.1.1 hnF hsp (offAt s.toks (A.length + 1))
      simp [this.1, this.2, hcn]
  obtain ⟨e, he⟩ : ∃ e, e = A.length + (tm :: (nm ++ n1 ++ tob :: (Q ++ [tcb]))).length := ⟨_, rfl⟩
  rw [← he] at h3 h4 ⊢
  unfold timerP
  rcases Bool.eq_false_or_eq_true (s.ext.has Gen.EXT_COMPONENT_ALIAS) with hal | hal
  all_goals
    simp only [bind, StateT.bind, currentOffset_run, h1, h2, h3, h4, List.isEmpty_nil, Bool.not_true,
      Bool.false_eq_true, if_false, if_true, hasExt_run, hal, hnoOr, bpText_run hrunName, get, getThe,
      MonadStateOf.get, StateT.get, pure, StateT.pure, hQfacts.2]
    rcases hF.qty.elim with ⟨eF, hcq⟩ | ⟨qF, q, eF, hcq, hqF⟩
    · rw [hcq] at hqty
      simp only [Bool.and_eq_true, Bool.not_eq_true'] at hqty
      have hnn : c.name.isNone = false := by
        cases hcn : c.name with
        | none => rw [hcn] at hqty; simp at hqty
        | some n => rfl
      have hne := hnameR.2
      rw [hnn] at hne
      refine ⟨⟨some (buildText (offAt s.toks (A.length + 1)) (nm ++ n1)), none⟩, ?_, ?_, ?_⟩
      · simp [hcq, pure, bind, StateT.pure, StateT.bind, hqty.2, hne, hc]
      · have := hnameR.1
        rw [hne] at this
        simpa using this
      · rw [hcq]; trivial
    · rw [eF] at hQ
      rw [hcq] at hqty
      simp only [Bool.and_eq_true, Bool.or_eq_true, Bool.not_eq_true'] at hqty
      obtain ⟨vspan, lspan, unitT, sep, hpq', hl, hunit, hsep⟩ := bl17_parseQuantity qF q hqF p.q
        ({ s with cur := e } : BP α) hsp hqty.1.1 hpq
        (by intro hr; rcases hqty.2 with h | h; · rw [hr] at h; cases h
            · exact h)
        (by intro _; simp [AQty.advSafe, hqty.1.2])
        Q hQ hrunQ
      have hus : unitT ≠ none := by
        cases hu : q.unit with
        | none => rw [hu] at hqty; simp at hqty
        | some u => rw [hu] at hunit; cases unitT <;> simp_all
      refine ⟨⟨if (buildText (offAt s.toks (A.length + 1)) (nm ++ n1)).isTextEmpty s.cs then none
          else some (buildText (offAt s.toks (A.length + 1)) (nm ++ n1)),
        some ⟨⟨⟨⟨q.val.denote, vspan⟩, lspan⟩, unitT⟩, tokensSpan Q⟩⟩, ?_, hnameR.1, ?_⟩
      · simp [hcq, pure, bind, StateT.pure, StateT.bind, hpq', hus, hc]
      · rw [hcq]
        exact ⟨rfl, hl, hunit⟩

/-- **Timer, filler against clean spelling.** -/
theorem bl17_timer_filler_loose (cF c : ATimer) (hF : TimerFiller cF c) (p' p : CPad) (s' s : BP α)
    (hcs : s'.cs = s.cs) (hext : s'.ext = s.ext) (hsp : s.cs.uws ' ' = true)
    (hwf : c.wf s.cs s.ext = true) (hp' : p'.ok s.cs = true) (hp : p.ok s.cs = true)
    (A' ts' rest' A ts rest : List Tok) (hs' : Spells ts' (spellTimer cF p')) (hs : Spells ts (spellTimer c p))
    (ht' : s'.toks = A' ++ (ts' ++ rest')) (ht : s.toks = A ++ (ts ++ rest))
    (hc' : s'.cur = A'.length) (hc : s.cur = A.length) (hrest' : noParenNext rest' = true) (hrest : noParenNext rest = true)
    (hrun' : RunAt (baseOff s'.toks) s'.toks) (hrun : RunAt (baseOff s.toks) s.toks) :
    ∃ ev' ev : Ev α, timerP s' = (some ev', { s' with cur := A'.length + ts'.length }) ∧
      timerP s = (some ev, { s with cur := A.length + ts.length }) ∧ EvLoose s.cs ev' ev := by
  obtain ⟨i', h1', h2'⟩ := bl17_timerP cF c hF p' s' (by rw [hcs]; exact hsp) (by rw [hcs, hext]; exact hwf)
    (by rw [hcs]; exact hp') A' ts' rest' hs' ht' hc' hrest' hrun'
  obtain ⟨i, h1, h2⟩ := rt_timerP c p s hwf hp A ts rest hs ht hc hrest hrun
  rw [hcs] at h2'
  exact ⟨_, _, h1', h1, bl17_timer_loose h2' h2⟩

end Cook
