import CookModel.Lemmas.IngList
/-
  Packaging of the weight lemmas into the statements of C10: "the result holds exactly what the
  inputs hold" (`Holds`), for groups, lists and categorized lists; cookware amounts.
-/
namespace Cook
open Arith

/-- a weight that every grouping operation conserves -/
structure GoodWeight (c : Converter Rat) (w : SQuantity Rat → Rat) : Prop where
  additive : Additive c w
  fitInvariant : FitInvariant c w
  joinAdditive : JoinAdditive w

theorem goodWeight_wEnd {c : Converter Rat} (hc : c.Sound) {cls : QClass} (hlin : LinearClass c cls)
    (hi : Bool) : GoodWeight c (wEnd hi c cls) :=
  ⟨wEnd_additive hc hlin hi, wEnd_fitInvariant hc cls hi, wEnd_joinAdditive hlin hi⟩

theorem goodWeight_wText {c : Converter Rat} (hc : c.Sound) (t : SQuantity Rat) :
    GoodWeight c (wText t) :=
  ⟨wText_additive c t, wText_fitInvariant hc t, wText_joinAdditive t⟩

/-- `out` holds exactly what `inp` holds: for the class `cls` both ends of the total are equal,
    and the text quantities are the same up to order (each kept verbatim, none lost or invented) -/
def Holds (c : Converter Rat) (cls : QClass) (out inp : List (SQuantity Rat)) : Prop :=
  (total c cls out).1 = (total c cls inp).1 ∧ (total c cls out).2 = (total c cls inp).2 ∧
  (texts out).Perm (texts inp)

theorem holds_of_weights {c : Converter Rat} (hc : c.Sound) {cls : QClass} (hlin : LinearClass c cls)
    {out inp : List (SQuantity Rat)}
    (h : ∀ w, GoodWeight c w → sumBy w out = sumBy w inp) : Holds c cls out inp :=
  ⟨h _ (goodWeight_wEnd hc hlin false), h _ (goodWeight_wEnd hc hlin true),
   texts_perm_of_wText (fun t => h _ (goodWeight_wText hc t))⟩

theorem Holds.of_perm {c : Converter Rat} {cls : QClass} {l l' : List (SQuantity Rat)} (h : l.Perm l') :
    Holds c cls l l' :=
  ⟨sumBy_perm _ h, sumBy_perm _ h, h.filter _⟩

theorem Holds.trans {c : Converter Rat} {cls : QClass} {l1 l2 l3 : List (SQuantity Rat)}
    (h1 : Holds c cls l1 l2) (h2 : Holds c cls l2 l3) : Holds c cls l1 l3 :=
  ⟨h1.1.trans h2.1, h1.2.1.trans h2.2.1, h1.2.2.trans h2.2.2⟩

theorem Holds.symm {c : Converter Rat} {cls : QClass} {l1 l2 : List (SQuantity Rat)}
    (h : Holds c cls l1 l2) : Holds c cls l2 l1 :=
  ⟨h.1.symm, h.2.1.symm, h.2.2.symm⟩

/-- the total of a concatenation is the end-wise sum of the totals -/
theorem total_append (c : Converter Rat) (cls : QClass) (l1 l2 : List (SQuantity Rat)) :
    (total c cls (l1 ++ l2)).1 = (total c cls l1).1 + (total c cls l2).1 ∧
    (total c cls (l1 ++ l2)).2 = (total c cls l1).2 + (total c cls l2).2 :=
  ⟨sumBy_append _ _ _, sumBy_append _ _ _⟩

/-! ### lists -/

/-- what the entry `name` of a list holds -/
def entryQuantities (ord : MapOrder Rat) (m : IngredientList Rat) (name : Str) : List (SQuantity Rat) :=
  match m.get? name with
  | some g => g.iter ord
  | none => []

theorem sumBy_entryQuantities (w : SQuantity Rat → Rat) (ord : MapOrder Rat) (hord : ord.IsPerm)
    (m : IngredientList Rat) (name : Str) : sumBy w (entryQuantities ord m name) = entryW w m name := by
  unfold entryQuantities entryW
  cases m.get? name with
  | none => rfl
  | some g => simp [GroupedQuantity.gsum_iter w ord hord]

/-- the quantities one recipe contributes to the entry `name`, by its own tables: those of every
    listed definition (not hidden, not a reference) displayed as `name`, with its references -/
def recipeQuantities (name : Str) (r : ScaledRecipe Rat) : List (SQuantity Rat) :=
  (r.ingredients.filter (fun i => i.listedDef && decide (i.displayName = name))).flatMap
    (defQuantities r.ingredients)

theorem sumBy_recipeQuantities (w : SQuantity Rat → Rat) (name : Str) (r : ScaledRecipe Rat) :
    sumBy w (recipeQuantities name r) = contribution w name r.ingredients r.ingredients := by
  unfold recipeQuantities contribution
  rw [sumBy_flatMap, sumBy_filter]
  apply sumBy_congr
  intro i _
  by_cases h1 : i.listedDef = true <;> by_cases h2 : i.displayName = name <;> simp [h1, h2]

/-! ### categorized lists -/

def categoryQuantities (ord : MapOrder Rat) (r : Categorized Rat) (cat common : Str) :
    List (SQuantity Rat) :=
  match (r.categories.get? cat).bind (fun l => l.get? common) with
  | some g => g.iter ord
  | none => []

theorem sumBy_categoryQuantities (w : SQuantity Rat → Rat) (ord : MapOrder Rat) (hord : ord.IsPerm)
    (r : Categorized Rat) (cat common : Str) :
    sumBy w (categoryQuantities ord r cat common) = catW w r cat common := by
  unfold categoryQuantities catW
  cases (r.categories.get? cat).bind (fun l => l.get? common) with
  | none => rfl
  | some g => simp [GroupedQuantity.gsum_iter w ord hord]

/-- everything the list entries hold whose name the aisle file sends to (category, common name) -/
def sentQuantities (ord : MapOrder Rat) (aisle : Aisle.Conf) (l : IngredientList Rat) (cat common : Str) :
    List (SQuantity Rat) :=
  (l.filter (fun e => decide (sentTo aisle e.1 cat common))).flatMap (fun e => e.2.iter ord)

theorem sumBy_sentQuantities (w : SQuantity Rat → Rat) (ord : MapOrder Rat) (hord : ord.IsPerm)
    (aisle : Aisle.Conf) (l : IngredientList Rat) (cat common : Str) :
    sumBy w (sentQuantities ord aisle l cat common) =
      sumBy (fun e => if sentTo aisle e.1 cat common then GroupedQuantity.gsum w e.2 else 0) l := by
  unfold sentQuantities
  rw [sumBy_flatMap, sumBy_filter]
  apply sumBy_congr
  intro e _
  by_cases h : sentTo aisle e.1 cat common <;> simp [h, GroupedQuantity.gsum_iter w ord hord]

/-- everything the list holds under `name` when the aisle file does not know `name` -/
def unsentQuantities (ord : MapOrder Rat) (aisle : Aisle.Conf) (l : IngredientList Rat) (name : Str) :
    List (SQuantity Rat) :=
  (l.filter (fun e => decide (Aisle.lookup aisle e.1 = none ∧ e.1 = name))).flatMap (fun e => e.2.iter ord)

theorem sumBy_unsentQuantities (w : SQuantity Rat → Rat) (ord : MapOrder Rat) (hord : ord.IsPerm)
    (aisle : Aisle.Conf) (l : IngredientList Rat) (name : Str) :
    sumBy w (unsentQuantities ord aisle l name) =
      sumBy (fun e => if Aisle.lookup aisle e.1 = none ∧ e.1 = name then GroupedQuantity.gsum w e.2 else 0) l := by
  unfold unsentQuantities
  rw [sumBy_flatMap, sumBy_filter]
  apply sumBy_congr
  intro e _
  by_cases h : Aisle.lookup aisle e.1 = none ∧ e.1 = name <;> simp [h, GroupedQuantity.gsum_iter w ord hord]

/-! ### cookware amounts (`GroupedValue`) -/

def VAdditive (w : Value Rat → Rat) : Prop := ∀ a b v, a.tryAdd b = .ok v → w v = w a + w b

theorem groupedValueAdd_some (g : List (Value Rat)) (v : Value Rat) :
    ∃ g', groupedValueAdd g v = some g' := by
  unfold groupedValueAdd
  cases g with
  | nil => exact ⟨_, rfl⟩
  | cons first rest =>
    simp only
    split
    · exact ⟨_, rfl⟩
    · split
      · exact ⟨_, rfl⟩
      · rename_i hv hf
        cases first <;> cases v <;> simp [Value.isText, Value.tryAdd] at hv hf ⊢

theorem groupedValueAdd_sum {w : Value Rat → Rat} (hw : VAdditive w) {g g' : List (Value Rat)}
    {v : Value Rat} (h : groupedValueAdd g v = some g') : sumBy w g' = sumBy w g + w v := by
  unfold groupedValueAdd at h
  cases g with
  | nil =>
    simp only [Option.some.injEq] at h
    subst h
    simp only [sumBy_cons, sumBy_nil]; grind
  | cons first rest =>
    simp only at h
    split at h
    · simp only [Option.some.injEq] at h
      subst h
      rw [sumBy_append]; simp only [sumBy_cons, sumBy_nil]; grind
    · split at h
      · simp only [Option.some.injEq] at h
        subst h
        simp only [sumBy_cons]; grind
      · split at h
        · rename_i s hs
          simp only [Option.some.injEq] at h
          subst h
          simp only [sumBy_cons, hw _ _ _ hs]; grind
        · cases h

theorem groupedValueAddAll_some (vs g : List (Value Rat)) : ∃ g', groupedValueAddAll g vs = some g' := by
  induction vs generalizing g with
  | nil => exact ⟨g, rfl⟩
  | cons v rest ih =>
    obtain ⟨g1, hg1⟩ := groupedValueAdd_some g v
    obtain ⟨g', hg'⟩ := ih g1
    exact ⟨g', by unfold groupedValueAddAll; rw [hg1]; exact hg'⟩

theorem groupedValueAddAll_sum {w : Value Rat → Rat} (hw : VAdditive w) (vs : List (Value Rat))
    {g g' : List (Value Rat)} (h : groupedValueAddAll g vs = some g') :
    sumBy w g' = sumBy w g + sumBy w vs := by
  induction vs generalizing g with
  | nil =>
    simp only [groupedValueAddAll, Option.some.injEq] at h
    subst h
    simp only [sumBy_nil]; grind
  | cons v rest ih =>
    unfold groupedValueAddAll at h
    split at h
    · cases h
    · rename_i g1 hg1
      rw [ih h, groupedValueAdd_sum hw hg1, sumBy_cons]; grind

def vEnd (hi : Bool) (v : Value Rat) : Rat :=
  match v.bounds with
  | some b => if hi then b.2 else b.1
  | none => 0

def vText (t : Value Rat) (v : Value Rat) : Rat := if v.isText = true ∧ v = t then 1 else 0

theorem vEnd_additive (hi : Bool) : VAdditive (vEnd hi) := by
  intro a b v h
  obtain ⟨l1, h1, l2, h2, hb1, hb2, hb3⟩ := tryAdd_bounds h
  unfold vEnd
  simp only [hb1, hb2, hb3]
  cases hi <;> simp

theorem vText_additive (t : Value Rat) : VAdditive (vText t) := by
  intro a b v h
  obtain ⟨h1, h2, h3⟩ := tryAdd_not_text h
  simp only [vText, h1, h2, h3, Bool.false_eq_true, false_and, if_false]; grind

def valueTexts (vs : List (Value Rat)) : List (Value Rat) := vs.filter (·.isText)

theorem sumBy_vText (t : Value Rat) (vs : List (Value Rat)) :
    sumBy (vText t) vs = ((valueTexts vs).count t : Rat) := by
  induction vs with
  | nil => simp [valueTexts]
  | cons v rest ih =>
    simp only [sumBy_cons, ih, valueTexts, List.filter_cons]
    unfold vText
    cases hq : v.isText with
    | false => simp; grind
    | true =>
      simp only [true_and, if_true, List.count_cons, beq_iff_eq]
      by_cases hqt : v = t
      · simp only [hqt, if_true]; push_cast; grind
      · simp only [hqt, if_false]; push_cast; grind

theorem valueTexts_perm {l1 l2 : List (Value Rat)} (h : ∀ t, sumBy (vText t) l1 = sumBy (vText t) l2) :
    (valueTexts l1).Perm (valueTexts l2) := by
  rw [List.perm_iff_count]
  intro t
  have := h t
  rw [sumBy_vText, sumBy_vText] at this
  exact_mod_cast this

end Cook
