import CookModel.Lemmas.RecipeSimStatic
/-
  C17 (wave 6, tag `w6m`): the text-define-mode exclusion as a DECIDABLE predicate on the event list.
  With the MODES extension on, the define mode becomes `text` only at a `>>` entry whose trimmed key
  is `[define]` or `[mode]` and whose trimmed value is `text`.  An event list without such an entry
  (`TextSwitchFree`) never reaches the source-copying branch: `TextModeFree` holds, whatever the
  extensions are.
-/
set_option linter.unusedSectionVars false
set_option linter.unusedVariables false
set_option linter.unusedSimpArgs false
namespace Cook
variable {α : Type} [Arith α]

/-- the `>>` entry `key: value` is a switch to define mode `text`: the trimmed key is `[define]` or
    `[mode]` (brackets, at least two characters, the inner part one of the two words) and the
    trimmed value is `text` -/
def w6mSetsText (cs : CharSpec) (key value : Text) : Bool :=
  (key.trimmed cs).head? == some '[' && (key.trimmed cs).getLast? == some ']' && decide ((key.trimmed cs).length ≥ 2) &&
  (String.ofList (((key.trimmed cs).drop 1).dropLast) == "define" ||
    String.ofList (((key.trimmed cs).drop 1).dropLast) == "mode") &&
  String.ofList (value.outerTrimmed cs) == "text"

/-- the event is a `>>` entry that switches to define mode `text` -/
def Ev.w6mSetsText (cs : CharSpec) : Ev α → Bool
  | .metadata k v => Cook.w6mSetsText cs k v
  | _ => false

/-- **the exclusion, decidable**: no event of the list is a switch to define mode `text` -/
def TextSwitchFree (cs : CharSpec) (evs : List (Ev α)) : Bool := evs.all (fun ev => !ev.w6mSetsText cs)

/-- a piece of the analysis keeps "the define mode is not `text`" -/
structure W6mInv {β : Type} (m : A α β) : Prop where
  out : ∀ s : Col α, s.defineMode ≠ .text → (m s).2.defineMode ≠ .text

namespace W6mInv
variable {β δ : Type}
theorem pure (a : β) : W6mInv (Pure.pure a : A α β) := ⟨fun _ h => h⟩
theorem get : W6mInv (MonadState.get : A α (Col α)) := ⟨fun _ h => h⟩
theorem bind {m : A α β} {k : β → A α δ} (hm : W6mInv m) (hk : ∀ a, W6mInv (k a)) : W6mInv (m >>= k) :=
  ⟨fun s h => (hk (m s).1).out (m s).2 (hm.out s h)⟩
theorem modify (g : Col α → Col α) (h : ∀ s : Col α, s.defineMode ≠ .text → (g s).defineMode ≠ .text) :
    W6mInv (_root_.modify g : A α PUnit) := ⟨h⟩
theorem ofPres {m : A α β} (h : Pres (α := α) dmOf m) : W6mInv m :=
  ⟨fun s hs => by have := h.out s; simp only [dmOf] at this; rw [this]; exact hs⟩
end W6mInv

theorem w6m_metadataA (env : Env) (k v : Text) (h : w6mSetsText env.cs k v = false) :
    W6mInv (α := α) (metadataA env k v) := by
  unfold metadataA
  repeat' (first
    | intro _
    | with_reducible exact W6mInv.pure _
    | with_reducible exact W6mInv.get
    | with_reducible apply W6mInv.bind
    | split
    | dsimp only)
  all_goals first
    | (apply W6mInv.ofPres; pres; done)
    | (apply W6mInv.modify; intro s hs; first | exact hs | (intro hc; cases hc); done)
    | skip
  all_goals
    exfalso
    rename_i h6 _ h4 _ _ _ h0
    simp only [Bool.and_eq_true] at h6
    simp only [w6mSetsText, h6.1.1.2, h6.1.2, h6.2, h4, h0, Bool.and_self] at h
    exact absurd h (by decide)

/-- an event that is not a switch to define mode `text` keeps "the define mode is not `text`",
    whatever the extensions are -/
theorem w6m_processEvent (env : Env) (input : Str) (ev : Ev α) (hev : ev.w6mSetsText env.cs = false) (s : Col α)
    (hd : s.defineMode ≠ .text) : (processEvent env input ev s).2.defineMode ≠ .text := by
  cases ev with
  | frontMatter t => exact hd
  | metadata k v => exact (w6m_metadataA env k v hev).out s hd
  | «section» n => exact hd
  | start k => exact hd
  | stop k =>
    have := (endBlock_pres (α := α) k).out s
    simp only [Prod.mk.injEq] at this
    rw [show (processEvent env input (.stop k) s) = endBlock k s from rfl, this.2]; exact hd
  | text t =>
    have := (inStepText_pres (α := α) env t).out s
    simp only [Prod.mk.injEq] at this
    rw [show (processEvent env input (.text t) s) = inStepText env t s from rfl, this.2]; exact hd
  | error d => exact hd
  | warning d => exact hd
  | ingredient i => rw [show (processEvent env input (.ingredient i) s) = inBlockComponent env input (.ingredient i) s from rfl,
      inBlockComponent_dm]; exact hd
  | cookware i => rw [show (processEvent env input (.cookware i) s) = inBlockComponent env input (.cookware i) s from rfl,
      inBlockComponent_dm]; exact hd
  | timer i => rw [show (processEvent env input (.timer i) s) = inBlockComponent env input (.timer i) s from rfl,
      inBlockComponent_dm]; exact hd

/-- on a well-bracketed stream of parser-like events WITHOUT a switch to define mode `text`,
    analysed (under any extensions) from a state whose define mode is not `text`, the text-mode
    slice branch is never taken -/
theorem w6m_textModeFree_of_wb (env : Env) (input : Str) (evs : List (Ev α))
    (s : Col α) (o : Option BlockKind) (h : NP env s) (hb : BlockRel s o) (hd : s.defineMode ≠ .text)
    (hw : WBFrom o evs) (hev : ∀ ev ∈ evs, EvOK' ev) (hsp : SpansOK input evs)
    (hfree : TextSwitchFree env.cs evs = true) :
    TextModeFree env input evs s := by
  induction evs generalizing s o with
  | nil => trivial
  | cons ev rest ih =>
    obtain ⟨o', hw1, hw2⟩ := hw
    simp only [TextSwitchFree, List.all_cons, Bool.and_eq_true, Bool.not_eq_true'] at hfree
    have hns : ¬ TextModeSliceAt ev s := by
      rintro ⟨hc, buf, hbuf⟩
      have ho : o = some .step := by
        cases ev <;> simp only [Ev.isComp, Bool.false_eq_true] at hc <;> simp only [wbStep] at hw1 <;>
          (split at hw1 <;> first | assumption | cases hw1)
      subst ho
      rcases hb with ⟨items, h1, _⟩ | ⟨t, _, h2 | h2⟩
      · rw [h1] at hbuf; cases hbuf
      · cases h2
      · exact hd h2
    obtain ⟨hnp, hbr⟩ := processEvent_np env input ev s o o' h hb hw1 (hev ev List.mem_cons_self)
      (hsp ev List.mem_cons_self)
    have hrest := ih _ o' hnp hbr (w6m_processEvent env input ev hfree.1 s hd) hw2
      (fun e he' => hev e (List.mem_cons_of_mem _ he')) (fun e he' => hsp e (List.mem_cons_of_mem _ he'))
      (by simpa [TextSwitchFree] using hfree.2)
    cases ev <;> first | trivial | exact ⟨hns, hrest⟩

/-- **the pull parser's events, any extensions**: when no event switches to define mode `text`,
    the analysis never copies a component's source into a text block -/
theorem w6m_pullEvents_textModeFree (env : Env) (s : List Char)
    (hfree : TextSwitchFree env.cs (pullEvents (α := α) env.cs env.ext s).1.toList = true) :
    TextModeFree env s (pullEvents (α := α) env.cs env.ext s).1.toList {} :=
  w6m_textModeFree_of_wb env s _ {} none (NP.init env) rfl (by intro h; cases h)
    (pullEvents_wellBracketed env.cs env.ext s) (pullEvents_evOK' env.cs env.ext s) (pullEvents_spansOK env.cs env.ext s)
    hfree

/-- MODES off: the predicate is not needed (`pullEvents_textModeFree`); MODES on: an input without
    `>>` lines has no switch -/
theorem w6m_free_of_no_metadata (cs : CharSpec) (evs : List (Ev α))
    (h : ∀ ev ∈ evs, ∀ k v, ev ≠ .metadata k v) : TextSwitchFree cs evs = true := by
  simp only [TextSwitchFree, List.all_eq_true, Bool.not_eq_true']
  intro ev hev
  cases ev with
  | metadata k v => exact absurd rfl (h _ hev k v)
  | _ => rfl

end Cook
