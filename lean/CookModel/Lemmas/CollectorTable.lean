import CookModel.Lemmas.CollectorInv
import CookModel.Lemmas.Collector
/-
  The reference structure of the ingredient and cookware tables is preserved by `ingredientA`/`cookwareA`.
-/
namespace Cook
variable {α : Type} [Arith α]
set_option linter.unusedSectionVars false

theorem getElem?_push_set {β : Type} (T : Array β) (t : Nat) (x y : β) (k : Nat) (ht : t < T.size) :
    ((T.setIfInBounds t x).push y)[k]? = if k = T.size then some y else if k = t then some x else T[k]? := by
  rw [Array.getElem?_push, Array.size_setIfInBounds]
  split
  · rfl
  · rw [Array.getElem?_setIfInBounds]
    split
    · rename_i h; subst h; simp
    · rename_i h; simp [Ne.symm h]

theorem lt_size_of_getElem? {β : Type} {T : Array β} {k : Nat} {x : β} (h : T[k]? = some x) : k < T.size := by
  rcases Nat.lt_or_ge k T.size with h' | h'
  · exact h'
  · rw [Array.getElem?_eq_none h'] at h; cases h

/-- reference structure of the ingredient table -/
structure IngrTable (env : Env) (ings : Array (Ingredient (ScalableValue α))) : Prop where
  refREF : ∀ (k : Nat) (ig : Ingredient (ScalableValue α)), ings[k]? = some ig →
    ig.relation.relation.isReference = true → ig.modifiers.contains Modifiers.REF = true
  backl : ∀ (k : Nat) (ig : Ingredient (ScalableValue α)), ings[k]? = some ig →
    ∀ t, ig.relation = ⟨.reference t, some .ingredient⟩ →
      t < k ∧ ∃ d, ings[t]? = some d ∧ nameEq env ig.name d.name = true ∧
        d.modifiers.contains Modifiers.REF = false ∧
        ∃ rf b, d.relation.relation = .definition rf b ∧ rf.count k = 1
  rfBound : ∀ (t : Nat) (d : Ingredient (ScalableValue α)), ings[t]? = some d →
    ∀ j ∈ d.relation.relation.referencedFrom, j < ings.size

theorem IngrTable.empty (env : Env) : IngrTable (α := α) env #[] :=
  ⟨fun k ig h => by simp at h, fun k ig h => by simp at h, fun k ig h => by simp at h⟩

theorem IngrTable.nonREF_def {env : Env} {ings : Array (Ingredient (ScalableValue α))} (h : IngrTable env ings)
    (k : Nat) (ig : Ingredient (ScalableValue α)) (hk : ings[k]? = some ig)
    (hr : ig.modifiers.contains Modifiers.REF = false) : ∃ rf b, ig.relation.relation = .definition rf b := by
  cases hrel : ig.relation.relation with
  | definition rf b => exact ⟨rf, b, rfl⟩
  | reference t =>
    have := h.refREF k ig hk (by rw [hrel]; rfl)
    rw [hr] at this; cases this

/-- pushing a component that is not a regular reference -/
theorem IngrTable.push_plain {env : Env} {ings : Array (Ingredient (ScalableValue α))} (h : IngrTable env ings)
    (igr : Ingredient (ScalableValue α))
    (h1 : igr.relation.relation.isReference = true → igr.modifiers.contains Modifiers.REF = true)
    (h2 : ∀ t, igr.relation ≠ ⟨.reference t, some .ingredient⟩)
    (h3 : igr.relation.relation.referencedFrom = []) : IngrTable env (ings.push igr) := by
  refine ⟨?_, ?_, ?_⟩
  · intro k ig hk
    rw [Array.getElem?_push] at hk
    split at hk
    · cases hk; exact h1
    · exact h.refREF k ig hk
  · intro k ig hk t hrel
    rw [Array.getElem?_push] at hk
    split at hk
    · cases hk; exact absurd hrel (h2 t)
    · obtain ⟨hlt, d, hd, hrest⟩ := h.backl k ig hk t hrel
      refine ⟨hlt, d, ?_, hrest⟩
      rw [Array.getElem?_push, if_neg (by have := lt_size_of_getElem? hd; omega)]
      exact hd
  · intro t d hd j hj
    rw [Array.getElem?_push] at hd
    rw [Array.size_push]
    split at hd
    · cases hd; rw [h3] at hj; cases hj
    · have := h.rfBound t d hd j hj; omega

/-- pushing a regular reference to entry `t` and listing it back there -/
theorem IngrTable.push_ref {env : Env} {ings : Array (Ingredient (ScalableValue α))} (h : IngrTable env ings)
    (igr defn : Ingredient (ScalableValue α)) (t : Nat) (rf : List Nat) (b : Bool)
    (hdefn : ings[t]? = some defn) (hrel : defn.relation.relation = .definition rf b)
    (hnoREF : defn.modifiers.contains Modifiers.REF = false) (hname : nameEq env igr.name defn.name = true)
    (higr : igr.relation = ⟨.reference t, some .ingredient⟩) (hREF : igr.modifiers.contains Modifiers.REF = true) :
    IngrTable env ((ings.setIfInBounds t
      { defn with relation := ⟨.definition (rf ++ [ings.size]) b, defn.relation.referenceTarget⟩ }).push igr) := by
  have ht : t < ings.size := lt_size_of_getElem? hdefn
  have hrfN : ∀ j ∈ rf, j < ings.size := by
    intro j hj
    exact h.rfBound t defn hdefn j (by rw [hrel]; exact hj)
  have hcountN : rf.count ings.size = 0 :=
    List.count_eq_zero_of_not_mem (fun hm => Nat.lt_irrefl _ (hrfN _ hm))
  refine ⟨?_, ?_, ?_⟩
  · intro k ig hk
    rw [getElem?_push_set _ _ _ _ _ ht] at hk
    split at hk
    · cases hk; intro _; exact hREF
    · split at hk
      · cases hk; intro hc; cases hc
      · exact h.refREF k ig hk
  · intro k ig hk t0 hrel0
    rw [getElem?_push_set _ _ _ _ _ ht] at hk
    split at hk
    · rename_i hkN
      cases hk
      rw [higr] at hrel0
      simp only [IngredientRelation.mk.injEq, ComponentRelation.reference.injEq, and_true] at hrel0
      subst hrel0
      refine ⟨by omega, { defn with relation := ⟨.definition (rf ++ [ings.size]) b, defn.relation.referenceTarget⟩ }, ?_, hname, hnoREF, rf ++ [ings.size], b, rfl, ?_⟩
      · rw [getElem?_push_set _ _ _ _ _ ht, if_neg (by omega), if_pos rfl]
      · rw [hkN, List.count_append, hcountN]; simp
    · split at hk
      · cases hk; cases hrel0
      · rename_i hkN hkt
        obtain ⟨hlt, d, hd, hnm, hnr, rf0, b0, hrel1, hcnt⟩ := h.backl k ig hk t0 hrel0
        have hkN' : k < ings.size := lt_size_of_getElem? hk
        refine ⟨hlt, ?_⟩
        by_cases htt : t0 = t
        · subst htt
          rw [hdefn] at hd; cases hd
          rw [hrel] at hrel1; cases hrel1
          refine ⟨{ defn with relation := ⟨.definition (rf ++ [ings.size]) b, defn.relation.referenceTarget⟩ }, ?_, hnm, hnr, rf ++ [ings.size], b, rfl, ?_⟩
          · rw [getElem?_push_set _ _ _ _ _ ht, if_neg (by omega), if_pos rfl]
          · rw [List.count_append, hcnt, List.count_singleton]
            have : (ings.size == k) = false := by simp; omega
            simp [this]
        · refine ⟨d, ?_, hnm, hnr, rf0, b0, hrel1, hcnt⟩
          rw [getElem?_push_set _ _ _ _ _ ht, if_neg (by omega), if_neg htt]
          exact hd
  · intro t0 d hd j hj
    rw [getElem?_push_set _ _ _ _ _ ht] at hd
    rw [Array.size_push, Array.size_setIfInBounds]
    split at hd
    · cases hd; rw [higr] at hj; cases hj
    · split at hd
      · cases hd
        simp only [ComponentRelation.referencedFrom, List.mem_append, List.mem_singleton] at hj
        rcases hj with hj | hj
        · have := hrfN j hj; omega
        · omega
      · have := h.rfBound t0 d hd j hj; omega

/-- `ingredientA` preserves the reference structure of the ingredient table -/
theorem IngrTable.step {env : Env} {s : Col α} (h : IngrTable env s.ingredients)
    (ings : Array (Ingredient (ScalableValue α))) (igr : Ingredient (ScalableValue α))
    (hstep : IngrStep env s ings igr) : IngrTable env (ings.push igr) := by
  rcases hstep with ⟨he, b, hb⟩ | ⟨he, hREF, rel, d, hrel, hb⟩ | ⟨t, defn, rf, b, h1, h2, h3, h4, h5, h6, he⟩
  · rw [he]
    exact h.push_plain igr (by rw [hb]; intro hc; cases hc) (by rw [hb]; intro t hc; cases hc) (by rw [hb]; rfl)
  · rw [he]
    have hr := interRefTarget_inRange _ _ _ _ hrel
    refine h.push_plain igr (fun _ => hREF) ?_ ?_
    · intro t hc
      rw [hb] at hc
      rcases hr with ⟨i, hi, _⟩ | ⟨i, hi, _⟩ <;> rw [hi] at hc <;> cases hc
    · rw [hb]
      rcases hr with ⟨i, hi, _⟩ | ⟨i, hi, _⟩ <;> rw [hi] <;> rfl
  · rw [he]
    exact h.push_ref igr defn t rf b h1 h2 h3 h4 h5 h6

/-- reference structure of the cookware table -/
structure CwTable (env : Env) (ings : Array (Cookware (ScalableValue α))) : Prop where
  refREF : ∀ (k : Nat) (ig : Cookware (ScalableValue α)), ings[k]? = some ig →
    ig.relation.isReference = true → ig.modifiers.contains Modifiers.REF = true
  backl : ∀ (k : Nat) (ig : Cookware (ScalableValue α)), ings[k]? = some ig →
    ∀ t, ig.relation = .reference t →
      t < k ∧ ∃ d, ings[t]? = some d ∧ nameEq env ig.name d.name = true ∧
        d.modifiers.contains Modifiers.REF = false ∧
        ∃ rf b, d.relation = .definition rf b ∧ rf.count k = 1
  rfBound : ∀ (t : Nat) (d : Cookware (ScalableValue α)), ings[t]? = some d →
    ∀ j ∈ d.relation.referencedFrom, j < ings.size

theorem CwTable.empty (env : Env) : CwTable (α := α) env #[] :=
  ⟨fun k ig h => by simp at h, fun k ig h => by simp at h, fun k ig h => by simp at h⟩

theorem CwTable.nonREF_def {env : Env} {ings : Array (Cookware (ScalableValue α))} (h : CwTable env ings)
    (k : Nat) (ig : Cookware (ScalableValue α)) (hk : ings[k]? = some ig)
    (hr : ig.modifiers.contains Modifiers.REF = false) : ∃ rf b, ig.relation = .definition rf b := by
  cases hrel : ig.relation with
  | definition rf b => exact ⟨rf, b, rfl⟩
  | reference t =>
    have := h.refREF k ig hk (by rw [hrel]; rfl)
    rw [hr] at this; cases this

/-- pushing a component that is not a regular reference -/
theorem CwTable.push_plain {env : Env} {ings : Array (Cookware (ScalableValue α))} (h : CwTable env ings)
    (igr : Cookware (ScalableValue α))
    (h1 : igr.relation.isReference = true → igr.modifiers.contains Modifiers.REF = true)
    (h2 : ∀ t, igr.relation ≠ .reference t)
    (h3 : igr.relation.referencedFrom = []) : CwTable env (ings.push igr) := by
  refine ⟨?_, ?_, ?_⟩
  · intro k ig hk
    rw [Array.getElem?_push] at hk
    split at hk
    · cases hk; exact h1
    · exact h.refREF k ig hk
  · intro k ig hk t hrel
    rw [Array.getElem?_push] at hk
    split at hk
    · cases hk; exact absurd hrel (h2 t)
    · obtain ⟨hlt, d, hd, hrest⟩ := h.backl k ig hk t hrel
      refine ⟨hlt, d, ?_, hrest⟩
      rw [Array.getElem?_push, if_neg (by have := lt_size_of_getElem? hd; omega)]
      exact hd
  · intro t d hd j hj
    rw [Array.getElem?_push] at hd
    rw [Array.size_push]
    split at hd
    · cases hd; rw [h3] at hj; cases hj
    · have := h.rfBound t d hd j hj; omega

/-- pushing a regular reference to entry `t` and listing it back there -/
theorem CwTable.push_ref {env : Env} {ings : Array (Cookware (ScalableValue α))} (h : CwTable env ings)
    (igr defn : Cookware (ScalableValue α)) (t : Nat) (rf : List Nat) (b : Bool)
    (hdefn : ings[t]? = some defn) (hrel : defn.relation = .definition rf b)
    (hnoREF : defn.modifiers.contains Modifiers.REF = false) (hname : nameEq env igr.name defn.name = true)
    (higr : igr.relation = .reference t) (hREF : igr.modifiers.contains Modifiers.REF = true) :
    CwTable env ((ings.setIfInBounds t
      { defn with relation := .definition (rf ++ [ings.size]) b }).push igr) := by
  have ht : t < ings.size := lt_size_of_getElem? hdefn
  have hrfN : ∀ j ∈ rf, j < ings.size := by
    intro j hj
    exact h.rfBound t defn hdefn j (by rw [hrel]; exact hj)
  have hcountN : rf.count ings.size = 0 :=
    List.count_eq_zero_of_not_mem (fun hm => Nat.lt_irrefl _ (hrfN _ hm))
  refine ⟨?_, ?_, ?_⟩
  · intro k ig hk
    rw [getElem?_push_set _ _ _ _ _ ht] at hk
    split at hk
    · cases hk; intro _; exact hREF
    · split at hk
      · cases hk; intro hc; cases hc
      · exact h.refREF k ig hk
  · intro k ig hk t0 hrel0
    rw [getElem?_push_set _ _ _ _ _ ht] at hk
    split at hk
    · rename_i hkN
      cases hk
      rw [higr] at hrel0
      simp only [ComponentRelation.reference.injEq] at hrel0
      subst hrel0
      refine ⟨by omega, { defn with relation := .definition (rf ++ [ings.size]) b }, ?_, hname, hnoREF, rf ++ [ings.size], b, rfl, ?_⟩
      · rw [getElem?_push_set _ _ _ _ _ ht, if_neg (by omega), if_pos rfl]
      · rw [hkN, List.count_append, hcountN]; simp
    · split at hk
      · cases hk; cases hrel0
      · rename_i hkN hkt
        obtain ⟨hlt, d, hd, hnm, hnr, rf0, b0, hrel1, hcnt⟩ := h.backl k ig hk t0 hrel0
        have hkN' : k < ings.size := lt_size_of_getElem? hk
        refine ⟨hlt, ?_⟩
        by_cases htt : t0 = t
        · subst htt
          rw [hdefn] at hd; cases hd
          rw [hrel] at hrel1; cases hrel1
          refine ⟨{ defn with relation := .definition (rf ++ [ings.size]) b }, ?_, hnm, hnr, rf ++ [ings.size], b, rfl, ?_⟩
          · rw [getElem?_push_set _ _ _ _ _ ht, if_neg (by omega), if_pos rfl]
          · rw [List.count_append, hcnt, List.count_singleton]
            have : (ings.size == k) = false := by simp; omega
            simp [this]
        · refine ⟨d, ?_, hnm, hnr, rf0, b0, hrel1, hcnt⟩
          rw [getElem?_push_set _ _ _ _ _ ht, if_neg (by omega), if_neg htt]
          exact hd
  · intro t0 d hd j hj
    rw [getElem?_push_set _ _ _ _ _ ht] at hd
    rw [Array.size_push, Array.size_setIfInBounds]
    split at hd
    · cases hd; rw [higr] at hj; cases hj
    · split at hd
      · cases hd
        simp only [ComponentRelation.referencedFrom, List.mem_append, List.mem_singleton] at hj
        rcases hj with hj | hj
        · have := hrfN j hj; omega
        · omega
      · have := h.rfBound t0 d hd j hj; omega

/-- `cookwareA` preserves the reference structure of the cookware table -/
theorem CwTable.step {env : Env} {s : Col α} (h : CwTable env s.cookware)
    (cws : Array (Cookware (ScalableValue α))) (cw : Cookware (ScalableValue α))
    (hstep : CwStep env s cws cw) : CwTable env (cws.push cw) := by
  rcases hstep with ⟨he, b, hb⟩ | ⟨t, defn, rf, b, h1, h2, h3, h4, h5, h6, he⟩
  · rw [he]
    exact h.push_plain cw (by rw [hb]; intro hc; cases hc) (by rw [hb]; intro t hc; cases hc) (by rw [hb]; rfl)
  · rw [he]
    exact h.push_ref cw defn t rf b h1 h2 h3 h4 h5 h6

end Cook
