import CookModel.Lemmas.CollectorFold
/-
  C06, "reference exactly when REF" for results without errors.

  `Fr T m`   : frame of the piece `m` of the fold: diagnostics are only added (never removed), and —
               when `T` holds — the ingredient and cookware tables are left alone.
  `RefInv s` : an error diagnostic has been pushed, or every component that carries the REF modifier is
               a reference.
-/
set_option linter.unusedSectionVars false
set_option linter.unusedSimpArgs false
set_option linter.unusedVariables false
namespace Cook
variable {α : Type} [Arith α]

/-- some diagnostic is an error -/
def HasErr (dg : Array Diag) : Prop := ∃ d ∈ dg.toList, d.sev = Sev.error

structure Fr (T : Prop) {β : Type} (m : A α β) : Prop where
  out : ∀ s, (∀ d ∈ s.diags.toList, d ∈ (m s).2.diags.toList) ∧
    (T → (m s).2.ingredients = s.ingredients ∧ (m s).2.cookware = s.cookware)

theorem Fr.weaken {T : Prop} {β : Type} {m : A α β} (h : Fr True m) : Fr T m :=
  ⟨fun s => ⟨(h.out s).1, fun _ => (h.out s).2 trivial⟩⟩

theorem Fr.hasErr {T : Prop} {β : Type} {m : A α β} (h : Fr T m) (s : Col α) (he : HasErr s.diags) :
    HasErr (m s).2.diags := by
  obtain ⟨d, hd, hs⟩ := he
  exact ⟨d, (h.out s).1 d hd, hs⟩

theorem Fr.pure {T : Prop} {β : Type} (a : β) : Fr (α := α) T (Pure.pure a : A α β) :=
  ⟨fun s => ⟨fun d h => h, fun _ => ⟨rfl, rfl⟩⟩⟩

theorem Fr.get {T : Prop} : Fr (α := α) T (get : A α (Col α)) := ⟨fun s => ⟨fun d h => h, fun _ => ⟨rfl, rfl⟩⟩⟩

theorem Fr.bind {T : Prop} {β γ : Type} {m : A α β} {f : β → A α γ} (hm : Fr T m) (hf : ∀ a, Fr T (f a)) :
    Fr T (m >>= f) := by
  constructor
  intro s
  obtain ⟨a1, a2⟩ := hm.out s
  obtain ⟨b1, b2⟩ := (hf (m s).1).out (m s).2
  refine ⟨fun d hd => b1 d (a1 d hd), fun t => ?_⟩
  obtain ⟨c1, c2⟩ := a2 t
  obtain ⟨d1, d2⟩ := b2 t
  exact ⟨d1.trans c1, d2.trans c2⟩

theorem Fr.ite {T : Prop} {β : Type} {c : Prop} [Decidable c] {a b : A α β} (ha : Fr T a) (hb : Fr T b) :
    Fr T (if c then a else b) := by
  split <;> assumption

theorem Fr.modify {T : Prop} (f : Col α → Col α)
    (hf : ∀ s, (f s).diags = s.diags ∧ (T → (f s).ingredients = s.ingredients ∧ (f s).cookware = s.cookware)) :
    Fr T (modify f : A α PUnit) :=
  ⟨fun s => ⟨fun d hd => by show d ∈ (f s).diags.toList; rw [(hf s).1]; exact hd, (hf s).2⟩⟩

theorem Fr.apanic {T : Prop} (site : String) : Fr (α := α) T (apanic site) := by
  unfold Cook.apanic
  refine Fr.modify _ (fun s => ?_)
  split <;> exact ⟨rfl, fun _ => ⟨rfl, rfl⟩⟩

theorem Fr.aerr {T : Prop} (k : String) (l : List Span) : Fr (α := α) T (aerr k l) :=
  ⟨fun s => ⟨fun d hd => by
    show d ∈ (s.diags.push _).toList
    rw [Array.toList_push]; exact List.mem_append_left _ hd, fun _ => ⟨rfl, rfl⟩⟩⟩

theorem Fr.awarn {T : Prop} (k : String) (l : List Span) : Fr (α := α) T (awarn k l) :=
  ⟨fun s => ⟨fun d hd => by
    show d ∈ (s.diags.push _).toList
    rw [Array.toList_push]; exact List.mem_append_left _ hd, fun _ => ⟨rfl, rfl⟩⟩⟩

theorem Fr.forIn {T : Prop} {β γ : Type} (l : List β) (init : γ) (f : β → γ → A α (ForInStep γ))
    (hf : ∀ b c, Fr T (f b c)) : Fr T (forIn l init f) := by
  induction l generalizing init with
  | nil => simp only [List.forIn_nil]; exact Fr.pure _
  | cons x xs ih =>
    simp only [List.forIn_cons]
    apply Fr.bind (hf x init)
    intro r
    cases r with
    | done c => exact Fr.pure _
    | yield c => exact ih c

syntax "fr_leaf" : tactic
macro_rules | `(tactic| fr_leaf) => `(tactic| first
  | with_reducible exact Fr.pure _
  | with_reducible exact Fr.get
  | with_reducible exact Fr.apanic _
  | with_reducible exact Fr.aerr _ _
  | with_reducible exact Fr.awarn _ _
  | ((with_reducible apply Fr.modify); intro s; exact ⟨rfl, fun _ => ⟨rfl, rfl⟩⟩)
  | ((with_reducible apply Fr.modify); intro s; exact ⟨rfl, fun h => False.elim h⟩)
  | assumption)

macro "fr_ok" : tactic => `(tactic|
  repeat' (first
    | fr_leaf
    | with_reducible apply Fr.bind
    | with_reducible apply Fr.ite
    | with_reducible apply Fr.forIn
    | intro _
    | (show Fr _ _; dsimp only; show Fr _ _)
    | (show Fr _ _; split)))

theorem valueOf_fr {T : Prop} (env : Env) (v : PQValue α) (b : Bool) : Fr T (valueOf env v b) := by
  unfold valueOf; fr_ok
macro_rules | `(tactic| fr_leaf) => `(tactic| with_reducible exact valueOf_fr ..)

theorem quantityOf_fr {T : Prop} (env : Env) (q : Loc (PQuantity α)) (b : Bool) : Fr T (quantityOf env q b) := by
  unfold quantityOf; fr_ok
macro_rules | `(tactic| fr_leaf) => `(tactic| with_reducible exact quantityOf_fr ..)

theorem optQuantityOf_fr {T : Prop} (env : Env) (q : Option (Loc (PQuantity α))) (b : Bool) :
    Fr T (optQuantityOf env q b) := by
  unfold optQuantityOf; fr_ok
macro_rules | `(tactic| fr_leaf) => `(tactic| with_reducible exact optQuantityOf_fr ..)

theorem optValueOf_fr {T : Prop} (env : Env) (q : Option (Loc (PQValue α))) : Fr T (optValueOf env q) := by
  unfold optValueOf; fr_ok
macro_rules | `(tactic| fr_leaf) => `(tactic| with_reducible exact optValueOf_fr ..)

theorem resolveReference_fr {T : Prop} (env : Env) (container : String) (inherit : Nat)
    (existing : List (Str × Modifiers)) (name : Str) (mods : Modifiers) (location modLoc : Span) :
    Fr T (resolveReference (α := α) env container inherit existing name mods location modLoc) := by
  unfold resolveReference; fr_ok
macro_rules | `(tactic| fr_leaf) => `(tactic| with_reducible exact resolveReference_fr ..)

theorem resolveInterRef_fr {T : Prop} (d : Loc InterData) : Fr T (resolveInterRef (α := α) d) := by
  unfold resolveInterRef; fr_ok
macro_rules | `(tactic| fr_leaf) => `(tactic| with_reducible exact resolveInterRef_fr ..)

theorem noteReferenceError_fr {T : Prop} (input : Str) (a b : Span) (c : Option Span) :
    Fr T (noteReferenceError (α := α) input a b c) := by
  unfold noteReferenceError; fr_ok
macro_rules | `(tactic| fr_leaf) => `(tactic| with_reducible exact noteReferenceError_fr ..)

theorem ingrInterChecks_fr {T : Prop} (i : PIngredient α) (igr : Ingredient (ScalableValue α)) :
    Fr T (ingrInterChecks i igr) := by
  unfold ingrInterChecks; fr_ok
macro_rules | `(tactic| fr_leaf) => `(tactic| with_reducible exact ingrInterChecks_fr ..)

theorem ingrInter_fr {T : Prop} (i : PIngredient α) (igr : Ingredient (ScalableValue α)) (d : Loc InterData) :
    Fr T (ingrInter i igr d) := by
  unfold ingrInter; fr_ok
macro_rules | `(tactic| fr_leaf) => `(tactic| with_reducible exact ingrInter_fr ..)

theorem ingrUnitChecks_fr {T : Prop} (env : Env) (i : PIngredient α) (newQ : Quantity (ScalableValue α))
    (idxs : List Nat) : Fr T (ingrUnitChecks env i newQ idxs) := by
  unfold ingrUnitChecks; fr_ok
macro_rules | `(tactic| fr_leaf) => `(tactic| with_reducible exact ingrUnitChecks_fr ..)

theorem ingrRefChecks_fr {T : Prop} (env : Env) (input : Str) (li : Loc (PIngredient α))
    (igr : Ingredient (ScalableValue α)) (refTo : Nat) (defn : Ingredient (ScalableValue α))
    (defLoc : Loc (PIngredient α)) : Fr T (ingrRefChecks env input li igr refTo defn defLoc) := by
  unfold ingrRefChecks; fr_ok
macro_rules | `(tactic| fr_leaf) => `(tactic| with_reducible exact ingrRefChecks_fr ..)

theorem ingrSetReferencedFrom_fr (refTo newIndex : Nat) (defn : Ingredient (ScalableValue α)) :
    Fr False (ingrSetReferencedFrom refTo newIndex defn) := by
  unfold ingrSetReferencedFrom; fr_ok
macro_rules | `(tactic| fr_leaf) => `(tactic| with_reducible exact ingrSetReferencedFrom_fr ..)

theorem ingrRegular_fr (env : Env) (input : Str) (li : Loc (PIngredient α)) (igr0 : Ingredient (ScalableValue α)) :
    Fr False (ingrRegular env input li igr0) := by
  unfold ingrRegular; fr_ok
macro_rules | `(tactic| fr_leaf) => `(tactic| with_reducible exact ingrRegular_fr ..)

theorem ingrBuild_fr (env : Env) (input : Str) (li : Loc (PIngredient α)) (igr0 : Ingredient (ScalableValue α)) :
    Fr False (ingrBuild env input li igr0) := by
  unfold ingrBuild; fr_ok
macro_rules | `(tactic| fr_leaf) => `(tactic| with_reducible exact ingrBuild_fr ..)

theorem ingredientA_fr (env : Env) (input : Str) (li : Loc (PIngredient α)) : Fr False (ingredientA env input li) := by
  unfold ingredientA; fr_ok
macro_rules | `(tactic| fr_leaf) => `(tactic| with_reducible exact ingredientA_fr ..)

theorem cwRefChecks_fr {T : Prop} (input : Str) (lc : Loc (PCookware α)) (cw : Cookware (ScalableValue α))
    (defn : Cookware (ScalableValue α)) (defLoc : Loc (PCookware α)) : Fr T (cwRefChecks input lc cw defn defLoc) := by
  unfold cwRefChecks; fr_ok
macro_rules | `(tactic| fr_leaf) => `(tactic| with_reducible exact cwRefChecks_fr ..)

theorem cwSetReferencedFrom_fr (refTo newIndex : Nat) (defn : Cookware (ScalableValue α)) :
    Fr False (cwSetReferencedFrom refTo newIndex defn) := by
  unfold cwSetReferencedFrom; fr_ok
macro_rules | `(tactic| fr_leaf) => `(tactic| with_reducible exact cwSetReferencedFrom_fr ..)

theorem cwResolve_fr (env : Env) (input : Str) (lc : Loc (PCookware α)) (cw0 : Cookware (ScalableValue α)) :
    Fr False (cwResolve env input lc cw0) := by
  unfold cwResolve; fr_ok
macro_rules | `(tactic| fr_leaf) => `(tactic| with_reducible exact cwResolve_fr ..)

theorem cwBuild_fr (env : Env) (input : Str) (lc : Loc (PCookware α)) (cw0 : Cookware (ScalableValue α)) :
    Fr False (cwBuild env input lc cw0) := by
  unfold cwBuild; fr_ok
macro_rules | `(tactic| fr_leaf) => `(tactic| with_reducible exact cwBuild_fr ..)

theorem cookwareA_fr (env : Env) (input : Str) (lc : Loc (PCookware α)) : Fr False (cookwareA env input lc) := by
  unfold cookwareA; fr_ok
macro_rules | `(tactic| fr_leaf) => `(tactic| with_reducible exact cookwareA_fr ..)

theorem timerQuantityChecks_fr {T : Prop} (env : Env) (q : Loc (PQuantity α)) (r : Quantity (ScalableValue α)) :
    Fr T (timerQuantityChecks env q r) := by
  unfold timerQuantityChecks; fr_ok
macro_rules | `(tactic| fr_leaf) => `(tactic| with_reducible exact timerQuantityChecks_fr ..)

theorem timerQuantity_fr {T : Prop} (env : Env) (q : Option (Loc (PQuantity α))) : Fr T (timerQuantity env q) := by
  unfold timerQuantity; fr_ok
macro_rules | `(tactic| fr_leaf) => `(tactic| with_reducible exact timerQuantity_fr ..)

theorem timerA_fr {T : Prop} (env : Env) (lt : Loc (PTimer α)) : Fr T (timerA env lt) := by
  unfold timerA; fr_ok
macro_rules | `(tactic| fr_leaf) => `(tactic| with_reducible exact timerA_fr ..)

theorem inStepTextStep_fr {T : Prop} (env : Env) (t : Text) (items : List Item) :
    Fr T (inStepTextStep (α := α) env t items) := by
  unfold inStepTextStep; fr_ok
macro_rules | `(tactic| fr_leaf) => `(tactic| with_reducible exact inStepTextStep_fr ..)

theorem inStepText_fr {T : Prop} (env : Env) (t : Text) : Fr T (inStepText (α := α) env t) := by
  unfold inStepText; fr_ok
macro_rules | `(tactic| fr_leaf) => `(tactic| with_reducible exact inStepText_fr ..)

theorem pushItem_fr {T : Prop} (it : Item) : Fr T (pushItem (α := α) it) := by
  constructor
  intro s
  unfold pushItem
  simp +instances only [A_bind, A_get]
  cases hb : s.block with
  | none => simp only []; exact (Fr.apanic (T := T) _).out s
  | some buf =>
    cases buf with
    | step items => simp only [A_set]; exact ⟨fun d hd => hd, fun _ => by simp⟩
    | text b => simp only []; exact (Fr.apanic (T := T) _).out s
macro_rules | `(tactic| fr_leaf) => `(tactic| with_reducible exact pushItem_fr ..)

theorem inStepComponent_fr (env : Env) (input : Str) (ev : Ev α) : Fr False (inStepComponent env input ev) := by
  unfold inStepComponent; fr_ok
macro_rules | `(tactic| fr_leaf) => `(tactic| with_reducible exact inStepComponent_fr ..)

theorem inTextComponent_fr {T : Prop} (input : Str) (ev : Ev α) (buf : Str) : Fr T (inTextComponent input ev buf) := by
  unfold inTextComponent; fr_ok
macro_rules | `(tactic| fr_leaf) => `(tactic| with_reducible exact inTextComponent_fr ..)

theorem inBlockComponent_fr (env : Env) (input : Str) (ev : Ev α) : Fr False (inBlockComponent env input ev) := by
  unfold inBlockComponent; fr_ok
macro_rules | `(tactic| fr_leaf) => `(tactic| with_reducible exact inBlockComponent_fr ..)

theorem timeOverrideCheck_fr {T : Prop} (k : StdKey) : Fr T (timeOverrideCheck (α := α) k) := by
  unfold timeOverrideCheck; fr_ok
macro_rules | `(tactic| fr_leaf) => `(tactic| with_reducible exact timeOverrideCheck_fr ..)

theorem metadataA_fr {T : Prop} (env : Env) (k v : Text) : Fr T (metadataA (α := α) env k v) := by
  unfold metadataA; fr_ok
macro_rules | `(tactic| fr_leaf) => `(tactic| with_reducible exact metadataA_fr ..)

theorem endBlock_fr {T : Prop} (kind : BlockKind) : Fr T (endBlock (α := α) kind) := by
  unfold endBlock endBlockContent pushContent; fr_ok
macro_rules | `(tactic| fr_leaf) => `(tactic| with_reducible exact endBlock_fr ..)

end Cook
