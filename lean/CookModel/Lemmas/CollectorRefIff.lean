import CookModel.Lemmas.CollectorFold
/-
  C06, "reference exactly when REF" for results without errors.

  `Fr T m`   : frame of the piece `m` of the fold: diagnostics are only added (never removed), and —
               when `T` holds — the ingredient and cookware tables are left alone.
  `RefInv s` : an error diagnostic has been pushed, or every component that carries the REF modifier is
               a reference.
-/
set_option linter.unusedSectionVars false
set_option linter.unusedSimpArgs false
set_option linter.unusedVariables false
namespace Cook
variable {α : Type} [Arith α]

/-- some diagnostic is an error -/
def HasErr (dg : Array Diag) : Prop := ∃ d ∈ dg.toList, d.sev = Sev.error

structure Fr (T : Prop) {β : Type} (m : A α β) : Prop where
  out : ∀ s, (∀ d ∈ s.diags.toList, d ∈ (m s).2.diags.toList) ∧
    (T → (m s).2.ingredients = s.ingredients ∧ (m s).2.cookware = s.cookware)

theorem Fr.weaken {T : Prop} {β : Type} {m : A α β} (h : Fr True m) : Fr T m :=
  ⟨fun s => ⟨(h.out s).1, fun _ => (h.out s).2 trivial⟩⟩

theorem Fr.hasErr {T : Prop} {β : Type} {m : A α β} (h : Fr T m) (s : Col α) (he : HasErr s.diags) :
    HasErr (m s).2.diags := by
  obtain ⟨d, hd, hs⟩ := he
  exact ⟨d, (h.out s).1 d hd, hs⟩

theorem Fr.pure {T : Prop} {β : Type} (a : β) : Fr (α := α) T (Pure.pure a : A α β) :=
  ⟨fun s => ⟨fun d h => h, fun _ => ⟨rfl, rfl⟩⟩⟩

theorem Fr.get {T : Prop} : Fr (α := α) T (get : A α (Col α)) := ⟨fun s => ⟨fun d h => h, fun _ => ⟨rfl, rfl⟩⟩⟩

theorem Fr.bind {T : Prop} {β γ : Type} {m : A α β} {f : β → A α γ} (hm : Fr T m) (hf : ∀ a, Fr T (f a)) :
    Fr T (m >>= f) := by
  constructor
  intro s
  obtain ⟨a1, a2⟩ := hm.out s
  obtain ⟨b1, b2⟩ := (hf (m s).1).out (m s).2
  refine ⟨fun d hd => b1 d (a1 d hd), fun t => ?_⟩
  obtain ⟨c1, c2⟩ := a2 t
  obtain ⟨d1, d2⟩ := b2 t
  exact ⟨d1.trans c1, d2.trans c2⟩

theorem Fr.ite {T : Prop} {β : Type} {c : Prop} [Decidable c] {a b : A α β} (ha : Fr T a) (hb : Fr T b) :
    Fr T (if c then a else b) := by
  split <;> assumption

theorem Fr.modify {T : Prop} (f : Col α → Col α)
    (hf : ∀ s, (f s).diags = s.diags ∧ (T → (f s).ingredients = s.ingredients ∧ (f s).cookware = s.cookware)) :
    Fr T (modify f : A α PUnit) :=
  ⟨fun s => ⟨fun d hd => by show d ∈ (f s).diags.toList; rw [(hf s).1]; exact hd, (hf s).2⟩⟩

theorem Fr.apanic {T : Prop} (site : String) : Fr (α := α) T (apanic site) := by
  unfold Cook.apanic
  refine Fr.modify _ (fun s => ?_)
  split <;> exact ⟨rfl, fun _ => ⟨rfl, rfl⟩⟩

theorem Fr.aerr {T : Prop} (k : String) (l : List Span) : Fr (α := α) T (aerr k l) :=
  ⟨fun s => ⟨fun d hd => by
    show d ∈ (s.diags.push _).toList
    rw [Array.toList_push]; exact List.mem_append_left _ hd, fun _ => ⟨rfl, rfl⟩⟩⟩

theorem Fr.awarn {T : Prop} (k : String) (l : List Span) : Fr (α := α) T (awarn k l) :=
  ⟨fun s => ⟨fun d hd => by
    show d ∈ (s.diags.push _).toList
    rw [Array.toList_push]; exact List.mem_append_left _ hd, fun _ => ⟨rfl, rfl⟩⟩⟩

theorem Fr.forIn {T : Prop} {β γ : Type} (l : List β) (init : γ) (f : β → γ → A α (ForInStep γ))
    (hf : ∀ b c, Fr T (f b c)) : Fr T (forIn l init f) := by
  induction l generalizing init with
  | nil => simp only [List.forIn_nil]; exact Fr.pure _
  | cons x xs ih =>
    simp only [List.forIn_cons]
    apply Fr.bind (hf x init)
    intro r
    cases r with
    | done c => exact Fr.pure _
    | yield c => exact ih c

syntax "fr_leaf" : tactic
macro_rules | `(tactic| fr_leaf) => `(tactic| first
  | with_reducible exact Fr.pure _
  | with_reducible exact Fr.get
  | with_reducible exact Fr.apanic _
  | with_reducible exact Fr.aerr _ _
  | with_reducible exact Fr.awarn _ _
  | ((with_reducible apply Fr.modify); intro s; exact ⟨rfl, fun _ => ⟨rfl, rfl⟩⟩)
  | ((with_reducible apply Fr.modify); intro s; exact ⟨rfl, fun h => False.elim h⟩)
  | assumption)

macro "fr_ok" : tactic => `(tactic|
  repeat' (first
    | fr_leaf
    | with_reducible apply Fr.bind
    | with_reducible apply Fr.ite
    | with_reducible apply Fr.forIn
    | intro _
    | (show Fr _ _; dsimp only; show Fr _ _)
    | (show Fr _ _; split)))

theorem valueOf_fr {T : Prop} (env : Env) (v : PQValue α) (b : Bool) : Fr T (valueOf env v b) := by
  unfold valueOf; fr_ok
macro_rules | `(tactic| fr_leaf) => `(tactic| with_reducible exact valueOf_fr ..)

theorem quantityOf_fr {T : Prop} (env : Env) (q : Loc (PQuantity α)) (b : Bool) : Fr T (quantityOf env q b) := by
  unfold quantityOf; fr_ok
macro_rules | `(tactic| fr_leaf) => `(tactic| with_reducible exact quantityOf_fr ..)

theorem optQuantityOf_fr {T : Prop} (env : Env) (q : Option (Loc (PQuantity α))) (b : Bool) :
    Fr T (optQuantityOf env q b) := by
  unfold optQuantityOf; fr_ok
macro_rules | `(tactic| fr_leaf) => `(tactic| with_reducible exact optQuantityOf_fr ..)

theorem optValueOf_fr {T : Prop} (env : Env) (q : Option (Loc (PQValue α))) : Fr T (optValueOf env q) := by
  unfold optValueOf; fr_ok
macro_rules | `(tactic| fr_leaf) => `(tactic| with_reducible exact optValueOf_fr ..)

theorem resolveReference_fr {T : Prop} (env : Env) (container : String) (inherit : Nat)
    (existing : List (Str × Modifiers)) (name : Str) (mods : Modifiers) (location modLoc : Span) :
    Fr T (resolveReference (α := α) env container inherit existing name mods location modLoc) := by
  unfold resolveReference; fr_ok
macro_rules | `(tactic| fr_leaf) => `(tactic| with_reducible exact resolveReference_fr ..)

theorem resolveInterRef_fr {T : Prop} (d : Loc InterData) : Fr T (resolveInterRef (α := α) d) := by
  unfold resolveInterRef; fr_ok
macro_rules | `(tactic| fr_leaf) => `(tactic| with_reducible exact resolveInterRef_fr ..)

theorem noteReferenceError_fr {T : Prop} (input : Str) (a b : Span) (c : Option Span) :
    Fr T (noteReferenceError (α := α) input a b c) := by
  unfold noteReferenceError; fr_ok
macro_rules | `(tactic| fr_leaf) => `(tactic| with_reducible exact noteReferenceError_fr ..)

theorem ingrInterChecks_fr {T : Prop} (i : PIngredient α) (igr : Ingredient (ScalableValue α)) :
    Fr T (ingrInterChecks i igr) := by
  unfold ingrInterChecks; fr_ok
macro_rules | `(tactic| fr_leaf) => `(tactic| with_reducible exact ingrInterChecks_fr ..)

theorem ingrInter_fr {T : Prop} (i : PIngredient α) (igr : Ingredient (ScalableValue α)) (d : Loc InterData) :
    Fr T (ingrInter i igr d) := by
  unfold ingrInter; fr_ok
macro_rules | `(tactic| fr_leaf) => `(tactic| with_reducible exact ingrInter_fr ..)

theorem ingrUnitChecks_fr {T : Prop} (env : Env) (i : PIngredient α) (newQ : Quantity (ScalableValue α))
    (idxs : List Nat) : Fr T (ingrUnitChecks env i newQ idxs) := by
  unfold ingrUnitChecks; fr_ok
macro_rules | `(tactic| fr_leaf) => `(tactic| with_reducible exact ingrUnitChecks_fr ..)

theorem ingrRefChecks_fr {T : Prop} (env : Env) (input : Str) (li : Loc (PIngredient α))
    (igr : Ingredient (ScalableValue α)) (refTo : Nat) (defn : Ingredient (ScalableValue α))
    (defLoc : Loc (PIngredient α)) : Fr T (ingrRefChecks env input li igr refTo defn defLoc) := by
  unfold ingrRefChecks; fr_ok
macro_rules | `(tactic| fr_leaf) => `(tactic| with_reducible exact ingrRefChecks_fr ..)

theorem ingrSetReferencedFrom_fr (refTo newIndex : Nat) (defn : Ingredient (ScalableValue α)) :
    Fr False (ingrSetReferencedFrom refTo newIndex defn) := by
  unfold ingrSetReferencedFrom; fr_ok
macro_rules | `(tactic| fr_leaf) => `(tactic| with_reducible exact ingrSetReferencedFrom_fr ..)

theorem ingrRegular_fr (env : Env) (input : Str) (li : Loc (PIngredient α)) (igr0 : Ingredient (ScalableValue α)) :
    Fr False (ingrRegular env input li igr0) := by
  unfold ingrRegular; fr_ok
macro_rules | `(tactic| fr_leaf) => `(tactic| with_reducible exact ingrRegular_fr ..)

theorem ingrBuild_fr (env : Env) (input : Str) (li : Loc (PIngredient α)) (igr0 : Ingredient (ScalableValue α)) :
    Fr False (ingrBuild env input li igr0) := by
  unfold ingrBuild; fr_ok
macro_rules | `(tactic| fr_leaf) => `(tactic| with_reducible exact ingrBuild_fr ..)

theorem ingredientA_fr (env : Env) (input : Str) (li : Loc (PIngredient α)) : Fr False (ingredientA env input li) := by
  unfold ingredientA; fr_ok
macro_rules | `(tactic| fr_leaf) => `(tactic| with_reducible exact ingredientA_fr ..)

theorem cwRefChecks_fr {T : Prop} (input : Str) (lc : Loc (PCookware α)) (cw : Cookware (ScalableValue α))
    (defn : Cookware (ScalableValue α)) (defLoc : Loc (PCookware α)) : Fr T (cwRefChecks input lc cw defn defLoc) := by
  unfold cwRefChecks; fr_ok
macro_rules | `(tactic| fr_leaf) => `(tactic| with_reducible exact cwRefChecks_fr ..)

theorem cwSetReferencedFrom_fr (refTo newIndex : Nat) (defn : Cookware (ScalableValue α)) :
    Fr False (cwSetReferencedFrom refTo newIndex defn) := by
  unfold cwSetReferencedFrom; fr_ok
macro_rules | `(tactic| fr_leaf) => `(tactic| with_reducible exact cwSetReferencedFrom_fr ..)

theorem cwResolve_fr (env : Env) (input : Str) (lc : Loc (PCookware α)) (cw0 : Cookware (ScalableValue α)) :
    Fr False (cwResolve env input lc cw0) := by
  unfold cwResolve; fr_ok
macro_rules | `(tactic| fr_leaf) => `(tactic| with_reducible exact cwResolve_fr ..)

theorem cwBuild_fr (env : Env) (input : Str) (lc : Loc (PCookware α)) (cw0 : Cookware (ScalableValue α)) :
    Fr False (cwBuild env input lc cw0) := by
  unfold cwBuild; fr_ok
macro_rules | `(tactic| fr_leaf) => `(tactic| with_reducible exact cwBuild_fr ..)

theorem cookwareA_fr (env : Env) (input : Str) (lc : Loc (PCookware α)) : Fr False (cookwareA env input lc) := by
  unfold cookwareA; fr_ok
macro_rules | `(tactic| fr_leaf) => `(tactic| with_reducible exact cookwareA_fr ..)

theorem timerQuantityChecks_fr {T : Prop} (env : Env) (q : Loc (PQuantity α)) (r : Quantity (ScalableValue α)) :
    Fr T (timerQuantityChecks env q r) := by
  unfold timerQuantityChecks; fr_ok
macro_rules | `(tactic| fr_leaf) => `(tactic| with_reducible exact timerQuantityChecks_fr ..)

theorem timerQuantity_fr {T : Prop} (env : Env) (q : Option (Loc (PQuantity α))) : Fr T (timerQuantity env q) := by
  unfold timerQuantity; fr_ok
macro_rules | `(tactic| fr_leaf) => `(tactic| with_reducible exact timerQuantity_fr ..)

theorem timerA_fr {T : Prop} (env : Env) (lt : Loc (PTimer α)) : Fr T (timerA env lt) := by
  unfold timerA; fr_ok
macro_rules | `(tactic| fr_leaf) => `(tactic| with_reducible exact timerA_fr ..)

theorem inStepTextStep_fr {T : Prop} (env : Env) (t : Text) (items : List Item) :
    Fr T (inStepTextStep (α := α) env t items) := by
  unfold inStepTextStep; fr_ok
macro_rules | `(tactic| fr_leaf) => `(tactic| with_reducible exact inStepTextStep_fr ..)

theorem inStepText_fr {T : Prop} (env : Env) (t : Text) : Fr T (inStepText (α := α) env t) := by
  unfold inStepText; fr_ok
macro_rules | `(tactic| fr_leaf) => `(tactic| with_reducible exact inStepText_fr ..)

theorem pushItem_fr {T : Prop} (it : Item) : Fr T (pushItem (α := α) it) := by
  constructor
  intro s
  unfold pushItem
  simp +instances only [A_bind, A_get]
  cases hb : s.block with
  | none => simp only []; exact (Fr.apanic (T := T) _).out s
  | some buf =>
    cases buf with
    | step items => simp only [A_set]; exact ⟨fun d hd => hd, fun _ => by simp⟩
    | text b => simp only []; exact (Fr.apanic (T := T) _).out s
macro_rules | `(tactic| fr_leaf) => `(tactic| with_reducible exact pushItem_fr ..)

theorem inStepComponent_fr (env : Env) (input : Str) (ev : Ev α) : Fr False (inStepComponent env input ev) := by
  unfold inStepComponent; fr_ok
macro_rules | `(tactic| fr_leaf) => `(tactic| with_reducible exact inStepComponent_fr ..)

theorem inTextComponent_fr {T : Prop} (input : Str) (ev : Ev α) (buf : Str) : Fr T (inTextComponent input ev buf) := by
  unfold inTextComponent; fr_ok
macro_rules | `(tactic| fr_leaf) => `(tactic| with_reducible exact inTextComponent_fr ..)

theorem inBlockComponent_fr (env : Env) (input : Str) (ev : Ev α) : Fr False (inBlockComponent env input ev) := by
  unfold inBlockComponent; fr_ok
macro_rules | `(tactic| fr_leaf) => `(tactic| with_reducible exact inBlockComponent_fr ..)

theorem timeOverrideCheck_fr {T : Prop} (k : StdKey) : Fr T (timeOverrideCheck (α := α) k) := by
  unfold timeOverrideCheck; fr_ok
macro_rules | `(tactic| fr_leaf) => `(tactic| with_reducible exact timeOverrideCheck_fr ..)

theorem metadataA_fr {T : Prop} (env : Env) (k v : Text) : Fr T (metadataA (α := α) env k v) := by
  unfold metadataA; fr_ok
macro_rules | `(tactic| fr_leaf) => `(tactic| with_reducible exact metadataA_fr ..)

theorem endBlock_fr {T : Prop} (kind : BlockKind) : Fr T (endBlock (α := α) kind) := by
  unfold endBlock endBlockContent pushContent; fr_ok
macro_rules | `(tactic| fr_leaf) => `(tactic| with_reducible exact endBlock_fr ..)

theorem Fr.pushDiag {T : Prop} (d : Diag) :
    Fr (α := α) T (_root_.modify (fun s : Col α => { s with diags := s.diags.push d }) : A α PUnit) :=
  ⟨fun s => ⟨fun d hd => by
    show d ∈ (s.diags.push _).toList
    rw [Array.toList_push]; exact List.mem_append_left _ hd, fun _ => ⟨rfl, rfl⟩⟩⟩

theorem processEvent_fr (env : Env) (input : Str) (ev : Ev α) : Fr False (processEvent env input ev) := by
  cases ev with
  | warning d => exact Fr.pushDiag d
  | _ => simp only [processEvent] <;> fr_ok

/-! ### which components get REF without being a reference -/

/-- `resolve_reference` returns no target but modifiers with REF only next to an error -/
theorem resolveReference_noref (env : Env) (container : String) (inherit : Nat)
    (existing : List (Str × Modifiers)) (name : Str) (mods : Modifiers) (location modLoc : Span) (s : Col α)
    (h : (resolveReference env container inherit existing name mods location modLoc s).1.2 = none)
    (hR : (resolveReference env container inherit existing name mods location modLoc s).1.1.contains Modifiers.REF = true) :
    HasErr (resolveReference env container inherit existing name mods location modLoc s).2.diags := by
  generalize hr : resolveReference env container inherit existing name mods location modLoc s = r at h hR ⊢
  unfold resolveReference at hr
  simp +instances only [A_bind, A_pure, A_get, A_ite, aerr, awarn, A_modify] at hr
  generalize sameNameIdx env existing name = sn at hr ⊢
  repeat' split at hr
  all_goals subst hr
  all_goals simp only [A_bind, A_pure, A_modify] at h hR ⊢
  all_goals first
    | (cases h; done)
    | (exact ⟨_, by simp only [Array.toList_push]; exact List.mem_append_right _ List.mem_cons_self, rfl⟩)
    | (simp_all; done)

theorem resolveInterRef_none (d : Loc InterData) (s : Col α) (h : (resolveInterRef d s).1 = none) :
    HasErr (resolveInterRef d s).2.diags := by
  unfold resolveInterRef at h ⊢
  cases hx : interRefTarget s.cur.content s.sections.length d.val with
  | ok rel' =>
    simp +instances only [hx, A_bind, A_ite, A_pure, A_get] at h
    split at h <;> simp only [reduceCtorEq] at h
  | error k =>
    simp +instances only [hx, A_bind, A_ite, A_pure, A_get, aerr, A_modify]
    split <;> exact ⟨_, by simp only [Array.toList_push]; exact List.mem_append_right _ List.mem_cons_self, rfl⟩

theorem isReference_of_interRefTarget (content : List Content) (n : Nat) (d : InterData) (rel : IngredientRelation)
    (h : interRefTarget content n d = .ok rel) : rel.relation.isReference = true := by
  rcases interRefTarget_inRange content n d rel h with ⟨i, hi, _⟩ | ⟨i, hi, _⟩ <;> rw [hi] <;> rfl

theorem ingrInter_ref (i : PIngredient α) (igr : Ingredient (ScalableValue α)) (d : Loc InterData) (s : Col α) :
    (ingrInter i igr d s).1.relation.relation.isReference = true ∨ HasErr (ingrInter i igr d s).2.diags := by
  unfold ingrInter
  simp only [A_bind]
  cases hr : (resolveInterRef d (ingrInterChecks i igr s).2).1 with
  | none =>
    right
    exact resolveInterRef_none d _ hr
  | some rel =>
    left
    exact isReference_of_interRefTarget _ _ _ _ (resolveInterRef_val d _ rel hr)

theorem A_bind_fst_pure {β γ : Type} (m : A α β) (x : γ) (s : Col α) : ((m >>= fun _ => (pure x : A α γ)) s).1 = x := rfl

theorem ingrRegular_ref (env : Env) (input : Str) (li : Loc (PIngredient α)) (igr0 : Ingredient (ScalableValue α))
    (s : Col α) (hR : (ingrRegular env input li igr0 s).1.modifiers.contains Modifiers.REF = true) :
    (ingrRegular env input li igr0 s).1.relation.relation.isReference = true ∨
      HasErr (ingrRegular env input li igr0 s).2.diags := by
  unfold ingrRegular at hR ⊢
  simp +instances only [A_bind, A_get] at hR ⊢
  have hno := resolveReference_noref (α := α) env "ingredient"
    (Modifiers.HIDDEN ||| Modifiers.OPT ||| Modifiers.RECIPE) (s.ingredients.toList.map (fun x => (x.name, x.modifiers)))
    igr0.name igr0.modifiers li.span li.val.modifiers.span s
  generalize resolveReference (α := α) env "ingredient"
    (Modifiers.HIDDEN ||| Modifiers.OPT ||| Modifiers.RECIPE) (s.ingredients.toList.map (fun x => (x.name, x.modifiers)))
    igr0.name igr0.modifiers li.span li.val.modifiers.span s = rr at hno hR ⊢
  cases ho : rr.1.2 with
  | none =>
    simp only [ho, A_pure] at hR ⊢
    exact Or.inr (hno ho hR)
  | some o =>
    left
    simp +instances only [ho, A_bind, A_get]
    cases rr.snd.ingredients[o.refTo]? <;> cases rr.snd.locIngr[o.refTo]? <;> rfl

/-- the ingredient `ingrBuild` pushes: REF only on a reference, or next to an error -/
theorem ingrBuild_ref (env : Env) (input : Str) (li : Loc (PIngredient α)) (igr0 : Ingredient (ScalableValue α))
    (s : Col α) (ings : Array (Ingredient (ScalableValue α))) (igr : Ingredient (ScalableValue α))
    (h : (ingrBuild env input li igr0 s).2.ingredients = ings.push igr)
    (hR : igr.modifiers.contains Modifiers.REF = true) :
    igr.relation.relation.isReference = true ∨ HasErr (ingrBuild env input li igr0 s).2.diags := by
  unfold ingrBuild at h ⊢
  simp +instances only [A_bind, A_get, A_pure, A_modify] at h ⊢
  cases hi : li.val.inter with
  | some d =>
    simp only [hi] at h ⊢
    obtain ⟨h1, _⟩ := Array.push_eq_push.mp h
    rw [← h1]
    exact ingrInter_ref li.val igr0 d s
  | none =>
    simp only [hi] at h ⊢
    obtain ⟨h1, _⟩ := Array.push_eq_push.mp h
    rw [← h1] at hR ⊢
    exact ingrRegular_ref env input li igr0 s hR

theorem ingredientA_ref (env : Env) (input : Str) (li : Loc (PIngredient α))
    (s : Col α) (ings : Array (Ingredient (ScalableValue α))) (igr : Ingredient (ScalableValue α))
    (h : (ingredientA env input li s).2.ingredients = ings.push igr)
    (hR : igr.modifiers.contains Modifiers.REF = true) :
    igr.relation.relation.isReference = true ∨ HasErr (ingredientA env input li s).2.diags := by
  unfold ingredientA at h ⊢
  simp +instances only [A_bind, A_get] at h ⊢
  exact ingrBuild_ref env input li _ _ ings igr h hR

theorem cwResolve_ref (env : Env) (input : Str) (lc : Loc (PCookware α)) (cw0 : Cookware (ScalableValue α))
    (s : Col α) (hR : (cwResolve env input lc cw0 s).1.modifiers.contains Modifiers.REF = true) :
    (cwResolve env input lc cw0 s).1.relation.isReference = true ∨
      HasErr (cwResolve env input lc cw0 s).2.diags := by
  unfold cwResolve at hR ⊢
  simp +instances only [A_bind, A_get] at hR ⊢
  have hno := resolveReference_noref (α := α) env "cookware item"
    (Modifiers.HIDDEN ||| Modifiers.OPT) (s.cookware.toList.map (fun x => (x.name, x.modifiers)))
    cw0.name cw0.modifiers lc.span lc.val.modifiers.span s
  generalize resolveReference (α := α) env "cookware item"
    (Modifiers.HIDDEN ||| Modifiers.OPT) (s.cookware.toList.map (fun x => (x.name, x.modifiers)))
    cw0.name cw0.modifiers lc.span lc.val.modifiers.span s = rr at hno hR ⊢
  cases ho : rr.1.2 with
  | none =>
    simp only [ho, A_pure] at hR ⊢
    exact Or.inr (hno ho hR)
  | some o =>
    left
    simp +instances only [ho, A_bind, A_get]
    cases rr.snd.cookware[o.refTo]? <;> cases rr.snd.locCw[o.refTo]? <;> rfl

theorem cwBuild_ref (env : Env) (input : Str) (lc : Loc (PCookware α)) (cw0 : Cookware (ScalableValue α))
    (s : Col α) (cws : Array (Cookware (ScalableValue α))) (cw : Cookware (ScalableValue α))
    (h : (cwBuild env input lc cw0 s).2.cookware = cws.push cw)
    (hR : cw.modifiers.contains Modifiers.REF = true) :
    cw.relation.isReference = true ∨ HasErr (cwBuild env input lc cw0 s).2.diags := by
  unfold cwBuild at h ⊢
  simp +instances only [A_bind, A_get, A_pure, A_modify] at h ⊢
  obtain ⟨h1, _⟩ := Array.push_eq_push.mp h
  rw [← h1] at hR ⊢
  exact cwResolve_ref env input lc cw0 s hR

theorem cookwareA_ref (env : Env) (input : Str) (lc : Loc (PCookware α))
    (s : Col α) (cws : Array (Cookware (ScalableValue α))) (cw : Cookware (ScalableValue α))
    (h : (cookwareA env input lc s).2.cookware = cws.push cw)
    (hR : cw.modifiers.contains Modifiers.REF = true) :
    cw.relation.isReference = true ∨ HasErr (cookwareA env input lc s).2.diags := by
  unfold cookwareA at h ⊢
  simp +instances only [A_bind, A_get] at h ⊢
  exact cwBuild_ref env input lc _ _ cws cw h hR

/-! ### the tables -/

/-- every ingredient with REF is a reference -/
def RefOKI (ings : Array (Ingredient (ScalableValue α))) : Prop :=
  ∀ (k : Nat) (ig : Ingredient (ScalableValue α)), ings[k]? = some ig →
    ig.modifiers.contains Modifiers.REF = true → ig.relation.relation.isReference = true

def RefOKC (cws : Array (Cookware (ScalableValue α))) : Prop :=
  ∀ (k : Nat) (cw : Cookware (ScalableValue α)), cws[k]? = some cw →
    cw.modifiers.contains Modifiers.REF = true → cw.relation.isReference = true

theorem RefOKI.push {ings : Array (Ingredient (ScalableValue α))} (h : RefOKI ings) (igr : Ingredient (ScalableValue α))
    (hi : igr.modifiers.contains Modifiers.REF = true → igr.relation.relation.isReference = true) :
    RefOKI (ings.push igr) := by
  intro k ig hk
  rw [Array.getElem?_push] at hk
  split at hk
  · cases hk; exact hi
  · exact h k ig hk

theorem RefOKC.push {cws : Array (Cookware (ScalableValue α))} (h : RefOKC cws) (cw : Cookware (ScalableValue α))
    (hi : cw.modifiers.contains Modifiers.REF = true → cw.relation.isReference = true) :
    RefOKC (cws.push cw) := by
  intro k c hk
  rw [Array.getElem?_push] at hk
  split at hk
  · cases hk; exact hi
  · exact h k c hk

/-- the back-link update does not touch modifiers and keeps a definition a definition -/
theorem IngrStep.keeps {env : Env} {s : Col α} {ings : Array (Ingredient (ScalableValue α))}
    {igr : Ingredient (ScalableValue α)} (hstep : IngrStep env s ings igr) (h : RefOKI s.ingredients) : RefOKI ings := by
  rcases hstep with ⟨he, _⟩ | ⟨he, _⟩ | ⟨t, defn, rf, b, h1, h2, h3, h4, h5, h6, he⟩
  · rw [he]; exact h
  · rw [he]; exact h
  · rw [he]
    intro k ig hk hR
    rw [Array.getElem?_setIfInBounds] at hk
    split at hk
    · split at hk
      · cases hk
        rw [h3] at hR; cases hR
      · cases hk
    · exact h k ig hk hR

theorem CwStep.keeps {env : Env} {s : Col α} {cws : Array (Cookware (ScalableValue α))}
    {cw : Cookware (ScalableValue α)} (hstep : CwStep env s cws cw) (h : RefOKC s.cookware) : RefOKC cws := by
  rcases hstep with ⟨he, _⟩ | ⟨t, defn, rf, b, h1, h2, h3, h4, h5, h6, he⟩
  · rw [he]; exact h
  · rw [he]
    intro k c hk hR
    rw [Array.getElem?_setIfInBounds] at hk
    split at hk
    · split at hk
      · cases hk
        rw [h3] at hR; cases hR
      · cases hk
    · exact h k c hk hR

/-- an error has been reported, or "REF ⇒ reference" holds of both tables -/
def RefInv (s : Col α) : Prop := HasErr s.diags ∨ (RefOKI s.ingredients ∧ RefOKC s.cookware)

theorem RefInv.init : RefInv (α := α) {} :=
  Or.inr ⟨fun k ig h => by simp at h, fun k ig h => by simp at h⟩

/-- a piece that leaves the tables alone keeps `RefInv` -/
theorem RefInv.of_fr {β : Type} {m : A α β} (hf : Fr True m) {s : Col α} (h : RefInv s) : RefInv (m s).2 := by
  rcases h with h | h
  · exact Or.inl (hf.hasErr s h)
  · obtain ⟨e1, e2⟩ := (hf.out s).2 trivial
    right; rw [e1, e2]; exact h

theorem inStepComponent_refInv (env : Env) (input : Str) (ev : Ev α) (items : List Item) (s : Col α) (hi : Inv env s)
    (hr : RefInv s) (hb : s.block = some (.step items)) (hev : EvOK ev) : RefInv (inStepComponent env input ev s).2 := by
  rcases hr with hr | ⟨hI, hC⟩
  · exact Or.inl ((inStepComponent_fr env input ev).hasErr s hr)
  unfold inStepComponent
  have hpanic : RefInv (apanic "Unexpected event in step" s).2 := RefInv.of_fr (Fr.apanic _) (Or.inr ⟨hI, hC⟩)
  cases ev with
  | ingredient li =>
    simp only [A_bind]
    obtain ⟨dg, p, ings, igr, h1, h2, h3⟩ := ingredientA_spec env input li s hi.locI hi.itab.nonREF_def hev
    have hblk : (ingredientA env input li s).2.block = s.block := by rw [h1]
    have href := ingredientA_ref env input li s ings igr (by rw [h1])
    rw [pushItem_step' _ items s (ingredientA env input li s).2 hblk hb]
    rw [h1] at href ⊢
    simp only [] at href ⊢
    by_cases hR : igr.modifiers.contains Modifiers.REF = true
    · rcases href hR with hx | hx
      · exact Or.inr ⟨(h3.keeps hI).push igr (fun _ => hx), hC⟩
      · exact Or.inl hx
    · exact Or.inr ⟨(h3.keeps hI).push igr (fun hc => absurd hc hR), hC⟩
  | cookware lc =>
    simp only [A_bind]
    obtain ⟨dg, p, cws, cw, h1, h2, h3⟩ := cookwareA_spec env input lc s hi.locC hi.ctab.nonREF_def
    have hblk : (cookwareA env input lc s).2.block = s.block := by rw [h1]
    have href := cookwareA_ref env input lc s cws cw (by rw [h1])
    rw [pushItem_step' _ items s (cookwareA env input lc s).2 hblk hb]
    rw [h1] at href ⊢
    simp only [] at href ⊢
    by_cases hR : cw.modifiers.contains Modifiers.REF = true
    · rcases href hR with hx | hx
      · exact Or.inr ⟨hI, (h3.keeps hC).push cw (fun _ => hx)⟩
      · exact Or.inl hx
    · exact Or.inr ⟨hI, (h3.keeps hC).push cw (fun hc => absurd hc hR)⟩
  | timer lt =>
    exact RefInv.of_fr (m := timerA env lt >>= fun idx => pushItem (.timer idx))
      (Fr.bind (timerA_fr env lt) (fun _ => pushItem_fr _)) (Or.inr ⟨hI, hC⟩)
  | frontMatter _ => exact hpanic
  | metadata _ _ => exact hpanic
  | «section» _ => exact hpanic
  | start _ => exact hpanic
  | stop _ => exact hpanic
  | text _ => exact hpanic
  | error _ => exact hpanic
  | warning _ => exact hpanic

theorem inBlockComponent_refInv (env : Env) (input : Str) (ev : Ev α) (s : Col α) (hi : Inv env s) (hr : RefInv s)
    (hev : EvOK ev) : RefInv (inBlockComponent env input ev s).2 := by
  unfold inBlockComponent
  simp +instances only [A_bind, A_get]
  cases hb : s.block with
  | none => simp only []; exact RefInv.of_fr (Fr.apanic _) hr
  | some buf =>
    cases buf with
    | step items => simp only []; exact inStepComponent_refInv env input ev items s hi hr hb hev
    | text b => simp only []; exact RefInv.of_fr (inTextComponent_fr input ev b) hr

theorem processEvent_refInv (env : Env) (input : Str) (ev : Ev α) (s : Col α) (hi : Inv env s) (hr : RefInv s)
    (hev : EvOK ev) : RefInv (processEvent env input ev s).2 := by
  cases ev with
  | frontMatter t => exact RefInv.of_fr (by simp only [processEvent]; fr_ok) hr
  | metadata k v => exact RefInv.of_fr (metadataA_fr env k v) hr
  | «section» name => exact RefInv.of_fr (by simp only [processEvent]; fr_ok) hr
  | start kind => exact RefInv.of_fr (by simp only [processEvent]; fr_ok) hr
  | stop kind => exact RefInv.of_fr (endBlock_fr kind) hr
  | text t => exact RefInv.of_fr (inStepText_fr env t) hr
  | ingredient i => simp only [processEvent]; exact inBlockComponent_refInv env input _ s hi hr hev
  | cookware c => simp only [processEvent]; exact inBlockComponent_refInv env input _ s hi hr hev
  | timer t => simp only [processEvent]; exact inBlockComponent_refInv env input _ s hi hr hev
  | error d => exact hr
  | warning d => exact RefInv.of_fr (Fr.pushDiag d) hr

/-- the returned collector: an error among the reported diagnostics, or REF ⇒ reference -/
theorem parseEventsLoop_refInv (env : Env) (input : Str) (evs : List (Ev α)) (s c : Col α) (hi : Inv env s)
    (hr : RefInv s) (hev : ∀ ev ∈ evs, EvOK ev) (hc : (parseEventsLoop env input evs s).output = some c) :
    HasErr (parseEventsLoop env input evs s).diags ∨ (RefOKI c.ingredients ∧ RefOKC c.cookware) := by
  induction evs generalizing s with
  | nil =>
    simp only [parseEventsLoop, Option.some.injEq] at hc ⊢
    subst hc
    rcases hr with ⟨d, hd, hs⟩ | hr
    · left
      refine ⟨d, ?_, hs⟩
      split <;> split <;> first | exact hd | (simp only [Array.toList_push]; exact List.mem_append_left _ hd)
    · right
      split <;> split <;> exact hr
  | cons ev rest ih =>
    by_cases he : ∃ d0, ev = .error d0
    · obtain ⟨d0, rfl⟩ := he
      simp only [parseEventsLoop] at hc
      cases hc
    · rw [parseEventsLoop_cons_nonerror env input ev rest s he] at hc ⊢
      exact ih _ (processEvent_inv env input ev s hi (hev ev List.mem_cons_self))
        (processEvent_refInv env input ev s hi hr (hev ev List.mem_cons_self))
        (fun e he' => hev e (List.mem_cons_of_mem _ he')) hc

end Cook
