import CookModel.Lemmas.DiagPlaceDocMore
/-
  C07, arbitrary placement, document level: the empty value with a blank value TOKEN after the lock, `@x{= %g}`
  (`c07u_` prefix, wave 10; left open by wave 9: "needs `numOrRange` of padding = none on every spelling").  Quantity
  tokens `blanks = padding % unit`: the padding tokens (spaces, block comments; at least one) ARE the value tokens, so
  `empty-value` is labelled with their text span — not with an empty span at the `%` as for `@x{=%g}`.
-/
set_option linter.unusedSectionVars false
set_option linter.unusedSimpArgs false
set_option linter.unusedVariables false
namespace Cook

variable {α : Type} [Arith α]

theorem c07u_dropWhile_all (p : Tok → Bool) : ∀ (l : List Tok), (∀ t ∈ l, p t = true) → l.dropWhile p = []
  | [], _ => rfl
  | a :: l, h => by
    rw [List.dropWhile_cons, h a (by simp)]
    exact c07u_dropWhile_all p l (fun t ht => h t (by simp [ht]))

theorem c07u_trim_blank (vt : List Tok) (h : ∀ t ∈ vt, isWsComment t.kind = true) : trimTokens vt = [] := by
  unfold trimTokens
  rw [c07u_dropWhile_all (fun t => isWsComment t.kind) vt h]; rfl

/-- blank tokens are no number and no range -/
theorem c07u_numOrRange_blank (ext : Bool) (vt : List Tok) (h : ∀ t ∈ vt, isWsComment t.kind = true) :
    numOrRange (α := α) ext vt = none := by
  have h' := c07u_trim_blank vt h
  have hm : vt.findIdx? (fun t => t.kind == .minus) = none := by
    rw [List.findIdx?_eq_none_iff]
    intro t ht
    have := h t ht
    cases hk : t.kind <;> simp [isWsComment, hk] at this ⊢
  simp [numOrRange, rangeValue, numericValue, h', hm]

/-- the events of `blanks = padding % unit` on actual quantity tokens `Q` (`np` blanks before the `=`, `nv` padding
    tokens after it): `empty-value` labelled with the span of the padding text, then `empty-unit` on the `%` iff the
    unit text is blank -/
def c07u_emptyValueEvs (cs : CharSpec) (np nv : Nat) (Q : List Tok) : List (Ev α) :=
  emptyValueEv (buildText (((Q.drop (np + 1)).head?.getD dummyTok).start) ((Q.drop (np + 1)).take nv)) ::
    emptyUnitEvs ((Q.drop (np + 1 + nv)).head?.getD dummyTok) (Q.drop (np + 1 + nv)).tail cs

/-- the quantity read: unit from the actual unit tokens (none if blank), lock = the span of the actual `=` -/
def c07u_emptyValueRead (cs : CharSpec) (np nv : Nat) (Q : List Tok) (q : ParsedQuantity α) : Prop :=
  q.quantity.val.unit =
      (if (buildText ((Q.drop (np + 1 + nv)).head?.getD dummyTok).stop (Q.drop (np + 1 + nv)).tail).isTextEmpty cs
        then none
        else some (buildText ((Q.drop (np + 1 + nv)).head?.getD dummyTok).stop (Q.drop (np + 1 + nv)).tail)) ∧
    q.quantity.val.value.lock = lockSpan ((Q.drop np).take 1)

/-- the reading of `blanks = padding % unit` (`@x{= %g}`, `@x{ =  %}`), on every spelling -/
theorem c07u_empty_value_locked_reading (cs : CharSpec) (e : Ext) (preS : List Tok) (eqS : Tok) (vtS : List Tok)
    (pctS : Tok) (utS : List Tok) (hpre : ∀ t ∈ preS, isWsComment t.kind = true) (heq : eqS.kind = .eq)
    (hvt : padOK cs vtS = true) (hne : vtS ≠ []) (hpct : pctS.kind = .percent) :
    ∀ Q, Spells Q (preS ++ ([eqS] ++ (vtS ++ pctS :: utS))) → ∀ sq : BP α, sq.cs = cs → sq.ext = e →
      Sat (parseQuantity (α := α) Q) sq (fun r s' =>
        Pushed (c07u_emptyValueEvs cs preS.length vtS.length Q) sq s' ∧
        c07u_emptyValueRead cs preS.length vtS.length Q r) := by
  intro Q hs sq h1 h2
  subst h1 h2
  obtain ⟨pre, r1, rfl, kpre, hs1⟩ := hs.append_inv
  obtain ⟨lk, r2, rfl, klk, hs2⟩ := hs1.append_inv
  obtain ⟨eq, rfl, keq, -⟩ := klk.single_inv
  obtain ⟨vt, r3, rfl, kvt, hs3⟩ := hs2.append_inv
  obtain ⟨pct, ut, rfl, kp, -, ku⟩ := hs3.cons_inv
  have hpad := kvt.padOK_of hvt
  have hblank : ∀ t ∈ vt, isWsComment t.kind = true := by
    intro t ht
    have : padTok sq.cs t = true := by
      unfold padOK at hpad; rw [List.all_eq_true] at hpad; exact hpad t ht
    exact padTok_blank this
  obtain ⟨v, vs, hvc⟩ : ∃ v vs, vt = v :: vs := by
    cases vt with
    | nil => exfalso; apply hne; have := kvt.length; exact List.eq_nil_of_length_eq_zero this.symm
    | cons v vs => exact ⟨v, vs, rfl⟩
  have hd1 : (pre ++ ([eq] ++ (vt ++ pct :: ut))).drop (preS.length + 1) = vt ++ pct :: ut := by
    rw [← List.append_assoc]
    exact List.drop_left' (by rw [List.length_append, kpre.length]; rfl)
  have hd2 : (pre ++ ([eq] ++ (vt ++ pct :: ut))).drop (preS.length + 1 + vtS.length) = pct :: ut := by
    rw [← List.append_assoc, ← List.append_assoc]
    exact List.drop_left' (by simp only [List.length_append, kpre.length, kvt.length, List.length_cons, List.length_nil])
  have hd3 : ((pre ++ ([eq] ++ (vt ++ pct :: ut))).drop preS.length).take 1 = [eq] := by
    rw [List.drop_left' kpre.length]; rfl
  have key := c07e_parseQuantity_empty (α := α) pre [eq] vt ut pct sq
    (c07d_kind_of_spells kpre (fun k => isWsComment k = true) hpre) (Or.inr ⟨eq, rfl, keq.trans heq⟩)
    (by intro h; cases h)
    (by intro t ht; have := hblank t ht; intro hk; rw [hk] at this; exact absurd this (by decide))
    (kp.trans hpct) (c07u_numOrRange_blank _ vt hblank) (rtt_buildText_pad_empty _ vt hpad)
  refine Sat.mono key ?_
  intro r s' h
  unfold c07u_emptyValueEvs c07u_emptyValueRead
  rw [hd1, hd2, hd3]
  have ht : (vt ++ pct :: ut).take vtS.length = vt := List.take_left' kvt.length
  rw [ht]
  subst hvc
  simp only [List.cons_append, List.head?_cons, Option.getD_some, List.tail_cons, Option.map_some] at h ⊢
  exact h

end Cook
