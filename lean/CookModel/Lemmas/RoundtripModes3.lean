import CookModel.Lemmas.RoundtripModes2
/-
  C01, analysis layer for documents with ARBITRARY mode-switch lines (`rtq_` prefix): `>> [mode]: …`,
  `>> [define]: …`, `>> [duplicate]: …` anywhere between the blocks.  The intended result is the pure
  function `yRun` of the described blocks, which threads the two modes:
  * define mode `all`: a step is pushed and numbered, its components resolved by the duplicate mode;
  * define mode `steps`: the same, but every component without `+` is a reference;
  * define mode `components`: the step only extends the tables (`defined_in_step = false`);
  * define mode `text`: the step becomes a text paragraph;
  * duplicate mode `reference`: a component without `&`/`+` whose name was defined before is a reference.
-/
set_option linter.unusedSectionVars false
set_option linter.unusedSimpArgs false
set_option linter.unusedVariables false
namespace Cook
variable {α : Type} [Arith α]

/-! ### the tables, by mode -/

/-- `treat_as_reference` for a component without `+`, before the name lookup: `&` is written, or the define
    mode is `steps`, or the duplicate mode is `reference` (then only if the name is found) -/
def treatedAsRef (dm : DefineMode) (dup : DuplicateMode) (mods : Modifiers) : Bool :=
  mods.contains Modifiers.REF || dm == .steps || dup == .reference

/-- what one ingredient event does to the table in the modes `dm`, `dup` (outside components mode).  With
    intermediate data: as `ingrPushG` (the modes play no part).  Otherwise: a component with `+`, or one
    that neither has `&` nor is made a reference by the modes, is appended as written; any other whose name
    has an earlier non-REF definition becomes a reference to the last such definition, which lists it back. -/
def ingrPushM (env : Env) (dm : DefineMode) (dup : DuplicateMode) (content : List Content) (nsec : Nat)
    (tbl : Array (Ingredient (ScalableValue α))) (inter : Option InterData) (igr0 : Ingredient (ScalableValue α)) :
    Array (Ingredient (ScalableValue α)) :=
  match inter with
  | some d =>
    match interRefTarget content nsec d with
    | .ok rel => tbl.push { igr0 with relation := rel }
    | .error _ => tbl.push igr0
  | none =>
    if igr0.modifiers.contains Modifiers.NEW || !treatedAsRef dm dup igr0.modifiers then tbl.push igr0 else
    match sameNameIdx env (tbl.toList.map (fun x => (x.name, x.modifiers))) igr0.name with
    | some t =>
      match tbl[t]? with
      | some defn =>
        match defn.relation with
        | ⟨.definition rf b, tg⟩ =>
          (tbl.setIfInBounds t (backlinked defn rf tbl.size b tg)).push (asReference igr0 defn.modifiers t)
        | _ => tbl.push igr0
      | none => tbl.push igr0
    | none => tbl.push igr0

def cwPushM (env : Env) (dm : DefineMode) (dup : DuplicateMode) (tbl : Array (Cookware (ScalableValue α)))
    (cw0 : Cookware (ScalableValue α)) : Array (Cookware (ScalableValue α)) :=
  if cw0.modifiers.contains Modifiers.NEW || !treatedAsRef dm dup cw0.modifiers then tbl.push cw0 else
  match sameNameIdx env (tbl.toList.map (fun x => (x.name, x.modifiers))) cw0.name with
  | some t =>
    match tbl[t]? with
    | some defn =>
      match defn.relation with
      | .definition rf b => (tbl.setIfInBounds t (cwBacklinked defn rf tbl.size b)).push (cwAsReference cw0 defn.modifiers t)
      | _ => tbl.push cw0
    | none => tbl.push cw0
  | none => tbl.push cw0

theorem rtq_ingrPushM_size (env : Env) (dm : DefineMode) (dup : DuplicateMode) (content : List Content) (nsec : Nat)
    (tbl : Array (Ingredient (ScalableValue α))) (inter : Option InterData) (igr0 : Ingredient (ScalableValue α)) :
    (ingrPushM env dm dup content nsec tbl inter igr0).size = tbl.size + 1 := by
  unfold ingrPushM
  repeat' split
  all_goals simp

theorem rtq_cwPushM_size (env : Env) (dm : DefineMode) (dup : DuplicateMode) (tbl : Array (Cookware (ScalableValue α)))
    (cw0 : Cookware (ScalableValue α)) : (cwPushM env dm dup tbl cw0).size = tbl.size + 1 := by
  unfold cwPushM
  repeat' split
  all_goals simp

def xPushM (env : Env) (dm : DefineMode) (dup : DuplicateMode) (content : List Content) (nsec : Nat) (T : XTbls α) :
    XItem α → XTbls α
  | .text _ => T
  | .ingr inter igr0 => { T with ing := ingrPushM env dm dup content nsec T.ing inter igr0 }
  | .cw cw0 => { T with cw := cwPushM env dm dup T.cw cw0 }
  | .timer t => { T with tm := T.tm.push t }

def yItems (env : Env) (dm : DefineMode) (dup : DuplicateMode) (content : List Content) (nsec : Nat) :
    XTbls α → List (XItem α) → List Item
  | _, [] => []
  | T, it :: r => xToItem T it :: yItems env dm dup content nsec (xPushM env dm dup content nsec T it) r

def yStepTbls (env : Env) (dm : DefineMode) (dup : DuplicateMode) (content : List Content) (nsec : Nat) (T : XTbls α)
    (st : List (XItem α)) : XTbls α :=
  st.foldl (xPushM env dm dup content nsec) T

/-! ### the conditions under which nothing is reported, as computable checks -/

/-- the target of a reference (explicit or implicit): ADVANCED_UNITS off, no note, the name has an earlier
    non-REF definition (the last one), which is a definition, has every modifier of the reference but `&`,
    not an amount on both when the definition is outside a step, amounts agree in being text or not -/
def ingrTargetOKB (env : Env) (tbl : Array (Ingredient (ScalableValue α))) (igr0 : Ingredient (ScalableValue α)) : Bool :=
  !env.ext.has Gen.EXT_ADVANCED_UNITS && igr0.note.isNone &&
  (match sameNameIdx env (tbl.toList.map (fun x => (x.name, x.modifiers))) igr0.name with
   | some t =>
     match tbl[t]? with
     | some defn =>
       match defn.relation with
       | ⟨.definition rf b, tg⟩ =>
         refConflict igr0.modifiers
           ⟨defn.modifiers.bits &&& (Modifiers.HIDDEN ||| Modifiers.OPT ||| Modifiers.RECIPE)⟩ == 0 &&
         !(defn.quantity.isSome && igr0.quantity.isSome && !b) &&
         (match igr0.quantity, defn.quantity with
          | some rq, some dq => rq.value.val.isText == dq.value.val.isText
          | _, _ => true)
       | _ => false
     | none => false
   | none => false)

theorem rtq_ingrTargetOKB (env : Env) (tbl : Array (Ingredient (ScalableValue α))) (igr0 : Ingredient (ScalableValue α))
    (h : ingrTargetOKB env tbl igr0 = true) :
    env.ext.has Gen.EXT_ADVANCED_UNITS = false ∧ igr0.note = none ∧
    ∃ t defn rf b tg,
      sameNameIdx env (tbl.toList.map (fun x => (x.name, x.modifiers))) igr0.name = some t ∧
      tbl[t]? = some defn ∧ defn.relation = ⟨.definition rf b, tg⟩ ∧
      refConflict igr0.modifiers
        ⟨defn.modifiers.bits &&& (Modifiers.HIDDEN ||| Modifiers.OPT ||| Modifiers.RECIPE)⟩ = 0 ∧
      (defn.quantity.isSome && igr0.quantity.isSome && !b) = false ∧
      ∀ rq dq, igr0.quantity = some rq → defn.quantity = some dq → rq.value.val.isText = dq.value.val.isText := by
  unfold ingrTargetOKB at h
  simp only [Bool.and_eq_true, Bool.not_eq_true', Option.isNone_iff_eq_none] at h
  obtain ⟨⟨h3, h4⟩, h5⟩ := h
  refine ⟨h3, h4, ?_⟩
  split at h5
  · rename_i t ht
    split at h5
    · rename_i defn hdefn
      split at h5
      · rename_i rf b tg hrel
        simp only [Bool.and_eq_true, beq_iff_eq, Bool.not_eq_true'] at h5
        refine ⟨t, defn, rf, b, tg, ht, hdefn, hrel, h5.1.1, h5.1.2, ?_⟩
        intro rq dq hrq hdq
        have := h5.2
        rw [hrq, hdq] at this
        simpa using this
      · cases h5
    · cases h5
  · cases h5

def cwTargetOKB (env : Env) (tbl : Array (Cookware (ScalableValue α))) (cw0 : Cookware (ScalableValue α)) : Bool :=
  cw0.note.isNone &&
  (match sameNameIdx env (tbl.toList.map (fun x => (x.name, x.modifiers))) cw0.name with
   | some t =>
     match tbl[t]? with
     | some defn =>
       match defn.relation with
       | .definition rf b =>
         refConflict cw0.modifiers ⟨defn.modifiers.bits &&& (Modifiers.HIDDEN ||| Modifiers.OPT)⟩ == 0 &&
         !(defn.quantity.isSome && cw0.quantity.isSome && !b) &&
         (match cw0.quantity, defn.quantity with
          | some rq, some dq => rq.val.isText == dq.val.isText
          | _, _ => true)
       | _ => false
     | none => false
   | none => false)

theorem rtq_cwTargetOKB (env : Env) (tbl : Array (Cookware (ScalableValue α))) (cw0 : Cookware (ScalableValue α))
    (h : cwTargetOKB env tbl cw0 = true) :
    cw0.note = none ∧
    ∃ t defn rf b,
      sameNameIdx env (tbl.toList.map (fun x => (x.name, x.modifiers))) cw0.name = some t ∧
      tbl[t]? = some defn ∧ defn.relation = .definition rf b ∧
      refConflict cw0.modifiers ⟨defn.modifiers.bits &&& (Modifiers.HIDDEN ||| Modifiers.OPT)⟩ = 0 ∧
      (defn.quantity.isSome && cw0.quantity.isSome && !b) = false ∧
      ∀ rq dq, cw0.quantity = some rq → defn.quantity = some dq → rq.val.isText = dq.val.isText := by
  unfold cwTargetOKB at h
  simp only [Bool.and_eq_true, Bool.not_eq_true', Option.isNone_iff_eq_none] at h
  obtain ⟨h4, h5⟩ := h
  refine ⟨h4, ?_⟩
  split at h5
  · rename_i t ht
    split at h5
    · rename_i defn hdefn
      split at h5
      · rename_i rf b hrel
        simp only [Bool.and_eq_true, beq_iff_eq, Bool.not_eq_true'] at h5
        refine ⟨t, defn, rf, b, ht, hdefn, hrel, h5.1.1, h5.1.2, ?_⟩
        intro rq dq hrq hdq
        have := h5.2
        rw [hrq, hdq] at this
        simpa using this
      · cases h5
    · cases h5
  · cases h5

/-- the rule for a component without intermediate data, given its modifiers, whether its name was defined
    before (`found`) and whether the target conditions hold (`target`):
    * with `+`: never with `&`; fine exactly where the mode would otherwise have made it a reference
      (elsewhere `+` is reported as redundant);
    * with `&`: only in the default modes (elsewhere `&` is reported as redundant), and the target is fine;
    * with neither, where the mode makes it a reference (steps mode; duplicate mode `reference` and the name
      is found): the target is fine (in steps mode a name not found is an error);
    * with neither elsewhere: a definition, always fine. -/
def modeRuleB (dm : DefineMode) (dup : DuplicateMode) (mods : Modifiers) (found target : Bool) : Bool :=
  if mods.contains Modifiers.NEW then
    !mods.contains Modifiers.REF && (dm == .steps || (dup == .reference && found))
  else if mods.contains Modifiers.REF then dm != .steps && dup == .new && target
  else if dm == .steps || (dup == .reference && found) then target
  else true

def ingrOKMB (env : Env) (dm : DefineMode) (dup : DuplicateMode) (content : List Content) (nsec : Nat)
    (tbl : Array (Ingredient (ScalableValue α))) (inter : Option InterData) (igr0 : Ingredient (ScalableValue α)) : Bool :=
  match inter with
  | some d =>
    igr0.modifiers.contains Modifiers.REF &&
    (igr0.modifiers.bits &&& (Modifiers.RECIPE ||| Modifiers.HIDDEN ||| Modifiers.NEW) == 0) &&
    decide (0 ≤ d.val) &&
    (match interRefTarget content nsec d with
     | .ok _ => true
     | .error _ => false)
  | none =>
    modeRuleB dm dup igr0.modifiers
      (sameNameIdx env (tbl.toList.map (fun x => (x.name, x.modifiers))) igr0.name).isSome (ingrTargetOKB env tbl igr0)

def cwOKMB (env : Env) (dm : DefineMode) (dup : DuplicateMode) (tbl : Array (Cookware (ScalableValue α)))
    (cw0 : Cookware (ScalableValue α)) : Bool :=
  modeRuleB dm dup cw0.modifiers
    (sameNameIdx env (tbl.toList.map (fun x => (x.name, x.modifiers))) cw0.name).isSome (cwTargetOKB env tbl cw0)

def xOKAtMB (env : Env) (dm : DefineMode) (dup : DuplicateMode) (content : List Content) (nsec : Nat) (T : XTbls α) :
    XItem α → Bool
  | .ingr inter igr0 => ingrOKMB env dm dup content nsec T.ing inter igr0
  | .cw cw0 => cwOKMB env dm dup T.cw cw0
  | _ => true

def yItemsOKB (env : Env) (dm : DefineMode) (dup : DuplicateMode) (content : List Content) (nsec : Nat) :
    XTbls α → List (XItem α) → Bool
  | _, [] => true
  | T, it :: r => xOKAtMB env dm dup content nsec T it &&
      yItemsOKB env dm dup content nsec (xPushM env dm dup content nsec T it) r

/-- the three outcomes of `modeRuleB` -/
theorem rtq_modeRule (dm : DefineMode) (dup : DuplicateMode) (mods : Modifiers) (found target : Bool)
    (h : modeRuleB dm dup mods found target = true) :
    (mods.contains Modifiers.REF = false ∧
      ((mods.contains Modifiers.NEW = true ∧ (dm = .steps ∨ (dup = .reference ∧ found = true))) ∨
       (mods.contains Modifiers.NEW = false ∧ dm ≠ .steps ∧ (dup = .new ∨ found = false)))) ∨
    (mods.contains Modifiers.NEW = false ∧ target = true ∧
      (mods.contains Modifiers.REF = true ∨ dm = .steps ∨ dup = .reference) ∧
      (mods.contains Modifiers.REF = true → dm ≠ .steps ∧ dup = .new)) := by
  unfold modeRuleB at h
  cases hN : mods.contains Modifiers.NEW <;> cases hR : mods.contains Modifiers.REF <;> cases dm <;> cases dup <;>
    cases found <;> cases target <;> simp_all

/-! ### described blocks with mode switches -/

/-- a block as the analysis reads it, including the mode switches -/
inductive YBlock (α : Type) where
  | step (items : List (XItem α))
  | sect (name : Option Str)
  | entry (k v : Str)
  | para (s : Str)
  /-- `>> [mode]: …` / `>> [define]: …` selecting the define mode -/
  | define (m : DefineMode)
  /-- `>> [duplicate]: …` selecting the duplicate mode -/
  | duplicate (m : DuplicateMode)

def XItem.isText : XItem α → Bool
  | .text _ => true
  | _ => false

/-- the shown texts of the items, joined -/
def xTexts : List (XItem α) → Str
  | [] => []
  | .text s :: r => s ++ xTexts r
  | _ :: r => xTexts r

/-- an item of a step written in components mode: a plain definition (no intermediate data, neither `&` nor
    `+`); a text has no letter or digit (otherwise `text-in-components-mode` is reported) -/
def compXOKB (env : Env) : XItem α → Bool
  | .text s => !s.any env.cs.alnum
  | .ingr inter igr0 => inter.isNone && decide (plainMods igr0.modifiers)
  | .cw cw0 => decide (plainMods cw0.modifiers)
  | .timer _ => true

/-- the recipe of a described document with mode switches: as `xRun`, threading the define mode `dm` and the
    duplicate mode `dup` -/
def yRun (env : Env) : DefineMode → DuplicateMode → XTbls α → List Section → Section → Nat → List (Str × Str) →
    List (YBlock α) → XRes α
  | _, _, T, secs, cur, _, m, [] => ⟨secs ++ (if cur.isEmpty then [] else [cur]), T, m⟩
  | dm, dup, T, secs, cur, num, m, .step st :: r =>
    match dm with
    | .components => yRun env dm dup (xCTbls T st) secs cur num m r
    | .text => yRun env dm dup T secs ⟨cur.name, cur.content ++ xParaContent (xTexts st)⟩ num m r
    | _ =>
      yRun env dm dup (yStepTbls env dm dup cur.content secs.length T st) secs
        ⟨cur.name, cur.content ++ [.step ⟨yItems env dm dup cur.content secs.length T st, num⟩]⟩ (num + 1) m r
  | dm, dup, T, secs, cur, _, m, .sect name :: r =>
    yRun env dm dup T (secs ++ (if cur.isEmpty then [] else [cur])) ⟨name, []⟩ 1 m r
  | dm, dup, T, secs, cur, num, m, .entry k v :: r => yRun env dm dup T secs cur num (metaInsert m k v) r
  | dm, dup, T, secs, cur, num, m, .para s :: r =>
    yRun env dm dup T secs ⟨cur.name, cur.content ++ xParaContent s⟩ num m r
  | _, dup, T, secs, cur, num, m, .define m' :: r => yRun env m' dup T secs cur num m r
  | dm, _, T, secs, cur, num, m, .duplicate m' :: r => yRun env dm m' T secs cur num m r

/-- the conditions under which such a document is analysed without any report, threaded as `yRun`:
    * a step in define mode `all` / `steps`: not empty, every component obeys the rule of the modes
      (`modeRuleB`) against the tables of the components before it;
    * a step in components mode: duplicate mode `new`, plain definitions only (`compXOKB`);
    * a step in text mode: texts only (a component would be reported as ignored). -/
def yOKB (env : Env) : DefineMode → DuplicateMode → XTbls α → List Section → Section → Nat → List (YBlock α) → Bool
  | _, _, _, _, _, _, [] => true
  | dm, dup, T, secs, cur, num, .step st :: r =>
    match dm with
    | .components => dup == .new && st.all (compXOKB env) && yOKB env dm dup (xCTbls T st) secs cur num r
    | .text => st.all XItem.isText &&
        yOKB env dm dup T secs ⟨cur.name, cur.content ++ xParaContent (xTexts st)⟩ num r
    | _ =>
      yItemsOKB env dm dup cur.content secs.length T st && !st.isEmpty &&
      yOKB env dm dup (yStepTbls env dm dup cur.content secs.length T st) secs
        ⟨cur.name, cur.content ++ [.step ⟨yItems env dm dup cur.content secs.length T st, num⟩]⟩ (num + 1) r
  | dm, dup, T, secs, cur, _, .sect name :: r =>
    yOKB env dm dup T (secs ++ (if cur.isEmpty then [] else [cur])) ⟨name, []⟩ 1 r
  | dm, dup, T, secs, cur, num, .entry _ _ :: r => yOKB env dm dup T secs cur num r
  | dm, dup, T, secs, cur, num, .para s :: r => yOKB env dm dup T secs ⟨cur.name, cur.content ++ xParaContent s⟩ num r
  | _, dup, T, secs, cur, num, .define m' :: r => yOKB env m' dup T secs cur num r
  | dm, _, T, secs, cur, num, .duplicate m' :: r => yOKB env dm m' T secs cur num r

/-! ### parsed blocks with mode switches -/

/-- a block as the parser hands it over: a plain block, or a `>>` line that is a mode switch -/
inductive NBlock (α : Type) where
  | plain (b : SBlock α)
  | define (k v : Text) (m : DefineMode)
  | duplicate (k v : Text) (m : DuplicateMode)

def NBlock.events : NBlock α → List (Ev α)
  | .plain b => b.events
  | .define k v _ => [.metadata k v]
  | .duplicate k v _ => [.metadata k v]

def NBlock.y (env : Env) : NBlock α → YBlock α
  | .plain (.step st) => .step (st.map (SItem.x env))
  | .plain (.sect name) => .sect (name.map (·.trimmed env.cs))
  | .plain (.entry k v) => .entry (k.trimmed env.cs) (v.outerTrimmed env.cs)
  | .plain (.para ts) => .para (ts.flatMap (·.text))
  | .define _ _ m => .define m
  | .duplicate _ _ m => .duplicate m

/-- the side conditions of an item that do not depend on the tables, by define mode: a text must be left in
    one piece by INLINE_QUANTITIES only where it becomes a step item (modes `all`, `steps`) -/
def SItem.SideOKM (env : Env) (dm : DefineMode) : SItem α → Prop
  | .text t => dm = .all ∨ dm = .steps → TextInlOK (α := α) env t
  | .ingredient i => ∀ q, i.val.quantity = some q → lockOK q.val.value true
  | .cookware c => ∀ q, c.val.quantity = some q → lockOK q.val false
  | .timer t => TimerSimple t ∧ TimerAdvOK env t

/-- the side conditions of the blocks, threading the define mode: a switch line is one the code accepts
    (`DefineLine`, `DuplicateLine`), any other `>>` line is a plain entry -/
def nSideOK (env : Env) : DefineMode → List (NBlock α) → Prop
  | _, [] => True
  | dm, .plain (.step st) :: r => (∀ it ∈ st, it.SideOKM env dm) ∧ nSideOK env dm r
  | dm, .plain (.entry k v) :: r => EntryPlain env k v ∧ nSideOK env dm r
  | dm, .plain (.sect _) :: r => nSideOK env dm r
  | dm, .plain (.para _) :: r => nSideOK env dm r
  | _, .define k v m :: r => DefineLine env k v m ∧ nSideOK env m r
  | dm, .duplicate k v m :: r => DuplicateLine env k v m ∧ nSideOK env dm r

/-- the `>>` lines that are metadata entries (mode switches are not) -/
def nEntries : List (NBlock α) → List (Text × Text)
  | [] => []
  | .plain (.entry k v) :: r => (k, v) :: nEntries r
  | _ :: r => nEntries r

/-! ### one item, one step -/

theorem rtq_fit_push (env : Env) (dm : DefineMode) (dup : DuplicateMode) (content : List Content) (nsec : Nat)
    (before : List (SItem α)) (T : XTbls α) (h : TblsFit before T) (it : SItem α) :
    TblsFit (before ++ [it]) (xPushM env dm dup content nsec T (it.x env)) := by
  obtain ⟨h1, h2⟩ := h
  cases it <;>
    simp [TblsFit, SItem.x, xPushM, ingrsOf, cwsOf, SItem.ingr?, SItem.cw?, rtq_ingrPushM_size, rtq_cwPushM_size, h1, h2]

theorem rtq_treated (dm : DefineMode) (dup : DuplicateMode) (mods : Modifiers)
    (h : mods.contains Modifiers.REF = true ∨ dm = .steps ∨ dup = .reference) : treatedAsRef dm dup mods = true := by
  unfold treatedAsRef
  rcases h with h | h | h
  · simp [h]
  · subst h; simp
  · subst h; simp

theorem rtq_item (env : Env) (input : Str) (base : Col α) (hdm : base.defineMode = .all ∨ base.defineMode = .steps)
    (it : SItem α) (before : List (SItem α)) (T : XTbls α) (hfit : TblsFit before T) (content : List Content) (n : Nat)
    (hside : it.SideOKM env base.defineMode)
    (h : xOKAtMB env base.defineMode base.duplicateMode content base.sections.length T (it.x env) = true)
    (items : List Item) :
    (processEvent env input it.ev (stOfT base before T content n (some (.step items)))).2 =
      stOfT base (before ++ [it])
        (xPushM env base.defineMode base.duplicateMode content base.sections.length T (it.x env)) content n
        (some (.step (items ++ [xToItem T (it.x env)]))) := by
  have hnc : (stOfT base before T content n (some (.step items))).defineMode ≠ .components := by
    show base.defineMode ≠ .components
    rcases hdm with h' | h' <;> rw [h'] <;> decide
  obtain ⟨hf1, hf2⟩ := hfit
  cases it with
  | text t =>
    rw [SItem.ev, rtn_proc_text env input t _ items (hside hdm) hnc rfl]
    simp [stOfT, SItem.x, xPushM, xToItem, ingrsOf, cwsOf, SItem.ingr?, SItem.cw?, List.filterMap]
  | timer lt =>
    rw [SItem.ev, rts_proc_timer env input lt _ items hside.1 hside.2 rfl]
    simp [stOfT, SItem.x, xPushM, xToItem, ingrsOf, cwsOf, SItem.ingr?, SItem.cw?, List.filterMap]
  | ingredient li =>
    have hsnoc : ingrsOf (before ++ [SItem.ingredient li]) = ingrsOf before ++ [li] := by
      simp [ingrsOf, SItem.ingr?]
    have hcsnoc : cwsOf (before ++ [SItem.ingredient li]) = cwsOf before := by
      simp [cwsOf, SItem.cw?]
    simp only [SItem.x, xOKAtMB] at h
    cases hin : li.val.inter with
    | some d =>
      rw [hin] at h
      simp only [Option.map_some, ingrOKMB, Bool.and_eq_true, beq_iff_eq, decide_eq_true_eq] at h
      obtain ⟨⟨⟨h1, h2⟩, h3⟩, h4⟩ := h
      cases hr : interRefTarget content base.sections.length d.val with
      | error e => rw [hr] at h4; cases h4
      | ok rel =>
        rw [SItem.ev, rtn_proc_ingredient_inter env input li _ items d rel hnc rfl hin hside h1 h2 h3 hr]
        simp only [stOfT, SItem.x, xPushM, xToItem, hsnoc, hcsnoc, hin, Option.map_some, ingrPushM, hr]
        simp
    | none =>
      rw [hin] at h
      simp only [Option.map_none, ingrOKMB] at h
      rcases rtq_modeRule _ _ _ _ _ h with ⟨hR, hq⟩ | ⟨hN, htg, htreat, hquiet⟩
      · -- stays a definition
        have hq' : ((ingrOf env li).modifiers.contains Modifiers.NEW = true ∧
              (base.defineMode = .steps ∨ (base.duplicateMode = .reference ∧
                (sameNameIdx env (T.ing.toList.map (fun x => (x.name, x.modifiers))) (ingrOf env li).name).isSome
                  = true))) ∨
            ((ingrOf env li).modifiers.contains Modifiers.NEW = false ∧ base.defineMode ≠ .steps ∧
              (base.duplicateMode = .new ∨
                sameNameIdx env (T.ing.toList.map (fun x => (x.name, x.modifiers))) (ingrOf env li).name = none)) := by
          rcases hq with ⟨a, b⟩ | ⟨a, b, c⟩
          · exact Or.inl ⟨a, b⟩
          · refine Or.inr ⟨a, b, ?_⟩
            rcases c with c | c
            · exact Or.inl c
            · exact Or.inr (by simpa using c)
        rw [SItem.ev, rtn_proc_ingredient_def env input li _ items rfl hnc hin hside hR hq']
        have hpush : ingrPushM env base.defineMode base.duplicateMode content base.sections.length T.ing none
            (ingrOf env li) = T.ing.push (ingrOf env li) := by
          unfold ingrPushM
          simp only
          rcases hq with ⟨a, b⟩ | ⟨a, b, c⟩
          · simp [a]
          · rcases c with c | c
            · have : treatedAsRef base.defineMode base.duplicateMode (ingrOf env li).modifiers = false := by
                unfold treatedAsRef
                rw [hR, c]
                cases hdm' : base.defineMode <;> first | rfl | exact absurd hdm' b
              simp [this]
            · have hnone : sameNameIdx env (T.ing.toList.map (fun x => (x.name, x.modifiers))) (ingrOf env li).name = none := by
                simpa using c
              split
              · rfl
              · rw [hnone]
        simp only [stOfT, SItem.x, xPushM, xToItem, hsnoc, hcsnoc, hin, Option.map_none, hpush]
        simp
      · -- becomes a reference
        obtain ⟨hadv, hnote0, t, defn, rf, b, tg, h1, h2, h3, h4, h5, h6⟩ := rtq_ingrTargetOKB env T.ing _ htg
        have hlt : t < (ingrsOf before).length := by
          rcases Nat.lt_or_ge t T.ing.size with hh | hh
          · rw [hf1] at hh; exact hh
          · rw [Array.getElem?_eq_none hh] at h2; cases h2
        have hloc : (stOfT base before T content n (some (.step items))).locIngr[t]? = some ((ingrsOf before)[t]'hlt) := by
          simp [stOfT, hlt]
        have hnote : li.val.note = none := by
          have := hnote0
          simp only [ingrOf] at this
          cases hn : li.val.note with
          | none => rfl
          | some x => rw [hn] at this; cases this
        rw [SItem.ev, rtn_proc_ingredient_ref env input li (stOfT base before T content n (some (.step items))) items t defn _ rf b tg rfl hin hside hN htreat hquiet
          h1 h2 hloc h3 h4 ⟨hadv, hnote, h5, h6⟩]
        have hpush : ingrPushM env base.defineMode base.duplicateMode content base.sections.length T.ing none
            (ingrOf env li) =
            (T.ing.setIfInBounds t (backlinked defn rf T.ing.size b tg)).push (asReference (ingrOf env li) defn.modifiers t) := by
          unfold ingrPushM
          have hN' : (ingrOf env li).modifiers.contains Modifiers.NEW = false := hN
          simp only [hN', rtq_treated _ _ _ htreat, Bool.not_true, Bool.or_self, Bool.false_eq_true, if_false, h1, h2, h3]
        simp only [stOfT, SItem.x, xPushM, xToItem, hsnoc, hcsnoc, hin, Option.map_none, hpush]
        simp
  | cookware lc =>
    have hsnoc : cwsOf (before ++ [SItem.cookware lc]) = cwsOf before ++ [lc] := by
      simp [cwsOf, SItem.cw?]
    have hisnoc : ingrsOf (before ++ [SItem.cookware lc]) = ingrsOf before := by
      simp [ingrsOf, SItem.ingr?]
    simp only [SItem.x, xOKAtMB, cwOKMB] at h
    rcases rtq_modeRule _ _ _ _ _ h with ⟨hR, hq⟩ | ⟨hN, htg, htreat, hquiet⟩
    · have hq' : ((cwOf env lc).modifiers.contains Modifiers.NEW = true ∧
            (base.defineMode = .steps ∨ (base.duplicateMode = .reference ∧
              (sameNameIdx env (T.cw.toList.map (fun x => (x.name, x.modifiers))) (cwOf env lc).name).isSome
                = true))) ∨
          ((cwOf env lc).modifiers.contains Modifiers.NEW = false ∧ base.defineMode ≠ .steps ∧
            (base.duplicateMode = .new ∨
              sameNameIdx env (T.cw.toList.map (fun x => (x.name, x.modifiers))) (cwOf env lc).name = none)) := by
        rcases hq with ⟨a, b⟩ | ⟨a, b, c⟩
        · exact Or.inl ⟨a, b⟩
        · refine Or.inr ⟨a, b, ?_⟩
          rcases c with c | c
          · exact Or.inl c
          · exact Or.inr (by simpa using c)
      rw [SItem.ev, rtn_proc_cookware_def env input lc _ items rfl hnc hside hR hq']
      have hpush : cwPushM env base.defineMode base.duplicateMode T.cw (cwOf env lc) = T.cw.push (cwOf env lc) := by
        unfold cwPushM
        rcases hq with ⟨a, b⟩ | ⟨a, b, c⟩
        · simp [a]
        · rcases c with c | c
          · have : treatedAsRef base.defineMode base.duplicateMode (cwOf env lc).modifiers = false := by
              unfold treatedAsRef
              rw [hR, c]
              cases hdm' : base.defineMode <;> first | rfl | exact absurd hdm' b
            simp [this]
          · have hnone : sameNameIdx env (T.cw.toList.map (fun x => (x.name, x.modifiers))) (cwOf env lc).name = none := by
              simpa using c
            split
            · rfl
            · rw [hnone]
      simp only [stOfT, SItem.x, xPushM, xToItem, hsnoc, hisnoc, hpush]
      simp
    · obtain ⟨hnote0, t, defn, rf, b, h1, h2, h3, h4, h5, h6⟩ := rtq_cwTargetOKB env T.cw _ htg
      have hlt : t < (cwsOf before).length := by
        rcases Nat.lt_or_ge t T.cw.size with hh | hh
        · rw [hf2] at hh; exact hh
        · rw [Array.getElem?_eq_none hh] at h2; cases h2
      have hloc : (stOfT base before T content n (some (.step items))).locCw[t]? = some ((cwsOf before)[t]'hlt) := by
        simp [stOfT, hlt]
      have hnote : lc.val.note = none := by
        have := hnote0
        simp only [cwOf] at this
        cases hn : lc.val.note with
        | none => rfl
        | some x => rw [hn] at this; cases this
      rw [SItem.ev, rtn_proc_cookware_ref env input lc (stOfT base before T content n (some (.step items))) items t defn _ rf b rfl hside hN htreat hquiet
        h1 h2 hloc h3 h4 ⟨hnote, h5, h6⟩]
      have hpush : cwPushM env base.defineMode base.duplicateMode T.cw (cwOf env lc) =
          (T.cw.setIfInBounds t (cwBacklinked defn rf T.cw.size b)).push (cwAsReference (cwOf env lc) defn.modifiers t) := by
        unfold cwPushM
        have hN' : (cwOf env lc).modifiers.contains Modifiers.NEW = false := hN
        simp only [hN', rtq_treated _ _ _ htreat, Bool.not_true, Bool.or_self, Bool.false_eq_true, if_false, h1, h2, h3]
      simp only [stOfT, SItem.x, xPushM, xToItem, hsnoc, hisnoc, hpush]
      simp

end Cook
