import CookModel.Lemmas.RoundtripModes2
/-
  C01, analysis layer for documents with ARBITRARY mode-switch lines (`rtq_` prefix): `>> [mode]: …`,
  `>> [define]: …`, `>> [duplicate]: …` anywhere between the blocks.  The intended result is the pure
  function `yRun` of the described blocks, which threads the two modes:
  * define mode `all`: a step is pushed and numbered, its components resolved by the duplicate mode;
  * define mode `steps`: the same, but every component without `+` is a reference;
  * define mode `components`: the step only extends the tables (`defined_in_step = false`);
  * define mode `text`: the step becomes a text paragraph;
  * duplicate mode `reference`: a component without `&`/`+` whose name was defined before is a reference.
-/
set_option linter.unusedSectionVars false
set_option linter.unusedSimpArgs false
set_option linter.unusedVariables false
namespace Cook
variable {α : Type} [Arith α]

/-! ### the tables, by mode -/

/-- `treat_as_reference` for a component without `+`, before the name lookup: `&` is written, or the define
    mode is `steps`, or the duplicate mode is `reference` (then only if the name is found) -/
def treatedAsRef (dm : DefineMode) (dup : DuplicateMode) (mods : Modifiers) : Bool :=
  mods.contains Modifiers.REF || dm == .steps || dup == .reference

/-- what one ingredient event does to the table in the modes `dm`, `dup` (outside components mode).  With
    intermediate data: as `ingrPushG` (the modes play no part).  Otherwise: a component with `+`, or one
    that neither has `&` nor is made a reference by the modes, is appended as written; any other whose name
    has an earlier non-REF definition becomes a reference to the last such definition, which lists it back. -/
def ingrPushM (env : Env) (dm : DefineMode) (dup : DuplicateMode) (content : List Content) (nsec : Nat)
    (tbl : Array (Ingredient (ScalableValue α))) (inter : Option InterData) (igr0 : Ingredient (ScalableValue α)) :
    Array (Ingredient (ScalableValue α)) :=
  match inter with
  | some d =>
    match interRefTarget content nsec d with
    | .ok rel => tbl.push { igr0 with relation := rel }
    | .error _ => tbl.push igr0
  | none =>
    if igr0.modifiers.contains Modifiers.NEW || !treatedAsRef dm dup igr0.modifiers then tbl.push igr0 else
    match sameNameIdx env (tbl.toList.map (fun x => (x.name, x.modifiers))) igr0.name with
    | some t =>
      match tbl[t]? with
      | some defn =>
        match defn.relation with
        | ⟨.definition rf b, tg⟩ =>
          (tbl.setIfInBounds t (backlinked defn rf tbl.size b tg)).push (asReference igr0 defn.modifiers t)
        | _ => tbl.push igr0
      | none => tbl.push igr0
    | none => tbl.push igr0

def cwPushM (env : Env) (dm : DefineMode) (dup : DuplicateMode) (tbl : Array (Cookware (ScalableValue α)))
    (cw0 : Cookware (ScalableValue α)) : Array (Cookware (ScalableValue α)) :=
  if cw0.modifiers.contains Modifiers.NEW || !treatedAsRef dm dup cw0.modifiers then tbl.push cw0 else
  match sameNameIdx env (tbl.toList.map (fun x => (x.name, x.modifiers))) cw0.name with
  | some t =>
    match tbl[t]? with
    | some defn =>
      match defn.relation with
      | .definition rf b => (tbl.setIfInBounds t (cwBacklinked defn rf tbl.size b)).push (cwAsReference cw0 defn.modifiers t)
      | _ => tbl.push cw0
    | none => tbl.push cw0
  | none => tbl.push cw0

theorem rtq_ingrPushM_size (env : Env) (dm : DefineMode) (dup : DuplicateMode) (content : List Content) (nsec : Nat)
    (tbl : Array (Ingredient (ScalableValue α))) (inter : Option InterData) (igr0 : Ingredient (ScalableValue α)) :
    (ingrPushM env dm dup content nsec tbl inter igr0).size = tbl.size + 1 := by
  unfold ingrPushM
  repeat' split
  all_goals simp

theorem rtq_cwPushM_size (env : Env) (dm : DefineMode) (dup : DuplicateMode) (tbl : Array (Cookware (ScalableValue α)))
    (cw0 : Cookware (ScalableValue α)) : (cwPushM env dm dup tbl cw0).size = tbl.size + 1 := by
  unfold cwPushM
  repeat' split
  all_goals simp

def xPushM (env : Env) (dm : DefineMode) (dup : DuplicateMode) (content : List Content) (nsec : Nat) (T : XTbls α) :
    XItem α → XTbls α
  | .text _ => T
  | .ingr inter igr0 => { T with ing := ingrPushM env dm dup content nsec T.ing inter igr0 }
  | .cw cw0 => { T with cw := cwPushM env dm dup T.cw cw0 }
  | .timer t => { T with tm := T.tm.push t }

def yItems (env : Env) (dm : DefineMode) (dup : DuplicateMode) (content : List Content) (nsec : Nat) :
    XTbls α → List (XItem α) → List Item
  | _, [] => []
  | T, it :: r => xToItem T it :: yItems env dm dup content nsec (xPushM env dm dup content nsec T it) r

def yStepTbls (env : Env) (dm : DefineMode) (dup : DuplicateMode) (content : List Content) (nsec : Nat) (T : XTbls α)
    (st : List (XItem α)) : XTbls α :=
  st.foldl (xPushM env dm dup content nsec) T

/-! ### the conditions under which nothing is reported, as computable checks -/

/-- the target of a reference (explicit or implicit): ADVANCED_UNITS off, no note, the name has an earlier
    non-REF definition (the last one), which is a definition, has every modifier of the reference but `&`,
    not an amount on both when the definition is outside a step, amounts agree in being text or not -/
def ingrTargetOKB (env : Env) (tbl : Array (Ingredient (ScalableValue α))) (igr0 : Ingredient (ScalableValue α)) : Bool :=
  !env.ext.has Gen.EXT_ADVANCED_UNITS && igr0.note.isNone &&
  (match sameNameIdx env (tbl.toList.map (fun x => (x.name, x.modifiers))) igr0.name with
   | some t =>
     match tbl[t]? with
     | some defn =>
       match defn.relation with
       | ⟨.definition rf b, tg⟩ =>
         refConflict igr0.modifiers
           ⟨defn.modifiers.bits &&& (Modifiers.HIDDEN ||| Modifiers.OPT ||| Modifiers.RECIPE)⟩ == 0 &&
         !(defn.quantity.isSome && igr0.quantity.isSome && !b) &&
         (match igr0.quantity, defn.quantity with
          | some rq, some dq => rq.value.val.isText == dq.value.val.isText
          | _, _ => true)
       | _ => false
     | none => false
   | none => false)

theorem rtq_ingrTargetOKB (env : Env) (tbl : Array (Ingredient (ScalableValue α))) (igr0 : Ingredient (ScalableValue α))
    (h : ingrTargetOKB env tbl igr0 = true) :
    env.ext.has Gen.EXT_ADVANCED_UNITS = false ∧ igr0.note = none ∧
    ∃ t defn rf b tg,
      sameNameIdx env (tbl.toList.map (fun x => (x.name, x.modifiers))) igr0.name = some t ∧
      tbl[t]? = some defn ∧ defn.relation = ⟨.definition rf b, tg⟩ ∧
      refConflict igr0.modifiers
        ⟨defn.modifiers.bits &&& (Modifiers.HIDDEN ||| Modifiers.OPT ||| Modifiers.RECIPE)⟩ = 0 ∧
      (defn.quantity.isSome && igr0.quantity.isSome && !b) = false ∧
      ∀ rq dq, igr0.quantity = some rq → defn.quantity = some dq → rq.value.val.isText = dq.value.val.isText := by
  unfold ingrTargetOKB at h
  simp only [Bool.and_eq_true, Bool.not_eq_true', Option.isNone_iff_eq_none] at h
  obtain ⟨⟨h3, h4⟩, h5⟩ := h
  refine ⟨h3, h4, ?_⟩
  split at h5
  · rename_i t ht
    split at h5
    · rename_i defn hdefn
      split at h5
      · rename_i rf b tg hrel
        simp only [Bool.and_eq_true, beq_iff_eq, Bool.not_eq_true'] at h5
        refine ⟨t, defn, rf, b, tg, ht, hdefn, hrel, h5.1.1, h5.1.2, ?_⟩
        intro rq dq hrq hdq
        have := h5.2
        rw [hrq, hdq] at this
        simpa using this
      · cases h5
    · cases h5
  · cases h5

def cwTargetOKB (env : Env) (tbl : Array (Cookware (ScalableValue α))) (cw0 : Cookware (ScalableValue α)) : Bool :=
  cw0.note.isNone &&
  (match sameNameIdx env (tbl.toList.map (fun x => (x.name, x.modifiers))) cw0.name with
   | some t =>
     match tbl[t]? with
     | some defn =>
       match defn.relation with
       | .definition rf b =>
         refConflict cw0.modifiers ⟨defn.modifiers.bits &&& (Modifiers.HIDDEN ||| Modifiers.OPT)⟩ == 0 &&
         !(defn.quantity.isSome && cw0.quantity.isSome && !b) &&
         (match cw0.quantity, defn.quantity with
          | some rq, some dq => rq.val.isText == dq.val.isText
          | _, _ => true)
       | _ => false
     | none => false
   | none => false)

theorem rtq_cwTargetOKB (env : Env) (tbl : Array (Cookware (ScalableValue α))) (cw0 : Cookware (ScalableValue α))
    (h : cwTargetOKB env tbl cw0 = true) :
    cw0.note = none ∧
    ∃ t defn rf b,
      sameNameIdx env (tbl.toList.map (fun x => (x.name, x.modifiers))) cw0.name = some t ∧
      tbl[t]? = some defn ∧ defn.relation = .definition rf b ∧
      refConflict cw0.modifiers ⟨defn.modifiers.bits &&& (Modifiers.HIDDEN ||| Modifiers.OPT)⟩ = 0 ∧
      (defn.quantity.isSome && cw0.quantity.isSome && !b) = false ∧
      ∀ rq dq, cw0.quantity = some rq → defn.quantity = some dq → rq.val.isText = dq.val.isText := by
  unfold cwTargetOKB at h
  simp only [Bool.and_eq_true, Bool.not_eq_true', Option.isNone_iff_eq_none] at h
  obtain ⟨h4, h5⟩ := h
  refine ⟨h4, ?_⟩
  split at h5
  · rename_i t ht
    split at h5
    · rename_i defn hdefn
      split at h5
      · rename_i rf b hrel
        simp only [Bool.and_eq_true, beq_iff_eq, Bool.not_eq_true'] at h5
        refine ⟨t, defn, rf, b, ht, hdefn, hrel, h5.1.1, h5.1.2, ?_⟩
        intro rq dq hrq hdq
        have := h5.2
        rw [hrq, hdq] at this
        simpa using this
      · cases h5
    · cases h5
  · cases h5

/-- the rule for a component without intermediate data, given its modifiers, whether its name was defined
    before (`found`) and whether the target conditions hold (`target`):
    * with `+`: never with `&`; fine exactly where the mode would otherwise have made it a reference
      (elsewhere `+` is reported as redundant);
    * with `&`: only in the default modes (elsewhere `&` is reported as redundant), and the target is fine;
    * with neither, where the mode makes it a reference (steps mode; duplicate mode `reference` and the name
      is found): the target is fine (in steps mode a name not found is an error);
    * with neither elsewhere: a definition, always fine. -/
def modeRuleB (dm : DefineMode) (dup : DuplicateMode) (mods : Modifiers) (found target : Bool) : Bool :=
  if mods.contains Modifiers.NEW then
    !mods.contains Modifiers.REF && (dm == .steps || (dup == .reference && found))
  else if mods.contains Modifiers.REF then dm != .steps && dup == .new && target
  else if dm == .steps || (dup == .reference && found) then target
  else true

def ingrOKMB (env : Env) (dm : DefineMode) (dup : DuplicateMode) (content : List Content) (nsec : Nat)
    (tbl : Array (Ingredient (ScalableValue α))) (inter : Option InterData) (igr0 : Ingredient (ScalableValue α)) : Bool :=
  match inter with
  | some d =>
    igr0.modifiers.contains Modifiers.REF &&
    (igr0.modifiers.bits &&& (Modifiers.RECIPE ||| Modifiers.HIDDEN ||| Modifiers.NEW) == 0) &&
    decide (0 ≤ d.val) &&
    (match interRefTarget content nsec d with
     | .ok _ => true
     | .error _ => false)
  | none =>
    modeRuleB dm dup igr0.modifiers
      (sameNameIdx env (tbl.toList.map (fun x => (x.name, x.modifiers))) igr0.name).isSome (ingrTargetOKB env tbl igr0)

def cwOKMB (env : Env) (dm : DefineMode) (dup : DuplicateMode) (tbl : Array (Cookware (ScalableValue α)))
    (cw0 : Cookware (ScalableValue α)) : Bool :=
  modeRuleB dm dup cw0.modifiers
    (sameNameIdx env (tbl.toList.map (fun x => (x.name, x.modifiers))) cw0.name).isSome (cwTargetOKB env tbl cw0)

def xOKAtMB (env : Env) (dm : DefineMode) (dup : DuplicateMode) (content : List Content) (nsec : Nat) (T : XTbls α) :
    XItem α → Bool
  | .ingr inter igr0 => ingrOKMB env dm dup content nsec T.ing inter igr0
  | .cw cw0 => cwOKMB env dm dup T.cw cw0
  | _ => true

def yItemsOKB (env : Env) (dm : DefineMode) (dup : DuplicateMode) (content : List Content) (nsec : Nat) :
    XTbls α → List (XItem α) → Bool
  | _, [] => true
  | T, it :: r => xOKAtMB env dm dup content nsec T it &&
      yItemsOKB env dm dup content nsec (xPushM env dm dup content nsec T it) r

/-- the three outcomes of `modeRuleB` -/
theorem rtq_modeRule (dm : DefineMode) (dup : DuplicateMode) (mods : Modifiers) (found target : Bool)
    (h : modeRuleB dm dup mods found target = true) :
    (mods.contains Modifiers.REF = false ∧
      ((mods.contains Modifiers.NEW = true ∧ (dm = .steps ∨ (dup = .reference ∧ found = true))) ∨
       (mods.contains Modifiers.NEW = false ∧ dm ≠ .steps ∧ (dup = .new ∨ found = false)))) ∨
    (mods.contains Modifiers.NEW = false ∧ target = true ∧
      (mods.contains Modifiers.REF = true ∨ dm = .steps ∨ dup = .reference) ∧
      (mods.contains Modifiers.REF = true → dm ≠ .steps ∧ dup = .new)) := by
  unfold modeRuleB at h
  cases hN : mods.contains Modifiers.NEW <;> cases hR : mods.contains Modifiers.REF <;> cases dm <;> cases dup <;>
    cases found <;> cases target <;> simp_all

/-! ### described blocks with mode switches -/

/-- a block as the analysis reads it, including the mode switches -/
inductive YBlock (α : Type) where
  | step (items : List (XItem α))
  | sect (name : Option Str)
  | entry (k v : Str)
  | para (s : Str)
  /-- `>> [mode]: …` / `>> [define]: …` selecting the define mode -/
  | define (m : DefineMode)
  /-- `>> [duplicate]: …` selecting the duplicate mode -/
  | duplicate (m : DuplicateMode)

def XItem.isText : XItem α → Bool
  | .text _ => true
  | _ => false

/-- the shown texts of the items, joined -/
def xTexts : List (XItem α) → Str
  | [] => []
  | .text s :: r => s ++ xTexts r
  | _ :: r => xTexts r

/-- an item of a step written in components mode: a plain definition (no intermediate data, neither `&` nor
    `+`); a text has no letter or digit (otherwise `text-in-components-mode` is reported) -/
def compXOKB (env : Env) : XItem α → Bool
  | .text s => !s.any env.cs.alnum
  | .ingr inter igr0 => inter.isNone && decide (plainMods igr0.modifiers)
  | .cw cw0 => decide (plainMods cw0.modifiers)
  | .timer _ => true

/-- the recipe of a described document with mode switches: as `xRun`, threading the define mode `dm` and the
    duplicate mode `dup` -/
def yRun (env : Env) : DefineMode → DuplicateMode → XTbls α → List Section → Section → Nat → List (Str × Str) →
    List (YBlock α) → XRes α
  | _, _, T, secs, cur, _, m, [] => ⟨secs ++ (if cur.isEmpty then [] else [cur]), T, m⟩
  | dm, dup, T, secs, cur, num, m, .step st :: r =>
    match dm with
    | .components => yRun env dm dup (xCTbls T st) secs cur num m r
    | .text => yRun env dm dup T secs ⟨cur.name, cur.content ++ xParaContent (xTexts st)⟩ num m r
    | _ =>
      yRun env dm dup (yStepTbls env dm dup cur.content secs.length T st) secs
        ⟨cur.name, cur.content ++ [.step ⟨yItems env dm dup cur.content secs.length T st, num⟩]⟩ (num + 1) m r
  | dm, dup, T, secs, cur, _, m, .sect name :: r =>
    yRun env dm dup T (secs ++ (if cur.isEmpty then [] else [cur])) ⟨name, []⟩ 1 m r
  | dm, dup, T, secs, cur, num, m, .entry k v :: r => yRun env dm dup T secs cur num (metaInsert m k v) r
  | dm, dup, T, secs, cur, num, m, .para s :: r =>
    yRun env dm dup T secs ⟨cur.name, cur.content ++ xParaContent s⟩ num m r
  | _, dup, T, secs, cur, num, m, .define m' :: r => yRun env m' dup T secs cur num m r
  | dm, _, T, secs, cur, num, m, .duplicate m' :: r => yRun env dm m' T secs cur num m r

/-- the conditions under which such a document is analysed without any report, threaded as `yRun`:
    * a step in define mode `all` / `steps`: not empty, every component obeys the rule of the modes
      (`modeRuleB`) against the tables of the components before it;
    * a step in components mode: duplicate mode `new`, plain definitions only (`compXOKB`);
    * a step in text mode: texts only (a component would be reported as ignored). -/
def yOKB (env : Env) : DefineMode → DuplicateMode → XTbls α → List Section → Section → Nat → List (YBlock α) → Bool
  | _, _, _, _, _, _, [] => true
  | dm, dup, T, secs, cur, num, .step st :: r =>
    match dm with
    | .components => dup == .new && st.all (compXOKB env) && yOKB env dm dup (xCTbls T st) secs cur num r
    | .text => st.all XItem.isText &&
        yOKB env dm dup T secs ⟨cur.name, cur.content ++ xParaContent (xTexts st)⟩ num r
    | _ =>
      yItemsOKB env dm dup cur.content secs.length T st && !st.isEmpty &&
      yOKB env dm dup (yStepTbls env dm dup cur.content secs.length T st) secs
        ⟨cur.name, cur.content ++ [.step ⟨yItems env dm dup cur.content secs.length T st, num⟩]⟩ (num + 1) r
  | dm, dup, T, secs, cur, _, .sect name :: r =>
    yOKB env dm dup T (secs ++ (if cur.isEmpty then [] else [cur])) ⟨name, []⟩ 1 r
  | dm, dup, T, secs, cur, num, .entry _ _ :: r => yOKB env dm dup T secs cur num r
  | dm, dup, T, secs, cur, num, .para s :: r => yOKB env dm dup T secs ⟨cur.name, cur.content ++ xParaContent s⟩ num r
  | _, dup, T, secs, cur, num, .define m' :: r => yOKB env m' dup T secs cur num r
  | dm, _, T, secs, cur, num, .duplicate m' :: r => yOKB env dm m' T secs cur num r

/-! ### parsed blocks with mode switches -/

/-- a block as the parser hands it over: a plain block, or a `>>` line that is a mode switch -/
inductive NBlock (α : Type) where
  | plain (b : SBlock α)
  | define (k v : Text) (m : DefineMode)
  | duplicate (k v : Text) (m : DuplicateMode)

def NBlock.events : NBlock α → List (Ev α)
  | .plain b => b.events
  | .define k v _ => [.metadata k v]
  | .duplicate k v _ => [.metadata k v]

def NBlock.y (env : Env) : NBlock α → YBlock α
  | .plain (.step st) => .step (st.map (SItem.x env))
  | .plain (.sect name) => .sect (name.map (·.trimmed env.cs))
  | .plain (.entry k v) => .entry (k.trimmed env.cs) (v.outerTrimmed env.cs)
  | .plain (.para ts) => .para (ts.flatMap (·.text))
  | .define _ _ m => .define m
  | .duplicate _ _ m => .duplicate m

/-- the side conditions of an item that do not depend on the tables, by define mode: a text must be left in
    one piece by INLINE_QUANTITIES only where it becomes a step item (modes `all`, `steps`) -/
def SItem.SideOKM (env : Env) (dm : DefineMode) : SItem α → Prop
  | .text t => dm = .all ∨ dm = .steps → TextInlOK (α := α) env t
  | .ingredient i => ∀ q, i.val.quantity = some q → lockOK q.val.value true
  | .cookware c => ∀ q, c.val.quantity = some q → lockOK q.val false
  | .timer t => TimerSimple t ∧ TimerAdvOK env t

/-- the side conditions of the blocks, threading the define mode: a switch line is one the code accepts
    (`DefineLine`, `DuplicateLine`), any other `>>` line is a plain entry -/
def nSideOK (env : Env) : DefineMode → List (NBlock α) → Prop
  | _, [] => True
  | dm, .plain (.step st) :: r => (∀ it ∈ st, it.SideOKM env dm) ∧ nSideOK env dm r
  | dm, .plain (.entry k v) :: r => EntryPlain env k v ∧ nSideOK env dm r
  | dm, .plain (.sect _) :: r => nSideOK env dm r
  | dm, .plain (.para _) :: r => nSideOK env dm r
  | _, .define k v m :: r => DefineLine env k v m ∧ nSideOK env m r
  | dm, .duplicate k v m :: r => DuplicateLine env k v m ∧ nSideOK env dm r

/-- the `>>` lines that are metadata entries (mode switches are not) -/
def nEntries : List (NBlock α) → List (Text × Text)
  | [] => []
  | .plain (.entry k v) :: r => (k, v) :: nEntries r
  | _ :: r => nEntries r

/-! ### one item, one step -/

theorem rtq_fit_push (env : Env) (dm : DefineMode) (dup : DuplicateMode) (content : List Content) (nsec : Nat)
    (before : List (SItem α)) (T : XTbls α) (h : TblsFit before T) (it : SItem α) :
    TblsFit (before ++ [it]) (xPushM env dm dup content nsec T (it.x env)) := by
  obtain ⟨h1, h2⟩ := h
  cases it <;>
    simp [TblsFit, SItem.x, xPushM, ingrsOf, cwsOf, SItem.ingr?, SItem.cw?, rtq_ingrPushM_size, rtq_cwPushM_size, h1, h2]

theorem rtq_treated (dm : DefineMode) (dup : DuplicateMode) (mods : Modifiers)
    (h : mods.contains Modifiers.REF = true ∨ dm = .steps ∨ dup = .reference) : treatedAsRef dm dup mods = true := by
  unfold treatedAsRef
  rcases h with h | h | h
  · simp [h]
  · subst h; simp
  · subst h; simp

theorem rtq_item (env : Env) (input : Str) (base : Col α) (hdm : base.defineMode = .all ∨ base.defineMode = .steps)
    (it : SItem α) (before : List (SItem α)) (T : XTbls α) (hfit : TblsFit before T) (content : List Content) (n : Nat)
    (hside : it.SideOKM env base.defineMode)
    (h : xOKAtMB env base.defineMode base.duplicateMode content base.sections.length T (it.x env) = true)
    (items : List Item) :
    (processEvent env input it.ev (stOfT base before T content n (some (.step items)))).2 =
      stOfT base (before ++ [it])
        (xPushM env base.defineMode base.duplicateMode content base.sections.length T (it.x env)) content n
        (some (.step (items ++ [xToItem T (it.x env)]))) := by
  have hnc : (stOfT base before T content n (some (.step items))).defineMode ≠ .components := by
    show base.defineMode ≠ .components
    rcases hdm with h' | h' <;> rw [h'] <;> decide
  obtain ⟨hf1, hf2⟩ := hfit
  cases it with
  | text t =>
    rw [SItem.ev, rtn_proc_text env input t _ items (hside hdm) hnc rfl]
    simp [stOfT, SItem.x, xPushM, xToItem, ingrsOf, cwsOf, SItem.ingr?, SItem.cw?, List.filterMap]
  | timer lt =>
    rw [SItem.ev, rts_proc_timer env input lt _ items hside.1 hside.2 rfl]
    simp [stOfT, SItem.x, xPushM, xToItem, ingrsOf, cwsOf, SItem.ingr?, SItem.cw?, List.filterMap]
  | ingredient li =>
    have hsnoc : ingrsOf (before ++ [SItem.ingredient li]) = ingrsOf before ++ [li] := by
      simp [ingrsOf, SItem.ingr?]
    have hcsnoc : cwsOf (before ++ [SItem.ingredient li]) = cwsOf before := by
      simp [cwsOf, SItem.cw?]
    simp only [SItem.x, xOKAtMB] at h
    cases hin : li.val.inter with
    | some d =>
      rw [hin] at h
      simp only [Option.map_some, ingrOKMB, Bool.and_eq_true, beq_iff_eq, decide_eq_true_eq] at h
      obtain ⟨⟨⟨h1, h2⟩, h3⟩, h4⟩ := h
      cases hr : interRefTarget content base.sections.length d.val with
      | error e => rw [hr] at h4; cases h4
      | ok rel =>
        rw [SItem.ev, rtn_proc_ingredient_inter env input li _ items d rel hnc rfl hin hside h1 h2 h3 hr]
        simp only [stOfT, SItem.x, xPushM, xToItem, hsnoc, hcsnoc, hin, Option.map_some, ingrPushM, hr]
        simp
    | none =>
      rw [hin] at h
      simp only [Option.map_none, ingrOKMB] at h
      rcases rtq_modeRule _ _ _ _ _ h with ⟨hR, hq⟩ | ⟨hN, htg, htreat, hquiet⟩
      · -- stays a definition
        have hq' : ((ingrOf env li).modifiers.contains Modifiers.NEW = true ∧
              (base.defineMode = .steps ∨ (base.duplicateMode = .reference ∧
                (sameNameIdx env (T.ing.toList.map (fun x => (x.name, x.modifiers))) (ingrOf env li).name).isSome
                  = true))) ∨
            ((ingrOf env li).modifiers.contains Modifiers.NEW = false ∧ base.defineMode ≠ .steps ∧
              (base.duplicateMode = .new ∨
                sameNameIdx env (T.ing.toList.map (fun x => (x.name, x.modifiers))) (ingrOf env li).name = none)) := by
          rcases hq with ⟨a, b⟩ | ⟨a, b, c⟩
          · exact Or.inl ⟨a, b⟩
          · refine Or.inr ⟨a, b, ?_⟩
            rcases c with c | c
            · exact Or.inl c
            · exact Or.inr (by simpa using c)
        rw [SItem.ev, rtn_proc_ingredient_def env input li _ items rfl hnc hin hside hR hq']
        have hpush : ingrPushM env base.defineMode base.duplicateMode content base.sections.length T.ing none
            (ingrOf env li) = T.ing.push (ingrOf env li) := by
          unfold ingrPushM
          simp only
          rcases hq with ⟨a, b⟩ | ⟨a, b, c⟩
          · simp [a]
          · rcases c with c | c
            · have : treatedAsRef base.defineMode base.duplicateMode (ingrOf env li).modifiers = false := by
                unfold treatedAsRef
                rw [hR, c]
                cases hdm' : base.defineMode <;> first | rfl | exact absurd hdm' b
              simp [this]
            · have hnone : sameNameIdx env (T.ing.toList.map (fun x => (x.name, x.modifiers))) (ingrOf env li).name = none := by
                simpa using c
              split
              · rfl
              · rw [hnone]
        simp only [stOfT, SItem.x, xPushM, xToItem, hsnoc, hcsnoc, hin, Option.map_none, hpush]
        simp
      · -- becomes a reference
        obtain ⟨hadv, hnote0, t, defn, rf, b, tg, h1, h2, h3, h4, h5, h6⟩ := rtq_ingrTargetOKB env T.ing _ htg
        have hlt : t < (ingrsOf before).length := by
          rcases Nat.lt_or_ge t T.ing.size with hh | hh
          · rw [hf1] at hh; exact hh
          · rw [Array.getElem?_eq_none hh] at h2; cases h2
        have hloc : (stOfT base before T content n (some (.step items))).locIngr[t]? = some ((ingrsOf before)[t]'hlt) := by
          simp [stOfT, hlt]
        have hnote : li.val.note = none := by
          have := hnote0
          simp only [ingrOf] at this
          cases hn : li.val.note with
          | none => rfl
          | some x => rw [hn] at this; cases this
        rw [SItem.ev, rtn_proc_ingredient_ref env input li (stOfT base before T content n (some (.step items))) items t defn _ rf b tg rfl hin hside hN htreat hquiet
          h1 h2 hloc h3 h4 ⟨hadv, hnote, h5, h6⟩]
        have hpush : ingrPushM env base.defineMode base.duplicateMode content base.sections.length T.ing none
            (ingrOf env li) =
            (T.ing.setIfInBounds t (backlinked defn rf T.ing.size b tg)).push (asReference (ingrOf env li) defn.modifiers t) := by
          unfold ingrPushM
          have hN' : (ingrOf env li).modifiers.contains Modifiers.NEW = false := hN
          simp only [hN', rtq_treated _ _ _ htreat, Bool.not_true, Bool.or_self, Bool.false_eq_true, if_false, h1, h2, h3]
        simp only [stOfT, SItem.x, xPushM, xToItem, hsnoc, hcsnoc, hin, Option.map_none, hpush]
        simp
  | cookware lc =>
    have hsnoc : cwsOf (before ++ [SItem.cookware lc]) = cwsOf before ++ [lc] := by
      simp [cwsOf, SItem.cw?]
    have hisnoc : ingrsOf (before ++ [SItem.cookware lc]) = ingrsOf before := by
      simp [ingrsOf, SItem.ingr?]
    simp only [SItem.x, xOKAtMB, cwOKMB] at h
    rcases rtq_modeRule _ _ _ _ _ h with ⟨hR, hq⟩ | ⟨hN, htg, htreat, hquiet⟩
    · have hq' : ((cwOf env lc).modifiers.contains Modifiers.NEW = true ∧
            (base.defineMode = .steps ∨ (base.duplicateMode = .reference ∧
              (sameNameIdx env (T.cw.toList.map (fun x => (x.name, x.modifiers))) (cwOf env lc).name).isSome
                = true))) ∨
          ((cwOf env lc).modifiers.contains Modifiers.NEW = false ∧ base.defineMode ≠ .steps ∧
            (base.duplicateMode = .new ∨
              sameNameIdx env (T.cw.toList.map (fun x => (x.name, x.modifiers))) (cwOf env lc).name = none)) := by
        rcases hq with ⟨a, b⟩ | ⟨a, b, c⟩
        · exact Or.inl ⟨a, b⟩
        · refine Or.inr ⟨a, b, ?_⟩
          rcases c with c | c
          · exact Or.inl c
          · exact Or.inr (by simpa using c)
      rw [SItem.ev, rtn_proc_cookware_def env input lc _ items rfl hnc hside hR hq']
      have hpush : cwPushM env base.defineMode base.duplicateMode T.cw (cwOf env lc) = T.cw.push (cwOf env lc) := by
        unfold cwPushM
        rcases hq with ⟨a, b⟩ | ⟨a, b, c⟩
        · simp [a]
        · rcases c with c | c
          · have : treatedAsRef base.defineMode base.duplicateMode (cwOf env lc).modifiers = false := by
              unfold treatedAsRef
              rw [hR, c]
              cases hdm' : base.defineMode <;> first | rfl | exact absurd hdm' b
            simp [this]
          · have hnone : sameNameIdx env (T.cw.toList.map (fun x => (x.name, x.modifiers))) (cwOf env lc).name = none := by
              simpa using c
            split
            · rfl
            · rw [hnone]
      simp only [stOfT, SItem.x, xPushM, xToItem, hsnoc, hisnoc, hpush]
      simp
    · obtain ⟨hnote0, t, defn, rf, b, h1, h2, h3, h4, h5, h6⟩ := rtq_cwTargetOKB env T.cw _ htg
      have hlt : t < (cwsOf before).length := by
        rcases Nat.lt_or_ge t T.cw.size with hh | hh
        · rw [hf2] at hh; exact hh
        · rw [Array.getElem?_eq_none hh] at h2; cases h2
      have hloc : (stOfT base before T content n (some (.step items))).locCw[t]? = some ((cwsOf before)[t]'hlt) := by
        simp [stOfT, hlt]
      have hnote : lc.val.note = none := by
        have := hnote0
        simp only [cwOf] at this
        cases hn : lc.val.note with
        | none => rfl
        | some x => rw [hn] at this; cases this
      rw [SItem.ev, rtn_proc_cookware_ref env input lc (stOfT base before T content n (some (.step items))) items t defn _ rf b rfl hside hN htreat hquiet
        h1 h2 hloc h3 h4 ⟨hnote, h5, h6⟩]
      have hpush : cwPushM env base.defineMode base.duplicateMode T.cw (cwOf env lc) =
          (T.cw.setIfInBounds t (cwBacklinked defn rf T.cw.size b)).push (cwAsReference (cwOf env lc) defn.modifiers t) := by
        unfold cwPushM
        have hN' : (cwOf env lc).modifiers.contains Modifiers.NEW = false := hN
        simp only [hN', rtq_treated _ _ _ htreat, Bool.not_true, Bool.or_self, Bool.false_eq_true, if_false, h1, h2, h3]
      simp only [stOfT, SItem.x, xPushM, xToItem, hsnoc, hisnoc, hpush]
      simp

theorem rtq_loop_items (env : Env) (input : Str) (base : Col α) (hdm : base.defineMode = .all ∨ base.defineMode = .steps)
    (rest : List (Ev α)) (content : List Content) (n : Nat) :
    ∀ (st : List (SItem α)) (before : List (SItem α)) (T : XTbls α), TblsFit before T →
      (∀ it ∈ st, it.SideOKM env base.defineMode) →
      yItemsOKB env base.defineMode base.duplicateMode content base.sections.length T (st.map (SItem.x env)) = true →
      ∀ (items : List Item),
      parseEventsLoop env input (st.map SItem.ev ++ rest) (stOfT base before T content n (some (.step items))) =
        parseEventsLoop env input rest
          (stOfT base (before ++ st)
            (yStepTbls env base.defineMode base.duplicateMode content base.sections.length T (st.map (SItem.x env))) content n
            (some (.step (items ++
              yItems env base.defineMode base.duplicateMode content base.sections.length T (st.map (SItem.x env)))))) ∧
      TblsFit (before ++ st)
        (yStepTbls env base.defineMode base.duplicateMode content base.sections.length T (st.map (SItem.x env))) := by
  intro st
  induction st with
  | nil => intro before T hfit _ _ items; simp [yItems, yStepTbls, hfit]
  | cons it r ih =>
    intro before T hfit hside hs items
    simp only [List.map_cons, yItemsOKB, Bool.and_eq_true] at hs
    obtain ⟨i1, i2⟩ := ih (before ++ [it])
      (xPushM env base.defineMode base.duplicateMode content base.sections.length T (it.x env))
      (rtq_fit_push env _ _ content base.sections.length before T hfit it) (fun x hx => hside x (by simp [hx])) hs.2
      (items ++ [xToItem T (it.x env)])
    refine ⟨?_, by simpa [yStepTbls, List.append_assoc] using i2⟩
    rw [List.map_cons, List.cons_append, parseEventsLoop_cons_nonerror env input _ _ _ (rta_ev_not_error it),
      rtq_item env input base hdm it before T hfit content n (hside it (by simp)) hs.1, i1]
    simp [yItems, yStepTbls, List.append_assoc]

theorem rtq_start (env : Env) (input : Str) (base : Col α) (hdm : base.defineMode = .all ∨ base.defineMode = .steps)
    (before : List (SItem α)) (T : XTbls α) (content : List Content) (n : Nat) :
    (processEvent env input (.start .step) (stOfT base before T content n none)).2 =
      stOfT base before T content n (some (.step [])) := by
  rcases hdm with h | h <;>
    simp [processEvent, modify, modifyGet, MonadStateOf.modifyGet, StateT.modifyGet, stOfT, pure, StateT.pure, h]

theorem rtq_stop (env : Env) (input : Str) (base : Col α) (hdm : base.defineMode = .all ∨ base.defineMode = .steps)
    (before : List (SItem α)) (T : XTbls α) (content : List Content) (n : Nat) (items : List Item) (hne : items ≠ []) :
    (processEvent env input (.stop .step) (stOfT base before T content n (some (.step items)))).2 =
      stOfT base before T (content ++ [.step ⟨items, n⟩]) (n + 1) none := by
  have hne' : items.isEmpty = false := by cases items <;> simp_all
  rcases hdm with h | h <;>
    simp [processEvent, endBlock, endBlockContent, pushContent, Content.isStep, Content.isEmptyContent, hne', bind,
      StateT.bind, get, getThe, MonadStateOf.get, StateT.get, pure, StateT.pure, modify, modifyGet,
      MonadStateOf.modifyGet, StateT.modifyGet, stOfT, h]

theorem rtq_yItems_ne (env : Env) (dm : DefineMode) (dup : DuplicateMode) (content : List Content) (nsec : Nat)
    (T : XTbls α) (st : List (XItem α)) (h : st ≠ []) : yItems env dm dup content nsec T st ≠ [] := by
  cases st with
  | nil => exact absurd rfl h
  | cons a r => simp [yItems]

/-- one step block in define mode `all` or `steps` -/
theorem rtq_loop_step (env : Env) (input : Str) (base : Col α) (hdm : base.defineMode = .all ∨ base.defineMode = .steps)
    (rest : List (Ev α)) (st : List (SItem α)) (before : List (SItem α)) (T : XTbls α) (hfit : TblsFit before T)
    (hside : ∀ it ∈ st, it.SideOKM env base.defineMode) (content : List Content) (n : Nat)
    (hs : yItemsOKB env base.defineMode base.duplicateMode content base.sections.length T (st.map (SItem.x env)) = true)
    (hne : st ≠ []) :
    parseEventsLoop env input (stepEvents st ++ rest) (stOfT base before T content n none) =
      parseEventsLoop env input rest
        (stOfT base (before ++ st)
          (yStepTbls env base.defineMode base.duplicateMode content base.sections.length T (st.map (SItem.x env)))
          (content ++ [.step ⟨yItems env base.defineMode base.duplicateMode content base.sections.length T
            (st.map (SItem.x env)), n⟩]) (n + 1) none) ∧
    TblsFit (before ++ st)
      (yStepTbls env base.defineMode base.duplicateMode content base.sections.length T (st.map (SItem.x env))) := by
  have e : stepEvents st ++ rest = Ev.start .step :: (st.map SItem.ev ++ (Ev.stop .step :: rest)) := by
    simp [stepEvents]
  obtain ⟨i1, i2⟩ := rtq_loop_items env input base hdm (Ev.stop .step :: rest) content n st before T hfit hside hs []
  refine ⟨?_, i2⟩
  have hne' : st.map (SItem.x env) ≠ [] := by simpa using hne
  rw [e, parseEventsLoop_cons_nonerror env input _ _ _ (by rintro ⟨d, h⟩; cases h), rtq_start env input base hdm, i1,
    parseEventsLoop_cons_nonerror env input _ _ _ (by rintro ⟨d, h⟩; cases h), List.nil_append,
    rtq_stop env input base hdm _ _ content n _ (rtq_yItems_ne env _ _ content _ T _ hne')]

/-- the pieces of a step made of texts only -/
theorem rtq_text_pieces (env : Env) (input : Str) : ∀ (st : List (SItem α)),
    (st.map (SItem.x env)).all XItem.isText = true →
    ∃ pieces : List Str, st.map (textModePiece input) = pieces.map some ∧
      pieces.flatten = xTexts (st.map (SItem.x env)) ∧ st.flatMap textModeWarn = [] := by
  intro st
  induction st with
  | nil => intro _; exact ⟨[], rfl, rfl, rfl⟩
  | cons it r ih =>
    intro h
    simp only [List.map_cons, List.all_cons, Bool.and_eq_true] at h
    obtain ⟨ps, h1, h2, h3⟩ := ih h.2
    cases it with
    | text t =>
      refine ⟨t.text :: ps, by simp [textModePiece, h1], ?_, by simp [textModeWarn, h3]⟩
      simp [SItem.x, xTexts, h2]
    | ingredient i => simp [SItem.x, XItem.isText] at h
    | cookware c => simp [SItem.x, XItem.isText] at h
    | timer t => simp [SItem.x, XItem.isText] at h

/-- one step block in text mode, texts only: a text paragraph, nothing else -/
theorem rtq_loop_step_text (env : Env) (input : Str) (base : Col α) (hdm : base.defineMode = .text)
    (rest : List (Ev α)) (st : List (SItem α)) (before : List (SItem α)) (T : XTbls α) (content : List Content) (n : Nat)
    (hs : (st.map (SItem.x env)).all XItem.isText = true) :
    parseEventsLoop env input (stepEvents st ++ rest) (stOfT base before T content n none) =
      parseEventsLoop env input rest
        (stOfT base before T (content ++ xParaContent (xTexts (st.map (SItem.x env)))) n none) := by
  obtain ⟨pieces, h1, h2, h3⟩ := rtq_text_pieces env input st hs
  have e : stepEvents st ++ rest = [Ev.start .step] ++ st.map SItem.ev ++ [Ev.stop .step] ++ rest := by
    simp [stepEvents]
  rw [e, rtn_text_block env input rest .step st pieces (stOfT base before T content n none) hdm h1, h2, h3]
  congr 1 <;> simp [stOfT]

/-- one step block in components mode (from `rtm_loop_steps`) -/
theorem rtq_loop_step_comps (env : Env) (input : Str) (base : Col α) (hb : CompBase base)
    (rest : List (Ev α)) (st : List (SItem α)) (before : List (SItem α)) (T : XTbls α) (hfit : TblsFit before T)
    (content : List Content) (n : Nat) (hs : ∀ it ∈ st, it.CompOK env) :
    parseEventsLoop env input (stepEvents st ++ rest) (stOfT base before T content n none) =
      parseEventsLoop env input rest (stOfT base (before ++ st) (xCTbls T (st.map (SItem.x env))) content n none) ∧
    TblsFit (before ++ st) (xCTbls T (st.map (SItem.x env))) := by
  have := rtm_loop_steps env input base hb rest content n [st] before T hfit
    (by intro s hs' it hit; simp only [List.mem_cons, List.not_mem_nil, or_false] at hs'; subst hs'; exact hs it hit)
  simpa using this

/-- the side conditions of components mode, from the mode-aware ones and the described items -/
theorem rtq_compOK (env : Env) (it : SItem α) (hside : it.SideOKM env .components)
    (h : compXOKB env (it.x env) = true) : it.CompOK env := by
  cases it with
  | text t => simpa [SItem.x, compXOKB, SItem.CompOK] using h
  | ingredient li =>
    simp only [SItem.x, compXOKB, Bool.and_eq_true, decide_eq_true_eq, Option.isNone_iff_eq_none, Option.map_eq_none_iff] at h
    exact ⟨h.1, h.2, hside⟩
  | cookware lc =>
    simp only [SItem.x, compXOKB, decide_eq_true_eq] at h
    exact ⟨h, hside⟩
  | timer lt => exact hside

/-- a text paragraph, in every mode -/
theorem rtq_para (env : Env) (input : Str) (base : Col α) (rest : List (Ev α)) (ts : List Text)
    (before : List (SItem α)) (T : XTbls α) (content : List Content) (n : Nat) :
    parseEventsLoop env input (([Ev.start .text] ++ ts.map Ev.text ++ [Ev.stop .text]) ++ rest)
        (stOfT base before T content n none) =
      parseEventsLoop env input rest (stOfT base before T (content ++ xParaContent (ts.flatMap (·.text))) n none) := by
  have e : ([Ev.start .text] ++ ts.map Ev.text ++ [Ev.stop .text]) ++ rest =
      Ev.start .text :: (ts.map Ev.text ++ (Ev.stop .text :: rest)) := by simp
  have hstart : (processEvent env input (.start .text) (stOfT base before T content n none)).2 =
      stOfT base before T content n (some (.text [])) := by
    cases hdm : base.defineMode <;>
      simp [processEvent, modify, modifyGet, MonadStateOf.modifyGet, StateT.modifyGet, stOfT, pure, StateT.pure, hdm]
  have hstop : ∀ buf, (processEvent env input (.stop .text) (stOfT base before T content n (some (.text buf)))).2 =
      stOfT base before T (content ++ (if buf.isEmpty then [] else [.text buf])) n none := by
    intro buf
    cases hdm : base.defineMode <;> by_cases hbuf : buf.isEmpty = true <;>
      simp [processEvent, endBlock, endBlockContent, pushContent, Content.isStep, Content.isEmptyContent, hbuf, bind,
        StateT.bind, get, getThe, MonadStateOf.get, StateT.get, pure, StateT.pure, modify, modifyGet,
        MonadStateOf.modifyGet, StateT.modifyGet, stOfT, hdm]
  rw [e, parseEventsLoop_cons_nonerror env input _ _ _ (by rintro ⟨d, h⟩; cases h), hstart,
    rtax_para_texts env input base _ before T content n ts [],
    parseEventsLoop_cons_nonerror env input _ _ _ (by rintro ⟨d, h⟩; cases h), hstop]
  simp [xParaContent]

/-! ### the whole document -/

structure DocResultN (env : Env) (dm : DefineMode) (dup : DuplicateMode) (base : Col α) (T : XTbls α)
    (content : List Content) (n : Nat) (ys : List (YBlock α)) (es : List (Text × Text)) (c : Col α) : Prop where
  sections : c.sections = (yRun env dm dup T base.sections ⟨base.cur.name, content⟩ n base.metaMap ys).secs
  ingredients : c.ingredients = (yRun env dm dup T base.sections ⟨base.cur.name, content⟩ n base.metaMap ys).T.ing
  cookware : c.cookware = (yRun env dm dup T base.sections ⟨base.cur.name, content⟩ n base.metaMap ys).T.cw
  timers : c.timers = (yRun env dm dup T base.sections ⟨base.cur.name, content⟩ n base.metaMap ys).T.tm
  metaMap : c.metaMap = (yRun env dm dup T base.sections ⟨base.cur.name, content⟩ n base.metaMap ys).metaMap
  used : c.oldStyleUsed = base.oldStyleUsed ++ docSpans es
  diags : c.diags = base.diags ++ deprecation (base.oldStyleUsed ++ docSpans es)
  inlineQ : c.inlineQ = base.inlineQ
  frontMatter : c.frontMatter = base.frontMatter

theorem rtq_final (env : Env) (input : Str) (dm : DefineMode) (dup : DuplicateMode) (base : Col α)
    (before : List (SItem α)) (T : XTbls α) (content : List Content) (n : Nat) :
    ∃ c : Col α, parseEventsLoop env input [] (stOfT base before T content n none) = ⟨some c, c.diags, base.panic⟩ ∧
      DocResultN env dm dup base T content n [] [] c := by
  refine ⟨finalCol (stOfT base before T content n none), ?_, ?_⟩
  · rw [rts_loop_nil]
    congr 1
    unfold finalCol
    by_cases h1 : Section.isEmpty ⟨base.cur.name, content⟩ = true <;>
      by_cases h2 : base.oldStyleUsed.isEmpty = true <;> simp [stOfT, h1, h2]
  · unfold finalCol
    by_cases h1 : Section.isEmpty ⟨base.cur.name, content⟩ = true <;>
      by_cases h2 : base.oldStyleUsed.isEmpty = true <;>
      constructor <;>
        simp [stOfT, h1, h2, yRun, docSpans, deprecation]

theorem rtq_entryEffect_modes (env : Env) (k v : Text) (base : Col α) :
    (entryEffect env k v base).defineMode = base.defineMode ∧
    (entryEffect env k v base).duplicateMode = base.duplicateMode := by
  unfold entryEffect
  cases StdKey.ofStr (String.ofList (k.trimmed env.cs)) <;> exact ⟨rfl, rfl⟩

theorem rtq_loop_doc (env : Env) (input : Str) :
    ∀ (blocks : List (NBlock α)) (dm : DefineMode) (dup : DuplicateMode) (base : Col α),
      base.defineMode = dm → base.duplicateMode = dup → nSideOK env dm blocks →
      ∀ (before : List (SItem α)) (T : XTbls α), TblsFit before T → ∀ (content : List Content) (n : Nat),
      yOKB env dm dup T base.sections ⟨base.cur.name, content⟩ n (blocks.map (NBlock.y env)) = true →
      ∃ c : Col α,
        parseEventsLoop env input (blocks.flatMap NBlock.events) (stOfT base before T content n none) =
          ⟨some c, c.diags, base.panic⟩ ∧
        DocResultN env dm dup base T content n (blocks.map (NBlock.y env)) (nEntries blocks) c := by
  intro blocks
  induction blocks with
  | nil =>
    intro dm dup base _ _ _ before T _ content n _
    exact rtq_final env input dm dup base before T content n
  | cons nb r ih =>
    intro dm dup base hdm hdup hside before T hfit content n hok
    cases nb with
    | define k v m =>
      simp only [nSideOK] at hside
      simp only [List.map_cons, NBlock.y, yOKB] at hok
      have hev : (processEvent env input (.metadata k v) (stOfT base before T content n none)).2 =
          stOfT ({ base with defineMode := m } : Col α) before T content n none := by
        have e1 : processEvent env input (.metadata k v) (stOfT base before T content n none) =
            metadataA env k v (stOfT base before T content n none) := rfl
        rw [e1, rtn_defineLine env k v _ m hside.1]
        rfl
      obtain ⟨c, h1, h2⟩ := ih m dup ({ base with defineMode := m } : Col α) rfl hdup hside.2 before T hfit content n hok
      refine ⟨c, ?_, ?_⟩
      · rw [List.flatMap_cons, NBlock.events, List.singleton_append,
          parseEventsLoop_cons_nonerror env input _ _ _ (by rintro ⟨d, h⟩; cases h), hev, h1]
      · obtain ⟨a1, a2, a3, a4, a5, a6, a7, a8, a9⟩ := h2
        exact ⟨by rw [a1]; rfl, by rw [a2]; rfl, by rw [a3]; rfl, by rw [a4]; rfl, by rw [a5]; rfl,
          by rw [a6]; rfl, by rw [a7]; rfl, a8, a9⟩
    | duplicate k v m =>
      simp only [nSideOK] at hside
      simp only [List.map_cons, NBlock.y, yOKB] at hok
      have hev : (processEvent env input (.metadata k v) (stOfT base before T content n none)).2 =
          stOfT ({ base with duplicateMode := m } : Col α) before T content n none := by
        have e1 : processEvent env input (.metadata k v) (stOfT base before T content n none) =
            metadataA env k v (stOfT base before T content n none) := rfl
        rw [e1, rtn_duplicateLine env k v _ m hside.1]
        rfl
      obtain ⟨c, h1, h2⟩ := ih dm m ({ base with duplicateMode := m } : Col α) hdm rfl hside.2 before T hfit content n hok
      refine ⟨c, ?_, ?_⟩
      · rw [List.flatMap_cons, NBlock.events, List.singleton_append,
          parseEventsLoop_cons_nonerror env input _ _ _ (by rintro ⟨d, h⟩; cases h), hev, h1]
      · obtain ⟨a1, a2, a3, a4, a5, a6, a7, a8, a9⟩ := h2
        exact ⟨by rw [a1]; rfl, by rw [a2]; rfl, by rw [a3]; rfl, by rw [a4]; rfl, by rw [a5]; rfl,
          by rw [a6]; rfl, by rw [a7]; rfl, a8, a9⟩
    | plain b =>
      cases b with
      | sect name =>
        simp only [nSideOK] at hside
        simp only [List.map_cons, NBlock.y, yOKB] at hok
        obtain ⟨c, h1, h2⟩ := ih dm dup
          { base with sections := base.sections ++ (if (Section.isEmpty ⟨base.cur.name, content⟩) then [] else
                                    [⟨base.cur.name, content⟩]),
                      cur := ⟨name.map (·.trimmed env.cs), []⟩ } hdm hdup hside before T hfit [] 1 hok
        refine ⟨c, ?_, ?_⟩
        · rw [List.flatMap_cons, NBlock.events, SBlock.events, List.singleton_append,
            parseEventsLoop_cons_nonerror env input _ _ _ (by rintro ⟨d, h⟩; cases h), rtax_section, h1]
        · obtain ⟨a1, a2, a3, a4, a5, a6, a7, a8, a9⟩ := h2
          exact ⟨by rw [a1]; rfl, by rw [a2]; rfl, by rw [a3]; rfl, by rw [a4]; rfl, by rw [a5]; rfl,
            by rw [a6]; rfl, by rw [a7]; rfl, a8, a9⟩
      | para ts =>
        simp only [nSideOK] at hside
        simp only [List.map_cons, NBlock.y, yOKB] at hok
        obtain ⟨c, h1, h2⟩ := ih dm dup base hdm hdup hside before T hfit (content ++ xParaContent (ts.flatMap (·.text))) n hok
        refine ⟨c, ?_, ?_⟩
        · rw [List.flatMap_cons, NBlock.events, SBlock.events, rtq_para env input base _ ts, h1]
        · obtain ⟨a1, a2, a3, a4, a5, a6, a7, a8, a9⟩ := h2
          exact ⟨by rw [a1]; rfl, by rw [a2]; rfl, by rw [a3]; rfl, by rw [a4]; rfl, by rw [a5]; rfl,
            by rw [a6]; rfl, by rw [a7]; rfl, a8, a9⟩
      | entry k v =>
        simp only [nSideOK] at hside
        simp only [List.map_cons, NBlock.y, yOKB] at hok
        have hpanic : (entryEffect env k v base).panic = base.panic := by
          unfold entryEffect; cases StdKey.ofStr (String.ofList (k.trimmed env.cs)) <;> rfl
        have hsec : (entryEffect env k v base).sections = base.sections ∧ (entryEffect env k v base).cur = base.cur ∧
            (entryEffect env k v base).metaMap = metaInsert base.metaMap (k.trimmed env.cs) (v.outerTrimmed env.cs) ∧
            (entryEffect env k v base).oldStyleUsed = base.oldStyleUsed ++ [⟨k.span.start, v.span.stop⟩] ∧
            (entryEffect env k v base).diags = base.diags ∧ (entryEffect env k v base).inlineQ = base.inlineQ ∧
            (entryEffect env k v base).frontMatter = base.frontMatter := by
          unfold entryEffect; cases StdKey.ofStr (String.ofList (k.trimmed env.cs)) <;> exact ⟨rfl, rfl, rfl, rfl, rfl, rfl, rfl⟩
        obtain ⟨e1, e2, e3, e4, e5, e6, e7⟩ := hsec
        obtain ⟨m1, m2⟩ := rtq_entryEffect_modes env k v base
        obtain ⟨c, h1, h2⟩ := ih dm dup (entryEffect env k v base) (by rw [m1, hdm]) (by rw [m2, hdup]) hside.2 before T hfit
          content n (by rw [e1, e2]; exact hok)
        refine ⟨c, ?_, ?_⟩
        · rw [List.flatMap_cons, NBlock.events, SBlock.events, List.singleton_append,
            parseEventsLoop_cons_nonerror env input _ _ _ (by rintro ⟨d, h⟩; cases h), rtax_entry env input base k v hside.1, h1,
            hpanic]
        · obtain ⟨a1, a2, a3, a4, a5, a6, a7, a8, a9⟩ := h2
          rw [e1, e2, e3] at a1 a2 a3 a4 a5
          refine ⟨by rw [a1]; rfl, by rw [a2]; rfl, by rw [a3]; rfl, by rw [a4]; rfl, by rw [a5]; rfl, ?_, ?_,
            by rw [a8, e6], by rw [a9, e7]⟩
          · rw [a6, e4]; simp [nEntries, docSpans]
          · rw [a7, e4, e5]; simp [nEntries, docSpans]
      | step st =>
        simp only [nSideOK] at hside
        cases dm with
        | components =>
          simp only [List.map_cons, NBlock.y, yOKB, Bool.and_eq_true, beq_iff_eq, List.all_eq_true] at hok
          obtain ⟨⟨hnew, hcomp⟩, hrest⟩ := hok
          have hcb : CompBase base := ⟨hdm, by rw [hdup]; exact hnew⟩
          have hco : ∀ it ∈ st, it.CompOK env := fun it hit =>
            rtq_compOK env it (hside.1 it hit) (hcomp (it.x env) (List.mem_map_of_mem hit))
          obtain ⟨l1, l2⟩ := rtq_loop_step_comps env input base hcb (r.flatMap NBlock.events) st before T hfit content n hco
          obtain ⟨c, h1, h2⟩ := ih .components dup base hdm hdup hside.2 (before ++ st) _ l2 content n hrest
          refine ⟨c, ?_, ?_⟩
          · rw [List.flatMap_cons, NBlock.events, SBlock.events, l1, h1]
          · obtain ⟨a1, a2, a3, a4, a5, a6, a7, a8, a9⟩ := h2
            exact ⟨by rw [a1]; rfl, by rw [a2]; rfl, by rw [a3]; rfl, by rw [a4]; rfl, by rw [a5]; rfl,
              by rw [a6]; rfl, by rw [a7]; rfl, a8, a9⟩
        | text =>
          simp only [List.map_cons, NBlock.y, yOKB, Bool.and_eq_true] at hok
          obtain ⟨htxt, hrest⟩ := hok
          have l1 := rtq_loop_step_text env input base hdm (r.flatMap NBlock.events) st before T content n htxt
          obtain ⟨c, h1, h2⟩ := ih .text dup base hdm hdup hside.2 before T hfit _ n hrest
          refine ⟨c, ?_, ?_⟩
          · rw [List.flatMap_cons, NBlock.events, SBlock.events, l1, h1]
          · obtain ⟨a1, a2, a3, a4, a5, a6, a7, a8, a9⟩ := h2
            exact ⟨by rw [a1]; rfl, by rw [a2]; rfl, by rw [a3]; rfl, by rw [a4]; rfl, by rw [a5]; rfl,
              by rw [a6]; rfl, by rw [a7]; rfl, a8, a9⟩
        | all =>
          simp only [List.map_cons, NBlock.y, yOKB, Bool.and_eq_true, Bool.not_eq_true', List.isEmpty_eq_false_iff] at hok
          obtain ⟨⟨hs, hne⟩, hrest⟩ := hok
          have hne' : st ≠ [] := by simpa using hne
          obtain ⟨l1, l2⟩ := rtq_loop_step env input base (Or.inl hdm) (r.flatMap NBlock.events) st before T hfit
            (by rw [hdm]; exact hside.1) content n (by rw [hdm, hdup]; exact hs) hne'
          rw [hdm, hdup] at l1 l2
          obtain ⟨c, h1, h2⟩ := ih .all dup base hdm hdup hside.2 (before ++ st) _ l2 _ (n + 1) hrest
          refine ⟨c, ?_, ?_⟩
          · rw [List.flatMap_cons, NBlock.events, SBlock.events, l1, h1]
          · obtain ⟨a1, a2, a3, a4, a5, a6, a7, a8, a9⟩ := h2
            exact ⟨by rw [a1]; rfl, by rw [a2]; rfl, by rw [a3]; rfl, by rw [a4]; rfl, by rw [a5]; rfl,
              by rw [a6]; rfl, by rw [a7]; rfl, a8, a9⟩
        | steps =>
          simp only [List.map_cons, NBlock.y, yOKB, Bool.and_eq_true, Bool.not_eq_true', List.isEmpty_eq_false_iff] at hok
          obtain ⟨⟨hs, hne⟩, hrest⟩ := hok
          have hne' : st ≠ [] := by simpa using hne
          obtain ⟨l1, l2⟩ := rtq_loop_step env input base (Or.inr hdm) (r.flatMap NBlock.events) st before T hfit
            (by rw [hdm]; exact hside.1) content n (by rw [hdm, hdup]; exact hs) hne'
          rw [hdm, hdup] at l1 l2
          obtain ⟨c, h1, h2⟩ := ih .steps dup base hdm hdup hside.2 (before ++ st) _ l2 _ (n + 1) hrest
          refine ⟨c, ?_, ?_⟩
          · rw [List.flatMap_cons, NBlock.events, SBlock.events, l1, h1]
          · obtain ⟨a1, a2, a3, a4, a5, a6, a7, a8, a9⟩ := h2
            exact ⟨by rw [a1]; rfl, by rw [a2]; rfl, by rw [a3]; rfl, by rw [a4]; rfl, by rw [a5]; rfl,
              by rw [a6]; rfl, by rw [a7]; rfl, a8, a9⟩

/-- **analysis layer, documents with arbitrary mode switches** -/
theorem rtq_parseEvents_doc (env : Env) (input : Str) (blocks : List (NBlock α)) (hside : nSideOK env .all blocks)
    (hok : yOKB env .all .new {} [] ⟨none, []⟩ 1 (blocks.map (NBlock.y env)) = true) :
    ∃ c : Col α, parseEvents env input (blocks.flatMap NBlock.events) = ⟨some c, c.diags, none⟩ ∧
      c.sections = (yRun env .all .new {} [] ⟨none, []⟩ 1 [] (blocks.map (NBlock.y env))).secs ∧
      c.ingredients = (yRun env .all .new {} [] ⟨none, []⟩ 1 [] (blocks.map (NBlock.y env))).T.ing ∧
      c.cookware = (yRun env .all .new {} [] ⟨none, []⟩ 1 [] (blocks.map (NBlock.y env))).T.cw ∧
      c.timers = (yRun env .all .new {} [] ⟨none, []⟩ 1 [] (blocks.map (NBlock.y env))).T.tm ∧
      c.metaMap = (yRun env .all .new {} [] ⟨none, []⟩ 1 [] (blocks.map (NBlock.y env))).metaMap ∧
      c.diags = deprecation (docSpans (nEntries blocks)) ∧
      c.inlineQ = #[] ∧ c.frontMatter = none := by
  have h0 : ({} : Col α) = stOfT {} [] {} [] 1 none := by simp [stOfT, ingrsOf, cwsOf]
  obtain ⟨c, h1, h2⟩ := rtq_loop_doc env input blocks .all .new {} rfl rfl hside [] {} ⟨rfl, rfl⟩ [] 1 hok
  refine ⟨c, ?_, h2.sections, h2.ingredients, h2.cookware, h2.timers, h2.metaMap, ?_, ?_, ?_⟩
  · unfold parseEvents; rw [h0, h1]
  · rw [h2.diags]; simp
  · rw [h2.inlineQ]
  · rw [h2.frontMatter]

/-! ### closed forms of the table update -/

/-- a component that the modes (or `&`) make a reference to the definition at `t` -/
theorem rtq_ingrPushM_reference (env : Env) (dm : DefineMode) (dup : DuplicateMode) (content : List Content) (nsec : Nat)
    (tbl : Array (Ingredient (ScalableValue α))) (igr0 : Ingredient (ScalableValue α)) (t : Nat)
    (defn : Ingredient (ScalableValue α)) (rf : List Nat) (b : Bool) (tg : Option RefTarget)
    (hN : igr0.modifiers.contains Modifiers.NEW = false)
    (htreat : igr0.modifiers.contains Modifiers.REF = true ∨ dm = .steps ∨ dup = .reference)
    (hfound : sameNameIdx env (tbl.toList.map (fun x => (x.name, x.modifiers))) igr0.name = some t)
    (hdefn : tbl[t]? = some defn) (hrel : defn.relation = ⟨.definition rf b, tg⟩) :
    ingrPushM env dm dup content nsec tbl none igr0 =
      (tbl.setIfInBounds t (backlinked defn rf tbl.size b tg)).push (asReference igr0 defn.modifiers t) := by
  unfold ingrPushM
  simp only [hN, rtq_treated _ _ _ htreat, Bool.not_true, Bool.or_self, Bool.false_eq_true, if_false, hfound, hdefn, hrel]

/-- a component with `+` is appended as written, whatever the modes -/
theorem rtq_ingrPushM_new (env : Env) (dm : DefineMode) (dup : DuplicateMode) (content : List Content) (nsec : Nat)
    (tbl : Array (Ingredient (ScalableValue α))) (igr0 : Ingredient (ScalableValue α))
    (hN : igr0.modifiers.contains Modifiers.NEW = true) :
    ingrPushM env dm dup content nsec tbl none igr0 = tbl.push igr0 := by
  unfold ingrPushM
  simp [hN]

/-- the first occurrence of a name (no earlier non-REF definition) is appended as written -/
theorem rtq_ingrPushM_first (env : Env) (dm : DefineMode) (dup : DuplicateMode) (content : List Content) (nsec : Nat)
    (tbl : Array (Ingredient (ScalableValue α))) (igr0 : Ingredient (ScalableValue α))
    (hnone : sameNameIdx env (tbl.toList.map (fun x => (x.name, x.modifiers))) igr0.name = none) :
    ingrPushM env dm dup content nsec tbl none igr0 = tbl.push igr0 := by
  unfold ingrPushM
  simp only [hnone]
  split <;> rfl

/-- in the default modes a component without `&` is appended as written -/
theorem rtq_ingrPushM_default (env : Env) (content : List Content) (nsec : Nat)
    (tbl : Array (Ingredient (ScalableValue α))) (igr0 : Ingredient (ScalableValue α))
    (hR : igr0.modifiers.contains Modifiers.REF = false) :
    ingrPushM env .all .new content nsec tbl none igr0 = tbl.push igr0 := by
  unfold ingrPushM treatedAsRef
  simp [hR]

end Cook
