import CookModel.Lemmas.FragParts
/-
  C05 at fragment level: the timer parser (mirror of `timerP_evx` of SpansEv.lean, with the join points of
  the `do` block made explicit in the same way).
-/
set_option linter.unusedSectionVars false
set_option linter.unusedSimpArgs false
set_option linter.unusedVariables false
namespace Cook

variable {α : Type} [Arith α]
variable {off : Nat} {w : List Char} {Pv : Array (Ev α) → Prop} {ts : List Tok} {e : Ext} {s : BP α}

/-- every content token between cursor `c` and the cursor after is carried by the returned event, or an
    `Error` was pushed -/
def CompGood (tb : CharSpec) (ts : List Tok) (c : Nat) (r : Option (Ev α)) (s' : BP α) : Prop :=
  ∀ ev, r = some ev → ∀ i t, c ≤ i → i < s'.cur → ts[i]? = some t → CoreTok tb t →
    HasErrEv s'.evs ∨ ev.carries tb (tokBodyStart t) t.stop

/-- the quantity of the timer carries the content tokens between the braces -/
def TimerQ (tb : CharSpec) (body : Body) (qo : Option (Loc (PQuantity α))) : Prop :=
  ∀ qt, body.quantity = some qt → ∀ t ∈ qt, CoreTok tb t →
    ∃ lq, qo = some lq ∧ QtyHolds tb lq.val (tokBodyStart t) t.stop

theorem TimerQ.ofNone {tb : CharSpec} {body : Body} {qo : Option (Loc (PQuantity α))} (h : TimerQ tb body qo)
    (hn : qo.isNone = true) (q' : Option (Loc (PQuantity α))) : TimerQ tb body q' := by
  intro qt hqt t ht hc
  obtain ⟨lq, hlq, -⟩ := h qt hqt t ht hc
  rw [hlq] at hn; cases hn

theorem timerP_fc {tb : CharSpec} (hup : UpP Pv) (hw : WFI off w ts) (h : GE Pv ts e s) (hcs : s.cs = tb) :
    Sat (timerP (α := α)) s (fun r s' => GE Pv ts e s' ∧ CompGood tb ts s.cur r s') := by
  have hc : Ctx off w Pv ts := upCtx hw hup
  unfold timerP
  refine Sat.bind (currentOffset_sat h.g ?_)
  refine Sat.bind (Sat.mono ((consumeK_ge _ h).fragCs (IndGA.of_indA (consumeK_indA _))) ?_)
  rintro r1 s1 ⟨⟨g1, h1⟩, cs1⟩
  cases r1 with
  | none => exact Sat.pure ⟨g1, fun _ hev => by cases hev⟩
  | some m =>
    obtain ⟨hm, hmk, c1⟩ := h1
    refine Sat.bind (Sat.mono ((modifiersP_ev g1).fragCs (modifiersP_indGA fragFlags_1 fragFlags_2)) ?_)
    rintro mtoks s2 ⟨⟨g2, c2, hmseq, hmt⟩, cs2⟩
    refine Sat.bind (currentOffset_sat g2.g ?_)
    refine Sat.bind (Sat.mono (((compBody_ev hc g2).covBoth (compBody_fc (cs := tb) hw g2.g)).fragCs
      (IndGA.of_indA compBody_indA)) ?_)
    rintro r3 s3 ⟨⟨⟨g3, h3⟩, hbf⟩, cs3⟩
    cases r3 with
    | none => exact Sat.pure ⟨g3, fun _ hev => by cases hev⟩
    | some body =>
      obtain ⟨c3, hname, hq, -⟩ := h3
      obtain ⟨cn, cn1, cn2, hbn, hbq⟩ := hbf body rfl
      have hcs3 : s3.cs = tb := by rw [cs3, cs2, cs1, hcs]
      refine Sat.bind (currentOffset_sat g3.g ?_)
      try simp -zeta only
      extract_lets +onlyGivenNames -underBinder jp1
      have hjp1 : ∀ (Pv' : Array (Ev α) → Prop), UpP Pv' → (mtoks = [] ∨ ∀ evs, Pv' evs → HasErrEv evs) →
          ∀ (r : Unit) (s4 : BP α), GE Pv' ts e s4 → s4.cur = s3.cur → s4.cs = tb → Sat (jp1 r) s4
          (fun r s' => GE Pv' ts e s' ∧ CompGood tb ts s.cur r s') := by
        intro Pv' hup' hme r s4 g4 c4 cs4
        have hc' := upCtx hw hup'
        simp -zeta only [jp1]
        refine Sat.bind (hasExt_sat g4.g ?_)
        try simp -zeta only
        extract_lets +onlyGivenNames -underBinder jp2
        have hjp2 : ∀ (r : Unit) (s5 : BP α), GE Pv' ts e s5 → s5.cur = s3.cur → s5.cs = tb → Sat (jp2 r) s5
            (fun r s' => GE Pv' ts e s' ∧ CompGood tb ts s.cur r s') := by
          intro r s5 g5 c5 cs5
          simp -zeta only [jp2]
          refine Sat.bind (Sat.mono ((checkNoteTimer_ev hc' g5).fragCs (IndGA.of_indA checkNoteTimer_indA)) ?_)
          rintro _ s6 ⟨⟨g6, c6⟩, cs6⟩
          have hcs6 : s6.cs = tb := by rw [cs6, cs5]
          refine Sat.bind (bpText_sat hname.run ?_)
          refine Sat.bind (Sat.get ?_)
          try simp -zeta only
          extract_lets +onlyGivenNames -underBinder cs
          apply Sat.bind
          apply Sat.mono (Q := fun r s' => GE Pv' ts e s' ∧ s'.cur = s3.cur ∧ TimerQ tb body r)
          · split
            · rename_i qt hqt
              refine Sat.bind (Sat.mono (parseQuantity_fc hup' hw (hq qt hqt) g6 hcs6) ?_)
              rintro q s7 ⟨g7, c7, hqr⟩
              have hQ : TimerQ tb body (some q.quantity) := by
                intro qt' hqt' t ht hc
                rw [hqt] at hqt'; cases hqt'
                exact ⟨_, rfl, hqr t ht hc⟩
              dsimp only
              split
              · refine Sat.bind (Sat.perrE ?_)
                exact Sat.pure ⟨g7.pushUp hup' _, (by show s7.cur = s3.cur; omega), hQ⟩
              · exact Sat.pure ⟨g7, by omega, hQ⟩
            · rename_i hnone
              refine Sat.pure ⟨g6, by omega, ?_⟩
              intro qt' hqt'
              rw [hnone] at hqt'; cases hqt'
          rintro quantity s7 ⟨g7, c7, hqo⟩
          refine Sat.bind (hasExt_sat g7.g ?_)
          try simp -zeta only
          extract_lets +onlyGivenNames -underBinder jp3
          have hjp3 : ∀ (r : Unit) (qo : Option (Loc (PQuantity α))) (s8 : BP α), GE Pv' ts e s8 →
              s8.cur = s3.cur → TimerQ tb body qo → Sat (jp3 r qo) s8
              (fun r s' => GE Pv' ts e s' ∧ CompGood tb ts s.cur r s') := by
            intro r qo s8 g8 c8 hqo8
            simp -zeta only [jp3]
            try simp -zeta only
            extract_lets +onlyGivenNames -underBinder nameO jp4
            have hnO : ∀ t ∈ body.name, CoreTok tb t → OptHolds nameO (tokBodyStart t) t.stop := by
              intro t ht hc
              have hne : (buildText (offAt ts s2.cur) body.name).isTextEmpty cs = false := by
                simp only [cs]; rw [hcs6]; exact frag_run_not_empty ht hc
              simp only [nameO, hne]
              exact ⟨_, rfl, frag_run hname.run ht (hc.hasBody hname.run.2 ht)⟩
            have hjp4 : ∀ (r : Unit) (qo : Option (Loc (PQuantity α))) (s9 : BP α), GE Pv' ts e s9 →
                s9.cur = s3.cur → TimerQ tb body qo → Sat (jp4 r qo) s9
                (fun r s' => GE Pv' ts e s' ∧ CompGood tb ts s.cur r s') := by
              intro r qo s9 g9 c9 hqo9
              simp -zeta only [jp4]
              refine Sat.pure ⟨g9, ?_⟩
              intro ev hev i t a b ht hc
              simp only [Option.some.injEq] at hev; subst hev
              have hb : i < s9.cur := b
              by_cases a1 : i < s1.cur
              · have : i = s.cur := by omega
                subst this; rw [hm] at ht; cases ht; exact absurd hmk (hc.kindNe (by decide))
              by_cases a2 : i < s2.cur
              · have hmm : t ∈ mtoks := by rw [hmt]; exact cover_mem_slice (by omega) a2 ht
                rcases hme with h0 | h0
                · rw [h0] at hmm; cases hmm
                · exact Or.inl (h0 _ g9.evs)
              by_cases a3 : i < cn
              · have hmn : t ∈ body.name := by rw [hbn]; exact cover_mem_slice (by omega) a3 ht
                exact Or.inr (Or.inl (hnO t hmn hc))
              · obtain ⟨qt, hqt, hmq⟩ := hbq i t (by omega) (by omega) ht hc
                obtain ⟨lq, hlq, hh⟩ := hqo9 qt hqt t hmq hc
                exact Or.inr (Or.inr ⟨lq, hlq, hh⟩)
            clear_value jp4 nameO
            split
            · rename_i hcond
              dsimp only
              refine Sat.bind (Sat.perrE ?_)
              refine hjp4 _ _ _ (g8.pushUp hup' _) c8 (hqo8.ofNone ?_ _)
              simp only [Bool.and_eq_true] at hcond
              exact hcond.2
            · exact hjp4 _ _ _ g8 c8 hqo8
          clear_value jp3
          split
          · rename_i hcond
            dsimp only
            refine Sat.bind (Sat.perrE ?_)
            refine hjp3 _ _ _ (g7.pushUp hup' _) c7 (hqo.ofNone ?_ _)
            simp only [Bool.and_eq_true] at hcond
            exact hcond.1
          · exact hjp3 _ _ _ g7 c7 hqo
        clear_value jp2
        split
        · split
          · refine Sat.bind (Sat.perrE ?_)
            exact hjp2 _ _ (g4.pushUp hup' _) c4 cs4
          · exact hjp2 _ _ g4 c4 cs4
        · exact hjp2 _ _ g4 c4 cs4
      clear_value jp1
      split
      · refine Sat.bind (Sat.perrE ?_)
        refine Sat.mono (hjp1 _ hup.andErr (Or.inr (fun _ h => h.2)) _ _ (g3.pushErr hup _) rfl hcs3) ?_
        rintro r s' ⟨g, good⟩
        exact ⟨⟨g.g, g.evs.1⟩, good⟩
      · rename_i hemp
        have h0 : mtoks = [] := by simpa using hemp
        exact hjp1 Pv hup (Or.inl h0) _ _ g3 rfl hcs3

end Cook
