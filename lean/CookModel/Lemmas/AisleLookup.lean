import CookModel.Side.AisleSpec
/-
  `ingredients_info`: with pairwise different names every name is found with its category
  and the first name of its line; other names are not found.
-/
namespace Cook.Aisle

theorem find_of_nodup_keys {V : Type} (l : List (List Char × V)) (k : List Char) (v : V)
    (hnd : (l.map (·.1)).Nodup) (hm : (k, v) ∈ l) : l.find? (fun e => e.1 == k) = some (k, v) := by
  induction l with
  | nil => simp at hm
  | cons e t ih =>
    simp only [List.map_cons, List.nodup_cons] at hnd
    by_cases he : e.1 = k
    · rcases List.mem_cons.1 hm with h | h
      · subst h; simp
      · exfalso; apply hnd.1; rw [he]
        exact List.mem_map.2 ⟨(k, v), h, rfl⟩
    · rcases List.mem_cons.1 hm with h | h
      · subst h; exact absurd rfl he
      · rw [List.find?_cons_of_neg (by simpa using he)]
        exact ih hnd.2 h

theorem igrEntries_keys (cat : List Char) (i : Ingredient) : (igrEntries cat i).map (·.1) = i.names := by
  unfold igrEntries
  split
  · rename_i h; rw [h]; rfl
  · simp [Function.comp_def]

theorem infoEntries_keys (c : Conf) : (infoEntries c).map (·.1) = allNames c.categories := by
  unfold infoEntries allNames
  generalize c.categories = cs
  induction cs with
  | nil => rfl
  | cons cat cs ih =>
    simp only [List.flatMap_cons, List.map_append, ih]
    congr 1
    generalize cat.ingredients = is
    induction is with
    | nil => rfl
    | cons i is ih2 => simp only [List.flatMap_cons, List.map_append, ih2, igrEntries_keys]

theorem mem_infoEntries (c : Conf) (cat : Category) (i : Ingredient) (n common : List Char)
    (hc : cat ∈ c.categories) (hi : i ∈ cat.ingredients) (hn : n ∈ i.names) (hh : i.names.head? = some common) :
    (n, (⟨n, common, cat.name⟩ : Info)) ∈ infoEntries c := by
  unfold infoEntries
  refine List.mem_flatMap.2 ⟨cat, hc, List.mem_flatMap.2 ⟨i, hi, ?_⟩⟩
  unfold igrEntries
  split
  · rename_i h; rw [h] at hn; simp at hn
  · rename_i c0 rest h
    rw [h] at hh; simp at hh; subst hh
    exact List.mem_map.2 ⟨n, hn, rfl⟩

theorem lookup_found (c : Conf) (hnd : (allNames c.categories).Nodup) (cat : Category) (i : Ingredient)
    (n common : List Char) (hc : cat ∈ c.categories) (hi : i ∈ cat.ingredients) (hn : n ∈ i.names)
    (hh : i.names.head? = some common) : lookup c n = some ⟨n, common, cat.name⟩ := by
  unfold lookup
  have hm := mem_infoEntries c cat i n common hc hi hn hh
  have hk : ((infoEntries c).reverse.map (·.1)).Nodup := by
    rw [List.map_reverse, infoEntries_keys]
    exact (List.reverse_perm _).nodup_iff.2 hnd
  rw [find_of_nodup_keys _ n _ hk (List.mem_reverse.2 hm)]
  rfl

theorem lookup_absent (c : Conf) (n : List Char) (h : n ∉ allNames c.categories) : lookup c n = none := by
  unfold lookup
  have : (infoEntries c).reverse.find? (fun e => e.1 == n) = none := by
    rw [List.find?_eq_none]
    intro e he hen
    apply h
    rw [← infoEntries_keys]
    exact List.mem_map.2 ⟨e, List.mem_reverse.1 he, by simpa using hen⟩
  rw [this]; rfl

end Cook.Aisle
