import CookModel.Lemmas.ClosingKeeps
import CookModel.Lemmas.ClosingFold
/-
  What the pull parser's event streams look like:
  * every event is `EvOK'` (`pullEvents_evOK'`): `closing_parseModifiersLoop_keeps` (intermediate
    data is only set at an `&` token, whose REF flag is inserted or was already there; its value is a
    parsed natural number) and `closing_timerP_keeps` (the timer parser recovers a quantity when name
    and quantity are both missing);
  * the stream is `WellBracketed` (`pullEvents_wellBracketed`): a block contributes diagnostics and
    then one metadata/section event, or nothing, or `start k`, content, `stop k`, with only text
    inside a text block;
  * the metadata-only parser emits front matter, metadata and diagnostics only.
  Everything else is the frame property of `Lemmas/ClosingKeeps.lean` (events are only appended).
-/
set_option linter.unusedSectionVars false
set_option linter.unusedVariables false
set_option linter.unusedSimpArgs false
namespace Cook

variable {α : Type} [Arith α] {I : Array (Ev α) → Prop} [DiagStable I]

/-! ### modifiers: intermediate data only together with REF -/

theorem closing_insert_contains (m : Modifiers) (f : Nat) : (m.insert f).contains f = true := by
  simp only [Modifiers.contains, Modifiers.insert, beq_iff_eq]
  apply Nat.eq_of_testBit_eq
  intro i
  simp only [Nat.testBit_and, Nat.testBit_or]
  cases m.bits.testBit i <;> cases f.testBit i <;> rfl

theorem closing_insert_mono (m : Modifiers) (f g : Nat) (h : m.contains g = true) :
    (m.insert f).contains g = true := by
  simp only [Modifiers.contains, Modifiers.insert, beq_iff_eq] at h ⊢
  apply Nat.eq_of_testBit_eq
  intro i
  have hi := congrArg (fun n => n.testBit i) h
  simp only [Nat.testBit_and, Nat.testBit_or] at hi ⊢
  revert hi
  cases m.bits.testBit i <;> cases f.testBit i <;> cases g.testBit i <;> simp

theorem closing_modifierFlag_and : modifierFlag .and = some Modifiers.REF := by decide

/-- `parse_intermediate_ref_data`: the value is a parsed natural number -/
theorem closing_parseInterRef_keeps (toks : List Tok) :
    Keeps I (parseInterRef (α := α) toks) (fun r => ∀ d, r.1 = some d → 0 ≤ d.val.val) := by
  unfold parseInterRef
  keeps
  all_goals (
    refine Keeps.pure ?_
    intro d hd
    first
      | (cases hd; done)
      | (simp only [Option.some.injEq] at hd; subst hd; exact Int.natCast_nonneg _))

/-- what `parse_modifiers` guarantees about the intermediate data: only together with REF, and
    non-negative -/
def ClosingInterOK (m : Modifiers) (d : Option (Loc InterData)) : Prop :=
  (d.isSome = true → m.contains Modifiers.REF = true) ∧ ∀ x, d = some x → 0 ≤ x.val.val

theorem ClosingInterOK.none (m : Modifiers) : ClosingInterOK m Option.none :=
  ⟨fun h => (by cases h), fun x h => (by cases h)⟩

/-- `parse_modifiers`' loop: the intermediate data is only (re)assigned at an `&` token, whose flag REF
    is then inserted — or, in the duplicate-modifier branch, already there -/
theorem closing_parseModifiersLoop_keeps (span : Span) (ie : Bool) (fuel : Nat) (mtoks : List Tok)
    (m : Modifiers) (d : Option (Loc InterData)) (hd : ClosingInterOK m d) :
    Keeps I (parseModifiersLoop (α := α) span ie fuel mtoks m d) (fun r => ClosingInterOK r.1 r.2) := by
  induction fuel generalizing mtoks m d with
  | zero => unfold parseModifiersLoop; exact Keeps.pure hd
  | succ fuel ih =>
    cases mtoks with
    | nil => unfold parseModifiersLoop; exact Keeps.pure hd
    | cons tok rest =>
      unfold parseModifiersLoop
      dsimp only
      apply Keeps.bind (R := fun flag => modifierFlag tok.kind = some flag ∨ modifierFlag tok.kind = none)
      · split
        · rename_i f hf; exact Keeps.pure (Or.inl hf)
        · rename_i hf
          exact Keeps.bind (Keeps.panicWith _) (fun _ _ => Keeps.pure (Or.inr hf))
      intro flag hflag
      -- the rest of the loop, whatever remains after the optional reference
      have tail : ∀ (rest' : List Tok) (d' : Option (Loc InterData)),
          (d'.isSome = true → m.contains Modifiers.REF = true ∨ flag = Modifiers.REF) →
          (∀ x, d' = some x → 0 ≤ x.val.val) →
          Keeps I (if (decide (flag ≠ 0) && m.contains flag) = true then do
                perr "duplicate-modifier" [span]
                parseModifiersLoop (α := α) span ie fuel rest' m d'
              else parseModifiersLoop span ie fuel rest' (m.insert flag) d')
            (fun r => ClosingInterOK r.1 r.2) := by
        intro rest' d' hd' hnn
        split
        · rename_i hc
          simp only [Bool.and_eq_true] at hc
          refine Keeps.bind (Keeps.perr _ _) (fun _ _ => ih rest' m d' ⟨?_, hnn⟩)
          intro hs
          rcases hd' hs with h1 | h1
          · exact h1
          · rw [← h1]; exact hc.2
        · refine ih rest' (m.insert flag) d' ⟨?_, hnn⟩
          intro hs
          rcases hd' hs with h1 | h1
          · exact closing_insert_mono m flag _ h1
          · rw [← h1]; exact closing_insert_contains m flag
      split
      · rename_i hc
        simp only [Bool.and_eq_true, beq_iff_eq] at hc
        have hf : flag = Modifiers.REF := by
          rw [hc.1, closing_modifierFlag_and] at hflag
          rcases hflag with h1 | h1
          · exact (Option.some.inj h1).symm
          · cases h1
        refine Keeps.bind (closing_parseInterRef_keeps rest) (fun r hr => ?_)
        exact tail r.2 r.1 (fun _ => Or.inr hf) hr
      · exact tail rest d (fun hs => Or.inl (hd.1 hs)) hd.2

theorem closing_parseModifiers_keeps (mtoks : List Tok) (pos : Nat) :
    Keeps I (parseModifiers (α := α) mtoks pos) (fun r => ClosingInterOK r.flags.val r.inter) := by
  unfold parseModifiers
  split
  · exact Keeps.pure (ClosingInterOK.none _)
  dsimp only
  refine Keeps.bind (hasExt_keeps _) (fun ie _ => ?_)
  refine Keeps.bind (closing_parseModifiersLoop_keeps _ _ _ _ _ _ (ClosingInterOK.none _)) (fun r hr => ?_)
  exact Keeps.pure hr

macro_rules | `(tactic| keeps_leaf) => `(tactic| with_reducible exact closing_parseModifiers_keeps ..)

/-! ### the three components -/

/-- a component parser result: the event, if any, is an `EvOK'` component event -/
def RComp (r : Option (Ev α)) : Prop := ∀ ev, r = some ev → EvOK' ev ∧ (evSpan ev).isSome = true

theorem RComp.none : RComp (α := α) Option.none := fun ev h => by cases h
theorem RComp.some {ev : Ev α} (h : EvOK' ev) (hc : (evSpan ev).isSome = true) : RComp (Option.some ev) :=
  fun ev' h' => by cases h'; exact ⟨h, hc⟩

macro_rules | `(tactic| keeps_leaf) => `(tactic| ((with_reducible refine Keeps.pure ?_) <;> exact RComp.none))

/-- `ingredient`: the event carries intermediate data only together with REF -/
theorem closing_ingredientP_keeps : Keeps I (ingredientP (α := α)) RComp := by
  unfold ingredientP
  keeps
  rename_i hpm _ _
  exact Keeps.pure (RComp.some ⟨hpm.1, hpm.2⟩ rfl)

theorem closing_cookwareP_keeps : Keeps I (cookwareP (α := α)) RComp := by
  unfold cookwareP
  keeps
  all_goals exact Keeps.pure (RComp.some trivial rfl)

/-- `timer`: the event has a name or a quantity (a quantity is recovered when both are missing) -/
theorem closing_timerP_keeps : Keeps I (timerP (α := α)) RComp := by
  unfold timerP
  keeps
  all_goals (refine Keeps.pure (RComp.some ?_ rfl); simp only [EvOK']; simp_all [Option.isSome_iff_ne_none])

macro_rules | `(tactic| keeps_leaf) => `(tactic| with_reducible exact closing_ingredientP_keeps)
macro_rules | `(tactic| keeps_leaf) => `(tactic| with_reducible exact closing_cookwareP_keeps)
macro_rules | `(tactic| keeps_leaf) => `(tactic| with_reducible exact closing_timerP_keeps)

end Cook
