import CookModel.Lemmas.ClosingKeeps
/-
  The events the pull parser emits satisfy `EvOK`: the two facts with content are
  `closing_parseModifiersLoop_keeps` (intermediate data is only set at an `&` token, whose REF flag
  is inserted or was already there) and `closing_timerP_keeps` (the timer parser recovers a
  quantity when name and quantity are both missing); everything else is the frame property of
  `Lemmas/ClosingKeeps.lean` (events are only appended).
-/
set_option linter.unusedSectionVars false
set_option linter.unusedVariables false
set_option linter.unusedSimpArgs false
namespace Cook

variable {α : Type} [Arith α]

/-! ### modifiers: intermediate data only together with REF -/

theorem closing_insert_contains (m : Modifiers) (f : Nat) : (m.insert f).contains f = true := by
  simp only [Modifiers.contains, Modifiers.insert, beq_iff_eq]
  apply Nat.eq_of_testBit_eq
  intro i
  simp only [Nat.testBit_and, Nat.testBit_or]
  cases m.bits.testBit i <;> cases f.testBit i <;> rfl

theorem closing_insert_mono (m : Modifiers) (f g : Nat) (h : m.contains g = true) :
    (m.insert f).contains g = true := by
  simp only [Modifiers.contains, Modifiers.insert, beq_iff_eq] at h ⊢
  apply Nat.eq_of_testBit_eq
  intro i
  have hi := congrArg (fun n => n.testBit i) h
  simp only [Nat.testBit_and, Nat.testBit_or] at hi ⊢
  revert hi
  cases m.bits.testBit i <;> cases f.testBit i <;> cases g.testBit i <;> simp

theorem closing_modifierFlag_and : modifierFlag .and = some Modifiers.REF := by decide

/-- `parse_modifiers`' loop: the intermediate data is only (re)assigned at an `&` token, whose flag REF
    is then inserted — or, in the duplicate-modifier branch, already there -/
theorem closing_parseModifiersLoop_keeps (span : Span) (ie : Bool) (fuel : Nat) (mtoks : List Tok)
    (m : Modifiers) (d : Option (Loc InterData)) (hd : d.isSome = true → m.contains Modifiers.REF = true) :
    Keeps (parseModifiersLoop (α := α) span ie fuel mtoks m d)
      (fun r => r.2.isSome = true → r.1.contains Modifiers.REF = true) := by
  induction fuel generalizing mtoks m d with
  | zero => unfold parseModifiersLoop; exact Keeps.pure hd
  | succ fuel ih =>
    cases mtoks with
    | nil => unfold parseModifiersLoop; exact Keeps.pure hd
    | cons tok rest =>
      unfold parseModifiersLoop
      dsimp only
      apply Keeps.bind (R := fun flag => modifierFlag tok.kind = some flag ∨ modifierFlag tok.kind = none)
      · split
        · rename_i f hf; exact Keeps.pure (Or.inl hf)
        · rename_i hf
          exact Keeps.bind (Keeps.panicWith _) (fun _ _ => Keeps.pure (Or.inr hf))
      intro flag hflag
      -- the rest of the loop, whatever remains after the optional reference
      have tail : ∀ (rest' : List Tok) (d' : Option (Loc InterData)),
          (d'.isSome = true → m.contains Modifiers.REF = true ∨ flag = Modifiers.REF) →
          Keeps (if (decide (flag ≠ 0) && m.contains flag) = true then do
                perr "duplicate-modifier" [span]
                parseModifiersLoop (α := α) span ie fuel rest' m d'
              else parseModifiersLoop span ie fuel rest' (m.insert flag) d')
            (fun r => r.2.isSome = true → r.1.contains Modifiers.REF = true) := by
        intro rest' d' hd'
        split
        · rename_i hc
          simp only [Bool.and_eq_true] at hc
          refine Keeps.bind (Keeps.perr _ _) (fun _ _ => ih rest' m d' ?_)
          intro hs
          rcases hd' hs with h1 | h1
          · exact h1
          · rw [← h1]; exact hc.2
        · refine ih rest' (m.insert flag) d' ?_
          intro hs
          rcases hd' hs with h1 | h1
          · exact closing_insert_mono m flag _ h1
          · rw [← h1]; exact closing_insert_contains m flag
      split
      · rename_i hc
        simp only [Bool.and_eq_true, beq_iff_eq] at hc
        have hf : flag = Modifiers.REF := by
          rw [hc.1, closing_modifierFlag_and] at hflag
          rcases hflag with h1 | h1
          · exact (Option.some.inj h1).symm
          · cases h1
        refine Keeps.bind (parseInterRef_keeps rest) (fun r _ => ?_)
        exact tail r.2 r.1 (fun _ => Or.inr hf)
      · exact tail rest d (fun hs => Or.inl (hd hs))

theorem closing_parseModifiers_keeps (mtoks : List Tok) (pos : Nat) :
    Keeps (parseModifiers (α := α) mtoks pos)
      (fun r => r.inter.isSome = true → r.flags.val.contains Modifiers.REF = true) := by
  unfold parseModifiers
  split
  · exact Keeps.pure (fun h => by cases h)
  dsimp only
  refine Keeps.bind (hasExt_keeps _) (fun ie _ => ?_)
  refine Keeps.bind (closing_parseModifiersLoop_keeps _ _ _ _ _ _ (fun h => by cases h)) (fun r hr => ?_)
  exact Keeps.pure hr

macro_rules | `(tactic| keeps_leaf) => `(tactic| with_reducible exact closing_parseModifiers_keeps ..)

/-- `ingredient`: the event carries intermediate data only together with REF -/
theorem closing_ingredientP_keeps : Keeps (ingredientP (α := α)) ROK := by
  unfold ingredientP
  keeps
  rename_i hpm _ _
  exact Keeps.pure (ROK.some hpm)

theorem closing_cookwareP_keeps : Keeps (cookwareP (α := α)) ROK := by
  unfold cookwareP
  keeps

/-- `timer`: the event has a name or a quantity (a quantity is recovered when both are missing) -/
theorem closing_timerP_keeps : Keeps (timerP (α := α)) ROK := by
  unfold timerP
  keeps
  all_goals (refine Keeps.pure (ROK.some ?_); simp only [EvOK]; simp_all [Option.isSome_iff_ne_none])

/-! ### steps, blocks, the pull parser -/

macro_rules | `(tactic| keeps_leaf) => `(tactic| with_reducible exact closing_ingredientP_keeps)
macro_rules | `(tactic| keeps_leaf) => `(tactic| with_reducible exact closing_cookwareP_keeps)
macro_rules | `(tactic| keeps_leaf) => `(tactic| with_reducible exact closing_timerP_keeps)

theorem closing_stepOne_keeps : Keeps (stepOne (α := α)) (fun _ => True) := by
  unfold stepOne
  apply Keeps.bind (R := ROK)
  · keeps
  · intro comp hc
    split
    · rename_i ev
      exact Keeps.pushEv (hc ev rfl)
    · keeps
macro_rules | `(tactic| keeps_leaf) => `(tactic| with_reducible exact closing_stepOne_keeps)

theorem closing_stepLoop_keeps (fuel : Nat) : Keeps (stepLoop (α := α) fuel) (fun _ => True) := by
  induction fuel with
  | zero => unfold stepLoop; keeps
  | succ fuel ih => unfold stepLoop; keeps
macro_rules | `(tactic| keeps_leaf) => `(tactic| with_reducible exact closing_stepLoop_keeps ..)

theorem closing_parseStep_keeps : Keeps (parseStep (α := α)) (fun _ => True) := by
  unfold parseStep; keeps
macro_rules | `(tactic| keeps_leaf) => `(tactic| with_reducible exact closing_parseStep_keeps)

theorem closing_textBlockLoop_keeps (fuel : Nat) : Keeps (textBlockLoop (α := α) fuel) (fun _ => True) := by
  induction fuel with
  | zero => unfold textBlockLoop; keeps
  | succ fuel ih => unfold textBlockLoop; keeps
macro_rules | `(tactic| keeps_leaf) => `(tactic| with_reducible exact closing_textBlockLoop_keeps ..)

theorem closing_parseTextBlock_keeps : Keeps (parseTextBlock (α := α)) (fun _ => True) := by
  unfold parseTextBlock; keeps
macro_rules | `(tactic| keeps_leaf) => `(tactic| with_reducible exact closing_parseTextBlock_keeps)

theorem closing_sectionP_keeps : Keeps (sectionP (α := α)) ROK := by
  unfold sectionP; keeps
macro_rules | `(tactic| keeps_leaf) => `(tactic| with_reducible exact closing_sectionP_keeps)

theorem closing_metadataEntry_keeps : Keeps (metadataEntry (α := α)) ROK := by
  unfold metadataEntry; keeps
macro_rules | `(tactic| keeps_leaf) => `(tactic| with_reducible exact closing_metadataEntry_keeps)

theorem closing_parseMultilineBlock_keeps : Keeps (parseMultilineBlock (α := α)) (fun _ => True) := by
  unfold parseMultilineBlock; keeps
macro_rules | `(tactic| keeps_leaf) => `(tactic| with_reducible exact closing_parseMultilineBlock_keeps)

theorem closing_parseBlock_keeps (oldStyle : Bool) : Keeps (parseBlock (α := α) oldStyle) (fun _ => True) := by
  unfold parseBlock
  apply Keeps.bind (R := ROK)
  · keeps
  · intro r hr
    split
    · rename_i ev
      exact Keeps.pushEv (hr ev rfl)
    · keeps


/-- one block: the queue stays all-`EvOK` -/
theorem closing_runBlock_allOK (cs : CharSpec) (ext : Ext) (oldStyle : Bool) (b : List Tok)
    (evs : Array (Ev α)) (panic : Option String) (h : AllOK evs) :
    AllOK (runBlock cs ext oldStyle b evs panic).1 := by
  have key : Keeps (do
      if b.isEmpty then panicWith "BlockParser::new: empty tokens"
      parseBlock (α := α) oldStyle
      let s ← get
      if s.cur ≠ s.toks.length then panicWith "Block tokens not parsed") (fun _ => True) := by
    have := closing_parseBlock_keeps (α := α) oldStyle
    keeps
  exact (key.run ⟨b, 0, ext, cs, evs, panic⟩ h).1

theorem closing_foldl_runBlock_allOK (cs : CharSpec) (ext : Ext) (oldStyle : Bool) (blocks : List (List Tok))
    (acc : Array (Ev α) × Option String) (h : AllOK acc.1) :
    AllOK (blocks.foldl (fun acc b => runBlock (α := α) cs ext oldStyle b acc.1 acc.2) acc).1 := by
  induction blocks generalizing acc with
  | nil => exact h
  | cons b bs ih =>
    rw [List.foldl_cons]
    exact ih _ (closing_runBlock_allOK cs ext oldStyle b acc.1 acc.2 h)

/-- **every event of the pull parser is `EvOK`**: an ingredient event with intermediate data carries
    REF, a timer event has a name or a quantity -/
theorem pullEvents_evOK (cs : CharSpec) (ext : Ext) (input : List Char) :
    ∀ ev ∈ (pullEvents (α := α) cs ext input).1.toList, EvOK ev := by
  unfold pullEvents
  split
  rename_i toks evs0 oldStyle heq
  apply closing_foldl_runBlock_allOK
  split at heq
  · simp only [Prod.mk.injEq] at heq
    rw [← heq.2.1]
    intro ev hev
    simp only [List.mem_singleton] at hev
    subst hev; trivial
  · simp only [Prod.mk.injEq] at heq
    rw [← heq.2.1]
    intro ev hev
    simp at hev

end Cook
