import CookModel.Lemmas.DiagEmptyValueMore
/-
  C07 placement, quantity-level facts needed by the instances (`c07p_` prefix):
  * `value % unit` read quietly, now also returning the separator (for the label of `cookware-unit`);
    the proofs are those of `parseRegularQuantity_at` / `parseQuantity_quiet_pct` (Lemmas/DiagQuiet.lean);
  * a bare value `{1/0}` whose number reader returns an error: `parse_quantity` pushes exactly that error
    (the proof is that of `parseQuantity_quiet_num` with the error pushed by `parse_value`).
-/
set_option linter.unusedSectionVars false
set_option linter.unusedSimpArgs false
set_option linter.unusedVariables false
namespace Cook

variable {α : Type} [Arith α]

theorem c07p_parseRegularQuantity_at_sep {s0 s : BP α} (vt ut : List Tok) (pct t0 : Tok)
    (h : At (vt ++ pct :: ut) 0 s0 s) (h0 : vt.head? = some t0) (hws : isWsComment t0.kind = false)
    (heq : t0.kind ≠ .eq) (hvp : ∀ t ∈ vt, t.kind ≠ .percent) (hp : pct.kind = .percent)
    (hval : (∃ v, numOrRange (α := α) (s0.ext.has Gen.EXT_RANGE_VALUES) vt = some (.ok v)) ∨
      (numOrRange (α := α) (s0.ext.has Gen.EXT_RANGE_VALUES) vt = none ∧
        (buildText t0.start vt).isTextEmpty s0.cs = false))
    (hunit : (buildText pct.stop ut).isTextEmpty s0.cs = false) :
    Sat (parseRegularQuantity (α := α)) s (fun r s' => Same s0 s' ∧
      r.quantity.val.unit = some (buildText pct.stop ut) ∧ r.unitSep = some ⟨pct.start, pct.stop⟩) := by
  obtain ⟨vr, rfl⟩ : ∃ vr, vt = t0 :: vr := by
    cases vt with
    | nil => cases h0
    | cons a r => simp only [List.head?_cons, Option.some.injEq] at h0; subst h0; exact ⟨r, rfl⟩
  unfold parseRegularQuantity qvalue scalingLock wsComments
  -- leading blanks: none
  refine Sat.bind (Sat.bind (Sat.bind (Sat.mono (consumeWhile_at isWsComment h [] (t0 :: vr ++ pct :: ut) rfl
    (by intro t ht; cases ht) (by intro b hb; simp at hb; subst hb; exact hws)) ?_)))
  rintro _ s1 ⟨-, h1⟩
  simp only [List.length_nil, Nat.add_zero] at h1
  -- no `=`
  refine Sat.bind (Sat.atK ?_)
  have hk : ((s1.toks[s1.cur]?).map (·.kind) == some TK.eq) = false := by
    rw [h1.1, h1.2.1]
    simp only [List.cons_append, List.getElem?_cons_zero, Option.map_some]
    simpa using heq
  rw [hk]
  simp only [Bool.false_eq_true, if_false]
  refine Sat.pure ?_
  -- the value tokens
  refine Sat.bind (Sat.mono (consumeWhile_at (fun k => k != .percent) h1 (t0 :: vr) (pct :: ut) (by simp)
    (by intro t ht; simpa using hvp t ht) (by intro b hb; simp at hb; subst hb; simp [hp])) ?_)
  rintro _ s2 ⟨rfl, h2⟩
  refine Sat.bind (Sat.mono (parseValue_at h2 (t0 :: vr) t0 rfl hval) ?_)
  rintro v s3 h3
  refine Sat.pure ?_
  -- the unit
  apply Sat.bind
  apply Sat.mono (Q := fun (u : Option (Span × Text)) s' => Same s0 s' ∧
    u = some (⟨pct.start, pct.stop⟩, buildText pct.stop ut))
  · refine Sat.bind (Sat.peekK ?_)
    have hpk : (s3.toks[s3.cur]?).map (·.kind) = some TK.percent := by
      rw [h3.1, h3.2.1]
      simp only [Nat.zero_add]
      rw [getElem?_mid]
      simp [hp]
    rw [hpk]
    dsimp only
    have hb : (bumpAny : P α Tok) s3 = (pct, { s3 with cur := s3.cur + 1 }) := by
      have ht : s3.toks[s3.cur]? = some pct := by
        rw [h3.1, h3.2.1]; simp only [Nat.zero_add]; exact getElem?_mid _ _ _
      unfold bumpAny
      simp only [bind, StateT.bind, nextToken_run, ht]
      rfl
    refine Sat.bind (Sat.of_eq hb ?_)
    have hut : s3.toks.drop (s3.cur + 1) = ut := by
      rw [h3.1, h3.2.1]
      simp only [Nat.zero_add]
      rw [List.drop_append]
      simp
    have hcr : (consumeRest : P α (List Tok)) ({ s3 with cur := s3.cur + 1 } : BP α) =
        (ut, { s3 with cur := s3.cur + 1 + ut.length }) := by
      have e : (consumeRest : P α (List Tok)) ({ s3 with cur := s3.cur + 1 } : BP α) =
        (s3.toks.drop (s3.cur + 1), { s3 with cur := s3.cur + 1 + (s3.toks.drop (s3.cur + 1)).length }) := rfl
      rw [e, hut]
    refine Sat.bind (Sat.of_eq hcr ?_)
    have h5 : At (t0 :: vr ++ pct :: ut) (s3.cur + 1 + ut.length) s0
        ({ s3 with cur := s3.cur + 1 + ut.length } : BP α) := ⟨h3.1, rfl, h3.2.2⟩
    refine Sat.bind (Sat.mono (bpText_at pct.stop ut h5) ?_)
    rintro _ s6 ⟨rfl, h6⟩
    exact Sat.pure ⟨h6.2.2, rfl⟩
  · rintro unit s7 ⟨q7, rfl⟩
    refine Sat.bind (Sat.get ?_)
    dsimp only
    rw [q7.1, hunit]
    simp only [Bool.false_eq_true, if_false]
    refine Sat.bind (Sat.get ?_)
    refine Sat.bind (Sat.mono ((FQ.tokensSpanP _ _).sat s7) ?_)
    rintro sp s8 q8
    exact Sat.pure ⟨q7.trans q8, rfl, rfl⟩


theorem c07p_parseQuantity_pct_sep (vt ut : List Tok) (pct t0 : Tok) (s : BP α)
    (h0 : vt.head? = some t0) (hws : isWsComment t0.kind = false)
    (heq : t0.kind ≠ .eq) (hvp : ∀ t ∈ vt, t.kind ≠ .percent) (hp : pct.kind = .percent)
    (hval : (∃ v, numOrRange (α := α) (s.ext.has Gen.EXT_RANGE_VALUES) vt = some (.ok v)) ∨
      (numOrRange (α := α) (s.ext.has Gen.EXT_RANGE_VALUES) vt = none ∧
        (buildText t0.start vt).isTextEmpty s.cs = false))
    (hunit : (buildText pct.stop ut).isTextEmpty s.cs = false) :
    Sat (parseQuantity (α := α) (vt ++ pct :: ut)) s (fun r s' => Same s s' ∧
      r.quantity.val.unit = some (buildText pct.stop ut) ∧ r.unitSep = some ⟨pct.start, pct.stop⟩) := by
  unfold parseQuantity
  have hne : (vt ++ pct :: ut).isEmpty = false := by cases vt <;> rfl
  simp only [hne, Bool.false_eq_true, if_false]
  refine Sat.bind (Sat.get ?_)
  refine Sat.bind (Sat.set ?_)
  have hat : At (vt ++ pct :: ut) 0 s ({ s with toks := vt ++ pct :: ut, cur := 0 } : BP α) :=
    by unfold At Same; exact ⟨rfl, rfl, rfl, rfl, rfl⟩
  apply Sat.bind
  apply Sat.mono (Q := fun (r : Option (ParsedQuantity α)) s' => r = none ∧ At (vt ++ pct :: ut) 0 s s')
  · refine Sat.bind (Sat.hasExt ?_)
    split
    · apply withRecover_sat
      unfold parseAdvancedQuantity
      refine Sat.bind (Sat.allToks ?_)
      have hany : (vt ++ pct :: ut).any (fun t => t.kind == .percent) = true := by
        simp [hp]
      simp only [hany, if_true]
      exact Sat.pure ⟨trivial, hat⟩
    · exact Sat.pure ⟨rfl, hat⟩
  · rintro adv s1 ⟨rfl, h1⟩
    dsimp only
    refine Sat.bind (Sat.mono (c07p_parseRegularQuantity_at_sep vt ut pct t0 h1 h0 hws heq hvp hp hval hunit) ?_)
    rintro r s2 ⟨q2, hu⟩
    refine Sat.bind (Sat.modify ?_)
    exact Sat.pure ⟨q2, hu⟩


/-- `parse_quantity` on value tokens without blank, word or `%`, not starting with `=`, whose number reader
    returns the error `d` (`1/0`, an integer above `u32::MAX`): exactly that error is pushed; no unit -/
theorem c07p_parseQuantity_err_num (t0 : Tok) (tl : List Tok) (s : BP α) (d : Diag)
    (hws : isWsComment t0.kind = false) (heq : t0.kind ≠ .eq)
    (hk : ∀ t ∈ t0 :: tl, t.kind ≠ .percent ∧ t.kind ≠ .word ∧ t.kind ≠ .ws)
    (hval : numOrRange (α := α) (s.ext.has Gen.EXT_RANGE_VALUES) (t0 :: tl) = some (.error d)) :
    Sat (parseQuantity (α := α) (t0 :: tl)) s (fun r s' => Pushed [.error d] s s' ∧ r.quantity.val.unit = none ∧
      r.unitSep = none) := by
  unfold parseQuantity
  simp only [List.isEmpty_cons, Bool.false_eq_true, if_false]
  refine Sat.bind (Sat.get ?_)
  refine Sat.bind (Sat.set ?_)
  have hat : At (t0 :: tl) 0 s ({ s with toks := t0 :: tl, cur := 0 } : BP α) := by
    unfold At Same; exact ⟨rfl, rfl, rfl, rfl, rfl⟩
  have hlast : ∃ l, (t0 :: tl).getLast? = some l ∧ l ∈ t0 :: tl := by
    cases hl : (t0 :: tl).getLast? with
    | none => simp at hl
    | some l => exact ⟨l, rfl, List.mem_of_getLast? hl⟩
  apply Sat.bind
  apply Sat.mono (Q := fun (r : Option (ParsedQuantity α)) s' => r = none ∧ At (t0 :: tl) 0 s s')
  · refine Sat.bind (Sat.hasExt ?_)
    split
    · apply withRecover_sat
      unfold parseAdvancedQuantity
      refine Sat.bind (Sat.allToks ?_)
      have hany : (t0 :: tl).any (fun t => t.kind == .percent) = false := by
        rw [List.any_eq_false]
        intro t ht
        simpa using (hk t ht).1
      simp only [hany, Bool.false_eq_true, if_false]
      refine Sat.bind (Sat.mono (scalingLock_at t0 tl rfl hat hws heq) ?_)
      rintro _ s1 ⟨-, h1⟩
      unfold wsComments
      refine Sat.bind (Sat.mono (consumeWhile_at isWsComment h1 [] (t0 :: tl) rfl
        (by intro t ht; cases ht) (by intro b hb; simp at hb; subst hb; exact hws)) ?_)
      rintro _ s2 ⟨-, h2⟩
      simp only [List.length_nil, Nat.add_zero] at h2
      refine Sat.bind (Sat.mono (consumeWhile_at (fun k => k != .word) h2 (t0 :: tl) [] (by simp)
        (by intro t ht; simpa using (hk t ht).2.1) (by intro b hb; cases hb)) ?_)
      rintro _ s3 ⟨rfl, h3⟩
      split
      · refine Sat.pure ⟨trivial, ?_⟩
        exact ⟨h3.1, rfl, h3.2.2⟩
      · rename_i l hfind
        have hlm : l ∈ t0 :: tl := by
          have := List.mem_of_find?_eq_some hfind
          exact List.mem_reverse.mp this
        have hlw : (l.kind != .ws) = true := by simpa using (hk l hlm).2.2
        simp only [hlw, if_true]
        refine Sat.pure ⟨trivial, ?_⟩
        exact ⟨h3.1, rfl, h3.2.2⟩
    · exact Sat.pure ⟨rfl, hat⟩
  · rintro adv s1 ⟨rfl, h1⟩
    dsimp only
    apply Sat.bind
    apply Sat.mono (Q := fun (r : ParsedQuantity α) s' => Pushed [.error d] s s' ∧ r.quantity.val.unit = none ∧
      r.unitSep = none)
    · unfold parseRegularQuantity qvalue
      refine Sat.bind (Sat.bind (Sat.mono (scalingLock_at t0 tl rfl h1 hws heq) ?_))
      rintro _ s2 ⟨-, h2⟩
      refine Sat.bind (Sat.mono (consumeWhile_at (fun k => k != .percent) h2 (t0 :: tl) [] (by simp)
        (by intro t ht; simpa using (hk t ht).1) (by intro b hb; cases hb)) ?_)
      rintro _ s3 ⟨rfl, h3⟩
      have hpv : (parseValue (α := α) (t0 :: tl) s3).2 = { s3 with evs := s3.evs.push (.error d) } :=
        diag_parseValue_error _ s3 d (by rw [h3.2.2.2.1]; exact hval)
      refine Sat.bind (Sat.mono (Q := fun _ s' => s' = ({ s3 with evs := s3.evs.push (.error d) } : BP α)) hpv ?_)
      rintro v s4 rfl
      refine Sat.pure ?_
      have p4 : Pushed [.error d] s ({ s3 with evs := s3.evs.push (.error d) } : BP α) :=
        (h3.2.2.pushed.trans (Pushed.one s3 _)).cast (by simp)
      apply Sat.bind
      apply Sat.mono (Q := fun (u : Option (Span × Text)) s' => Pushed [.error d] s s' ∧ u = none)
      · refine Sat.bind (Sat.peekK ?_)
        have hpk : ((({ s3 with evs := s3.evs.push (.error d) } : BP α).toks[
            ({ s3 with evs := s3.evs.push (.error d) } : BP α).cur]?).map (·.kind)) = none := by
          show (s3.toks[s3.cur]?).map (·.kind) = none
          rw [h3.1, h3.2.1]
          simp
        rw [hpk]
        exact Sat.pure ⟨p4, rfl⟩
      · rintro unit s5 ⟨q5, rfl⟩
        refine Sat.bind (Sat.get ?_)
        dsimp only
        refine Sat.bind (Sat.get ?_)
        refine Sat.bind (Sat.mono ((FQ.tokensSpanP _ _).sat s5) ?_)
        rintro sp s6 q6
        exact Sat.pure ⟨(q5.trans q6.pushed).cast (by simp), rfl, rfl⟩
    · rintro r s2 ⟨q2, hu⟩
      refine Sat.bind (Sat.modify ?_)
      exact Sat.pure ⟨q2, hu⟩

end Cook
