import CookModel.Lemmas.LooseText
import CookModel.Lemmas.RoundtripDoc
/-
  C17, wave 5 (tag `bl17`): a trailing LINE comment on a section line (`= name -- c`, `= name = -- c`)
  and on a `>>` metadata line (`>> key: value -- c`).  Blanks and block comments at the end of such a
  line are already inside the round-trip grammar (the pads `SPad.b`, `SPad.c`, `MPad.d`); the line
  comment is not (`padTok`), so the two block lemmas `rtb_runBlock_section` / `rtb_runBlock_meta` are
  redone here for the spelling `… ++ [lc]`, `lc` a line-comment token.
-/
set_option linter.unusedSectionVars false
set_option linter.unusedSimpArgs false
set_option linter.unusedVariables false
namespace Cook

variable {α : Type} [Arith α]

/-- a run with a comment token appended: the same `text()`, hence the same trimmed texts and emptiness -/
theorem bl17_snoc_comment (cs : CharSpec) (off : Nat) (xs : List Tok) (c : Tok)
    (hc : c.kind = .lineComment ∨ c.kind = .blockComment) :
    (buildText off (xs ++ [c])).trimmed cs = (buildText off xs).trimmed cs ∧
    (buildText off (xs ++ [c])).outerTrimmed cs = (buildText off xs).outerTrimmed cs ∧
    (buildText off (xs ++ [c])).isTextEmpty cs = (buildText off xs).isTextEmpty cs := by
  have hv : vis c = [] := by rcases hc with h | h <;> simp [vis, h]
  have hr : bl17Raw c = [] := by rcases hc with h | h <;> simp [bl17Raw, h]
  have ht : (buildText off (xs ++ [c])).text = (buildText off xs).text := by
    rw [buildText_text, buildText_text]; simp [hv]
  refine ⟨?_, ?_, ?_⟩
  · unfold Text.trimmed Text.outerTrimmed; rw [ht]
  · unfold Text.outerTrimmed; rw [ht]
  · rw [bl17_buildText_isTextEmpty, bl17_buildText_isTextEmpty]; simp [hr]

/-- **`section` on `=… MID [=… blanks]`**: what the parser does, for any middle run `MID` without `=`
    and any blank tail `tc` behind the closing `=`s -/
theorem bl17_sectionP_shape (s : BP α) (e0 : Tok) (er MID eq2 tc : List Tok)
    (ht : s.toks = e0 :: (er ++ (MID ++ (eq2 ++ tc)))) (hc : s.cur = 0)
    (heq : ∀ t ∈ e0 :: er, t.kind = .eq) (hmid : ∀ t ∈ MID, t.kind ≠ .eq) (heq2 : ∀ t ∈ eq2, t.kind = .eq)
    (htc : ∀ t ∈ tc, isWsComment t.kind = true) (hempty : MID = [] → eq2 = [] ∧ tc = []) (hnil : eq2 = [] → tc = [])
    (hrun : RunAt (baseOff s.toks) s.toks) :
    sectionP s = (some (.section (if (buildText (offAt s.toks ([e0].length + er.length)) MID).isTextEmpty s.cs then none
        else some (buildText (offAt s.toks ([e0].length + er.length)) MID))), { s with cur := s.toks.length }) := by
  have e1 : s.toks = [] ++ e0 :: (er ++ (MID ++ (eq2 ++ tc))) := by rw [ht]; simp
  have h1 := consumeK_split_some .eq s [] e0 _ e1 (by simpa using hc) (heq e0 (by simp))
  have h2 := consumeWhile_split (fun k => k == .eq) ({ s with cur := ([] : List Tok).length + 1 } : BP α) [e0] er
    (MID ++ (eq2 ++ tc)) (by rw [e1]; simp) (by lenarith)
    (by intro t ht'; simp [heq t (by simp [ht'])])
    (by
      intro t ht'
      cases hm : MID with
      | nil => rw [hm, (hempty hm).1, (hempty hm).2] at ht'; simp at ht'
      | cons y ys =>
        rw [hm] at ht'; simp at ht'; subst ht'
        simpa using hmid y (by rw [hm]; simp))
  have h3 := consumeWhile_split (fun k => k != .eq) ({ s with cur := [e0].length + er.length } : BP α) (e0 :: er)
    MID (eq2 ++ tc) (by rw [e1]; simp) (by lenarith)
    (by intro t ht'; simpa using hmid t ht')
    (by
      intro t ht'
      cases heq2' : eq2 with
      | nil => rw [heq2', hnil heq2'] at ht'; simp at ht'
      | cons y ys =>
        rw [heq2'] at ht'; simp at ht'; subst ht'
        simp [heq2 y (by rw [heq2']; simp)])
  have h4 := consumeWhile_split (fun k => k == .eq)
    ({ s with cur := (e0 :: er).length + MID.length } : BP α) (e0 :: er ++ MID) eq2 tc
    (by rw [e1]; simp) (by lenarith)
    (by intro t ht'; simp [heq2 t ht'])
    (by
      intro t ht'
      have := htc t (List.mem_of_mem_head? ht')
      cases hk : t.kind <;> simp [isWsComment, hk] at this ⊢)
  have h5 := consumeWhile_split isWsComment
    ({ s with cur := (e0 :: er ++ MID).length + eq2.length } : BP α)
    (e0 :: er ++ MID ++ eq2) tc [] (by rw [e1]; simp) (by lenarith)
    (by intro t ht'; exact htc t ht')
    (by intro t ht'; simp at ht')
  have hrunName : RunAt (offAt s.toks ([e0].length + er.length)) MID := by
    have := rt_runAt_mid hrun (e0 :: er) MID (eq2 ++ tc) (by rw [e1]; simp)
    have e2 : (e0 :: er).length = [e0].length + er.length := by lenarith
    rwa [e2] at this
  have hlenfin : (e0 :: er ++ MID ++ eq2).length + tc.length = s.toks.length := by
    rw [ht]; simp only [List.length_append, List.length_cons]; omega
  rw [hlenfin] at h5
  have hdrop : (s.toks.drop s.toks.length) = [] := by simp
  unfold sectionP wsComments
  simp only [bind, StateT.bind, h1, h2, currentOffset_run, h3, bpText_run hrunName, h4, h5, restToks_run, hdrop,
    List.isEmpty_nil, Bool.not_true, Bool.false_eq_true, if_false, get, getThe, MonadStateOf.get, StateT.get, pure,
    StateT.pure]

/-- **a section line with a trailing line comment** -/
theorem bl17_sectionP_lc (name : Option (List Tok)) (p : SPad) (lc : Tok) (hlc : lc.kind = .lineComment) (s : BP α)
    (hok : sectionOK s.cs name p = true)
    (ts : List Tok) (hs : Spells ts (spellSection name p ++ [lc])) (ht : s.toks = ts) (hc : s.cur = 0)
    (hrun : RunAt (baseOff ts) ts) :
    ∃ ev : Ev α, sectionP s = (some ev, { s with cur := ts.length }) ∧ SectionMatches s.cs name ev := by
  subst ht
  simp only [sectionOK, Bool.and_eq_true] at hok
  obtain ⟨hp, hname⟩ := hok
  simp only [SPad.ok, Bool.and_eq_true] at hp
  obtain ⟨⟨hpa, hpb⟩, hpc⟩ := hp
  obtain ⟨tsec, tl, hts0, hsec, htl⟩ := hs.append_inv
  obtain ⟨tlc, rfl, htlck, -⟩ := htl.single_inv
  rw [hlc] at htlck
  simp only [spellSection] at hsec
  obtain ⟨r1, tail, hts, hs1, htail⟩ := hsec.append_inv
  obtain ⟨eqs, mid, rfl, heqs, hmid⟩ := hs1.append_inv
  obtain ⟨r2, tb, rfl, hs2, htb⟩ := hmid.append_inv
  obtain ⟨ta, nm, rfl, hta, hnm⟩ := hs2.append_inv
  obtain ⟨heqlen, heqk⟩ := heqs.replicate_inv
  simp only [tk] at heqk
  obtain ⟨e0, er, rfl⟩ : ∃ e0 er, eqs = e0 :: er := by
    cases eqs with
    | nil => simp at heqlen
    | cons a b => exact ⟨a, b, rfl⟩
  -- kinds of the clean middle part
  have hmidk : ∀ t ∈ ta ++ nm ++ tb, t.kind ≠ .eq := by
    intro t ht'
    simp only [List.mem_append] at ht'
    rcases ht' with (ht' | ht') | ht'
    · exact sectionKind_not_eq (Or.inr (pad_kinds hpa hta t ht'))
    · cases hcn : name with
      | none => rw [hcn] at hnm; simp only [spellOptLeaf] at hnm; rw [hnm.nil_inv] at ht'; simp at ht'
      | some n =>
        rw [hcn] at hnm hname
        simp only [spellOptLeaf] at hnm
        rcases leaf_kinds hname hnm t ht' with h' | h'
        · exact sectionKind_not_eq (Or.inl h')
        · exact sectionKind_not_eq (Or.inr (Or.inl h'))
    · exact sectionKind_not_eq (Or.inr (pad_kinds hpb htb t ht'))
  -- the name read from the clean middle part
  have hnameR : ∀ off, (if (buildText off (ta ++ nm ++ tb)).isTextEmpty s.cs then none
        else some (buildText off (ta ++ nm ++ tb))).map (fun x => x.trimmed s.cs) = name.map leafText := by
    intro off
    cases hcn : name with
    | none =>
      rw [hcn] at hnm; simp only [spellOptLeaf] at hnm
      have := hnm.nil_inv; subst this
      have := rtt_buildText_pad_empty (cs := s.cs) off (ta ++ [] ++ tb)
        (by
          have h1 := hta.padOK_of hpa
          have h2 := htb.padOK_of hpb
          unfold padOK at *
          simp [List.all_append, h1, h2])
      rw [this]; rfl
    | some n =>
      rw [hcn] at hnm hname
      simp only [spellOptLeaf] at hnm
      have := rt_leaf_text (cs := s.cs) (allowed := sectionKind) (pre := p.a) (l := n) (post := p.b)
        (ts := ta ++ nm ++ tb) ((hta.append hnm).append htb) hpa hpb hname off
      rw [this.2]
      simp only [Bool.false_eq_true, if_false, Option.map_some, this.1]
  by_cases hn : p.n1 = 0
  · -- no closing `=`: the comment ends the name run
    simp only [hn, if_true] at htail
    have := htail.nil_inv; subst this
    have e1 : s.toks = e0 :: (er ++ ((ta ++ nm ++ tb ++ [tlc]) ++ ([] ++ []))) := by rw [hts0, hts]; simp
    have hsh := bl17_sectionP_shape s e0 er (ta ++ nm ++ tb ++ [tlc]) [] [] e1 hc heqk
      (by
        intro t ht'
        rcases List.mem_append.mp ht' with h' | h'
        · exact hmidk t h'
        · simp at h'; subst h'; rw [htlck]; decide)
      (by simp) (by simp) (by intro h0; simp at h0) (fun _ => rfl) hrun
    refine ⟨_, hsh, ?_⟩
    obtain ⟨c1, -, c3⟩ := bl17_snoc_comment s.cs (offAt s.toks ([e0].length + er.length)) (ta ++ nm ++ tb) tlc (Or.inl htlck)
    have hR := hnameR (offAt s.toks ([e0].length + er.length))
    simp only [SectionMatches]
    rw [c3]
    by_cases hem : (buildText (offAt s.toks ([e0].length + er.length)) (ta ++ nm ++ tb)).isTextEmpty s.cs = true
    · simp only [hem, if_true] at hR ⊢; exact hR
    · simp only [hem, Bool.false_eq_true, if_false, Option.map_some] at hR ⊢
      rw [c1]; exact hR
  · -- closing `=`s: the comment is behind them
    simp only [hn, if_false] at htail
    obtain ⟨eq2, tc, rfl, heq2, htc⟩ := htail.append_inv
    have heq2k : ∀ t ∈ eq2, t.kind = .eq := by
      have := heq2.replicate_inv.2
      simpa [tk] using this
    have heq2ne : eq2 ≠ [] := by
      intro h0
      have := heq2.replicate_inv.1
      rw [h0] at this; simp at this; omega
    have e1 : s.toks = e0 :: (er ++ ((ta ++ nm ++ tb) ++ (eq2 ++ (tc ++ [tlc])))) := by rw [hts0, hts]; simp
    have hsh := bl17_sectionP_shape s e0 er (ta ++ nm ++ tb) eq2 (tc ++ [tlc]) e1 hc heqk hmidk heq2k
      (by
        intro t ht'
        rcases List.mem_append.mp ht' with h' | h'
        · rcases pad_kinds hpc htc t h' with h'' | h'' <;> simp [isWsComment, h'']
        · simp at h'; subst h'; simp [isWsComment, htlck])
      (by
        intro hmt
        exfalso
        simp only [List.append_eq_nil_iff] at hmt
        cases hcn : name with
        | some n =>
          rw [hcn] at hnm hname
          simp only [spellOptLeaf] at hnm
          obtain ⟨u, ur, hu, -⟩ := (leafOK_facts hname).head
          have := hnm.length; rw [hmt.1.2, hu] at this; simp at this
        | none =>
          rw [hcn] at hname
          have h1 := hta.length; rw [hmt.1.1] at h1
          have h2 := htb.length; rw [hmt.2] at h2
          simp only [List.length_nil] at h1 h2
          have ha : p.a = [] := List.length_eq_zero_iff.mp h1.symm
          have hb : p.b = [] := List.length_eq_zero_iff.mp h2.symm
          simp only [ha, hb, List.isEmpty_nil, Bool.not_true, Bool.false_or, beq_iff_eq] at hname
          exact hn hname)
      (fun h0 => absurd h0 heq2ne) hrun
    exact ⟨_, hsh, hnameR _⟩

theorem bl17_runBlock_section_lc (name : Option (List Tok)) (p : SPad) (lc : Tok) (hlc : lc.kind = .lineComment)
    (cs : CharSpec) (ext : Ext) (oldStyle : Bool)
    (ts : List Tok) (evs0 : Array (Ev α)) (panic : Option String) (hok : sectionOK cs name p = true)
    (hs : Spells ts (spellSection name p ++ [lc])) (hrun : RunAt (baseOff ts) ts) :
    ∃ ev : Ev α, runBlock cs ext oldStyle ts evs0 panic = (evs0.push ev, panic) ∧ SectionMatches cs name ev := by
  obtain ⟨ev, hsec, hm⟩ := bl17_sectionP_lc name p lc hlc (⟨ts, 0, ext, cs, evs0, panic⟩ : BP α) hok ts hs rfl rfl hrun
  refine ⟨ev, ?_, hm⟩
  obtain ⟨t0, tr, hts, hk0⟩ : ∃ t0 tr, ts = t0 :: tr ∧ t0.kind = .eq := by
    simp only [spellSection, List.replicate_succ, List.cons_append] at hs
    obtain ⟨t, r, rfl, hk, -, -⟩ := hs.cons_inv
    exact ⟨t, r, rfl, hk⟩
  have hne : ts.isEmpty = false := by rw [hts]; rfl
  have hpk := peekK_split (⟨ts, 0, ext, cs, evs0, panic⟩ : BP α) [] ts rfl rfl
  unfold runBlock
  simp only [hne, Bool.false_eq_true, if_false, bind, StateT.bind, pure, StateT.pure]
  have hpb : parseBlock (α := α) oldStyle ⟨ts, 0, ext, cs, evs0, panic⟩ =
      ((), { (⟨ts, 0, ext, cs, evs0, panic⟩ : BP α) with cur := ts.length, evs := evs0.push ev }) := by
    unfold parseBlock
    simp only [bind, StateT.bind, hpk]
    rw [hts] at hpk ⊢
    simp only [List.head?_cons, Option.map_some, hk0]
    rw [← hts]
    simp only [withRecover_run, hsec, Option.isNone_some, Bool.false_eq_true, if_false, pure, StateT.pure, pushEv_run]
  rw [hpb]
  simp only [get, getThe, MonadStateOf.get, StateT.get, ne_eq, not_true_eq_false, if_false, pure, StateT.pure]

/-- **a `>>` line with a trailing line comment**: the comment is part of the value run, where it
    shows nothing -/
theorem bl17_metadataEntry_lc (key value : List Tok) (p : MPad) (lc : Tok) (hlc : lc.kind = .lineComment) (s : BP α)
    (hok : metaOK s.cs key value p = true)
    (ts : List Tok) (hs : Spells ts (spellMeta key value p ++ [lc])) (ht : s.toks = ts) (hc : s.cur = 0)
    (hrun : RunAt (baseOff ts) ts) :
    ∃ k v : Text, metadataEntry s = (some (.metadata k v), { s with cur := ts.length }) ∧
      k.trimmed s.cs = leafText key ∧ v.trimmed s.cs = leafText value ∧ v.outerTrimmed s.cs = leafText value := by
  subst ht
  simp only [metaOK, Bool.and_eq_true] at hok
  obtain ⟨⟨hp, hkey⟩, hval⟩ := hok
  simp only [MPad.ok, Bool.and_eq_true] at hp
  obtain ⟨⟨⟨hpa, hpb⟩, hpc⟩, hpd⟩ := hp
  obtain ⟨tmeta, tl, hts0, hmeta, htl⟩ := hs.append_inv
  obtain ⟨tlc, rfl, htlck, -⟩ := htl.single_inv
  rw [hlc] at htlck
  simp only [spellMeta, List.append_assoc, List.cons_append, List.nil_append] at hmeta
  obtain ⟨tm, r, hts, hmk, -, hs⟩ := hmeta.cons_inv
  obtain ⟨ta, r, rfl, hta, hs⟩ := hs.append_inv
  obtain ⟨tk', r, rfl, htk, hs⟩ := hs.append_inv
  obtain ⟨tb, r, rfl, htb, hs⟩ := hs.append_inv
  obtain ⟨tcol, r, rfl, hcolk, -, hs⟩ := hs.cons_inv
  obtain ⟨tc, r, rfl, htc, hs⟩ := hs.append_inv
  obtain ⟨tv, td, rfl, htv, htd⟩ := hs.append_inv
  simp only [tk] at hmk hcolk
  have hkeyk : ∀ t ∈ ta ++ tk' ++ tb, (t.kind == .colon) = false := by
    intro t ht'
    simp only [List.mem_append] at ht'
    have : t.kind ≠ .colon := by
      rcases ht' with (ht' | ht') | ht'
      · exact keyKind_not_colon (Or.inr (pad_kinds hpa hta t ht'))
      · rcases leaf_kinds hkey htk t ht' with h' | h'
        · exact keyKind_not_colon (Or.inl h')
        · exact keyKind_not_colon (Or.inr (Or.inl h'))
      · exact keyKind_not_colon (Or.inr (pad_kinds hpb htb t ht'))
    simpa using this
  have e1 : s.toks = [] ++ tm :: ((ta ++ tk' ++ tb) ++ tcol :: (tc ++ tv ++ td ++ [tlc])) := by rw [hts0, hts]; simp
  have h1 := consumeK_split_some .metaStart s [] tm _ e1 (by simpa using hc) hmk
  have h2 := untilK_split (fun k => k == .colon) ({ s with cur := ([] : List Tok).length + 1 } : BP α) [tm]
    (ta ++ tk' ++ tb) tcol (tc ++ tv ++ td ++ [tlc]) (by rw [e1]; simp) (by lenarith) hkeyk (by simp [hcolk])
  have h3 : bump (α := α) .colon ({ s with cur := [tm].length + (ta ++ tk' ++ tb).length } : BP α) =
      (tcol, { s with cur := (tm :: (ta ++ tk' ++ tb)).length + 1 }) := by
    unfold bump
    have hb := bumpAny_split ({ s with cur := [tm].length + (ta ++ tk' ++ tb).length } : BP α)
      (tm :: (ta ++ tk' ++ tb)) tcol (tc ++ tv ++ td ++ [tlc]) (by rw [e1]; simp) (by lenarith)
    simp only [bind, StateT.bind, hb, hcolk, ne_eq, not_true_eq_false, if_false]
    rfl
  have h4 := consumeRest_split ({ s with cur := (tm :: (ta ++ tk' ++ tb)).length + 1 } : BP α)
    (tm :: (ta ++ tk' ++ tb) ++ [tcol]) (tc ++ tv ++ td ++ [tlc]) (by rw [e1]; simp) (by lenarith)
  have hrunKey : RunAt (offAt s.toks (([] : List Tok).length + 1)) (ta ++ tk' ++ tb) := by
    have := rt_runAt_mid hrun [tm] (ta ++ tk' ++ tb) (tcol :: (tc ++ tv ++ td ++ [tlc])) (by rw [e1]; simp)
    have e2 : [tm].length = ([] : List Tok).length + 1 := by lenarith
    rwa [e2] at this
  have hrunVal : RunAt (offAt s.toks ((tm :: (ta ++ tk' ++ tb)).length + 1)) (tc ++ tv ++ td ++ [tlc]) := by
    have := rt_runAt_mid hrun (tm :: (ta ++ tk' ++ tb) ++ [tcol]) (tc ++ tv ++ td ++ [tlc]) [] (by rw [e1]; simp)
    have e2 : (tm :: (ta ++ tk' ++ tb) ++ [tcol]).length = (tm :: (ta ++ tk' ++ tb)).length + 1 := by lenarith
    rwa [e2] at this
  have hkl := rt_leaf_text (cs := s.cs) (allowed := keyKind) (pre := p.a) (l := key) (post := p.b)
    (ts := ta ++ tk' ++ tb) ((hta.append htk).append htb) hpa hpb hkey (offAt s.toks (([] : List Tok).length + 1))
  have hvl := rt_leaf_text (cs := s.cs) (allowed := metaValKind) (pre := p.c) (l := value) (post := p.d)
    (ts := tc ++ tv ++ td) ((htc.append htv).append htd) hpc hpd hval
    (offAt s.toks ((tm :: (ta ++ tk' ++ tb)).length + 1))
  have hvo := rt_leaf_outerTrimmed (cs := s.cs) (allowed := metaValKind) (pre := p.c) (l := value) (post := p.d)
    (ts := tc ++ tv ++ td) ((htc.append htv).append htd) hpc hpd hval
    (offAt s.toks ((tm :: (ta ++ tk' ++ tb)).length + 1))
  obtain ⟨c1, c2, c3⟩ := bl17_snoc_comment s.cs (offAt s.toks ((tm :: (ta ++ tk' ++ tb)).length + 1)) (tc ++ tv ++ td) tlc
    (Or.inl htlck)
  refine ⟨_, _, ?_, hkl.1, by rw [c1]; exact hvl.1, by rw [c2]; exact hvo⟩
  unfold metadataEntry
  simp only [bind, StateT.bind, h1, currentOffset_run, h2, bpText_run hrunKey, h3, h4, bpText_run hrunVal, get, getThe,
    MonadStateOf.get, StateT.get, hkl.2, c3, hvl.2, Bool.false_eq_true, if_false, pure, StateT.pure]
  congr 2
  rw [hts0, hts]; simp only [List.length_append, List.length_cons, List.length_nil]; omega

theorem bl17_runBlock_meta_lc (key value : List Tok) (p : MPad) (lc : Tok) (hlc : lc.kind = .lineComment)
    (cs : CharSpec) (ext : Ext)
    (ts : List Tok) (evs0 : Array (Ev α)) (panic : Option String) (hok : metaOK cs key value p = true)
    (hs : Spells ts (spellMeta key value p ++ [lc])) (hrun : RunAt (baseOff ts) ts) :
    ∃ ev : Ev α, runBlock cs ext true ts evs0 panic = (evs0.push ev, panic) ∧ MetaMatches cs key value ev := by
  obtain ⟨k, v, hme, hk, hv, hvo⟩ := bl17_metadataEntry_lc key value p lc hlc (⟨ts, 0, ext, cs, evs0, panic⟩ : BP α) hok ts hs
    rfl rfl hrun
  refine ⟨.metadata k v, ?_, ⟨hk, hv, hvo⟩⟩
  obtain ⟨t0, tr, hts, hk0⟩ : ∃ t0 tr, ts = t0 :: tr ∧ t0.kind = .metaStart := by
    simp only [spellMeta, List.append_assoc, List.cons_append, List.nil_append] at hs
    obtain ⟨t, r, rfl, hk, -, -⟩ := hs.cons_inv
    exact ⟨t, r, rfl, hk⟩
  have hne : ts.isEmpty = false := by rw [hts]; rfl
  have hpk := peekK_split (⟨ts, 0, ext, cs, evs0, panic⟩ : BP α) [] ts rfl rfl
  unfold runBlock
  simp only [hne, Bool.false_eq_true, if_false, bind, StateT.bind, pure, StateT.pure]
  have hpb : parseBlock (α := α) true ⟨ts, 0, ext, cs, evs0, panic⟩ =
      ((), { (⟨ts, 0, ext, cs, evs0, panic⟩ : BP α) with cur := ts.length, evs := evs0.push (.metadata k v) }) := by
    unfold parseBlock
    simp only [bind, StateT.bind, hpk]
    rw [hts] at hpk ⊢
    simp only [List.head?_cons, Option.map_some, hk0]
    rw [← hts]
    simp only [withRecover_run, bind, StateT.bind, hme, get, getThe, MonadStateOf.get, StateT.get, hasExt_run,
      Bool.or_true, if_true, Option.isNone_some, Bool.false_eq_true, if_false, pure, StateT.pure, pushEv_run]
  rw [hpb]
  simp only [get, getThe, MonadStateOf.get, StateT.get, ne_eq, not_true_eq_false, if_false, pure, StateT.pure]

end Cook
