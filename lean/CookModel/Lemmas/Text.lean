import CookModel.Syntax.Parser
import CookModel.Lemmas.Lexer
/-
  `BlockParser::text` (model: `buildText`) over a run of adjacent tokens produces fragments that
  are slices of the run, non-empty, ordered, and never trips `append_fragment`'s assertion.
-/
namespace Cook

/-- `txt` is the slice of `whole` that starts at byte position `pos` (positions count from `off`) -/
def SliceAt (off : Nat) (whole : List Char) (pos : Nat) (txt : List Char) : Prop :=
  ∃ pre suf, whole = pre ++ txt ++ suf ∧ pos = off + utf8Len pre

/-- fragments in increasing, non-overlapping order, all at or after `off` -/
def FragsOrdered (off : Nat) (fs : List Frag) : Prop :=
  fs.Pairwise (fun f g => f.stop ≤ g.offset) ∧ ∀ f ∈ fs, off ≤ f.offset

/-- tokens as the lexer produces them, as far as text assembly cares: an escaped token starts
    with the (one byte) backslash -/
def EscapedOK (ts : List Tok) : Prop := ∀ t ∈ ts, t.kind = .escaped → t.text.head? = some '\\'

theorem SliceAt.extend {off : Nat} {w : List Char} {pos : Nat} {txt : List Char} (x : List Char)
    (h : SliceAt off w pos txt) : SliceAt off (w ++ x) pos txt := by
  obtain ⟨pre, suf, h1, h2⟩ := h
  exact ⟨pre, suf ++ x, by rw [h1]; simp, h2⟩

/-- invariant of a text under construction: `P` is the text of the tokens processed so far,
    every fragment ends at or before `hi` -/
structure FI (off : Nat) (P : List Char) (hi : Nat) (t : Text) : Prop where
  notBad : t.bad = false
  emptyLe : t.emptyOff ≤ hi
  ordered : t.frags.Pairwise (fun f g => f.stop ≤ g.offset)
  frags : ∀ f ∈ t.frags, f.text ≠ [] ∧ SliceAt off P f.offset f.text ∧ f.stop ≤ hi

theorem FI.mono {off P hi hi' t} (h : FI off P hi t) (hle : hi ≤ hi') : FI off P hi' t :=
  ⟨h.notBad, Nat.le_trans h.emptyLe hle, h.ordered,
   fun f hf => ⟨(h.frags f hf).1, (h.frags f hf).2.1, Nat.le_trans (h.frags f hf).2.2 hle⟩⟩

theorem FI.extend {off P hi t} (x : List Char) (h : FI off P hi t) : FI off (P ++ x) hi t :=
  ⟨h.notBad, h.emptyLe, h.ordered,
   fun f hf => ⟨(h.frags f hf).1, (h.frags f hf).2.1.extend x, (h.frags f hf).2.2⟩⟩

theorem FI.span_stop_le {off P hi t} (h : FI off P hi t) : t.span.stop ≤ hi := by
  unfold Text.span
  split
  · exact h.emptyLe
  · rename_i f fs heq
    have hmem : (t.frags.getLast?.getD f) ∈ t.frags := by
      rw [heq]
      cases hl : (f :: fs).getLast? with
      | none => simp
      | some l => simpa using List.mem_of_getLast? hl
    exact (h.frags _ hmem).2.2

theorem FI.appendFrag {off P hi t} (h : FI off P hi t) (f : Frag) (hle : hi ≤ f.offset)
    (hs : f.text ≠ [] → SliceAt off P f.offset f.text) : FI off P f.stop (t.appendFrag f) := by
  have hstop : f.offset ≤ f.stop := by unfold Frag.stop; omega
  have hsp := h.span_stop_le
  unfold Text.appendFrag
  have hc : t.span.stop ≤ f.offset := Nat.le_trans hsp hle
  simp only [hc, if_true]
  split
  · exact h.mono (Nat.le_trans hle hstop)
  · rename_i hne
    have hne' : f.text ≠ [] := by
      intro h0; apply hne; simp [h0]
    refine ⟨h.notBad, Nat.le_trans h.emptyLe (Nat.le_trans hle hstop), ?_, ?_⟩
    · simp only
      rw [List.pairwise_append]
      refine ⟨h.ordered, by simp, ?_⟩
      intro a ha b hb
      simp only [List.mem_singleton] at hb
      subst hb
      exact Nat.le_trans (h.frags a ha).2.2 hle
    · intro g hg
      simp only [List.mem_append, List.mem_singleton] at hg
      rcases hg with hg | rfl
      · exact ⟨(h.frags g hg).1, (h.frags g hg).2.1, Nat.le_trans (h.frags g hg).2.2 (Nat.le_trans hle hstop)⟩
      · exact ⟨hne', hs hne', Nat.le_refl _⟩

/-- invariant of the fold of `textStep` -/
structure TInv (off : Nat) (P : List Char) (a : TextAcc) : Prop where
  fi : FI off P a.start a.t
  cur : ∃ pre, P = pre ++ a.cur ∧ a.start = off + utf8Len pre

theorem TInv.end_eq {off P a} (h : TInv off P a) : a.start + utf8Len a.cur = off + utf8Len P := by
  obtain ⟨pre, h1, h2⟩ := h.cur
  rw [h1, utf8Len_append, h2]; omega

theorem TInv.flush {off P a} (h : TInv off P a) :
    FI off P (off + utf8Len P) (a.t.appendStr a.cur a.start) := by
  have he := h.end_eq
  have := h.fi.appendFrag ⟨a.cur, a.start, false⟩ (Nat.le_refl _) (by
    intro _
    obtain ⟨pre, h1, h2⟩ := h.cur
    exact ⟨pre, [], by simp [h1], h2⟩)
  have hs : (⟨a.cur, a.start, false⟩ : Frag).stop = off + utf8Len P := by simp [Frag.stop]; exact he
  rw [hs] at this
  exact this

theorem textStep_inv {off : Nat} {P : List Char} {a : TextAcc} (tok : Tok)
    (h : TInv off P a) (hstart : tok.start = off + utf8Len P)
    (hesc : tok.kind = .escaped → tok.text.head? = some '\\') :
    TInv off (P ++ tok.text) (textStep a tok) := by
  have hflush := h.flush
  have hstop : tok.stop = off + utf8Len (P ++ tok.text) := by
    simp [Tok.stop, hstart, utf8Len_append]; omega
  unfold textStep
  split
  · -- newline
    constructor
    · have h1 := (hflush.extend tok.text)
      have h2 := h1.appendFrag ⟨tok.text, tok.start, true⟩ (by simp [hstart]) (by
        intro _
        exact ⟨P, [], by simp, by simp [hstart]⟩)
      have hs : (⟨tok.text, tok.start, true⟩ : Frag).stop = tok.stop := rfl
      rw [hs] at h2
      exact h2
    · exact ⟨P ++ tok.text, by simp, by rw [hstop]⟩
  · -- line comment
    constructor
    · exact (hflush.extend tok.text).mono (by show off + utf8Len P ≤ tok.stop; rw [hstop, utf8Len_append]; omega)
    · exact ⟨P ++ tok.text, by simp, by rw [hstop]⟩
  · -- block comment
    constructor
    · exact (hflush.extend tok.text).mono (by show off + utf8Len P ≤ tok.stop; rw [hstop, utf8Len_append]; omega)
    · exact ⟨P ++ tok.text, by simp, by rw [hstop]⟩
  · -- escaped
    rename_i hk
    have hh := hesc hk
    cases htxt : tok.text with
    | nil => rw [htxt] at hh; simp at hh
    | cons c tl =>
      rw [htxt] at hh
      simp only [List.head?_cons, Option.some.injEq] at hh
      subst hh
      have h1 : utf8Len ['\\'] = 1 := by decide
      constructor
      · exact (hflush.extend _).mono (by simp [hstart])
      · refine ⟨P ++ ['\\'], by simp, ?_⟩
        simp [hstart, utf8Len_append, h1]; omega
  · -- any other token
    constructor
    · exact (h.fi.extend tok.text)
    · obtain ⟨pre, h1, h2⟩ := h.cur
      exact ⟨pre, by rw [h1]; simp, h2⟩

theorem foldl_textStep_inv {off : Nat} (ts : List Tok) (P : List Char) (a : TextAcc)
    (h : TInv off P a) (hc : Chain (off + utf8Len P) ts) (he : EscapedOK ts) :
    TInv off (P ++ ts.flatMap (·.text)) (ts.foldl textStep a) := by
  induction ts generalizing P a with
  | nil => simpa using h
  | cons t ts ih =>
    obtain ⟨h1, h2⟩ := hc
    have hstep := textStep_inv t h h1 (he t (by simp))
    have hc' : Chain (off + utf8Len (P ++ t.text)) ts := by
      have : t.stop = off + utf8Len (P ++ t.text) := by simp [Tok.stop, h1, utf8Len_append]; omega
      rw [← this]; exact h2
    have := ih (P ++ t.text) (textStep a t) hstep hc' (fun x hx => he x (by simp [hx]))
    simpa using this

theorem buildText_FI (off : Nat) (ts : List Tok) (h : Chain off ts) (he : EscapedOK ts) :
    FI off (ts.flatMap (·.text)) (off + utf8Len (ts.flatMap (·.text))) (buildText off ts) := by
  unfold buildText
  cases ts with
  | nil =>
    exact ⟨rfl, by simp [Text.empty], by simp [Text.empty], by simp [Text.empty]⟩
  | cons t0 rest =>
    have h0 : t0.start = off := h.1
    have hinit : TInv off [] (⟨Text.empty off, t0.start, []⟩ : TextAcc) :=
      ⟨⟨rfl, by simp [Text.empty, h0], by simp [Text.empty], by simp [Text.empty]⟩, ⟨[], by simp, by simp [h0, utf8Len]⟩⟩
    have hfold := foldl_textStep_inv (t0 :: rest) [] _ hinit (by simpa [utf8Len] using h) he
    simp only [List.nil_append] at hfold
    have hfl := hfold.flush
    simp only [h0] at hfl
    simp only [h0, if_true]
    exact hfl

theorem buildText_faithful (off : Nat) (ts : List Tok) (h : Chain off ts) (he : EscapedOK ts) :
    (buildText off ts).bad = false ∧
    ∀ f ∈ (buildText off ts).frags, f.text ≠ [] ∧ SliceAt off (ts.flatMap (·.text)) f.offset f.text := by
  have := buildText_FI off ts h he
  exact ⟨this.notBad, fun f hf => ⟨(this.frags f hf).1, (this.frags f hf).2.1⟩⟩

theorem buildText_ordered (off : Nat) (ts : List Tok) (h : Chain off ts) (he : EscapedOK ts) :
    FragsOrdered off (buildText off ts).frags := by
  have := buildText_FI off ts h he
  refine ⟨this.ordered, fun f hf => ?_⟩
  obtain ⟨pre, _, _, h2⟩ := (this.frags f hf).2.1
  omega

theorem singleKind_ne_escaped (c : Char) (k : TK) (h : singleKind c = some k) : k ≠ .escaped := by
  unfold singleKind at h
  cases hf : singleTable.find? (fun p => p.1 == c) with
  | none => rw [hf] at h; simp at h
  | some p =>
    rw [hf] at h
    simp only [Option.map_some, Option.some.injEq] at h
    have hm := List.mem_of_find?_eq_some hf
    have hall : ∀ q ∈ singleTable, q.2 ≠ .escaped := by decide
    rw [← h]; exact hall p hm

theorem lexOne_escaped (cs : CharSpec) (c : Char) (rest : List Char)
    (h : (lexOne cs c rest).1 = .escaped) : c = '\\' := by
  unfold lexOne at h
  split at h
  · assumption
  split at h
  · split at h <;> simp at h
  split at h
  · split at h <;> simp at h
  split at h
  · simp at h
  split at h
  · simp at h
  split at h
  · simp at h
  split at h
  · simp only at h; split at h <;> simp at h
  split at h
  · rename_i k hk
    exact absurd h (singleKind_ne_escaped c k hk)
  · split at h
    · simp at h
    · split at h <;> simp at h

/-- the lexer only produces escaped tokens that start with a backslash -/
theorem lexFrom_escapedOK (cs : CharSpec) (off : Nat) (s : List Char) : EscapedOK (lexFrom cs off s) := by
  fun_induction lexFrom cs off s with
  | case1 => intro t ht; simp at ht
  | case2 off c rest r text ih =>
    intro t ht hk
    simp only [List.mem_cons] at ht
    rcases ht with rfl | ht
    · simp only at hk ⊢
      simp only [text, List.head?_cons, Option.some.injEq]
      exact lexOne_escaped cs c rest hk
    · exact ih t ht hk

end Cook
