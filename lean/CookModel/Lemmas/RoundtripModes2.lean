import CookModel.Lemmas.RoundtripModes
/-
  C01, analysis layer, the remaining mode switches (`rtn_` prefix):
  * every `>> [mode]: …` / `>> [define]: …` / `>> [duplicate]: …` line, in closed form (`defineModeOf`,
    `duplicateModeOf`: the accepted values and their aliases);
  * text mode: a block — whatever its kind — becomes a text paragraph made of the shown texts and, for a
    component, of its source characters (with a warning per component; nothing enters the tables);
  * steps mode and duplicate mode `reference`: `resolve_reference` in closed form for a component without
    `&`: when it becomes an (implicit) reference, when it stays a definition, and when nothing is reported.
-/
set_option linter.unusedSectionVars false
set_option linter.unusedSimpArgs false
set_option linter.unusedVariables false
namespace Cook
variable {α : Type} [Arith α]

/-! ### the switch lines -/

/-- the define mode a value of `[mode]` / `[define]` selects (`all|default`, `components|ingredients`,
    `steps`, `text`); anything else is an error of the code (`config-invalid-value`) -/
def defineModeOf (v : Str) : Option DefineMode :=
  if v = "all".toList ∨ v = "default".toList then some .all
  else if v = "components".toList ∨ v = "ingredients".toList then some .components
  else if v = "steps".toList then some .steps
  else if v = "text".toList then some .text
  else none

/-- the duplicate mode a value of `[duplicate]` selects (`new|default`, `reference|ref`) -/
def duplicateModeOf (v : Str) : Option DuplicateMode :=
  if v = "new".toList ∨ v = "default".toList then some .new
  else if v = "reference".toList ∨ v = "ref".toList then some .reference
  else none

/-- `>> [mode]: v` (or `[define]`) under MODES, with a value that selects the define mode `m` -/
structure DefineLine (env : Env) (k v : Text) (m : DefineMode) : Prop where
  modes : env.ext.has Gen.EXT_MODES = true
  key : k.trimmed env.cs = "[mode]".toList ∨ k.trimmed env.cs = "[define]".toList
  value : defineModeOf (v.outerTrimmed env.cs) = some m

/-- `>> [duplicate]: v` under MODES, with a value that selects the duplicate mode `m` -/
structure DuplicateLine (env : Env) (k v : Text) (m : DuplicateMode) : Prop where
  modes : env.ext.has Gen.EXT_MODES = true
  key : k.trimmed env.cs = "[duplicate]".toList
  value : duplicateModeOf (v.outerTrimmed env.cs) = some m

theorem rtn_defineLine (env : Env) (k v : Text) (s : Col α) (m : DefineMode) (h : DefineLine env k v m) :
    (metadataA env k v s).2 = { s with defineMode := m } := by
  obtain ⟨hm, hk, hv⟩ := h
  unfold defineModeOf at hv
  unfold metadataA
  split at hv
  · rename_i hc
    cases hv
    rcases hk with hk | hk <;> rcases hc with hc | hc <;>
      simp [bind, StateT.bind, get, getThe, MonadStateOf.get, StateT.get, pure, StateT.pure, hm, hk, hc, modify, modifyGet,
        MonadStateOf.modifyGet, StateT.modifyGet] <;> rfl
  split at hv
  · rename_i hc
    cases hv
    rcases hk with hk | hk <;> rcases hc with hc | hc <;>
      simp [bind, StateT.bind, get, getThe, MonadStateOf.get, StateT.get, pure, StateT.pure, hm, hk, hc, modify, modifyGet,
        MonadStateOf.modifyGet, StateT.modifyGet] <;> rfl
  split at hv
  · rename_i hc
    cases hv
    rcases hk with hk | hk <;>
      simp [bind, StateT.bind, get, getThe, MonadStateOf.get, StateT.get, pure, StateT.pure, hm, hk, hc, modify, modifyGet,
        MonadStateOf.modifyGet, StateT.modifyGet] <;> rfl
  split at hv
  · rename_i hc
    cases hv
    rcases hk with hk | hk <;>
      simp [bind, StateT.bind, get, getThe, MonadStateOf.get, StateT.get, pure, StateT.pure, hm, hk, hc, modify, modifyGet,
        MonadStateOf.modifyGet, StateT.modifyGet] <;> rfl
  · cases hv

theorem rtn_duplicateLine (env : Env) (k v : Text) (s : Col α) (m : DuplicateMode) (h : DuplicateLine env k v m) :
    (metadataA env k v s).2 = { s with duplicateMode := m } := by
  obtain ⟨hm, hk, hv⟩ := h
  unfold duplicateModeOf at hv
  unfold metadataA
  split at hv
  · rename_i hc
    cases hv
    rcases hc with hc | hc <;>
      simp [bind, StateT.bind, get, getThe, MonadStateOf.get, StateT.get, pure, StateT.pure, hm, hk, hc, modify, modifyGet,
        MonadStateOf.modifyGet, StateT.modifyGet] <;> rfl
  split at hv
  · rename_i hc
    cases hv
    rcases hc with hc | hc <;>
      simp [bind, StateT.bind, get, getThe, MonadStateOf.get, StateT.get, pure, StateT.pure, hm, hk, hc, modify, modifyGet,
        MonadStateOf.modifyGet, StateT.modifyGet] <;> rfl
  · cases hv

/-! ### text mode -/

/-- text mode: `Start` opens a TEXT buffer whatever the kind of the block -/
theorem rtn_text_start (env : Env) (input : Str) (kind : BlockKind) (s : Col α) (hd : s.defineMode = .text) :
    (processEvent env input (.start kind) s).2 = { s with block := some (.text []) } := by
  simp [processEvent, modify, modifyGet, MonadStateOf.modifyGet, StateT.modifyGet, pure, StateT.pure, hd]

/-- a text event while a text buffer is open: its shown text is appended (in every mode) -/
theorem rtn_text_text (env : Env) (input : Str) (t : Text) (s : Col α) (buf : Str) (hb : s.block = some (.text buf)) :
    (processEvent env input (.text t) s).2 = { s with block := some (.text (buf ++ t.text)) } := by
  have e : processEvent env input (.text t) s = inStepText env t s := rfl
  rw [e]
  unfold inStepText
  simp [bind, StateT.bind, get, getThe, MonadStateOf.get, StateT.get, pure, StateT.pure, hb, modify, modifyGet,
    MonadStateOf.modifyGet, StateT.modifyGet]

/-- text mode: `End` (whatever the kind) closes the buffer into a text paragraph of the current section —
    nothing when the buffer is empty; it is not a step: the step counter does not move -/
theorem rtn_text_stop (env : Env) (input : Str) (kind : BlockKind) (s : Col α) (buf : Str) (hd : s.defineMode = .text)
    (hb : s.block = some (.text buf)) :
    (processEvent env input (.stop kind) s).2 =
      { s with cur := ⟨s.cur.name, s.cur.content ++ xParaContent buf⟩, block := none } := by
  by_cases hbuf : buf.isEmpty = true <;>
    simp [processEvent, endBlock, endBlockContent, pushContent, Content.isStep, Content.isEmptyContent, hbuf, bind,
      StateT.bind, get, getThe, MonadStateOf.get, StateT.get, pure, StateT.pure, modify, modifyGet,
      MonadStateOf.modifyGet, StateT.modifyGet, hd, hb, xParaContent]

/-- what an item of a block adds to the buffer in text mode: a text its shown text, a component the
    characters of the source it was written with (`&self.input[span.range()]`) -/
def textModePiece (input : Str) : SItem α → Option Str
  | .text t => some t.text
  | .ingredient i => sliceBytes input i.span.start i.span.stop
  | .cookware c => sliceBytes input c.span.start c.span.stop
  | .timer t => sliceBytes input t.span.start t.span.stop

/-- what it reports: a component is "ignored" with a warning placed on it -/
def textModeWarn : SItem α → List Diag
  | .text _ => []
  | .ingredient i => [⟨.warning, .analysis, "component-in-text-mode:ingredient", [i.span]⟩]
  | .cookware c => [⟨.warning, .analysis, "component-in-text-mode:cookware", [c.span]⟩]
  | .timer t => [⟨.warning, .analysis, "component-in-text-mode:timer", [t.span]⟩]

theorem rtn_text_item (env : Env) (input : Str) (it : SItem α) (s : Col α) (buf p : Str)
    (hd : s.defineMode = .text) (hb : s.block = some (.text buf)) (hp : textModePiece input it = some p) :
    (processEvent env input it.ev s).2 =
      { s with block := some (.text (buf ++ p)), diags := s.diags ++ (textModeWarn it).toArray } := by
  cases it with
  | text t =>
    simp only [textModePiece, Option.some.injEq] at hp
    subst hp
    rw [SItem.ev, rtn_text_text env input t s buf hb]
    simp [textModeWarn]
  | ingredient i =>
    have e : processEvent env input (.ingredient i) s = inBlockComponent env input (.ingredient i) s := rfl
    simp only [textModePiece] at hp
    rw [SItem.ev, e]
    unfold inBlockComponent
    simp only [bind, StateT.bind, get, getThe, MonadStateOf.get, StateT.get, pure, StateT.pure, hb]
    unfold inTextComponent
    simp [awarn, modify, modifyGet, MonadStateOf.modifyGet, StateT.modifyGet, hp, pure, StateT.pure, bind, StateT.bind,
      get, getThe, MonadStateOf.get, StateT.get, hd, textModeWarn]
    rfl
  | cookware c =>
    have e : processEvent env input (.cookware c) s = inBlockComponent env input (.cookware c) s := rfl
    simp only [textModePiece] at hp
    rw [SItem.ev, e]
    unfold inBlockComponent
    simp only [bind, StateT.bind, get, getThe, MonadStateOf.get, StateT.get, pure, StateT.pure, hb]
    unfold inTextComponent
    simp [awarn, modify, modifyGet, MonadStateOf.modifyGet, StateT.modifyGet, hp, pure, StateT.pure, bind, StateT.bind,
      get, getThe, MonadStateOf.get, StateT.get, hd, textModeWarn]
    rfl
  | timer t =>
    have e : processEvent env input (.timer t) s = inBlockComponent env input (.timer t) s := rfl
    simp only [textModePiece] at hp
    rw [SItem.ev, e]
    unfold inBlockComponent
    simp only [bind, StateT.bind, get, getThe, MonadStateOf.get, StateT.get, pure, StateT.pure, hb]
    unfold inTextComponent
    simp [awarn, modify, modifyGet, MonadStateOf.modifyGet, StateT.modifyGet, hp, pure, StateT.pure, bind, StateT.bind,
      get, getThe, MonadStateOf.get, StateT.get, hd, textModeWarn]
    rfl

theorem rtn_text_items (env : Env) (input : Str) (rest : List (Ev α)) :
    ∀ (st : List (SItem α)) (pieces : List Str) (s : Col α) (buf : Str), s.defineMode = .text →
      s.block = some (.text buf) → st.map (textModePiece input) = pieces.map some →
      parseEventsLoop env input (st.map SItem.ev ++ rest) s =
        parseEventsLoop env input rest
          { s with block := some (.text (buf ++ pieces.flatten)),
                   diags := s.diags ++ (st.flatMap textModeWarn).toArray } := by
  intro st
  induction st with
  | nil =>
    intro pieces s buf hd hb hp
    cases pieces with
    | nil =>
      have : s = { s with block := some (.text (buf ++ ([] : List Str).flatten)),
                          diags := s.diags ++ (([] : List (SItem α)).flatMap textModeWarn).toArray } := by
        cases s; simp_all
      simp only [List.map_nil, List.nil_append]
      rw [← this]
    | cons p ps => cases hp
  | cons it r ih =>
    intro pieces s buf hd hb hp
    cases pieces with
    | nil => cases hp
    | cons p ps =>
      simp only [List.map_cons, List.cons.injEq] at hp
      rw [List.map_cons, List.cons_append, parseEventsLoop_cons_nonerror env input _ _ _ (rta_ev_not_error it),
        rtn_text_item env input it s buf p hd hb hp.1]
      refine (ih ps _ (buf ++ p) ?_ ?_ hp.2).trans ?_
      · exact hd
      · rfl
      · simp [List.append_assoc]

/-- **A block in text mode.**  `Start`, the items, `End` (of any block kind): the current section gets ONE
    text paragraph made of the pieces of the items (nothing if they are all empty), one warning per
    component is reported, and nothing else changes: no table entry, no step, no step number. -/
theorem rtn_text_block (env : Env) (input : Str) (rest : List (Ev α)) (kind : BlockKind) (st : List (SItem α))
    (pieces : List Str) (s : Col α) (hd : s.defineMode = .text)
    (hp : st.map (textModePiece input) = pieces.map some) :
    parseEventsLoop env input ([Ev.start kind] ++ st.map SItem.ev ++ [Ev.stop kind] ++ rest) s =
      parseEventsLoop env input rest
        { s with cur := ⟨s.cur.name, s.cur.content ++ xParaContent pieces.flatten⟩, block := none,
                 diags := s.diags ++ (st.flatMap textModeWarn).toArray } := by
  have e : [Ev.start kind] ++ st.map SItem.ev ++ [Ev.stop kind] ++ rest =
      Ev.start kind :: (st.map SItem.ev ++ (Ev.stop kind :: rest)) := by simp
  rw [e, parseEventsLoop_cons_nonerror env input _ _ _ (by rintro ⟨d, h⟩; cases h), rtn_text_start env input kind s hd]
  refine (rtn_text_items env input _ st pieces _ [] ?_ ?_ hp).trans ?_
  · exact hd
  · rfl
  rw [parseEventsLoop_cons_nonerror env input _ _ _ (by rintro ⟨d, h⟩; cases h)]
  congr 1
  refine (rtn_text_stop env input kind _ ([] ++ pieces.flatten) ?_ ?_).trans ?_
  · exact hd
  · rfl
  · simp

/-! ### `resolve_reference` in every mode, for components that raise nothing -/

/-- a component that stays a DEFINITION and raises nothing: it has no `&`, and either it has `+` and the mode
    would otherwise have made it a reference (steps mode; duplicate mode `reference` with an earlier
    definition of the name), or it has no `+`, the define mode is not `steps`, and the duplicate mode is `new`
    or the name was not defined before -/
theorem rtn_resolve_def (env : Env) (container : String) (inherit : Nat) (existing : List (Str × Modifiers))
    (name : Str) (mods : Modifiers) (loc modLoc : Span) (s : Col α)
    (hREF : mods.contains Modifiers.REF = false)
    (hq : (mods.contains Modifiers.NEW = true ∧
            (s.defineMode = .steps ∨
              (s.duplicateMode = .reference ∧ (sameNameIdx env existing name).isSome = true))) ∨
          (mods.contains Modifiers.NEW = false ∧ s.defineMode ≠ .steps ∧
            (s.duplicateMode = .new ∨ sameNameIdx env existing name = none))) :
    resolveReference env container inherit existing name mods loc modLoc s = ((mods, none), s) := by
  unfold resolveReference
  rcases hq with ⟨hN, hq⟩ | ⟨hN, hq1, hq2⟩
  · rcases hq with hq | ⟨hq, hf⟩
    · simp [bind, pure, StateT.bind, StateT.pure, get, getThe, MonadStateOf.get, StateT.get, hN, hREF, hq]
    · have hne : sameNameIdx env existing name ≠ none := by intro h; rw [h] at hf; cases hf
      cases hdm : s.defineMode <;>
        simp [bind, pure, StateT.bind, StateT.pure, get, getThe, MonadStateOf.get, StateT.get, hN, hREF, hq, hf, hdm, hne]
  · rcases hq2 with hq2 | hq2
    · cases hdm : s.defineMode <;>
        simp_all [bind, pure, StateT.bind, StateT.pure, get, getThe, MonadStateOf.get, StateT.get]
    · cases hdm : s.defineMode <;> cases hdu : s.duplicateMode <;>
        simp_all [bind, pure, StateT.bind, StateT.pure, get, getThe, MonadStateOf.get, StateT.get]

/-- a component that becomes a REFERENCE and raises nothing: no `+`; it has `&`, or the define mode is
    `steps`, or the duplicate mode is `reference` (then the reference is implicit); an explicit `&` is not
    redundant (default modes only); the name has an earlier non-REF definition, the last one at `t`; no
    modifier that definition lacks.  The outcome: target `t`, the written modifiers plus the inherited ones
    plus REF, `implicit` iff `&` was not written. -/
theorem rtn_resolve_ref (env : Env) (container : String) (inherit : Nat) (existing : List (Str × Modifiers))
    (name : Str) (mods : Modifiers) (loc modLoc : Span) (s : Col α) (t : Nat)
    (hNEW : mods.contains Modifiers.NEW = false)
    (htreat : mods.contains Modifiers.REF = true ∨ s.defineMode = .steps ∨ s.duplicateMode = .reference)
    (hquiet : mods.contains Modifiers.REF = true → s.defineMode ≠ .steps ∧ s.duplicateMode = .new)
    (hfound : sameNameIdx env existing name = some t)
    (hconf : refConflict mods ⟨(((existing[t]?).map (·.2)).getD Modifiers.empty).bits &&& inherit⟩ = 0) :
    resolveReference env container inherit existing name mods loc modLoc s =
      ((⟨mods.bits ||| ((((existing[t]?).map (·.2)).getD Modifiers.empty).bits &&& inherit) ||| Modifiers.REF⟩,
        some ⟨t, !mods.contains Modifiers.REF⟩), s) := by
  have hc : (refConflict mods ⟨(((existing[t]?).map (·.2)).getD Modifiers.empty).bits &&& inherit⟩ != 0) = false := by
    simp [hconf]
  unfold refConflict at hc
  unfold resolveReference
  cases hR : mods.contains Modifiers.REF
  · have ht : s.defineMode = .steps ∨ s.duplicateMode = .reference := by
      rcases htreat with h | h
      · rw [hR] at h; cases h
      · exact h
    cases hdm : s.defineMode <;> cases hdu : s.duplicateMode <;> rw [hdm, hdu] at ht <;>
      first
      | (exfalso; rcases ht with h | h <;> exact absurd h (by decide))
      | simp +instances only [A_bind, A_pure, A_get, A_ite, aerr, awarn, A_modify, hNEW, hR, hfound, hdm, hdu,
          Bool.false_and, Bool.and_false, Bool.false_eq_true, if_false, Bool.true_or, Bool.or_false, Bool.or_self,
          Bool.not_true, Bool.not_false, if_true, Bool.and_true, Bool.and_self, Bool.or_true, Bool.true_and, hc,
          Option.isSome_some, beq_self_eq_true, Bool.false_or,
          show (DefineMode.all == DefineMode.steps) = false from by decide,
          show (DefineMode.components == DefineMode.steps) = false from by decide,
          show (DefineMode.text == DefineMode.steps) = false from by decide,
          show (DefineMode.steps == DefineMode.steps) = true from by decide,
          show (DuplicateMode.new == DuplicateMode.reference) = false from by decide,
          show (DuplicateMode.reference == DuplicateMode.reference) = true from by decide]
  · obtain ⟨h1, h2⟩ := hquiet hR
    have h3 : (s.defineMode == DefineMode.steps) = false := by
      cases hdm : s.defineMode <;> first | rfl | exact absurd hdm h1
    have h4 : (DuplicateMode.new == DuplicateMode.reference) = false := by decide
    simp +instances only [A_bind, A_pure, A_get, A_ite, aerr, awarn, A_modify, hNEW, hR, hfound, h2, h3, h4,
      Bool.false_and, Bool.and_false, Bool.false_eq_true, if_false, Bool.true_or, Bool.or_false, Bool.or_self,
      Bool.not_true, if_true, Bool.and_true, Bool.and_self, hc]

/-! ### component events in every mode -/

theorem rtn_ingrRegular (env : Env) (input : Str) (li : Loc (PIngredient α)) (igr0 : Ingredient (ScalableValue α))
    (s : Col α) (t : Nat) (defn : Ingredient (ScalableValue α)) (defLoc : Loc (PIngredient α)) (rf : List Nat)
    (b : Bool) (tg : Option RefTarget)
    (hNEW : igr0.modifiers.contains Modifiers.NEW = false)
    (htreat : igr0.modifiers.contains Modifiers.REF = true ∨ s.defineMode = .steps ∨ s.duplicateMode = .reference)
    (hquiet : igr0.modifiers.contains Modifiers.REF = true → s.defineMode ≠ .steps ∧ s.duplicateMode = .new)
    (hfound : sameNameIdx env (s.ingredients.toList.map (fun x => (x.name, x.modifiers))) igr0.name = some t)
    (hdefn : s.ingredients[t]? = some defn) (hloc : s.locIngr[t]? = some defLoc)
    (hrel : defn.relation = ⟨.definition rf b, tg⟩)
    (hconf : refConflict igr0.modifiers
      ⟨defn.modifiers.bits &&& (Modifiers.HIDDEN ||| Modifiers.OPT ||| Modifiers.RECIPE)⟩ = 0)
    (hq : RefChecksQuiet env li igr0.quantity defn b) :
    ingrRegular env input li igr0 s =
      (asReference igr0 defn.modifiers t,
       { s with ingredients := s.ingredients.setIfInBounds t (backlinked defn rf s.ingredients.size b tg) }) := by
  have hex : (((s.ingredients.toList.map (fun x => (x.name, x.modifiers)))[t]?).map (·.2)).getD Modifiers.empty =
      defn.modifiers := by
    simp [hdefn]
  unfold ingrRegular
  simp only [bind, StateT.bind, get, getThe, MonadStateOf.get, StateT.get, pure, StateT.pure]
  rw [rtn_resolve_ref env "ingredient" _ _ igr0.name igr0.modifiers li.span li.val.modifiers.span s t hNEW htreat hquiet
    hfound (by rw [hex]; exact hconf)]
  have hchk := rtf_ingrRefChecks env input li (asReference igr0 defn.modifiers t) t defn defLoc rf b tg s hrel hq
  unfold asReference refMods at hchk
  simp only [bind, StateT.bind, get, getThe, MonadStateOf.get, StateT.get, pure, StateT.pure, hex, hdefn, hloc, hchk,
    ingrSetReferencedFrom, hrel, modify, modifyGet, MonadStateOf.modifyGet, StateT.modifyGet]
  rfl

theorem rtn_ingrBuild (env : Env) (input : Str) (li : Loc (PIngredient α)) (igr0 : Ingredient (ScalableValue α))
    (s : Col α) (t : Nat) (defn : Ingredient (ScalableValue α)) (defLoc : Loc (PIngredient α)) (rf : List Nat)
    (b : Bool) (tg : Option RefTarget) (hinter : li.val.inter = none)
    (hNEW : igr0.modifiers.contains Modifiers.NEW = false)
    (htreat : igr0.modifiers.contains Modifiers.REF = true ∨ s.defineMode = .steps ∨ s.duplicateMode = .reference)
    (hquiet : igr0.modifiers.contains Modifiers.REF = true → s.defineMode ≠ .steps ∧ s.duplicateMode = .new)
    (hfound : sameNameIdx env (s.ingredients.toList.map (fun x => (x.name, x.modifiers))) igr0.name = some t)
    (hdefn : s.ingredients[t]? = some defn) (hloc : s.locIngr[t]? = some defLoc)
    (hrel : defn.relation = ⟨.definition rf b, tg⟩)
    (hconf : refConflict igr0.modifiers
      ⟨defn.modifiers.bits &&& (Modifiers.HIDDEN ||| Modifiers.OPT ||| Modifiers.RECIPE)⟩ = 0)
    (hq : RefChecksQuiet env li igr0.quantity defn b) :
    ingrBuild env input li igr0 s =
      (s.ingredients.size,
       { s with locIngr := s.locIngr.push li,
                ingredients := (s.ingredients.setIfInBounds t (backlinked defn rf s.ingredients.size b tg)).push
                  (asReference igr0 defn.modifiers t) }) := by
  unfold ingrBuild
  simp only [hinter, bind, StateT.bind]
  rw [rtn_ingrRegular env input li igr0 s t defn defLoc rf b tg hNEW htreat hquiet hfound hdefn hloc hrel hconf hq]
  simp only [get, getThe, MonadStateOf.get, StateT.get, pure, StateT.pure, modify, modifyGet, MonadStateOf.modifyGet,
    StateT.modifyGet, Array.size_push, Array.size_setIfInBounds, Nat.add_sub_cancel]

/-- **An ingredient that becomes a reference, in every mode** (inside a step block): written with `&` in the
    default modes, or without `&` in steps mode or in duplicate mode `reference` (an IMPLICIT reference), never
    with `+`; its name has an earlier non-REF definition, the last one at `t`; the checks of a reference are
    quiet.  The new table entry is the reference to `t` with the written and the inherited modifiers and REF
    (`asReference`), the definition lists the new index back, the step gets the item, nothing is reported. -/
theorem rtn_proc_ingredient_ref (env : Env) (input : Str) (li : Loc (PIngredient α)) (s : Col α) (items : List Item)
    (t : Nat) (defn : Ingredient (ScalableValue α)) (defLoc : Loc (PIngredient α)) (rf : List Nat) (b : Bool)
    (tg : Option RefTarget) (hb : s.block = some (.step items))
    (hinter : li.val.inter = none) (hlock : ∀ q, li.val.quantity = some q → lockOK q.val.value true)
    (hNEW : li.val.modifiers.val.contains Modifiers.NEW = false)
    (htreat : li.val.modifiers.val.contains Modifiers.REF = true ∨ s.defineMode = .steps ∨
      s.duplicateMode = .reference)
    (hquiet : li.val.modifiers.val.contains Modifiers.REF = true → s.defineMode ≠ .steps ∧ s.duplicateMode = .new)
    (hfound : sameNameIdx env (s.ingredients.toList.map (fun x => (x.name, x.modifiers))) (ingrOf env li).name = some t)
    (hdefn : s.ingredients[t]? = some defn) (hloc : s.locIngr[t]? = some defLoc)
    (hrel : defn.relation = ⟨.definition rf b, tg⟩)
    (hconf : refConflict li.val.modifiers.val
      ⟨defn.modifiers.bits &&& (Modifiers.HIDDEN ||| Modifiers.OPT ||| Modifiers.RECIPE)⟩ = 0)
    (hq : RefChecksQuiet env li (ingrOf env li).quantity defn b) :
    (processEvent env input (.ingredient li) s).2 =
      { s with
        locIngr := s.locIngr.push li,
        ingredients := (s.ingredients.setIfInBounds t (backlinked defn rf s.ingredients.size b tg)).push
          (asReference (ingrOf env li) defn.modifiers t),
        block := some (.step (items ++ [.ingredient s.ingredients.size])) } := by
  have e : processEvent env input (.ingredient li) s = inBlockComponent env input (.ingredient li) s := rfl
  rw [e, rta_inBlock_step env input _ s items hb]
  have hA : ingredientA env input li s =
      (s.ingredients.size,
       { s with locIngr := s.locIngr.push li,
                ingredients := (s.ingredients.setIfInBounds t (backlinked defn rf s.ingredients.size b tg)).push
                  (asReference (ingrOf env li) defn.modifiers t) }) := by
    unfold ingredientA
    simp only [bind, StateT.bind, rta_optQuantityOf env _ true s hlock, get, getThe, MonadStateOf.get, StateT.get, pure,
      StateT.pure]
    refine (rtn_ingrBuild env input li _ s t defn defLoc rf b tg hinter ?_ ?_ ?_ ?_ hdefn hloc hrel ?_ ?_).trans ?_
    · exact hNEW
    · exact htreat
    · exact hquiet
    · exact hfound
    · exact hconf
    · exact hq
    · rfl
  simp only [inStepComponent, bind, StateT.bind, hA]
  rw [rta_pushItem _ _ items (by exact hb)]

theorem rtn_ingrBuild_def (env : Env) (input : Str) (li : Loc (PIngredient α)) (igr0 : Ingredient (ScalableValue α))
    (s : Col α) (hinter : li.val.inter = none)
    (hREF : igr0.modifiers.contains Modifiers.REF = false)
    (hq : (igr0.modifiers.contains Modifiers.NEW = true ∧
            (s.defineMode = .steps ∨ (s.duplicateMode = .reference ∧
              (sameNameIdx env (s.ingredients.toList.map (fun x => (x.name, x.modifiers))) igr0.name).isSome = true))) ∨
          (igr0.modifiers.contains Modifiers.NEW = false ∧ s.defineMode ≠ .steps ∧
            (s.duplicateMode = .new ∨
              sameNameIdx env (s.ingredients.toList.map (fun x => (x.name, x.modifiers))) igr0.name = none))) :
    ingrBuild env input li igr0 s =
      (s.ingredients.size, { s with locIngr := s.locIngr.push li, ingredients := s.ingredients.push igr0 }) := by
  unfold ingrBuild
  simp only [hinter, bind, StateT.bind]
  unfold ingrRegular
  simp only [bind, StateT.bind, get, getThe, MonadStateOf.get, StateT.get, pure, StateT.pure,
    rtn_resolve_def env "ingredient" _ _ igr0.name igr0.modifiers li.span li.val.modifiers.span s hREF hq, modify, modifyGet,
    MonadStateOf.modifyGet, StateT.modifyGet, Array.size_push, Nat.add_sub_cancel]

/-- **An ingredient that stays a definition, in every mode but components** (inside a step block): no `&`;
    either `+` where the mode would have made it a reference, or no `+` where the mode leaves it alone
    (`rtn_resolve_def`).  It is appended as written (with `+` among its modifiers if written), `defined_in_step`. -/
theorem rtn_proc_ingredient_def (env : Env) (input : Str) (li : Loc (PIngredient α)) (s : Col α) (items : List Item)
    (hb : s.block = some (.step items)) (hne : s.defineMode ≠ .components)
    (hinter : li.val.inter = none) (hlock : ∀ q, li.val.quantity = some q → lockOK q.val.value true)
    (hREF : li.val.modifiers.val.contains Modifiers.REF = false)
    (hq : (li.val.modifiers.val.contains Modifiers.NEW = true ∧
            (s.defineMode = .steps ∨ (s.duplicateMode = .reference ∧
              (sameNameIdx env (s.ingredients.toList.map (fun x => (x.name, x.modifiers))) (ingrOf env li).name).isSome
                = true))) ∨
          (li.val.modifiers.val.contains Modifiers.NEW = false ∧ s.defineMode ≠ .steps ∧
            (s.duplicateMode = .new ∨
              sameNameIdx env (s.ingredients.toList.map (fun x => (x.name, x.modifiers))) (ingrOf env li).name = none))) :
    (processEvent env input (.ingredient li) s).2 =
      { s with locIngr := s.locIngr.push li, ingredients := s.ingredients.push (ingrOf env li),
               block := some (.step (items ++ [.ingredient s.ingredients.size])) } := by
  have e : processEvent env input (.ingredient li) s = inBlockComponent env input (.ingredient li) s := rfl
  rw [e, rta_inBlock_step env input _ s items hb]
  have hne' : (s.defineMode != DefineMode.components) = true := by
    cases hdm : s.defineMode <;> first | rfl | exact absurd hdm hne
  have hA : ingredientA env input li s =
      (s.ingredients.size, { s with locIngr := s.locIngr.push li, ingredients := s.ingredients.push (ingrOf env li) }) := by
    unfold ingredientA
    simp only [bind, StateT.bind, rta_optQuantityOf env _ true s hlock, get, getThe, MonadStateOf.get, StateT.get, pure,
      StateT.pure, hne']
    refine (rtn_ingrBuild_def env input li _ s hinter ?_ ?_).trans ?_
    · exact hREF
    · exact hq
    · rfl
  simp only [inStepComponent, bind, StateT.bind, hA]
  rw [rta_pushItem _ { s with locIngr := s.locIngr.push li, ingredients := s.ingredients.push (ingrOf env li) } items hb]

/-- an ingredient with a resolvable intermediate reference, in every mode but components: `resolve_reference`
    is not consulted at all, the modes play no part -/
theorem rtn_proc_ingredient_inter (env : Env) (input : Str) (li : Loc (PIngredient α)) (s : Col α) (items : List Item)
    (d : Loc InterData) (rel : IngredientRelation)
    (hne : s.defineMode ≠ .components) (hb : s.block = some (.step items)) (hinter : li.val.inter = some d)
    (hlock : ∀ q, li.val.quantity = some q → lockOK q.val.value true)
    (hREF : li.val.modifiers.val.contains Modifiers.REF = true)
    (hvalid : li.val.modifiers.val.bits &&& (Modifiers.RECIPE ||| Modifiers.HIDDEN ||| Modifiers.NEW) = 0)
    (hnn : 0 ≤ d.val.val) (ht : interRefTarget s.cur.content s.sections.length d.val = .ok rel) :
    (processEvent env input (.ingredient li) s).2 =
      { s with
        locIngr := s.locIngr.push li,
        ingredients := s.ingredients.push { ingrOf env li with relation := rel },
        block := some (.step (items ++ [.ingredient s.ingredients.size])) } := by
  have e : processEvent env input (.ingredient li) s = inBlockComponent env input (.ingredient li) s := rfl
  rw [e, rta_inBlock_step env input _ s items hb]
  have hne' : (s.defineMode != DefineMode.components) = true := by
    cases hdm : s.defineMode <;> first | rfl | exact absurd hdm hne
  have hA : ingredientA env input li s =
      (s.ingredients.size,
       { s with locIngr := s.locIngr.push li,
                ingredients := s.ingredients.push { ingrOf env li with relation := rel } }) := by
    unfold ingredientA
    simp only [bind, StateT.bind, rta_optQuantityOf env _ true s hlock, get, getThe, MonadStateOf.get, StateT.get, pure,
      StateT.pure, hne']
    unfold ingrBuild
    simp only [hinter, bind, StateT.bind]
    rw [rtax_ingrInter li.val _ d s rel hREF hvalid hnn ht]
    simp only [get, getThe, MonadStateOf.get, StateT.get, pure, StateT.pure, modify, modifyGet, MonadStateOf.modifyGet,
      StateT.modifyGet, Array.size_push, Nat.add_sub_cancel]
    rfl
  simp only [inStepComponent, bind, StateT.bind, hA]
  rw [rta_pushItem _ _ items (by exact hb)]

theorem rtn_cwResolve (env : Env) (input : Str) (lc : Loc (PCookware α)) (cw0 : Cookware (ScalableValue α))
    (s : Col α) (t : Nat) (defn : Cookware (ScalableValue α)) (defLoc : Loc (PCookware α)) (rf : List Nat) (b : Bool)
    (hNEW : cw0.modifiers.contains Modifiers.NEW = false)
    (htreat : cw0.modifiers.contains Modifiers.REF = true ∨ s.defineMode = .steps ∨ s.duplicateMode = .reference)
    (hquiet : cw0.modifiers.contains Modifiers.REF = true → s.defineMode ≠ .steps ∧ s.duplicateMode = .new)
    (hfound : sameNameIdx env (s.cookware.toList.map (fun x => (x.name, x.modifiers))) cw0.name = some t)
    (hdefn : s.cookware[t]? = some defn) (hloc : s.locCw[t]? = some defLoc)
    (hrel : defn.relation = .definition rf b)
    (hconf : refConflict cw0.modifiers ⟨defn.modifiers.bits &&& (Modifiers.HIDDEN ||| Modifiers.OPT)⟩ = 0)
    (hq : CwRefChecksQuiet lc cw0.quantity defn b) :
    cwResolve env input lc cw0 s =
      (cwAsReference cw0 defn.modifiers t,
       { s with cookware := s.cookware.setIfInBounds t (cwBacklinked defn rf s.cookware.size b) }) := by
  have hex : (((s.cookware.toList.map (fun x => (x.name, x.modifiers)))[t]?).map (·.2)).getD Modifiers.empty =
      defn.modifiers := by
    simp [hdefn]
  unfold cwResolve
  simp only [bind, StateT.bind, get, getThe, MonadStateOf.get, StateT.get, pure, StateT.pure]
  rw [rtn_resolve_ref env "cookware item" _ _ cw0.name cw0.modifiers lc.span lc.val.modifiers.span s t hNEW htreat hquiet
    hfound (by rw [hex]; exact hconf)]
  have hchk := rtf_cwRefChecks input lc (cwAsReference cw0 defn.modifiers t) defn defLoc rf b s hrel hq
  unfold cwAsReference cwRefMods at hchk
  simp only [bind, StateT.bind, get, getThe, MonadStateOf.get, StateT.get, pure, StateT.pure, hex, hdefn, hloc, hchk,
    cwSetReferencedFrom, hrel, modify, modifyGet, MonadStateOf.modifyGet, StateT.modifyGet]
  rfl

theorem rtn_cwBuild (env : Env) (input : Str) (lc : Loc (PCookware α)) (cw0 : Cookware (ScalableValue α))
    (s : Col α) (t : Nat) (defn : Cookware (ScalableValue α)) (defLoc : Loc (PCookware α)) (rf : List Nat) (b : Bool)
    (hNEW : cw0.modifiers.contains Modifiers.NEW = false)
    (htreat : cw0.modifiers.contains Modifiers.REF = true ∨ s.defineMode = .steps ∨ s.duplicateMode = .reference)
    (hquiet : cw0.modifiers.contains Modifiers.REF = true → s.defineMode ≠ .steps ∧ s.duplicateMode = .new)
    (hfound : sameNameIdx env (s.cookware.toList.map (fun x => (x.name, x.modifiers))) cw0.name = some t)
    (hdefn : s.cookware[t]? = some defn) (hloc : s.locCw[t]? = some defLoc)
    (hrel : defn.relation = .definition rf b)
    (hconf : refConflict cw0.modifiers ⟨defn.modifiers.bits &&& (Modifiers.HIDDEN ||| Modifiers.OPT)⟩ = 0)
    (hq : CwRefChecksQuiet lc cw0.quantity defn b) :
    cwBuild env input lc cw0 s =
      (s.cookware.size,
       { s with locCw := s.locCw.push lc,
                cookware := (s.cookware.setIfInBounds t (cwBacklinked defn rf s.cookware.size b)).push
                  (cwAsReference cw0 defn.modifiers t) }) := by
  unfold cwBuild
  simp only [bind, StateT.bind]
  rw [rtn_cwResolve env input lc cw0 s t defn defLoc rf b hNEW htreat hquiet hfound hdefn hloc hrel hconf hq]
  simp only [get, getThe, MonadStateOf.get, StateT.get, pure, StateT.pure, modify, modifyGet, MonadStateOf.modifyGet,
    StateT.modifyGet, Array.size_push, Array.size_setIfInBounds, Nat.add_sub_cancel]

/-- **A cookware item that becomes a reference, in every mode** (see `rtn_proc_ingredient_ref`) -/
theorem rtn_proc_cookware_ref (env : Env) (input : Str) (lc : Loc (PCookware α)) (s : Col α) (items : List Item)
    (t : Nat) (defn : Cookware (ScalableValue α)) (defLoc : Loc (PCookware α)) (rf : List Nat) (b : Bool)
    (hb : s.block = some (.step items))
    (hlock : ∀ q, lc.val.quantity = some q → lockOK q.val false)
    (hNEW : lc.val.modifiers.val.contains Modifiers.NEW = false)
    (htreat : lc.val.modifiers.val.contains Modifiers.REF = true ∨ s.defineMode = .steps ∨
      s.duplicateMode = .reference)
    (hquiet : lc.val.modifiers.val.contains Modifiers.REF = true → s.defineMode ≠ .steps ∧ s.duplicateMode = .new)
    (hfound : sameNameIdx env (s.cookware.toList.map (fun x => (x.name, x.modifiers))) (cwOf env lc).name = some t)
    (hdefn : s.cookware[t]? = some defn) (hloc : s.locCw[t]? = some defLoc)
    (hrel : defn.relation = .definition rf b)
    (hconf : refConflict lc.val.modifiers.val ⟨defn.modifiers.bits &&& (Modifiers.HIDDEN ||| Modifiers.OPT)⟩ = 0)
    (hq : CwRefChecksQuiet lc (cwOf env lc).quantity defn b) :
    (processEvent env input (.cookware lc) s).2 =
      { s with
        locCw := s.locCw.push lc,
        cookware := (s.cookware.setIfInBounds t (cwBacklinked defn rf s.cookware.size b)).push
          (cwAsReference (cwOf env lc) defn.modifiers t),
        block := some (.step (items ++ [.cookware s.cookware.size])) } := by
  have e : processEvent env input (.cookware lc) s = inBlockComponent env input (.cookware lc) s := rfl
  rw [e, rta_inBlock_step env input _ s items hb]
  have hA : cookwareA env input lc s =
      (s.cookware.size,
       { s with locCw := s.locCw.push lc,
                cookware := (s.cookware.setIfInBounds t (cwBacklinked defn rf s.cookware.size b)).push
                  (cwAsReference (cwOf env lc) defn.modifiers t) }) := by
    unfold cookwareA
    simp only [bind, StateT.bind, rta_optValueOf env _ s hlock, get, getThe, MonadStateOf.get, StateT.get, pure,
      StateT.pure]
    refine (rtn_cwBuild env input lc _ s t defn defLoc rf b ?_ ?_ ?_ ?_ hdefn hloc hrel ?_ ?_).trans ?_
    · exact hNEW
    · exact htreat
    · exact hquiet
    · exact hfound
    · exact hconf
    · exact hq
    · rfl
  simp only [inStepComponent, bind, StateT.bind, hA]
  rw [rta_pushItem _ _ items (by exact hb)]

theorem rtn_cwBuild_def (env : Env) (input : Str) (lc : Loc (PCookware α)) (cw0 : Cookware (ScalableValue α))
    (s : Col α) (hREF : cw0.modifiers.contains Modifiers.REF = false)
    (hq : (cw0.modifiers.contains Modifiers.NEW = true ∧
            (s.defineMode = .steps ∨ (s.duplicateMode = .reference ∧
              (sameNameIdx env (s.cookware.toList.map (fun x => (x.name, x.modifiers))) cw0.name).isSome = true))) ∨
          (cw0.modifiers.contains Modifiers.NEW = false ∧ s.defineMode ≠ .steps ∧
            (s.duplicateMode = .new ∨
              sameNameIdx env (s.cookware.toList.map (fun x => (x.name, x.modifiers))) cw0.name = none))) :
    cwBuild env input lc cw0 s =
      (s.cookware.size, { s with locCw := s.locCw.push lc, cookware := s.cookware.push cw0 }) := by
  unfold cwBuild
  simp only [bind, StateT.bind]
  unfold cwResolve
  simp only [bind, StateT.bind, get, getThe, MonadStateOf.get, StateT.get, pure, StateT.pure,
    rtn_resolve_def env "cookware item" _ _ cw0.name cw0.modifiers lc.span lc.val.modifiers.span s hREF hq, modify,
    modifyGet, MonadStateOf.modifyGet, StateT.modifyGet, Array.size_push, Nat.add_sub_cancel]

/-- **A cookware item that stays a definition, in every mode but components** (see `rtn_proc_ingredient_def`) -/
theorem rtn_proc_cookware_def (env : Env) (input : Str) (lc : Loc (PCookware α)) (s : Col α) (items : List Item)
    (hb : s.block = some (.step items)) (hne : s.defineMode ≠ .components)
    (hlock : ∀ q, lc.val.quantity = some q → lockOK q.val false)
    (hREF : lc.val.modifiers.val.contains Modifiers.REF = false)
    (hq : (lc.val.modifiers.val.contains Modifiers.NEW = true ∧
            (s.defineMode = .steps ∨ (s.duplicateMode = .reference ∧
              (sameNameIdx env (s.cookware.toList.map (fun x => (x.name, x.modifiers))) (cwOf env lc).name).isSome
                = true))) ∨
          (lc.val.modifiers.val.contains Modifiers.NEW = false ∧ s.defineMode ≠ .steps ∧
            (s.duplicateMode = .new ∨
              sameNameIdx env (s.cookware.toList.map (fun x => (x.name, x.modifiers))) (cwOf env lc).name = none))) :
    (processEvent env input (.cookware lc) s).2 =
      { s with locCw := s.locCw.push lc, cookware := s.cookware.push (cwOf env lc),
               block := some (.step (items ++ [.cookware s.cookware.size])) } := by
  have e : processEvent env input (.cookware lc) s = inBlockComponent env input (.cookware lc) s := rfl
  rw [e, rta_inBlock_step env input _ s items hb]
  have hne' : (s.defineMode != DefineMode.components) = true := by
    cases hdm : s.defineMode <;> first | rfl | exact absurd hdm hne
  have hA : cookwareA env input lc s =
      (s.cookware.size, { s with locCw := s.locCw.push lc, cookware := s.cookware.push (cwOf env lc) }) := by
    unfold cookwareA
    simp only [bind, StateT.bind, rta_optValueOf env _ s hlock, get, getThe, MonadStateOf.get, StateT.get, pure,
      StateT.pure, hne']
    refine (rtn_cwBuild_def env input lc _ s ?_ ?_).trans ?_
    · exact hREF
    · exact hq
    · rfl
  simp only [inStepComponent, bind, StateT.bind, hA]
  rw [rta_pushItem _ { s with locCw := s.locCw.push lc, cookware := s.cookware.push (cwOf env lc) } items hb]

/-- a text inside a step block in every mode but components (`rts_proc_text` has the default mode only) -/
theorem rtn_proc_text (env : Env) (input : Str) (t : Text) (s : Col α) (items : List Item)
    (hinl : TextInlOK (α := α) env t) (hne : s.defineMode ≠ .components) (hb : s.block = some (.step items)) :
    (processEvent env input (.text t) s).2 = { s with block := some (.step (items ++ [.text t.text])) } := by
  have hne' : (s.defineMode == DefineMode.components) = false := by
    cases hdm : s.defineMode <;> first | rfl | exact absurd hdm hne
  have e : processEvent env input (.text t) s = inStepText env t s := rfl
  rw [e]
  unfold inStepText
  simp only [bind, StateT.bind, get, getThe, MonadStateOf.get, StateT.get, pure, StateT.pure, hb]
  unfold inStepTextStep
  by_cases hext : env.ext.has Gen.EXT_INLINE_QUANTITIES = true
  · obtain ⟨hnn, hnone⟩ := hinl hext
    have hloop : inlineLoop (α := α) env (t.text.length + 1) t.text items s.inlineQ = (items ++ [.text t.text], s.inlineQ) := by
      unfold inlineLoop
      simp only [hnone]
      have : t.text.isEmpty = false := by cases ht : t.text <;> simp_all
      simp [this]
    simp [bind, StateT.bind, get, getThe, MonadStateOf.get, StateT.get, pure, StateT.pure, hne', hext, hloop, modify,
      modifyGet, MonadStateOf.modifyGet, StateT.modifyGet]
  · simp [bind, StateT.bind, get, getThe, MonadStateOf.get, StateT.get, pure, StateT.pure, hne', hext, modify,
      modifyGet, MonadStateOf.modifyGet, StateT.modifyGet]

end Cook
